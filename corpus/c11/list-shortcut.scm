(define s (range 0 10))
(equal? (append s (list 1)) (append s (list 2)))   ; was #t
(equal? (append s (list 1)) s)                     ; was #t
(define l (range 0 1000))
(equal? l (take l 600))                            ; was #t
