;; observations made while building the C03 check (not C03 failures)
;; 1. JIT on: a call with 9 or more arguments inside a procedure returns its first argument (C02):
(define (a9) (let ((x (list 1 2 3 4 5 6 7 8 9))) x))
(a9)   ; => 1 with the JIT, (1 2 3 4 5 6 7 8 9) with STEEL_JIT=false
;; 2. closures capture variables their body never references; such a capture may copy a slot that
;;    MOVEREADLOCAL already vacated (the closure then holds #<void> in a dead capture) - unobservable:
(define (m) (let* ((n1 (list 1 2)) (t (lambda () n1)) (n4 n1) (k (lambda () n4)) (o (c03-twice n4 (lambda (w) (let loop ((i 0) (acc w)) (if (< i 3) (loop (+ i 1) (cons i acc)) acc)))))) (list o (k))))
