(* C12 — read (write d) = d, lexer side (tokens of a written datum, rationals) and the final theorem. *)
From Coq Require Import NArith ZArith List Bool Ascii String Lia.
From SV Require Import c12.Model_C12 c12.Proofs_C12.
From SV Require Import c12.Proofs_C12_Parse.
Import ListNotations.
Open Scope N_scope.

Lemma lex_all_tok : forall fuel s tks start rest,
  (0 < fuel)%nat -> lex_one fuel s = LToks tks start rest ->
  lex_all fuel s = option_map (app (map (fun t => (t, blen start, blen rest)) tks)) (lex_all (fuel - 1) rest).
Proof.
  intros fuel s tks start rest Hf H. destruct fuel as [|f]; [lia|].
  cbn [lex_all]. rewrite H. replace (S f - 1)%nat with f by lia. destruct (lex_all f rest); reflexivity.
Qed.

Lemma lex_all_space : forall fuel s, lex_all fuel (32 :: s) = lex_all fuel s.
Proof. intros [|f] s; reflexivity. Qed.

Lemma lex_one_lparen : forall fuel s, lex_one fuel (40 :: s) = LToks [TOpen Round None] (40 :: s) s.
Proof. reflexivity. Qed.
Lemma lex_one_rparen : forall fuel s, lex_one fuel (41 :: s) = LToks [TClose Round] (41 :: s) s.
Proof. reflexivity. Qed.
Lemma lex_one_vec : forall fuel s, lex_one fuel (35 :: 40 :: s) = LToks [TOpen Round (Some PVector)] (35 :: 40 :: s) s.
Proof. reflexivity. Qed.
Lemma lex_one_bytes : forall fuel s,
  lex_one fuel (35 :: 117 :: 56 :: 40 :: s) = LToks [TOpen Round (Some PBytes)] (35 :: 117 :: 56 :: 40 :: s) s.
Proof. reflexivity. Qed.
Lemma lex_one_dot : forall fuel s, lex_one fuel (46 :: 32 :: s) = LToks [TDot] (46 :: 32 :: s) (32 :: s).
Proof. reflexivity. Qed.

(* ------------------------------------------------------------------ rationals n/d *)
Definition sgn_digits (s : text) : Prop :=
  exists sgn l, s = sgn ++ l /\ (sgn = [] \/ sgn = [45]) /\ digs l /\ l <> [].

Lemma write_int_sgn_digits : forall z, sgn_digits (write_int z).
Proof.
  intros z. destruct z as [|p|p]; cbn [write_int].
  - exists [], [48]. split; [reflexivity|]. split; [left; reflexivity|]. split; [repeat constructor|discriminate].
  - destruct (write_nat_spec (N.pos p)) as [Hd [Hne _]]. exists [], (write_nat (N.pos p)). repeat split; auto.
  - destruct (write_nat_spec (N.pos p)) as [Hd [Hne _]]. exists [45], (write_nat (N.pos p)). repeat split; auto.
Qed.

Lemma parse_int_write : forall z, parse_int 10 (write_int z) = Some z.
Proof.
  intros z. destruct z as [|p|p]; cbn [write_int].
  - reflexivity.
  - destruct (write_nat_spec (N.pos p)) as [Hd [Hne Hp]]. unfold parse_int.
    destruct (write_nat (N.pos p)) as [|c l] eqn:E; [congruence|]. inversion Hd as [|? ? Hc Hl]; subst.
    apply digit_range in Hc.
    assert (E1 : (c =? 43) = false) by (apply N.eqb_neq; lia).
    assert (E2 : (c =? 45) = false) by (apply N.eqb_neq; lia). rewrite E1, E2, Hp. reflexivity.
  - destruct (write_nat_spec (N.pos p)) as [Hd [Hne Hp]]. unfold parse_int.
    change (45 =? 43) with false. change (45 =? 45) with true. cbv iota. rewrite Hp. reflexivity.
Qed.

Lemma sgn_digits_noc : forall s c, sgn_digits s -> is_digit c = false -> c <> 45 ->
  forallb (fun x => negb (x =? c)) s = true.
Proof.
  intros s c [sgn [l [E [Hs [Hd Hne]]]]] Hc H45. subst s. rewrite forallb_app, (digs_not l c Hd Hc), andb_true_r.
  destruct Hs; subst sgn; [reflexivity|]. cbn [forallb]. rewrite andb_true_r. apply negb_true_iff. apply N.eqb_neq. congruence.
Qed.

Lemma split_at_first : forall c a b, forallb (fun x => negb (x =? c)) a = true -> split_at_char c (a ++ c :: b) = Some (a, b).
Proof.
  induction a as [|x a IH]; intros b H.
  - cbn [app split_at_char]. rewrite N.eqb_refl. reflexivity.
  - cbn [forallb] in H. apply andb_true_iff in H. destruct H as [Hx Ha]. apply negb_true_iff in Hx.
    cbn [app split_at_char]. rewrite Hx, IH by exact Ha. reflexivity.
Qed.

Lemma count_app : forall c a b, count c (a ++ b) = (count c a + count c b)%nat.
Proof. intros. unfold count. rewrite filter_app, app_length. reflexivity. Qed.

Lemma forallb_noc_app : forall c a b,
  forallb (fun x => negb (x =? c)) a = true -> forallb (fun x => negb (x =? c)) b = true ->
  forallb (fun x => negb (x =? c)) (a ++ b) = true.
Proof. intros. rewrite forallb_app, H, H0. reflexivity. Qed.

Definition nosign (c : N) : bool := negb ((c =? 43) || (c =? 45) || (c =? 101) || (c =? 69)).
Lemma nosign_sign_idxs : forall l i acc, forallb nosign l = true -> sign_idxs l i acc = Some (rev acc).
Proof.
  induction l as [|c l IH]; intros i acc H; [reflexivity|]. cbn [forallb] in H. apply andb_true_iff in H.
  destruct H as [Hc Hl]. unfold nosign in Hc. apply negb_true_iff in Hc.
  repeat (apply orb_false_iff in Hc; destruct Hc as [Hc ?]).
  cbn [sign_idxs]. rewrite Hc, H1, H0, H. cbn [orb]. apply IH. exact Hl.
Qed.
Lemma digs_nosign : forall l, digs l -> forallb nosign l = true.
Proof.
  induction 1 as [|c l Hc Hl IH]; [reflexivity|]. cbn [forallb]. rewrite IH, andb_true_r.
  apply digit_range in Hc. unfold nosign.
  assert (E1 : (c =? 43) = false) by (apply N.eqb_neq; lia).
  assert (E2 : (c =? 45) = false) by (apply N.eqb_neq; lia).
  assert (E3 : (c =? 101) = false) by (apply N.eqb_neq; lia).
  assert (E4 : (c =? 69) = false) by (apply N.eqb_neq; lia). rewrite E1, E2, E3, E4. reflexivity.
Qed.

Lemma inf_nan_false : forall sgn h r, (sgn = [] \/ sgn = [45]) -> is_digit h = true ->
  (text_eqb (sgn ++ h :: r) [45; 105; 110; 102; 46; 48] || text_eqb (sgn ++ h :: r) [43; 105; 110; 102; 46; 48]
   || text_eqb (sgn ++ h :: r) [43; 110; 97; 110; 46; 48] || text_eqb (sgn ++ h :: r) [45; 110; 97; 110; 46; 48]) = false.
Proof.
  intros sgn h r Hs Hh. apply digit_range in Hh. destruct Hs; subst sgn; cbn [app text_eqb].
  - assert (E1 : (h =? 45) = false) by (apply N.eqb_neq; lia).
    assert (E2 : (h =? 43) = false) by (apply N.eqb_neq; lia). rewrite E1, E2. reflexivity.
  - change (45 =? 45) with true. change (45 =? 43) with false.
    assert (E1 : (h =? 105) = false) by (apply N.eqb_neq; lia).
    assert (E2 : (h =? 110) = false) by (apply N.eqb_neq; lia). rewrite E1, E2. reflexivity.
Qed.

(* the text n/d with d a positive numeral *)
Lemma parse_number_rat : forall n p,
  parse_number (write_int n ++ 47 :: write_nat (N.pos p)) = PNum (NRat n (Z.pos p)).
Proof.
  intros n p. set (wn := write_int n). set (wd := write_nat (N.pos p)).
  destruct (write_int_sgn_digits n) as [sgn [l [En [Hs [Hdl Hnel]]]]]. fold wn in En.
  destruct (write_nat_spec (N.pos p)) as [Hdd [Hned Hpd]]. fold wd in Hdd, Hned, Hpd.
  assert (Hsd : sgn_digits wn) by (exists sgn, l; auto).
  assert (Hno : forall c, is_digit c = false -> c <> 45 -> c <> 47 ->
                forallb (fun x => negb (x =? c)) (wn ++ 47 :: wd) = true).
  { intros c Hc H45 H47. apply forallb_noc_app; [apply sgn_digits_noc; assumption|].
    cbn [forallb]. rewrite (digs_not wd c Hdd Hc), andb_true_r. apply negb_true_iff, N.eqb_neq. congruence. }
  destruct l as [|h l']; [congruence|]. inversion Hdl as [|? ? Hh Hl']; subst.
  pose proof (digit_range h Hh) as Hr.
  unfold parse_number.
  assert (Hpre : radix_prefix (wn ++ 47 :: wd) = (wn ++ 47 :: wd, 10)).
  { unfold radix_prefix. rewrite En. destruct Hs; subst sgn; cbn [app].
    - destruct (l' ++ 47 :: wd) eqn:E; [destruct l'; discriminate|].
      assert (E35 : (h =? 35) = false) by (apply N.eqb_neq; lia). rewrite E35. reflexivity.
    - reflexivity. }
  rewrite Hpre. cbn [fst snd].
  rewrite (noc_split 64) by (apply Hno; [reflexivity|discriminate|discriminate]).
  assert (Hsplit : split_into_complex (wn ++ 47 :: wd) = Some [PReal (wn ++ 47 :: wd)]).
  { unfold split_into_complex.
    assert (Hcp : classify_part (wn ++ 47 :: wd) = PReal (wn ++ 47 :: wd)).
    { apply classify_part_real.
      - destruct wn; discriminate.
      - rewrite last_app_ne by discriminate. change (47 :: wd) with ([47] ++ wd).
        rewrite last_app_ne by exact Hned. apply digs_last; assumption. }
    assert (Hns : forallb nosign ((h :: l') ++ 47 :: wd) = true).
    { rewrite forallb_app. rewrite (digs_nosign _ Hdl). cbn [forallb andb]. change (nosign 47) with true.
      cbn [andb]. apply digs_nosign. exact Hdd. }
    destruct Hs; subst sgn; cbn [app] in En.
    + rewrite <- En in Hns. rewrite nosign_sign_idxs by exact Hns. cbn [rev]. rewrite Hcp. reflexivity.
    + rewrite En in Hcp |- *. change ((45 :: h :: l') ++ 47 :: wd) with (45 :: ((h :: l') ++ 47 :: wd)) in *.
      cbn [sign_idxs]. change ((45 =? 43) || (45 =? 45)) with true. cbv iota. cbn [List.length Nat.eqb].
      rewrite nosign_sign_idxs by exact Hns. change (rev [0%nat]) with [0%nat]. cbv iota beta. rewrite Hcp. reflexivity. }
  rewrite Hsplit. unfold parse_real. norm_cps.
  assert (Einf := inf_nan_false sgn h (l' ++ 47 :: wd) Hs Hh).
  replace (sgn ++ h :: l' ++ 47 :: wd) with (wn ++ 47 :: wd) in Einf by (rewrite En, <- app_assoc; reflexivity).
  rewrite Einf. change (10 <? 15) with true. cbv iota.
  rewrite (noc_count 101), (noc_count 69), (noc_count 46) by (apply Hno; [reflexivity|discriminate|discriminate]).
  assert (Hc47 : count 47 (wn ++ 47 :: wd) = 1%nat).
  { rewrite count_app. rewrite (noc_count 47 wn) by (apply sgn_digits_noc; [assumption|reflexivity|discriminate]).
    unfold count. cbn [filter]. change (47 =? 47) with true. cbv iota. cbn [List.length].
    fold (count 47 wd). rewrite (noc_count 47 wd) by (apply digs_not; [assumption|reflexivity]). reflexivity. }
  rewrite Hc47. cbn [Nat.add Nat.ltb Nat.leb orb]. 
  rewrite split_at_first by (apply sgn_digits_noc; [assumption|reflexivity|discriminate]).
  unfold wn. rewrite parse_int_write.
  assert (Hpd' : parse_int 10 wd = Some (Z.pos p)).
  { change wd with (write_int (Z.pos p)). apply parse_int_write. }
  rewrite Hpd'. reflexivity.
Qed.

Lemma read_number_numy : forall l fuel acc t,
  forallb is_numberish l = true -> delim_start t ->
  read_number fuel (l ++ t) acc = finish_number fuel t (rev l ++ acc).
Proof.
  induction l as [|c l IH]; intros fuel acc t Hl Ht.
  - cbn [app rev]. destruct t as [|d t']; [reflexivity|]. cbn in Ht. destruct Ht; subst; reflexivity.
  - cbn [forallb] in Hl. apply andb_true_iff in Hl. destruct Hl as [Hc Hl]. cbn [app read_number].
    rewrite Hc. rewrite IH by assumption. cbn [rev]. rewrite <- app_assoc. reflexivity.
Qed.

Lemma digs_numberish : forall l, digs l -> forallb is_numberish l = true.
Proof.
  induction 1 as [|c l Hc Hl IH]; [reflexivity|]. cbn [forallb]. rewrite IH, andb_true_r.
  unfold is_numberish. rewrite Hc. reflexivity.
Qed.

Theorem rational_roundtrip_lex_ : forall n p t fuel,
  delim_start t ->
  lex_one fuel ((write_int n ++ 47 :: write_nat (N.pos p)) ++ t)
  = LToks [TNum (NRat n (Z.pos p))] ((write_int n ++ 47 :: write_nat (N.pos p)) ++ t) t.
Proof.
  intros n p t fuel Ht.
  pose proof (parse_number_rat n p) as Hpn.
  destruct (write_nat_spec (N.pos p)) as [Hdd [Hned _]].
  assert (Hnd : forallb is_numberish (47 :: write_nat (N.pos p)) = true).
  { cbn [forallb]. rewrite (digs_numberish _ Hdd). reflexivity. }
  destruct (write_int_sgn_digits n) as [sgn [l [En [Hs [Hdl Hnel]]]]].
  destruct l as [|h l']; [congruence|]. inversion Hdl as [|? ? Hh Hl']; subst.
  rewrite En in *. destruct Hs; subst sgn; cbn [app] in *.
  - rewrite lex_one_digit_start by exact Hh.
    change (h :: (l' ++ 47 :: write_nat (N.pos p)) ++ t) with (((h :: l') ++ 47 :: write_nat (N.pos p)) ++ t).
    rewrite read_number_numy; [|rewrite forallb_app, (digs_numberish _ Hdl), Hnd; reflexivity|exact Ht].
    unfold finish_number. rewrite app_nil_r, rev_involutive. cbn [app]. rewrite Hpn. reflexivity.
  - unfold lex_one. cbn [skip_ws]. change (is_ws 45) with false. cbv iota.
    change (45 =? 59) with false. change (45 =? 34) with false. change (45 =? 40) with false.
    change (45 =? 91) with false. change (45 =? 123) with false. change (45 =? 41) with false.
    change (45 =? 93) with false. change (45 =? 125) with false. change (45 =? 39) with false.
    change (45 =? 96) with false. change (45 =? 44) with false.
    change ((45 =? 43) || (45 =? 45) || (45 =? 46)) with true. cbv iota.
    change (h :: (l' ++ 47 :: write_nat (N.pos p)) ++ t) with (((h :: l') ++ 47 :: write_nat (N.pos p)) ++ t).
    rewrite read_number_numy; [|rewrite forallb_app, (digs_numberish _ Hdl), Hnd; reflexivity|exact Ht].
    unfold finish_number. rewrite rev_app_distr, rev_involutive. cbn [rev app]. rewrite Hpn. reflexivity.
Qed.

Definition write_rat (n d : Z) : text := write_int n ++ 47 :: write_int d.

Theorem rational_roundtrip_read_ : forall n d,
  (1 < d)%Z -> Z.gcd n d = 1%Z -> read_first (write_rat n d) = ROk (DRat n d) 0.
Proof.
  intros n d Hd Hg. destruct d as [|p|p]; try lia. unfold write_rat. cbn [write_int].
  pose proof (norm_rat_reduced n (Z.pos p) Hd Hg) as Hnr.
  replace (DRat n (Z.pos p)) with (tok_to_datum (TNum (NRat n (Z.pos p)))) by exact Hnr.
  apply read_single_token; try reflexivity.
  - cbn [tok_to_datum]. rewrite Hnr. reflexivity.
  - destruct (write_int_shape n) as [c [l [E Hc]]]. rewrite E. cbn [app]. apply strip_shebang_hd.
    destruct Hc as [Hc|Hc]; [apply digit_range in Hc; apply N.eqb_neq; lia|subst; reflexivity].
  - pose proof (rational_roundtrip_lex_ n p [] (S (List.length (write_int n ++ 47 :: write_nat (N.pos p)))) I) as H.
    rewrite app_nil_r in H. exact H.
Qed.

(* ------------------------------------------------------------------ lexing a written datum *)
Lemma symbol_lex_tok : forall s t fuel,
  sym_plain s = true -> delim_start t -> lex_one fuel (s ++ t) = LToks [sym_tok s] (s ++ t) t.
Proof.
  intros s t fuel Hp Ht. unfold sym_plain in Hp. destruct s as [|c s']; [discriminate|].
  apply andb_true_iff in Hp. destruct Hp as [Hp Hal]. apply andb_true_iff in Hp. destruct Hp as [Hf Hall].
  assert (Hc : plain_ch c = true).
  { cbn [forallb] in Hall. apply andb_true_iff in Hall. tauto. }
  unfold plain_ch in Hc. apply andb_true_iff in Hc. destruct Hc as [Hc H124].
  apply andb_true_iff in Hc. destruct Hc as [Hwb H92].
  apply negb_true_iff in Hwb. apply negb_true_iff in H92. apply negb_true_iff in H124.
  unfold first_ok in Hf. apply andb_true_iff in Hf. destruct Hf as [Hnd Hnm].
  apply negb_true_iff in Hnd. apply negb_true_iff in Hnm.
  unfold is_word_break, mem, c_lparen, c_lbrack, c_rparen, c_rbrack, c_lbrace, c_rbrace, c_dquote, c_semi in Hwb.
  cbn [existsb] in Hwb. unfold mem in Hnm. cbn [existsb] in Hnm.
  repeat match goal with H : (_ || _) = false |- _ => apply orb_false_iff in H; destruct H end.
  assert (Hlex : lex_one fuel ((c :: s') ++ t) = of_sres ((c :: s') ++ t) (read_word_plain ((c :: s') ++ t) [])).
  { cbn [app]. unfold lex_one. cbn [skip_ws].
    repeat match goal with H : _ = false |- _ => rewrite H end.
    cbn [orb]. unfold read_word. rewrite H124. reflexivity. }
  unfold read_word_plain in Hlex. rewrite word_plain_plain in Hlex by assumption.
  rewrite app_nil_r, rev_involutive in Hlex. unfold classify_word in Hlex. unfold sym_tok.
  destruct (kw_of_word (c :: s')) as [tk|] eqn:Ek; [exact Hlex|].
  destruct s' as [|c2 s'']; [exact Hlex|].
  assert (E43 : (c =? 43) = false) by assumption. rewrite E43 in Hlex. exact Hlex.
Qed.

Lemma atom_lex : forall pr d tk, rep d -> atom_toks d = Some tk ->
  forall t fuel, delim_start t -> (List.length (write_u pr d ++ t) < fuel)%nat ->
  lex_one fuel (write_u pr d ++ t) = LToks [tk] (write_u pr d ++ t) t.
Proof.
  intros pr d tk Hr Ha t fuel Ht Hf. destruct d; cbn in Ha; inversion Ha; subst; cbn [write_u] in *.
  - apply integer_roundtrip_lex. exact Ht.
  - destruct Hr as [Hd _]. destruct d as [|p|p]; try lia. cbn [write_int]. apply rational_roundtrip_lex_. exact Ht.
  - destruct b; norm_cps; destruct t as [|c t']; try reflexivity; cbn in Ht; destruct Ht; subst; reflexivity.
  - apply char_roundtrip_lex; assumption.
  - apply string_roundtrip_lex; [exact Hr|]. rewrite app_length in Hf. unfold write_string in Hf.
    cbn [List.length] in Hf. rewrite app_length in Hf. pose proof (length_flat_map_esc pr s). lia.
  - apply symbol_lex_tok; assumption.
Qed.

Lemma write_u_atom_nonempty : forall pr d tk, rep d -> atom_toks d = Some tk -> write_u pr d <> [].
Proof.
  intros pr d tk Hr Ha. destruct d; cbn in Ha; try discriminate; cbn [write_u].
  all: try (unfold write_string; intro H; inversion H; fail).
  all: try (destruct b; intro H; inversion H; fail).
  all: try (destruct (write_char_shape pr c) as [body E]; rewrite E; intro H; inversion H; fail).
  all: try (destruct s; [cbn in Hr; discriminate Hr|intro H; inversion H]; fail).
  all: match goal with |- context [write_int ?z] =>
         destruct (write_int_shape z) as [c0 [l0 [E _]]]; rewrite E; intro H; inversion H end.
Qed.

Definition L (pr : N -> bool) (d : datum) : Prop := rep d ->
  forall t fuel, delim_start t -> (List.length (write_u pr d ++ t) < fuel)%nat ->
  exists (ts : list stok) (x : stok),
    map tokof (ts ++ [x]) = tk_of d /\ snd x = blen t /\
    (List.length (ts ++ [x]) <= List.length (write_u pr d))%nat /\
    lex_all fuel (write_u pr d ++ t) = option_map (app (ts ++ [x])) (lex_all (fuel - List.length (ts ++ [x])) t).

Lemma L_atom : forall pr d tk, atom_toks d = Some tk -> tk_of d = [tk] -> L pr d.
Proof.
  intros pr d tk Ha Htk. unfold L. intros Hr t fuel Ht Hf.
  pose proof (atom_lex pr d tk Hr Ha t fuel Ht Hf) as Hl.
  exists [], (tk, blen (write_u pr d ++ t), blen t). cbn [app map tokof fst snd List.length].
  split; [symmetry; exact Htk|]. split; [reflexivity|]. split.
  - pose proof (write_u_atom_nonempty pr d tk Hr Ha) as Hne. destruct (write_u pr d); [congruence|cbn; lia].
  - rewrite (lex_all_tok fuel _ [tk] _ t) by (try lia; exact Hl). reflexivity.
Qed.

Lemma omap_app : forall (a b : list stok) z,
  option_map (app a) (option_map (app b) z) = option_map (app (a ++ b)) z.
Proof. intros a b [z|]; cbn; [rewrite app_assoc|]; reflexivity. Qed.
Lemma omap_nil : forall z : option (list stok), option_map (app []) z = z.
Proof. intros [z|]; reflexivity. Qed.

(* a piece of text that lexes to the tokens [toks] whatever follows (a delimiter) *)
Definition Item (w : text) (toks : list tok) : Prop :=
  forall t fuel, delim_start t -> (List.length (w ++ t) < fuel)%nat ->
  exists ts : list stok, map tokof ts = toks /\ (List.length ts <= List.length w)%nat /\
    lex_all fuel (w ++ t) = option_map (app ts) (lex_all (fuel - List.length ts) t).

Lemma L_Item : forall pr d, L pr d -> rep d -> Item (write_u pr d) (tk_of d).
Proof.
  intros pr d HL Hr t fuel Ht Hf. destruct (HL Hr t fuel Ht Hf) as [ts [x [H1 [_ [H3 H4]]]]].
  exists (ts ++ [x]). auto.
Qed.

Lemma sep_lex : forall ws tks, Forall2 Item ws tks ->
  forall t fuel, delim_start t -> (List.length (sep_by ws ++ t) < fuel)%nat ->
  exists ts : list stok, map tokof ts = List.concat tks /\ (List.length ts <= List.length (sep_by ws))%nat /\
    lex_all fuel (sep_by ws ++ t) = option_map (app ts) (lex_all (fuel - List.length ts) t).
Proof.
  induction 1 as [|w tk ws tks Hw Hrest IH]; intros t fuel Ht Hf.
  - exists []. cbn [sep_by app List.concat map List.length]. rewrite Nat.sub_0_r, omap_nil. auto.
  - destruct Hrest as [|w2 tk2 ws2 tks2 Hw2 Hrest2].
    + cbn [sep_by List.concat] in *. rewrite app_nil_r. apply Hw; assumption.
    + change (sep_by (w :: w2 :: ws2)) with (w ++ 32 :: sep_by (w2 :: ws2)) in *.
      set (R := sep_by (w2 :: ws2)) in *. rewrite <- app_assoc in *. cbn [app] in *.
      destruct (Hw (32 :: R ++ t) fuel (or_introl eq_refl) Hf) as [ts1 [H1 [H2 H3]]].
      rewrite lex_all_space in H3.
      assert (Hf2 : (List.length (R ++ t) < fuel - List.length ts1)%nat).
      { rewrite app_length in Hf. cbn [List.length] in Hf. lia. }
      destruct (IH t (fuel - List.length ts1)%nat Ht Hf2) as [ts2 [G1 [G2 G3]]].
      exists (ts1 ++ ts2). split; [|split].
      * rewrite map_app, H1, G1. reflexivity.
      * rewrite !app_length. cbn [List.length]. lia.
      * rewrite H3, G3, omap_app. rewrite app_length, Nat.sub_add_distr. reflexivity.
Qed.

Lemma wrap_lex : forall op tko body btoks,
  op <> [] -> (forall fuel s, lex_one fuel (op ++ s) = LToks [tko] (op ++ s) s) ->
  Item body btoks ->
  forall t fuel, (List.length ((op ++ body ++ [41%N]) ++ t) < fuel)%nat ->
  exists (ts : list stok) (x : stok),
    map tokof (ts ++ [x]) = tko :: btoks ++ [TClose Round] /\ snd x = blen t /\
    (List.length (ts ++ [x]) <= List.length (op ++ body ++ [41%N]))%nat /\
    lex_all fuel ((op ++ body ++ [41]) ++ t) = option_map (app (ts ++ [x])) (lex_all (fuel - List.length (ts ++ [x])) t).
Proof.
  intros op tko body btoks Hop Hlo Hb t fuel Hf.
  assert (Etext : (op ++ body ++ [41]) ++ t = op ++ (body ++ 41 :: t)).
  { rewrite <- !app_assoc. reflexivity. }
  rewrite Etext in *.
  assert (Hlen : (List.length op >= 1)%nat) by (destruct op; [congruence|cbn; lia]).
  rewrite app_length in Hf.
  rewrite (lex_all_tok fuel _ [tko] (op ++ body ++ 41 :: t) (body ++ 41 :: t)) by (try lia; apply Hlo).
  destruct (Hb (41 :: t) (fuel - 1)%nat (or_intror eq_refl)) as [tsb [B1 [B2 B3]]]; [lia|].
  rewrite B3.
  assert (Hf3 : (0 < fuel - 1 - List.length tsb)%nat).
  { rewrite app_length in Hf. cbn [List.length] in Hf. lia. }
  rewrite (lex_all_tok _ _ [TClose Round] (41 :: t) t Hf3 (lex_one_rparen _ _)).
  rewrite !omap_app.
  exists ((tko, blen (op ++ body ++ 41 :: t), blen (body ++ 41 :: t)) :: tsb), (TClose Round, blen (41 :: t), blen t).
  split; [|split; [reflexivity|split]].
  - cbn [map app]. rewrite map_app. cbn [map tokof fst]. rewrite B1. reflexivity.
  - cbn [List.length app]. rewrite !app_length. cbn [List.length]. lia.
  - match goal with |- _ = option_map _ (lex_all ?n t) =>
      replace n with (fuel - 1 - List.length tsb - 1)%nat by (rewrite app_length; cbn [List.length]; lia) end.
    reflexivity.
Qed.

(* byte vector elements #xHH: a finite check over the 256 values *)
Definition byte_check (b : N) : bool :=
  match parse_number [35; 120; hex_digit_up (b / 16); hex_digit_up (b mod 16)] with
  | PNum (NInt z) => (z =? Z.of_N b)%Z
  | _ => false
  end && forallb is_numberish [hex_digit_up (b / 16); hex_digit_up (b mod 16)].
Lemma byte_check_all : forallb byte_check (map N.of_nat (seq 0 256)) = true.
Proof. vm_compute. reflexivity. Qed.
Lemma byte_check_ok : forall b, b < 256 -> byte_check b = true.
Proof.
  intros b Hb. pose proof byte_check_all as H. rewrite forallb_forall in H. apply H.
  apply in_map_iff. exists (N.to_nat b). split; [apply Nnat.N2Nat.id|]. apply in_seq. lia.
Qed.

Lemma byte_item : forall b, b < 256 -> Item (write_byte b) [byte_tok b].
Proof.
  intros b Hb t fuel Ht Hf. pose proof (byte_check_ok b Hb) as Hc. unfold byte_check in Hc.
  apply andb_true_iff in Hc. destruct Hc as [Hpn Hnum].
  destruct (parse_number [35; 120; hex_digit_up (b / 16); hex_digit_up (b mod 16)]) as [|[z| | | |]|] eqn:Epn; try discriminate.
  apply Z.eqb_eq in Hpn. subst z.
  assert (Hl : lex_one fuel (write_byte b ++ t) = LToks [byte_tok b] (write_byte b ++ t) t).
  { unfold write_byte. cbn [app]. unfold lex_one. cbn [skip_ws]. change (is_ws 35) with false. cbv iota.
    change (35 =? 59) with false. change (35 =? 34) with false. change (35 =? 40) with false.
    change (35 =? 91) with false. change (35 =? 123) with false. change (35 =? 41) with false.
    change (35 =? 93) with false. change (35 =? 125) with false. change (35 =? 39) with false.
    change (35 =? 96) with false. change (35 =? 44) with false.
    change ((35 =? 43) || (35 =? 45) || (35 =? 46)) with false. change (35 =? 35) with true. cbv iota.
    norm_cps. change (mem 120 [120; 88; 100; 68; 111; 79; 98; 66]) with true. cbv iota.
    change (hex_digit_up (b / 16) :: hex_digit_up (b mod 16) :: t) with ([hex_digit_up (b / 16); hex_digit_up (b mod 16)] ++ t).
    rewrite read_number_numy by assumption. unfold finish_number. cbn [rev app]. rewrite Epn. reflexivity. }
  exists [(byte_tok b, blen (write_byte b ++ t), blen t)]. split; [reflexivity|]. split; [cbn; lia|].
  rewrite (lex_all_tok fuel _ [byte_tok b] _ t) by (try lia; exact Hl). reflexivity.
Qed.

Lemma concat_map_single : forall (A B : Type) (f : A -> B) l, List.concat (map (fun x => [f x]) l) = map f l.
Proof. induction l; cbn; [|rewrite IHl]; reflexivity. Qed.

Lemma pair_item : forall wa wb ta tb, Item wa ta -> Item wb tb ->
  Item (wa ++ [32; 46; 32] ++ wb) (ta ++ TDot :: tb).
Proof.
  intros wa wb ta tb Ha Hb t fuel Ht Hf.
  assert (Etext : (wa ++ [32; 46; 32] ++ wb) ++ t = wa ++ 32 :: 46 :: 32 :: (wb ++ t)).
  { rewrite <- !app_assoc. reflexivity. }
  rewrite Etext in *. rewrite app_length in Hf. cbn [List.length] in Hf.
  destruct (Ha (32 :: 46 :: 32 :: wb ++ t) fuel (or_introl eq_refl)) as [ts1 [A1 [A2 A3]]].
  { rewrite app_length. cbn [List.length]. lia. }
  rewrite A3, lex_all_space.
  assert (Hf2 : (0 < fuel - List.length ts1)%nat) by lia.
  rewrite (lex_all_tok _ _ [TDot] (46 :: 32 :: wb ++ t) (32 :: wb ++ t) Hf2 (lex_one_dot _ _)).
  rewrite lex_all_space.
  destruct (Hb t (fuel - List.length ts1 - 1)%nat Ht) as [ts2 [B1 [B2 B3]]]; [lia|].
  rewrite B3, !omap_app.
  exists (ts1 ++ [(TDot, blen (46 :: 32 :: wb ++ t), blen (32 :: wb ++ t))] ++ ts2). split; [|split].
  - rewrite map_app, A1. cbn [app map]. rewrite B1. reflexivity.
  - rewrite !app_length. cbn [List.length]. unfold stok in *. lia.
  - cbn [map]. rewrite <- app_assoc.
    match goal with |- _ = option_map _ (lex_all ?n t) =>
      replace n with (fuel - List.length ts1 - 1 - List.length ts2)%nat
        by (rewrite !app_length; cbn [List.length]; unfold stok in *; lia) end.
    reflexivity.
Qed.

Lemma L_all : forall pr d, L pr d.
Proof.
  intros pr. induction d using datum_ind'.
  - apply (L_atom pr _ (TNum (NInt z))); reflexivity.
  - apply (L_atom pr _ (TNum (NRat n d))); reflexivity.
  - unfold L. intros [].
  - apply (L_atom pr _ (TBool b)); reflexivity.
  - apply (L_atom pr _ (TChar c)); reflexivity.
  - apply (L_atom pr _ (TStr s)); reflexivity.
  - apply (L_atom pr _ (sym_tok s)); reflexivity.
  - unfold L. intros Hr t fuel Ht Hf. cbn [rep] in Hr. destruct Hr as [_ Hall]. apply rep_all in Hall.
    assert (Hitems : Item (sep_by (map (write_u pr) l)) (flat_map tk_of l)).
    { rewrite flat_map_concat_map. intros t0 f0 Ht0 Hf0. apply sep_lex; try assumption.
      clear - H Hall. induction l as [|x l IH]; [constructor|]. inversion H; subst. inversion Hall; subst.
      cbn [map]. constructor; [apply L_Item; assumption|apply IH; assumption]. }
    assert (Ew : write_u pr (DList l) = [40] ++ sep_by (map (write_u pr) l) ++ [41]) by reflexivity. rewrite Ew in *. cbn [tk_of].
    apply (wrap_lex [40] (TOpen Round None) _ _); try assumption; [discriminate|apply lex_one_lparen].
  - unfold L. intros Hr t fuel Ht Hf. cbn [rep] in Hr. destruct Hr as [_ [Hra [Hrb _]]].
    assert (Hitem : Item (write_u pr d1 ++ [32; 46; 32] ++ write_u pr d2) (tk_of d1 ++ TDot :: tk_of d2)).
    { apply pair_item; apply L_Item; assumption. }
    assert (Ew : write_u pr (DPair d1 d2) = [40] ++ (write_u pr d1 ++ [32; 46; 32] ++ write_u pr d2) ++ [41]).
    { cbn [write_u app]. norm_cps. rewrite <- !app_assoc. reflexivity. }
    rewrite Ew in *. cbn [tk_of].
    apply (wrap_lex [40] (TOpen Round None) _ _); try assumption; [discriminate|apply lex_one_lparen].
  - unfold L. intros Hr t fuel Ht Hf. cbn [rep] in Hr. destruct Hr as [_ Hall]. apply rep_all in Hall.
    assert (Hitems : Item (sep_by (map (write_u pr) l)) (flat_map tk_of l)).
    { rewrite flat_map_concat_map. intros t0 f0 Ht0 Hf0. apply sep_lex; try assumption.
      clear - H Hall. induction l as [|x l IH]; [constructor|]. inversion H; subst. inversion Hall; subst.
      cbn [map]. constructor; [apply L_Item; assumption|apply IH; assumption]. }
    assert (Ew : write_u pr (DVec l) = [35; 40] ++ sep_by (map (write_u pr) l) ++ [41]) by reflexivity. rewrite Ew in *. cbn [tk_of].
    apply (wrap_lex [35; 40] (TOpen Round (Some PVector)) _ _); try assumption; [discriminate|apply lex_one_vec].
  - unfold L. intros Hr t fuel Ht Hf. cbn [rep] in Hr.
    assert (Hitems : Item (sep_by (map write_byte l)) (map byte_tok l)).
    { rewrite <- (concat_map_single _ _ byte_tok). intros t0 f0 Ht0 Hf0. apply sep_lex; try assumption.
      clear - Hr. induction l as [|x l IH]; [constructor|]. inversion Hr; subst.
      cbn [map]. constructor; [apply byte_item; assumption|apply IH; assumption]. }
    assert (Ew : write_u pr (DBytes l) = [35; 117; 56; 40] ++ sep_by (map write_byte l) ++ [41]).
    { cbn [write_u]. norm_cps. reflexivity. }
    rewrite Ew in *. cbn [tk_of].
    apply (wrap_lex [35; 117; 56; 40] (TOpen Round (Some PBytes)) _ _); try assumption; [discriminate|apply lex_one_bytes].
  - unfold L. intros [].
Qed.

Lemma strip_shebang_compound : forall pr d, is_compound d -> rep d -> strip_shebang (write_u pr d) = write_u pr d.
Proof.
  intros pr d Hc Hr. destruct d; cbn in Hc; try discriminate; try (cbn in Hr; contradiction);
    cbn [write_u]; norm_cps; try (apply strip_shebang_hd; reflexivity); reflexivity.
Qed.

Theorem read_write_ : forall pr d, rep d -> (height d <= 128)%nat -> read_first (write pr d) = ROk d 0.
Proof.
  intros pr d Hr Hh. rewrite write_within_limit by exact Hh.
  destruct (atom_toks d) as [tk|] eqn:Ea.
  - destruct d; cbn in Ea; try discriminate; cbn [write_u].
    + apply integer_roundtrip_read.
    + destruct Hr as [H1 H2]. apply (rational_roundtrip_read_ n d H1 H2).
    + destruct b; vm_compute; reflexivity.
    + apply char_roundtrip_read. exact Hr.
    + apply string_roundtrip_read. exact Hr.
    + apply symbol_roundtrip_read. exact Hr.
  - unfold read_first, lex. rewrite (strip_shebang_compound pr d Ea Hr).
    set (w := write_u pr d).
    destruct (L_all pr d Hr [] (S (List.length w)) I) as [ts [x [H1 [H2 [H3 H4]]]]].
    { rewrite app_nil_r. fold w. lia. }
    rewrite app_nil_r in H4. fold w in H3, H4. rewrite H4.
    destruct (S (List.length w) - List.length (ts ++ [x]))%nat as [|k] eqn:Ek; [lia|].
    cbn [lex_all lex_one skip_ws option_map]. rewrite app_nil_r.
    rewrite (read_tokens_compound d (blen w) (ts ++ [x]) ts x Hr Ea H1 eq_refl). rewrite H2. reflexivity.
Qed.
