(* C12 — reading is total and inverse to writing: executable model of the *mechanism* in
     crates/steel-parser/src/lexer.rs   (Lexer::next, read_string, read_string_escape, read_hash_value/parse_char,
                                         read_number, parse_number/parse_real/split_into_complex, read_word incl. |..|,
                                         read_nestable_comment, read_here_string, strip_shebang_line)
     crates/steel-parser/src/parser.rs  (Parser::next / get_next_and_maybe_wrap_in_doc / read_from_tokens / Frame,
                                         specialised to keep_lists = true, i.e. Parser::new_flat as used by `read`)
     crates/steel-core/src/parser/parser.rs  (TryFrom<SyntaxObject> for SteelVal) + tryfrom_visitor.rs (quoted mode)
     crates/steel-core/src/rvals/cycles.rs   (CycleDetector::format_with_cycles, external = true: what `write` emits)

   Texts are lists of Unicode scalar values (N); byte offsets (spans) are computed with [utf8_len].
   Every position is represented by the byte List.length of the *remaining* suffix ("suffix length" a), the
   absolute offset being  blen input - a ; the theorems state  b <= a <= blen input  for every span.
   Doubles, complex and polar literals are recognised (exact acceptance grammar) but carry no value:
   they are outside the Coq model and are checked differentially only.
   Definitions only: proofs are in Proofs_C12*.v so the model still runs when a proof breaks. *)
From Coq Require Import NArith ZArith List Bool Ascii String.
Import ListNotations.
Open Scope N_scope.

Definition text := list N.

Definition cps (s : string) : text := map N_of_ascii (list_ascii_of_string s).

Fixpoint text_eqb (a b : text) : bool :=
  match a, b with
  | [], [] => true
  | x :: a', y :: b' => (x =? y) && text_eqb a' b'
  | _, _ => false
  end.

(* ------------------------------------------------------------------ characters *)
(* Rust char::is_whitespace (Unicode White_Space) *)
Definition is_ws (c : N) : bool :=
  ((9 <=? c) && (c <=? 13)) || (c =? 32) || (c =? 133) || (c =? 160) || (c =? 5760)
  || ((8192 <=? c) && (c <=? 8202)) || (c =? 8232) || (c =? 8233) || (c =? 8239) || (c =? 8287)
  || (c =? 12288).
Definition is_digit (c : N) : bool := (48 <=? c) && (c <=? 57).
Definition utf8_len (c : N) : N :=
  if c <? 128 then 1 else if c <? 2048 then 2 else if c <? 65536 then 3 else 4.
Fixpoint blen (s : text) : N := match s with [] => 0 | c :: s' => utf8_len c + blen s' end.
(* char::from_u32 *)
Definition valid_scalar (n : N) : bool := (n <? 55296) || ((57343 <? n) && (n <? 1114112)).

Definition mem (c : N) (l : text) : bool := existsb (N.eqb c) l.

Definition c_lparen := 40.  Definition c_rparen := 41.
Definition c_lbrack := 91.  Definition c_rbrack := 93.
Definition c_lbrace := 123. Definition c_rbrace := 125.
Definition c_dquote := 34.  Definition c_bslash := 92.  Definition c_bar := 124.
Definition c_hash := 35.    Definition c_semi := 59.    Definition c_nl := 10.

Definition to_lower (c : N) : N := if (65 <=? c) && (c <=? 90) then c + 32 else c.
Definition eq_ignore_case (a b : text) : bool := text_eqb (map to_lower a) (map to_lower b).

(* ------------------------------------------------------------------ tokens (tokens.rs TokenType) *)
Inductive paren := Round | Square | Curly.
Inductive pmod := PVector | PBytes.
Inductive kw := KIf | KDefine | KLet | KTestLet | KReturn | KBegin | KLambda | KQuote | KSyntaxRules
              | KDefineSyntax | KEllipses | KSet | KRequire.
Inductive numlit :=
| NInt (z : Z)
| NRat (n : Z) (d : Z)      (* as written: not reduced, d >= 0 *)
| NFloat                     (* accepted decimal / inf / nan literal: value outside the model *)
| NComplex | NPolar.
Inductive lexerr :=
| UnexpectedChar | IncompleteString | IncompleteIdentifier | IncompleteComment | InvalidWhitespace
| InvalidStringEscape | InvalidCharacter | ZeroDenominator | UnclosedHexEscape | InvalidCharName
| InvalidHexEscapeLiteral | InvalidHexCodePoint.

Inductive tok :=
| TOpen (p : paren) (m : option pmod) | TClose (p : paren)
| TQuoteTick | TQuasiQuote | TUnquote | TUnquoteSplice
| TQuoteSyntax | TQuasiQuoteSyntax | TUnquoteSyntax | TUnquoteSpliceSyntax
| TKw (k : kw)
| TChar (c : N) | TDatumComment | TComment (doc : bool) | TBool (b : bool)
| TIdent (s : text) | TKeyword (s : text) | TNum (n : numlit) | TStr (s : text) | TDot
| TError (e : lexerr).        (* not a token of the implementation: the first lexical error, ends the stream *)

Definition paren_eqb (a b : paren) : bool :=
  match a, b with Round, Round | Square, Square | Curly, Curly => true | _, _ => false end.

(* result of a scanner: value + remaining text, or an error with the remaining text at the time of the
   error and (when the lexer sets `self.error`) an explicit span as a pair of suffix lengths *)
Inductive sres (A : Type) :=
| SOk (a : A) (rest : text)
| SErr (e : lexerr) (rest : text) (sp : option (N * N))
| SFuel.
Arguments SOk {A}. Arguments SErr {A}. Arguments SFuel {A}.

(* ------------------------------------------------------------------ hex / integers *)
Definition hex_val (c : N) : option N :=
  if is_digit c then Some (c - 48)
  else if (97 <=? c) && (c <=? 102) then Some (c - 87)
  else if (65 <=? c) && (c <=? 70) then Some (c - 55)
  else None.

(* u32::from_str_radix(_, 16): optional '+', at least one digit, value < 2^32 *)
Fixpoint hex_acc (ds : text) (acc : N) : option N :=
  match ds with
  | [] => Some acc
  | d :: ds' => match hex_val d with
                | None => None
                | Some v => let acc' := acc * 16 + v in
                            if acc' <? 4294967296 then hex_acc ds' acc' else None
                end
  end.
Definition u32_from_hex (ds : text) : option N :=
  match ds with
  | [] => None
  | d :: ds' => if d =? 43 then match ds' with [] => None | _ => hex_acc ds' 0 end
                else hex_acc ds 0
  end.

(* isize::from_str_radix, falling back to BigInt::from_str_radix (tokens.rs IntLiteral::from_str_radix):
   optional sign, at least one digit of the radix, any magnitude *)
Definition digit_val (radix c : N) : option N :=
  match hex_val c with Some v => if v <? radix then Some v else None | None => None end.
Fixpoint digits_acc (radix : N) (ds : text) (acc : N) : option N :=
  match ds with
  | [] => Some acc
  | d :: ds' => match digit_val radix d with
                | None => None
                | Some v => digits_acc radix ds' (acc * radix + v)
                end
  end.
Definition parse_nat (radix : N) (ds : text) : option N :=
  match ds with [] => None | _ => digits_acc radix ds 0 end.
Definition parse_int (radix : N) (s : text) : option Z :=
  match s with
  | [] => None
  | c :: ds => if c =? 43 then option_map Z.of_N (parse_nat radix ds)
               else if c =? 45 then option_map (fun n => (- Z.of_N n)%Z) (parse_nat radix ds)
               else option_map Z.of_N (parse_nat radix s)
  end.

(* ------------------------------------------------------------------ read_string_escape (lexer.rs L127-256) *)
Definition is_hex_break (c : N) : bool :=
  mem c [c_semi; c_bslash; c_nl; c_lparen; c_rparen; c_lbrack; c_rbrack; c_lbrace; c_rbrace].

(* the `loop { let Some(c) = self.eat() ... }` collecting digits; None = input ended *)
Fixpoint hex_loop (s : text) (end_c delim : N) (acc : text) : option (bool * text * text) :=
  match s with
  | [] => None
  | c :: s' => if c =? end_c then Some (true, rev acc, s')
               else if is_hex_break c || (c =? delim) then Some (false, rev acc, s')
               else hex_loop s' end_c delim (c :: acc)
  end.

Fixpoint esc_ws_loop (incomplete : lexerr) (s : text) (trimming : bool) : sres (option N) :=
  match s with
  | [] => SErr incomplete [] None
  | c :: s' => if (c =? 32) || (c =? 9) then esc_ws_loop incomplete s' trimming
               else if (c =? 10) && negb trimming then esc_ws_loop incomplete s' true
               else if trimming then SOk None s
               else SErr InvalidWhitespace s (Some (blen s, blen s'))
  end.

(* called after the backslash has been eaten *)
Definition read_string_escape (incomplete : lexerr) (delim : N) (s : text) : sres (option N) :=
  match s with
  | [] => SErr incomplete [] None
  | c :: s' =>
    if c =? 34 then SOk (Some 34) s'
    else if c =? 97 then SOk (Some 7) s'          (* a *)
    else if c =? 98 then SOk (Some 8) s'          (* b *)
    else if c =? 92 then SOk (Some 92) s'
    else if c =? 124 then SOk (Some 124) s'
    else if c =? 116 then SOk (Some 9) s'         (* t *)
    else if c =? 110 then SOk (Some 10) s'        (* n *)
    else if c =? 114 then SOk (Some 13) s'        (* r *)
    else if c =? 48 then SOk (Some 0) s'          (* 0 *)
    else if (c =? 120) || (c =? 117) then         (* x | u *)
      let '(end_c, s2) := match s' with
                          | 123 :: s'' => if c =? 117 then (125, s'') else (59, s')
                          | _ => (59, s')
                          end in
      match hex_loop s2 end_c delim [] with
      | None => SErr incomplete [] None
      | Some (false, _, r) => SErr UnclosedHexEscape r (Some (blen s + 1, blen r + 1))
      | Some (true, ds, r) =>
        match u32_from_hex ds with
        | None => SErr InvalidHexEscapeLiteral r (Some (blen s + 1, blen r))
        | Some n => if valid_scalar n then SOk (Some n) r
                    else SErr InvalidHexCodePoint r (Some (blen s + 1, blen r))
        end
      end
    else if (c =? 32) || (c =? 9) || (c =? 10) then esc_ws_loop incomplete s' (c =? 10)
    else SErr InvalidStringEscape s (Some (blen s + 1, blen s'))
  end.

(* read_string (L105-125), after the opening quote has been eaten *)
Fixpoint read_string (fuel : nat) (s : text) (acc : text) : sres text :=
  match fuel with
  | O => SFuel
  | S fuel' =>
    match s with
    | [] => SErr IncompleteString [] None
    | c :: s' =>
      if c =? 34 then SOk (rev acc) s'
      else if c =? 92 then
        match read_string_escape IncompleteString 34 s' with
        | SOk (Some ch) r => read_string fuel' r (ch :: acc)
        | SOk None r => read_string fuel' r acc
        | SErr e r sp => SErr e r sp
        | SFuel => SFuel
        end
      else read_string fuel' s' (c :: acc)
    end
  end.

(* ------------------------------------------------------------------ numbers (L848-1025) *)
(* the f64 FromStr grammar restricted to what reaches it (has '.' or an exponent):
   [sign] digits* ['.' digits*] [ (e|E) [sign] digits+ ] with at least one mantissa digit *)
Fixpoint span_digits (s : text) : text * text :=
  match s with
  | c :: s' => if is_digit c then let '(a, b) := span_digits s' in (c :: a, b) else ([], s)
  | [] => ([], [])
  end.
Definition f64_syntax (s : text) : bool :=
  let s1 := match s with 43 :: r | 45 :: r => r | _ => s end in
  let '(ip, r1) := span_digits s1 in
  let '(fp, r2) := match r1 with 46 :: r => span_digits r | _ => ([], r1) end in
  match ip ++ fp with
  | [] => false
  | _ => match r2 with
         | [] => true
         | e :: r3 => if (e =? 101) || (e =? 69) then
                        let r4 := match r3 with 43 :: r | 45 :: r => r | _ => r3 end in
                        match span_digits r4 with
                        | (_ :: _, []) => true
                        | _ => false
                        end
                      else false
         end
  end.

Inductive pnum := PNone | PNum (n : numlit) | PZeroDen.

Definition count (c : N) (s : text) : nat := List.length (filter (N.eqb c) s).
Fixpoint split_at_char (c : N) (s : text) : option (text * text) :=
  match s with
  | [] => None
  | x :: s' => if x =? c then Some ([], s')
               else match split_at_char c s' with Some (a, b) => Some (x :: a, b) | None => None end
  end.

(* parse_real (L890-943); a Rational with zero denominator is reported by the caller (validate_real_literal) *)
Definition parse_real (s : text) (radix : N) : pnum :=
  if text_eqb s (cps "-inf.0") || text_eqb s (cps "+inf.0") || text_eqb s (cps "+nan.0") || text_eqb s (cps "-nan.0")
  then PNum NFloat
  else
    let n_exp := if radix <? 15 then (count 101 s + count 69 s)%nat else 0%nat in
    let n_slash := count 47 s in
    let n_dot := count 46 s in
    if (Nat.ltb 1 n_exp) || (Nat.ltb 1 n_slash) || (Nat.ltb 1 n_dot) then PNone
    else if (Nat.ltb 0 n_exp) || (Nat.ltb 0 n_dot) then
      if negb (radix =? 10) then PNone
      else if f64_syntax s then PNum NFloat else PNone
    else match split_at_char 47 s with
         | Some (ns, ds) =>
           match parse_int radix ns, parse_int radix ds with
           | Some n, Some d => if (d =? 0)%Z then PZeroDen else PNum (NRat n d)
           | _, _ => PNone
           end
         | None => match parse_int radix s with Some z => PNum (NInt z) | None => PNone end
         end.

(* split_into_complex (L849-882): positions of + and -, skipping the character after an e/E *)
Fixpoint sign_idxs (s : text) (i : nat) (acc : list nat) : option (list nat) :=
  match s with
  | [] => Some (rev acc)
  | c :: s' =>
    if (c =? 43) || (c =? 45) then
      if Nat.eqb (List.length acc) 2 then None else sign_idxs s' (S i) (i :: acc)
    else if (c =? 101) || (c =? 69) then
      match s' with
      | [] => Some (rev acc)
      | _ :: s'' => sign_idxs s'' (S (S i)) acc
      end
    else sign_idxs s' (S i) acc
  end.

Inductive numpart := PReal (s : text) | PImag (s : text).
Definition classify_part (s : text) : numpart :=
  match rev s with
  | l :: r => if l =? 105 then PImag (rev r) else PReal s
  | [] => PReal s
  end.
Definition split_into_complex (s : text) : option (list numpart) :=
  match sign_idxs s 0 [] with
  | None => None
  | Some [] | Some [O] => Some [classify_part s]
  | Some [idx] | Some [O; idx] => Some [classify_part (firstn idx s); classify_part (skipn idx s)]
  | Some _ => None
  end.

(* a real literal, with a zero denominator surfacing as PZeroDen; used for the parts of complex / polar *)
Definition imag_part (x : text) (radix : N) : pnum :=
  if text_eqb x [43] || text_eqb x [45] then PNum (NInt 1) else parse_real x radix.

Definition both (a b : pnum) (r : numlit) : pnum :=
  match a, b with
  | PNone, _ | _, PNone => PNone
  | PZeroDen, _ | _, PZeroDen => PZeroDen
  | PNum _, PNum _ => PNum r
  end.

(* the radix prefix of parse_number *)
Definition radix_prefix (s0 : text) : text * N :=
  match s0 with
  | h :: c :: r =>
    if negb (h =? 35) then (s0, 10)
    else if (c =? 120) || (c =? 88) then (r, 16)
    else if (c =? 100) || (c =? 68) then (r, 10)
    else if (c =? 111) || (c =? 79) then (r, 8)
    else if (c =? 98) || (c =? 66) then (r, 2)
    else (s0, 10)
  | _ => (s0, 10)
  end.

(* try_parse_number (parse_number + validate_real_literal) *)
Definition parse_number (s0 : text) : pnum :=
  let s := fst (radix_prefix s0) in
  let radix := snd (radix_prefix s0) in
  match split_at_char 64 s with
  | Some (r, theta) => both (parse_real r radix) (parse_real theta radix) NPolar
  | None =>
    match split_into_complex s with
    | Some [PReal x] => parse_real x radix
    | Some [PImag x] =>
      match x with
      | 43 :: _ | 45 :: _ => both (PNum (NInt 0)) (imag_part x radix) NComplex
      | _ => PNone
      end
    | Some [PReal re; PImag im] => both (parse_real re radix) (imag_part im radix) NComplex
    | _ => PNone
    end
  end.

(* ------------------------------------------------------------------ read_word (L413-504) *)
Definition is_word_break (c : N) : bool :=
  mem c [c_lparen; c_lbrack; c_rparen; c_rbrack; c_lbrace; c_rbrace; 39; c_dquote; 96; c_semi; 44] || is_ws c.

(* the non-escaped loop; acc = consumed characters of the token so far, reversed *)
Fixpoint word_plain (s : text) (acc : text) : text * text :=
  match s with
  | [] => (acc, [])
  | c :: s' =>
    if is_word_break c then (acc, s)
    else if c =? 92 then
      match s' with
      | [] => (c :: acc, [])
      | d :: s'' => word_plain s'' (d :: c :: acc)
      end
    else word_plain s' (c :: acc)
  end.

Definition consumed (s r : text) : text := firstn (List.length s - List.length r) s.

(* the escaped (|...|) loop; ident = IdentBuffer contents (reversed), escaped = saw a backslash escape *)
Fixpoint word_esc (fuel : nat) (s : text) (acc ident : text) (escaped : bool) : sres (text * text * bool) :=
  match fuel with
  | O => SFuel
  | S fuel' =>
    match s with
    | [] => SOk (acc, ident, escaped) []
    | c :: s' =>
      if c =? 124 then SOk (c :: acc, ident, escaped) s'
      else if c =? 92 then
        match read_string_escape IncompleteIdentifier 124 s' with
        | SOk oc r =>
          let acc' := rev (consumed s' r) ++ c :: acc in
          word_esc fuel' r acc' (match oc with Some ch => ch :: ident | None => ident end) true
        | SErr e r sp => SErr e r sp
        | SFuel => SFuel
        end
      else word_esc fuel' s' (c :: acc) (c :: ident) escaped
    end
  end.

Definition kw_of_word (w : text) : option tok :=
  if text_eqb w [46] then Some TDot
  else if text_eqb w (cps "if") then Some (TKw KIf)
  else if text_eqb w (cps "let") then Some (TKw KLet)
  else if text_eqb w (cps "define") || text_eqb w (cps "defn") || text_eqb w (cps "#%define") then Some (TKw KDefine)
  else if text_eqb w (cps "%plain-let") then Some (TKw KTestLet)
  else if text_eqb w (cps "return!") then Some (TKw KReturn)
  else if text_eqb w (cps "begin") then Some (TKw KBegin)
  else if text_eqb w (cps "lambda") || text_eqb w (cps "fn") || text_eqb w (cps "#%plain-lambda") || text_eqb w [955]
       then Some (TKw KLambda)
  else if text_eqb w (cps "quote") then Some (TKw KQuote)
  else if text_eqb w (cps "syntax-rules") then Some (TKw KSyntaxRules)
  else if text_eqb w (cps "define-syntax") then Some (TKw KDefineSyntax)
  else if text_eqb w (cps "...") then Some (TKw KEllipses)
  else if text_eqb w (cps "set!") then Some (TKw KSet)
  else if text_eqb w (cps "require") then Some (TKw KRequire)
  else None.

(* the identifier arms of the `match self.slice()` at the end of read_word (after the `+rest` split) *)
Definition classify_ident (slice : text) (esc : bool) (ident : text) (escaped : bool) : option (list tok) :=
  if esc then
    match slice, rev slice with
    | f :: _ :: _, l :: _ =>
      if (f =? 124) && (l =? 124) then
        if escaped && negb (match ident with [] => true | _ => false end)
        then Some [TIdent (rev ident)]
        else Some [TIdent (removelast (tl slice))]
      else None
    | _, _ => None                 (* IncompleteIdentifier *)
    end
  else Some [TIdent slice].

(* the `match self.slice()` at the end of read_word; returns one token, or two when `+rest` is split *)
Definition classify_word (slice : text) (esc : bool) (ident : text) (escaped : bool) : option (list tok) :=
  match kw_of_word slice with
  | Some t => Some [t]
  | None =>
    match slice with
    | p :: _ :: _ => if p =? 43 then Some [TIdent [43]; TIdent (tl slice)] else classify_ident slice esc ident escaped
    | _ => classify_ident slice esc ident escaped
    end
  end.

Definition read_word_plain (s acc : text) : sres (list tok) :=
  let '(acc', r) := word_plain s acc in
  match classify_word (rev acc') false [] false with
  | Some ts => SOk ts r
  | None => SErr IncompleteIdentifier r None
  end.

Definition read_word (fuel : nat) (s : text) (acc : text) : sres (list tok) :=
  match s with
  | c :: s' =>
    if c =? 124 then
      match word_esc fuel s' (124 :: acc) [] false with
      | SOk (acc', ident, escaped) r =>
        match classify_word (rev acc') true ident escaped with
        | Some ts => SOk ts r
        | None => SErr IncompleteIdentifier r None
        end
      | SErr e r sp => SErr e r sp
      | SFuel => SFuel
      end
    else read_word_plain s acc
  | [] => read_word_plain s acc
  end.

(* ------------------------------------------------------------------ read_number (L372-403) *)
Definition is_numberish (c : N) : bool :=
  is_digit c || mem c (cps "+-./@aAbBcCdDeEfFin").

Definition finish_number (fuel : nat) (s acc : text) : sres (list tok) :=
  match parse_number (rev acc) with
  | PNum n => SOk [TNum n] s
  | PZeroDen => SErr ZeroDenominator s None
  | PNone => read_word fuel s acc
  end.

Fixpoint read_number (fuel : nat) (s acc : text) : sres (list tok) :=
  match s with
  | [] => finish_number fuel [] acc
  | c :: s' =>
    if is_numberish c then read_number fuel s' (c :: acc)
    else if mem c [c_lparen; c_rparen; c_lbrack; c_rbrack] || is_ws c then finish_number fuel s acc
    else read_word fuel s acc
  end.

(* ------------------------------------------------------------------ read_hash_value (L258-370) *)
Fixpoint hash_scan (s acc : text) : text * text :=
  match s with
  | [] => (acc, [])
  | c :: s' =>
    if c =? 92 then
      match s' with
      | [] => (c :: acc, [])
      | d :: s'' => hash_scan s'' (d :: c :: acc)
      end
    else if (c =? 39) || (c =? 96) then (c :: acc, s')
    else if c =? 44 then
      match s' with
      | 64 :: s'' => (64 :: c :: acc, s'')
      | _ => (c :: acc, s')
      end
    else if mem c [c_lparen; c_lbrack; c_rparen; c_rbrack] || is_ws c then (acc, s)
    else hash_scan s' (c :: acc)
  end.

(* parse_char on the characters after `#\` (non-empty) *)
Definition parse_char (s : text) : lexerr + N :=
  if eq_ignore_case s (cps "alarm") then inr 7
  else if eq_ignore_case s (cps "backspace") then inr 8
  else if eq_ignore_case s (cps "delete") then inr 127
  else if eq_ignore_case s (cps "escape") then inr 27
  else if eq_ignore_case s (cps "newline") then inr 10
  else if eq_ignore_case s (cps "null") then inr 0
  else if eq_ignore_case s (cps "return") then inr 13
  else if eq_ignore_case s (cps "space") then inr 32
  else if eq_ignore_case s (cps "tab") then inr 9
  else
    match s with
    | [] => inl InvalidCharName
    | first :: rest =>
      let escape := ((first =? 117) || (first =? 120)) && negb (match rest with [] => true | _ => false end) in
      if negb escape then
        match rest with [] => inr first | _ => inl InvalidCharName end
      else
        let payload :=
          match rest with
          | b :: r =>
            if (b =? 123) && (first =? 117) then
              match rev r with
              | l :: m => if l =? 125 then inr (rev m) else inl UnclosedHexEscape
              | [] => inl UnclosedHexEscape
              end
            else inr rest
          | [] => inr rest
          end in
        match payload with
        | inl e => inl e
        | inr p => match u32_from_hex p with
                   | None => inl InvalidHexEscapeLiteral
                   | Some n => if valid_scalar n then inr n else inl InvalidHexCodePoint
                   end
        end
    end.

Definition starts_with (p s : text) : bool := text_eqb p (firstn (List.length p) s).

Definition read_hash_value (fuel : nat) (s : text) : sres (list tok) :=
  let '(acc, r) := hash_scan s [c_hash] in
  let slice := rev acc in
  if text_eqb slice (cps "#true") || text_eqb slice (cps "#t") then SOk [TBool true] r
  else if text_eqb slice (cps "#false") || text_eqb slice (cps "#f") then SOk [TBool false] r
  else if text_eqb slice (cps "#'") then SOk [TQuoteSyntax] r
  else if text_eqb slice (cps "#`") then SOk [TQuasiQuoteSyntax] r
  else if text_eqb slice (cps "#,") then SOk [TUnquoteSyntax] r
  else if text_eqb slice (cps "#,@") then SOk [TUnquoteSpliceSyntax] r
  else if starts_with (cps "#:") slice then SOk [TKeyword slice] r
  else if starts_with [c_hash; c_bslash] slice then
    match skipn 2 slice with
    | [] => SErr InvalidCharacter r None
    | body => match parse_char body with
              | inr c => SOk [TChar c] r
              | inl e => SErr e r (Some (blen s + 1, blen r))
              end
    end
  else
    match r with
    | 40 :: r' =>
      if text_eqb slice [c_hash] then SOk [TOpen Round (Some PVector)] r'
      else if text_eqb slice (cps "#u8") then SOk [TOpen Round (Some PBytes)] r'
      else read_word fuel r acc
    | _ => read_word fuel r acc
    end.

(* ------------------------------------------------------------------ comments, here strings *)
Fixpoint rest_of_line (s : text) : text :=
  match s with [] => [] | c :: s' => if c =? 10 then s' else rest_of_line s' end.

Fixpoint nest_comment (s : text) (depth : nat) : option text :=
  match s with
  | [] => None
  | c :: s' =>
    if c =? 124 then
      match s' with
      | 35 :: s'' => match depth with
                     | O | S O => Some s''
                     | S d => nest_comment s'' d
                     end
      | _ => nest_comment s' depth
      end
    else if c =? 35 then
      match s' with
      | 124 :: s'' => nest_comment s'' (S depth)
      | _ => nest_comment s' depth
      end
    else nest_comment s' depth
  end.

(* read_here_string: delimiter line *)
Fixpoint here_delim (s : text) (acc : text) : sres text :=
  match s with
  | [] => SOk (rev acc) []
  | c :: s' => if c =? 10 then SOk (rev acc) s'
               else if c =? 13 then here_delim s' acc
               else if is_ws c then SErr UnexpectedChar s' None
               else here_delim s' (c :: acc)
  end.
Fixpoint here_body (s : text) (rdelim : text) (buf : text) : sres (list tok) :=
  match s with
  | [] => SErr IncompleteString [] None
  | c :: s' =>
    let buf' := c :: buf in
    if starts_with rdelim buf' then SOk [TStr (rev (skipn (List.length rdelim) buf'))] s'
    else here_body s' rdelim buf'
  end.

(* is this line comment a `;;@doc` marker (parser.rs L1216-1219)? *)
Fixpoint trim_semis (s : text) : text :=
  match s with c :: s' => if c =? 59 then trim_semis s' else s | [] => [] end.

(* ------------------------------------------------------------------ Lexer::next (L731-846) *)
Fixpoint skip_ws (s : text) : text :=
  match s with c :: s' => if is_ws c then skip_ws s' else s | [] => [] end.

Inductive lstep :=
| LEof
| LToks (ts : list tok) (start rest : text)
| LErr (e : lexerr) (start rest : text) (sp : option (N * N))
| LFuel.

Definition of_sres (start : text) (r : sres (list tok)) : lstep :=
  match r with
  | SOk ts rest => LToks ts start rest
  | SErr e rest sp => LErr e start rest sp
  | SFuel => LFuel
  end.

Definition lex_one (fuel : nat) (s0 : text) : lstep :=
  let s := skip_ws s0 in
  match s with
  | [] => LEof
  | c :: s' =>
    if c =? 59 then
      LToks [TComment (starts_with (cps "@doc") (trim_semis s))] s (rest_of_line s')
    else if c =? 34 then
      match read_string fuel s' [] with
      | SOk str r => LToks [TStr str] s r
      | SErr e r sp => LErr e s r sp
      | SFuel => LFuel
      end
    else if c =? 40 then LToks [TOpen Round None] s s'
    else if c =? 91 then LToks [TOpen Square None] s s'
    else if c =? 123 then LToks [TOpen Curly None] s s'
    else if c =? 41 then LToks [TClose Round] s s'
    else if c =? 93 then LToks [TClose Square] s s'
    else if c =? 125 then LToks [TClose Curly] s s'
    else if c =? 39 then LToks [TQuoteTick] s s'
    else if c =? 96 then LToks [TQuasiQuote] s s'
    else if c =? 44 then
      match s' with
      | 64 :: s'' => LToks [TUnquoteSplice] s s''
      | _ => LToks [TUnquote] s s'
      end
    else if (c =? 43) || (c =? 45) || (c =? 46) then of_sres s (read_number fuel s' [c])
    else if c =? 35 then
      match s' with
      | [] => of_sres s (read_hash_value fuel s')
      | n :: s'' =>
        if mem n (cps "xXdDoObB") then of_sres s (read_number fuel s'' [n; c])
        else if n =? 124 then
          match nest_comment s'' 1 with
          | Some r => LToks [TComment false] s r
          | None => LErr IncompleteComment s [] None
          end
        else if n =? 59 then LToks [TDatumComment] s s''
        else if n =? 35 then LErr UnexpectedChar s s'' None
        else if n =? 60 then
          match s'' with
          | 60 :: s3 =>
            match here_delim s3 [] with
            | SOk delim r => of_sres s (here_body r (rev delim) [])
            | SErr e r sp => LErr e s r sp
            | SFuel => LFuel
            end
          | _ => of_sres s (read_word fuel s'' [n; c])
          end
        else of_sres s (read_hash_value fuel s')
      end
    else if is_digit c then of_sres s (read_number fuel s [])
    else of_sres s (read_word fuel s [])
  end.

(* a token with its span as suffix lengths (a = at token_start, b = at token_end); the stream ends with a
   TError entry at the first lexical error (TokenStream yields Err there and the parser stops) *)
Definition stok := (tok * N * N)%type.

Fixpoint lex_all (fuel : nat) (s : text) : option (list stok) :=
  match fuel with
  | O => None
  | S fuel' =>
    match lex_one fuel s with
    | LEof => Some []
    | LFuel => None
    | LErr e start rest sp =>
      match sp with
      | Some (a, b) => Some [(TError e, a, b)]
      | None => Some [(TError e, blen start, blen rest)]
      end
    | LToks ts start rest =>
      let here := map (fun t => (t, blen start, blen rest)) ts in
      match lex_all fuel' rest with
      | Some more => Some (here ++ more)
      | None => None
      end
    end
  end.

(* TokenStream::new: a leading `#!` line is skipped *)
Fixpoint until_nl (s : text) : text :=
  match s with [] => [] | c :: s' => if c =? 10 then s else until_nl s' end.
Definition strip_shebang (s : text) : text :=
  match s with
  | a :: b :: _ => if (a =? 35) && (b =? 33) then until_nl s else s
  | _ => s
  end.

Definition lex (s : text) : option (list stok) := lex_all (S (List.length s)) (strip_shebang s).

(* ------------------------------------------------------------------ data *)
Inductive datum :=
| DInt (z : Z)
| DRat (n d : Z)             (* reduced, d > 1 *)
| DOpaque                    (* a floating point / complex number: outside the model *)
| DBool (b : bool)
| DChar (c : N)
| DStr (s : text)
| DSym (s : text)
| DList (l : list datum)
| DPair (a d : datum)
| DVec (l : list datum)
| DBytes (l : list N)
| DBad.                       (* an atom that TryFrom<SyntaxObject> rejects (a lone `.`): conversion error *)

Definition norm_rat (n d : Z) : datum :=
  let g := Z.gcd n d in
  if (g =? 0)%Z then DInt 0
  else let n' := (n / g)%Z in let d' := (d / g)%Z in
       if (d' =? 1)%Z then DInt n' else DRat n' d'.

Definition kw_name (k : kw) : text :=
  match k with
  | KIf => cps "if" | KDefine => cps "define" | KLet => cps "let" | KTestLet => cps "%plain-let"
  | KReturn => cps "return!" | KBegin => cps "begin" | KLambda => cps "lambda" | KQuote => cps "quote"
  | KSyntaxRules => cps "syntax-rules" | KDefineSyntax => cps "define-syntax" | KEllipses => cps "..."
  | KSet => cps "set!" | KRequire => cps "require"
  end.

(* TryFrom<SyntaxObject> for SteelVal, for the tokens that become atoms *)
Definition tok_to_datum (t : tok) : datum :=
  match t with
  | TChar c => DChar c
  | TBool b => DBool b
  | TIdent s => DSym s
  | TKeyword s => DSym s
  | TStr s => DStr s
  | TNum (NInt z) => DInt z
  | TNum (NRat n d) => norm_rat n d
  | TNum _ => DOpaque
  | TKw k => DSym (kw_name k)
  | _ => DBad
  end.

(* ------------------------------------------------------------------ parser (flat mode) *)
(* PD: a compound expression already converted; [islist] = it is an ExprKind::List (a parenthesised list or a
   `(quasiquote x)`-style reader macro expansion), as opposed to ExprKind::Quote / ExprKind::Vector *)
Inductive pexpr := PA (t : tok) (a b : N) | PD (d : datum) (islist : bool) (a b : N).
Definition pexpr_datum (e : pexpr) : datum :=
  match e with PA t _ _ => tok_to_datum t | PD d _ _ _ => d end.
Definition pexpr_span (e : pexpr) : N * N :=
  match e with PA _ a b => (a, b) | PD _ _ a b => (a, b) end.

Record frame := mkFrame {
  f_paren : paren; f_mod : option pmod; f_exprs : list pexpr; (* in order *)
  f_dot : option (nat * (N * N)); f_comment : nat; f_open : N * N }.

Inductive pctx := CQuote (n : nat) | CQuoteTick (n : nat) | CUnquote (n : nat) | CUnquoteTick (n : nat)
                | CQuasi (n : nat) | CQuasiTick (n : nat) | CUnqSpl (n : nat) | CUnqSplTick (n : nat).

Record pst := mkPst {
  depth : Z;            (* quasiquote_depth *)
  qctx : bool;          (* quote_context *)
  ctx : list pctx;      (* context, last pushed first *)
  qs_nonempty : bool;   (* !quote_stack.is_empty() *)
  shq : nat }.          (* shorthand_quote_stack.len() *)

Definition st_inc (st : pst) : pst :=
  if qctx st then st else mkPst (depth st + 1)%Z (qctx st) (ctx st) (qs_nonempty st) (shq st).
Definition st_dec (st : pst) : pst :=
  if qctx st then st else mkPst (depth st - 1)%Z (qctx st) (ctx st) (qs_nonempty st) (shq st).
Definition st_push (c : pctx) (st : pst) : pst :=
  mkPst (depth st) (qctx st) (c :: ctx st) (qs_nonempty st) (shq st).
Definition st_pop (st : pst) : pst :=
  mkPst (depth st) (qctx st) (tl (ctx st)) (qs_nonempty st) (shq st).
Definition st_set_qctx (b : bool) (st : pst) : pst :=
  mkPst (depth st) b (ctx st) (qs_nonempty st) (shq st).
Definition st_set_shq (n : nat) (st : pst) : pst :=
  mkPst (depth st) (qctx st) (ctx st) (qs_nonempty st) n.
Definition st_set_qs (b : bool) (st : pst) : pst :=
  mkPst (depth st) (qctx st) (ctx st) b (shq st).
Definition st_raw (st : pst) : bool := (depth st =? 0)%Z && negb (qctx st).

Inductive perrk := MismatchedParen | UnexpectedEOF | PUnexpectedChar | SyntaxError.

(* From<TokenLike<TokenError>> for ParseError (parser.rs L231-240) *)
Definition lexerr_kind (e : lexerr) : perrk :=
  match e with
  | IncompleteString | IncompleteIdentifier | IncompleteComment => UnexpectedEOF
  | _ => SyntaxError
  end.

Inductive pres :=
| POk (d : datum) (sp : N * N) (eb : N) (st : pst) (ts : list stok)   (* eb: token_end of the last token consumed *)
| PErr (k : perrk) (sp : N * N) (st : pst)
| PEnd                        (* the iterator is exhausted *)
| PPanic (st : pst)           (* a debug assertion / overflow check of the implementation fails *)
| PUnmodelled                 (* `;;@doc` comments: outside the model *)
| PFuel.

Definition s_unquote := cps "unquote".
Definition s_raw_unquote := cps "#%unquote".
Definition s_unquote_splicing := cps "unquote-splicing".
Definition s_raw_unquote_splicing := cps "#%unquote-splicing".
Definition s_quasiquote := cps "quasiquote".

Definition head_ident (f : frame) : option text :=
  match f_exprs f with PA (TIdent s) _ _ :: _ => Some s | _ => None end.
Definition rename_head (f : frame) (s : text) : frame :=
  match f_exprs f with
  | PA (TIdent _) a b :: r => mkFrame (f_paren f) (f_mod f) (PA (TIdent s) a b :: r) (f_dot f) (f_comment f) (f_open f)
  | _ => f
  end.

Definition tok_byte (t : tok) : option N :=
  match t with
  | TNum (NInt z) => if ((0 <=? z) && (z <=? 255))%Z then Some (Z.to_N z) else None
  | _ => None
  end.

(* Frame::push (L1940-1978); inl = SyntaxError span *)
Definition frame_push (f : frame) (e : pexpr) : (N * N) + frame :=
  let n := List.length (f_exprs f) in
  let dot_ok := match f_dot f with Some (idx, _) => Nat.eqb idx n | None => true end in
  if negb dot_ok then inl (pexpr_span e)
  else
    let bytes_ok := match f_mod f, e with
                    | Some PBytes, PA t _ _ => match tok_byte t with Some _ => true | None => false end
                    | Some PBytes, _ => false
                    | _, _ => true
                    end in
    if negb bytes_ok then inl (pexpr_span e)
    else match f_comment f with
         | S k => inr (mkFrame (f_paren f) (f_mod f) (f_exprs f) (f_dot f) k (f_open f))
         | O => inr (mkFrame (f_paren f) (f_mod f) (f_exprs f ++ [e]) (f_dot f) O (f_open f))
         end.

(* List::make_improper (ast.rs L1191-1210): a tail that is itself an ExprKind::List is spliced into the list
   (so `(a . (b c))` is `(a b c)`), anything else becomes the final cdr; then tryfrom_visitor visit_list folds
   an improper list into pairs *)
Definition dcons (x d : datum) : datum :=
  match d with DList l => DList (x :: l) | _ => DPair x d end.
Fixpoint improper_of (l : list pexpr) : datum :=
  match l with
  | [] => DList []
  | [PD d true _ _] => d
  | [e] => pexpr_datum e
  | e :: r =>
    match r with
    | [PD d true _ _] => dcons (pexpr_datum e) d
    | [e2] => DPair (pexpr_datum e) (pexpr_datum e2)
    | _ => dcons (pexpr_datum e) (improper_of r)
    end
  end.

Definition pexpr_bytes (l : list pexpr) : list N :=
  flat_map (fun e => match e with
                     | PA t _ _ => match tok_byte t with Some b => [b] | None => [] end
                     | _ => [] end) l.

(* Frame::build_expr (L1897-1938) with the List builder + tryfrom_visitor visit_list / visit_vector *)
Definition build_expr (f : frame) : (N * N) + datum :=
  match f_comment f with
  | S _ => inl (f_open f)
  | O =>
    let ds := map pexpr_datum (f_exprs f) in
    match f_mod f with
    | Some PBytes => inr (DBytes (pexpr_bytes (f_exprs f)))
    | Some PVector => inr (DVec ds)
    | None =>
      match f_dot f with
      | None => inr (DList ds)
      | Some (idx, sp) => if Nat.eqb (S idx) (List.length ds) then inr (improper_of (f_exprs f)) else inl sp
      end
    end
  end.

Definition new_frame (p : paren) (m : option pmod) (sp : N * N) : frame := mkFrame p m [] None O sp.

Definition is_tick (c : option pctx) (which : nat) : bool :=
  match c, which with
  | Some (CQuoteTick _), 0%nat | Some (CUnquoteTick _), 1%nat
  | Some (CQuasiTick _), 2%nat | Some (CUnqSplTick _), 3%nat => true
  | None, _ => true                   (* `if let Some(popped)`: an empty stack is not asserted *)
  | _, _ => false
  end.

Definition wrap2 (name : text) (x : datum) : datum := DList [DSym name; x].

Definition ctx_is_single_quotetick0 (c : list pctx) : bool :=
  match c with [CQuoteTick O] => true | _ => false end.

(* the state changes made when an atom is the first element of a frame (L1076-1105) *)
Definition atom_head_ctx (t : tok) (stack_len : nat) (st : pst) : pst :=
  match t with
  | TKw KQuote => if ctx_is_single_quotetick0 (ctx st) then st_push (CQuote 1) st else st_push (CQuote stack_len) st
  | TIdent s =>
    if text_eqb s s_unquote then st_dec (st_push (CUnquote stack_len) st)
    else if text_eqb s s_quasiquote then st_inc (st_push (CQuasi stack_len) st)
    else if text_eqb s s_unquote_splicing then st_dec (st_push (CUnqSpl stack_len) st)
    else st
  | _ => st
  end.

(* closing a nested frame: rename / depth bookkeeping driven by the parent's head (L867-898) ... *)
Definition close_parent (prev : frame) (st : pst) : frame * pst :=
  match head_ident prev with
  | Some s =>
    if text_eqb s s_unquote then ((if st_raw st then rename_head prev s_raw_unquote else prev), st_inc st)
    else if text_eqb s s_quasiquote then (prev, st_dec st)
    else if text_eqb s s_unquote_splicing then
      ((if st_raw st then rename_head prev s_raw_unquote_splicing else prev), st_inc st)
    else (prev, st)
  | None => (prev, st)
  end.
(* ... and the context stack (L900-1010) *)
Definition close_ctx (stack_len : nat) (st : pst) : pst :=
  match ctx st with
  | CQuote i :: _ | CQuasi i :: _ | CUnquote i :: _ | CUnqSpl i :: _ =>
    if Nat.leb stack_len i then st_pop st else st
  | _ => st
  end.
(* closing the outermost frame (L1021-1062) *)
Definition close_top_ctx (st : pst) : pst :=
  match ctx st with CQuote _ :: _ => st_pop st | _ => st end.

(* `self.next().unwrap_or(Err(UnexpectedEOF(token.span)))` *)
Definition after_inner (inner : pres) (sp : N * N) (st : pst) : pres :=
  match inner with PEnd => PErr UnexpectedEOF sp st | r => r end.

Definition res_state (r : pres) (dflt : pst) : pst :=
  match r with POk _ _ _ st _ | PErr _ _ st | PPanic st => st | _ => dflt end.
Definition res_with_state (r : pres) (st : pst) : pres :=
  match r with
  | POk d sp eb _ ts => POk d sp eb st ts
  | PErr k sp _ => PErr k sp st
  | PPanic _ => PPanic st
  | r => r
  end.

(* QuoteTick (0) / Unquote (1) / QuasiQuote (2) / UnquoteSplice (3) handlers share one shape *)
Definition tick_pre (which : nat) (stack_len : nat) (st : pst) : pst :=
  match which with
  | 0%nat => st_push (CQuoteTick stack_len)
               (st_set_qctx (if (depth st =? 0)%Z then true else qctx st) (st_set_shq (S (shq st)) st))
  | 1%nat => st_dec (st_push (CUnquoteTick stack_len) st)
  | 2%nat => st_inc (st_push (CQuasiTick stack_len) st)
  | _ => st_dec (st_push (CUnqSplTick stack_len) st)
  end.

Definition tick_name (which : nat) (st_after_inner : pst) : text :=
  match which with
  | 0%nat => cps "quote"
  | 1%nat => if st_raw st_after_inner then s_raw_unquote else s_unquote
  | 2%nat => s_quasiquote
  | _ => if st_raw st_after_inner then s_raw_unquote_splicing else s_unquote_splicing
  end.

(* (assertion holds, state) after the pops that follow self.next() *)
Definition tick_post (which : nat) (st_before st1 : pst) : bool * pst :=
  let popped := match ctx st1 with c :: _ => Some c | [] => None end in
  let st2 := st_pop st1 in
  let st3 := match which with
             | 0%nat => st_set_qctx (qctx st_before) (st_set_shq (pred (shq st2)) st2)
             | 1%nat => st_inc st2
             | 2%nat => st_dec st2
             | _ => st_inc st2
             end in
  (is_tick popped which, st3).

Definition tick_of (t : tok) : option nat :=
  match t with
  | TQuoteTick => Some 0%nat | TUnquote => Some 1%nat | TQuasiQuote => Some 2%nat | TUnquoteSplice => Some 3%nat
  | _ => None
  end.
Definition syn_of (t : tok) : option text :=
  match t with
  | TQuoteSyntax => Some (cps "syntax") | TQuasiQuoteSyntax => Some (cps "quasisyntax")
  | TUnquoteSyntax => Some (cps "#%unsyntax") | TUnquoteSpliceSyntax => Some (cps "#%unsyntax-splicing")
  | _ => None
  end.

Definition run_tick (which : nat) (stack_len : nat) (st : pst) (sp : N * N) (next : pst -> pres) : pres :=
  let st_in := tick_pre which stack_len st in
  let r := after_inner (next st_in) sp st_in in
  let st1 := res_state r st_in in
  let '(ok, st3) := tick_post which st st1 in
  if negb ok then
    match r with PFuel => PFuel | PUnmodelled => PUnmodelled | _ => PPanic st3 end
  else match r with
       | POk d _ eb _ ts => POk (wrap2 (tick_name which st1) d) sp eb st3 ts
       | other => res_with_state other st3
       end.

Section ParserFix.
(* byte length of the whole text: List::new leaves `location` at Span::default(), i.e. absolute (0, 0) *)
Variable tot : N.

Fixpoint p_next (fuel : nat) (st : pst) (ts : list stok) {struct fuel} : pres :=
  match fuel with
  | O => PFuel
  | S fuel' =>
    let st := if negb (qs_nonempty st) && Nat.eqb (shq st) 0 && (match ctx st with [] => true | _ => false end)
              then mkPst 0 (qctx st) (ctx st) (qs_nonempty st) (shq st) else st in
    p_top fuel' st [] ts
  end
with p_top (fuel : nat) (st : pst) (dcs : list (N * N)) (ts : list stok) {struct fuel} : pres :=
  match fuel with
  | O => PFuel
  | S fuel' =>
    match ts with
    | [] => match dcs with [] => PEnd | sp :: _ => PErr SyntaxError sp st end
    | (t, a, b) :: ts' =>
      let finish (r : pres) : pres :=
        match r, dcs with
        | POk _ _ _ st' ts'', _ :: dcs' => p_top fuel' st' dcs' ts''
        | _, _ => r
        end in
      match t with
      | TError e => PErr (lexerr_kind e) (a, b) st
      | TComment doc => if doc then PUnmodelled else p_top fuel' st dcs ts'
      | TDatumComment => p_top fuel' st ((a, b) :: dcs) ts'
      | TOpen p m => finish (p_list fuel' (st_set_qs false st) [] (new_frame p m (a, b)) (a, b) ts')
      | TClose _ => PErr PUnexpectedChar (a, b) st
      | _ =>
        match tick_of t, syn_of t with
        | Some which, _ => finish (run_tick which 0 st (a, b) (fun st' => p_next fuel' st' ts'))
        | None, Some name =>
          finish (match after_inner (p_next fuel' st ts') (a, b) st with
                  | POk d _ eb st' ts'' => POk (wrap2 name d) (tot, tot) eb st' ts''
                  | r => r
                  end)
        | None, None => finish (POk (tok_to_datum t) (a, b) b st ts')
        end
      end
    end
  end
with p_list (fuel : nat) (st : pst) (stack : list frame) (cur : frame) (last : N * N) (ts : list stok)
     {struct fuel} : pres :=
  match fuel with
  | O => PFuel
  | S fuel' =>
    match ts with
    | [] => PErr UnexpectedEOF last st
    | (t, a, b) :: ts' =>
      let push_and_go (st' : pst) (e : pexpr) (ts'' : list stok) : pres :=
        match frame_push cur e with
        | inl sp => PErr SyntaxError sp st'
        | inr cur' => p_list fuel' st' stack cur' (a, b) ts''
        end in
      match t with
      | TError e => PErr (lexerr_kind e) (a, b) st
      | TDot =>
        match f_dot cur with
        | Some _ => PErr SyntaxError (a, b) st
        | None =>
          match f_exprs cur with
          | [] => PErr SyntaxError (a, b) st
          | _ =>
            match f_mod cur with
            | Some _ => PErr SyntaxError (a, b) st
            | None =>
              match f_comment cur with
              | S _ => PErr SyntaxError (a, b) st
              | O => p_list fuel' st stack
                       (mkFrame (f_paren cur) (f_mod cur) (f_exprs cur) (Some (List.length (f_exprs cur), (a, b)))
                                (f_comment cur) (f_open cur)) (a, b) ts'
              end
            end
          end
        end
      | TComment _ => p_list fuel' st stack cur (a, b) ts'
      | TDatumComment =>
        if Nat.eqb (f_comment cur) 255 then PPanic st     (* u8 `comment += 1` overflow check *)
        else p_list fuel' st stack
               (mkFrame (f_paren cur) (f_mod cur) (f_exprs cur) (f_dot cur) (S (f_comment cur)) (f_open cur))
               (a, b) ts'
      | TOpen p m => p_list fuel' st (cur :: stack) (new_frame p m (a, b)) (a, b) ts'
      | TClose p =>
        if negb (paren_eqb p (f_paren cur)) then PErr MismatchedParen (a, b) st
        else
          match stack with
          | prev :: stack' =>
            let '(prev1, st1) := close_parent prev st in
            let st2 := close_ctx (List.length stack') st1 in
            match build_expr cur with
            | inl sp => PErr SyntaxError sp st2
            | inr d =>
              match frame_push prev1 (PD d (match f_mod cur with None => true | Some _ => false end) (fst (f_open cur)) b) with
              | inl sp => PErr SyntaxError sp st2
              | inr prev2 => p_list fuel' st2 stack' prev2 (a, b) ts'
              end
            end
          | [] =>
            let st1 := close_top_ctx st in
            match build_expr cur with
            | inl sp => PErr SyntaxError sp st1
            | inr d => POk d (fst (f_open cur), b) b st1 ts'
            end
          end
      | _ =>
        match tick_of t, syn_of t with
        | Some which, _ =>
          match run_tick which (List.length stack) st (a, b) (fun st' => p_next fuel' st' ts') with
          | POk d sp _ st' ts'' =>
            (* ExprKind::Quote carries the tick's span; the other shorthands build a List whose location is (0, 0) *)
            if Nat.eqb which 0 then push_and_go st' (PD d false (fst sp) (snd sp)) ts''
            else push_and_go st' (PD d true tot tot) ts''
          | r => r
          end
        | None, Some name =>
          match after_inner (p_next fuel' st ts') (a, b) st with
          | POk d _ _ st' ts'' => push_and_go st' (PD (wrap2 name d) true tot tot) ts''
          | r => r
          end
        | None, None =>
          let st0 := match t with TKw KQuote => st_set_qs true st | _ => st end in
          let st1 := match f_exprs cur with
                     | [] => atom_head_ctx t (List.length stack) st0
                     | _ => st0
                     end in
          push_and_go st1 (PA t a b) ts'
        end
      end
    end
  end.

End ParserFix.

Definition pst0 : pst := mkPst 0 false [] false 0.

Fixpoint has_bad (d : datum) : bool :=
  match d with
  | DBad => true
  | DList l | DVec l => existsb has_bad l
  | DPair a b => has_bad a || has_bad b
  | _ => false
  end.

(* what one `read` does with a buffer: Parser::new_flat(text).next(), then try_from_expr_kind_quoted *)
Inductive rres :=
| ROk (d : datum) (eb : N)       (* datum + suffix length at parser.offset() *)
| RConvErr (eb : N)              (* parsed, but the conversion to a value reports an error *)
| RErr (k : perrk) (a b : N)
| REof
| RPanic
| RUnmodelled
| RFuel.

Definition parse_fuel (ts : list stok) : nat := 2 * List.length ts + 4.

Definition read_tokens (tot : N) (ts : list stok) : rres :=
  match p_next tot (parse_fuel ts) pst0 ts with
  | POk d _ eb _ _ => if has_bad d then RConvErr eb else ROk d eb
  | PErr k sp _ => RErr k (fst sp) (snd sp)
  | PEnd => REof
  | PPanic _ => RPanic
  | PUnmodelled => RUnmodelled
  | PFuel => RFuel
  end.

Definition read_first (s : text) : rres :=
  match lex s with
  | Some ts => read_tokens (blen s) ts
  | None => RFuel
  end.

(* the suffix of [s] whose byte length is [b] (offsets are always on character boundaries) *)
Fixpoint suffix_of (s : text) (b : N) : text :=
  match s with
  | [] => []
  | _ :: s' => if blen s <=? b then s else suffix_of s' b
  end.

(* all the data `read` delivers from one buffer, each with a fresh parser on the rest *)
Fixpoint read_all (fuel : nat) (s : text) : list rres :=
  match fuel with
  | O => [RFuel]
  | S fuel' =>
    match read_first s with
    | ROk d eb => ROk d eb :: (if blen s <=? eb then [RFuel] else read_all fuel' (suffix_of s eb))
    | RConvErr eb => RConvErr eb :: (if blen s <=? eb then [RFuel] else read_all fuel' (suffix_of s eb))
    | r => [r]
    end
  end.

(* ------------------------------------------------------------------ the writer: cycles.rs format_with_cycles,
   external = true.  [pr c] stands for "Rust prints c unescaped" (core::unicode printable tables and
   Grapheme_Extend, i.e. char::escape_debug yields the character itself): the library tables are not
   modelled, every theorem holds for every such predicate. *)
Fixpoint digits_fuel (fuel : nat) (n : N) (acc : text) : text :=
  match fuel with
  | O => acc
  | S f => let acc' := (48 + n mod 10) :: acc in
           if n <? 10 then acc' else digits_fuel f (n / 10) acc'
  end.
Definition write_nat (n : N) : text := digits_fuel (S (N.to_nat (N.log2 n))) n [].
Definition write_int (z : Z) : text :=
  match z with
  | Z0 => [48]
  | Zpos p => write_nat (Npos p)
  | Zneg p => 45 :: write_nat (Npos p)
  end.

Definition hex_digit (v : N) : N := if v <? 10 then 48 + v else 87 + v.      (* lower case *)
Definition hex_digit_up (v : N) : N := if v <? 10 then 48 + v else 55 + v.   (* upper case *)
Fixpoint hex_fuel (fuel : nat) (n : N) (acc : text) : text :=
  match fuel with
  | O => acc
  | S f => let acc' := hex_digit (n mod 16) :: acc in
           if n <? 16 then acc' else hex_fuel f (n / 16) acc'
  end.
Definition write_hex (n : N) : text := hex_fuel (S (N.to_nat (N.log2 n))) n [].
Definition pad4 (l : text) : text := repeat 48 (4 - List.length l) ++ l.

Section Writer.
Variable pr : N -> bool.

(* <str as Debug>::fmt, i.e. char::escape_debug_ext with escape_double_quote, without escape_single_quote *)
Definition esc_str_char (c : N) : text :=
  if c =? 0 then [92; 48]
  else if c =? 9 then [92; 116]
  else if c =? 13 then [92; 114]
  else if c =? 10 then [92; 110]
  else if c =? 92 then [92; 92]
  else if c =? 34 then [92; 34]
  else if pr c then [c]
  else [92; 117; 123] ++ write_hex c ++ [125].
Definition write_string (s : text) : text := 34 :: flat_map esc_str_char s ++ [34].

(* CharV, external (cycles.rs L173-189) *)
Definition write_char (c : N) : text :=
  if c =? 32 then cps "#\space"
  else if c =? 0 then cps "#\null"
  else if c =? 9 then cps "#\tab"
  else if c =? 10 then cps "#\newline"
  else if c =? 13 then cps "#\return"
  else if (c =? 92) || (c =? 34) || (c =? 39) || pr c then [35; 92; c]     (* escape_debug().len() <= 2 *)
  else [35; 92; 117] ++ pad4 (write_hex c).

Definition write_byte (b : N) : text := [35; 120; hex_digit_up (b / 16); hex_digit_up (b mod 16)].

Fixpoint sep_by (l : list text) : text :=
  match l with
  | [] => []
  | [x] => x
  | x :: r => x ++ 32 :: sep_by r
  end.

(* k = remaining nesting budget: format_with_cycles prints `...` below depth 128 *)
Fixpoint write_k (k : nat) (d : datum) : text :=
  match k with
  | O => cps "..."
  | S k' =>
    match d with
    | DInt z => write_int z
    | DRat n dn => write_int n ++ 47 :: write_int dn
    | DOpaque => []
    | DBad => []
    | DBool b => if b then cps "#true" else cps "#false"
    | DChar c => write_char c
    | DStr s => write_string s
    | DSym s => s
    | DList l => 40 :: sep_by (map (write_k k') l) ++ [41]
    | DPair a b => 40 :: write_k k' a ++ cps " . " ++ write_k k' b ++ [41]
    | DVec l => 35 :: 40 :: sep_by (map (write_k k') l) ++ [41]
    | DBytes l => cps "#u8(" ++ sep_by (map write_byte l) ++ [41]
    end
  end.
Definition write (d : datum) : text := write_k 128 d.

(* the same without the depth limit (the theorems relate the two) *)
Fixpoint write_u (d : datum) : text :=
  match d with
  | DInt z => write_int z
  | DRat n dn => write_int n ++ 47 :: write_int dn
  | DOpaque => []
  | DBad => []
  | DBool b => if b then cps "#true" else cps "#false"
  | DChar c => write_char c
  | DStr s => write_string s
  | DSym s => s
  | DList l => 40 :: sep_by (map write_u l) ++ [41]
  | DPair a b => 40 :: write_u a ++ cps " . " ++ write_u b ++ [41]
  | DVec l => 35 :: 40 :: sep_by (map write_u l) ++ [41]
  | DBytes l => cps "#u8(" ++ sep_by (map write_byte l) ++ [41]
  end.
End Writer.

Fixpoint height (d : datum) : nat :=
  match d with
  | DList l | DVec l => S (fold_right (fun x m => Nat.max (height x) m) 0%nat l)
  | DPair a b => S (Nat.max (height a) (height b))
  | _ => 1%nat
  end.

(* ------------------------------------------------------------------ rendering for the correspondence
   (ASCII only: every code point outside 0x21..0x7e, the backslash and the double quote are shown as \x<hex>;) *)
Definition show_cp (c : N) : text :=
  if ((33 <=? c) && (c <=? 126) && negb (c =? 92) && negb (c =? 34)) then [c]
  else [92; 120] ++ write_hex c ++ [59].
Definition show_text (s : text) : text := flat_map show_cp s.
Fixpoint to_string (s : text) : string :=
  match s with [] => EmptyString | c :: r => String (ascii_of_N c) (to_string r) end.

Definition show_N (n : N) : text := write_nat n.

Fixpoint show_datum (d : datum) : text :=
  match d with
  | DInt z => 73 :: write_int z                                   (* I<z> *)
  | DRat n dn => 82 :: write_int n ++ 47 :: write_int dn          (* R<n>/<d> *)
  | DOpaque => cps "?"
  | DBad => cps "<bad>"
  | DBool b => if b then cps "#t" else cps "#f"
  | DChar c => cps "#\x" ++ write_hex c
  | DStr s => 34 :: show_text s ++ [34]
  | DSym s => 39 :: 34 :: show_text s ++ [34]
  | DList l => 40 :: sep_by (map show_datum l) ++ [41]
  | DPair a b => 40 :: show_datum a ++ cps " . " ++ show_datum b ++ [41]
  | DVec l => 35 :: 40 :: sep_by (map show_datum l) ++ [41]
  | DBytes l => cps "#u8(" ++ sep_by (map write_byte l) ++ [41]
  end.

Definition show_perrk (k : perrk) : text :=
  match k with
  | MismatchedParen => cps "MismatchedParen" | UnexpectedEOF => cps "UnexpectedEOF"
  | PUnexpectedChar => cps "UnexpectedChar" | SyntaxError => cps "SyntaxError"
  end.

(* offsets are rendered as absolute byte offsets: total - suffix length *)
Definition show_rres (total : N) (r : rres) : text :=
  match r with
  | ROk d eb => cps "ok " ++ show_N (total - eb) ++ 32 :: show_datum d
  | RConvErr eb => cps "converr " ++ show_N (total - eb)
  | RErr k a b => cps "err " ++ show_perrk k ++ 32 :: show_N (total - a) ++ 32 :: show_N (total - b)
  | REof => cps "eof"
  | RPanic => cps "panic"
  | RUnmodelled => cps "unmodelled"
  | RFuel => cps "FUEL"
  end.

Fixpoint join_nl (l : list text) : text :=
  match l with [] => [] | [x] => x | x :: r => x ++ 9 :: join_nl r end.   (* tab separated: one line *)

(* each result is rendered relative to the buffer it was read from; the harness does the same *)
Fixpoint show_reads (fuel : nat) (s : text) : list text :=
  match fuel with
  | O => [cps "FUEL"]
  | S fuel' =>
    let r := read_first s in
    show_rres (blen s) r ::
      match r with
      | ROk _ eb | RConvErr eb => if blen s <=? eb then [cps "STUCK"] else show_reads fuel' (suffix_of s eb)
      | _ => []
      end
  end.
Definition run_read (s : text) : string := to_string (join_nl (show_reads (S (List.length s)) s)).

Definition show_lexerr (e : lexerr) : text :=
  match e with
  | UnexpectedChar => cps "UnexpectedChar" | IncompleteString => cps "IncompleteString"
  | IncompleteIdentifier => cps "IncompleteIdentifier" | IncompleteComment => cps "IncompleteComment"
  | InvalidWhitespace => cps "InvalidWhitespace" | InvalidStringEscape => cps "InvalidStringEscape"
  | InvalidCharacter => cps "InvalidCharacter" | ZeroDenominator => cps "ZeroDenominator"
  | UnclosedHexEscape => cps "UnclosedHexEscape" | InvalidCharName => cps "InvalidCharName"
  | InvalidHexEscapeLiteral => cps "InvalidHexEscapeLiteral" | InvalidHexCodePoint => cps "InvalidHexCodePoint"
  end.
Definition show_paren (p : paren) : text := match p with Round => cps "r" | Square => cps "s" | Curly => cps "c" end.
Definition show_tok (t : tok) : text :=
  match t with
  | TOpen p None => cps "open " ++ show_paren p
  | TOpen p (Some PVector) => cps "open " ++ show_paren p ++ cps "v"
  | TOpen p (Some PBytes) => cps "open " ++ show_paren p ++ cps "b"
  | TClose p => cps "close " ++ show_paren p
  | TQuoteTick => cps "quotetick" | TQuasiQuote => cps "quasiquote" | TUnquote => cps "unquote"
  | TUnquoteSplice => cps "unquotesplice" | TQuoteSyntax => cps "quotesyntax"
  | TQuasiQuoteSyntax => cps "quasiquotesyntax" | TUnquoteSyntax => cps "unquotesyntax"
  | TUnquoteSpliceSyntax => cps "unquotesplicesyntax"
  | TKw k => cps "kw " ++ kw_name k
  | TChar c => cps "char " ++ show_N c
  | TDatumComment => cps "datumcomment"
  | TComment _ => cps "comment"
  | TBool b => if b then cps "bool t" else cps "bool f"
  | TIdent s => cps "ident " ++ show_text s
  | TKeyword s => cps "keyword " ++ show_text s
  | TNum (NInt z) => cps "num int:" ++ write_int z
  | TNum (NRat n d) => cps "num rat:" ++ write_int n ++ 47 :: write_int d
  | TNum NFloat => cps "num float"
  | TNum NComplex => cps "num complex"
  | TNum NPolar => cps "num polar"
  | TStr s => cps "str " ++ show_text s
  | TDot => cps "dot"
  | TError e => cps "ERR " ++ show_lexerr e
  end.
Definition show_stok (total : N) (x : stok) : text :=
  let '(t, a, b) := x in show_N (total - a) ++ 32 :: show_N (total - b) ++ 32 :: show_tok t.
Definition run_lex (s : text) : string :=
  match lex s with
  | Some ts => to_string (join_nl (map (show_stok (blen s)) ts))
  | None => "FUEL"%string
  end.

Definition run_write (pr : N -> bool) (d : datum) : string := to_string (show_text (write pr d)).
Definition run_roundtrip (pr : N -> bool) (d : datum) : string :=
  match read_first (write pr d) with
  | ROk d' eb => ((if N.eqb eb 0 then "ok " else "partial ") ++ to_string (show_datum d'))%string
  | r => to_string (show_rres (blen (write pr d)) r)
  end.
