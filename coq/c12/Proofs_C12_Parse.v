(* C12 — read (write d) = d, parser side: the flat parser rebuilds a representable datum from its tokens. *)
From Coq Require Import NArith ZArith List Bool Ascii String Lia.
From SV Require Import c12.Model_C12 c12.Proofs_C12.
Import ListNotations.
Open Scope N_scope.

Definition tokof (x : stok) : tok := fst (fst x).

Definition pushable (cur : frame) : Prop :=
  f_comment cur = 0%nat /\ f_mod cur <> Some PBytes /\
  match f_dot cur with None => True | Some (idx, _) => idx = List.length (f_exprs cur) end.

Definition push_expr (cur : frame) (e : pexpr) : frame :=
  mkFrame (f_paren cur) (f_mod cur) (f_exprs cur ++ [e]) (f_dot cur) 0 (f_open cur).

Lemma frame_push_ok : forall cur e, pushable cur -> frame_push cur e = inr (push_expr cur e).
Proof.
  intros cur e [Hc [Hm Hd]]. unfold frame_push, push_expr.
  assert (E1 : match f_dot cur with Some (idx, _) => Nat.eqb idx (List.length (f_exprs cur)) | None => true end = true).
  { destruct (f_dot cur) as [[idx sp]|]; [subst; apply Nat.eqb_refl|reflexivity]. }
  rewrite E1. cbn [negb].
  assert (E2 : match f_mod cur, e with
               | Some PBytes, PA t _ _ => match tok_byte t with Some _ => true | None => false end
               | Some PBytes, _ => false
               | _, _ => true end = true).
  { destruct (f_mod cur) as [[|]|]; try reflexivity. congruence. }
  rewrite E2. cbn [negb]. rewrite Hc. reflexivity.
Qed.

Lemma p_list_atom : forall tot f st stack cur last t a b ts,
  atom_tok t = true -> pushable cur ->
  exists st1, p_list tot (S f) st stack cur last ((t, a, b) :: ts)
              = p_list tot f st1 stack (push_expr cur (PA t a b)) (a, b) ts.
Proof.
  intros tot f st stack cur last t a b ts Ha Hp.
  destruct t; try discriminate Ha; cbn [p_list tick_of syn_of]; rewrite (frame_push_ok cur _ Hp); eexists; reflexivity.
Qed.

(* ------------------------------------------------------------------ tokens of a written datum *)
Definition sym_tok (s : text) : tok := match kw_of_word s with Some t => t | None => TIdent s end.

Definition atom_toks (d : datum) : option tok :=
  match d with
  | DInt z => Some (TNum (NInt z)) | DRat n dn => Some (TNum (NRat n dn)) | DBool b => Some (TBool b)
  | DChar c => Some (TChar c) | DStr s => Some (TStr s) | DSym s => Some (sym_tok s)
  | _ => None
  end.

Definition byte_tok (b : N) : tok := TNum (NInt (Z.of_N b)).

Fixpoint tk_of (d : datum) : list tok :=
  match d with
  | DList l => TOpen Round None :: flat_map tk_of l ++ [TClose Round]
  | DPair a b => TOpen Round None :: (tk_of a ++ TDot :: tk_of b) ++ [TClose Round]
  | DVec l => TOpen Round (Some PVector) :: flat_map tk_of l ++ [TClose Round]
  | DBytes l => TOpen Round (Some PBytes) :: map byte_tok l ++ [TClose Round]
  | DInt z => [TNum (NInt z)] | DRat n dn => [TNum (NRat n dn)] | DBool b => [TBool b]
  | DChar c => [TChar c] | DStr s => [TStr s] | DSym s => [sym_tok s]
  | DOpaque | DBad => []
  end.

Definition not_unq (s : text) : Prop :=
  text_eqb s s_unquote = false /\ text_eqb s s_unquote_splicing = false.
Definition hd_ok (l : list datum) : Prop := match l with DSym s :: _ => not_unq s | _ => True end.

(* data for which read (write d) = d is claimed: every kind of the quantifier except floats; excluded are the
   known classes (symbols needing bars, a list / vector / pair headed by unquote or unquote-splicing) and a pair
   whose cdr is a proper list (not constructible: cons onto a list is a list; the reader splices it) *)
Fixpoint rep (d : datum) : Prop :=
  match d with
  | DInt _ | DBool _ => True
  | DRat n dn => (1 < dn)%Z /\ Z.gcd n dn = 1%Z
  | DChar c => valid_scalar c = true
  | DStr s => Forall (fun c => valid_scalar c = true) s
  | DSym s => sym_plain s = true
  | DList l => hd_ok l /\ (fix all (l : list datum) : Prop := match l with [] => True | x :: r => rep x /\ all r end) l
  | DPair a b => hd_ok [a] /\ rep a /\ rep b /\ match b with DList _ => False | _ => True end
  | DVec l => hd_ok l /\ (fix all (l : list datum) : Prop := match l with [] => True | x :: r => rep x /\ all r end) l
  | DBytes l => Forall (fun b => b < 256) l
  | DOpaque | DBad => False
  end.

Lemma rep_all : forall l,
  (fix all (l : list datum) : Prop := match l with [] => True | x :: r => rep x /\ all r end) l <-> Forall rep l.
Proof.
  induction l as [|x l IH].
  - split; intros; [constructor|exact I].
  - split; intros H.
    + simpl in H. destruct H as [H1 H2]. constructor; [exact H1|apply IH; exact H2].
    + inversion H; subst. simpl. split; [assumption|apply IH; assumption].
Qed.

Lemma sym_tok_spec : forall s, sym_plain s = true ->
  tok_to_datum (sym_tok s) = DSym s /\ atom_tok (sym_tok s) = true /\
  (forall x, sym_tok s = TIdent x -> x = s).
Proof.
  intros s Hp. unfold sym_plain in Hp. destruct s as [|c s']; [discriminate|].
  apply andb_true_iff in Hp. destruct Hp as [_ Hal]. unfold alias_ok in Hal. unfold sym_tok.
  destruct (kw_of_word (c :: s')) as [tk|] eqn:Ek.
  - destruct (tok_to_datum tk) eqn:Ed; try discriminate Hal. apply text_eqb_eq in Hal. subst.
    unfold kw_of_word in Ek.
    repeat match type of Ek with (if ?b then _ else _) = _ => destruct b end;
      inversion Ek; subst; cbn in Ed; try discriminate; (split; [reflexivity|split; [reflexivity|intros x Hx; discriminate]]).
  - split; [reflexivity|split; [reflexivity|intros x Hx; inversion Hx; reflexivity]].
Qed.

Lemma norm_rat_reduced : forall n d, (1 < d)%Z -> Z.gcd n d = 1%Z -> norm_rat n d = DRat n d.
Proof.
  intros n d Hd Hg. unfold norm_rat. rewrite Hg. cbn [Z.eqb]. rewrite !Z.div_1_r.
  destruct (d =? 1)%Z eqn:E; [apply Z.eqb_eq in E; lia|reflexivity].
Qed.

Lemma atom_toks_datum : forall d t, rep d -> atom_toks d = Some t -> tok_to_datum t = d /\ atom_tok t = true.
Proof.
  intros d t Hr H. destruct d; cbn in H; inversion H; subst; cbn [tok_to_datum atom_tok]; try (split; reflexivity).
  - destruct Hr as [H1 H2]. rewrite norm_rat_reduced by assumption. split; reflexivity.
  - destruct (sym_tok_spec s Hr) as [H1 [H2 _]]. split; assumption.
Qed.

(* ------------------------------------------------------------------ the flat parser on those tokens *)
Definition head_ok (cur : frame) : Prop :=
  match head_ident cur with Some s => not_unq s | None => True end.

Definition with_exprs (cur : frame) (es : list pexpr) : frame :=
  mkFrame (f_paren cur) (f_mod cur) (f_exprs cur ++ es) (f_dot cur) 0 (f_open cur).

Lemma push_expr_with : forall cur e, push_expr cur e = with_exprs cur [e].
Proof. reflexivity. Qed.
Lemma with_with : forall cur a b, with_exprs (with_exprs cur a) b = with_exprs cur (a ++ b).
Proof. intros. unfold with_exprs. cbn. rewrite app_assoc. reflexivity. Qed.
Lemma with_nil : forall cur, f_comment cur = 0%nat -> with_exprs cur [] = cur.
Proof. intros [p m es d c o] H. cbn in H. subst. unfold with_exprs. cbn. rewrite app_nil_r. reflexivity. Qed.

Definition e_ok (d : datum) (e : pexpr) : Prop :=
  match e with
  | PA t _ _ => atom_toks d = Some t
  | PD dd _ _ _ => dd = d /\ atom_toks d = None
  end.

Lemma e_ok_datum : forall d e, rep d -> e_ok d e -> pexpr_datum e = d.
Proof.
  intros d e Hr He. destruct e; cbn in *.
  - apply (atom_toks_datum d t Hr He).
  - tauto.
Qed.

Lemma e_ok_map : forall l es, Forall rep l -> Forall2 e_ok l es -> map pexpr_datum es = l.
Proof.
  intros l es Hr H. induction H as [|d e l es He H IH]; [reflexivity|].
  inversion Hr; subst. cbn [map]. rewrite IH by assumption. rewrite (e_ok_datum d e) by assumption. reflexivity.
Qed.

Lemma close_parent_ok : forall prev st, head_ok prev -> exists st1, close_parent prev st = (prev, st1).
Proof.
  intros prev st H. unfold close_parent, head_ok in *. destruct (head_ident prev) as [s|]; [|eexists; reflexivity].
  destruct H as [H1 H2]. rewrite H1, H2. destruct (text_eqb s s_quasiquote); eexists; reflexivity.
Qed.

Lemma p_list_open : forall tot f st stack cur last p m a b ts,
  p_list tot (S f) st stack cur last ((TOpen p m, a, b) :: ts)
  = p_list tot f st (cur :: stack) (new_frame p m (a, b)) (a, b) ts.
Proof. reflexivity. Qed.

Lemma p_list_close_nested : forall tot f st prev stack cur last a b ts d,
  f_paren cur = Round -> build_expr cur = inr d -> head_ok prev -> pushable prev ->
  exists st2, p_list tot (S f) st (prev :: stack) cur last ((TClose Round, a, b) :: ts)
    = p_list tot f st2 stack
        (push_expr prev (PD d (match f_mod cur with None => true | Some _ => false end) (fst (f_open cur)) b)) (a, b) ts.
Proof.
  intros tot f st prev stack cur last a b ts d Hp Hb Hh Hpu.
  destruct (close_parent_ok prev st Hh) as [st1 E1].
  cbn [p_list tick_of syn_of]. rewrite Hp. cbn [paren_eqb negb]. rewrite E1, Hb.
  rewrite (frame_push_ok prev _ Hpu). eexists; reflexivity.
Qed.

Lemma p_list_close_top : forall tot f st cur last a b ts d,
  f_paren cur = Round -> build_expr cur = inr d ->
  exists st1, p_list tot (S f) st [] cur last ((TClose Round, a, b) :: ts) = POk d (fst (f_open cur), b) b st1 ts.
Proof.
  intros tot f st cur last a b ts d Hp Hb. cbn [p_list tick_of syn_of]. rewrite Hp. cbn [paren_eqb negb]. rewrite Hb.
  eexists; reflexivity.
Qed.

Lemma p_list_dot : forall tot f st stack cur last a b ts,
  f_dot cur = None -> f_exprs cur <> [] -> f_mod cur = None -> f_comment cur = 0%nat ->
  p_list tot (S f) st stack cur last ((TDot, a, b) :: ts)
  = p_list tot f st stack
      (mkFrame (f_paren cur) (f_mod cur) (f_exprs cur) (Some (List.length (f_exprs cur), (a, b))) (f_comment cur) (f_open cur))
      (a, b) ts.
Proof.
  intros tot f st stack cur last a b ts H1 H2 H3 H4. cbn [p_list]. rewrite H1, H3, H4.
  destruct (f_exprs cur); [congruence|reflexivity].
Qed.

Definition P (d : datum) : Prop := rep d ->
  forall tot ts1 ts2 f st stack cur last,
  map tokof ts1 = tk_of d -> pushable cur -> head_ok cur ->
  exists st' e last', e_ok d e /\
    p_list tot (List.length ts1 + f) st stack cur last (ts1 ++ ts2)
    = p_list tot f st' stack (push_expr cur e) last' ts2.

Lemma head_ok_push : forall cur d e,
  head_ok cur -> (f_exprs cur = [] -> hd_ok [d]) -> rep d -> e_ok d e -> head_ok (push_expr cur e).
Proof.
  intros cur d e Hh Hd Hr He. unfold head_ok, head_ident, push_expr in *. cbn [f_exprs].
  destruct (f_exprs cur) as [|e0 r].
  - cbn [app]. destruct e as [t a b|dd il a b]; [|exact I].
    destruct t; try exact I. cbn in He.
    destruct d; cbn in He; try discriminate.
    inversion He as [Hs]. destruct (sym_tok_spec s0 Hr) as [_ [_ Hx]]. specialize (Hx s Hs). subst.
    apply (Hd eq_refl).
  - cbn [app]. exact Hh.
Qed.

Lemma pushable_push : forall cur e, pushable cur -> f_dot cur = None -> pushable (push_expr cur e).
Proof.
  intros cur e [H1 [H2 H3]] Hd. unfold pushable, push_expr. cbn. rewrite Hd. tauto.
Qed.

Lemma p_elems : forall l, Forall P l -> Forall rep l ->
  forall tot ts1 ts2 f st stack cur last,
  map tokof ts1 = flat_map tk_of l -> pushable cur -> f_dot cur = None -> head_ok cur ->
  (f_exprs cur = [] -> hd_ok l) ->
  exists st' es last', Forall2 e_ok l es /\
    p_list tot (List.length ts1 + f) st stack cur last (ts1 ++ ts2)
    = p_list tot f st' stack (with_exprs cur es) last' ts2.
Proof.
  induction l as [|x l IH]; intros HP Hr tot ts1 ts2 f st stack cur last Hm Hpu Hdot Hh Hhd.
  - cbn in Hm. apply map_eq_nil in Hm. subst ts1. exists st, [], last. split; [constructor|].
    cbn [List.length Nat.add app]. rewrite with_nil by (destruct Hpu; assumption). reflexivity.
  - inversion HP as [|? ? HPx HPl]; subst. inversion Hr as [|? ? Hrx Hrl]; subst.
    cbn [flat_map] in Hm. apply map_eq_app in Hm. destruct Hm as [t1 [t2 [E [Hm1 Hm2]]]]. subst ts1.
    destruct (HPx Hrx tot t1 (t2 ++ ts2) (List.length t2 + f)%nat st stack cur last Hm1 Hpu Hh) as [st1 [e [last1 [He Eq1]]]].
    assert (Hh1 : head_ok (push_expr cur e)).
    { apply (head_ok_push cur x e Hh); assumption. }
    destruct (IH HPl Hrl tot t2 ts2 f st1 stack (push_expr cur e) last1 Hm2
                 (pushable_push cur e Hpu Hdot) Hdot Hh1) as [st2 [es [last2 [Hes Eq2]]]].
    { intros Hnil. unfold push_expr in Hnil. cbn in Hnil. destruct (f_exprs cur); discriminate. }
    exists st2, (e :: es), last2. split; [constructor; assumption|].
    rewrite app_length, <- app_assoc, <- Nat.add_assoc. rewrite Eq1, Eq2.
    rewrite push_expr_with, with_with. reflexivity.
Qed.

Definition mod_datum (m : option pmod) (l : list datum) : datum :=
  match m with None => DList l | Some _ => DVec l end.

Lemma p_body_list : forall l m, (m = None \/ m = Some PVector) -> Forall P l -> Forall rep l -> hd_ok l ->
  forall tot mid ts2 f st stack sp last,
  map tokof mid = flat_map tk_of l ->
  exists st' cur' last',
    p_list tot (List.length mid + f) st stack (new_frame Round m sp) last (mid ++ ts2)
    = p_list tot f st' stack cur' last' ts2 /\
    build_expr cur' = inr (mod_datum m l) /\ f_paren cur' = Round /\ f_mod cur' = m.
Proof.
  intros l m Hm HP Hr Hhd tot mid ts2 f st stack sp last Hmap.
  assert (Hpu : pushable (new_frame Round m sp)).
  { unfold pushable, new_frame. cbn. split; [reflexivity|]. split; [|exact I]. destruct Hm; subst; discriminate. }
  destruct (p_elems l HP Hr tot mid ts2 f st stack (new_frame Round m sp) last Hmap Hpu eq_refl I (fun _ => Hhd))
    as [st' [es [last' [Hes Eq]]]].
  exists st', (with_exprs (new_frame Round m sp) es), last'. split; [exact Eq|].
  split; [|split; reflexivity].
  unfold build_expr, with_exprs, new_frame. cbn. rewrite (e_ok_map l es Hr Hes).
  destruct Hm; subst; reflexivity.
Qed.

Lemma improper2 : forall ea eb a b, pexpr_datum ea = a -> pexpr_datum eb = b ->
  match b with DList _ => False | _ => True end -> improper_of [ea; eb] = DPair a b.
Proof.
  intros ea eb a b Ha Hb Hnl. subst a b.
  destruct eb as [t x y|d il x y].
  - destruct ea as [? ? ?|? [|] ? ?]; reflexivity.
  - destruct il; [|destruct ea as [? ? ?|? [|] ? ?]; reflexivity].
    destruct ea as [? ? ?|? [|] ? ?]; cbn in *; destruct d; try reflexivity; contradiction.
Qed.

Lemma p_body_pair : forall a b, P a -> P b -> rep (DPair a b) ->
  forall tot mid ts2 f st stack sp last,
  map tokof mid = tk_of a ++ TDot :: tk_of b ->
  exists st' cur' last',
    p_list tot (List.length mid + f) st stack (new_frame Round None sp) last (mid ++ ts2)
    = p_list tot f st' stack cur' last' ts2 /\
    build_expr cur' = inr (DPair a b) /\ f_paren cur' = Round /\ f_mod cur' = None.
Proof.
  intros a b HPa HPb Hr tot mid ts2 f st stack sp last Hmap.
  cbn [rep] in Hr. destruct Hr as [Hhd [Hra [Hrb Hnl]]].
  apply map_eq_app in Hmap. destruct Hmap as [ta [tr [E [Hma Hmr]]]]. subst mid.
  apply map_eq_cons in Hmr. destruct tr as [|xd tb]; [destruct Hmr as [? [? [? _]]]; discriminate|].
  destruct Hmr as [xd' [tb' [E2 [Hxd Hmb]]]]. inversion E2; subst xd' tb'. clear E2.
  destruct xd as [[td da] db]. cbn in Hxd. subst td.
  set (nf := new_frame Round None sp).
  assert (Hpu : pushable nf) by (unfold pushable, nf, new_frame; cbn; split; [reflexivity|split; [discriminate|exact I]]).
  destruct (HPa Hra tot ta (((TDot, da, db) :: tb) ++ ts2) (S (List.length tb + f))%nat st stack nf last Hma Hpu I)
    as [st1 [ea [last1 [Hea Eq1]]]].
  set (cur1 := push_expr nf ea) in *.
  set (cur2 := mkFrame (f_paren cur1) (f_mod cur1) (f_exprs cur1) (Some (List.length (f_exprs cur1), (da, db)))
                       (f_comment cur1) (f_open cur1)).
  assert (Hpu2 : pushable cur2) by (unfold pushable, cur2, cur1, push_expr, nf, new_frame; cbn; split; [reflexivity|split; [discriminate|reflexivity]]).
  assert (Hh2 : head_ok cur2).
  { pose proof (head_ok_push nf a ea I (fun _ => Hhd) Hra Hea) as H. exact H. }
  destruct (HPb Hrb tot tb ts2 f st1 stack cur2 (da, db) Hmb Hpu2 Hh2) as [st2 [eb [last2 [Heb Eq2]]]].
  exists st2, (push_expr cur2 eb), last2. split.
  - rewrite app_length. cbn [List.length]. rewrite <- app_assoc.
    replace (List.length ta + S (List.length tb) + f)%nat with (List.length ta + S (List.length tb + f))%nat by lia.
    eapply eq_trans; [exact Eq1|]. cbn [app]. rewrite p_list_dot; try reflexivity.
    + fold cur1. exact Eq2.
    + unfold push_expr, nf, new_frame. cbn. discriminate.
  - split; [|split; reflexivity].
    unfold build_expr, push_expr, cur2, cur1, nf, new_frame. cbn.
    apply f_equal. apply improper2; try assumption; apply e_ok_datum; assumption.
Qed.

Lemma tok_byte_ok : forall b, b < 256 -> tok_byte (byte_tok b) = Some b.
Proof.
  intros b Hb. unfold tok_byte, byte_tok.
  assert (E : ((0 <=? Z.of_N b) && (Z.of_N b <=? 255))%Z = true).
  { apply andb_true_iff. split; apply Z.leb_le; lia. }
  rewrite E, N2Z.id. reflexivity.
Qed.

Lemma frame_push_byte : forall cur b a bb,
  f_mod cur = Some PBytes -> f_comment cur = 0%nat -> f_dot cur = None -> b < 256 ->
  frame_push cur (PA (byte_tok b) a bb) = inr (with_exprs cur [PA (byte_tok b) a bb]).
Proof.
  intros cur b a bb Hmod Hc Hd Hb. unfold frame_push. rewrite Hd, Hmod. cbn [negb].
  rewrite (tok_byte_ok b Hb). cbn [negb]. rewrite Hc. unfold with_exprs. rewrite Hmod, Hd. reflexivity.
Qed.

Lemma p_bytes : forall l, Forall (fun b => b < 256) l ->
  forall tot mid ts2 f st stack cur last,
  map tokof mid = map byte_tok l -> f_mod cur = Some PBytes -> f_comment cur = 0%nat -> f_dot cur = None ->
  exists st' es last',
    p_list tot (List.length mid + f) st stack cur last (mid ++ ts2)
    = p_list tot f st' stack (with_exprs cur es) last' ts2 /\ pexpr_bytes es = l.
Proof.
  induction l as [|b l IH]; intros Hl tot mid ts2 f st stack cur last Hm Hmod Hc Hd.
  - apply map_eq_nil in Hm. subst. exists st, [], last. cbn [List.length Nat.add app]. rewrite with_nil by assumption. split; reflexivity.
  - inversion Hl as [|? ? Hb Hl']; subst. destruct mid as [|[[t a] bb] mid']; [discriminate|].
    cbn [map] in Hm. inversion Hm as [[Ht Hm']]. cbn in Ht. subst t.
    assert (Estep : exists st1, p_list tot (S (List.length mid' + f)) st stack cur last (((byte_tok b, a, bb) :: mid') ++ ts2)
             = p_list tot (List.length mid' + f) st1 stack (with_exprs cur [PA (byte_tok b) a bb]) (a, bb) (mid' ++ ts2)).
    { cbn [app p_list byte_tok tick_of syn_of]. change (TNum (NInt (Z.of_N b))) with (byte_tok b).
      rewrite (frame_push_byte cur b a bb Hmod Hc Hd Hb). eexists; reflexivity. }
    destruct Estep as [st1 E1].
    destruct (IH Hl' tot mid' ts2 f st1 stack (with_exprs cur [PA (byte_tok b) a bb]) (a, bb) Hm' Hmod eq_refl Hd)
      as [st2 [es [last2 [E2 Hes]]]].
    exists st2, (PA (byte_tok b) a bb :: es), last2. split.
    + cbn [List.length Nat.add]. eapply eq_trans; [exact E1|]. eapply eq_trans; [exact E2|]. rewrite with_with. reflexivity.
    + cbn [pexpr_bytes flat_map]. rewrite (tok_byte_ok b Hb). cbn [app]. fold (pexpr_bytes es). rewrite Hes. reflexivity.
Qed.

Lemma p_body_bytes : forall l, Forall (fun b => b < 256) l ->
  forall tot mid ts2 f st stack sp last,
  map tokof mid = map byte_tok l ->
  exists st' cur' last',
    p_list tot (List.length mid + f) st stack (new_frame Round (Some PBytes) sp) last (mid ++ ts2)
    = p_list tot f st' stack cur' last' ts2 /\
    build_expr cur' = inr (DBytes l) /\ f_paren cur' = Round /\ f_mod cur' = Some PBytes.
Proof.
  intros l Hl tot mid ts2 f st stack sp last Hm.
  destruct (p_bytes l Hl tot mid ts2 f st stack (new_frame Round (Some PBytes) sp) last Hm eq_refl eq_refl eq_refl)
    as [st' [es [last' [E Hes]]]].
  exists st', (with_exprs (new_frame Round (Some PBytes) sp) es), last'. split; [exact E|].
  split; [|split; reflexivity]. unfold build_expr, with_exprs, new_frame. cbn [f_comment f_mod f_exprs app]. rewrite Hes. reflexivity.
Qed.

Definition Body (d : datum) (m : option pmod) (body : list tok) : Prop :=
  forall tot mid ts2 f st stack sp last,
  map tokof mid = body ->
  exists st' cur' last',
    p_list tot (List.length mid + f) st stack (new_frame Round m sp) last (mid ++ ts2)
    = p_list tot f st' stack cur' last' ts2 /\
    build_expr cur' = inr d /\ f_paren cur' = Round /\ f_mod cur' = m.

Lemma split_open_close : forall (ts : list stok) m body,
  map tokof ts = TOpen Round m :: body ++ [TClose Round] ->
  exists a b mid a' b', ts = (TOpen Round m, a, b) :: mid ++ [(TClose Round, a', b')] /\ map tokof mid = body.
Proof.
  intros ts m body H. destruct ts as [|[[t a] b] r]; [discriminate|]. cbn [map] in H. inversion H as [[Ht Hr]].
  cbn in Ht. subst t. apply map_eq_app in Hr. destruct Hr as [mid [c [E [Hmid Hc]]]]. subst r.
  destruct c as [|[[tc a'] b'] [|]]; try discriminate. cbn in Hc. inversion Hc as [Htc]. cbn in Htc. subst tc.
  exists a, b, mid, a', b'. split; [reflexivity|assumption].
Qed.

Lemma P_atom : forall d t, atom_toks d = Some t -> tk_of d = [t] -> P d.
Proof.
  intros d t Ha Htk. unfold P. intros Hr tot ts1 ts2 f st stack cur last Hm Hpu Hh.
  rewrite Htk in Hm. destruct ts1 as [|[[t' a] b] [|]]; try discriminate. cbn in Hm. inversion Hm; subst t'.
  destruct (atom_toks_datum d t Hr Ha) as [_ Hat].
  destruct (p_list_atom tot f st stack cur last t a b ts2 Hat Hpu) as [st1 E].
  exists st1, (PA t a b), (a, b). split; [exact Ha|]. exact E.
Qed.

Lemma P_compound : forall d m body, atom_toks d = None ->
  tk_of d = TOpen Round m :: body ++ [TClose Round] -> (rep d -> Body d m body) -> P d.
Proof.
  intros d m body Hnone Htk HB. unfold P. intros Hr tot ts1 ts2 f st stack cur last Hm Hpu Hh.
  rewrite Htk in Hm. destruct (split_open_close ts1 m body Hm) as [a [b [mid [a' [b' [E Hmid]]]]]]. subst ts1.
  destruct (HB Hr tot mid (((TClose Round, a', b') :: nil) ++ ts2) (S f) st (cur :: stack) (a, b) (a, b) Hmid)
    as [st1 [cur' [last1 [E1 [Hb [Hp Hmod]]]]]].
  destruct (p_list_close_nested tot f st1 cur stack cur' last1 a' b' ts2 d Hp Hb Hh Hpu) as [st2 E2].
  exists st2, (PD d (match f_mod cur' with None => true | Some _ => false end) (fst (f_open cur')) b'), (a', b'). split.
  - cbn. split; [reflexivity|exact Hnone].
  - match goal with |- p_list _ ?n _ _ _ _ _ = _ =>
      replace n with (S (List.length mid + S f))%nat by (cbn [List.length]; rewrite app_length; cbn [List.length]; lia) end.
    cbn [app]. eapply eq_trans; [apply p_list_open|]. rewrite <- app_assoc.
    eapply eq_trans; [exact E1|]. exact E2.
Qed.

Lemma P_all : forall d, P d.
Proof.
  induction d using datum_ind'.
  - apply (P_atom _ (TNum (NInt z))); reflexivity.
  - apply (P_atom _ (TNum (NRat n d))); reflexivity.
  - unfold P. intros [].
  - apply (P_atom _ (TBool b)); reflexivity.
  - apply (P_atom _ (TChar c)); reflexivity.
  - apply (P_atom _ (TStr s)); reflexivity.
  - apply (P_atom _ (sym_tok s)); reflexivity.
  - apply (P_compound (DList l) None (flat_map tk_of l)); try reflexivity.
    intros Hr. cbn [rep] in Hr. destruct Hr as [Hhd Hall]. apply rep_all in Hall.
    unfold Body. intros. apply (p_body_list l None (or_introl eq_refl) H Hall Hhd). assumption.
  - apply (P_compound (DPair d1 d2) None (tk_of d1 ++ TDot :: tk_of d2)); try reflexivity.
    intros Hr. unfold Body. intros. apply (p_body_pair d1 d2 IHd1 IHd2 Hr). assumption.
  - apply (P_compound (DVec l) (Some PVector) (flat_map tk_of l)); try reflexivity.
    intros Hr. cbn [rep] in Hr. destruct Hr as [Hhd Hall]. apply rep_all in Hall.
    unfold Body. intros. apply (p_body_list l (Some PVector) (or_intror eq_refl) H Hall Hhd). assumption.
  - apply (P_compound (DBytes l) (Some PBytes) (map byte_tok l)); try reflexivity.
    intros Hr. cbn [rep] in Hr. unfold Body. intros. apply (p_body_bytes l Hr). assumption.
  - unfold P. intros [].
Qed.

Lemma p_top_open : forall tot f st p m a b ts,
  p_top tot (S f) st [] ((TOpen p m, a, b) :: ts)
  = p_list tot f (st_set_qs false st) [] (new_frame p m (a, b)) (a, b) ts.
Proof.
  intros.
  transitivity (let r := p_list tot f (st_set_qs false st) [] (new_frame p m (a, b)) (a, b) ts in
                match r, (@nil (N * N)) with
                | POk _ _ _ st' ts'', _ :: dcs' => p_top tot f st' dcs' ts''
                | _, _ => r
                end).
  { reflexivity. }
  cbv zeta. destruct (p_list tot f (st_set_qs false st) [] (new_frame p m (a, b)) (a, b) ts); reflexivity.
Qed.

Lemma p_next_pst0 : forall tot f ts, p_next tot (S f) pst0 ts = p_top tot f pst0 [] ts.
Proof. reflexivity. Qed.

Lemma parse_compound : forall d m body tot (ts ts0 : list stok) (x : stok),
  rep d -> tk_of d = TOpen Round m :: body ++ [TClose Round] -> Body d m body ->
  map tokof ts = tk_of d -> ts = ts0 ++ [x] ->
  exists sp st', p_next tot (parse_fuel ts) pst0 ts = POk d sp (snd x) st' [].
Proof.
  intros d m body tot ts ts0 x Hr Htk HB Hm Hx. rewrite Htk in Hm.
  destruct (split_open_close ts m body Hm) as [a [b [mid [a' [b' [E Hmid]]]]]].
  assert (Hxc : x = (TClose Round, a', b')).
  { rewrite E in Hx. change ((TOpen Round m, a, b) :: mid ++ [(TClose Round, a', b')])
      with (((TOpen Round m, a, b) :: mid) ++ [(TClose Round, a', b')]) in Hx.
    apply app_inj_tail in Hx. destruct Hx as [_ Hx]. symmetry. exact Hx. }
  subst x. cbn [snd]. clear Hx. subst ts.
  destruct (HB tot mid [(TClose Round, a', b')] (S (List.length mid + 5)) (st_set_qs false pst0) [] (a, b) (a, b) Hmid)
    as [st1 [cur' [last1 [E1 [Hb [Hp Hmod]]]]]].
  destruct (p_list_close_top tot (List.length mid + 5) st1 cur' last1 a' b' [] d Hp Hb) as [st2 E2].
  exists (fst (f_open cur'), b'), st2.
  assert (Hfuel : parse_fuel ((TOpen Round m, a, b) :: mid ++ [(TClose Round, a', b')])
                  = (S (S (List.length mid + S (List.length mid + 5))))%nat).
  { unfold parse_fuel. cbn [List.length]. rewrite app_length. cbn [List.length]. lia. }
  rewrite Hfuel.
  rewrite p_next_pst0, p_top_open. eapply eq_trans; [exact E1|]. exact E2.
Qed.

Lemma rep_no_bad : forall d, rep d -> has_bad d = false.
Proof.
  induction d using datum_ind'; intros Hr; try reflexivity; try (cbn in Hr; contradiction).
  - cbn [rep] in Hr. destruct Hr as [_ Hall]. apply rep_all in Hall. cbn [has_bad].
    induction l as [|x l IHl]; [reflexivity|]. inversion H; subst. inversion Hall; subst.
    cbn [existsb]. rewrite H2 by assumption. apply IHl; assumption.
  - cbn [rep] in Hr. destruct Hr as [_ [Ha [Hb _]]]. cbn [has_bad]. rewrite IHd1, IHd2 by assumption. reflexivity.
  - cbn [rep] in Hr. destruct Hr as [_ Hall]. apply rep_all in Hall. cbn [has_bad].
    induction l as [|x l IHl]; [reflexivity|]. inversion H; subst. inversion Hall; subst.
    cbn [existsb]. rewrite H2 by assumption. apply IHl; assumption.
Qed.

Definition is_compound (d : datum) : Prop := atom_toks d = None.

Lemma body_of : forall d, rep d -> is_compound d ->
  exists m body, tk_of d = TOpen Round m :: body ++ [TClose Round] /\ Body d m body.
Proof.
  intros d Hr Hc. pose proof P_all as HP.
  destruct d; cbn in Hc; try discriminate; try (cbn in Hr; contradiction).
  - exists None, (flat_map tk_of l). split; [reflexivity|]. cbn [rep] in Hr. destruct Hr as [Hhd Hall]. apply rep_all in Hall.
    unfold Body. intros. apply (p_body_list l None (or_introl eq_refl)); try assumption. apply Forall_forall. intros; apply HP.
  - exists None, (tk_of d1 ++ TDot :: tk_of d2). split; [reflexivity|]. unfold Body. intros.
    apply (p_body_pair d1 d2 (HP d1) (HP d2) Hr). assumption.
  - exists (Some PVector), (flat_map tk_of l). split; [reflexivity|]. cbn [rep] in Hr. destruct Hr as [Hhd Hall]. apply rep_all in Hall.
    unfold Body. intros. apply (p_body_list l (Some PVector) (or_intror eq_refl)); try assumption. apply Forall_forall. intros; apply HP.
  - exists (Some PBytes), (map byte_tok l). split; [reflexivity|]. unfold Body. intros. apply (p_body_bytes l Hr). assumption.
Qed.

Theorem read_tokens_compound : forall d tot (ts ts0 : list stok) (x : stok),
  rep d -> is_compound d -> map tokof ts = tk_of d -> ts = ts0 ++ [x] ->
  read_tokens tot ts = ROk d (snd x).
Proof.
  intros d tot ts ts0 x Hr Hc Hm Hx. destruct (body_of d Hr Hc) as [m [body [Htk HB]]].
  destruct (parse_compound d m body tot ts ts0 x Hr Htk HB Hm Hx) as [sp [st' E]].
  unfold read_tokens. rewrite E, (rep_no_bad d Hr). reflexivity.
Qed.
