(* C12 — lex_total: the model lexer returns on every text (its length-based fuel never runs out) and every span it reports lies inside the text. *)
From Coq Require Import NArith ZArith List Bool Ascii String Lia.
From SV Require Import c12.Model_C12.
Import ListNotations.
Open Scope N_scope.

Definition suffix (r s : text) : Prop := exists p, s = p ++ r.

Lemma suffix_refl : forall s, suffix s s. Proof. intros s. exists []. reflexivity. Qed.
Lemma suffix_nil : forall s, suffix [] s. Proof. intros s. exists s. rewrite app_nil_r. reflexivity. Qed.
Lemma suffix_cons : forall r s c, suffix r s -> suffix r (c :: s).
Proof. intros r s c [p E]. exists (c :: p). subst. reflexivity. Qed.
Lemma suffix_trans : forall a b c, suffix a b -> suffix b c -> suffix a c.
Proof. intros a b c [p E] [q F]. exists (q ++ p). subst. rewrite app_assoc. reflexivity. Qed.
Lemma suffix_length : forall r s, suffix r s -> (List.length r <= List.length s)%nat.
Proof. intros r s [p E]. subst. rewrite app_length. lia. Qed.
Lemma blen_app : forall a b, blen (a ++ b) = blen a + blen b.
Proof. induction a as [|c a IH]; intros b; cbn [app blen]; [reflexivity|]. rewrite IH. lia. Qed.
Lemma suffix_blen : forall r s, suffix r s -> blen r <= blen s.
Proof. intros r s [p E]. subst. rewrite blen_app. lia. Qed.
Lemma utf8_len_pos : forall c, 1 <= utf8_len c.
Proof. intros c. unfold utf8_len. repeat match goal with |- context [if ?b then _ else _] => destruct b end; lia. Qed.
Lemma suffix_tl : forall r c s, suffix r s -> suffix r (c :: s). Proof. exact (fun r c s H => suffix_cons r s c H). Qed.

#[local] Hint Resolve suffix_refl suffix_nil suffix_cons suffix_trans : sfx.

Definition sp_ok (bound : N) (sp : option (N * N)) : Prop :=
  match sp with Some (a, b) => b <= a /\ a <= bound | None => True end.

Definition sres_ok {A} (bound : N) (s : text) (r : sres A) : Prop :=
  match r with
  | SOk _ rest => suffix rest s
  | SErr _ rest sp => suffix rest s /\ sp_ok bound sp
  | SFuel => False
  end.

Lemma sres_ok_weaken : forall A b1 b2 s1 s2 (r : sres A),
  b1 <= b2 -> suffix s1 s2 -> sres_ok b1 s1 r -> sres_ok b2 s2 r.
Proof.
  intros A b1 b2 s1 s2 r Hb Hs H. destruct r as [a rest|e rest sp|]; cbn in *; eauto with sfx.
  destruct H as [H1 H2]. split; [eauto with sfx|]. destruct sp as [[a b]|]; cbn in *; [lia|exact I].
Qed.

Lemma hex_loop_suffix : forall s end_c delim acc v ds r,
  hex_loop s end_c delim acc = Some (v, ds, r) -> exists c s', s = c :: s' /\ suffix r s'.
Proof.
  induction s as [|c s IH]; intros end_c delim acc v ds r H; cbn [hex_loop] in H; [discriminate|].
  exists c, s. split; [reflexivity|].
  destruct (c =? end_c); [inversion H; subst; auto with sfx|].
  destruct (is_hex_break c || (c =? delim)); [inversion H; subst; auto with sfx|].
  destruct (IH _ _ _ _ _ _ H) as [c' [s' [E Hs]]]. subst. auto with sfx.
Qed.

Ltac sok := unfold sres_ok; cbv beta iota; unfold sp_ok; cbv beta iota.

Lemma esc_ws_loop_ok : forall inc s tr, sres_ok (blen s) s (esc_ws_loop inc s tr).
Proof.
  induction s as [|c s IH]; intros tr; cbn [esc_ws_loop].
  - sok. split; [auto with sfx|exact I].
  - destruct ((c =? 32) || (c =? 9)).
    { eapply sres_ok_weaken; [| |apply IH]; [cbn [blen]; lia|auto with sfx]. }
    destruct ((c =? 10) && negb tr).
    { eapply sres_ok_weaken; [| |apply IH]; [cbn [blen]; lia|auto with sfx]. }
    destruct tr; sok; [auto with sfx|]. split; [auto with sfx|]. cbn [blen]. pose proof (utf8_len_pos c). lia.
Qed.

(* after the backslash: error spans may start at the backslash, one byte before s *)
Lemma read_string_escape_ok : forall inc delim s, sres_ok (blen s + 1) s (read_string_escape inc delim s).
Proof.
  intros inc delim s. unfold read_string_escape. destruct s as [|c s']; [sok; split; [auto with sfx|exact I]|].
  destruct (c =? 34); [sok; auto with sfx|]. destruct (c =? 97); [sok; auto with sfx|].
  destruct (c =? 98); [sok; auto with sfx|]. destruct (c =? 92); [sok; auto with sfx|].
  destruct (c =? 124); [sok; auto with sfx|]. destruct (c =? 116); [sok; auto with sfx|].
  destruct (c =? 110); [sok; auto with sfx|]. destruct (c =? 114); [sok; auto with sfx|].
  destruct (c =? 48); [sok; auto with sfx|].
  destruct ((c =? 120) || (c =? 117)).
  - set (p := match s' with
              | 123 :: s'' => if c =? 117 then (125, s'') else (59, s')
              | _ => (59, s')
              end).
    assert (Hp : suffix (snd p) s').
    { unfold p. destruct s' as [|x s'']; [cbn; auto with sfx|].
      destruct x as [|px]; [cbn; auto with sfx|].
      repeat (destruct px as [px|px|]; try (cbn; auto with sfx; fail)).
      all: destruct (c =? 117); cbn; auto with sfx. }
    destruct p as [end_c s2]. cbn [snd] in Hp. cbv beta iota.
    destruct (hex_loop s2 end_c delim []) as [[[v ds] r]|] eqn:E; [|sok; split; [auto with sfx|exact I]].
    destruct (hex_loop_suffix _ _ _ _ _ _ _ E) as [c2 [s2' [E2 Hr]]]. subst s2.
    assert (Hrs0 : suffix r s').
    { eapply suffix_trans; [|exact Hp]. apply suffix_cons. exact Hr. }
    assert (Hrs : suffix r (c :: s')) by (apply suffix_cons; exact Hrs0).
    pose proof (suffix_blen _ _ Hrs) as Hb.
    assert (Hrs2 : blen r + 1 <= blen (c :: s')).
    { pose proof (suffix_blen _ _ Hrs0). cbn [blen]. pose proof (utf8_len_pos c). lia. }
    destruct v.
    + destruct (u32_from_hex ds) as [n|]; [destruct (valid_scalar n)|]; sok; try (split; [assumption|]); try assumption; lia.
    + sok. split; [assumption|]. lia.
  - destruct ((c =? 32) || (c =? 9) || (c =? 10)).
    + eapply sres_ok_weaken; [| |apply esc_ws_loop_ok]; [cbn [blen]; lia|auto with sfx].
    + sok. split; [auto with sfx|]. cbn [blen]. pose proof (utf8_len_pos c). lia.
Qed.

Lemma read_string_ok : forall fuel s acc, (List.length s < fuel)%nat -> sres_ok (blen s) s (read_string fuel s acc).
Proof.
  induction fuel as [|f IH]; intros s acc Hf; [lia|]. cbn [read_string].
  destruct s as [|c s']; [sok; split; [auto with sfx|exact I]|].
  cbn [List.length] in Hf.
  destruct (c =? 34); [sok; auto with sfx|].
  destruct (c =? 92).
  - pose proof (read_string_escape_ok IncompleteString 34 s') as He.
    destruct (read_string_escape IncompleteString 34 s') as [oc r|e r sp|]; unfold sres_ok in He; cbv beta iota in He.
    + assert (Hl : (List.length r < f)%nat) by (pose proof (suffix_length _ _ He); lia).
      destruct oc as [ch|]; (eapply sres_ok_weaken; [| |apply IH; exact Hl]);
        try (apply suffix_cons; exact He); pose proof (suffix_blen _ _ He); cbn [blen]; lia.
    + destruct He as [H1 H2]. sok. split; [auto with sfx|]. unfold sp_ok in H2. destruct sp as [[a b]|]; [|exact I].
      cbn [blen]. pose proof (utf8_len_pos c). lia.
    + contradiction.
  - eapply sres_ok_weaken; [| |apply IH]; [cbn [blen]; lia|auto with sfx|lia].
Qed.

Lemma word_plain_suffix : forall s acc, suffix (snd (word_plain s acc)) s.
Proof.
  fix IH 1. intros s acc. destruct s as [|c s']; cbn [word_plain]; [cbn; auto with sfx|].
  destruct (is_word_break c); [cbn; auto with sfx|].
  destruct (c =? 92).
  - destruct s' as [|d s'']; [cbn; auto with sfx|]. apply suffix_cons, suffix_cons. apply IH.
  - apply suffix_cons. apply IH.
Qed.

Lemma word_esc_ok : forall fuel s acc ident esc, (List.length s < fuel)%nat ->
  sres_ok (blen s) s (word_esc fuel s acc ident esc).
Proof.
  induction fuel as [|f IH]; intros s acc ident esc Hf; [lia|]. cbn [word_esc].
  destruct s as [|c s']; [sok; auto with sfx|]. cbn [List.length] in Hf.
  destruct (c =? 124); [sok; auto with sfx|].
  destruct (c =? 92).
  - pose proof (read_string_escape_ok IncompleteIdentifier 124 s') as He.
    destruct (read_string_escape IncompleteIdentifier 124 s') as [oc r|e r sp|]; unfold sres_ok in He; cbv beta iota in He.
    + assert (Hl : (List.length r < f)%nat) by (pose proof (suffix_length _ _ He); lia).
      eapply sres_ok_weaken; [| |apply IH; exact Hl]; [pose proof (suffix_blen _ _ He); cbn [blen]; lia|auto with sfx].
    + destruct He as [H1 H2]. sok. split; [auto with sfx|]. unfold sp_ok in H2. destruct sp as [[a b]|]; [|exact I].
      cbn [blen]. pose proof (utf8_len_pos c). lia.
    + contradiction.
  - eapply sres_ok_weaken; [| |apply IH]; [cbn [blen]; lia|auto with sfx|lia].
Qed.

Lemma read_word_plain_ok : forall s acc, sres_ok 0 s (read_word_plain s acc).
Proof.
  intros s acc. unfold read_word_plain. pose proof (word_plain_suffix s acc) as H.
  destruct (word_plain s acc) as [acc' r]. cbn [snd] in H.
  destruct (classify_word (rev acc') false [] false); sok; [assumption|split; [assumption|exact I]].
Qed.

Lemma read_word_ok : forall fuel s acc, (List.length s < fuel)%nat -> sres_ok (blen s) s (read_word fuel s acc).
Proof.
  intros fuel s acc Hf. unfold read_word. destruct s as [|c s'].
  - eapply sres_ok_weaken; [| |apply read_word_plain_ok]; [lia|auto with sfx].
  - destruct (c =? 124).
    + cbn [List.length] in Hf. assert (Hl : (List.length s' < fuel)%nat) by lia.
      pose proof (word_esc_ok fuel s' (124 :: acc) [] false Hl) as H.
      destruct (word_esc fuel s' (124 :: acc) [] false) as [[[acc' ident] escaped] r|e r sp|]; unfold sres_ok in H; cbv beta iota in H.
      * destruct (classify_word (rev acc') true ident escaped); sok; [auto with sfx|split; [auto with sfx|exact I]].
      * destruct H as [H1 H2]. sok. split; [auto with sfx|]. unfold sp_ok in H2. destruct sp as [[a b]|]; [|exact I].
        cbn [blen]. lia.
      * contradiction.
    + eapply sres_ok_weaken; [| |apply read_word_plain_ok]; [lia|auto with sfx].
Qed.

Lemma finish_number_ok : forall fuel s acc, (List.length s < fuel)%nat -> sres_ok (blen s) s (finish_number fuel s acc).
Proof.
  intros fuel s acc Hf. unfold finish_number. destruct (parse_number (rev acc)).
  - apply read_word_ok. exact Hf.
  - sok. auto with sfx.
  - sok. split; [auto with sfx|exact I].
Qed.

Lemma read_number_ok : forall fuel s acc, (List.length s < fuel)%nat -> sres_ok (blen s) s (read_number fuel s acc).
Proof.
  intros fuel. induction s as [|c s IH]; intros acc Hf; cbn [read_number].
  - apply finish_number_ok. exact Hf.
  - destruct (is_numberish c).
    + cbn [List.length] in Hf. eapply sres_ok_weaken; [| |apply IH]; [cbn [blen]; lia|auto with sfx|lia].
    + destruct (mem c [c_lparen; c_rparen; c_lbrack; c_rbrack] || is_ws c); [apply finish_number_ok|apply read_word_ok]; exact Hf.
Qed.

Lemma hash_scan_suffix : forall s acc, suffix (snd (hash_scan s acc)) s.
Proof.
  fix IH 1. intros s acc. destruct s as [|c s']; cbn [hash_scan]; [cbn; auto with sfx|].
  destruct (c =? 92).
  { destruct s' as [|d s'']; [cbn; auto with sfx|]. apply suffix_cons, suffix_cons. apply IH. }
  destruct ((c =? 39) || (c =? 96)); [cbn; auto with sfx|].
  destruct (c =? 44).
  { destruct s' as [|x s'']; [cbn; auto with sfx|].
    destruct x as [|px]; [cbn; auto with sfx|].
    repeat (destruct px as [px|px|]; try (cbn; auto with sfx; fail)). }
  destruct (mem c [c_lparen; c_lbrack; c_rparen; c_rbrack] || is_ws c); [cbn; auto with sfx|].
  apply suffix_cons. apply IH.
Qed.

(* s = the text after the `#`: error spans may start at the `#` *)
Lemma read_hash_value_ok : forall fuel s, (List.length s < fuel)%nat -> sres_ok (blen s + 1) s (read_hash_value fuel s).
Proof.
  intros fuel s Hf. unfold read_hash_value. pose proof (hash_scan_suffix s [c_hash]) as Hs.
  destruct (hash_scan s [c_hash]) as [acc r]. cbn [snd] in Hs.
  assert (Hrw : sres_ok (blen s + 1) s (read_word fuel r acc)).
  { eapply sres_ok_weaken; [| |apply read_word_ok]; [pose proof (suffix_blen _ _ Hs); lia|exact Hs|pose proof (suffix_length _ _ Hs); lia]. }
  repeat match goal with |- context [if ?b then _ else _] => destruct b; [sok; assumption|] end.
  destruct (starts_with [c_hash; c_bslash] (rev acc)).
  - destruct (skipn 2 (rev acc)); [sok; split; [assumption|exact I]|].
    destruct (parse_char (n :: l)); sok; [split; [assumption|]|assumption].
    pose proof (suffix_blen _ _ Hs). lia.
  - destruct r as [|x r']; [exact Hrw|].
    destruct x as [|px]; [exact Hrw|].
    repeat (destruct px as [px|px|]; try exact Hrw).
    assert (Hr' : suffix r' s) by (eapply suffix_trans; [|exact Hs]; auto with sfx).
    repeat match goal with |- context [if ?b then _ else _] => destruct b; [sok; assumption|] end. exact Hrw.
Qed.

Lemma rest_of_line_suffix : forall s, suffix (rest_of_line s) s.
Proof. induction s as [|c s IH]; cbn [rest_of_line]; [auto with sfx|]. destruct (c =? 10); auto with sfx. Qed.

Lemma nest_comment_suffix_n : forall n s, (List.length s <= n)%nat -> forall d r, nest_comment s d = Some r -> suffix r s.
Proof.
  induction n as [|n IH]; intros s Hn d r H.
  - destruct s; [discriminate H|cbn in Hn; lia].
  - destruct s as [|c s']; cbn [nest_comment] in H; [discriminate|]. cbn [List.length] in Hn.
    assert (IH1 : forall d r, nest_comment s' d = Some r -> suffix r (c :: s')).
    { intros d0 r0 H0. apply suffix_cons. apply (IH s' ltac:(lia) d0 r0 H0). }
    assert (IH2 : forall x s'' d r, s' = x :: s'' -> nest_comment s'' d = Some r -> suffix r (c :: s')).
    { intros x s'' d0 r0 E H0. subst s'. apply suffix_cons, suffix_cons. cbn [List.length] in Hn. apply (IH s'' ltac:(lia) d0 r0 H0). }
    destruct (c =? 124).
    { destruct s' as [|x s'']; [apply (IH1 _ _ H)|].
      destruct x as [|px]; [apply (IH1 _ _ H)|].
      repeat (destruct px as [px|px|]; try (apply (IH1 _ _ H))).
      destruct d as [|[|d']]; try (inversion H; subst; auto with sfx).
      apply (IH2 _ _ _ _ eq_refl H). }
    destruct (c =? 35).
    { destruct s' as [|x s'']; [apply (IH1 _ _ H)|].
      destruct x as [|px]; [apply (IH1 _ _ H)|].
      repeat (destruct px as [px|px|]; try (apply (IH1 _ _ H))).
      apply (IH2 _ _ _ _ eq_refl H). }
    apply (IH1 _ _ H).
Qed.
Lemma nest_comment_suffix : forall s d r, nest_comment s d = Some r -> suffix r s.
Proof. intros s d r H. apply (nest_comment_suffix_n (List.length s) s (le_n _) d r H). Qed.

Lemma here_delim_ok : forall s acc, sres_ok 0 s (here_delim s acc).
Proof.
  induction s as [|c s IH]; intros acc; cbn [here_delim]; [sok; auto with sfx|].
  destruct (c =? 10); [sok; auto with sfx|].
  destruct (c =? 13); [eapply sres_ok_weaken; [| |apply IH]; [lia|auto with sfx]|].
  destruct (is_ws c); [sok; split; [auto with sfx|exact I]|].
  eapply sres_ok_weaken; [| |apply IH]; [lia|auto with sfx].
Qed.

Lemma here_body_ok : forall s rd buf, sres_ok 0 s (here_body s rd buf).
Proof.
  induction s as [|c s IH]; intros rd buf; cbn [here_body]; [sok; split; [auto with sfx|exact I]|].
  destruct (starts_with rd (c :: buf)); [sok; auto with sfx|].
  eapply sres_ok_weaken; [| |apply IH]; [lia|auto with sfx].
Qed.

Lemma skip_ws_suffix : forall s, suffix (skip_ws s) s.
Proof. induction s as [|c s IH]; cbn [skip_ws]; [auto with sfx|]. destruct (is_ws c); auto with sfx. Qed.
Lemma skip_ws_head : forall s c s', skip_ws s = c :: s' -> is_ws c = false.
Proof.
  induction s as [|x s IH]; intros c s' H; cbn [skip_ws] in H; [discriminate|].
  destruct (is_ws x) eqn:E; [apply (IH _ _ H)|]. inversion H; subst. exact E.
Qed.

Lemma read_word_progress : forall fuel c s' acc,
  is_word_break c = false -> (List.length (c :: s') < fuel)%nat ->
  sres_ok (blen (c :: s')) s' (read_word fuel (c :: s') acc).
Proof.
  intros fuel c s' acc Hwb Hf. unfold read_word. cbn [List.length] in Hf. destruct (c =? 124).
  - assert (Hl : (List.length s' < fuel)%nat) by lia.
    pose proof (word_esc_ok fuel s' (124 :: acc) [] false Hl) as H.
    destruct (word_esc fuel s' (124 :: acc) [] false) as [[[acc' ident] escaped] r|e r sp|]; unfold sres_ok in H; cbv beta iota in H.
    + destruct (classify_word (rev acc') true ident escaped); sok; [assumption|split; [assumption|exact I]].
    + destruct H as [H1 H2]. sok. split; [assumption|]. unfold sp_ok in H2. destruct sp as [[a b]|]; [|exact I].
      cbn [blen]. lia.
    + contradiction.
  - unfold read_word_plain. cbn [word_plain]. rewrite Hwb.
    assert (Hs : suffix (snd (if c =? 92
                              then match s' with [] => (c :: acc, []) | d :: s'' => word_plain s'' (d :: c :: acc) end
                              else word_plain s' (c :: acc))) s').
    { destruct (c =? 92); [destruct s' as [|d s'']; [cbn; auto with sfx|apply suffix_cons; apply word_plain_suffix]|apply word_plain_suffix]. }
    destruct (if c =? 92 then _ else _) as [acc' r]. cbn [snd] in Hs.
    destruct (classify_word (rev acc') false [] false); sok; [assumption|split; [assumption|exact I]].
Qed.

Definition lstep_ok (s : text) (r : lstep) : Prop :=
  match r with
  | LEof => True
  | LToks _ start rest => exists c s', start = c :: s' /\ suffix start s /\ suffix rest s'
  | LErr _ start rest sp => exists c s', start = c :: s' /\ suffix start s /\ suffix rest start /\ sp_ok (blen start) sp
  | LFuel => False
  end.

Lemma of_sres_ok : forall s c s' s_in bound (r : sres (list tok)),
  suffix (c :: s') s -> suffix s_in s' -> bound <= blen (c :: s') -> sres_ok bound s_in r ->
  lstep_ok s (of_sres (c :: s') r).
Proof.
  intros s c s' s_in bound r Hst Hin Hb H. destruct r as [ts rest|e rest sp|]; unfold sres_ok in H; cbn [of_sres lstep_ok].
  - exists c, s'. split; [reflexivity|]. split; [assumption|]. eapply suffix_trans; eassumption.
  - destruct H as [H1 H2]. exists c, s'. split; [reflexivity|]. split; [assumption|].
    split; [apply suffix_cons; eapply suffix_trans; eassumption|].
    unfold sp_ok in *. destruct sp as [[a b]|]; [lia|exact I].
  - contradiction.
Qed.

Lemma sp_ok_weaken : forall b1 b2 sp, b1 <= b2 -> sp_ok b1 sp -> sp_ok b2 sp.
Proof. intros b1 b2 [[a b]|] H; cbn; [lia|auto]. Qed.

Lemma lex_one_ok : forall fuel s0, (List.length s0 < fuel)%nat -> lstep_ok s0 (lex_one fuel s0).
Proof.
  intros fuel s0 Hf. unfold lex_one. pose proof (skip_ws_suffix s0) as Hsk.
  destruct (skip_ws s0) as [|c s'] eqn:Es; [exact I|].
  pose proof (skip_ws_head _ _ _ Es) as Hws.
  pose proof (suffix_length _ _ Hsk) as Hlen. cbn [List.length] in Hlen.
  assert (Hfs : (List.length s' < fuel)%nat) by lia.
  pose proof (utf8_len_pos c) as Hu.
  assert (Tok : forall ts rest, suffix rest s' -> lstep_ok s0 (LToks ts (c :: s') rest)).
  { intros ts rest H. cbn. exists c, s'. auto. }
  assert (Err : forall e rest sp, suffix rest (c :: s') -> sp_ok (blen (c :: s')) sp -> lstep_ok s0 (LErr e (c :: s') rest sp)).
  { intros e rest sp H1 H2. cbn. exists c, s'. auto. }
  assert (Ofs : forall s_in bound r, suffix s_in s' -> bound <= blen (c :: s') -> sres_ok bound s_in r ->
                lstep_ok s0 (of_sres (c :: s') r)).
  { intros s_in bound r H1 H2 H3. eapply of_sres_ok; eassumption. }
  destruct (c =? 59) eqn:E59. { apply Tok. apply rest_of_line_suffix. }
  destruct (c =? 34) eqn:E34.
  { pose proof (read_string_ok fuel s' [] Hfs) as H. destruct (read_string fuel s' []) as [str r|e r sp|]; unfold sres_ok in H.
    - apply Tok; assumption.
    - destruct H as [H1 H2]. apply Err; [auto with sfx|]. eapply sp_ok_weaken; [|exact H2]. cbn [blen]. lia.
    - contradiction. }
  destruct (c =? 40) eqn:E40; [apply Tok; auto with sfx|].
  destruct (c =? 91) eqn:E91; [apply Tok; auto with sfx|].
  destruct (c =? 123) eqn:E123; [apply Tok; auto with sfx|].
  destruct (c =? 41) eqn:E41; [apply Tok; auto with sfx|].
  destruct (c =? 93) eqn:E93; [apply Tok; auto with sfx|].
  destruct (c =? 125) eqn:E125; [apply Tok; auto with sfx|].
  destruct (c =? 39) eqn:E39; [apply Tok; auto with sfx|].
  destruct (c =? 96) eqn:E96; [apply Tok; auto with sfx|].
  destruct (c =? 44) eqn:E44.
  { destruct s' as [|x s'']; [apply Tok; auto with sfx|].
    destruct x as [|px]; [apply Tok; auto with sfx|].
    repeat (destruct px as [px|px|]; try (apply Tok; auto with sfx; fail)). }
  destruct ((c =? 43) || (c =? 45) || (c =? 46)) eqn:Epm.
  { apply (Ofs s' (blen s')); [auto with sfx|cbn [blen]; lia|apply read_number_ok; exact Hfs]. }
  destruct (c =? 35) eqn:E35.
  { destruct s' as [|n s''].
    - apply (Ofs [] (blen [] + 1)); [auto with sfx|cbn [blen]; lia|apply read_hash_value_ok; exact Hfs].
    - cbn [List.length] in Hfs. assert (Hfs2 : (List.length s'' < fuel)%nat) by lia.
      destruct (mem n (cps "xXdDoObB")).
      { apply (Ofs s'' (blen s'')); [auto with sfx| |apply read_number_ok; exact Hfs2].
        cbn [blen]. lia. }
      destruct (n =? 124).
      { destruct (nest_comment s'' 1) as [r|] eqn:En.
        - apply Tok. apply suffix_cons. apply (nest_comment_suffix _ _ _ En).
        - apply Err; [auto with sfx|exact I]. }
      destruct (n =? 59); [apply Tok; auto with sfx|].
      destruct (n =? 35); [apply Err; [auto with sfx|exact I]|].
      destruct (n =? 60).
      { assert (Hrw : lstep_ok s0 (of_sres (c :: n :: s'') (read_word fuel s'' [n; c]))).
        { apply (Ofs s'' (blen s'')); [auto with sfx|cbn [blen]; lia|apply read_word_ok; exact Hfs2]. }
        destruct s'' as [|y s3]; [exact Hrw|].
        destruct y as [|py]; [exact Hrw|].
        repeat (destruct py as [py|py|]; try exact Hrw).
        pose proof (here_delim_ok s3 []) as Hd.
        destruct (here_delim s3 []) as [delim r|e r sp|]; unfold sres_ok in Hd.
        - apply (Ofs r 0); [auto with sfx|lia|apply here_body_ok].
        - destruct Hd as [H1 H2]. apply Err; [auto with sfx|]. eapply sp_ok_weaken; [|exact H2]. lia.
        - contradiction. }
      apply (Ofs (n :: s'') (blen (n :: s'') + 1)); [auto with sfx|cbn [blen]; lia|].
      apply read_hash_value_ok. cbn [List.length]. lia. }
  destruct (is_digit c) eqn:Ed.
  { cbn [read_number]. unfold is_numberish. rewrite Ed. cbn [orb].
    apply (Ofs s' (blen s')); [auto with sfx|cbn [blen]; lia|apply read_number_ok; exact Hfs]. }
  assert (Hwb : is_word_break c = false).
  { unfold is_word_break, mem, c_lparen, c_lbrack, c_rparen, c_rbrack, c_lbrace, c_rbrace, c_dquote, c_semi.
    cbn [existsb]. rewrite E40, E91, E41, E93, E123, E125, E39, E34, E96, E59, E44, Hws. reflexivity. }
  apply (Ofs s' (blen (c :: s'))); [auto with sfx|lia|]. apply read_word_progress; [exact Hwb|cbn [List.length]; lia].
Qed.

Definition span_ok (bound : N) (x : stok) : Prop := let '(_, a, b) := x in b <= a /\ a <= bound.

Lemma span_ok_weaken : forall b1 b2 l, b1 <= b2 -> Forall (span_ok b1) l -> Forall (span_ok b2) l.
Proof.
  intros b1 b2 l Hb H. induction H as [|[[t a] b] l Hx Hl IH]; constructor; [cbn in *; lia|assumption].
Qed.

Lemma lex_all_ok : forall fuel s, (List.length s < fuel)%nat ->
  exists ts, lex_all fuel s = Some ts /\ Forall (span_ok (blen s)) ts.
Proof.
  induction fuel as [|f IH]; intros s Hf; [lia|]. cbn [lex_all].
  pose proof (lex_one_ok (S f) s Hf) as H1.
  destruct (lex_one (S f) s) as [|tks start rest|e start rest sp|]; cbn [lstep_ok] in H1.
  - exists []. split; [reflexivity|constructor].
  - destruct H1 as [c [s' [E [Hst Hre]]]]. subst start.
    pose proof (suffix_length _ _ Hst) as L1. pose proof (suffix_length _ _ Hre) as L2. cbn [List.length] in L1.
    destruct (IH rest ltac:(lia)) as [more [Em Hm]]. rewrite Em.
    eexists. split; [reflexivity|]. apply Forall_app. split.
    + apply Forall_forall. intros x Hx. apply in_map_iff in Hx. destruct Hx as [t [Ex _]]. subst x. cbn.
      pose proof (suffix_blen _ _ Hst). pose proof (suffix_blen _ _ Hre). cbn [blen] in *. lia.
    + eapply span_ok_weaken; [|exact Hm]. pose proof (suffix_blen _ _ Hst). pose proof (suffix_blen _ _ Hre). cbn [blen] in *. lia.
  - destruct H1 as [c [s' [E [Hst [Hre Hsp]]]]]. pose proof (suffix_blen _ _ Hst). pose proof (suffix_blen _ _ Hre).
    destruct sp as [[a b]|]; eexists; (split; [reflexivity|]); constructor; try constructor; cbn in *; lia.
  - contradiction.
Qed.

Lemma until_nl_suffix : forall s, suffix (until_nl s) s.
Proof. induction s as [|c s IH]; cbn [until_nl]; [auto with sfx|]. destruct (c =? 10); auto with sfx. Qed.
Lemma strip_shebang_suffix : forall s, suffix (strip_shebang s) s.
Proof.
  intros s. unfold strip_shebang. destruct s as [|a [|b r]]; auto with sfx.
  destruct ((a =? 35) && (b =? 33)); [apply until_nl_suffix|auto with sfx].
Qed.

Theorem lex_total_ : forall s, exists ts, lex s = Some ts /\ Forall (span_ok (blen s)) ts.
Proof.
  intros s. unfold lex. pose proof (strip_shebang_suffix s) as Hs.
  destruct (lex_all_ok (S (List.length s)) (strip_shebang s)) as [ts [E H]].
  { pose proof (suffix_length _ _ Hs). lia. }
  exists ts. split; [exact E|]. eapply span_ok_weaken; [|exact H]. apply suffix_blen. exact Hs.
Qed.
