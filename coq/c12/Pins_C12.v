(* Compiled on every run of the C12 check: pins each statement and prints its assumptions. *)
From Coq Require Import NArith ZArith List Bool Ascii String.
From SV Require Import c12.Model_C12 c12.Proofs_C12 c12.Proofs_C12_Parse c12.Proofs_C12_ReadWrite c12.Proofs_C12_Total c12.Properties_C12.
Import ListNotations.
Open Scope N_scope.

Check (string_escape_roundtrip : forall pr s,
  Forall (fun c => valid_scalar c = true) s -> read_first (write_string pr s) = ROk (DStr s) 0).
Check (string_escape_roundtrip_lex : forall pr s t fuel,
  Forall (fun c => valid_scalar c = true) s -> (List.length s < fuel)%nat ->
  lex_one fuel (write_string pr s ++ t) = LToks [TStr s] (write_string pr s ++ t) t).
Check (char_roundtrip : forall pr c, valid_scalar c = true -> read_first (write_char pr c) = ROk (DChar c) 0).
Check (char_roundtrip_lex : forall pr c t fuel, valid_scalar c = true -> delim_start t ->
  lex_one fuel (write_char pr c ++ t) = LToks [TChar c] (write_char pr c ++ t) t).
Check (integer_roundtrip : forall z, read_first (write_int z) = ROk (DInt z) 0).
Check (integer_roundtrip_lex : forall z t fuel, delim_start t ->
  lex_one fuel (write_int z ++ t) = LToks [TNum (NInt z)] (write_int z ++ t) t).
Check (symbol_roundtrip : forall s, sym_plain s = true -> read_first s = ROk (DSym s) 0).
Check (symbol_refuted : exists s, read_first (write pr_ascii (DSym s)) <> ROk (DSym s) 0).
Check (number_roundtrip_rational : forall n d,
  (1 < d)%Z -> Z.gcd n d = 1%Z -> read_first (write_rat n d) = ROk (DRat n d) 0).
Check (rational_roundtrip_lex : forall n p t fuel, delim_start t ->
  lex_one fuel ((write_int n ++ 47 :: write_nat (N.pos p)) ++ t)
  = LToks [TNum (NRat n (Z.pos p))] ((write_int n ++ 47 :: write_nat (N.pos p)) ++ t) t).
Check (read_write : forall pr d, rep d -> (height d <= 128)%nat -> read_first (write pr d) = ROk d 0).
Check (lex_written_datum : forall pr d, rep d ->
  forall t fuel, delim_start t -> (List.length (write_u pr d ++ t) < fuel)%nat ->
  exists (ts : list stok) (x : stok),
    map tokof (ts ++ [x]) = tk_of d /\ snd x = blen t /\
    (List.length (ts ++ [x]) <= List.length (write_u pr d))%nat /\
    lex_all fuel (write_u pr d ++ t) = option_map (app (ts ++ [x])) (lex_all (fuel - List.length (ts ++ [x])) t)).
Check (parse_tokens_of_datum : forall d tot (ts ts0 : list stok) (x : stok),
  rep d -> is_compound d -> map tokof ts = tk_of d -> ts = ts0 ++ [x] -> read_tokens tot ts = ROk d (snd x)).
Check (lex_total : forall s, exists ts, lex s = Some ts /\ Forall (span_ok (blen s)) ts).
Check (lex_one_total : forall fuel s0, (List.length s0 < fuel)%nat -> lstep_ok s0 (lex_one fuel s0)).
Check (read_write_atom : forall pr d, atom_representable d -> read_first (write pr d) = ROk d 0).
Check (write_within_limit : forall pr d, (height d <= 128)%nat -> write pr d = write_u pr d).
Check (depth_refuted : read_first (write pr_ascii (nest 128 (DInt 1))) <> ROk (nest 128 (DInt 1)) 0).
Check (depth_limit_ok : read_first (write pr_ascii (nest 127 (DInt 1))) = ROk (nest 127 (DInt 1)) 0).
Check (unquote_refuted : read_first (write pr_ascii unquote_witness) <> ROk unquote_witness 0).
Check (reader_panic_witness : read_first (cps "'(quote x") = RPanic).
Check (C12_nonvacuous : read_first (write pr_ascii sample_datum) = ROk sample_datum 0).

(* the definitions the statements rest on, pinned too *)
Check (eq_refl : valid_scalar = fun n => (n <? 55296) || ((57343 <? n) && (n <? 1114112))).
Check (eq_refl : delim_start = fun t => match t with [] => True | d :: _ => d = 32 \/ d = 41 end).
Check (eq_refl : sym_plain = fun s => match s with
  | [] => false
  | c :: _ => first_ok c && forallb plain_ch s && alias_ok s end).
Check (eq_refl : plain_ch = fun c => negb (is_word_break c) && negb (c =? 92) && negb (c =? 124)).
Check (eq_refl : first_ok = fun c => negb (is_digit c) && negb (mem c [35; 43; 45; 46])).
Check (eq_refl : atom_representable = fun d => match d with
  | DInt _ | DBool _ => True
  | DChar c => valid_scalar c = true
  | DStr s => Forall (fun c => valid_scalar c = true) s
  | DSym s => sym_plain s = true
  | _ => False end).
Check (eq_refl : rep = fix rep (d : datum) : Prop :=
  match d with
  | DInt _ | DBool _ => True
  | DRat n dn => (1 < dn)%Z /\ Z.gcd n dn = 1%Z
  | DChar c => valid_scalar c = true
  | DStr s => Forall (fun c => valid_scalar c = true) s
  | DSym s => sym_plain s = true
  | DList l => hd_ok l /\ (fix all (l : list datum) : Prop := match l with [] => True | x :: r => rep x /\ all r end) l
  | DPair a b => hd_ok [a] /\ rep a /\ rep b /\ match b with DList _ => False | _ => True end
  | DVec l => hd_ok l /\ (fix all (l : list datum) : Prop := match l with [] => True | x :: r => rep x /\ all r end) l
  | DBytes l => Forall (fun b => b < 256) l
  | DOpaque | DBad => False
  end).
Check (eq_refl : hd_ok = fun l => match l with DSym s :: _ => not_unq s | _ => True end).
Check (eq_refl : not_unq = fun s => text_eqb s s_unquote = false /\ text_eqb s s_unquote_splicing = false).
Check (eq_refl : write_rat = fun n d => write_int n ++ 47 :: write_int d).
Check (eq_refl : span_ok = fun bound x => let '(_, a, b) := x in b <= a /\ a <= bound).
Check (eq_refl : lex = fun s => lex_all (S (List.length s)) (strip_shebang s)).
Check (eq_refl : suffix = fun r s => exists p, s = p ++ r).
Check (eq_refl : sp_ok = fun bound sp => match sp with Some (a, b) => b <= a /\ a <= bound | None => True end).
Check (eq_refl : lstep_ok = fun s r => match r with
  | LEof => True
  | LToks _ start rest => exists c s', start = c :: s' /\ suffix start s /\ suffix rest s'
  | LErr _ start rest sp => exists c s', start = c :: s' /\ suffix start s /\ suffix rest start /\ sp_ok (blen start) sp
  | LFuel => False end).
Check (eq_refl : read_first = fun s => match lex s with Some ts => read_tokens (blen s) ts | None => RFuel end).

Print Assumptions string_escape_roundtrip.
Print Assumptions string_escape_roundtrip_lex.
Print Assumptions char_roundtrip.
Print Assumptions char_roundtrip_lex.
Print Assumptions integer_roundtrip.
Print Assumptions integer_roundtrip_lex.
Print Assumptions symbol_roundtrip.
Print Assumptions symbol_refuted.
Print Assumptions number_roundtrip_rational.
Print Assumptions rational_roundtrip_lex.
Print Assumptions read_write.
Print Assumptions lex_written_datum.
Print Assumptions parse_tokens_of_datum.
Print Assumptions lex_total.
Print Assumptions lex_one_total.
Print Assumptions read_write_atom.
Print Assumptions write_within_limit.
Print Assumptions depth_refuted.
Print Assumptions depth_limit_ok.
Print Assumptions unquote_refuted.
Print Assumptions reader_panic_witness.
Print Assumptions C12_nonvacuous.
