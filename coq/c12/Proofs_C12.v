(* C12 — lemmas about the atoms: hexadecimal / decimal digit strings, string escapes, characters,
   integers, plain symbols.  See Properties_C12.v for the property theorems. *)
From Coq Require Import NArith ZArith List Bool Ascii String Lia.
From SV Require Import c12.Model_C12.
Import ListNotations.
Open Scope N_scope.

Definition pr_ascii (c : N) : bool := (32 <=? c) && (c <? 127).

Definition sample_datum : datum :=
  DList [DInt (-12); DRat 1 2; DStr (cps "a""b" ++ [10; 955; 7]); DChar 97; DChar 32; DChar 7;
         DSym (cps "ab"); DPair (DInt 1) (DInt 2); DVec [DBool true]; DBytes [1; 255]].

Lemma sample_roundtrip : read_first (write pr_ascii sample_datum) = ROk sample_datum 0.
Proof. vm_compute. reflexivity. Qed.

(* ------------------------------------------------------------------ small arithmetic *)
Lemma div_lt_pow2 : forall n k f, 1 < k -> n < 2 ^ N.of_nat (S f) -> n / k < 2 ^ N.of_nat f.
Proof.
  intros n k f Hk Hn.
  assert (H2 : n / k <= n / 2).
  { apply N.div_le_compat_l. lia. }
  assert (H3 : n / 2 < 2 ^ N.of_nat f).
  { apply N.div_lt_upper_bound; [lia|].
    replace (N.of_nat (S f)) with (N.succ (N.of_nat f)) in Hn by lia.
    rewrite N.pow_succ_r in Hn by lia. exact Hn. }
  lia.
Qed.

Lemma lt_pow2_log2 : forall n, n < 2 ^ N.of_nat (N.to_nat (N.log2 n) + 1).
Proof.
  intros n. destruct n as [|p].
  - simpl. lia.
  - rewrite Nnat.Nat2N.inj_add, Nnat.N2Nat.id. change (N.of_nat 1) with 1. rewrite N.add_1_r.
    apply N.log2_spec. lia.
Qed.

(* ------------------------------------------------------------------ hexadecimal digits *)
Definition is_hexd (c : N) : bool := is_digit c || ((97 <=? c) && (c <=? 102)).

Lemma hex_digit_spec : forall v, v < 16 -> is_hexd (hex_digit v) = true /\ hex_val (hex_digit v) = Some v.
Proof.
  intros v Hv. unfold hex_digit, is_hexd, hex_val, is_digit.
  destruct (v <? 10) eqn:E.
  - apply N.ltb_lt in E.
    assert (H1 : (48 <=? 48 + v) = true) by (apply N.leb_le; lia).
    assert (H2 : (48 + v <=? 57) = true) by (apply N.leb_le; lia).
    rewrite H1, H2. cbn [andb orb]. split; [reflexivity|].
    assert (H3 : 48 + v - 48 = v) by lia. rewrite H3. reflexivity.
  - apply N.ltb_ge in E.
    assert (H1 : (87 + v <=? 57) = false) by (apply N.leb_gt; lia).
    assert (H2 : (97 <=? 87 + v) = true) by (apply N.leb_le; lia).
    assert (H3 : (87 + v <=? 102) = true) by (apply N.leb_le; lia).
    rewrite H1, H2, H3. rewrite andb_false_r. cbn [andb orb]. split; [reflexivity|].
    assert (H4 : 87 + v - 87 = v) by lia. rewrite H4. reflexivity.
Qed.

Lemma hex_fuel_digits : forall f n acc,
  Forall (fun c => is_hexd c = true) acc -> Forall (fun c => is_hexd c = true) (hex_fuel f n acc).
Proof.
  induction f as [|f IH]; intros n acc Hacc; simpl; [exact Hacc|].
  assert (Hd : is_hexd (hex_digit (n mod 16)) = true).
  { apply hex_digit_spec. apply N.mod_lt. lia. }
  destruct (n <? 16); [constructor; assumption|].
  apply IH. constructor; assumption.
Qed.

Lemma write_hex_digits : forall n, Forall (fun c => is_hexd c = true) (write_hex n).
Proof. intros n. apply hex_fuel_digits. constructor. Qed.

Lemma hex_fuel_nonempty : forall f n acc, hex_fuel (S f) n acc <> [].
Proof.
  induction f as [|f IH]; intros n acc.
  - simpl. destruct (n <? 16); discriminate.
  - change (hex_fuel (S (S f)) n acc) with
      (let acc' := hex_digit (n mod 16) :: acc in if n <? 16 then acc' else hex_fuel (S f) (n / 16) acc').
    cbv zeta. destruct (n <? 16); [discriminate|apply IH].
Qed.

Lemma write_hex_nonempty : forall n, write_hex n <> [].
Proof. intros n. unfold write_hex. apply hex_fuel_nonempty. Qed.

(* reading the digits back: the running value never exceeds n, so the u32 overflow check passes *)
Lemma hex_acc_fuel : forall f n acc,
  n < 2 ^ N.of_nat (S f) -> n < 4294967296 ->
  hex_acc (hex_fuel (S f) n acc) 0 = hex_acc acc n.
Proof.
  induction f as [|f IH]; intros n acc Hn Hb;
    change (hex_fuel (S ?g) n acc) with
      (let acc' := hex_digit (n mod 16) :: acc in if n <? 16 then acc' else hex_fuel g (n / 16) acc');
    cbv zeta;
    assert (Hm : n mod 16 < 16) by (apply N.mod_lt; lia);
    destruct (hex_digit_spec _ Hm) as [_ Hv];
    assert (Hlt : (n <? 4294967296) = true) by (apply N.ltb_lt; lia).
  - assert (E : (n <? 16) = true) by (apply N.ltb_lt; simpl in Hn; lia).
    rewrite E. apply N.ltb_lt in E. cbn [hex_acc]. rewrite Hv.
    rewrite N.mod_small by lia. change (0 * 16 + n) with n. rewrite Hlt. reflexivity.
  - destruct (n <? 16) eqn:E.
    + apply N.ltb_lt in E. cbn [hex_acc]. rewrite Hv.
      rewrite N.mod_small by lia. change (0 * 16 + n) with n. rewrite Hlt. reflexivity.
    + rewrite IH.
      * cbn [hex_acc]. rewrite Hv.
        assert (Hdm : n / 16 * 16 + n mod 16 = n).
        { rewrite N.mul_comm. symmetry. apply N.div_mod. lia. }
        rewrite Hdm, Hlt. reflexivity.
      * apply div_lt_pow2; [lia|exact Hn].
      * assert (n / 16 <= n) by (apply N.div_le_upper_bound; lia). lia.
Qed.

Lemma hex_acc_write_hex : forall n, n < 4294967296 -> hex_acc (write_hex n) 0 = Some n.
Proof.
  intros n Hn. unfold write_hex.
  rewrite hex_acc_fuel; [reflexivity| |exact Hn].
  pose proof (lt_pow2_log2 n) as H.
  replace (N.to_nat (N.log2 n) + 1)%nat with (S (N.to_nat (N.log2 n))) in H by lia.
  exact H.
Qed.

(* ------------------------------------------------------------------ strings *)
Lemma hexd_range : forall c, is_hexd c = true -> (48 <= c /\ c <= 57) \/ (97 <= c /\ c <= 102).
Proof.
  intros c H. unfold is_hexd, is_digit in H.
  apply orb_true_iff in H. destruct H as [H|H]; apply andb_true_iff in H; destruct H as [H1 H2];
    apply N.leb_le in H1; apply N.leb_le in H2; [left|right]; split; assumption.
Qed.

Ltac neq_by_range H :=
  apply N.eqb_neq; intro; subst; destruct H as [[? ?]|[? ?]]; lia.

Lemma hexd_loop_step : forall c end_c delim,
  is_hexd c = true -> (end_c = 125 \/ end_c = 59) -> (delim = 34 \/ delim = 124) ->
  (c =? end_c) = false /\ (is_hex_break c || (c =? delim)) = false.
Proof.
  intros c end_c delim Hc He Hd. apply hexd_range in Hc.
  split.
  - destruct He; subst; apply N.eqb_neq; intro; subst; destruct Hc as [[? ?]|[? ?]]; lia.
  - unfold is_hex_break, mem, c_semi, c_bslash, c_nl, c_lparen, c_rparen, c_lbrack, c_rbrack, c_lbrace, c_rbrace.
    cbn [existsb].
    repeat match goal with
           | |- context [c =? ?k] =>
             let E := fresh "E" in
             assert (E : (c =? k) = false) by
               (apply N.eqb_neq; intro; subst; destruct Hd; subst; destruct Hc as [[? ?]|[? ?]]; lia);
             rewrite E; clear E
           end.
    reflexivity.
Qed.

Lemma hex_loop_digits : forall l end_c delim acc t,
  Forall (fun c => is_hexd c = true) l -> (end_c = 125 \/ end_c = 59) -> (delim = 34 \/ delim = 124) ->
  hex_loop (l ++ end_c :: t) end_c delim acc = Some (true, rev acc ++ l, t).
Proof.
  induction l as [|c l IH]; intros end_c delim acc t Hl He Hd.
  - cbn [app hex_loop]. rewrite N.eqb_refl, app_nil_r. reflexivity.
  - inversion Hl as [|? ? Hc Hl']; subst.
    destruct (hexd_loop_step c end_c delim Hc He Hd) as [E1 E2].
    cbn [app hex_loop]. rewrite E1, E2. rewrite IH by assumption.
    cbn [rev]. rewrite <- app_assoc. reflexivity.
Qed.

Lemma u32_from_hex_hexd : forall d l, is_hexd d = true -> u32_from_hex (d :: l) = hex_acc (d :: l) 0.
Proof.
  intros d l Hd. unfold u32_from_hex. apply hexd_range in Hd.
  assert (E : (d =? 43) = false) by (apply N.eqb_neq; intro; subst; destruct Hd as [[? ?]|[? ?]]; lia).
  rewrite E. reflexivity.
Qed.

Lemma u32_write_hex : forall n, n < 4294967296 -> u32_from_hex (write_hex n) = Some n.
Proof.
  intros n Hn. pose proof (write_hex_digits n) as Hd. pose proof (write_hex_nonempty n) as Hne.
  destruct (write_hex n) as [|d l] eqn:E; [congruence|].
  inversion Hd; subst. rewrite u32_from_hex_hexd by assumption. rewrite <- E. apply hex_acc_write_hex. exact Hn.
Qed.

Lemma valid_scalar_u32 : forall c, valid_scalar c = true -> c < 4294967296.
Proof.
  intros c H. unfold valid_scalar in H. apply orb_true_iff in H. destruct H as [H|H].
  - apply N.ltb_lt in H. lia.
  - apply andb_true_iff in H. destruct H as [_ H]. apply N.ltb_lt in H. lia.
Qed.

(* one source character: whatever the writer emits for it is read back as that character, one unit of fuel *)
Lemma read_string_step : forall pr c t acc f,
  valid_scalar c = true ->
  read_string (S f) (esc_str_char pr c ++ t) acc = read_string f t (c :: acc).
Proof.
  intros pr c t acc f Hv. unfold esc_str_char.
  destruct (c =? 0) eqn:E0; [apply N.eqb_eq in E0; subst; reflexivity|].
  destruct (c =? 9) eqn:E9; [apply N.eqb_eq in E9; subst; reflexivity|].
  destruct (c =? 13) eqn:E13; [apply N.eqb_eq in E13; subst; reflexivity|].
  destruct (c =? 10) eqn:E10; [apply N.eqb_eq in E10; subst; reflexivity|].
  destruct (c =? 92) eqn:E92; [apply N.eqb_eq in E92; subst; reflexivity|].
  destruct (c =? 34) eqn:E34; [apply N.eqb_eq in E34; subst; reflexivity|].
  destruct (pr c).
  - cbn [app read_string]. rewrite E34, E92. reflexivity.
  - replace (([92; 117; 123] ++ write_hex c ++ [125]) ++ t)
      with (92 :: 117 :: 123 :: (write_hex c ++ 125 :: t)).
    2:{ cbn [app]. rewrite <- app_assoc. reflexivity. }
    cbn [read_string]. change (92 =? 34) with false. change (92 =? 92) with true. cbv iota.
    unfold read_string_escape.
    change (117 =? 34) with false. change (117 =? 97) with false. change (117 =? 98) with false.
    change (117 =? 92) with false. change (117 =? 124) with false. change (117 =? 116) with false.
    change (117 =? 110) with false. change (117 =? 114) with false. change (117 =? 48) with false.
    change ((117 =? 120) || (117 =? 117)) with true. cbv iota.
    change (117 =? 117) with true. cbv iota beta.
    rewrite (hex_loop_digits (write_hex c) 125 34 [] t (write_hex_digits c)) by (left; reflexivity) || (now left).
    cbn [rev app].
    rewrite u32_write_hex by (apply valid_scalar_u32; exact Hv).
    rewrite Hv. reflexivity.
Qed.

Lemma read_string_body : forall pr s t acc f,
  Forall (fun c => valid_scalar c = true) s -> (List.length s < f)%nat ->
  read_string f (flat_map (esc_str_char pr) s ++ 34 :: t) acc = SOk (rev acc ++ s) t.
Proof.
  induction s as [|c s IH]; intros t acc f Hs Hf.
  - destruct f as [|f]; [cbn in Hf; lia|]. cbn [flat_map app read_string].
    change (34 =? 34) with true. cbv iota. rewrite app_nil_r. reflexivity.
  - destruct f as [|f]; [cbn in Hf; lia|]. inversion Hs as [|? ? Hc Hs']; subst.
    cbn [flat_map]. rewrite <- app_assoc. rewrite read_string_step by exact Hc.
    rewrite IH by (try assumption; cbn [List.length] in Hf; lia).
    cbn [rev]. rewrite <- app_assoc. reflexivity.
Qed.

(* ------------------------------------------------------------------ from one token to `read` *)
Ltac norm_cps :=
  repeat match goal with
         | |- context [cps ?s] => let v := eval vm_compute in (cps s) in change (cps s) with v
         end.

Definition delim_start (t : text) : Prop :=
  match t with [] => True | d :: _ => d = 32 \/ d = 41 end.

Definition atom_tok (t : tok) : bool :=
  match t with
  | TChar _ | TBool _ | TIdent _ | TKeyword _ | TNum _ | TStr _ | TKw _ => true
  | _ => false
  end.

Lemma read_single_token : forall w t,
  atom_tok t = true -> has_bad (tok_to_datum t) = false ->
  strip_shebang w = w ->
  lex_one (S (List.length w)) w = LToks [t] w [] ->
  read_first w = ROk (tok_to_datum t) 0.
Proof.
  intros w t Ha Hb Hs Hl. unfold read_first, lex. rewrite Hs.
  destruct w as [|c0 w'].
  - cbn in Hl. discriminate.
  - cbn [lex_all]. rewrite Hl. cbn [List.length lex_all lex_one skip_ws map app].
    unfold read_tokens, parse_fuel. cbn [List.length Nat.mul Nat.add].
    destruct t; try discriminate Ha; cbn; cbn in Hb; rewrite ?Hb; reflexivity.
Qed.

Lemma strip_shebang_hd : forall c s, (c =? 35) = false -> strip_shebang (c :: s) = c :: s.
Proof. intros c s E. unfold strip_shebang. destruct s; [reflexivity|]. rewrite E. reflexivity. Qed.

Theorem string_roundtrip_lex : forall pr s t fuel,
  Forall (fun c => valid_scalar c = true) s -> (List.length s < fuel)%nat ->
  lex_one fuel (write_string pr s ++ t) = LToks [TStr s] (write_string pr s ++ t) t.
Proof.
  intros pr s t fuel Hs Hf. unfold write_string.
  replace ((34 :: flat_map (esc_str_char pr) s ++ [34]) ++ t)
    with (34 :: (flat_map (esc_str_char pr) s ++ 34 :: t)).
  2:{ cbn [app]. rewrite <- app_assoc. reflexivity. }
  unfold lex_one. cbn [skip_ws]. change (is_ws 34) with false. cbv iota.
  change (34 =? 59) with false. change (34 =? 34) with true. cbv iota.
  rewrite (read_string_body pr s t [] fuel Hs Hf). reflexivity.
Qed.

Lemma length_flat_map_esc : forall pr s, (List.length s <= List.length (flat_map (esc_str_char pr) s))%nat.
Proof.
  induction s as [|c s IH]; [cbn; lia|].
  cbn [flat_map List.length]. rewrite app_length.
  assert (1 <= List.length (esc_str_char pr c))%nat.
  { unfold esc_str_char.
    repeat match goal with |- context [if ?b then _ else _] => destruct b end; cbn [List.length app]; try lia. }
  lia.
Qed.

Theorem string_roundtrip_read : forall pr s,
  Forall (fun c => valid_scalar c = true) s ->
  read_first (write_string pr s) = ROk (DStr s) 0.
Proof.
  intros pr s Hs.
  apply (read_single_token (write_string pr s) (TStr s)); try reflexivity.
  { unfold write_string. apply strip_shebang_hd. reflexivity. }
  pose proof (string_roundtrip_lex pr s [] (S (List.length (write_string pr s))) Hs) as H.
  rewrite app_nil_r in H. apply H.
  unfold write_string. cbn [List.length]. rewrite app_length. pose proof (length_flat_map_esc pr s). lia.
Qed.

(* ------------------------------------------------------------------ characters *)
Ltac b2p H :=
  repeat (first [ apply orb_true_iff in H | apply andb_true_iff in H | apply N.leb_le in H | apply N.eqb_eq in H
                | apply N.ltb_lt in H ]; try destruct H as [H|H]).

Lemma hexd_not_ws : forall c, is_hexd c = true -> is_ws c = false.
Proof.
  intros c H. apply hexd_range in H. unfold is_ws.
  repeat match goal with
         | |- context [c =? ?k] =>
           let E := fresh "E" in
           assert (E : (c =? k) = false) by (apply N.eqb_neq; intro; subst; destruct H as [[? ?]|[? ?]]; lia);
           rewrite E; clear E
         end.
  assert (E1 : (c <=? 13) = false) by (apply N.leb_gt; destruct H as [[? ?]|[? ?]]; lia).
  assert (E2 : (8192 <=? c) = false) by (apply N.leb_gt; destruct H as [[? ?]|[? ?]]; lia).
  rewrite E1, E2. rewrite andb_false_r. reflexivity.
Qed.

Lemma hash_scan_hexd : forall l acc t,
  Forall (fun c => is_hexd c = true) l -> delim_start t ->
  hash_scan (l ++ t) acc = (rev l ++ acc, t).
Proof.
  induction l as [|c l IH]; intros acc t Hl Ht.
  - cbn [app rev]. destruct t as [|d t']; [reflexivity|].
    cbn in Ht. destruct Ht; subst; reflexivity.
  - inversion Hl as [|? ? Hc Hl']; subst. cbn [app hash_scan].
    pose proof (hexd_not_ws c Hc) as Hw. apply hexd_range in Hc.
    unfold mem, c_lparen, c_lbrack, c_rparen, c_rbrack. cbn [existsb].
    repeat match goal with
           | |- context [c =? ?k] =>
             let E := fresh "E" in
             assert (E : (c =? k) = false) by (apply N.eqb_neq; intro; subst; destruct Hc as [[? ?]|[? ?]]; lia);
             rewrite E; clear E
           end.
    rewrite Hw. cbn [orb]. rewrite IH by assumption. cbn [rev]. rewrite <- app_assoc. reflexivity.
Qed.

Lemma hex_acc_zeros : forall k l, hex_acc (repeat 48 k ++ l) 0 = hex_acc l 0.
Proof. induction k as [|k IH]; intros l; [reflexivity|]. cbn [repeat app hex_acc]. exact (IH l). Qed.

Lemma pad4_hexd : forall l, Forall (fun c => is_hexd c = true) l -> Forall (fun c => is_hexd c = true) (pad4 l).
Proof.
  intros l H. unfold pad4. apply Forall_app. split; [|exact H].
  induction (4 - List.length l)%nat; cbn [repeat]; constructor; [reflexivity|assumption].
Qed.

Lemma eq_ic_single : forall c x y l, eq_ignore_case [c] (x :: y :: l) = false.
Proof. intros. unfold eq_ignore_case. cbn [map text_eqb]. apply andb_false_r. Qed.

Lemma parse_char_single : forall c, parse_char [c] = inr c.
Proof.
  intros c. unfold parse_char. norm_cps. rewrite !eq_ic_single. cbn [negb andb]. rewrite andb_false_r. reflexivity.
Qed.

Lemma parse_char_hex : forall c, valid_scalar c = true -> parse_char (117 :: pad4 (write_hex c)) = inr c.
Proof.
  intros c Hv. unfold parse_char. norm_cps. unfold eq_ignore_case. cbn [map text_eqb to_lower].
  change (to_lower 117) with 117. cbn [N.eqb Pos.eqb andb].
  pose proof (pad4_hexd _ (write_hex_digits c)) as Hd.
  assert (Hne : pad4 (write_hex c) <> []).
  { unfold pad4. pose proof (write_hex_nonempty c). destruct (write_hex c); [congruence|].
    intro E. apply app_eq_nil in E. destruct E; discriminate. }
  destruct (pad4 (write_hex c)) as [|b r] eqn:E; [congruence|].
  inversion Hd as [|? ? Hb Hr]; subst.
  change ((117 =? 117) || (117 =? 120)) with true. cbn [andb negb].
  assert (Eb : (b =? 123) = false).
  { apply hexd_range in Hb. apply N.eqb_neq; intro; subst; destruct Hb as [[? ?]|[? ?]]; lia. }
  rewrite Eb. cbn [andb].
  rewrite u32_from_hex_hexd by exact Hb. rewrite <- E. unfold pad4. rewrite hex_acc_zeros.
  rewrite hex_acc_write_hex by (apply valid_scalar_u32; exact Hv). rewrite Hv. reflexivity.
Qed.

Lemma lex_one_hash_char : forall body c t fuel,
  body <> [] -> parse_char body = inr c ->
  hash_scan (92 :: body ++ t) [35] = (rev body ++ [92; 35], t) ->
  lex_one fuel (35 :: 92 :: body ++ t) = LToks [TChar c] (35 :: 92 :: body ++ t) t.
Proof.
  intros body c t fuel Hne Hp Hs.
  unfold lex_one. cbn [skip_ws]. change (is_ws 35) with false. cbv iota.
  change (35 =? 59) with false. change (35 =? 34) with false. change (35 =? 40) with false.
  change (35 =? 91) with false. change (35 =? 123) with false. change (35 =? 41) with false.
  change (35 =? 93) with false. change (35 =? 125) with false. change (35 =? 39) with false.
  change (35 =? 96) with false. change (35 =? 44) with false.
  change ((35 =? 43) || (35 =? 45) || (35 =? 46)) with false. change (35 =? 35) with true. cbv iota.
  norm_cps. change (mem 92 [120; 88; 100; 68; 111; 79; 98; 66]) with false.
  change (92 =? 124) with false. change (92 =? 59) with false. change (92 =? 35) with false.
  change (92 =? 60) with false. cbv iota.
  unfold read_hash_value. unfold c_hash. rewrite Hs.
  rewrite rev_app_distr, rev_involutive. cbn [rev app].
  destruct body as [|b0 body']; [congruence|].
  cbn [text_eqb starts_with firstn List.length app skipn].
  change (35 =? 35) with true. change (92 =? 116) with false. change (92 =? 102) with false.
  change (92 =? 39) with false. change (92 =? 96) with false. change (92 =? 44) with false.
  change (92 =? 58) with false. change (92 =? 92) with true.
  cbn [andb orb]. rewrite Hp. reflexivity.
Qed.

Definition hs_plain (c : N) : bool :=
  negb ((c =? 92) || (c =? 39) || (c =? 96) || (c =? 44) || mem c [c_lparen; c_lbrack; c_rparen; c_rbrack] || is_ws c).

Lemma hash_scan_delim : forall acc t, delim_start t -> hash_scan t acc = (acc, t).
Proof.
  intros acc t Ht. destruct t as [|d t']; [reflexivity|]. cbn in Ht. destruct Ht; subst; reflexivity.
Qed.

Lemma hash_scan_plain : forall l acc t,
  forallb hs_plain l = true -> delim_start t -> hash_scan (l ++ t) acc = (rev l ++ acc, t).
Proof.
  induction l as [|c l IH]; intros acc t Hl Ht.
  - cbn [app rev]. apply hash_scan_delim. exact Ht.
  - cbn [forallb] in Hl. apply andb_true_iff in Hl. destruct Hl as [Hc Hl].
    cbn [app hash_scan]. unfold hs_plain in Hc. apply negb_true_iff in Hc.
    repeat (apply orb_false_iff in Hc; destruct Hc as [Hc ?]).
    repeat match goal with H : _ = false |- _ => rewrite H; clear H end.
    cbn [orb]. rewrite IH by assumption. cbn [rev]. rewrite <- app_assoc. reflexivity.
Qed.

Lemma hash_scan_char_body : forall b body' t,
  forallb hs_plain body' = true -> delim_start t ->
  hash_scan (92 :: (b :: body') ++ t) [35] = (rev (b :: body') ++ [92; 35], t).
Proof.
  intros b body' t Hp Ht. cbn [app hash_scan]. change (92 =? 92) with true. cbv iota.
  rewrite hash_scan_plain by assumption. cbn [rev]. rewrite <- app_assoc. reflexivity.
Qed.

Lemma hexd_hs_plain : forall l, Forall (fun c => is_hexd c = true) l -> forallb hs_plain l = true.
Proof.
  induction 1 as [|c l Hc Hl IH]; [reflexivity|]. cbn [forallb]. rewrite IH, andb_true_r.
  unfold hs_plain. rewrite (hexd_not_ws c Hc). apply hexd_range in Hc.
  unfold mem, c_lparen, c_lbrack, c_rparen, c_rbrack. cbn [existsb].
  repeat match goal with
         | |- context [c =? ?k] =>
           let E := fresh "E" in
           assert (E : (c =? k) = false) by (apply N.eqb_neq; intro; subst; destruct Hc as [[? ?]|[? ?]]; lia);
           rewrite E; clear E
         end.
  reflexivity.
Qed.

Theorem char_roundtrip_lex : forall pr c t fuel,
  valid_scalar c = true -> delim_start t ->
  lex_one fuel (write_char pr c ++ t) = LToks [TChar c] (write_char pr c ++ t) t.
Proof.
  intros pr c t fuel Hv Ht. unfold write_char.
  assert (Hnamed : forall body, body <> [] -> forallb hs_plain (tl body) = true -> parse_char body = inr c ->
            lex_one fuel ((35 :: 92 :: body) ++ t) = LToks [TChar c] ((35 :: 92 :: body) ++ t) t).
  { intros body Hne Hp Hpc. cbn [app]. apply lex_one_hash_char; try assumption.
    destruct body as [|b body']; [congruence|]. apply hash_scan_char_body; assumption. }
  destruct (c =? 32) eqn:E1; [apply N.eqb_eq in E1; subst; norm_cps; apply Hnamed; [discriminate|reflexivity|reflexivity]|].
  destruct (c =? 0) eqn:E2; [apply N.eqb_eq in E2; subst; norm_cps; apply Hnamed; [discriminate|reflexivity|reflexivity]|].
  destruct (c =? 9) eqn:E3; [apply N.eqb_eq in E3; subst; norm_cps; apply Hnamed; [discriminate|reflexivity|reflexivity]|].
  destruct (c =? 10) eqn:E4; [apply N.eqb_eq in E4; subst; norm_cps; apply Hnamed; [discriminate|reflexivity|reflexivity]|].
  destruct (c =? 13) eqn:E5; [apply N.eqb_eq in E5; subst; norm_cps; apply Hnamed; [discriminate|reflexivity|reflexivity]|].
  destruct ((c =? 92) || (c =? 34) || (c =? 39) || pr c).
  - apply (Hnamed [c]); [discriminate|reflexivity|apply parse_char_single].
  - change ([35; 92; 117] ++ pad4 (write_hex c)) with (35 :: 92 :: (117 :: pad4 (write_hex c))).
    apply Hnamed; [discriminate| |apply parse_char_hex; exact Hv].
    cbn [tl]. apply hexd_hs_plain. apply pad4_hexd. apply write_hex_digits.
Qed.

Lemma write_char_shape : forall pr c, exists body, write_char pr c = 35 :: 92 :: body.
Proof.
  intros pr c. unfold write_char. norm_cps.
  repeat match goal with |- context [if ?b then _ else _] => destruct b end; eexists; reflexivity.
Qed.

Theorem char_roundtrip_read : forall pr c,
  valid_scalar c = true -> read_first (write_char pr c) = ROk (DChar c) 0.
Proof.
  intros pr c Hv.
  apply (read_single_token (write_char pr c) (TChar c)); try reflexivity.
  - destruct (write_char_shape pr c) as [body E]. rewrite E. unfold strip_shebang. reflexivity.
  - pose proof (char_roundtrip_lex pr c [] (S (List.length (write_char pr c))) Hv I) as H.
    rewrite app_nil_r in H. exact H.
Qed.

(* ------------------------------------------------------------------ decimal integers *)
Definition digs (l : text) : Prop := Forall (fun c => is_digit c = true) l.

Lemma digit_range : forall c, is_digit c = true -> 48 <= c /\ c <= 57.
Proof. intros c H. unfold is_digit in H. apply andb_true_iff in H. destruct H as [H1 H2].
  apply N.leb_le in H1. apply N.leb_le in H2. split; assumption. Qed.

Lemma digit_hexd : forall c, is_digit c = true -> is_hexd c = true.
Proof. intros c H. unfold is_hexd. rewrite H. reflexivity. Qed.

Lemma dec_digit_spec : forall v, v < 10 -> is_digit (48 + v) = true /\ digit_val 10 (48 + v) = Some v.
Proof.
  intros v Hv. unfold digit_val, hex_val, is_digit.
  assert (H1 : (48 <=? 48 + v) = true) by (apply N.leb_le; lia).
  assert (H2 : (48 + v <=? 57) = true) by (apply N.leb_le; lia).
  rewrite H1, H2. cbn [andb]. split; [reflexivity|].
  assert (H3 : 48 + v - 48 = v) by lia. rewrite H3.
  assert (H4 : (v <? 10) = true) by (apply N.ltb_lt; lia). rewrite H4. reflexivity.
Qed.

Lemma digits_fuel_digs : forall f n acc, digs acc -> digs (digits_fuel f n acc).
Proof.
  induction f as [|f IH]; intros n acc Hacc; cbn [digits_fuel]; [exact Hacc|].
  assert (Hd : is_digit (48 + n mod 10) = true) by (apply dec_digit_spec; apply N.mod_lt; lia).
  destruct (n <? 10); [constructor; assumption|]. apply IH. constructor; assumption.
Qed.

Lemma digits_fuel_nonempty : forall f n acc, digits_fuel (S f) n acc <> [].
Proof.
  induction f as [|f IH]; intros n acc.
  - cbn. destruct (n <? 10); discriminate.
  - change (digits_fuel (S (S f)) n acc) with
      (let acc' := (48 + n mod 10) :: acc in if n <? 10 then acc' else digits_fuel (S f) (n / 10) acc').
    cbv zeta. destruct (n <? 10); [discriminate|apply IH].
Qed.

Lemma digits_acc_fuel : forall f n acc,
  n < 2 ^ N.of_nat (S f) -> digits_acc 10 (digits_fuel (S f) n acc) 0 = digits_acc 10 acc n.
Proof.
  induction f as [|f IH]; intros n acc Hn;
    change (digits_fuel (S ?g) n acc) with
      (let acc' := (48 + n mod 10) :: acc in if n <? 10 then acc' else digits_fuel g (n / 10) acc');
    cbv zeta;
    assert (Hm : n mod 10 < 10) by (apply N.mod_lt; lia);
    destruct (dec_digit_spec _ Hm) as [_ Hv].
  - assert (E : (n <? 10) = true) by (apply N.ltb_lt; simpl in Hn; lia).
    rewrite E. apply N.ltb_lt in E. cbn [digits_acc]. rewrite Hv.
    rewrite N.mod_small by lia. change (0 * 10 + n) with n. reflexivity.
  - destruct (n <? 10) eqn:E.
    + apply N.ltb_lt in E. cbn [digits_acc]. rewrite Hv.
      rewrite N.mod_small by lia. change (0 * 10 + n) with n. reflexivity.
    + rewrite IH.
      * cbn [digits_acc]. rewrite Hv.
        assert (Hdm : n / 10 * 10 + n mod 10 = n).
        { rewrite N.mul_comm. symmetry. apply N.div_mod. lia. }
        rewrite Hdm. reflexivity.
      * apply div_lt_pow2; [lia|exact Hn].
Qed.

Lemma write_nat_spec : forall n,
  digs (write_nat n) /\ write_nat n <> [] /\ parse_nat 10 (write_nat n) = Some n.
Proof.
  intros n. unfold write_nat. split; [apply digits_fuel_digs; constructor|].
  split; [apply digits_fuel_nonempty|].
  unfold parse_nat. pose proof (digits_fuel_nonempty (N.to_nat (N.log2 n)) n []) as Hne.
  destruct (digits_fuel (S (N.to_nat (N.log2 n))) n []) eqn:E; [congruence|]. rewrite <- E.
  rewrite digits_acc_fuel; [reflexivity|].
  pose proof (lt_pow2_log2 n) as H.
  replace (N.to_nat (N.log2 n) + 1)%nat with (S (N.to_nat (N.log2 n))) in H by lia. exact H.
Qed.

Lemma digs_not : forall l c, digs l -> is_digit c = false -> forallb (fun x => negb (x =? c)) l = true.
Proof.
  induction 1 as [|x l Hx Hl IH]; intros Hc; [reflexivity|]. cbn [forallb]. rewrite IH by exact Hc.
  destruct (N.eqb_spec x c); [subst; congruence|reflexivity].
Qed.

Lemma noc_split : forall c l, forallb (fun x => negb (x =? c)) l = true -> split_at_char c l = None.
Proof.
  induction l as [|x l IH]; intros H; [reflexivity|]. cbn [forallb] in H. apply andb_true_iff in H.
  destruct H as [Hx Hl]. cbn [split_at_char]. apply negb_true_iff in Hx. rewrite Hx. rewrite IH by exact Hl. reflexivity.
Qed.

Lemma noc_count : forall c l, forallb (fun x => negb (x =? c)) l = true -> count c l = 0%nat.
Proof.
  induction l as [|x l IH]; intros H; [reflexivity|]. cbn [forallb] in H. apply andb_true_iff in H.
  destruct H as [Hx Hl]. unfold count in *. cbn [filter]. apply negb_true_iff in Hx.
  rewrite N.eqb_sym in Hx. rewrite Hx. apply IH. exact Hl.
Qed.

Lemma digs_sign_idxs : forall l i acc, digs l -> sign_idxs l i acc = Some (rev acc).
Proof.
  induction l as [|c l IH]; intros i acc H; [reflexivity|]. inversion H as [|? ? Hc Hl]; subst.
  cbn [sign_idxs]. apply digit_range in Hc.
  assert (E1 : (c =? 43) = false) by (apply N.eqb_neq; lia).
  assert (E2 : (c =? 45) = false) by (apply N.eqb_neq; lia).
  assert (E3 : (c =? 101) = false) by (apply N.eqb_neq; lia).
  assert (E4 : (c =? 69) = false) by (apply N.eqb_neq; lia).
  rewrite E1, E2, E3, E4. cbn [orb]. apply IH. exact Hl.
Qed.

Lemma classify_part_real : forall s, s <> [] -> is_digit (last s 0) = true -> classify_part s = PReal s.
Proof.
  intros s Hne Hl. unfold classify_part.
  destruct (rev s) as [|x r] eqn:E.
  - reflexivity.
  - assert (Hx : x = last s 0).
    { assert (s = rev (x :: r)) by (rewrite <- E, rev_involutive; reflexivity). subst s.
      cbn [rev]. rewrite last_last. reflexivity. }
    subst x. apply digit_range in Hl.
    assert (E1 : (last s 0 =? 105) = false) by (apply N.eqb_neq; lia). rewrite E1. reflexivity.
Qed.

Lemma last_app_ne : forall (a b : text) d, b <> [] -> last (a ++ b) d = last b d.
Proof.
  induction a as [|x a IH]; intros b d Hb; [reflexivity|].
  cbn [app]. destruct (a ++ b) eqn:E.
  - apply app_eq_nil in E. destruct E; congruence.
  - rewrite <- E. cbn [last]. rewrite E. rewrite <- E. apply IH. exact Hb.
Qed.

Lemma digs_last : forall l, digs l -> l <> [] -> is_digit (last l 0) = true.
Proof.
  induction 1 as [|c l Hc Hl IH]; intros Hne; [congruence|].
  destruct l as [|d l']; [exact Hc|]. change (last (c :: d :: l') 0) with (last (d :: l') 0).
  apply IH. discriminate.
Qed.

(* parse_real on [sign] digits: an exact integer *)
Lemma parse_real_digits : forall sgn l,
  digs l -> l <> [] -> (sgn = [] \/ sgn = [45]) ->
  parse_real (sgn ++ l) 10 =
  match parse_nat 10 l with
  | Some n => PNum (NInt (match sgn with [] => Z.of_N n | _ => (- Z.of_N n)%Z end))
  | None => PNone
  end.
Proof.
  intros sgn l Hd Hne Hs. unfold parse_real. norm_cps.
  destruct l as [|h l']; [congruence|]. inversion Hd as [|? ? Hh Hl']; subst.
  pose proof (digit_range h Hh) as Hr.
  assert (Einf : (text_eqb (sgn ++ h :: l') [45; 105; 110; 102; 46; 48] || text_eqb (sgn ++ h :: l') [43; 105; 110; 102; 46; 48]
                 || text_eqb (sgn ++ h :: l') [43; 110; 97; 110; 46; 48] || text_eqb (sgn ++ h :: l') [45; 110; 97; 110; 46; 48]) = false).
  { destruct Hs; subst sgn; cbn [app text_eqb].
    - assert (E1 : (h =? 45) = false) by (apply N.eqb_neq; lia).
      assert (E2 : (h =? 43) = false) by (apply N.eqb_neq; lia). rewrite E1, E2. reflexivity.
    - change (45 =? 45) with true. change (45 =? 43) with false.
      assert (E1 : (h =? 105) = false) by (apply N.eqb_neq; lia).
      assert (E2 : (h =? 110) = false) by (apply N.eqb_neq; lia). rewrite E1, E2. reflexivity. }
  rewrite Einf. change (10 <? 15) with true. cbv iota.
  assert (Hno : forall c, is_digit c = false -> c <> 45 -> forallb (fun x => negb (x =? c)) (sgn ++ h :: l') = true).
  { intros c Hc H45. rewrite forallb_app. rewrite (digs_not (h :: l') c Hd Hc), andb_true_r.
    destruct Hs; subst sgn; [reflexivity|]. cbn [forallb]. rewrite andb_true_r. apply negb_true_iff. apply N.eqb_neq. congruence. }
  rewrite (noc_count 101), (noc_count 69), (noc_count 47), (noc_count 46) by (apply Hno; [reflexivity|discriminate]).
  cbn [Nat.add Nat.ltb Nat.leb orb]. change (10 =? 10) with true. cbn [negb].
  rewrite (noc_split 47) by (apply Hno; [reflexivity|discriminate]).
  unfold parse_int. destruct Hs; subst sgn; cbn [app].
  - assert (E1 : (h =? 45) = false) by (apply N.eqb_neq; lia).
    assert (E2 : (h =? 43) = false) by (apply N.eqb_neq; lia). rewrite E1, E2.
    destruct (parse_nat 10 (h :: l')); reflexivity.
  - change (45 =? 43) with false. change (45 =? 45) with true. cbv iota.
    destruct (parse_nat 10 (h :: l')); reflexivity.
Qed.

Lemma parse_number_digits : forall sgn l,
  digs l -> l <> [] -> (sgn = [] \/ sgn = [45]) ->
  parse_number (sgn ++ l) =
  match parse_nat 10 l with
  | Some n => PNum (NInt (match sgn with [] => Z.of_N n | _ => (- Z.of_N n)%Z end))
  | None => PNone
  end.
Proof.
  intros sgn l Hd Hne Hs. unfold parse_number.
  assert (Hpre : radix_prefix (sgn ++ l) = (sgn ++ l, 10)).
  { unfold radix_prefix.
    destruct l as [|h l']; [congruence|]. inversion Hd as [|? ? Hh Hl']; subst. apply digit_range in Hh.
    destruct Hs; subst sgn; cbn [app].
    - destruct l' as [|c r]; [reflexivity|].
      assert (E : (h =? 35) = false) by (apply N.eqb_neq; lia). rewrite E. reflexivity.
    - reflexivity. }
  rewrite Hpre. cbn [fst snd].
  assert (Hno64 : forallb (fun x => negb (x =? 64)) (sgn ++ l) = true).
  { rewrite forallb_app, (digs_not l 64 Hd eq_refl), andb_true_r. destruct Hs; subst; reflexivity. }
  rewrite (noc_split 64 _ Hno64).
  assert (Hsplit : split_into_complex (sgn ++ l) = Some [PReal (sgn ++ l)]).
  { unfold split_into_complex.
    assert (Hcp : classify_part (sgn ++ l) = PReal (sgn ++ l)).
    { apply classify_part_real.
      - destruct l; [congruence|]. destruct sgn; discriminate.
      - rewrite last_app_ne by exact Hne. apply digs_last; assumption. }
    destruct Hs; subst sgn; cbn [app] in *.
    + rewrite digs_sign_idxs by exact Hd. cbn [rev]. rewrite Hcp. reflexivity.
    + cbn [sign_idxs]. change ((45 =? 43) || (45 =? 45)) with true. cbv iota. cbn [List.length Nat.eqb].
      rewrite digs_sign_idxs by exact Hd. cbn [rev app]. rewrite Hcp. reflexivity. }
  rewrite Hsplit. apply parse_real_digits; assumption.
Qed.

Lemma read_number_digits : forall l fuel acc t,
  digs l -> delim_start t ->
  read_number fuel (l ++ t) acc = finish_number fuel t (rev l ++ acc).
Proof.
  induction l as [|c l IH]; intros fuel acc t Hd Ht.
  - cbn [app rev]. destruct t as [|d t']; [reflexivity|]. cbn in Ht. destruct Ht; subst; reflexivity.
  - inversion Hd as [|? ? Hc Hl]; subst. cbn [app read_number].
    unfold is_numberish. rewrite Hc. cbn [orb]. rewrite IH by assumption.
    cbn [rev]. rewrite <- app_assoc. reflexivity.
Qed.

Lemma lex_one_digit_start : forall c s fuel,
  is_digit c = true ->
  lex_one fuel (c :: s) = of_sres (c :: s) (read_number fuel (c :: s) []).
Proof.
  intros c s fuel Hc. unfold lex_one. cbn [skip_ws].
  rewrite (hexd_not_ws c (digit_hexd c Hc)).
  pose proof (digit_range c Hc) as Hr.
  repeat match goal with
         | |- context [c =? ?k] =>
           let E := fresh "E" in
           assert (E : (c =? k) = false) by (apply N.eqb_neq; lia); rewrite E; clear E
         end.
  cbn [orb]. rewrite Hc. reflexivity.
Qed.

Theorem integer_roundtrip_lex : forall z t fuel,
  delim_start t ->
  lex_one fuel (write_int z ++ t) = LToks [TNum (NInt z)] (write_int z ++ t) t.
Proof.
  intros z t fuel Ht.
  assert (Hpos : forall n, lex_one fuel (write_nat n ++ t) = LToks [TNum (NInt (Z.of_N n))] (write_nat n ++ t) t).
  { intros n. destruct (write_nat_spec n) as [Hd [Hne Hp]].
    destruct (write_nat n) as [|c l] eqn:E; [congruence|]. inversion Hd as [|? ? Hc Hl]; subst.
    cbn [app]. rewrite lex_one_digit_start by exact Hc.
    change (c :: l ++ t) with ((c :: l) ++ t). rewrite read_number_digits by assumption.
    unfold finish_number. rewrite app_nil_r, rev_involutive.
    pose proof (parse_number_digits [] (c :: l) Hd Hne (or_introl eq_refl)) as Hpn. cbn [app] in Hpn.
    rewrite Hpn, Hp. reflexivity. }
  destruct z as [|p|p]; cbn [write_int].
  - exact (Hpos 0).
  - exact (Hpos (N.pos p)).
  - destruct (write_nat_spec (N.pos p)) as [Hd [Hne Hp]].
    cbn [app]. unfold lex_one. cbn [skip_ws]. change (is_ws 45) with false. cbv iota.
    change (45 =? 59) with false. change (45 =? 34) with false. change (45 =? 40) with false.
    change (45 =? 91) with false. change (45 =? 123) with false. change (45 =? 41) with false.
    change (45 =? 93) with false. change (45 =? 125) with false. change (45 =? 39) with false.
    change (45 =? 96) with false. change (45 =? 44) with false.
    change ((45 =? 43) || (45 =? 45) || (45 =? 46)) with true. cbv iota.
    rewrite read_number_digits by assumption.
    unfold finish_number. rewrite rev_app_distr, rev_involutive. cbn [rev app].
    pose proof (parse_number_digits [45] (write_nat (N.pos p)) Hd Hne (or_intror eq_refl)) as Hpn.
    cbn [app] in Hpn. rewrite Hpn, Hp. reflexivity.
Qed.

Lemma write_int_shape : forall z, exists c l, write_int z = c :: l /\ (is_digit c = true \/ c = 45).
Proof.
  intros z. destruct z as [|p|p]; cbn [write_int].
  - exists 48, []. split; [reflexivity|left; reflexivity].
  - destruct (write_nat_spec (N.pos p)) as [Hd [Hne _]]. destruct (write_nat (N.pos p)) as [|c l]; [congruence|].
    inversion Hd; subst. exists c, l. split; [reflexivity|left; assumption].
  - eexists _, _. split; [reflexivity|right; reflexivity].
Qed.

Theorem integer_roundtrip_read : forall z, read_first (write_int z) = ROk (DInt z) 0.
Proof.
  intros z.
  apply (read_single_token (write_int z) (TNum (NInt z))); try reflexivity.
  - destruct (write_int_shape z) as [c [l [E Hc]]]. rewrite E. unfold strip_shebang.
    destruct Hc as [Hc|Hc].
    + apply digit_range in Hc. destruct l as [|d l']; [reflexivity|].
      assert (E35 : (c =? 35) = false) by (apply N.eqb_neq; lia). rewrite E35. reflexivity.
    + subst c. destruct l as [|d l']; reflexivity.
  - pose proof (integer_roundtrip_lex z [] (S (List.length (write_int z))) I) as H.
    rewrite app_nil_r in H. exact H.
Qed.

(* ------------------------------------------------------------------ symbols the writer can emit bare *)
Definition plain_ch (c : N) : bool := negb (is_word_break c) && negb (c =? 92) && negb (c =? 124).
Definition first_ok (c : N) : bool := negb (is_digit c) && negb (mem c [35; 43; 45; 46]).
Definition alias_ok (s : text) : bool :=
  match kw_of_word s with
  | Some t => match tok_to_datum t with DSym n => text_eqb n s | _ => false end
  | None => true
  end.
Definition sym_plain (s : text) : bool :=
  match s with
  | [] => false
  | c :: _ => first_ok c && forallb plain_ch s && alias_ok s
  end.

Lemma text_eqb_eq : forall a b, text_eqb a b = true -> a = b.
Proof.
  induction a as [|x a IH]; destruct b as [|y b]; cbn [text_eqb]; intros H; try discriminate; [reflexivity|].
  apply andb_true_iff in H. destruct H as [H1 H2]. apply N.eqb_eq in H1. subst. f_equal. apply IH. exact H2.
Qed.

Lemma word_plain_plain : forall l acc t,
  forallb plain_ch l = true -> delim_start t -> word_plain (l ++ t) acc = (rev l ++ acc, t).
Proof.
  induction l as [|c l IH]; intros acc t Hl Ht.
  - cbn [app rev]. destruct t as [|d t']; [reflexivity|]. cbn in Ht. destruct Ht; subst; reflexivity.
  - cbn [forallb] in Hl. apply andb_true_iff in Hl. destruct Hl as [Hc Hl].
    unfold plain_ch in Hc. apply andb_true_iff in Hc. destruct Hc as [Hc H124].
    apply andb_true_iff in Hc. destruct Hc as [Hwb H92].
    apply negb_true_iff in Hwb. apply negb_true_iff in H92.
    cbn [app word_plain]. rewrite Hwb, H92. rewrite IH by assumption.
    cbn [rev]. rewrite <- app_assoc. reflexivity.
Qed.

Theorem symbol_roundtrip_lex : forall s t fuel,
  sym_plain s = true -> delim_start t ->
  exists tk, lex_one fuel (s ++ t) = LToks [tk] (s ++ t) t /\ tok_to_datum tk = DSym s /\ atom_tok tk = true.
Proof.
  intros s t fuel Hp Ht. unfold sym_plain in Hp. destruct s as [|c s']; [discriminate|].
  apply andb_true_iff in Hp. destruct Hp as [Hp Hal]. apply andb_true_iff in Hp. destruct Hp as [Hf Hall].
  assert (Hc : plain_ch c = true).
  { cbn [forallb] in Hall. apply andb_true_iff in Hall. tauto. }
  unfold plain_ch in Hc. apply andb_true_iff in Hc. destruct Hc as [Hc H124].
  apply andb_true_iff in Hc. destruct Hc as [Hwb H92].
  apply negb_true_iff in Hwb. apply negb_true_iff in H92. apply negb_true_iff in H124.
  unfold first_ok in Hf. apply andb_true_iff in Hf. destruct Hf as [Hnd Hnm].
  apply negb_true_iff in Hnd. apply negb_true_iff in Hnm.
  unfold is_word_break, mem, c_lparen, c_lbrack, c_rparen, c_rbrack, c_lbrace, c_rbrace, c_dquote, c_semi in Hwb.
  cbn [existsb] in Hwb. unfold mem in Hnm. cbn [existsb] in Hnm.
  repeat match goal with H : (_ || _) = false |- _ => apply orb_false_iff in H; destruct H end.
  assert (Hlex : lex_one fuel ((c :: s') ++ t) = of_sres ((c :: s') ++ t) (read_word_plain ((c :: s') ++ t) [])).
  { cbn [app]. unfold lex_one. cbn [skip_ws].
    repeat match goal with H : _ = false |- _ => rewrite H end.
    cbn [orb]. unfold read_word. rewrite H124. reflexivity. }
  unfold read_word_plain in Hlex. rewrite word_plain_plain in Hlex by assumption.
  rewrite app_nil_r, rev_involutive in Hlex.
  unfold alias_ok in Hal. unfold classify_word in Hlex.
  destruct (kw_of_word (c :: s')) as [tk|] eqn:Ek.
  - exists tk. split; [exact Hlex|].
    destruct (tok_to_datum tk) eqn:Ed; try discriminate Hal. apply text_eqb_eq in Hal. subst.
    split; [reflexivity|].
    unfold kw_of_word in Ek.
    repeat match type of Ek with (if ?b then _ else _) = _ => destruct b end;
      inversion Ek; subst; try reflexivity; cbn in Ed; discriminate.
  - exists (TIdent (c :: s')). split; [|split; reflexivity].
    destruct s' as [|c2 s'']; [exact Hlex|].
    assert (E43 : (c =? 43) = false) by assumption. rewrite E43 in Hlex. exact Hlex.
Qed.

Theorem symbol_roundtrip_read : forall s, sym_plain s = true -> read_first s = ROk (DSym s) 0.
Proof.
  intros s Hp.
  destruct (symbol_roundtrip_lex s [] (S (List.length s)) Hp I) as [tk [Hl [Hd Ha]]].
  rewrite app_nil_r in Hl. rewrite <- Hd.
  apply read_single_token; try assumption.
  - rewrite Hd. reflexivity.
  - unfold sym_plain in Hp. destruct s as [|c s']; [discriminate|].
    apply andb_true_iff in Hp. destruct Hp as [Hp _]. apply andb_true_iff in Hp. destruct Hp as [Hf _].
    unfold first_ok in Hf. apply andb_true_iff in Hf. destruct Hf as [_ Hnm]. apply negb_true_iff in Hnm.
    unfold mem in Hnm. cbn [existsb] in Hnm. apply orb_false_iff in Hnm. destruct Hnm as [E35 _].
    rewrite N.eqb_sym in E35. apply strip_shebang_hd. rewrite N.eqb_sym. exact E35.
Qed.

(* the model reproduces the known failures: F8 (symbols), F14 (nesting limit), renamed unquote heads *)
Lemma symbol_refuted_ : exists s, read_first (write pr_ascii (DSym s)) <> ROk (DSym s) 0.
Proof. exists (cps "a b"). vm_compute. discriminate. Qed.

Fixpoint nest (n : nat) (d : datum) : datum := match n with O => d | S k => DList [nest k d] end.

Lemma depth_refuted_ : read_first (write pr_ascii (nest 128 (DInt 1))) <> ROk (nest 128 (DInt 1)) 0.
Proof. vm_compute. discriminate. Qed.

Lemma depth_limit_ok_ : read_first (write pr_ascii (nest 127 (DInt 1))) = ROk (nest 127 (DInt 1)) 0.
Proof. vm_compute. reflexivity. Qed.

Definition unquote_witness : datum :=
  DList [DSym (cps "quasiquote"); DList [DSym (cps "unquote"); DList [DSym (cps "a")]]].
Lemma unquote_refuted_ : read_first (write pr_ascii unquote_witness) <> ROk unquote_witness 0.
Proof. vm_compute. discriminate. Qed.

(* the reader's own failures that the model predicts (debug assertion, u8 overflow) *)
Lemma reader_panic_witness_ : read_first (cps "'(quote x") = RPanic.
Proof. vm_compute. reflexivity. Qed.

(* ------------------------------------------------------------------ the nesting limit of the writer *)
Section DatumInd.
  Variable P : datum -> Prop.
  Hypothesis Hint : forall z, P (DInt z).
  Hypothesis Hrat : forall n d, P (DRat n d).
  Hypothesis Hop : P DOpaque.
  Hypothesis Hbool : forall b, P (DBool b).
  Hypothesis Hchar : forall c, P (DChar c).
  Hypothesis Hstr : forall s, P (DStr s).
  Hypothesis Hsym : forall s, P (DSym s).
  Hypothesis Hlist : forall l, Forall P l -> P (DList l).
  Hypothesis Hpair : forall a b, P a -> P b -> P (DPair a b).
  Hypothesis Hvec : forall l, Forall P l -> P (DVec l).
  Hypothesis Hbytes : forall l, P (DBytes l).
  Hypothesis Hbad : P DBad.
  Fixpoint datum_ind' (d : datum) : P d :=
    match d with
    | DInt z => Hint z | DRat n dn => Hrat n dn | DOpaque => Hop | DBool b => Hbool b | DChar c => Hchar c
    | DStr s => Hstr s | DSym s => Hsym s
    | DList l => Hlist l ((fix go (l : list datum) : Forall P l :=
                             match l with [] => Forall_nil P | x :: r => Forall_cons x (datum_ind' x) (go r) end) l)
    | DPair a b => Hpair a b (datum_ind' a) (datum_ind' b)
    | DVec l => Hvec l ((fix go (l : list datum) : Forall P l :=
                           match l with [] => Forall_nil P | x :: r => Forall_cons x (datum_ind' x) (go r) end) l)
    | DBytes l => Hbytes l | DBad => Hbad
    end.
End DatumInd.

Lemma height_elem : forall l x, In x l -> (height x <= fold_right (fun x m => Nat.max (height x) m) 0%nat l)%nat.
Proof.
  induction l as [|y l IH]; intros x Hin; [destruct Hin|].
  cbn [fold_right]. destruct Hin as [E|Hin]; [subst; lia|]. specialize (IH x Hin). lia.
Qed.

Lemma write_k_enough : forall pr d k, (height d <= k)%nat -> write_k pr k d = write_u pr d.
Proof.
  intros pr d. induction d using datum_ind'; intros k Hk;
    (destruct k as [|k]; [cbn [height] in Hk; lia|]); cbn [write_k write_u]; try reflexivity.
  - f_equal. f_equal. f_equal. apply map_ext_in. intros x Hin.
    rewrite Forall_forall in H. apply H; [exact Hin|].
    cbn [height] in Hk. pose proof (height_elem l x Hin). lia.
  - cbn [height] in Hk. rewrite IHd1, IHd2 by lia. reflexivity.
  - f_equal. f_equal. f_equal. f_equal. apply map_ext_in. intros x Hin.
    rewrite Forall_forall in H. apply H; [exact Hin|].
    cbn [height] in Hk. pose proof (height_elem l x Hin). lia.
Qed.

Lemma write_within_limit : forall pr d, (height d <= 128)%nat -> write pr d = write_u pr d.
Proof. intros. unfold write. apply write_k_enough. assumption. Qed.

(* ------------------------------------------------------------------ read (write d) = d for every atomic datum *)
Definition atom_representable (d : datum) : Prop :=
  match d with
  | DInt _ | DBool _ => True
  | DChar c => valid_scalar c = true
  | DStr s => Forall (fun c => valid_scalar c = true) s
  | DSym s => sym_plain s = true
  | _ => False
  end.

Theorem read_write_atom_ : forall pr d, atom_representable d -> read_first (write pr d) = ROk d 0.
Proof.
  intros pr d H. destruct d; cbn in H; try contradiction; unfold write; cbn [write_k].
  - apply integer_roundtrip_read.
  - destruct b; vm_compute; reflexivity.
  - apply char_roundtrip_read. exact H.
  - apply string_roundtrip_read. exact H.
  - apply symbol_roundtrip_read. exact H.
Qed.
