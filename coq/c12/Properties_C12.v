(* C12 — property theorems only.  Each is closed by [exact lemma]; statements are pinned in
   Pins_C12.v (compiled on every run together with Print Assumptions).
   [pr] is Rust's "prints unescaped" predicate (char::escape_debug): the theorems hold for every such predicate.
   [read_first] = lexer + flat parser + conversion on the whole text; ROk d 0 = the datum d was read and the
   whole text was consumed. *)
From Coq Require Import NArith ZArith List Bool Ascii String.
From SV Require Import c12.Model_C12 c12.Proofs_C12 c12.Proofs_C12_Parse c12.Proofs_C12_ReadWrite c12.Proofs_C12_Total.
Import ListNotations.
Open Scope N_scope.

(* strings: every sequence of Unicode scalar values, whatever the writer escapes *)
Theorem string_escape_roundtrip : forall pr s,
  Forall (fun c => valid_scalar c = true) s -> read_first (write_string pr s) = ROk (DStr s) 0.
Proof. exact string_roundtrip_read. Qed.

(* ... also in the middle of a text: the token is the string, lexing resumes right after the closing quote *)
Theorem string_escape_roundtrip_lex : forall pr s t fuel,
  Forall (fun c => valid_scalar c = true) s -> (List.length s < fuel)%nat ->
  lex_one fuel (write_string pr s ++ t) = LToks [TStr s] (write_string pr s ++ t) t.
Proof. exact string_roundtrip_lex. Qed.

Theorem char_roundtrip : forall pr c,
  valid_scalar c = true -> read_first (write_char pr c) = ROk (DChar c) 0.
Proof. exact char_roundtrip_read. Qed.

Theorem char_roundtrip_lex : forall pr c t fuel,
  valid_scalar c = true -> delim_start t ->
  lex_one fuel (write_char pr c ++ t) = LToks [TChar c] (write_char pr c ++ t) t.
Proof. exact Proofs_C12.char_roundtrip_lex. Qed.

(* exact integers of any magnitude *)
Theorem integer_roundtrip : forall z, read_first (write_int z) = ROk (DInt z) 0.
Proof. exact integer_roundtrip_read. Qed.

Theorem integer_roundtrip_lex : forall z t fuel,
  delim_start t -> lex_one fuel (write_int z ++ t) = LToks [TNum (NInt z)] (write_int z ++ t) t.
Proof. exact Proofs_C12.integer_roundtrip_lex. Qed.

(* symbols outside the known class F8 (no bar quoting in the writer) *)
Theorem symbol_roundtrip : forall s, sym_plain s = true -> read_first s = ROk (DSym s) 0.
Proof. exact symbol_roundtrip_read. Qed.

Theorem symbol_refuted : exists s, read_first (write pr_ascii (DSym s)) <> ROk (DSym s) 0.
Proof. exact symbol_refuted_. Qed.

(* exact rationals n/d (reduced, d > 1) of any magnitude *)
Theorem number_roundtrip_rational : forall n d,
  (1 < d)%Z -> Z.gcd n d = 1%Z -> read_first (write_rat n d) = ROk (DRat n d) 0.
Proof. exact rational_roundtrip_read_. Qed.

Theorem rational_roundtrip_lex : forall n p t fuel,
  delim_start t ->
  lex_one fuel ((write_int n ++ 47 :: write_nat (N.pos p)) ++ t)
  = LToks [TNum (NRat n (Z.pos p))] ((write_int n ++ 47 :: write_nat (N.pos p)) ++ t) t.
Proof. exact rational_roundtrip_lex_. Qed.

(* THE round trip, by structural induction on the datum: nested proper lists, dotted pairs, vectors, byte vectors,
   quotation forms, over every exact atom.  [rep d] excludes exactly: floats, symbols needing bars (F8), a list /
   vector / pair headed by unquote or unquote-splicing (known finding), a pair whose cdr is a proper list (not a
   value: cons onto a list is a list).  The reader's fuel is its own length-based bound (read_first), and the
   result ROk excludes out-of-fuel. *)
Theorem read_write : forall pr d, rep d -> (height d <= 128)%nat -> read_first (write pr d) = ROk d 0.
Proof. exact read_write_. Qed.

(* the two halves it is made of: the lexer yields the datum's tokens, the flat parser rebuilds the datum *)
Theorem lex_written_datum : forall pr d, rep d ->
  forall t fuel, delim_start t -> (List.length (write_u pr d ++ t) < fuel)%nat ->
  exists (ts : list stok) (x : stok),
    map tokof (ts ++ [x]) = tk_of d /\ snd x = blen t /\
    (List.length (ts ++ [x]) <= List.length (write_u pr d))%nat /\
    lex_all fuel (write_u pr d ++ t) = option_map (app (ts ++ [x])) (lex_all (fuel - List.length (ts ++ [x])) t).
Proof. exact L_all. Qed.

Theorem parse_tokens_of_datum : forall d tot (ts ts0 : list stok) (x : stok),
  rep d -> is_compound d -> map tokof ts = tk_of d -> ts = ts0 ++ [x] ->
  read_tokens tot ts = ROk d (snd x).
Proof. exact read_tokens_compound. Qed.

(* every atomic datum *)
Theorem read_write_atom : forall pr d, atom_representable d -> read_first (write pr d) = ROk d 0.
Proof. exact read_write_atom_. Qed.

(* the writer's nesting limit (F14): below it `write` is the unbounded external representation, at it the text
   is no longer readable *)
Theorem write_within_limit : forall pr d, (height d <= 128)%nat -> write pr d = write_u pr d.
Proof. exact Proofs_C12.write_within_limit. Qed.

Theorem depth_refuted : read_first (write pr_ascii (nest 128 (DInt 1))) <> ROk (nest 128 (DInt 1)) 0.
Proof. exact depth_refuted_. Qed.

Theorem depth_limit_ok : read_first (write pr_ascii (nest 127 (DInt 1))) = ROk (nest 127 (DInt 1)) 0.
Proof. exact depth_limit_ok_. Qed.

(* quotation forms built as data: the reader renames an unquote head (known finding) *)
Theorem unquote_refuted : read_first (write pr_ascii unquote_witness) <> ROk unquote_witness 0.
Proof. exact unquote_refuted_. Qed.

(* the reader fails itself (debug assertion) on a 9-character text (known finding) *)
Theorem reader_panic_witness : read_first (cps "'(quote x") = RPanic.
Proof. exact reader_panic_witness_. Qed.

(* totality of the lexer and soundness of every reported source location, for ALL texts (lists of code points):
   with its own length-based fuel the lexer never runs out (lex s = Some ..), and every token / error span (a, b),
   given as byte lengths of the remaining suffix at token start / end, satisfies b <= a <= blen s, i.e. the
   absolute offsets  blen s - a <= blen s - b <= blen s  lie inside the text *)
Theorem lex_total : forall s, exists ts, lex s = Some ts /\ Forall (span_ok (blen s)) ts.
Proof. exact lex_total_. Qed.

(* one step of the lexer: what it consumes is a prefix of the text after leading whitespace, at least one
   character per token (so the token stream is finite), errors included *)
Theorem lex_one_total : forall fuel s0, (List.length s0 < fuel)%nat -> lstep_ok s0 (lex_one fuel s0).
Proof. exact lex_one_ok. Qed.

(* non-vacuity / compound data: one nested datum with every kind *)
Example C12_nonvacuous : read_first (write pr_ascii sample_datum) = ROk sample_datum 0.
Proof. exact sample_roundtrip. Qed.
