(* C11 proofs, collections: the association-list model refines finite maps / finite sets (as
   functions), sequence operations refine [list] with exact error conditions. *)
From Coq Require Import List Arith Bool PeanoNat ZArith Lia.
From SV Require Import c11.Coll_C11.
Import ListNotations.
Local Open Scope Z_scope.

Lemma nats_eqb_eq l r : nats_eqb l r = true <-> l = r.
Proof.
  revert r. induction l as [|x l IH]; intros [|y r]; simpl; split; intros H; try discriminate; try reflexivity.
  - apply andb_true_iff in H as [H1 H2]. apply Nat.eqb_eq in H1. apply IH in H2. subst. reflexivity.
  - inversion H; subst. rewrite Nat.eqb_refl. apply IH. reflexivity.
Qed.
Lemma zs_eqb_eq l r : zs_eqb l r = true <-> l = r.
Proof.
  revert r. induction l as [|x l IH]; intros [|y r]; simpl; split; intros H; try discriminate; try reflexivity.
  - apply andb_true_iff in H as [H1 H2]. apply Z.eqb_eq in H1. apply IH in H2. subst. reflexivity.
  - inversion H; subst. rewrite Z.eqb_refl. apply IH. reflexivity.
Qed.
Lemma key_eqb_eq a b : key_eqb a b = true <-> a = b.
Proof.
  destruct a, b; simpl; split; intros H; try discriminate; try (inversion H; subst).
  - apply Z.eqb_eq in H. subst. reflexivity.
  - apply Z.eqb_refl.
  - apply nats_eqb_eq in H. subst. reflexivity.
  - apply nats_eqb_eq. reflexivity.
  - apply zs_eqb_eq in H. subst. reflexivity.
  - apply zs_eqb_eq. reflexivity.
Qed.
Lemma key_eqb_refl a : key_eqb a a = true.
Proof. apply key_eqb_eq. reflexivity. Qed.
Lemma key_eqb_neq a b : a <> b -> key_eqb a b = false.
Proof. intros H. destruct (key_eqb a b) eqn:E; [apply key_eqb_eq in E; contradiction|reflexivity]. Qed.

(* ---------------------------------------------------------------- finite map laws *)
Lemma lookup_remove_same k m : mlookup k (mremove k m) = None.
Proof.
  induction m as [|[k' v] r IH]; simpl; [reflexivity|].
  destruct (key_eqb k k') eqn:E; [exact IH|]. simpl. rewrite E. exact IH.
Qed.
Lemma lookup_remove_other k k' m : k <> k' -> mlookup k' (mremove k m) = mlookup k' m.
Proof.
  intros Hn. induction m as [|[k0 v] r IH]; simpl; [reflexivity|].
  destruct (key_eqb k k0) eqn:E.
  - apply key_eqb_eq in E. subst k0. rewrite (key_eqb_neq k' k) by congruence. exact IH.
  - simpl. rewrite IH. reflexivity.
Qed.
Lemma lookup_insert_same k v m : mlookup k (minsert k v m) = Some v.
Proof. unfold minsert. simpl. rewrite key_eqb_refl. reflexivity. Qed.
Lemma lookup_insert_other k k' v m : k <> k' -> mlookup k' (minsert k v m) = mlookup k' m.
Proof.
  intros Hn. unfold minsert. simpl. rewrite (key_eqb_neq k' k) by congruence. apply lookup_remove_other. exact Hn.
Qed.

Lemma lookup_in_keys k m : mlookup k m <> None <-> In k (map fst m).
Proof.
  induction m as [|[k' v] r IH]; simpl; [split; [congruence|intros []]|].
  destruct (key_eqb k k') eqn:E.
  - apply key_eqb_eq in E. subst. split; [left; reflexivity|congruence].
  - rewrite IH. split; [right; assumption|]. intros [H|H]; [subst; rewrite key_eqb_refl in E; discriminate|exact H].
Qed.

Lemma remove_keys_incl k m x : In x (map fst (mremove k m)) -> In x (map fst m) /\ x <> k.
Proof.
  induction m as [|[k' v] r IH]; simpl; [intros []|].
  destruct (key_eqb k k') eqn:E.
  - intros H. destruct (IH H). split; [right; assumption|assumption].
  - simpl. intros [H|H].
    + subst. split; [left; reflexivity|]. intros ->. rewrite key_eqb_refl in E. discriminate.
    + destruct (IH H). split; [right; assumption|assumption].
Qed.
Lemma remove_nodup k m : NoDup (map fst m) -> NoDup (map fst (mremove k m)).
Proof.
  induction m as [|[k' v] r IH]; simpl; intros H; [constructor|]. inversion H; subst.
  destruct (key_eqb k k'); [apply IH; assumption|]. simpl. constructor; [|apply IH; assumption].
  intros Hin. apply remove_keys_incl in Hin as [Hin _]. contradiction.
Qed.
Lemma insert_nodup k v m : NoDup (map fst m) -> NoDup (map fst (minsert k v m)).
Proof.
  intros H. unfold minsert. simpl. constructor; [|apply remove_nodup; exact H].
  intros Hin. apply remove_keys_incl in Hin as [_ Hn]. congruence.
Qed.

Lemma remove_absent k m : mlookup k m = None -> mremove k m = m.
Proof.
  induction m as [|[k' v] r IH]; simpl; [reflexivity|]. destruct (key_eqb k k'); [discriminate|].
  intros H. rewrite IH by exact H. reflexivity.
Qed.
Lemma remove_length_present k m : NoDup (map fst m) -> mlookup k m <> None ->
  S (length (mremove k m)) = length m.
Proof.
  induction m as [|[k' v] r IH]; simpl; intros Hnd H; [congruence|]. inversion Hnd; subst.
  destruct (key_eqb k k') eqn:E.
  - apply key_eqb_eq in E. subst k'. rewrite remove_absent; [reflexivity|].
    destruct (mlookup k r) eqn:L; [|reflexivity]. exfalso. apply H2. apply lookup_in_keys. congruence.
  - simpl. rewrite IH; auto.
Qed.
(* hash-length after hash-insert: unchanged when the key was present, one more otherwise *)
Lemma insert_length k v m : NoDup (map fst m) ->
  length (minsert k v m) = match mlookup k m with Some _ => length m | None => S (length m) end.
Proof.
  intros Hnd. unfold minsert. simpl. destruct (mlookup k m) eqn:L.
  - apply remove_length_present; [exact Hnd|congruence].
  - rewrite remove_absent by exact L. reflexivity.
Qed.

(* ---- the map operations refine operations on finite maps as functions, for every sequence *)
Inductive mop := MIns (k : key) (v : Z) | MRem (k : key).
Definition mapply (m : list (key * Z)) (o : mop) : list (key * Z) :=
  match o with MIns k v => minsert k v m | MRem k => mremove k m end.
Definition fapply (f : key -> option Z) (o : mop) : key -> option Z :=
  match o with
  | MIns k v => fun x => if key_eqb x k then Some v else f x
  | MRem k => fun x => if key_eqb x k then None else f x
  end.
Lemma mapply_lookup m o y : mlookup y (mapply m o) = fapply (fun y => mlookup y m) o y.
Proof.
  destruct o as [k v|k]; cbn [mapply fapply]; destruct (key_eqb y k) eqn:Ey.
  - apply key_eqb_eq in Ey. subst. apply lookup_insert_same.
  - apply lookup_insert_other. intros ->. rewrite key_eqb_refl in Ey. discriminate.
  - apply key_eqb_eq in Ey. subst. apply lookup_remove_same.
  - apply lookup_remove_other. intros ->. rewrite key_eqb_refl in Ey. discriminate.
Qed.
Lemma fold_fapply_ext : forall l (f h : key -> option Z), (forall y, f y = h y) ->
  forall y, fold_left fapply l f y = fold_left fapply l h y.
Proof.
  induction l as [|o l IHl]; intros f h Hfh y; simpl; [apply Hfh|].
  apply IHl. intros z. destruct o; cbn [fapply]; rewrite Hfh; reflexivity.
Qed.
Lemma map_refines_lemma : forall ops m x,
  mlookup x (fold_left mapply ops m) = fold_left fapply ops (fun y => mlookup y m) x.
Proof.
  induction ops as [|o ops IH]; intros m x; simpl; [reflexivity|].
  rewrite IH. apply fold_fapply_ext. intros y. apply mapply_lookup.
Qed.
Lemma map_nodup_lemma : forall ops m, NoDup (map fst m) -> NoDup (map fst (fold_left mapply ops m)).
Proof.
  induction ops as [|o ops IH]; intros m H; simpl; [exact H|]. apply IH.
  destruct o; cbn [mapply]; [apply insert_nodup|apply remove_nodup]; exact H.
Qed.

(* ---------------------------------------------------------------- finite set laws *)
Lemma smem_in k s : smem k s = true <-> In k s.
Proof.
  unfold smem. rewrite existsb_exists. split.
  - intros [x [Hx E]]. apply key_eqb_eq in E. subst. exact Hx.
  - intros H. exists k. split; [exact H|apply key_eqb_refl].
Qed.
Lemma sinsert_spec k s x : In x (sinsert k s) <-> x = k \/ In x s.
Proof.
  unfold sinsert. destruct (smem k s) eqn:E.
  - apply smem_in in E. split; [right; assumption|]. intros [->|H]; assumption.
  - simpl. split; intros [H|H]; auto.
Qed.
Lemma sinsert_nodup k s : NoDup s -> NoDup (sinsert k s).
Proof.
  intros H. unfold sinsert. destruct (smem k s) eqn:E; [exact H|]. constructor; [|exact H].
  intros Hin. apply smem_in in Hin. congruence.
Qed.
Lemma set_refines_lemma : forall ks s x,
  In x (fold_left (fun s k => sinsert k s) ks s) <-> In x ks \/ In x s.
Proof.
  induction ks as [|k ks IH]; intros s x; simpl; [tauto|]. rewrite IH, sinsert_spec. intuition (subst; auto).
Qed.

(* ---------------------------------------------------------------- sequences with index checks *)
Lemma ref_at_spec {A} (l : list A) z :
  ref_at l (IZ z) = Some (if (0 <=? z) && (z <? zlen l) then nth_error l (Z.to_nat z) else None).
Proof.
  unfold ref_at. f_equal. destruct (z <? 0) eqn:E1; destruct (zlen l <=? z) eqn:E2;
    destruct (0 <=? z) eqn:E3; destruct (z <? zlen l) eqn:E4; simpl; try reflexivity; lia.
Qed.
Lemma ref_at_inbounds {A} (l : list A) z : 0 <= z < zlen l -> exists x, ref_at l (IZ z) = Some (Some x).
Proof.
  intros H. rewrite ref_at_spec. assert ((0 <=? z) && (z <? zlen l) = true) as -> by (apply andb_true_iff; split; lia).
  destruct (nth_error l (Z.to_nat z)) eqn:E; [eexists; reflexivity|].
  apply nth_error_None in E. unfold zlen in H. lia.
Qed.
Lemma ref_at_outofbounds {A} (l : list A) z : ~ (0 <= z < zlen l) -> ref_at l (IZ z) = Some None.
Proof.
  intros H. rewrite ref_at_spec. assert ((0 <=? z) && (z <? zlen l) = false) as -> by (apply andb_false_iff; lia).
  reflexivity.
Qed.

Lemma ref_at_u_nonneg {A} (l : list A) z : 0 <= z -> ref_at_u l (IZ z) = ref_at l (IZ z).
Proof. intros H. unfold ref_at_u. assert (z <? 0 = false) as -> by lia. reflexivity. Qed.

Lemma set_nth_length {A} (l : list A) n x : length (set_nth l n x) = length l.
Proof. revert n. induction l as [|y l IH]; intros [|n]; simpl; try reflexivity. rewrite IH. reflexivity. Qed.
Lemma set_nth_same {A} (l : list A) n x : (n < length l)%nat -> nth_error (set_nth l n x) n = Some x.
Proof. revert n. induction l as [|y l IH]; intros [|n] H; simpl in *; try lia; [reflexivity|]. apply IH. lia. Qed.
Lemma set_nth_other {A} (l : list A) n m x : n <> m -> nth_error (set_nth l n x) m = nth_error l m.
Proof.
  revert n m. induction l as [|y l IH]; intros [|n] [|m] H; simpl; try reflexivity; try congruence.
  apply IH. congruence.
Qed.

(* vector-set! then vector-ref *)
Lemma vec_set_ref_lemma l z x : 0 <= z < zlen l ->
  exists l', step (CMVec l) (OVecSet (IZ z) x) = RColl (CMVec l') /\ zlen l' = zlen l /\
             step (CMVec l') (OVecRef (IZ z)) = ROut (OInt x) /\
             forall z', 0 <= z' < zlen l -> z' <> z -> step (CMVec l') (OVecRef (IZ z')) = step (CMVec l) (OVecRef (IZ z')).
Proof.
  intros H. destruct (ref_at_inbounds l z H) as [y Hy]. exists (set_nth l (Z.to_nat z) x).
  assert (Hl : zlen (set_nth l (Z.to_nat z) x) = zlen l) by (unfold zlen; rewrite set_nth_length; reflexivity).
  cbn [step]. rewrite ref_at_u_nonneg by lia. rewrite Hy. split; [reflexivity|]. split; [exact Hl|]. split.
  - rewrite ref_at_spec, Hl. assert ((0 <=? z) && (z <? zlen l) = true) as -> by (apply andb_true_iff; split; lia).
    rewrite set_nth_same; [reflexivity|]. unfold zlen in H. lia.
  - intros z' Hz' Hne. rewrite !ref_at_spec, Hl. rewrite set_nth_other; [reflexivity|]. lia.
Qed.
Lemma vec_oob_lemma l z x : ~ (0 <= z < zlen l) ->
  step (CMVec l) (OVecRef (IZ z)) = RErr EIndex /\
  step (CMVec l) (OVecSet (IZ z) x) = (if z <? 0 then RErr EType else RErr EIndex) /\
  step (CList l) (OListRef (IZ z)) = RErr EIndex.
Proof.
  intros H. cbn [step]. unfold ref_at_u. rewrite (ref_at_outofbounds l z H).
  destruct (z <? 0); repeat split.
Qed.

(* list operations are the list functions; take / drop split the list *)
Lemma take_drop_lemma l n : 0 <= n <= zlen l ->
  exists a b, step (CList l) (OTake (IZ n)) = RColl (CList a) /\ step (CList l) (ODrop (IZ n)) = RColl (CList b) /\
              a ++ b = l /\ zlen a = n.
Proof.
  intros H. exists (firstn (Z.to_nat n) l), (skipn (Z.to_nat n) l). simpl.
  assert (n <? 0 = false) as -> by lia. assert (zlen l <? n = false) as -> by lia. simpl.
  repeat split; [apply firstn_skipn|]. unfold zlen in *. rewrite firstn_length. lia.
Qed.
Lemma list_ops_lemma l l2 x :
  step (CList l) (OCons x) = RColl (CList (x :: l)) /\
  step (CList l) (OAppend l2) = RColl (CList (l ++ l2)) /\
  step (CList l) OReverse = RColl (CList (rev l)) /\
  step (CList l) OLength = ROut (OInt (Z.of_nat (length l))) /\
  (forall z, 0 <= z < zlen l -> step (CList l) (OListRef (IZ z)) = ROut (OInt (nth (Z.to_nat z) l 0))).
Proof.
  repeat split. intros z Hz. cbn [step]. rewrite ref_at_spec.
  assert ((0 <=? z) && (z <? zlen l) = true) as -> by (apply andb_true_iff; split; lia).
  destruct (nth_error l (Z.to_nat z)) eqn:E.
  - rewrite (nth_error_nth _ _ 0 E). reflexivity.
  - apply nth_error_None in E. unfold zlen in Hz. lia.
Qed.

(* ---------------------------------------------------------------- binary map / set operations *)
Lemma mlookup_app k a b :
  mlookup k (a ++ b) = match mlookup k a with Some v => Some v | None => mlookup k b end.
Proof. induction a as [|[k' v] a IH]; simpl; [reflexivity|]. destruct (key_eqb k k'); [reflexivity|exact IH]. Qed.

Lemma mlookup_filter_absent k l r : mlookup k l = None ->
  mlookup k (filter (fun kv => match mlookup (fst kv) l with Some _ => false | None => true end) r) = mlookup k r.
Proof.
  intros Hl. induction r as [|[k' v] r IH]; simpl; [reflexivity|].
  destruct (key_eqb k k') eqn:E.
  - apply key_eqb_eq in E. subst k'. rewrite Hl. simpl. rewrite key_eqb_refl. reflexivity.
  - destruct (mlookup k' l); simpl; [exact IH|]. rewrite E. exact IH.
Qed.

(* hash-union: for every key, the left value wins, otherwise the right one *)
Lemma union_spec_lemma k l r :
  mlookup k (munion l r) = match mlookup k l with Some v => Some v | None => mlookup k r end.
Proof.
  unfold munion. rewrite mlookup_app. destruct (mlookup k l) eqn:E; [reflexivity|].
  apply mlookup_filter_absent. exact E.
Qed.

Lemma nodup_app {A} (a b : list A) : NoDup a -> NoDup b -> (forall x, In x a -> ~ In x b) -> NoDup (a ++ b).
Proof.
  induction a as [|x a IH]; intros Ha Hb Hd; simpl; [exact Hb|]. inversion Ha; subst. constructor.
  - intros Hin. apply in_app_or in Hin as [Hin|Hin]; [contradiction|]. apply (Hd x); [left; reflexivity|exact Hin].
  - apply IH; auto. intros y Hy. apply Hd. right; exact Hy.
Qed.
Lemma nodup_map_filter {A B} (f : A -> B) (p : A -> bool) l : NoDup (map f l) -> NoDup (map f (filter p l)).
Proof.
  induction l as [|x l IH]; simpl; intros H; [constructor|]. inversion H; subst.
  destruct (p x); simpl; [|apply IH; assumption]. constructor; [|apply IH; assumption].
  intros Hin. apply H2. apply in_map_iff in Hin as [y [E Hy]]. apply filter_In in Hy as [Hy _].
  rewrite <- E. apply in_map. exact Hy.
Qed.
Lemma munion_nodup l r : NoDup (map fst l) -> NoDup (map fst r) -> NoDup (map fst (munion l r)).
Proof.
  intros Hl Hr. unfold munion. rewrite map_app. apply nodup_app; [exact Hl|apply nodup_map_filter; exact Hr|].
  intros k Hk Hin. apply in_map_iff in Hin as [[k' v] [E Hf]]. simpl in E. subst k'.
  apply filter_In in Hf as [_ Hf]. simpl in Hf. apply lookup_in_keys in Hk.
  destruct (mlookup k l); [discriminate|congruence].
Qed.
Lemma map_of_nodup kvs : NoDup (map fst (map_of kvs)).
Proof.
  unfold map_of. assert (G : forall acc, NoDup (map fst acc) ->
    NoDup (map fst (fold_left (fun m kv => minsert (fst kv) (snd kv) m) kvs acc))).
  { induction kvs as [|kv kvs IH]; intros acc H; simpl; [exact H|]. apply IH. apply insert_nodup. exact H. }
  apply G. constructor.
Qed.
Lemma set_of_nodup ks : NoDup (set_of ks).
Proof.
  unfold set_of. assert (G : forall acc, NoDup acc -> NoDup (fold_left (fun s k => sinsert k s) ks acc)).
  { induction ks as [|k ks IH]; intros acc H; simpl; [exact H|]. apply IH. apply sinsert_nodup. exact H. }
  apply G. constructor.
Qed.

Lemma sunion_spec l r x : In x (sunion l r) <-> In x l \/ In x r.
Proof. unfold sunion. rewrite set_refines_lemma. tauto. Qed.
Lemma sunion_nodup l r : NoDup l -> NoDup (sunion l r).
Proof.
  unfold sunion. revert l. induction r as [|k r IH]; intros l H; simpl; [exact H|]. apply IH. apply sinsert_nodup. exact H.
Qed.
Lemma sinter_spec l r x : In x (sinter l r) <-> In x l /\ In x r.
Proof. unfold sinter. rewrite filter_In, smem_in. tauto. Qed.
Lemma smem_false k s : smem k s = false <-> ~ In k s.
Proof. rewrite <- smem_in. destruct (smem k s); split; intros H; try congruence; exfalso; apply H; reflexivity. Qed.
(* hashset-difference is the symmetric difference *)
Lemma ssymdiff_spec l r x : In x (ssymdiff l r) <-> (In x l /\ ~ In x r) \/ (In x r /\ ~ In x l).
Proof.
  unfold ssymdiff. rewrite in_app_iff, !filter_In, !negb_true_iff, !smem_false. tauto.
Qed.
Lemma ssymdiff_nodup l r : NoDup l -> NoDup r -> NoDup (ssymdiff l r).
Proof.
  intros Hl Hr. unfold ssymdiff. apply nodup_app; try (apply NoDup_filter; assumption).
  intros x Hx Hy. apply filter_In in Hx as [Hx _]. apply filter_In in Hy as [_ Hy].
  apply negb_true_iff in Hy. apply smem_false in Hy. contradiction.
Qed.
Lemma ssubset_spec l r : ssubset l r = true <-> incl l r.
Proof.
  unfold ssubset, incl. rewrite forallb_forall. split; intros H x Hx; [apply smem_in|apply smem_in]; apply H; exact Hx.
Qed.

(* every program on a map / set keeps the representation invariant (pairwise distinct keys) *)
Definition coll_ok (c : coll) : Prop :=
  match c with CMap m => NoDup (map fst m) | CSet s => NoDup s | _ => True end.
Lemma step_ok c o c' : coll_ok c -> step c o = RColl c' -> coll_ok c'.
Proof.
  intros H E. destruct c, o; cbn [step] in E; try discriminate;
    repeat match type of E with
           | context [match ?x with _ => _ end] => destruct x; try discriminate
           end;
    inversion E; subst; cbn [coll_ok]; try exact I;
    auto using insert_nodup, remove_nodup, sinsert_nodup, munion_nodup, map_of_nodup, set_of_nodup,
               sunion_nodup, ssymdiff_nodup, NoDup_nil;
    try (simpl; constructor); try (unfold sinter; apply NoDup_filter; exact H).
Qed.
Lemma run_ok_lemma : forall ops c acc outs c', coll_ok c -> run c ops acc = inl (outs, c') -> coll_ok c'.
Proof.
  induction ops as [|o ops IH]; intros c acc outs c' H E; simpl in E; [inversion E; subst; exact H|].
  destruct (step c o) eqn:S; try discriminate.
  - eapply IH; [|exact E]. eapply step_ok; eauto.
  - eapply IH; eauto.
Qed.
