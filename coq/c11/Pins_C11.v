(* Compiled on every run of the C11 check: pins each statement and prints its assumptions. *)
From Coq Require Import List Arith Bool PeanoNat ZArith.
From SV Require Import c11.Model_C11 c11.ProofsE_C11 c11.Proofs_C11 c11.Coll_C11 c11.ProofsColl_C11 c11.ProofsF_C11 c11.Properties_C11.
Import ListNotations.

Check (C11_eq_refuted :
  exists g a b, rankedb g = true /\ keys_unambb g = true /\ nan_freeb g = true /\
    eq_alg_current g a b = Some true /\ tree_eqb (unfold g a) (unfold g b) = false).
Check (C11_eq_refuted_incomplete :
  exists g a b, rankedb g = true /\ keys_unambb g = true /\ nan_freeb g = true /\
    eq_alg_current g a b = Some false /\ tree_eqb (unfold g a) (unfold g b) = true).
Check (C11_set_eq_refuted :
  exists g a b, rankedb g = true /\ keys_unambb g = true /\ nan_freeb g = true /\
    eq_alg_current g a b = Some true /\ tree_eqb (unfold g a) (unfold g b) = false).
Check (C11_eq_fixed_on_witnesses :
  eq_alg g_f6 5 8 = Some false /\ eq_alg g_f6_ivec 3 6 = Some true /\
  eq_alg g_f6_set 4 5 = Some false /\ eq_alg g_leaf 1 3 = Some true).

Check (C11_eq_alg_structural : forall g a b, wfb g = true ->
  eq_alg g a b = Some (tree_eqb (unfold g a) (unfold g b))).
Check (C11_eq_refl : forall g a, wfb g = true -> eq_alg g a a = Some true).
Check (C11_hash_respects_eq : forall g a b, wfb g = true ->
  eq_alg g a b = Some true ->
  hash_stable (S a) g a = true -> hash_stable (S b) g b = true ->
  hash_tokens g a = hash_tokens g b).
Check (C11_probe_iff_equal : forall g k p, wfb g = true ->
  hash_stable (S k) g k = true -> hash_stable (S p) g p = true ->
  obs_probe g k p = obs_equal g p k).
Check (C11_nonvacuous : wfb g_demo = true /\ wfb g_f6 = true /\ wfb g_f6_ivec = true /\ wfb g_f6_set = true).

Check (C11_map_refines : forall ops m x,
  mlookup x (fold_left mapply ops m) = fold_left fapply ops (fun y => mlookup y m) x).
Check (C11_map_laws : forall k k' v m,
  mlookup k (minsert k v m) = Some v /\
  (k <> k' -> mlookup k' (minsert k v m) = mlookup k' m) /\
  mlookup k (mremove k m) = None /\
  (k <> k' -> mlookup k' (mremove k m) = mlookup k' m) /\
  (mlookup k m <> None <-> In k (map fst m))).
Check (C11_map_length : forall k v m, NoDup (map fst m) ->
  length (minsert k v m) = match mlookup k m with Some _ => length m | None => S (length m) end).
Check (C11_set_refines : forall ks s x,
  In x (fold_left (fun s k => sinsert k s) ks s) <-> In x ks \/ In x s).
Check (C11_coll_invariant : forall ops c acc outs c', coll_ok c -> run c ops acc = inl (outs, c') -> coll_ok c').
Check (C11_vector_set_ref : forall l z x, (0 <= z < zlen l)%Z ->
  exists l', step (CMVec l) (OVecSet (IZ z) x) = RColl (CMVec l') /\ zlen l' = zlen l /\
             step (CMVec l') (OVecRef (IZ z)) = ROut (OInt x) /\
             forall z', (0 <= z' < zlen l)%Z -> z' <> z ->
               step (CMVec l') (OVecRef (IZ z')) = step (CMVec l) (OVecRef (IZ z'))).
Check (C11_index_errors : forall l z x, ~ (0 <= z < zlen l)%Z ->
  step (CMVec l) (OVecRef (IZ z)) = RErr EIndex /\
  step (CMVec l) (OVecSet (IZ z) x) = (if (z <? 0)%Z then RErr EType else RErr EIndex) /\
  step (CList l) (OListRef (IZ z)) = RErr EIndex).
Check (C11_list_ops : forall l l2 x,
  step (CList l) (OCons x) = RColl (CList (x :: l)) /\
  step (CList l) (OAppend l2) = RColl (CList (l ++ l2)) /\
  step (CList l) OReverse = RColl (CList (rev l)) /\
  step (CList l) OLength = ROut (OInt (Z.of_nat (length l))) /\
  (forall z, (0 <= z < zlen l)%Z -> step (CList l) (OListRef (IZ z)) = ROut (OInt (nth (Z.to_nat z) l 0%Z)))).
Check (C11_take_drop : forall l n, (0 <= n <= zlen l)%Z ->
  exists a b, step (CList l) (OTake (IZ n)) = RColl (CList a) /\ step (CList l) (ODrop (IZ n)) = RColl (CList b) /\
              a ++ b = l /\ zlen a = n).

Check (C11_eq_sym : forall g a b, wfb g = true -> ord_onlyb g = true -> eq_alg g a b = eq_alg g b a).
Check (C11_eq_trans : forall g a b c, wfb g = true -> ord_onlyb g = true ->
  eq_alg g a b = Some true -> eq_alg g b c = Some true -> eq_alg g a c = Some true).

Check (C11_union_spec : forall k l r,
  mlookup k (munion l r) = match mlookup k l with Some v => Some v | None => mlookup k r end).
Check (C11_union_keeps_keys_distinct : forall l r,
  NoDup (map fst l) -> NoDup (map fst r) -> NoDup (map fst (munion l r))).
Check (C11_set_ops_spec : forall l r x,
  (In x (sunion l r) <-> In x l \/ In x r) /\
  (In x (sinter l r) <-> In x l /\ In x r) /\
  (In x (ssymdiff l r) <-> (In x l /\ ~ In x r) \/ (In x r /\ ~ In x l)) /\
  (ssubset l r = true <-> incl l r)).

Print Assumptions C11_eq_refuted.
Print Assumptions C11_eq_refuted_incomplete.
Print Assumptions C11_set_eq_refuted.
Print Assumptions C11_eq_fixed_on_witnesses.
Print Assumptions C11_eq_alg_structural.
Print Assumptions C11_eq_refl.
Print Assumptions C11_hash_respects_eq.
Print Assumptions C11_probe_iff_equal.
Print Assumptions C11_nonvacuous.
Print Assumptions C11_map_refines.
Print Assumptions C11_map_laws.
Print Assumptions C11_map_length.
Print Assumptions C11_set_refines.
Print Assumptions C11_coll_invariant.
Print Assumptions C11_vector_set_ref.
Print Assumptions C11_index_errors.
Print Assumptions C11_list_ops.
Print Assumptions C11_take_drop.
Print Assumptions C11_eq_sym.
Print Assumptions C11_eq_trans.
Print Assumptions C11_union_spec.
Print Assumptions C11_union_keeps_keys_distinct.
Print Assumptions C11_set_ops_spec.
