(* C11 proofs, part D: the work-list loop - termination within the budget, soundness, completeness. *)
From Coq Require Import List Arith Bool PeanoNat ZArith Lia.
From SV Require Import c11.Model_C11.
From SV Require Import c11.ProofsA_C11 c11.ProofsB_C11 c11.ProofsC_C11.
Import ListNotations.

Lemma mem_In p l : mem p l = true <-> In p l.
Proof.
  unfold mem. rewrite existsb_exists. split.
  - intros [q [Hq He]]. unfold pair_eqb in He. apply andb_true_iff in He as [H1 H2].
    apply Nat.eqb_eq in H1, H2. destruct p, q; simpl in *; subst; auto.
  - intros H. exists p. split; auto. unfold pair_eqb. now rewrite !Nat.eqb_refl.
Qed.

Section Loop.
  Variable g : graph.
  Hypothesis Hr : ranked g.
  Hypothesis Hnan : nan_free g.
  Hypothesis Hst : keys_hash_stable g.
  Hypothesis Hun : keys_unamb g.
  Variable d' : nat.
  Variable keq : id -> id -> option bool.
  Hypothesis Hkeq : forall k k', k < d' -> keq k k' = Some (T g k k').

  Notation T := (T g).
  Notation Pb := (Pb g).
  Notation W := (W g).
  Notation sumW := (sumW g).
  Notation pushok := (pushok g).
  Notation act_ok := (act_ok g).

  Definition M (work : list (id * id)) : nat := sumW (map fst work).
  Definition bound (work : list (id * id)) : Prop := forall p, In p work -> fst p <= d'.
  Definition Inv (work vis : list (id * id)) : Prop :=
    forall q, In q vis -> (forall p, In p work -> fst p < fst q -> Pb p = true) -> Pb q = true.

  Lemma M_cons a b w : M ((a, b) :: w) = W a + M w.
  Proof. reflexivity. Qed.

  Lemma M_push ps w : M (rev ps ++ w) = sumW (map fst ps) + M w.
  Proof. unfold M. rewrite map_app, map_rev, (sumW_app g), (sumW_rev g). reflexivity. Qed.

  Lemma bound_tail a b w : bound ((a, b) :: w) -> bound w.
  Proof. intros H p Hp. apply H. right; exact Hp. Qed.

  Lemma bound_push a b ps w : pushok a b ps -> bound ((a, b) :: w) -> bound (rev ps ++ w).
  Proof.
    intros [_ [_ Hlt]] H p Hp. apply in_app_or in Hp as [Hp|Hp].
    - apply in_rev in Hp. apply Hlt in Hp. specialize (H (a, b) (or_introl eq_refl)). simpl in H.
      eapply Nat.le_trans; [apply Nat.lt_le_incl; exact Hp|exact H].
    - apply H. right; exact Hp.
  Qed.

  Lemma pushok_all a b ps : pushok a b ps -> (forall p, In p ps -> Pb p = true) -> T a b = true.
  Proof. intros [H _] Hall. rewrite H. apply forallb_forall. exact Hall. Qed.

  Lemma pushok_each a b ps : pushok a b ps -> T a b = true -> forall p, In p ps -> Pb p = true.
  Proof. intros [H _] Ht. rewrite H in Ht. rewrite forallb_forall in Ht. exact Ht. Qed.

  (* ---- maintenance of the invariant *)
  Lemma Inv_next a b w vis : T a b = true -> Inv ((a, b) :: w) vis -> Inv w vis.
  Proof.
    intros Ht HI q Hq H. apply (HI q Hq). intros p [Hp|Hp] Hlt; [subst p; exact Ht|apply H; assumption].
  Qed.

  Lemma Inv_push a b ps w vis : pushok a b ps -> Inv ((a, b) :: w) vis -> Inv (rev ps ++ w) vis.
  Proof.
    intros Hok HI q Hq H. apply (HI q Hq). intros p [Hp|Hp] Hlt.
    - subst p. simpl in Hlt. apply (pushok_all a b ps Hok). intros p' Hp'. apply H.
      + apply in_or_app. left. apply in_rev in Hp'. exact Hp'.
      + destruct Hok as [_ [_ Hk]]. apply Hk in Hp'. eapply Nat.lt_trans; eauto.
    - apply H; [apply in_or_app; right; exact Hp|exact Hlt].
  Qed.

  Lemma Inv_skip a b w vis : In (a, b) vis -> Inv ((a, b) :: w) vis -> Inv w vis.
  Proof.
    intros Hin HI q Hq H. apply (HI q Hq). intros p [Hp|Hp] Hlt; [|apply H; assumption].
    subst p. simpl in Hlt. apply (HI (a, b) Hin). intros p [Hp|Hp] Hlt'.
    - subst p. simpl in Hlt'. exfalso. apply (Nat.lt_irrefl _ Hlt').
    - apply H; [exact Hp|]. simpl in Hlt'. eapply Nat.lt_trans; eauto.
  Qed.

  Lemma Inv_mark_next a b w vis : T a b = true -> Inv ((a, b) :: w) vis -> Inv w ((a, b) :: vis).
  Proof.
    intros Ht HI q [Hq|Hq] H; [subst q; exact Ht|]. apply (Inv_next a b w vis Ht HI q Hq H).
  Qed.

  Lemma Inv_mark_push a b ps w vis :
    pushok a b ps -> Inv ((a, b) :: w) vis -> Inv (rev ps ++ w) ((a, b) :: vis).
  Proof.
    intros Hok HI q [Hq|Hq] H; [|apply (Inv_push a b ps w vis Hok HI q Hq H)].
    subst q. apply (pushok_all a b ps Hok). intros p' Hp'. apply H.
    - apply in_or_app. left. apply in_rev in Hp'. exact Hp'.
    - destruct Hok as [_ [_ Hk]]. apply Hk. exact Hp'.
  Qed.

  (* ---- termination within the step budget *)
  Lemma loop_total : forall fuel work vis, M work < fuel -> bound work ->
    exists r, eq_loop keq fuel g work vis = Some r.
  Proof.
    induction fuel as [|f IH]; intros work vis Hm Hb; [inversion Hm|].
    destruct work as [|[a b] w]; simpl; [eexists; reflexivity|].
    assert (Hab : a <= d') by (apply (Hb (a, b)); left; reflexivity).
    pose proof (expand_spec g Hr Hnan Hst Hun d' keq Hkeq a b Hab) as Hx.
    rewrite M_cons in Hm. assert (HW : 1 <= W a) by (rewrite (W_unfold g Hr); apply le_n_S, Nat.le_0_l).
    pose proof (bound_tail a b w Hb) as Hbw.
    assert (Hpush : forall ps vis', pushok a b ps -> exists r, eq_loop keq f g (rev ps ++ w) vis' = Some r).
    { intros ps vis' Hok. apply IH; [|eapply bound_push; eauto]. rewrite M_push.
      destruct Hok as [_ [Hs _]]. lia. }
    destruct (expand keq g true a b) as [| | |ps|iv body]; simpl in Hx.
    - eexists; reflexivity.
    - apply IH; [lia|exact Hbw].
    - contradiction.
    - apply Hpush. exact Hx.
    - destruct (mem (a, b) vis); [apply IH; [lia|exact Hbw]|].
      destruct body as [| | |ps|? ?]; simpl in Hx; try contradiction.
      + eexists; reflexivity.
      + apply IH; [lia|exact Hbw].
      + apply Hpush. exact Hx.
  Qed.

  (* ---- soundness: Some true only if every pair is structurally equal *)
  Lemma loop_sound : forall fuel work vis, bound work -> Inv work vis ->
    eq_loop keq fuel g work vis = Some true ->
    (forall p, In p work -> Pb p = true) /\ (forall q, In q vis -> Pb q = true).
  Proof.
    induction fuel as [|f IH]; intros work vis Hb HI He; [discriminate|].
    destruct work as [|[a b] w]; simpl in He.
    { split; [intros p []|]. intros q Hq. apply (HI q Hq). intros p []. }
    assert (Hab : a <= d') by (apply (Hb (a, b)); left; reflexivity).
    pose proof (expand_spec g Hr Hnan Hst Hun d' keq Hkeq a b Hab) as Hx.
    pose proof (bound_tail a b w Hb) as Hbw.
    assert (Hcons : forall vis', T a b = true ->
              (forall p, In p w -> Pb p = true) /\ (forall q, In q vis' -> Pb q = true) ->
              (forall p, In p ((a, b) :: w) -> Pb p = true) /\ (forall q, In q vis' -> Pb q = true)).
    { intros vis' Ht [H1 H2]. split; [|exact H2]. intros p [Hp|Hp]; [subst p; exact Ht|apply H1; exact Hp]. }
    assert (Hpush : forall ps vis', pushok a b ps ->
              (forall p, In p (rev ps ++ w) -> Pb p = true) /\ (forall q, In q vis' -> Pb q = true) ->
              (forall p, In p ((a, b) :: w) -> Pb p = true) /\ (forall q, In q vis' -> Pb q = true)).
    { intros ps vis' Hok [H1 H2]. apply Hcons.
      - apply (pushok_all a b ps Hok). intros p Hp. apply H1. apply in_or_app. left.
        apply in_rev in Hp. exact Hp.
      - split; [|exact H2]. intros p Hp. apply H1. apply in_or_app. right. exact Hp. }
    destruct (expand keq g true a b) as [| | |ps|iv body]; simpl in Hx.
    - discriminate.
    - apply Hcons; [exact Hx|]. apply (IH w vis Hbw); [eapply Inv_next; eauto|exact He].
    - contradiction.
    - apply (Hpush ps vis Hx). apply (IH _ vis); [eapply bound_push; eauto|eapply Inv_push; eauto|exact He].
    - destruct (mem (a, b) vis) eqn:Em.
      + apply mem_In in Em.
        destruct (IH w vis Hbw (Inv_skip a b w vis Em HI) He) as [H1 H2].
        apply Hcons; [apply (H2 (a, b) Em)|split; assumption].
      + destruct body as [| | |ps|? ?]; simpl in Hx; try contradiction; try discriminate.
        * destruct (IH w ((a, b) :: vis) Hbw (Inv_mark_next a b w vis Hx HI) He) as [H1 H2].
          apply Hcons; [exact Hx|]. split; [exact H1|]. intros q Hq. apply H2. right; exact Hq.
        * destruct (IH _ ((a, b) :: vis) (bound_push a b ps w Hx Hb) (Inv_mark_push a b ps w vis Hx HI) He) as [H1 H2].
          apply (Hpush ps vis Hx). split; [exact H1|]. intros q Hq. apply H2. right; exact Hq.
  Qed.

  (* ---- completeness: structurally equal pairs are never refuted *)
  Lemma loop_complete : forall fuel work vis, bound work -> (forall p, In p work -> Pb p = true) ->
    eq_loop keq fuel g work vis <> Some false.
  Proof.
    induction fuel as [|f IH]; intros work vis Hb Hall; [discriminate|].
    destruct work as [|[a b] w]; simpl; [discriminate|].
    assert (Hab : a <= d') by (apply (Hb (a, b)); left; reflexivity).
    pose proof (expand_spec g Hr Hnan Hst Hun d' keq Hkeq a b Hab) as Hx.
    pose proof (bound_tail a b w Hb) as Hbw.
    assert (Ht : T a b = true) by (apply (Hall (a, b)); left; reflexivity).
    assert (Hw : forall p, In p w -> Pb p = true) by (intros p Hp; apply Hall; right; exact Hp).
    assert (Hpush : forall ps, pushok a b ps -> forall p, In p (rev ps ++ w) -> Pb p = true).
    { intros ps Hok p Hp. apply in_app_or in Hp as [Hp|Hp]; [|apply Hw; exact Hp].
      apply in_rev in Hp. apply (pushok_each a b ps Hok Ht p Hp). }
    destruct (expand keq g true a b) as [| | |ps|iv body]; simpl in Hx.
    - congruence.
    - apply IH; assumption.
    - discriminate.
    - apply IH; [eapply bound_push; eauto|apply Hpush; exact Hx].
    - destruct (mem (a, b) vis); [apply IH; assumption|].
      destruct body as [| | |ps|? ?]; simpl in Hx; try contradiction.
      + congruence.
      + apply IH; assumption.
      + apply IH; [eapply bound_push; eauto|apply Hpush; exact Hx].
  Qed.

  (* ---- one complete run from a single pair *)
  Lemma run_correct a b : a <= d' -> eq_loop keq (S (W a)) g [(a, b)] [] = Some (T a b).
  Proof.
    intros Hab.
    assert (Hb : bound [(a, b)]) by (intros p [Hp|[]]; subst p; exact Hab).
    assert (HI : Inv [(a, b)] []) by (intros q []).
    destruct (loop_total (S (W a)) [(a, b)] []) as [r Hrr]; [|exact Hb|].
    { rewrite M_cons. unfold M. simpl. change (ProofsC_C11.sumW g []) with 0. rewrite Nat.add_0_r. apply Nat.lt_succ_diag_r. }
    rewrite Hrr. f_equal. destruct r.
    - destruct (loop_sound _ _ _ Hb HI Hrr) as [H _]. symmetry. apply (H (a, b)). left; reflexivity.
    - destruct (T a b) eqn:Ht; [|reflexivity]. exfalso.
      apply (loop_complete (S (W a)) [(a, b)] [] Hb); [|exact Hrr].
      intros p [Hp|[]]. subst p. exact Ht.
  Qed.
End Loop.

Section Top.
  Variable g : graph.
  Hypothesis Hr : ranked g.
  Hypothesis Hnan : nan_free g.
  Hypothesis Hst : keys_hash_stable g.
  Hypothesis Hun : keys_unamb g.

  Lemma eq_d_correct : forall d a b, a < d -> eq_d d g a b = Some (T g a b).
  Proof.
    induction d as [|d IH]; intros a b Ha; [inversion Ha|].
    simpl. apply (run_correct g Hr Hnan Hst Hun d (eq_d d g)).
    - intros k k' Hk. apply IH. exact Hk.
    - apply Nat.lt_succ_r. exact Ha.
  Qed.

  Lemma eq_alg_teq a b : eq_alg g a b = Some (teq (S a) g a b).
  Proof. unfold eq_alg. apply eq_d_correct. apply Nat.lt_succ_diag_r. Qed.
End Top.
