(* C11 proofs, part F: equal? is symmetric and transitive on graphs without hash maps / hash sets. *)
From Coq Require Import List Arith Bool PeanoNat ZArith Lia.
From SV Require Import c11.Model_C11 c11.ProofsA_C11 c11.ProofsB_C11 c11.ProofsC_C11 c11.ProofsD_C11 c11.ProofsE_C11.
Import ListNotations.

(* graphs without hash maps / hash sets *)
Definition ord_onlyb (g : graph) : bool :=
  forallb (fun n => match n with NMap _ | NSet _ => false | _ => true end) g.

Lemma ord_only_skel g a : ord_onlyb g = true ->
  match skel_of (get g a) with SMap _ | SSet _ => False | _ => True end.
Proof.
  intros H. destruct (Nat.lt_ge_cases a (length g)) as [Hl|Hl].
  - unfold ord_onlyb in H. rewrite forallb_forall in H. specialize (H (get g a) (nth_In _ _ Hl)).
    destruct (get g a); simpl; auto; discriminate.
  - rewrite (get_beyond g a Hl). exact I.
Qed.

Lemma nats_eqb_sym l r : nats_eqb l r = nats_eqb r l.
Proof. revert r. induction l as [|x l IH]; intros [|y r]; simpl; try reflexivity. rewrite Nat.eqb_sym, IH. reflexivity. Qed.

Lemma flo_eqb_sym x y : flo_eqb x y = flo_eqb y x.
Proof. unfold flo_eqb. rewrite (orb_comm (flo_is_nan x)), (andb_comm (flo_is_zero x)), (Z.eqb_sym x y). reflexivity. Qed.

Lemma atom_eqb_sym x y : atom_eqb x y = atom_eqb y x.
Proof.
  destruct x, y; simpl; try reflexivity; try apply Z.eqb_sym; try apply Nat.eqb_sym; try apply nats_eqb_sym.
  - rewrite (Z.eqb_sym n), (Z.eqb_sym d). reflexivity.
  - rewrite (Z.eqb_sym n), (Z.eqb_sym d). reflexivity.
  - apply flo_eqb_sym.
  - destruct b, b0; reflexivity.
Qed.

Lemma forallb_combine_swap (f h : id * id -> bool) : forall l r,
  (forall x y, In x l -> f (x, y) = h (y, x)) -> forallb f (combine l r) = forallb h (combine r l).
Proof.
  induction l as [|x l IH]; intros [|y r] H; simpl; try reflexivity.
  rewrite (H x y) by (left; reflexivity). f_equal. apply IH. intros x' y' Hx. apply H. right; exact Hx.
Qed.

Section S.
  Variable g : graph.
  Hypothesis Ho : ord_onlyb g = true.

  Lemma teq_sym : forall n a b, teq n g a b = teq n g b a.
  Proof.
    induction n as [|n IH]; intros a b; [reflexivity|]. simpl.
    pose proof (ord_only_skel g a Ho) as Ha. pose proof (ord_only_skel g b Ho) as Hb.
    destruct (skel_of (get g a)) as [x|t u cs|kvs|ks]; destruct (skel_of (get g b)) as [y|t' u' cs'|kvs'|ks'];
      try contradiction; try reflexivity.
    - apply atom_eqb_sym.
    - rewrite (Nat.eqb_sym t), (Nat.eqb_sym u), (Nat.eqb_sym (length cs)). f_equal.
      apply forallb_combine_swap. intros x y _. simpl. apply IH.
  Qed.

  Lemma flo_eqb_trans x y z : flo_eqb x y = true -> flo_eqb y z = true -> flo_eqb x z = true.
  Proof.
    unfold flo_eqb. intros H1 H2.
    destruct (flo_is_nan x) eqn:N1; destruct (flo_is_nan y) eqn:N2; destruct (flo_is_nan z) eqn:N3;
      simpl in *; try discriminate.
    destruct (flo_is_zero x) eqn:Z1; destruct (flo_is_zero y) eqn:Z2; destruct (flo_is_zero z) eqn:Z3;
      simpl in *; try reflexivity;
      try (apply Z.eqb_eq in H1; subst; congruence); try (apply Z.eqb_eq in H2; subst; congruence).
    all: apply Z.eqb_eq in H1, H2; subst; apply Z.eqb_refl.
  Qed.

  Lemma atom_eqb_trans x y z : atom_eqb x y = true -> atom_eqb y z = true -> atom_eqb x z = true.
  Proof.
    destruct x, y; simpl; intros H1; try discriminate; destruct z; simpl; intros H2; try discriminate;
      try reflexivity; try (eapply flo_eqb_trans; eassumption);
      repeat match goal with H : _ && _ = true |- _ => apply andb_true_iff in H as [? ?] end;
      repeat match goal with
             | H : (_ =? _)%Z = true |- _ => apply Z.eqb_eq in H
             | H : (_ =? _) = true |- _ => apply Nat.eqb_eq in H
             | H : nats_eqb _ _ = true |- _ => apply nats_eqb_eq in H
             | H : Bool.eqb _ _ = true |- _ => apply Bool.eqb_prop in H
             end; subst;
      rewrite ?Z.eqb_refl, ?Nat.eqb_refl, ?nats_eqb_refl, ?Bool.eqb_reflx; reflexivity.
  Qed.

  Lemma forallb_combine_trans (f : id * id -> bool) : forall l m r,
    (forall x y z, f (x, y) = true -> f (y, z) = true -> f (x, z) = true) ->
    length l = length m -> length m = length r ->
    forallb f (combine l m) = true -> forallb f (combine m r) = true -> forallb f (combine l r) = true.
  Proof.
    induction l as [|x l IH]; intros [|y m] [|z r] Ht L1 L2 H1 H2; simpl in *; try discriminate; try reflexivity.
    apply andb_true_iff in H1 as [A1 B1]. apply andb_true_iff in H2 as [A2 B2].
    rewrite (Ht x y z A1 A2). simpl. apply (IH m r Ht); [lia|lia|exact B1|exact B2].
  Qed.

  Lemma teq_trans : forall n a b c, teq n g a b = true -> teq n g b c = true -> teq n g a c = true.
  Proof.
    induction n as [|n IH]; intros a b c H1 H2; [discriminate|]. simpl in *.
    pose proof (ord_only_skel g a Ho) as Ha. pose proof (ord_only_skel g b Ho) as Hb.
    pose proof (ord_only_skel g c Ho) as Hc.
    destruct (skel_of (get g a)) as [x|t u cs|kvs|ks]; try contradiction;
      destruct (skel_of (get g b)) as [y|t' u' cs'|kvs'|ks']; try contradiction; try discriminate;
      destruct (skel_of (get g c)) as [z|t'' u'' cs''|kvs''|ks'']; try contradiction; try discriminate.
    - eapply atom_eqb_trans; eauto.
    - apply andb_true_iff in H1 as [H1 F1]. apply andb_true_iff in H1 as [H1 L1]. apply andb_true_iff in H1 as [T1 U1].
      apply andb_true_iff in H2 as [H2 F2]. apply andb_true_iff in H2 as [H2 L2]. apply andb_true_iff in H2 as [T2 U2].
      apply Nat.eqb_eq in T1, U1, L1, T2, U2, L2. subst. rewrite !Nat.eqb_refl. rewrite L1, L2, Nat.eqb_refl. simpl.
      apply (forallb_combine_trans _ cs cs' cs''); [intros x y z; simpl; apply IH|exact L1|exact L2|exact F1|exact F2].
  Qed.
End S.

Lemma eq_alg_sym_lemma g a b : wfb g = true -> ord_onlyb g = true -> eq_alg g a b = eq_alg g b a.
Proof.
  intros H Ho. destruct (wfb_sound g H) as [Hr [Hn [Hs Hu]]].
  rewrite !(eq_alg_teq g Hr Hn Hs Hu). f_equal.
  set (n := S (Nat.max a b)).
  rewrite (teq_stable g Hr (S a) n a b), (teq_stable g Hr (S b) n b a) by (unfold n; lia).
  apply teq_sym. exact Ho.
Qed.

Lemma eq_alg_trans_lemma g a b c : wfb g = true -> ord_onlyb g = true ->
  eq_alg g a b = Some true -> eq_alg g b c = Some true -> eq_alg g a c = Some true.
Proof.
  intros H Ho H1 H2. destruct (wfb_sound g H) as [Hr [Hn [Hs Hu]]].
  rewrite (eq_alg_teq g Hr Hn Hs Hu) in H1, H2 |- *.
  remember (S (Nat.max a b)) as n eqn:En.
  rewrite (teq_stable g Hr (S a) n a b) in H1 by lia.
  rewrite (teq_stable g Hr (S b) n b c) in H2 by lia.
  rewrite (teq_stable g Hr (S a) n a c) by lia.
  assert (E1 : teq n g a b = true) by congruence. assert (E2 : teq n g b c = true) by congruence. f_equal.
  exact (teq_trans g Ho n a b c E1 E2).
Qed.
