(* C11 proofs, part E: the fuelled graph relation teq is tree equality of the unfoldings; decidable
   well-formedness implies the propositional one; final statements. *)
From Coq Require Import List Arith Bool PeanoNat ZArith Lia.
From SV Require Import c11.Model_C11 c11.ProofsA_C11 c11.ProofsB_C11 c11.ProofsC_C11 c11.ProofsD_C11.
Import ListNotations.

Lemma forallb_map {A B} (f : B -> bool) (h : A -> B) l : forallb f (map h l) = forallb (fun x => f (h x)) l.
Proof. induction l; simpl; [reflexivity|]. rewrite IHl. reflexivity. Qed.
Lemma existsb_map {A B} (f : B -> bool) (h : A -> B) l : existsb f (map h l) = existsb (fun x => f (h x)) l.
Proof. induction l; simpl; [reflexivity|]. rewrite IHl. reflexivity. Qed.

Lemma list_eqb_map {A B} (f : B -> B -> bool) (U : A -> B) l r :
  list_eqb f (map U l) (map U r) =
  (length l =? length r) && forallb (fun p => f (U (fst p)) (U (snd p))) (combine l r).
Proof.
  revert r. induction l as [|x l IH]; intros [|y r]; simpl; try reflexivity.
  rewrite IH. destruct (f (U x) (U y)); simpl; [reflexivity|]. rewrite andb_false_r. reflexivity.
Qed.

Section E.
  Variable g : graph.
  Hypothesis Hr : ranked g.

  Lemma unfold_stable : forall n m a, a < n -> a < m -> unfold_n n g a = unfold_n m g a.
  Proof.
    induction n as [|n IH]; intros m a Hn Hm; [lia|]. destruct m as [|m]; [lia|].
    simpl. pose proof (kid_lt g Hr a) as Hk.
    destruct (skel_of (get g a)) as [x|t u cs|kvs|ks]; simpl in Hk; try reflexivity.
    - f_equal. apply map_ext_in. intros c Hc. apply Hk in Hc. apply IH; lia.
    - f_equal. apply map_ext_in. intros [k v] Hkv. simpl.
      pose proof (Hk _ (in_map_kids_l _ _ _ Hkv)). pose proof (Hk _ (in_map_kids_r _ _ _ Hkv)).
      rewrite (IH m k), (IH m v) by lia. reflexivity.
    - f_equal. apply map_ext_in. intros c Hc. apply Hk in Hc. apply IH; lia.
  Qed.

  Lemma teq_tree : forall n a b, a < n -> teq n g a b = tree_eqb (unfold_n n g a) (unfold_n n g b).
  Proof.
    induction n as [|n IH]; intros a b Ha; [lia|].
    simpl. pose proof (kid_lt g Hr a) as Hk.
    destruct (skel_of (get g a)) as [x|t u cs|kvs|ks]; destruct (skel_of (get g b)) as [y|t' u' cs'|kvs'|ks'];
      simpl in *; try reflexivity.
    - rewrite list_eqb_map. rewrite <- andb_assoc. f_equal. f_equal.
      apply forallb_ext_in. intros p Hp. apply in_combine_both in Hp as [Hp _]. apply Hk in Hp. apply IH. lia.
    - rewrite !map_length. f_equal. rewrite forallb_map. apply forallb_ext_in. intros [k v] Hkv.
      rewrite existsb_map. apply existsb_ext_in. intros kv' _. simpl.
      pose proof (Hk _ (in_map_kids_l _ _ _ Hkv)). pose proof (Hk _ (in_map_kids_r _ _ _ Hkv)).
      rewrite !IH by lia. reflexivity.
    - rewrite !map_length. f_equal. rewrite forallb_map. apply forallb_ext_in. intros k Hkk.
      rewrite existsb_map. apply existsb_ext_in. intros k' _. apply Hk in Hkk. apply IH. lia.
  Qed.

  Lemma T_tree a b : T g a b = tree_eqb (unfold g a) (unfold g b).
  Proof.
    set (n := S (Nat.max a b)).
    rewrite <- (teq_T g Hr n a b) by (unfold n; lia).
    rewrite teq_tree by (unfold n; lia).
    unfold unfold. rewrite (unfold_stable n (S a) a), (unfold_stable n (S b) b) by (unfold n; lia).
    reflexivity.
  Qed.
End E.

(* ---------------------------------------------------------------- decidable well-formedness *)
Lemma get_beyond g a : length g <= a -> get g a = NAtom AVoid.
Proof. intros H. unfold get. apply nth_overflow. exact H. Qed.

Lemma rankedb_sound g : rankedb g = true -> ranked g.
Proof.
  unfold rankedb, ranked. intros H a c Hc. destruct (Nat.lt_ge_cases a (length g)) as [Hl|Hl].
  - rewrite forallb_forall in H. specialize (H a). rewrite in_seq in H. specialize (H (conj (Nat.le_0_l _) Hl)).
    rewrite forallb_forall in H. apply Nat.ltb_lt. apply H. exact Hc.
  - rewrite (get_beyond g a Hl) in Hc. destruct Hc.
Qed.

Lemma nan_freeb_sound g : nan_freeb g = true -> nan_free g.
Proof.
  unfold nan_freeb, nan_free. intros H a x Ha. destruct (Nat.lt_ge_cases a (length g)) as [Hl|Hl].
  - rewrite forallb_forall in H. specialize (H (get g a)). rewrite Ha in H.
    apply negb_true_iff. apply H. rewrite <- Ha. unfold get. apply nth_In. exact Hl.
  - rewrite (get_beyond g a Hl) in Ha. inversion Ha. reflexivity.
Qed.

Lemma keys_hash_stableb_sound g : keys_hash_stableb g = true -> keys_hash_stable g.
Proof.
  unfold keys_hash_stableb, keys_hash_stable. intros H a. destruct (Nat.lt_ge_cases a (length g)) as [Hl|Hl].
  - rewrite forallb_forall in H. apply H. apply in_seq. lia.
  - unfold keys_hash_stable_node. rewrite (get_beyond g a Hl). reflexivity.
Qed.

Lemma keys_unambb_sound g : keys_unambb g = true -> keys_unamb g.
Proof.
  unfold keys_unambb, keys_unamb. intros H a b.
  destruct (Nat.lt_ge_cases a (length g)) as [Hl|Hl].
  - destruct (Nat.lt_ge_cases b (length g)) as [Hl'|Hl'].
    + rewrite forallb_forall in H. specialize (H a). rewrite in_seq in H. specialize (H (conj (Nat.le_0_l _) Hl)).
      rewrite forallb_forall in H. apply H. apply in_seq. lia.
    + unfold unamb_pair. rewrite (get_beyond g b Hl'). simpl.
      apply forallb_forall. intros k _. reflexivity.
  - unfold unamb_pair. rewrite (get_beyond g a Hl). reflexivity.
Qed.

Lemma wfb_sound g : wfb g = true -> ranked g /\ nan_free g /\ keys_hash_stable g /\ keys_unamb g.
Proof.
  unfold wfb. intros H. apply andb_true_iff in H as [H H4]. apply andb_true_iff in H as [H H3].
  apply andb_true_iff in H as [H1 H2].
  auto using rankedb_sound, nan_freeb_sound, keys_hash_stableb_sound, keys_unambb_sound.
Qed.

(* ---------------------------------------------------------------- final statements *)
Lemma eq_alg_structural_lemma g a b : wfb g = true ->
  eq_alg g a b = Some (tree_eqb (unfold g a) (unfold g b)).
Proof.
  intros H. destruct (wfb_sound g H) as [Hr [Hn [Hs Hu]]].
  rewrite (eq_alg_teq g Hr Hn Hs Hu). f_equal. apply (T_tree g Hr).
Qed.

Lemma eq_alg_refl_lemma g a : wfb g = true -> eq_alg g a a = Some true.
Proof.
  intros H. destruct (wfb_sound g H) as [Hr [Hn [Hs Hu]]].
  rewrite (eq_alg_teq g Hr Hn Hs Hu). f_equal. apply (T_refl g Hr Hn).
Qed.

Lemma hash_respects_eq_lemma g a b : wfb g = true ->
  eq_alg g a b = Some true ->
  hash_stable (S a) g a = true -> hash_stable (S b) g b = true ->
  hash_tokens g a = hash_tokens g b.
Proof.
  intros H He Ha Hb. destruct (wfb_sound g H) as [Hr [Hn [Hs Hu]]].
  rewrite (eq_alg_teq g Hr Hn Hs Hu) in He. inversion He as [He'].
  apply (hash_respects_T g Hr a b He' Ha Hb).
Qed.

(* equal? keys are interchangeable: a probe finds exactly the stored key it is equal? to *)
Lemma probe_lemma g k p : wfb g = true ->
  hash_stable (S k) g k = true -> hash_stable (S p) g p = true ->
  obs_probe g k p = obs_equal g p k.
Proof.
  intros H Hk Hp. destruct (wfb_sound g H) as [Hr [Hn [Hs Hu]]].
  unfold obs_probe, obs_equal.
  rewrite (lookup_find g Hr (S p) (eq_d (S p) g)).
  - simpl. rewrite (eq_alg_teq g Hr Hn Hs Hu). fold (T g p k). destruct (T g p k); reflexivity.
  - intros x x' Hx. apply (eq_d_correct g Hr Hn Hs Hu). exact Hx.
  - apply Nat.lt_succ_diag_r.
  - exact Hp.
  - intros kv' [Hkv|[]]. subst kv'. exact Hk.
Qed.
