(* C11 — property theorems only (each closed by [exact lemma]); statements pinned in Pins_C11.v. *)
From Coq Require Import List Arith Bool PeanoNat ZArith.
From SV Require Import c11.Model_C11 c11.ProofsE_C11 c11.Proofs_C11 c11.Coll_C11 c11.ProofsColl_C11 c11.ProofsF_C11.
Import ListNotations.

(* The algorithm as found in /repo (visited set keyed on single identities) is unsound ... *)
Theorem C11_eq_refuted :
  exists g a b, rankedb g = true /\ keys_unambb g = true /\ nan_freeb g = true /\
    eq_alg_current g a b = Some true /\ tree_eqb (unfold g a) (unfold g b) = false.
Proof. exact eq_refuted_lemma. Qed.

(* ... and incomplete (immutable-vector revisit answers false) *)
Theorem C11_eq_refuted_incomplete :
  exists g a b, rankedb g = true /\ keys_unambb g = true /\ nan_freeb g = true /\
    eq_alg_current g a b = Some false /\ tree_eqb (unfold g a) (unfold g b) = true.
Proof. exact eq_refuted_incomplete_lemma. Qed.

Theorem C11_set_eq_refuted :
  exists g a b, rankedb g = true /\ keys_unambb g = true /\ nan_freeb g = true /\
    eq_alg_current g a b = Some true /\ tree_eqb (unfold g a) (unfold g b) = false.
Proof. exact set_eq_refuted_lemma. Qed.

Theorem C11_eq_fixed_on_witnesses :
  eq_alg g_f6 5 8 = Some false /\ eq_alg g_f6_ivec 3 6 = Some true /\
  eq_alg g_f6_set 4 5 = Some false /\ eq_alg g_leaf 1 3 = Some true.
Proof. exact eq_fixed_on_witnesses. Qed.

(* ---- the repaired algorithm (pair-keyed visited set), on every acyclic graph with arbitrary sharing:
        it terminates within its budget (never None) and decides structural equality of the unfoldings -
        soundness AND completeness, whatever the sharing. *)
Theorem C11_eq_alg_structural : forall g a b, wfb g = true ->
  eq_alg g a b = Some (tree_eqb (unfold g a) (unfold g b)).
Proof. exact eq_alg_structural_lemma. Qed.

Theorem C11_eq_refl : forall g a, wfb g = true -> eq_alg g a a = Some true.
Proof. exact eq_alg_refl_lemma. Qed.

(* equal? hash-stable values feed identical token streams to the hasher (any hasher) *)
Theorem C11_hash_respects_eq : forall g a b, wfb g = true ->
  eq_alg g a b = Some true ->
  hash_stable (S a) g a = true -> hash_stable (S b) g b = true ->
  hash_tokens g a = hash_tokens g b.
Proof. exact hash_respects_eq_lemma. Qed.

(* interchangeable as keys: probing a map / set that stores k with p succeeds exactly when p equal? k *)
Theorem C11_probe_iff_equal : forall g k p, wfb g = true ->
  hash_stable (S k) g k = true -> hash_stable (S p) g p = true ->
  obs_probe g k p = obs_equal g p k.
Proof. exact probe_lemma. Qed.

Example C11_nonvacuous : wfb g_demo = true /\ wfb g_f6 = true /\ wfb g_f6_ivec = true /\ wfb g_f6_set = true.
Proof. exact demo_wf. Qed.

(* ------------------------------------------------------------------ collections *)
(* hash maps: every sequence of hash-insert / hash-remove on the association-list model is the same
   sequence on the finite map seen as a function key -> option value *)
Theorem C11_map_refines : forall ops m x,
  mlookup x (fold_left mapply ops m) = fold_left fapply ops (fun y => mlookup y m) x.
Proof. exact map_refines_lemma. Qed.

Theorem C11_map_laws : forall k k' v m,
  mlookup k (minsert k v m) = Some v /\
  (k <> k' -> mlookup k' (minsert k v m) = mlookup k' m) /\
  mlookup k (mremove k m) = None /\
  (k <> k' -> mlookup k' (mremove k m) = mlookup k' m) /\
  (mlookup k m <> None <-> In k (map fst m)).
Proof.
  intros. repeat split; auto using lookup_insert_same, lookup_insert_other, lookup_remove_same, lookup_remove_other;
    apply lookup_in_keys.
Qed.

Theorem C11_map_length : forall k v m, NoDup (map fst m) ->
  length (minsert k v m) = match mlookup k m with Some _ => length m | None => S (length m) end.
Proof. exact insert_length. Qed.

(* hash sets: membership after any sequence of insertions *)
Theorem C11_set_refines : forall ks s x,
  In x (fold_left (fun s k => sinsert k s) ks s) <-> In x ks \/ In x s.
Proof. exact set_refines_lemma. Qed.

(* every program keeps keys pairwise distinct *)
Theorem C11_coll_invariant : forall ops c acc outs c', coll_ok c -> run c ops acc = inl (outs, c') -> coll_ok c'.
Proof. exact run_ok_lemma. Qed.

(* vectors: set-then-ref, other indices untouched, length kept; out of bounds is an Index error *)
Theorem C11_vector_set_ref : forall l z x, (0 <= z < zlen l)%Z ->
  exists l', step (CMVec l) (OVecSet (IZ z) x) = RColl (CMVec l') /\ zlen l' = zlen l /\
             step (CMVec l') (OVecRef (IZ z)) = ROut (OInt x) /\
             forall z', (0 <= z' < zlen l)%Z -> z' <> z ->
               step (CMVec l') (OVecRef (IZ z')) = step (CMVec l) (OVecRef (IZ z')).
Proof. exact vec_set_ref_lemma. Qed.

Theorem C11_index_errors : forall l z x, ~ (0 <= z < zlen l)%Z ->
  step (CMVec l) (OVecRef (IZ z)) = RErr EIndex /\
  step (CMVec l) (OVecSet (IZ z) x) = (if (z <? 0)%Z then RErr EType else RErr EIndex) /\
  step (CList l) (OListRef (IZ z)) = RErr EIndex.
Proof. exact vec_oob_lemma. Qed.

(* lists: the operations are the sequence operations; take and drop split the list *)
Theorem C11_list_ops : forall l l2 x,
  step (CList l) (OCons x) = RColl (CList (x :: l)) /\
  step (CList l) (OAppend l2) = RColl (CList (l ++ l2)) /\
  step (CList l) OReverse = RColl (CList (rev l)) /\
  step (CList l) OLength = ROut (OInt (Z.of_nat (length l))) /\
  (forall z, (0 <= z < zlen l)%Z -> step (CList l) (OListRef (IZ z)) = ROut (OInt (nth (Z.to_nat z) l 0%Z))).
Proof. exact list_ops_lemma. Qed.

Theorem C11_take_drop : forall l n, (0 <= n <= zlen l)%Z ->
  exists a b, step (CList l) (OTake (IZ n)) = RColl (CList a) /\ step (CList l) (ODrop (IZ n)) = RColl (CList b) /\
              a ++ b = l /\ zlen a = n.
Proof. exact take_drop_lemma. Qed.

(* ------------------------------------------------------------------ equivalence relation *)
(* reflexivity is C11_eq_refl (all kinds).  Symmetry and transitivity are proved for graphs without
   hash maps / hash sets (for finite maps they need a counting argument that is not formalised). *)
Theorem C11_eq_sym : forall g a b, wfb g = true -> ord_onlyb g = true -> eq_alg g a b = eq_alg g b a.
Proof. exact eq_alg_sym_lemma. Qed.

Theorem C11_eq_trans : forall g a b c, wfb g = true -> ord_onlyb g = true ->
  eq_alg g a b = Some true -> eq_alg g b c = Some true -> eq_alg g a c = Some true.
Proof. exact eq_alg_trans_lemma. Qed.

(* ------------------------------------------------------------------ binary map / set operations *)
(* hash-union: for every key the LEFT value wins, otherwise the right one (hashmaps.rs doc) *)
Theorem C11_union_spec : forall k l r,
  mlookup k (munion l r) = match mlookup k l with Some v => Some v | None => mlookup k r end.
Proof. exact union_spec_lemma. Qed.

Theorem C11_union_keeps_keys_distinct : forall l r,
  NoDup (map fst l) -> NoDup (map fst r) -> NoDup (map fst (munion l r)).
Proof. exact munion_nodup. Qed.

(* hashset-union / -intersection / -difference (symmetric, as documented) / -subset? *)
Theorem C11_set_ops_spec : forall l r x,
  (In x (sunion l r) <-> In x l \/ In x r) /\
  (In x (sinter l r) <-> In x l /\ In x r) /\
  (In x (ssymdiff l r) <-> (In x l /\ ~ In x r) \/ (In x r /\ ~ In x l)) /\
  (ssubset l r = true <-> incl l r).
Proof.
  intros l r x. split; [apply sunion_spec|]. split; [apply sinter_spec|]. split; [apply ssymdiff_spec|apply ssubset_spec].
Qed.
