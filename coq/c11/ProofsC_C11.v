(* C11 proofs, part C: key lookup, the map / set arms, one iteration of the loop (expand_spec). *)
From Coq Require Import List Arith Bool PeanoNat ZArith Lia.
From SV Require Import c11.Model_C11.
From SV Require Import c11.ProofsA_C11 c11.ProofsB_C11.
Import ListNotations.

Lemma map_fst_combine {A B} (l : list A) (r : list B) : length l = length r -> map fst (combine l r) = l.
Proof.
  revert r. induction l as [|x l IH]; intros [|y r] H; simpl in *; try discriminate; [reflexivity|].
  f_equal. apply IH. lia.
Qed.

Lemma find_map_dup (p : id -> bool) l :
  match find (fun kv : id * id => p (fst kv)) (map (fun x => (x, x)) l) with
  | Some _ => existsb p l = true
  | None => existsb p l = false
  end.
Proof.
  induction l as [|x l IH]; simpl; [reflexivity|]. destruct (p x); simpl; [reflexivity|exact IH].
Qed.

Lemma unamb_unique (p : id -> bool) (kvs : list (id * id)) kv :
  unamb p (map fst kvs) = true -> find (fun kv => p (fst kv)) kvs = Some kv ->
  forall kv', In kv' kvs -> p (fst kv') = true -> kv' = kv.
Proof.
  induction kvs as [|[x y] rest IH]; simpl; intros Hu Hf kv' Hin Hp; [contradiction|].
  destruct (p x) eqn:Px.
  - inversion Hf; subst. destruct Hin as [Hin|Hin]; [symmetry; exact Hin|].
    rewrite forallb_forall in Hu. specialize (Hu (fst kv') (in_map fst _ _ Hin)).
    rewrite Hp in Hu. discriminate.
  - destruct Hin as [Hin|Hin]; [subst kv'; simpl in Hp; congruence|]. eapply IH; eauto.
Qed.

Lemma forallb_filter_skip {A} (P f : A -> bool) l :
  (forall x, In x l -> f x = false -> P x = true) -> forallb P (filter f l) = forallb P l.
Proof.
  induction l as [|x l IH]; intros H; simpl; [reflexivity|].
  destruct (f x) eqn:Fx; simpl.
  - f_equal. apply IH. intros y Hy. apply H. right; exact Hy.
  - rewrite (H x (or_introl eq_refl) Fx). simpl. apply IH. intros y Hy. apply H. right; exact Hy.
Qed.

Lemma fold_sum_ext0 (f h : id -> nat) l : (forall c, In c l -> f c = h c) ->
  fold_right (fun c acc => f c + acc) 0 l = fold_right (fun c acc => h c + acc) 0 l.
Proof.
  induction l as [|c l IH]; intros H; [reflexivity|].
  change (f c + fold_right (fun c acc => f c + acc) 0 l = h c + fold_right (fun c acc => h c + acc) 0 l).
  rewrite (H c (or_introl eq_refl)). f_equal. apply IH. intros c' Hc'. apply H. right; exact Hc'.
Qed.

Section L.
  Variable g : graph.
  Hypothesis Hr : ranked g.
  Hypothesis Hnan : nan_free g.
  Hypothesis Hst : keys_hash_stable g.
  Hypothesis Hun : keys_unamb g.

  Notation T := (T g).
  Notation Pb := (Pb g).

  (* ---------------------------------------------------------------- weights *)
  Lemma weight_stable : forall n m a, a < n -> a < m -> weight n g a = weight m g a.
  Proof.
    induction n as [|n IH]; intros m a Hn Hm; [lia|]. destruct m as [|m]; [lia|].
    change (S (fold_right (fun c acc => weight n g c + acc) 0 (children (get g a))) =
            S (fold_right (fun c acc => weight m g c + acc) 0 (children (get g a)))).
    f_equal. apply fold_sum_ext0. intros c Hc. apply (child_lt g Hr) in Hc. apply IH; lia.
  Qed.

  Definition W (a : id) : nat := weight (S a) g a.
  Definition sumW (l : list id) : nat := fold_right (fun c acc => W c + acc) 0 l.

  Lemma fold_sum_ext (f h : id -> nat) l : (forall c, In c l -> f c = h c) ->
    fold_right (fun c acc => f c + acc) 0 l = fold_right (fun c acc => h c + acc) 0 l.
  Proof.
    induction l as [|c l IH]; intros H; [reflexivity|].
    change (f c + fold_right (fun c acc => f c + acc) 0 l = h c + fold_right (fun c acc => h c + acc) 0 l).
    rewrite (H c (or_introl eq_refl)). f_equal. apply IH. intros c' Hc'. apply H. right; exact Hc'.
  Qed.

  Lemma W_unfold a : W a = S (sumW (children (get g a))).
  Proof.
    unfold W at 1.
    change (weight (S a) g a) with (S (fold_right (fun c acc => weight a g c + acc) 0 (children (get g a)))).
    f_equal. unfold sumW. apply fold_sum_ext. intros c Hc. unfold W.
    apply (child_lt g Hr) in Hc. apply weight_stable; lia.
  Qed.

  Lemma sumW_cons c l : sumW (c :: l) = W c + sumW l.
  Proof. reflexivity. Qed.
  Lemma sumW_app l r : sumW (l ++ r) = sumW l + sumW r.
  Proof. induction l as [|c l IH]; [reflexivity|]. rewrite <- app_comm_cons, !sumW_cons, IH. lia. Qed.
  Lemma sumW_rev l : sumW (rev l) = sumW l.
  Proof.
    induction l as [|c l IH]; [reflexivity|]. change (rev (c :: l)) with (rev l ++ [c]).
    rewrite sumW_app, IH, !sumW_cons. change (sumW []) with 0. lia.
  Qed.
  Lemma sumW_filter (f : id * id -> bool) ps : sumW (map fst (filter f ps)) <= sumW (map fst ps).
  Proof.
    induction ps as [|p ps IH]; [apply le_n|]. change (filter f (p :: ps)) with (if f p then p :: filter f ps else filter f ps).
    change (map fst (p :: ps)) with (fst p :: map fst ps). rewrite sumW_cons.
    destruct (f p); [change (map fst (p :: filter f ps)) with (fst p :: map fst (filter f ps)); rewrite sumW_cons|]; lia.
  Qed.
  Lemma sumW_map_snd (kvs : list (id * id)) :
    sumW (map snd kvs) <= sumW (flat_map (fun kv => [fst kv; snd kv]) kvs).
  Proof.
    induction kvs as [|[k v] kvs IH]; [apply le_n|].
    change (sumW (v :: map snd kvs) <= sumW (k :: v :: flat_map (fun kv => [fst kv; snd kv]) kvs)).
    rewrite !sumW_cons. lia.
  Qed.

  (* ---------------------------------------------------------------- skeleton inversion *)
  Lemma skel_map a kvs : skel_of (get g a) = SMap kvs -> get g a = NMap kvs.
  Proof. destruct (get g a); simpl; intros H; try discriminate. inversion H. reflexivity. Qed.
  Lemma skel_set a ks : skel_of (get g a) = SSet ks -> get g a = NSet ks.
  Proof. destruct (get g a); simpl; intros H; try discriminate. inversion H. reflexivity. Qed.

  Lemma T_mismatch a b :
    match skel_of (get g a), skel_of (get g b) with
    | SAtom _, SAtom _ | SOrd _ _ _, SOrd _ _ _ | SMap _, SMap _ | SSet _, SSet _ => True
    | _, _ => T a b = false
    end.
  Proof.
    unfold ProofsA_C11.T. simpl. destruct (skel_of (get g a)), (skel_of (get g b)); auto.
  Qed.

  (* ---------------------------------------------------------------- key lookup *)
  Variable d' : nat.
  Variable keq : id -> id -> option bool.
  Hypothesis Hkeq : forall k k', k < d' -> keq k k' = Some (T k k').

  Lemma lookup_find k kvs' :
    k < d' -> hash_stable (S k) g k = true ->
    (forall kv', In kv' kvs' -> hash_stable (S (fst kv')) g (fst kv') = true) ->
    lookup keq g k kvs' = Some (option_map snd (find (fun kv' => T k (fst kv')) kvs')).
  Proof.
    intros Hk Hs. induction kvs' as [|[k' v'] rest IH]; intros Hs'; simpl; [reflexivity|].
    assert (IH' := IH (fun kv H => Hs' kv (or_intror H))). clear IH.
    destruct (toks_eqb (hash_tokens g k) (hash_tokens g k')) eqn:Et.
    - rewrite (Hkeq k k' Hk). destruct (T k k'); [reflexivity|exact IH'].
    - destruct (T k k') eqn:Ek; [|exact IH'].
      rewrite (hash_respects_T g Hr k k' Ek Hs (Hs' (k', v') (or_introl eq_refl))) in Et.
      rewrite toks_eqb_refl in Et. discriminate.
  Qed.

  (* the pairs the map arm pushes, as a pure function *)
  Fixpoint mpairs (kvs kvs' : list (id * id)) : option (list (id * id)) :=
    match kvs with
    | [] => Some []
    | (k, v) :: rest =>
        match find (fun kv' => T k (fst kv')) kvs' with
        | None => None
        | Some (k', v') => option_map (cons (v, v')) (mpairs rest kvs')
        end
    end.

  Lemma map_body_eq kvs kvs' : forall acc,
    (forall kv, In kv kvs -> fst kv < d' /\ hash_stable (S (fst kv)) g (fst kv) = true) ->
    (forall kv', In kv' kvs' -> hash_stable (S (fst kv')) g (fst kv') = true) ->
    map_body keq g kvs kvs' acc =
    match mpairs kvs kvs' with None => AFalse | Some ps => APush (rev acc ++ ps) end.
  Proof.
    induction kvs as [|[k v] rest IH]; intros acc Hk Hs'; simpl.
    - rewrite app_nil_r. reflexivity.
    - destruct (Hk (k, v) (or_introl eq_refl)) as [Hkd Hks]. simpl in Hkd, Hks.
      rewrite (lookup_find k kvs' Hkd Hks Hs').
      destruct (find (fun kv' => T k (fst kv')) kvs') as [[k' v']|]; simpl; [|reflexivity].
      rewrite IH; [|intros kv H; apply Hk; right; exact H|exact Hs'].
      destruct (mpairs rest kvs'); simpl; [|reflexivity]. rewrite <- app_assoc. reflexivity.
  Qed.

  Lemma mpairs_spec kvs kvs' :
    (forall kv, In kv kvs -> unamb (fun k' => T (fst kv) k') (map fst kvs') = true) ->
    match mpairs kvs kvs' with
    | None => forallb (fun kv => existsb (fun kv' => T (fst kv) (fst kv') && T (snd kv) (snd kv')) kvs') kvs = false
    | Some ps =>
        forallb (fun kv => existsb (fun kv' => T (fst kv) (fst kv') && T (snd kv) (snd kv')) kvs') kvs = forallb Pb ps
        /\ map fst ps = map snd kvs
    end.
  Proof.
    induction kvs as [|[k v] rest IH]; intros Hu; simpl; [split; reflexivity|].
    assert (IH' := IH (fun kv H => Hu kv (or_intror H))). clear IH.
    specialize (Hu (k, v) (or_introl eq_refl)). simpl in Hu.
    destruct (find (fun kv' => T k (fst kv')) kvs') as [[k' v']|] eqn:Ef.
    - assert (Hex : existsb (fun kv' => T k (fst kv') && T v (snd kv')) kvs' = T v v').
      { destruct (existsb (fun kv' => T k (fst kv') && T v (snd kv')) kvs') eqn:Ex.
        - apply existsb_exists in Ex as [kv'' [Hin Hb]]. apply andb_true_iff in Hb as [Hb1 Hb2].
          rewrite (unamb_unique _ _ _ Hu Ef kv'' Hin Hb1) in Hb2. simpl in Hb2. symmetry; exact Hb2.
        - destruct (T v v') eqn:Ev; [|reflexivity].
          apply find_some in Ef as [Hin Hk]. simpl in Hk.
          assert (existsb (fun kv' => T k (fst kv') && T v (snd kv')) kvs' = true).
          { apply existsb_exists. exists (k', v'). split; [exact Hin|]. simpl. rewrite Hk, Ev. reflexivity. }
          congruence. }
      rewrite Hex. destruct (mpairs rest kvs') as [ps|]; simpl in *.
      + destruct IH' as [I1 I2]. rewrite I1, I2. split; reflexivity.
      + rewrite IH'. apply andb_false_r.
    - assert (existsb (fun kv' => T k (fst kv') && T v (snd kv')) kvs' = false) as ->; [|reflexivity].
      destruct (existsb (fun kv' => T k (fst kv') && T v (snd kv')) kvs') eqn:Ex; [|reflexivity].
      apply existsb_exists in Ex as [kv'' [Hin Hb]]. apply andb_true_iff in Hb as [Hb1 _].
      pose proof (find_none _ _ Ef kv'' Hin) as Hn. simpl in Hn. congruence.
  Qed.

  Lemma set_body_eq ks ks' :
    (forall k, In k ks -> k < d' /\ hash_stable (S k) g k = true) ->
    (forall k', In k' ks' -> hash_stable (S k') g k' = true) ->
    set_body keq g ks ks' =
    if forallb (fun k => existsb (fun k' => T k k') ks') ks then ANext else AFalse.
  Proof.
    induction ks as [|k rest IH]; intros Hk Hs'; simpl; [reflexivity|].
    destruct (Hk k (or_introl eq_refl)) as [Hkd Hks].
    rewrite (lookup_find k _ Hkd Hks).
    2:{ intros kv' Hin. apply in_map_iff in Hin as [x [<- Hx]]. simpl. apply Hs'. exact Hx. }
    pose proof (find_map_dup (fun x => T k x) ks') as Hf. cbv beta in Hf.
    match goal with |- context [find ?f ?l] => change (find (fun kv : id * id => T k (fst kv)) (map (fun x : id => (x, x)) ks')) with (find f l) in Hf; destruct (find f l) end;
      cbv beta iota in Hf; simpl; rewrite Hf; simpl.
    - apply IH; [intros k0 H; apply Hk; right; exact H|exact Hs'].
    - reflexivity.
  Qed.

  (* ---------------------------------------------------------------- one iteration *)
  Definition pushok (a b : id) (ps : list (id * id)) : Prop :=
    T a b = forallb Pb ps /\ sumW (map fst ps) < W a /\ (forall p, In p ps -> fst p < a).

  Definition act_ok (a b : id) (act : action) : Prop :=
    match act with
    | AFalse => T a b = false
    | ANext => T a b = true
    | AFuel => False
    | APush ps => pushok a b ps
    | AVisit _ _ => False
    end.

  Lemma skipped_T p : list_child_skipped g p = true -> Pb p = true.
  Proof.
    unfold list_child_skipped. intros H. apply andb_true_iff in H as [_ H]. unfold ProofsA_C11.Pb.
    apply orb_true_iff in H as [H|H].
    - apply andb_true_iff in H as [H1 H2].
      assert (E : forall x, is_empty_list (get g x) = true -> skel_of (get g x) = SOrd 0 0 []).
      { intros x. destruct (get g x) as [| cs | | | | | | |]; simpl; try discriminate. destruct cs; [reflexivity|discriminate]. }
      rewrite (T_ord g Hr _ _ _ _ _ _ _ _ (E _ H1) (E _ H2)). reflexivity.
    - apply Nat.eqb_eq in H. rewrite H. apply T_refl; assumption.
  Qed.

  Lemma hs_key_map a kvs : get g a = NMap kvs -> forall kv, In kv kvs ->
    fst kv < a /\ hash_stable (S (fst kv)) g (fst kv) = true.
  Proof.
    intros Ga kv Hin. assert (Hlt : fst kv < a).
    { apply (child_lt g Hr). rewrite Ga. simpl. destruct kv. eapply in_map_kids_l; eauto. }
    split; [exact Hlt|]. pose proof (Hst a) as H. unfold keys_hash_stable_node in H. rewrite Ga in H.
    rewrite forallb_forall in H. rewrite (hash_stable_stable g Hr (S (fst kv)) (S a)) by lia. apply H. exact Hin.
  Qed.
  Lemma hs_key_set a ks : get g a = NSet ks -> forall k, In k ks -> k < a /\ hash_stable (S k) g k = true.
  Proof.
    intros Ga k Hin. assert (Hlt : k < a). { apply (child_lt g Hr). rewrite Ga. exact Hin. }
    split; [exact Hlt|]. pose proof (Hst a) as H. unfold keys_hash_stable_node in H. rewrite Ga in H.
    rewrite forallb_forall in H. rewrite (hash_stable_stable g Hr (S k) (S a)) by lia. apply H. exact Hin.
  Qed.

  Lemma expand_spec a b : a <= d' ->
    match expand keq g true a b with
    | AVisit _ body => act_ok a b body
    | act => act_ok a b act
    end.
  Proof.
    intros Had. unfold expand. cbv zeta.
    pose proof (T_mismatch a b) as Hmm.
    destruct (skel_of (get g a)) as [x|t u cs|kvs|ks] eqn:Sa;
      destruct (skel_of (get g b)) as [y|t' u' cs'|kvs'|ks'] eqn:Sb; try exact Hmm; clear Hmm.
    - (* atoms *)
      assert (loop_has_arm true x = true) as -> by (destruct x; reflexivity). simpl.
      rewrite <- (T_atom g a b x y Sa Sb). destruct (T a b) eqn:E; simpl; reflexivity.
    - (* ordered nodes *)
      pose proof (T_ord g Hr a b _ _ _ _ _ _ Sa Sb) as HT.
      destruct ((t =? t') && (u =? u')) eqn:Etu; simpl.
      2:{ rewrite HT. reflexivity. }
      destruct (arm_ptr (get g a) (get g b) && (a =? b)) eqn:Ep.
      { apply andb_true_iff in Ep as [_ Ep]. apply Nat.eqb_eq in Ep. subst b. simpl. apply T_refl; assumption. }
      set (ps0 := combine cs cs') in *.
      set (ps := if is_list (get g a) then filter (fun p => negb (list_child_skipped g p)) ps0 else ps0).
      assert (Hbody : act_ok a b (if length cs =? length cs' then APush ps else AFalse)).
      { destruct (length cs =? length cs') eqn:El; simpl.
        2:{ rewrite HT. rewrite andb_false_r. reflexivity. }
        apply Nat.eqb_eq in El. split; [|split].
        - rewrite HT. simpl. unfold ps. destruct (is_list (get g a)); [|reflexivity].
          symmetry. apply forallb_filter_skip. intros p _ Hp. apply negb_false_iff in Hp. apply skipped_T. exact Hp.
        - rewrite W_unfold. rewrite <- kids_children, Sa. simpl.
          assert (sumW (map fst ps) <= sumW (map fst ps0)).
          { unfold ps. destruct (is_list (get g a)); [apply sumW_filter|lia]. }
          unfold ps0 in *. rewrite (map_fst_combine cs cs' El) in *. lia.
        - intros p Hp. assert (In p ps0).
          { unfold ps in Hp. destruct (is_list (get g a)); [apply filter_In in Hp as [Hp _]|]; exact Hp. }
          apply in_combine_both in H as [H _]. apply (kid_lt g Hr). rewrite Sa. exact H. }
      destruct (arm_visit true (get g a) (get g b)); [exact Hbody|].
      destruct (length cs =? length cs'); exact Hbody.
    - (* maps *)
      pose proof (T_map g Hr a b _ _ Sa Sb) as HT.
      destruct (a =? b) eqn:Eab.
      { apply Nat.eqb_eq in Eab. subst b. simpl. apply T_refl; assumption. }
      simpl. destruct (length kvs =? length kvs') eqn:El; simpl.
      2:{ rewrite HT. reflexivity. }
      pose proof (skel_map _ _ Sa) as Ga. pose proof (skel_map _ _ Sb) as Gb.
      rewrite map_body_eq.
      2:{ intros kv Hin. destruct (hs_key_map a kvs Ga kv Hin). split; [eapply Nat.lt_le_trans; eauto|assumption]. }
      2:{ intros kv Hin. apply (hs_key_map b kvs' Gb kv Hin). }
      assert (Hu : forall kv, In kv kvs -> unamb (fun k' => T (fst kv) k') (map fst kvs') = true).
      { intros kv Hin. pose proof (Hun a b) as H. unfold unamb_pair in H. rewrite Ga, Gb in H. simpl in H.
        rewrite forallb_forall in H. apply (H (fst kv)). apply in_map. exact Hin. }
      pose proof (mpairs_spec kvs kvs' Hu) as Hm.
      destruct (mpairs kvs kvs') as [ps|]; simpl.
      + destruct Hm as [M1 M2]. split; [|split].
        * rewrite HT. simpl. exact M1.
        * rewrite M2. rewrite W_unfold, Ga. simpl. pose proof (sumW_map_snd kvs). lia.
        * intros p Hp. apply (in_map fst) in Hp. rewrite M2 in Hp. apply in_map_iff in Hp as [[k v] [E Hin]].
          simpl in E. subst. apply (child_lt g Hr). rewrite Ga. simpl. eapply in_map_kids_r; eauto.
      + rewrite HT. simpl. exact Hm.
    - (* sets *)
      pose proof (T_set g Hr a b _ _ Sa Sb) as HT.
      destruct (a =? b) eqn:Eab.
      { apply Nat.eqb_eq in Eab. subst b. simpl. apply T_refl; assumption. }
      simpl. destruct (length ks =? length ks') eqn:El; simpl.
      2:{ rewrite HT. reflexivity. }
      pose proof (skel_set _ _ Sa) as Ga. pose proof (skel_set _ _ Sb) as Gb.
      rewrite set_body_eq.
      2:{ intros k Hin. destruct (hs_key_set a ks Ga k Hin). split; [eapply Nat.lt_le_trans; eauto|assumption]. }
      2:{ intros k Hin. apply (hs_key_set b ks' Gb k Hin). }
      destruct (forallb (fun k => existsb (fun k' => T k k') ks') ks) eqn:Ef; simpl; rewrite HT; reflexivity.
  Qed.
End L.
