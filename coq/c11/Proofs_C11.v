(* C11 — lemmas.  Part 1: refutation of the algorithm as found (DESIGN F6). *)
From Coq Require Import List Arith Bool PeanoNat ZArith Lia.
From SV Require Import c11.Model_C11 c11.ProofsA_C11 c11.ProofsB_C11 c11.ProofsC_C11 c11.ProofsD_C11 c11.ProofsE_C11.
Import ListNotations.

(* (define a (list 1 2 3)) (equal? (list a a) (list (list 9 9 9) (list 1 2 3))) *)
Definition g_f6 : graph :=
  [NAtom (AInt 1); NAtom (AInt 2); NAtom (AInt 3); NAtom (AInt 9);
   NList [0; 1; 2]; NList [4; 4]; NList [3; 3; 3]; NList [0; 1; 2]; NList [6; 7]].

Lemma eq_current_wrong_list :
  eq_alg_current g_f6 5 8 = Some true /\ tree_eqb (unfold g_f6 5) (unfold g_f6 8) = false.
Proof. split; vm_compute; reflexivity. Qed.

(* (define iv (immutable-vector 1 2)) (equal? (list iv iv) (list (immutable-vector 1 2) (immutable-vector 1 2))) *)
Definition g_f6_ivec : graph :=
  [NAtom (AInt 1); NAtom (AInt 2); NIVec [0; 1]; NList [2; 2]; NIVec [0; 1]; NIVec [0; 1]; NList [4; 5]].
Lemma eq_current_wrong_ivec :
  eq_alg_current g_f6_ivec 3 6 = Some false /\ tree_eqb (unfold g_f6_ivec 3) (unfold g_f6_ivec 6) = true.
Proof. split; vm_compute; reflexivity. Qed.

(* (equal? (hashset 1 2) (hashset 3 4)) *)
Definition g_f6_set : graph :=
  [NAtom (AInt 1); NAtom (AInt 2); NAtom (AInt 3); NAtom (AInt 4); NSet [0; 1]; NSet [2; 3]].
Lemma eq_current_wrong_set :
  eq_alg_current g_f6_set 4 5 = Some true /\ tree_eqb (unfold g_f6_set 4) (unfold g_f6_set 5) = false.
Proof. split; vm_compute; reflexivity. Qed.

(* (equal? (list 1/2) (list 1/2)) *)
Definition g_leaf : graph := [NAtom (ARat 1 2); NList [0]; NAtom (ARat 1 2); NList [2]].
Lemma eq_current_wrong_leaf :
  eq_alg_current g_leaf 1 3 = Some false /\ tree_eqb (unfold g_leaf 1) (unfold g_leaf 3) = true.
Proof. split; vm_compute; reflexivity. Qed.

Lemma eq_refuted_lemma :
  exists g a b, rankedb g = true /\ keys_unambb g = true /\ nan_freeb g = true /\
    eq_alg_current g a b = Some true /\ tree_eqb (unfold g a) (unfold g b) = false.
Proof. exists g_f6, 5, 8. repeat split; vm_compute; reflexivity. Qed.

Lemma eq_refuted_incomplete_lemma :
  exists g a b, rankedb g = true /\ keys_unambb g = true /\ nan_freeb g = true /\
    eq_alg_current g a b = Some false /\ tree_eqb (unfold g a) (unfold g b) = true.
Proof. exists g_f6_ivec, 3, 6. repeat split; vm_compute; reflexivity. Qed.

Lemma set_eq_refuted_lemma :
  exists g a b, rankedb g = true /\ keys_unambb g = true /\ nan_freeb g = true /\
    eq_alg_current g a b = Some true /\ tree_eqb (unfold g a) (unfold g b) = false.
Proof. exists g_f6_set, 4, 5. repeat split; vm_compute; reflexivity. Qed.

(* the repaired algorithm on the same witnesses *)
Lemma eq_fixed_on_witnesses :
  eq_alg g_f6 5 8 = Some false /\ eq_alg g_f6_ivec 3 6 = Some true /\
  eq_alg g_f6_set 4 5 = Some false /\ eq_alg g_leaf 1 3 = Some true.
Proof. repeat split; vm_compute; reflexivity. Qed.

(* non-vacuity: well-formed graphs with sharing, maps keyed by collections, sets *)
Definition g_demo : graph :=
  [NAtom (AInt 1); NAtom (AStr [97]); NList [0; 1]; NList [0; 1]; NIVec [2; 2]; NIVec [2; 3];
   NMap [(2, 0); (1, 4)]; NMap [(1, 5); (3, 0)]; NSet [2; 0]; NSet [0; 3]; NBox 6; NBox 7;
   NStruct 1 [10; 8]; NStruct 1 [11; 9]; NMVec [12; 12]; NPair 13 0].
Lemma demo_wf : wfb g_demo = true /\ wfb g_f6 = true /\ wfb g_f6_ivec = true /\ wfb g_f6_set = true.
Proof. repeat split; vm_compute; reflexivity. Qed.
Lemma demo_eq : eq_alg g_demo 12 13 = Some true /\ eq_alg g_demo 14 15 = Some false.
Proof. split; vm_compute; reflexivity. Qed.
