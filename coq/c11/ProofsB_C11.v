(* C11 proofs, part B: hashing - equal? hash-stable values feed identical token streams. *)
From Coq Require Import List Arith Bool PeanoNat ZArith Lia.
From SV Require Import c11.Model_C11.
From SV Require Import c11.ProofsA_C11.
Import ListNotations.

Lemma nats_eqb_eq l r : nats_eqb l r = true -> l = r.
Proof.
  revert r. induction l as [|x l IH]; intros [|y r] H; simpl in H; try discriminate; [reflexivity|].
  apply andb_true_iff in H as [H1 H2]. apply Nat.eqb_eq in H1. subst. f_equal. apply IH. exact H2.
Qed.

Lemma atom_eqb_eq x y :
  atom_eqb x y = true -> atom_is_negzero x = false -> atom_is_negzero y = false -> x = y.
Proof.
  destruct x, y; simpl; intros H Hx Hy; try discriminate; try reflexivity.
  - apply Z.eqb_eq in H. subst. reflexivity.
  - apply Z.eqb_eq in H. subst. reflexivity.
  - apply andb_true_iff in H as [H1 H2]. apply Z.eqb_eq in H1, H2. subst. reflexivity.
  - apply andb_true_iff in H as [H1 H2]. apply Z.eqb_eq in H1, H2. subst. reflexivity.
  - unfold flo_eqb in H. destruct (flo_is_nan bits || flo_is_nan bits0); [discriminate|].
    destruct (flo_is_zero bits && flo_is_zero bits0) eqn:Hz.
    + apply andb_true_iff in Hz as [Z1 Z2]. unfold flo_is_zero in *.
      rewrite Hx in Z1. rewrite Hy in Z2. rewrite orb_false_r in *.
      apply Z.eqb_eq in Z1, Z2. subst. reflexivity.
    + apply Z.eqb_eq in H. subst. reflexivity.
  - apply Bool.eqb_prop in H. subst. reflexivity.
  - apply Nat.eqb_eq in H. subst. reflexivity.
  - apply nats_eqb_eq in H. subst. reflexivity.
  - apply nats_eqb_eq in H. subst. reflexivity.
  - apply nats_eqb_eq in H. subst. reflexivity.
Qed.

Lemma tok_eqb_refl x : tok_eqb x x = true.
Proof. destruct x; simpl; try reflexivity; try apply Nat.eqb_refl; apply Z.eqb_refl. Qed.
Lemma toks_eqb_refl l : toks_eqb l l = true.
Proof. induction l; simpl; [reflexivity|]. rewrite tok_eqb_refl. exact IHl. Qed.

Section H.
  Variable g : graph.
  Hypothesis Hr : ranked g.

  Lemma child_lt a c : In c (children (get g a)) -> c < a.
  Proof. apply Hr. Qed.

  Lemma htok_stable : forall n m a, a < n -> a < m -> htok n g a = htok m g a.
  Proof.
    induction n as [|n IH]; intros m a Hn Hm; [lia|]. destruct m as [|m]; [lia|].
    simpl. pose proof (child_lt a) as Hk.
    destruct (get g a) eqn:Ha; simpl in Hk; try reflexivity.
    - f_equal. apply flat_map_ext_in. intros c Hc. apply Hk in Hc. apply IH; lia.
    - f_equal. rewrite (IH m a0), (IH m d); try reflexivity;
        try (assert (a0 < a) by (apply Hk; simpl; auto); lia);
        try (assert (d < a) by (apply Hk; simpl; auto); lia).
    - f_equal. apply flat_map_ext_in. intros c Hc. apply Hk in Hc. apply IH; lia.
    - f_equal. f_equal. apply flat_map_ext_in. intros c Hc. apply Hk in Hc. apply IH; lia.
    - f_equal. apply flat_map_ext_in. intros [k v] Hkv. simpl.
      pose proof (Hk _ (in_map_kids_l _ _ _ Hkv)). pose proof (Hk _ (in_map_kids_r _ _ _ Hkv)).
      rewrite (IH m k), (IH m v) by lia. reflexivity.
    - f_equal. apply flat_map_ext_in. intros c Hc. apply Hk in Hc. apply IH; lia.
    - f_equal. f_equal. f_equal. apply flat_map_ext_in. intros c Hc. apply Hk in Hc. apply IH; lia.
    - f_equal. apply IH; assert (c < a) by (apply Hk; simpl; auto); lia.
  Qed.

  Lemma hash_tokens_htok n a : a < n -> htok n g a = hash_tokens g a.
  Proof. intros H. unfold hash_tokens. apply htok_stable; lia. Qed.

  Lemma hash_stable_stable : forall n m a, a < n -> a < m -> hash_stable n g a = hash_stable m g a.
  Proof.
    induction n as [|n IH]; intros m a Hn Hm; [lia|]. destruct m as [|m]; [lia|].
    simpl. pose proof (child_lt a) as Hk.
    destruct (get g a) eqn:Ha; simpl in Hk; try reflexivity; simpl;
      try (apply forallb_ext_in; intros c Hc; apply Hk in Hc; apply IH; lia).
    - rewrite (IH m a0), (IH m d); try reflexivity;
        try (assert (a0 < a) by (apply Hk; simpl; auto); lia);
        try (assert (d < a) by (apply Hk; simpl; auto); lia).
    - rewrite (IH m c); [reflexivity| |]; assert (c < a) by (apply Hk; simpl; auto); lia.
  Qed.

  (* equal? values that are hash-stable feed the same tokens to the hasher *)
  Lemma hash_respects_n : forall n a b, a < n -> b < n ->
    teq n g a b = true -> hash_stable n g a = true -> hash_stable n g b = true ->
    htok n g a = htok n g b.
  Proof.
    induction n as [|n IH]; intros a b Ha Hb He Hsa Hsb; [lia|].
    pose proof (child_lt a) as Hka. pose proof (child_lt b) as Hkb.
    simpl in *.
    destruct (get g a) eqn:Ga; destruct (get g b) eqn:Gb; simpl in *; try discriminate.
    - (* atoms *)
      apply negb_true_iff in Hsa, Hsb. rewrite (atom_eqb_eq _ _ He Hsa Hsb). reflexivity.
    - (* list *)
      apply andb_true_iff in He as [He Hf]. apply Nat.eqb_eq in He. f_equal.
      apply flat_map_combine_eq; [exact He|]. intros p Hp.
      pose proof (in_combine_both _ _ _ Hp) as [H1 H2].
      rewrite forallb_forall in Hf, Hsa, Hsb.
      apply IH; [apply Hka in H1; lia|apply Hkb in H2; lia|apply Hf; exact Hp|apply Hsa; exact H1|apply Hsb; exact H2].
    - (* pair *)
      rewrite !andb_true_r in *. apply andb_true_iff in He as [E1 E2].
      apply andb_true_iff in Hsa as [A1 A2]. apply andb_true_iff in Hsb as [B1 B2].
      f_equal. rewrite (IH a0 a1), (IH d d0); try assumption; try reflexivity.
      + assert (d < a) by (apply Hka; auto). lia.
      + assert (d0 < b) by (apply Hkb; auto). lia.
      + assert (a0 < a) by (apply Hka; auto). lia.
      + assert (a1 < b) by (apply Hkb; auto). lia.
    - (* ivec *)
      apply andb_true_iff in He as [He Hf]. apply Nat.eqb_eq in He. f_equal.
      apply flat_map_combine_eq; [exact He|]. intros p Hp.
      pose proof (in_combine_both _ _ _ Hp) as [H1 H2].
      rewrite forallb_forall in Hf, Hsa, Hsb.
      apply IH; [apply Hka in H1; lia|apply Hkb in H2; lia|apply Hf; exact Hp|apply Hsa; exact H1|apply Hsb; exact H2].
    - (* struct *)
      apply andb_true_iff in He as [He Hf]. apply andb_true_iff in He as [Ety He].
      apply Nat.eqb_eq in He, Ety. subst. rewrite He. f_equal. f_equal. f_equal.
      apply flat_map_combine_eq; [exact He|]. intros p Hp.
      pose proof (in_combine_both _ _ _ Hp) as [H1 H2].
      rewrite forallb_forall in Hf, Hsa, Hsb.
      apply IH; [apply Hka in H1; lia|apply Hkb in H2; lia|apply Hf; exact Hp|apply Hsa; exact H1|apply Hsb; exact H2].
    - (* box *)
      rewrite !andb_true_r in *. f_equal. apply IH; try assumption.
      + assert (c < a) by (apply Hka; auto). lia.
      + assert (c0 < b) by (apply Hkb; auto). lia.
  Qed.

  Lemma hash_respects_T a b :
    T g a b = true -> hash_stable (S a) g a = true -> hash_stable (S b) g b = true ->
    hash_tokens g a = hash_tokens g b.
  Proof.
    intros He Ha Hb. set (n := S (Nat.max a b)).
    rewrite <- (hash_tokens_htok n a), <- (hash_tokens_htok n b) by (unfold n; lia).
    apply hash_respects_n; try (unfold n; lia).
    - rewrite (teq_T g Hr) by (unfold n; lia). exact He.
    - rewrite (hash_stable_stable n (S a)) by (unfold n; lia). exact Ha.
    - rewrite (hash_stable_stable n (S b)) by (unfold n; lia). exact Hb.
  Qed.
End H.
