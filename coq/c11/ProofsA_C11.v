(* C11 proofs, part A: list utilities, fuel stability of teq, reflexivity. *)
From Coq Require Import List Arith Bool PeanoNat ZArith Lia.
From SV Require Import c11.Model_C11.
Import ListNotations.

(* ------------------------------------------------------------------ list utilities *)
Lemma forallb_ext_in {A} (f h : A -> bool) l :
  (forall x, In x l -> f x = h x) -> forallb f l = forallb h l.
Proof.
  induction l as [|x l IH]; intros H; simpl; [reflexivity|].
  rewrite H by (left; reflexivity). rewrite IH; [reflexivity|]. intros y Hy. apply H. right; exact Hy.
Qed.

Lemma existsb_ext_in {A} (f h : A -> bool) l :
  (forall x, In x l -> f x = h x) -> existsb f l = existsb h l.
Proof.
  induction l as [|x l IH]; intros H; simpl; [reflexivity|].
  rewrite H by (left; reflexivity). rewrite IH; [reflexivity|]. intros y Hy. apply H. right; exact Hy.
Qed.

Lemma flat_map_ext_in {A B} (f h : A -> list B) l :
  (forall x, In x l -> f x = h x) -> flat_map f l = flat_map h l.
Proof.
  induction l as [|x l IH]; intros H; simpl; [reflexivity|].
  rewrite H by (left; reflexivity). rewrite IH; [reflexivity|]. intros y Hy. apply H. right; exact Hy.
Qed.

Lemma in_combine_both {A B} (l : list A) (r : list B) p : In p (combine l r) -> In (fst p) l /\ In (snd p) r.
Proof. destruct p as [x y]. intros H. split; [eapply in_combine_l|eapply in_combine_r]; exact H. Qed.

Lemma flat_map_combine_eq {A B} (f : A -> list B) (l r : list A) :
  length l = length r -> (forall p, In p (combine l r) -> f (fst p) = f (snd p)) ->
  flat_map f l = flat_map f r.
Proof.
  revert r. induction l as [|x l IH]; intros [|y r] Hl H; simpl in *; try discriminate; [reflexivity|].
  pose proof (H (x, y) (or_introl eq_refl)) as Hxy. simpl in Hxy. rewrite Hxy. f_equal.
  apply IH; [lia|]. intros p Hp. apply H. right; exact Hp.
Qed.

(* ------------------------------------------------------------------ kids / children *)
Definition kids (s : skel) : list id :=
  match s with
  | SAtom _ => []
  | SOrd _ _ cs => cs
  | SMap kvs => flat_map (fun kv => [fst kv; snd kv]) kvs
  | SSet ks => ks
  end.

Lemma kids_children n : kids (skel_of n) = children n.
Proof. destruct n; reflexivity. Qed.

Lemma in_map_kids_l (kvs : list (id * id)) k v : In (k, v) kvs -> In k (flat_map (fun kv => [fst kv; snd kv]) kvs).
Proof. intros H. apply in_flat_map. exists (k, v). split; [exact H|left; reflexivity]. Qed.
Lemma in_map_kids_r (kvs : list (id * id)) k v : In (k, v) kvs -> In v (flat_map (fun kv => [fst kv; snd kv]) kvs).
Proof. intros H. apply in_flat_map. exists (k, v). split; [exact H|right; left; reflexivity]. Qed.

Section G.
  Variable g : graph.
  Hypothesis Hr : ranked g.

  Lemma kid_lt a c : In c (kids (skel_of (get g a))) -> c < a.
  Proof. rewrite kids_children. apply Hr. Qed.

  (* ---------------------------------------------------------------- fuel stability *)
  Lemma teq_stable : forall n m a b, a < n -> a < m -> teq n g a b = teq m g a b.
  Proof.
    induction n as [|n IH]; intros m a b Hn Hm; [lia|]. destruct m as [|m]; [lia|].
    simpl. pose proof (kid_lt a) as Hk.
    destruct (skel_of (get g a)) as [x|t u cs|kvs|ks] eqn:Sa; destruct (skel_of (get g b)) as [y|t' u' cs'|kvs'|ks'] eqn:Sb;
      try reflexivity; simpl in Hk.
    - f_equal. apply forallb_ext_in. intros p Hp. apply in_combine_both in Hp as [Hp _].
      apply Hk in Hp. apply IH; lia.
    - f_equal. apply forallb_ext_in. intros [k v] Hkv. apply existsb_ext_in. intros [k' v'] _. simpl.
      pose proof (Hk _ (in_map_kids_l _ _ _ Hkv)). pose proof (Hk _ (in_map_kids_r _ _ _ Hkv)).
      f_equal; apply IH; lia.
    - f_equal. apply forallb_ext_in. intros k Hkk. apply existsb_ext_in. intros k' _.
      apply Hk in Hkk. apply IH; lia.
  Qed.

  Definition T (a b : id) : bool := teq (S a) g a b.
  Definition Pb (p : id * id) : bool := T (fst p) (snd p).

  Lemma teq_T n a b : a < n -> teq n g a b = T a b.
  Proof. intros H. unfold T. apply teq_stable; lia. Qed.

  Lemma T_atom a b x y : skel_of (get g a) = SAtom x -> skel_of (get g b) = SAtom y -> T a b = atom_eqb x y.
  Proof. intros Sa Sb. unfold T. simpl. rewrite Sa, Sb. reflexivity. Qed.

  Lemma T_ord a b t u cs t' u' cs' :
    skel_of (get g a) = SOrd t u cs -> skel_of (get g b) = SOrd t' u' cs' ->
    T a b = (t =? t') && (u =? u') && (length cs =? length cs') && forallb Pb (combine cs cs').
  Proof.
    intros Sa Sb. unfold T at 1. simpl. rewrite Sa, Sb. f_equal.
    apply forallb_ext_in. intros p Hp. apply in_combine_both in Hp as [Hp _].
    unfold Pb. apply teq_T. apply kid_lt. rewrite Sa. exact Hp.
  Qed.

  Lemma T_map a b kvs kvs' :
    skel_of (get g a) = SMap kvs -> skel_of (get g b) = SMap kvs' ->
    T a b = (length kvs =? length kvs') &&
            forallb (fun kv => existsb (fun kv' => T (fst kv) (fst kv') && T (snd kv) (snd kv')) kvs') kvs.
  Proof.
    intros Sa Sb. unfold T at 1. simpl. rewrite Sa, Sb. f_equal.
    apply forallb_ext_in. intros [k v] Hkv. apply existsb_ext_in. intros [k' v'] _. simpl.
    assert (k < a) by (apply kid_lt; rewrite Sa; eapply in_map_kids_l; eauto).
    assert (v < a) by (apply kid_lt; rewrite Sa; eapply in_map_kids_r; eauto).
    rewrite !teq_T by assumption. reflexivity.
  Qed.

  Lemma T_set a b ks ks' :
    skel_of (get g a) = SSet ks -> skel_of (get g b) = SSet ks' ->
    T a b = (length ks =? length ks') && forallb (fun k => existsb (fun k' => T k k') ks') ks.
  Proof.
    intros Sa Sb. unfold T at 1. simpl. rewrite Sa, Sb. f_equal.
    apply forallb_ext_in. intros k Hkk. apply existsb_ext_in. intros k' _.
    apply teq_T. apply kid_lt. rewrite Sa. exact Hkk.
  Qed.

  (* ---------------------------------------------------------------- reflexivity *)
  Hypothesis Hnan : nan_free g.

  Lemma nats_eqb_refl l : nats_eqb l l = true.
  Proof. induction l; simpl; [reflexivity|]. rewrite Nat.eqb_refl. exact IHl. Qed.

  Lemma atom_eqb_refl x : atom_is_nan x = false -> atom_eqb x x = true.
  Proof.
    destruct x; simpl; intros H; try reflexivity; try apply Z.eqb_refl; try apply Nat.eqb_refl;
      try apply nats_eqb_refl; try (rewrite !Z.eqb_refl; reflexivity).
    - unfold flo_eqb. rewrite H. simpl. destruct (flo_is_zero bits); simpl; [reflexivity|apply Z.eqb_refl].
    - destruct b; reflexivity.
  Qed.

  Lemma skel_atom a x : skel_of (get g a) = SAtom x -> get g a = NAtom x.
  Proof. destruct (get g a); simpl; intros H; try discriminate. inversion H. reflexivity. Qed.

  Lemma forallb_combine_self (f : id * id -> bool) cs :
    (forall c, In c cs -> f (c, c) = true) -> forallb f (combine cs cs) = true.
  Proof.
    induction cs as [|c cs IH]; intros H; simpl; [reflexivity|].
    rewrite H by (left; reflexivity). apply IH. intros c' Hc. apply H. right; exact Hc.
  Qed.

  Lemma teq_refl : forall n a, a < n -> teq n g a a = true.
  Proof.
    induction n as [|n IH]; intros a Ha; [lia|]. simpl. pose proof (kid_lt a) as Hk.
    destruct (skel_of (get g a)) as [x|t u cs|kvs|ks] eqn:Sa; simpl in Hk.
    - apply atom_eqb_refl. eapply Hnan. apply skel_atom. exact Sa.
    - rewrite !Nat.eqb_refl. simpl. apply forallb_combine_self. intros c Hc. simpl. apply IH. apply Hk in Hc. lia.
    - rewrite Nat.eqb_refl. simpl. apply forallb_forall. intros [k v] Hkv. apply existsb_exists.
      exists (k, v). split; [exact Hkv|]. simpl.
      pose proof (Hk _ (in_map_kids_l _ _ _ Hkv)). pose proof (Hk _ (in_map_kids_r _ _ _ Hkv)).
      rewrite !IH by lia. reflexivity.
    - rewrite Nat.eqb_refl. simpl. apply forallb_forall. intros k Hkk. apply existsb_exists.
      exists k. split; [exact Hkk|]. apply IH. apply Hk in Hkk. lia.
  Qed.

  Lemma T_refl a : T a a = true.
  Proof. apply teq_refl. lia. Qed.
End G.
