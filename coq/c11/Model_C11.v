(* C11 — model of structural equality (equal?), structural hashing and the collection primitives.
   Definitions only (this file must keep compiling and running when a proof breaks).

   Sources modelled (steel-core):
     rvals/cycles.rs   RecursiveEqualityHandler::{should_visit, visit}, EqualityVisitor (the two LIFO
                       queues), impl PartialEq for SteelVal (top level)
     rvals.rs          impl Hash for SteelVal, SteelHashMap, SteelHashSet, SteelByteVector;
                       values/lists.rs Pair (derive Hash); values/structs.rs UserDefinedStruct Hash
     primitives/{lists,vectors,hashmaps,hashsets,strings,bytevectors}.rs  (section Collections)

   Values are nodes of a finite graph so that identity and sharing are first class: [id] is the
   address of a heap object, two occurrences of the same id are the same object. *)
From Coq Require Import List Arith Bool PeanoNat ZArith String Ascii Lia.
Import ListNotations.

Definition id := nat.

(* ------------------------------------------------------------------------------------ atoms *)
Inductive atom :=
| AInt (z : Z)            (* IntV isize *)
| ABig (z : Z)            (* BigNum (outside isize) *)
| ARat (n d : Z)          (* Rational (Ratio<i32>), reduced *)
| ABigRat (n d : Z)       (* BigRational, reduced *)
| AFlo (bits : Z)         (* NumV f64 by IEEE-754 bit pattern, 0 <= bits < 2^64 *)
| ABool (b : bool)
| AChar (c : nat)
| AStr (s : list nat)     (* StringV, code points *)
| ASym (s : list nat)     (* SymbolV *)
| ABytes (s : list nat)   (* ByteVector *)
| AVoid.

Fixpoint nats_eqb (l r : list nat) : bool :=
  match l, r with
  | [], [] => true
  | x :: l', y :: r' => (x =? y) && nats_eqb l' r'
  | _, _ => false
  end.

(* f64 [==] (cycles.rs NumV arm / PartialEq top level): NaN is unequal to everything, the two zeros
   are equal, everything else by bit pattern. *)
Definition flo_is_nan (b : Z) : bool :=
  (Z.land (Z.shiftr b 52) 2047 =? 2047)%Z && negb (Z.land b 4503599627370495 =? 0)%Z.
Definition flo_is_zero (b : Z) : bool := (b =? 0)%Z || (b =? 9223372036854775808)%Z.
Definition flo_eqb (x y : Z) : bool :=
  if flo_is_nan x || flo_is_nan y then false
  else if flo_is_zero x && flo_is_zero y then true else (x =? y)%Z.

(* leaves: same representation and same payload — (equal? 2 2.0) is #f, an IntV never equals a
   BigNum because the representations are canonical (C10). *)
Definition atom_eqb (x y : atom) : bool :=
  match x, y with
  | AInt a, AInt b => (a =? b)%Z
  | ABig a, ABig b => (a =? b)%Z
  | ARat n d, ARat n' d' => (n =? n')%Z && (d =? d')%Z
  | ABigRat n d, ABigRat n' d' => (n =? n')%Z && (d =? d')%Z
  | AFlo a, AFlo b => flo_eqb a b
  | ABool a, ABool b => Bool.eqb a b
  | AChar a, AChar b => a =? b
  | AStr a, AStr b => nats_eqb a b
  | ASym a, ASym b => nats_eqb a b
  | ABytes a, ABytes b => nats_eqb a b
  | AVoid, AVoid => true
  | _, _ => false
  end.

Definition atom_is_nan (x : atom) : bool := match x with AFlo b => flo_is_nan b | _ => false end.
Definition atom_is_negzero (x : atom) : bool :=
  match x with AFlo b => (b =? 9223372036854775808)%Z | _ => false end.

(* ------------------------------------------------------------------------------------ graphs *)
Inductive node :=
| NAtom (a : atom)
| NList (cs : list id)               (* ListV *)
| NPair (a d : id)                   (* Pair (improper) *)
| NIVec (cs : list id)               (* VectorV (immutable) *)
| NMVec (cs : list id)               (* MutableVector *)
| NMap (kvs : list (id * id))        (* HashMapV, entries in the order the HAMT iterates them *)
| NSet (ks : list id)                (* HashSetV *)
| NStruct (ty : nat) (cs : list id)  (* CustomStruct: type descriptor, fields *)
| NBox (c : id).                     (* HeapAllocated (box) *)

Definition graph := list node.
Definition get (g : graph) (a : id) : node := nth a g (NAtom AVoid).

Definition children (n : node) : list id :=
  match n with
  | NAtom _ => []
  | NList cs | NIVec cs | NMVec cs | NStruct _ cs | NSet cs => cs
  | NPair a d => [a; d]
  | NMap kvs => flat_map (fun kv => [fst kv; snd kv]) kvs
  | NBox c => [c]
  end.

(* The spec-level view of a node: an atom, an ordered node (tag, subtag, children in order), a finite
   map or a finite set.  Immutable and mutable vectors have the same tag: equal? does not distinguish
   them (cycles.rs arms (VectorV, MutableVector), (MutableVector, VectorV)). *)
Inductive skel :=
| SAtom (a : atom)
| SOrd (t u : nat) (cs : list id)
| SMap (kvs : list (id * id))
| SSet (ks : list id).

Definition skel_of (n : node) : skel :=
  match n with
  | NAtom a => SAtom a
  | NList cs => SOrd 0 0 cs
  | NPair a d => SOrd 1 0 [a; d]
  | NIVec cs => SOrd 2 0 cs
  | NMVec cs => SOrd 2 0 cs
  | NStruct ty cs => SOrd 3 ty cs
  | NBox c => SOrd 4 0 [c]
  | NMap kvs => SMap kvs
  | NSet ks => SSet ks
  end.

(* ------------------------------------------------------------------------------------ hashing *)
(* The token stream [impl Hash for SteelVal] feeds to the hasher (rvals.rs): first the enum
   discriminant, then per kind:
     IntV/BigNum/Rational/...: the payload;   NumV: the *decimal string* of the float (all NaNs print
     "NaN");  ListV: every element, no length (im-lists Hash);  Pair: car, cdr (derive);
     VectorV: every element (imbl Vector Hash);  MutableVector: Vec<SteelVal> = length, elements;
     HashMapV / HashSetV: every entry in iteration order;  CustomStruct: type descriptor, then the
     field slice (length, elements);  HeapAllocated: the contents. *)
Inductive tok := KTag (n : nat) | KZ (z : Z) | KN (n : nat) | KNaN.

Definition tok_eqb (x y : tok) : bool :=
  match x, y with
  | KTag a, KTag b => a =? b
  | KZ a, KZ b => (a =? b)%Z
  | KN a, KN b => a =? b
  | KNaN, KNaN => true
  | _, _ => false
  end.
Fixpoint toks_eqb (l r : list tok) : bool :=
  match l, r with
  | [], [] => true
  | x :: l', y :: r' => tok_eqb x y && toks_eqb l' r'
  | _, _ => false
  end.

Definition atom_tok (x : atom) : list tok :=
  match x with
  | AInt z => [KTag 1; KZ z]
  | ABig z => [KTag 2; KZ z]
  | ARat n d => [KTag 3; KZ n; KZ d]
  | ABigRat n d => [KTag 4; KZ n; KZ d]
  | AFlo b => if flo_is_nan b then [KTag 5; KNaN] else [KTag 5; KZ b]
  | ABool b => [KTag 6; KN (if b then 1 else 0)]
  | AChar c => [KTag 7; KN c]
  | AStr s => KTag 8 :: KN (List.length s) :: map KN s
  | ASym s => KTag 9 :: KN (List.length s) :: map KN s
  | ABytes s => KTag 10 :: KN (List.length s) :: map KN s
  | AVoid => [KTag 11]
  end.

Fixpoint htok (n : nat) (g : graph) (a : id) : list tok :=
  match n with
  | 0 => []
  | S n' =>
    match get g a with
    | NAtom x => atom_tok x
    | NList cs => KTag 20 :: flat_map (htok n' g) cs
    | NPair x d => KTag 21 :: htok n' g x ++ htok n' g d
    | NIVec cs => KTag 22 :: flat_map (htok n' g) cs
    | NMVec cs => KTag 23 :: KN (List.length cs) :: flat_map (htok n' g) cs
    | NMap kvs => KTag 24 :: flat_map (fun kv => htok n' g (fst kv) ++ htok n' g (snd kv)) kvs
    | NSet ks => KTag 25 :: flat_map (htok n' g) ks
    | NStruct ty cs => KTag 26 :: KN ty :: KN (List.length cs) :: flat_map (htok n' g) cs
    | NBox c => KTag 27 :: htok n' g c
    end
  end.
(* children have smaller ids than their parent in a well-formed graph, so fuel [S a] is exact *)
Definition hash_tokens (g : graph) (a : id) : list tok := htok (S a) g a.

(* ------------------------------------------------------------------------------------ equal? *)
(* What one iteration of [RecursiveEqualityHandler::visit] does with the pair it popped. *)
Inductive action :=
| AFalse                          (* return false *)
| ANext                           (* continue *)
| AFuel                           (* a nested key comparison ran out of fuel (model artefact) *)
| APush (ps : list (id * id))     (* push these pairs on the two queues, in this order *)
| AVisit (ivec : bool) (body : action).
    (* consult the visited set; only when the pair is new, run [body] (AFalse | ANext | APush | AFuel).
       [ivec] marks the immutable-vector arm, which before the repair answered a revisit with
       `return false` instead of skipping. *)

(* Which arms take the pointer short cut and which consult the visited set (cycles.rs, arms in
   source order: ListV, Pair, VectorV, (VectorV,MutableVector), (MutableVector,VectorV), HashMapV,
   HashSetV, CustomStruct, HeapAllocated, MutableVector). *)
Definition arm_ptr (n m : node) : bool :=
  match n, m with
  | NList _, NList _ | NPair _ _, NPair _ _ | NIVec _, NIVec _ | NMVec _, NMVec _
  | NMap _, NMap _ | NSet _, NSet _ | NStruct _ _, NStruct _ _ | NBox _, NBox _ => true
  | _, _ => false
  end.
Definition arm_visit (fixed : bool) (n m : node) : bool :=
  match n, m with
  | NList _, NList _ | NPair _ _, NPair _ _ | NIVec _, NIVec _ | NMVec _, NMVec _
  | NMap _, NMap _ | NSet _, NSet _ | NStruct _ _, NStruct _ _ => true
  | NBox _, NBox _ => fixed   (* HeapAllocated arm: consults the set since /repo ca6ab154 (cycles through boxes) *)
  | _, _ => false             (* the two mixed vector arms push without consulting the set *)
  end.
Definition arm_is_ivec (n m : node) : bool :=
  match n, m with NIVec _, NIVec _ => true | _, _ => false end.
Definition is_list (n : node) : bool := match n with NList _ => true | _ => false end.
Definition is_empty_list (n : node) : bool := match n with NList [] => true | _ => false end.

(* ListV arm, inner loop: an element pair of two lists that are both empty or the same object is
   not pushed. *)
Definition list_child_skipped (g : graph) (p : id * id) : bool :=
  is_list (get g (fst p)) && is_list (get g (snd p)) &&
  ((is_empty_list (get g (fst p)) && is_empty_list (get g (snd p))) || (fst p =? snd p)).

Section Expand.
  (* [keq k k'] = the nested [==] the HAMT runs on a candidate key (a complete, separate run of the
     algorithm: the thread-local queues are borrowed, so the fallback branch of PartialEq::eq
     allocates fresh queues and a fresh visited set). *)
  Variable keq : id -> id -> option bool.
  Variable g : graph.

  (* [r.get(key)] / [r.contains(key)]: the HAMT goes to the bucket selected by the hash of the
     probe and compares the probe with the keys stored there.  Hash equality is modelled as
     equality of the token streams (the hasher is assumed collision free on the streams met). *)
  Fixpoint lookup (k : id) (kvs : list (id * id)) : option (option id) :=
    match kvs with
    | [] => Some None
    | (k', v') :: rest =>
        if toks_eqb (hash_tokens g k) (hash_tokens g k')
        then match keq k k' with
             | None => None
             | Some true => Some (Some v')
             | Some false => lookup k rest
             end
        else lookup k rest
    end.

  (* HashMapV arm: for (key, value) in l: r.get(key) -> push (value, right_value) | return false *)
  Fixpoint map_body (kvs kvs' : list (id * id)) (acc : list (id * id)) : action :=
    match kvs with
    | [] => APush (rev acc)
    | (k, v) :: rest =>
        match lookup k kvs' with
        | None => AFuel
        | Some None => AFalse
        | Some (Some v') => map_body rest kvs' ((v, v') :: acc)
        end
    end.

  (* HashSetV arm after the repair: for key in l: if !r.contains(key) return false *)
  Fixpoint set_body (ks : list id) (ks' : list id) : action :=
    match ks with
    | [] => ANext
    | k :: rest =>
        match lookup k (map (fun x => (x, x)) ks') with
        | None => AFuel
        | Some None => AFalse
        | Some (Some _) => set_body rest ks'
        end
    end.

  (* [fixed = true]: the code after the `fix:` commits; [false]: the code as found (set arm looks
     the key up in the LEFT set, no arms for Rational / BigRational / ByteVector in the loop). *)
  Definition loop_has_arm (fixed : bool) (x : atom) : bool :=
    match x with ARat _ _ | ABigRat _ _ | ABytes _ => fixed | _ => true end.

  Definition expand (fixed : bool) (a b : id) : action :=
    let n := get g a in let m := get g b in
    match skel_of n, skel_of m with
    | SAtom x, SAtom y =>
        if loop_has_arm fixed x && atom_eqb x y then ANext else AFalse
    | SOrd t u cs, SOrd t' u' cs' =>
        if negb ((t =? t') && (u =? u')) then AFalse
        else if arm_ptr n m && (a =? b) then ANext
        else
          let ps := combine cs cs' in
          let ps := if is_list n then filter (fun p => negb (list_child_skipped g p)) ps else ps in
          let body := if List.length cs =? List.length cs' then APush ps else AFalse in
          if arm_visit fixed n m then AVisit (arm_is_ivec n m) body else body
    | SMap kvs, SMap kvs' =>
        if a =? b then ANext
        else AVisit false (if List.length kvs =? List.length kvs' then map_body kvs kvs' [] else AFalse)
    | SSet ks, SSet ks' =>
        if a =? b then ANext
        else AVisit false (if List.length ks =? List.length ks'
                           then (if fixed then set_body ks ks' else ANext) else AFalse)
    | _, _ => AFalse
    end.
End Expand.

Definition pair_eqb (p q : id * id) : bool := (fst p =? fst q) && (snd p =? snd q).
Definition mem (p : id * id) (l : list (id * id)) : bool := existsb (pair_eqb p) l.
Definition mem1 (a : id) (l : list id) : bool := existsb (Nat.eqb a) l.

(* The loop after the repair: visited set keyed on (left, right) identity pairs.  The two queues are
   pushed and popped in lock step, so they are one stack of pairs; Vec::push / Vec::pop make it LIFO:
   the pair pushed last is compared first. *)
Fixpoint eq_loop (keq : id -> id -> option bool) (fuel : nat) (g : graph)
         (work vis : list (id * id)) : option bool :=
  match fuel with
  | 0 => None
  | S f =>
    match work with
    | [] => Some true
    | (a, b) :: w =>
      match expand keq g true a b with
      | AFalse => Some false
      | ANext => eq_loop keq f g w vis
      | AFuel => None
      | APush ps => eq_loop keq f g (rev ps ++ w) vis
      | AVisit _ body =>
          if mem (a, b) vis then eq_loop keq f g w vis
          else match body with
               | AFalse => Some false
               | ANext => eq_loop keq f g w ((a, b) :: vis)
               | APush ps => eq_loop keq f g (rev ps ++ w) ((a, b) :: vis)
               | _ => None
               end
      end
    end
  end.

(* size of the unfolding below a node = number of loop iterations a comparison rooted there can take *)
Fixpoint weight (n : nat) (g : graph) (a : id) : nat :=
  match n with
  | 0 => 1
  | S n' => S (fold_right (fun c acc => weight n' g c + acc) 0 (children (get g a)))
  end.

(* [d] bounds the nesting depth of key comparisons (keys of keys of ...). *)
Fixpoint eq_d (d : nat) (g : graph) (a b : id) : option bool :=
  match d with
  | 0 => None
  | S d' => eq_loop (eq_d d' g) (S (weight (S a) g a)) g [(a, b)] []
  end.

(* equal? after the repair.  Children have smaller ids than parents (wf), so depth [S a] and the
   step budget [weight] are enough: the theorems prove that [None] never comes out. *)
Definition eq_alg (g : graph) (a b : id) : option bool := eq_d (S a) g a b.

(* ---- the loop as found (DESIGN F6): visited keyed on SINGLE identities,
        `should_visit(l) && should_visit(r)` with short-circuit && *)
Fixpoint eq_loop_cur (keq : id -> id -> option bool) (fuel : nat) (g : graph)
         (work : list (id * id)) (vis : list id) : option bool :=
  match fuel with
  | 0 => None
  | S f =>
    match work with
    | [] => Some true
    | (a, b) :: w =>
      match expand keq g false a b with
      | AFalse => Some false
      | ANext => eq_loop_cur keq f g w vis
      | AFuel => None
      | APush ps => eq_loop_cur keq f g (rev ps ++ w) vis
      | AVisit ivec body =>
          if mem1 a vis then (if ivec then Some false else eq_loop_cur keq f g w vis)
          else if mem1 b (a :: vis) then (if ivec then Some false else eq_loop_cur keq f g w (a :: vis))
          else match body with
               | AFalse => Some false
               | ANext => eq_loop_cur keq f g w (b :: a :: vis)
               | APush ps => eq_loop_cur keq f g (rev ps ++ w) (b :: a :: vis)
               | _ => None
               end
      end
    end
  end.

Fixpoint eq_d_cur (d : nat) (g : graph) (a b : id) : option bool :=
  match d with
  | 0 => None
  | S d' =>
      (* PartialEq::eq matches leaves directly before entering the loop *)
      match get g a, get g b with
      | NAtom x, NAtom y => Some (atom_eqb x y)
      | _, _ => eq_loop_cur (eq_d_cur d' g) (S (weight (S a) g a)) g [(a, b)] []
      end
  end.
Definition eq_alg_current (g : graph) (a b : id) : option bool := eq_d_cur (S a) g a b.

(* ------------------------------------------------------------------------------------ the spec *)
(* unfolding of a node into a tree: sharing disappears *)
Inductive tree :=
| TAtom (a : atom)
| TOrd (t u : nat) (ts : list tree)
| TMap (kvs : list (tree * tree))
| TSet (ks : list tree).

Fixpoint unfold_n (n : nat) (g : graph) (a : id) : tree :=
  match n with
  | 0 => TAtom AVoid
  | S n' =>
    match skel_of (get g a) with
    | SAtom x => TAtom x
    | SOrd t u cs => TOrd t u (map (unfold_n n' g) cs)
    | SMap kvs => TMap (map (fun kv => (unfold_n n' g (fst kv), unfold_n n' g (snd kv))) kvs)
    | SSet ks => TSet (map (unfold_n n' g) ks)
    end
  end.
Definition unfold (g : graph) (a : id) : tree := unfold_n (S a) g a.

(* structural equality of trees: same shape and equal? leaves; maps and sets as finite maps / sets *)
Definition list_eqb {A} (f : A -> A -> bool) : list A -> list A -> bool :=
  fix go (l r : list A) : bool :=
    match l, r with
    | [], [] => true
    | x :: l', y :: r' => f x y && go l' r'
    | _, _ => false
    end.

Fixpoint tree_eqb (s t : tree) : bool :=
  match s, t with
  | TAtom x, TAtom y => atom_eqb x y
  | TOrd a u ss, TOrd b v ts => (a =? b) && (u =? v) && list_eqb tree_eqb ss ts
  | TMap kvs, TMap kvs' =>
      (List.length kvs =? List.length kvs') &&
      forallb (fun kv => existsb (fun kv' => tree_eqb (fst kv) (fst kv') && tree_eqb (snd kv) (snd kv')) kvs') kvs
  | TSet ks, TSet ks' =>
      (List.length ks =? List.length ks') &&
      forallb (fun k => existsb (fun k' => tree_eqb k k') ks') ks
  | _, _ => false
  end.

(* the same relation computed on the graph with fuel (what the proofs work with) *)
Fixpoint teq (n : nat) (g : graph) (a b : id) : bool :=
  match n with
  | 0 => false
  | S n' =>
    match skel_of (get g a), skel_of (get g b) with
    | SAtom x, SAtom y => atom_eqb x y
    | SOrd t u cs, SOrd t' u' cs' =>
        (t =? t') && (u =? u') && (List.length cs =? List.length cs') &&
        forallb (fun p => teq n' g (fst p) (snd p)) (combine cs cs')
    | SMap kvs, SMap kvs' =>
        (List.length kvs =? List.length kvs') &&
        forallb (fun kv => existsb (fun kv' => teq n' g (fst kv) (fst kv') && teq n' g (snd kv) (snd kv')) kvs') kvs
    | SSet ks, SSet ks' =>
        (List.length ks =? List.length ks') &&
        forallb (fun k => existsb (fun k' => teq n' g k k') ks') ks
    | _, _ => false
    end
  end.

(* ---- well-formedness of graphs (decidable) *)
Definition ranked (g : graph) : Prop :=
  forall a c, In c (children (get g a)) -> c < a.
Definition rankedb (g : graph) : bool :=
  forallb (fun a => forallb (fun c => c <? a) (children (get g a))) (seq 0 (List.length g)).

(* Hash maps / hash sets hold pairwise non-equal? keys; what the proofs use is the consequence that a
   key of one map matches at most one key of another: after the first match there is no second. *)
Fixpoint unamb (p : id -> bool) (l : list id) : bool :=
  match l with
  | [] => true
  | x :: r => if p x then forallb (fun y => negb (p y)) r else unamb p r
  end.
Definition keys_of (n : node) : list id :=
  match n with NMap kvs => map fst kvs | NSet ks => ks | _ => [] end.
Definition unamb_pair (g : graph) (a b : id) : bool :=
  forallb (fun k => unamb (fun k' => teq (S k) g k k') (keys_of (get g b))) (keys_of (get g a)).
Definition keys_unamb (g : graph) : Prop := forall a b, unamb_pair g a b = true.
Definition keys_unambb (g : graph) : bool :=
  forallb (fun a => forallb (fun b => unamb_pair g a b) (seq 0 (List.length g))) (seq 0 (List.length g)).

Definition nan_free (g : graph) : Prop :=
  forall a x, get g a = NAtom x -> atom_is_nan x = false.
Definition nan_freeb (g : graph) : bool :=
  forallb (fun n => match n with NAtom x => negb (atom_is_nan x) | _ => true end) g.

(* Keys whose hash is a function of their equal?-class: no mutable vector, hash map or hash set
   below the node (their Hash impls feed representation-/order-dependent tokens) and no -0.0
   (0.0 == -0.0 but the two print, hence hash, differently). *)
Fixpoint hash_stable (n : nat) (g : graph) (a : id) : bool :=
  match n with
  | 0 => false
  | S n' =>
    match get g a with
    | NAtom x => negb (atom_is_negzero x)
    | NMVec _ | NMap _ | NSet _ => false
    | m => forallb (hash_stable n' g) (children m)
    end
  end.
Definition keys_hash_stable_node (g : graph) (a : id) : bool :=
  match get g a with
  | NMap kvs => forallb (fun kv => hash_stable (S a) g (fst kv)) kvs
  | NSet ks => forallb (hash_stable (S a) g) ks
  | _ => true
  end.
Definition keys_hash_stable (g : graph) : Prop := forall a, keys_hash_stable_node g a = true.
Definition keys_hash_stableb (g : graph) : bool :=
  forallb (keys_hash_stable_node g) (seq 0 (List.length g)).

(* the decidable well-formedness the theorems assume: children precede parents (acyclic, any
   sharing), no NaN leaf, keys of maps / sets hash-stable and unambiguous *)
Definition wfb (g : graph) : bool :=
  rankedb g && nan_freeb g && keys_hash_stableb g && keys_unambb g.

(* ------------------------------------------------------------------------------------ rendering *)
Definition render_ob (r : option bool) : string :=
  match r with Some true => "#t" | Some false => "#f" | None => "FUEL" end%string.
Definition render_b (b : bool) : string := if b then "#t"%string else "#f"%string.

(* observables of the correspondence: equal?, and map / set membership of a probe *)
Definition obs_equal (g : graph) (a b : id) : string := render_ob (eq_alg g a b).
Definition obs_equal_current (g : graph) (a b : id) : string := render_ob (eq_alg_current g a b).
(* (hash-contains? (hash k 1) p) / (hashset-contains? (hashset k) p): probe p against stored key k *)
Definition obs_probe (g : graph) (k p : id) : string :=
  match lookup (eq_d (S p) g) g p [(k, k)] with
  | None => "FUEL" | Some None => "#f" | Some (Some _) => "#t"
  end%string.
Definition obs_spec (g : graph) (a b : id) : string := render_b (tree_eqb (unfold g a) (unfold g b)).
Definition obs_wf (g : graph) : string :=
  render_b (rankedb g && keys_unambb g).
Definition obs_wfb (g : graph) : string := render_b (wfb g).
