(* C11 — model of the collection primitives as functions over [list] / association lists.
   Definitions only.  Sources: steel-core/src/primitives/{lists,vectors,hashmaps,hashsets,strings,
   bytevectors}.rs and scheme/stdlib.scm (drop).  Error classes as the engine reports them
   (ErrorKind): out-of-range / empty-list / missing-key errors are Generic, a non-number where an index
   is expected (and a negative bound of substring, which fails the usize conversion) is TypeMismatch.
   Elements are integers; keys of maps and sets are integers, strings or lists of integers (keys that
   are themselves collections). *)
From Coq Require Import List Arith Bool PeanoNat ZArith String Ascii Lia.
Import ListNotations.
Local Open Scope Z_scope.

Inductive key := KInt (z : Z) | KStr (s : list nat) | KList (l : list Z).

Fixpoint nats_eqb (l r : list nat) : bool :=
  match l, r with
  | [], [] => true
  | x :: l', y :: r' => Nat.eqb x y && nats_eqb l' r'
  | _, _ => false
  end.
Fixpoint zs_eqb (l r : list Z) : bool :=
  match l, r with
  | [], [] => true
  | x :: l', y :: r' => (x =? y) && zs_eqb l' r'
  | _, _ => false
  end.
Definition key_eqb (a b : key) : bool :=
  match a, b with
  | KInt x, KInt y => x =? y
  | KStr x, KStr y => nats_eqb x y
  | KList x, KList y => zs_eqb x y
  | _, _ => false
  end.

Inductive coll :=
| CList (l : list Z)
| CMVec (l : list Z)
| CIVec (l : list Z)
| CMap (kvs : list (key * Z))
| CSet (ks : list key)
| CString (s : list nat)
| CBytes (l : list nat).

Inductive err := EIndex | EMissing | EType.
Inductive out := OInt (z : Z) | OBool (b : bool) | OFalse | OList (l : list Z)
               | OKeys (ks : list key) | OPairs (kvs : list (key * Z)).
Inductive res := RColl (c : coll) | ROut (o : out) | RErr (e : err).

(* an index argument: a number or something that is not a number *)
Inductive idx := IZ (z : Z) | IBad.

Inductive op :=
(* lists *)
| OCons (x : Z) | OAppend (l : list Z) | OReverse | OTake (n : idx) | ODrop (n : idx) | OCdr
| OLength | OListRef (i : idx) | OCar | OLast
(* vectors *)
| OVecRef (i : idx) | OVecSet (i : idx) (x : Z) | OVecLen
(* hash maps *)
| OHInsert (k : key) (v : Z) | OHRemove (k : key) | OHRef (k : key) | OHTryGet (k : key)
| OHContains (k : key) | OHLen
(* hash sets *)
| OSInsert (k : key) | OSContains (k : key) | OSLen
(* strings *)
| OStrAppend (s : list nat) | OSubstring (i j : Z) | OStrLen | OStrRef (i : idx)
(* byte vectors *)
| OBytesRef (i : idx) | OBytesLen | OBytesAppend (l : list nat) | OBytesSet (i : idx) (x : nat)
(* whole contents (lists, vectors, strings, bytes) / size (maps, sets) *)
| OSnap
(* ---- second batch (every registered pure collection primitive the generator covers) *)
| OListTail (n : idx) | OListDrop (n : idx) | OSecond | OThird | OFirst | ORest | OPushBack (x : Z)
| OAppend2 (l1 l2 : list Z) | OPrepend (l : list Z) | OMember (x : Z) | OContains (x : Z) | OTryRef (i : idx)
| OEmptyP
| OIVPush (x : Z) | OIVPushFront (x : Z) | OIVSet (i : idx) (x : Z) | OIVTake (n : idx) | OIVDrop (n : idx)
| OIVRest | OIVAppend (l : list Z) | OIVPrepend (l : list Z)
| OHUnionL (m : list (key * Z)) | OHUnionR (m : list (key * Z)) | OHClear | OHEmptyP | OHKeys | OHValues | OHToList
| OSUnionL (ks : list key) | OSUnionR (ks : list key) | OSInter (ks : list key) | OSDiff (ks : list key)
| OSSubset (ks : list key) | OSSuperset (ks : list key) | OSClear | OSToList
| OStrPrepend (s : list nat) | OStrAppend2 (s1 s2 : list nat) | OBytesPrepend (l : list nat).

(* ---- finite maps / sets as association lists with pairwise distinct keys *)
Fixpoint mlookup (k : key) (m : list (key * Z)) : option Z :=
  match m with
  | [] => None
  | (k', v) :: r => if key_eqb k k' then Some v else mlookup k r
  end.
Fixpoint mremove (k : key) (m : list (key * Z)) : list (key * Z) :=
  match m with
  | [] => []
  | (k', v) :: r => if key_eqb k k' then mremove k r else (k', v) :: mremove k r
  end.
(* hash-insert: a present key is overridden *)
Definition minsert (k : key) (v : Z) (m : list (key * Z)) : list (key * Z) := (k, v) :: mremove k m.

Definition smem (k : key) (s : list key) : bool := existsb (key_eqb k) s.
Definition sinsert (k : key) (s : list key) : list key := if smem k s then s else k :: s.

(* (hash k v ...) / (hashset k ...) : later duplicates override *)
Definition map_of (kvs : list (key * Z)) : list (key * Z) :=
  fold_left (fun m kv => minsert (fst kv) (snd kv) m) kvs [].
Definition set_of (ks : list key) : list key := fold_left (fun s k => sinsert k s) ks [].

(* hash-union: "keeping the values in the left map when the keys exist in both maps" (hashmaps.rs doc) *)
Definition munion (l r : list (key * Z)) : list (key * Z) :=
  l ++ filter (fun kv => match mlookup (fst kv) l with Some _ => false | None => true end) r.
(* hashset-union / -intersection; hashset-difference is the SYMMETRIC difference (hashsets.rs doc:
   (hashset-difference (hashset 10 20 30) (hashset 20 30 40)) => (hashset 40 10)) *)
Definition sunion (l r : list key) : list key := fold_left (fun s k => sinsert k s) r l.
Definition sinter (l r : list key) : list key := filter (fun k => smem k r) l.
Definition ssymdiff (l r : list key) : list key :=
  filter (fun k => negb (smem k r)) l ++ filter (fun k => negb (smem k l)) r.
Definition ssubset (l r : list key) : bool := forallb (fun k => smem k r) l.

(* member: the first tail whose head is the element *)
Fixpoint member_from (x : Z) (l : list Z) : option (list Z) :=
  match l with
  | [] => None
  | y :: r => if x =? y then Some l else member_from x r
  end.

(* ---- sequences with index checks *)
Definition zlen {A} (l : list A) : Z := Z.of_nat (List.length l).

Definition ref_at {A} (l : list A) (i : idx) : option (option A) :=   (* None: type error *)
  match i with
  | IBad => None
  | IZ z => Some (if (z <? 0) || (zlen l <=? z) then None else nth_error l (Z.to_nat z))
  end.

(* string-ref / bytes-ref / bytes-set! convert the index to usize first: a negative index is a
   conversion failure reported as TypeMismatch *)
Definition ref_at_u {A} (l : list A) (i : idx) : option (option A) :=
  match i with
  | IZ z => if z <? 0 then None else ref_at l i
  | IBad => None
  end.

Fixpoint set_nth {A} (l : list A) (n : nat) (x : A) : list A :=
  match l, n with
  | [], _ => []
  | _ :: r, O => x :: r
  | y :: r, S n' => y :: set_nth r n' x
  end.

Definition zs_of_nats (l : list nat) : list Z := map Z.of_nat l.

Definition step (c : coll) (o : op) : res :=
  match c, o with
  (* lists.rs: cons, append, reverse, take, cdr, length, list-ref, car, last; stdlib.scm drop *)
  | CList l, OCons x => RColl (CList (x :: l))
  | CList l, OAppend l2 => RColl (CList (l ++ l2))
  | CList l, OReverse => RColl (CList (rev l))
  | CList l, OTake IBad => RErr EType
  | CList l, OTake (IZ n) => if n <? 0 then RErr EIndex else RColl (CList (firstn (Z.to_nat n) l))
  | CList l, ODrop IBad => RErr EType
  | CList l, ODrop (IZ n) =>
      if (n <? 0) || (zlen l <? n) then RErr EIndex else RColl (CList (skipn (Z.to_nat n) l))
  | CList l, OCdr => match l with [] => RErr EIndex | _ :: r => RColl (CList r) end
  | CList l, OLength => ROut (OInt (zlen l))
  | CList l, OListRef i =>
      match ref_at l i with None => RErr EType | Some None => RErr EIndex | Some (Some x) => ROut (OInt x) end
  | CList l, OCar => match l with [] => RErr EIndex | x :: _ => ROut (OInt x) end
  | CList l, OLast => match rev l with [] => RErr EIndex | x :: _ => ROut (OInt x) end
  | CList l, OSnap => ROut (OList l)
  (* vectors.rs: vector-ref, vector-set!, vector-length on mutable vectors *)
  | CMVec l, OVecRef i =>
      match ref_at l i with None => RErr EType | Some None => RErr EIndex | Some (Some x) => ROut (OInt x) end
  | CMVec l, OVecSet i x =>      (* vector-set! converts the index to usize first: negative = TypeMismatch *)
      match ref_at_u l i with
      | None => RErr EType | Some None => RErr EIndex
      | Some (Some _) => match i with IZ z => RColl (CMVec (set_nth l (Z.to_nat z) x)) | IBad => RErr EType end
      end
  | CMVec l, OVecLen => ROut (OInt (zlen l))
  | CMVec l, OSnap => ROut (OList l)
  (* immutable vectors: vector-set! is a type error *)
  | CIVec l, OVecRef i =>
      match ref_at l i with None => RErr EType | Some None => RErr EIndex | Some (Some x) => ROut (OInt x) end
  | CIVec l, OVecSet _ _ => RErr EType
  | CIVec l, OVecLen => ROut (OInt (zlen l))
  | CIVec l, OSnap => ROut (OList l)
  (* hashmaps.rs *)
  | CMap m, OHInsert k v => RColl (CMap (minsert k v m))
  | CMap m, OHRemove k => RColl (CMap (mremove k m))
  | CMap m, OHRef k => match mlookup k m with Some v => ROut (OInt v) | None => RErr EMissing end
  | CMap m, OHTryGet k => match mlookup k m with Some v => ROut (OInt v) | None => ROut OFalse end
  | CMap m, OHContains k => ROut (OBool (match mlookup k m with Some _ => true | None => false end))
  | CMap m, OHLen => ROut (OInt (zlen m))
  | CMap m, OSnap => ROut (OInt (zlen m))
  (* hashsets.rs *)
  | CSet s, OSInsert k => RColl (CSet (sinsert k s))
  | CSet s, OSContains k => ROut (OBool (smem k s))
  | CSet s, OSLen => ROut (OInt (zlen s))
  | CSet s, OSnap => ROut (OInt (zlen s))
  (* strings.rs: string-append, substring, string-length, string-ref *)
  | CString s, OStrAppend s2 => RColl (CString (s ++ s2))
  | CString s, OSubstring i j =>
      if (i <? 0) || (j <? 0) then RErr EType
      else if (j <? i) || (zlen s <? j) then RErr EIndex
      else RColl (CString (firstn (Z.to_nat (j - i)) (skipn (Z.to_nat i) s)))
  | CString s, OStrLen => ROut (OInt (zlen s))
  | CString s, OStrRef i =>
      match ref_at_u s i with None => RErr EType | Some None => RErr EIndex
                       | Some (Some x) => ROut (OInt (Z.of_nat x)) end
  | CString s, OSnap => ROut (OList (zs_of_nats s))
  (* bytevectors.rs: bytes-ref, bytes-length, bytes-append, bytes-set! *)
  | CBytes l, OBytesRef i =>
      match ref_at_u l i with None => RErr EType | Some None => RErr EIndex
                       | Some (Some x) => ROut (OInt (Z.of_nat x)) end
  | CBytes l, OBytesLen => ROut (OInt (zlen l))
  | CBytes l, OBytesAppend l2 => RColl (CBytes (l ++ l2))
  | CBytes l, OBytesSet i x =>
      match ref_at_u l i with
      | None => RErr EType | Some None => RErr EIndex
      | Some (Some _) => match i with IZ z => RColl (CBytes (set_nth l (Z.to_nat z) x)) | IBad => RErr EType end
      end
  | CBytes l, OSnap => ROut (OList (zs_of_nats l))
  (* ---- second batch.  lists.rs: list-tail (usize index: negative = TypeMismatch, past the end = error),
     list-drop (clamps), second, third, first, rest, push-back, append with several lists, member,
     list-contains, try-list-ref, empty? *)
  | CList l, OListTail IBad => RErr EType
  | CList l, OListTail (IZ n) =>
      if n <? 0 then RErr EType else if zlen l <? n then RErr EIndex else RColl (CList (skipn (Z.to_nat n) l))
  | CList l, OListDrop IBad => RErr EType
  | CList l, OListDrop (IZ n) => if n <? 0 then RErr EType else RColl (CList (skipn (Z.to_nat n) l))
  | CList l, OSecond => match nth_error l 1 with Some x => ROut (OInt x) | None => RErr EIndex end
  | CList l, OThird => match nth_error l 2 with Some x => ROut (OInt x) | None => RErr EIndex end
  | CList l, OFirst => match l with [] => RErr EIndex | x :: _ => ROut (OInt x) end
  | CList l, ORest => match l with [] => RErr EIndex | _ :: r => RColl (CList r) end
  | CList l, OPushBack x => RColl (CList (l ++ [x]))
  | CList l, OAppend2 l1 l2 => RColl (CList (l ++ l1 ++ l2))
  | CList l, OPrepend l0 => RColl (CList (l0 ++ l))
  | CList l, OMember x => match member_from x l with Some t => ROut (OList t) | None => ROut OFalse end
  | CList l, OContains x => ROut (OBool (existsb (Z.eqb x) l))
  | CList l, OTryRef IBad => RErr EType
  | CList l, OTryRef (IZ z) =>
      if z <? 0 then RErr EIndex
      else match nth_error l (Z.to_nat z) with Some x => ROut (OInt x) | None => ROut OFalse end
  | CList l, OEmptyP => ROut (OBool (match l with [] => true | _ => false end))
  (* vectors.rs immutable vectors: push, push-front, set (usize index), take / drop (clamp), rest, append *)
  | CIVec l, OIVPush x => RColl (CIVec (l ++ [x]))
  | CIVec l, OIVPushFront x => RColl (CIVec (x :: l))
  | CIVec l, OIVSet i x =>
      match ref_at_u l i with
      | None => RErr EType | Some None => RErr EIndex
      | Some (Some _) => match i with IZ z => RColl (CIVec (set_nth l (Z.to_nat z) x)) | IBad => RErr EType end
      end
  | CIVec l, OIVTake IBad => RErr EType
  | CIVec l, OIVTake (IZ n) => if n <? 0 then RErr EType else RColl (CIVec (firstn (Z.to_nat n) l))
  | CIVec l, OIVDrop IBad => RErr EType
  | CIVec l, OIVDrop (IZ n) => if n <? 0 then RErr EType else RColl (CIVec (skipn (Z.to_nat n) l))
  | CIVec l, OIVRest => RColl (CIVec (tl l))
  | CIVec l, OIVAppend l2 => RColl (CIVec (l ++ l2))
  | CIVec l, OIVPrepend l0 => RColl (CIVec (l0 ++ l))
  (* hashmaps.rs: hash-union (left wins), hash-clear, hash-empty?, hash-keys->list, hash-values->list, hash->list *)
  | CMap m, OHUnionL m2 => RColl (CMap (munion m (map_of m2)))
  | CMap m, OHUnionR m2 => RColl (CMap (munion (map_of m2) m))
  | CMap m, OHClear => RColl (CMap [])
  | CMap m, OHEmptyP => ROut (OBool (match m with [] => true | _ => false end))
  | CMap m, OHKeys => ROut (OKeys (map fst m))
  | CMap m, OHValues => ROut (OList (map snd m))
  | CMap m, OHToList => ROut (OPairs m)
  (* hashsets.rs: union, intersection, (symmetric) difference, subset?, clear, ->list *)
  | CSet s, OSUnionL ks => RColl (CSet (sunion s (set_of ks)))
  | CSet s, OSUnionR ks => RColl (CSet (sunion (set_of ks) s))
  | CSet s, OSInter ks => RColl (CSet (sinter s (set_of ks)))
  | CSet s, OSDiff ks => RColl (CSet (ssymdiff s (set_of ks)))
  | CSet s, OSSubset ks => ROut (OBool (ssubset s (set_of ks)))
  | CSet s, OSSuperset ks => ROut (OBool (ssubset (set_of ks) s))
  | CSet s, OSClear => RColl (CSet [])
  | CSet s, OSToList => ROut (OKeys s)
  (* strings / bytes: n-ary append with the collection in any position *)
  | CString s, OStrPrepend s0 => RColl (CString (s0 ++ s))
  | CString s, OStrAppend2 s1 s2 => RColl (CString (s ++ s1 ++ s2))
  | CBytes l, OBytesPrepend l0 => RColl (CBytes (l0 ++ l))
  (* an operation of another collection kind: not generated; the engine reports a type error *)
  | _, _ => RErr EType
  end.

(* a program: the first error ends it *)
Fixpoint run (c : coll) (ops : list op) (acc : list out) : (list out * coll) + err :=
  match ops with
  | [] => inl (rev acc, c)
  | o :: rest =>
      match step c o with
      | RColl c' => run c' rest acc
      | ROut x => run c rest (x :: acc)
      | RErr e => inr e
      end
  end.

(* ---- rendering *)
Local Open Scope string_scope.
Fixpoint digits (fuel : nat) (z : Z) (acc : string) : string :=
  match fuel with
  | O => acc
  | S f =>
      let acc' := String (ascii_of_nat (48 + Z.to_nat (z mod 10))) acc in
      if (z <? 10)%Z then acc' else digits f (z / 10)%Z acc'
  end.
Definition z_str (z : Z) : string := if (z <? 0)%Z then "-" ++ digits 30 (- z) "" else digits 30 z "".
Fixpoint join (l : list string) : string :=
  match l with [] => "" | [x] => x | x :: r => x ++ " " ++ join r end.
Fixpoint chars (l : list nat) : string :=
  match l with [] => "" | c :: r => String (ascii_of_nat c) (chars r) end.
Definition key_str (k : key) : string :=
  match k with
  | KInt z => z_str z
  | KStr s => String (ascii_of_nat 34) (chars s) ++ String (ascii_of_nat 34) ""
  | KList l => "(" ++ join (map z_str l) ++ ")"
  end.
Definition out_str (o : out) : string :=
  match o with
  | OInt z => z_str z
  | OBool b => if b then "#t" else "#f"
  | OFalse => "#f"
  | OList l => "(" ++ join (map z_str l) ++ ")"
  | OKeys ks => "(" ++ join (map key_str ks) ++ ")"
  | OPairs kvs => "(" ++ join (map (fun kv => "(" ++ key_str (fst kv) ++ " " ++ z_str (snd kv) ++ ")") kvs) ++ ")"
  end.
Definition err_str (e : err) : string :=
  match e with EIndex => "E:Index" | EMissing => "E:Missing" | EType => "E:Type" end.
Definition run_str (c : coll) (ops : list op) : string :=
  match run c ops [] with
  | inl (outs, _) => "(" ++ join (map out_str outs) ++ ")"
  | inr e => err_str e
  end.
