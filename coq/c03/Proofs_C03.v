(* C03 — lemmas: persistence of the store under every operation sequence; the in-place path needs
   uniqueness; soundness of the last-use checker. *)
From Coq Require Import List Arith Bool PeanoNat Lia.
From SV Require Import c03.Model_C03.
Import ListNotations.

(* ------------------------------------------------------------------ list utilities *)
Lemma set_nth_length {A} (l : list A) n x : length (set_nth l n x) = length l.
Proof. revert n. induction l as [|y l IH]; intros [|n]; simpl; try reflexivity. rewrite IH. reflexivity. Qed.
Lemma nth_set_same {A} (l : list A) n x d : n < length l -> nth n (set_nth l n x) d = x.
Proof. revert n. induction l as [|y l IH]; intros [|n] H; simpl in *; try lia; [reflexivity|]. apply IH. lia. Qed.
Lemma nth_set_other {A} (l : list A) n m x d : n <> m -> nth m (set_nth l n x) d = nth m l d.
Proof.
  revert n m. induction l as [|y l IH]; intros [|n] [|m] H; simpl; try reflexivity; try congruence.
  apply IH. congruence.
Qed.
Lemma nth_error_set_same {A} (l : list A) n x : n < length l -> nth_error (set_nth l n x) n = Some x.
Proof. revert n. induction l as [|y l IH]; intros [|n] H; simpl in *; try lia; [reflexivity|]. apply IH. lia. Qed.
Lemma nth_error_set_other {A} (l : list A) n m x : n <> m -> nth_error (set_nth l n x) m = nth_error l m.
Proof.
  revert n m. induction l as [|y l IH]; intros [|n] [|m] H; simpl; try reflexivity; try congruence.
  apply IH. congruence.
Qed.

Lemma map_nth_length {A} (f : A -> A) l i : length (map_nth f l i) = length l.
Proof. unfold map_nth. destruct (nth_error l i); [apply set_nth_length|reflexivity]. Qed.
Lemma map_nth_same {A} (f : A -> A) l i x : nth_error l i = Some x -> nth_error (map_nth f l i) i = Some (f x).
Proof.
  intros H. unfold map_nth. rewrite H. apply nth_error_set_same. apply nth_error_Some. congruence.
Qed.
Lemma map_nth_other {A} (f : A -> A) l i j : i <> j -> nth_error (map_nth f l i) j = nth_error l j.
Proof. intros H. unfold map_nth. destruct (nth_error l i); [apply nth_error_set_other; exact H|reflexivity]. Qed.

Lemma nth_error_snoc {A} (l : list A) x j r :
  nth_error (l ++ [x]) j = Some r -> nth_error l j = Some r \/ (j = length l /\ r = x).
Proof.
  intros H. destruct (Nat.lt_ge_cases j (length l)) as [Hl|Hl].
  - left. rewrite nth_error_app1 in H by exact Hl. exact H.
  - right. rewrite nth_error_app2 in H by exact Hl. destruct (j - length l) as [|k] eqn:E; simpl in H.
    + inversion H. split; [lia|reflexivity].
    + destruct k; discriminate.
Qed.
Lemma nth_error_snoc_last {A} (l : list A) x : nth_error (l ++ [x]) (length l) = Some x.
Proof. rewrite nth_error_app2 by lia. rewrite Nat.sub_diag. reflexivity. Qed.

Lemma filter_one {A} (p : A -> bool) l j b : nth_error l j = Some b -> p b = true -> 1 <= length (filter p l).
Proof.
  revert j. induction l as [|x l IH]; intros [|j] H Hp; simpl in *; try discriminate.
  - inversion H; subst. rewrite Hp. simpl. lia.
  - destruct (p x); simpl; [lia|]. eapply IH; eauto.
Qed.
Lemma filter_two {A} (p : A -> bool) l i j a b :
  i < j -> nth_error l i = Some a -> nth_error l j = Some b -> p a = true -> p b = true ->
  2 <= length (filter p l).
Proof.
  revert i j. induction l as [|x l IH]; intros [|i] [|j] Hij Ha Hb Pa Pb; simpl in *; try discriminate; try lia.
  - inversion Ha; subst. rewrite Pa. simpl. pose proof (filter_one p l j b Hb Pb). lia.
  - assert (2 <= length (filter p l)) by (eapply (IH i j); eauto; lia). destruct (p x); simpl; lia.
Qed.

(* ------------------------------------------------------------------ the store *)
Section P.
  Variable V : Type.
  Variable dflt : V.
  Variable upd : nat -> V -> V.
  Variable upd2 : nat -> V -> V -> V.
  Variable uniq : state V -> cid -> bool.
  (* C05 (steel-rc exclusive_sound): a `unique` answer implies a sole reference *)
  Hypothesis uniq_sound : forall s c, uniq s c = true -> refcount V s c = 1.

  Notation step := (step V dflt upd upd2 uniq).
  Notation run := (run V dflt upd upd2 uniq).
  Notation Persistent := (Persistent V dflt).
  Notation denotes_ok := (denotes_ok V dflt).
  Notation live_ref := (live_ref V).
  Notation cell_val := (cell_val V dflt).

  Lemma live_ref_some s i r : live_ref s i = Some r -> nth_error (refs s) i = Some r /\ live r = true.
  Proof.
    unfold Model_C03.live_ref. destruct (nth_error (refs s) i) as [r'|]; [|discriminate].
    destruct (live r') eqn:L; [|discriminate]. intros H; inversion H; subst. auto.
  Qed.

  Lemma sole s c i j r r' :
    refcount V s c = 1 ->
    nth_error (refs s) i = Some r -> live r = true -> target r = c ->
    nth_error (refs s) j = Some r' -> live r' = true -> target r' = c -> i = j.
  Proof.
    intros Hc Hi Li Ti Hj Lj Tj. unfold refcount in Hc.
    assert (Pi : points V c r = true) by (unfold points; rewrite Li, Ti, Nat.eqb_refl; reflexivity).
    assert (Pj : points V c r' = true) by (unfold points; rewrite Lj, Tj, Nat.eqb_refl; reflexivity).
    destruct (Nat.lt_trichotomy i j) as [H|[H|H]]; [|exact H|].
    - pose proof (filter_two (points V c) (refs s) i j r r' H Hi Hj Pi Pj). lia.
    - pose proof (filter_two (points V c) (refs s) j i r' r H Hj Hi Pj Pi). lia.
  Qed.

  Lemma extend_ok s v r : denotes_ok s r -> denotes_ok (mkst (cells s ++ [v]) (refs s)) r
                                     /\ forall rs, denotes_ok (mkst (cells s ++ [v]) rs) r.
  Proof.
    intros [H1 H2].
    assert (forall rs, denotes_ok (mkst (cells s ++ [v]) rs) r).
    { intros rs. unfold Model_C03.denotes_ok, Model_C03.cell_val in *. simpl. rewrite app_length. simpl.
      split; [lia|]. rewrite app_nth1 by exact H1. exact H2. }
    split; auto.
  Qed.

  Lemma fresh_ok s v rs h : denotes_ok (mkst (cells s ++ [v]) rs) (mkref (length (cells s)) v true h).
  Proof.
    unfold Model_C03.denotes_ok, Model_C03.cell_val. simpl. rewrite app_length. simpl. split; [lia|].
    rewrite app_nth2 by lia. rewrite Nat.sub_diag. reflexivity.
  Qed.

  (* the heart: functional_update keeps every other live reference's denotation *)
  Lemma update_with_persistent s i f : Persistent s -> Persistent (update_with V dflt uniq s i f).
  Proof.
    intros HP. unfold update_with. destruct (live_ref s i) as [r|] eqn:Hl; [|exact HP].
    apply live_ref_some in Hl as [Hi Li]. destruct (HP i r Hi Li) as [Hc Hv].
    destruct (uniq s (target r)) eqn:Hu.
    - (* in place *)
      apply uniq_sound in Hu. intros j r' Hj Lj. simpl in Hj.
      apply nth_error_snoc in Hj as [Hj|[_ ->]].
      + destruct (Nat.eq_dec i j) as [->|Hne].
        * rewrite (map_nth_same (kill V) _ _ _ Hi) in Hj. inversion Hj; subst. simpl in Lj. discriminate.
        * rewrite map_nth_other in Hj by exact Hne. destruct (HP j r' Hj Lj) as [Hc' Hv'].
          assert (Ht : target r' <> target r).
          { intros E. apply Hne. eapply (sole s (target r) i j r r'); eauto. }
          unfold Model_C03.denotes_ok, Model_C03.cell_val in *. simpl. rewrite set_nth_length. split; [exact Hc'|].
          rewrite nth_set_other by congruence. exact Hv'.
      + unfold Model_C03.denotes_ok, Model_C03.cell_val. simpl. rewrite set_nth_length. split; [exact Hc|].
        apply nth_set_same. exact Hc.
    - (* copy *)
      intros j r' Hj Lj. simpl in Hj. apply nth_error_snoc in Hj as [Hj|[_ ->]].
      + apply (extend_ok s _ r' (HP j r' Hj Lj)).
      + apply fresh_ok.
  Qed.

  Lemma step_persistent s o : Persistent s -> Persistent (step s o).
  Proof.
    intros HP. destruct o as [v|i h|i h|i|u i|u i j]; simpl.
    - intros j r' Hj Lj. simpl in Hj. apply nth_error_snoc in Hj as [Hj|[_ ->]].
      + apply (extend_ok s v r' (HP j r' Hj Lj)).
      + apply fresh_ok.
    - destruct (live_ref s i) as [r|] eqn:Hl; [|exact HP]. apply live_ref_some in Hl as [Hi Li].
      intros j r' Hj Lj. simpl in Hj. apply nth_error_snoc in Hj as [Hj|[_ ->]].
      + exact (HP j r' Hj Lj).
      + destruct (HP i r Hi Li) as [Hc Hv]. split; [exact Hc|reflexivity].
    - destruct (live_ref s i) as [r|] eqn:Hl; [|exact HP]. apply live_ref_some in Hl as [Hi Li].
      intros j r' Hj Lj. simpl in Hj. destruct (Nat.eq_dec i j) as [->|Hne].
      + rewrite (map_nth_same (rehold V h) _ _ _ Hi) in Hj. inversion Hj; subst. exact (HP j r Hi Li).
      + rewrite map_nth_other in Hj by exact Hne. exact (HP j r' Hj Lj).
    - intros j r' Hj Lj. simpl in Hj. destruct (Nat.eq_dec i j) as [->|Hne].
      + destruct (nth_error (refs s) j) as [r|] eqn:Hi.
        * rewrite (map_nth_same (kill V) _ _ _ Hi) in Hj. inversion Hj; subst. simpl in Lj. discriminate.
        * unfold map_nth in Hj. rewrite Hi in Hj. congruence.
      + rewrite map_nth_other in Hj by exact Hne. exact (HP j r' Hj Lj).
    - apply update_with_persistent. exact HP.
    - destruct (live_ref s j); [apply update_with_persistent|]; exact HP.
  Qed.

  Lemma run_persistent : forall ops s, Persistent s -> Persistent (run ops s).
  Proof. induction ops as [|o ops IH]; intros s H; simpl; [exact H|]. apply IH. apply step_persistent. exact H. Qed.

  Lemma init_persistent : Persistent init.
  Proof. intros i r H. destruct i; discriminate. Qed.

  (* a reference keeps its identity (cell and ghost) for as long as it exists; it can only die *)
  Lemma update_with_ref_stable s i f k r :
    nth_error (refs s) k = Some r ->
    exists r', nth_error (refs (update_with V dflt uniq s i f)) k = Some r' /\
               target r' = target r /\ ghost r' = ghost r /\ (live r' = true -> live r = true).
  Proof.
    intros Hk. assert (Hlt : k < length (refs s)) by (apply nth_error_Some; congruence).
    unfold update_with. destruct (live_ref s i) as [ri|] eqn:Hl; [|exists r; auto].
    apply live_ref_some in Hl as [Hi _]. destruct (uniq s (target ri)); simpl.
    - destruct (Nat.eq_dec i k) as [->|Hne].
      + exists (kill V r). rewrite nth_error_app1 by (rewrite map_nth_length; exact Hlt).
        rewrite (map_nth_same (kill V) _ _ _ Hk). simpl. repeat split; auto. discriminate.
      + exists r. rewrite nth_error_app1 by (rewrite map_nth_length; exact Hlt).
        rewrite map_nth_other by exact Hne. auto.
    - exists r. rewrite nth_error_app1 by exact Hlt. auto.
  Qed.

  Lemma step_ref_stable s o k r :
    nth_error (refs s) k = Some r ->
    exists r', nth_error (refs (step s o)) k = Some r' /\
               target r' = target r /\ ghost r' = ghost r /\ (live r' = true -> live r = true).
  Proof.
    intros Hk. assert (Hlt : k < length (refs s)) by (apply nth_error_Some; congruence).
    destruct o as [v|i h|i h|i|u i|u i j]; simpl.
    - exists r. rewrite nth_error_app1 by exact Hlt. auto.
    - destruct (live_ref s i); simpl; exists r; [rewrite nth_error_app1 by exact Hlt|]; auto.
    - destruct (live_ref s i) as [ri|] eqn:Hl; simpl; [|exists r; auto].
      destruct (Nat.eq_dec i k) as [->|Hne].
      + exists (rehold V h r). rewrite (map_nth_same (rehold V h) _ _ _ Hk). simpl. auto.
      + exists r. rewrite map_nth_other by exact Hne. auto.
    - destruct (Nat.eq_dec i k) as [->|Hne].
      + exists (kill V r). rewrite (map_nth_same (kill V) _ _ _ Hk). simpl. repeat split; auto. discriminate.
      + exists r. rewrite map_nth_other by exact Hne. auto.
    - apply update_with_ref_stable. exact Hk.
    - destruct (live_ref s j); [apply update_with_ref_stable; exact Hk|exists r; auto].
  Qed.

  Lemma run_ref_stable : forall ops s k r,
    nth_error (refs s) k = Some r ->
    exists r', nth_error (refs (run ops s)) k = Some r' /\
               target r' = target r /\ ghost r' = ghost r /\ (live r' = true -> live r = true).
  Proof.
    induction ops as [|o ops IH]; intros s k r Hk; simpl; [exists r; auto|].
    destruct (step_ref_stable s o k r Hk) as [r1 [H1 [T1 [G1 L1]]]].
    destruct (IH (step s o) k r1 H1) as [r2 [H2 [T2 [G2 L2]]]].
    exists r2. repeat split; try congruence. auto.
  Qed.

  (* C03_persistent, temporal form: whatever happens after a reference was created (any operations, on
     any aliases, in place or not), as long as the reference is alive it denotes its creation value *)
  Lemma persistent_lemma : forall ops1 ops2 k r,
    nth_error (refs (run ops1 init)) k = Some r ->
    forall r', nth_error (refs (run (ops1 ++ ops2) init)) k = Some r' -> live r' = true ->
      ghost r' = ghost r /\ cell_val (run (ops1 ++ ops2) init) (target r') = ghost r.
  Proof.
    intros ops1 ops2 k r Hk r' Hk' Hl.
    assert (HP : Persistent (run (ops1 ++ ops2) init)) by (apply run_persistent, init_persistent).
    unfold Model_C03.run in *. rewrite fold_left_app in *.
    destruct (run_ref_stable ops2 _ k r Hk) as [r2 [H2 [T2 [G2 _]]]].
    unfold Model_C03.run in H2. rewrite H2 in Hk'. inversion Hk'; subst r2.
    split; [exact G2|]. destruct (HP k r' H2 Hl) as [_ Hv]. rewrite Hv. exact G2.
  Qed.

  (* C03_update_eq_fresh: the result of an update denotes the update of the value the argument denoted,
     i.e. of a fresh copy, on both paths *)
  Lemma update_eq_fresh_lemma s u i r :
    Persistent s -> live_ref s i = Some r ->
    exists r', nth_error (refs (step s (OUpdate u i))) (length (refs s)) = Some r' /\ live r' = true /\
               cell_val (step s (OUpdate u i)) (target r') = upd u (ghost r) /\
               ghost r' = upd u (ghost r).
  Proof.
    intros HP Hl. pose proof (step_persistent s (OUpdate u i) HP) as HP'.
    simpl in *. unfold update_with in *. rewrite Hl in *.
    apply live_ref_some in Hl as [Hi Li]. destruct (HP i r Hi Li) as [Hc Hv].
    destruct (uniq s (target r)); simpl in *.
    - eexists. rewrite <- (map_nth_length (kill V) (refs s) i) at 1. rewrite nth_error_snoc_last.
      split; [reflexivity|]. simpl. split; [reflexivity|].
      rewrite Hv. split; [|reflexivity]. unfold Model_C03.cell_val. simpl. apply nth_set_same. exact Hc.
    - eexists. rewrite nth_error_snoc_last. split; [reflexivity|]. simpl. split; [reflexivity|].
      rewrite Hv. split; [|reflexivity]. unfold Model_C03.cell_val. simpl.
      rewrite app_nth2 by lia. rewrite Nat.sub_diag. reflexivity.
  Qed.
End P.

(* the exact reference count satisfies the hypothesis: the theorems are not vacuous *)
Lemma uniq_exact_sound V : forall (s : state V) c, uniq_exact s c = true -> refcount V s c = 1.
Proof. intros s c H. apply Nat.eqb_eq. exact H. Qed.

(* taking the in-place path without uniqueness breaks persistence: the side condition is needed *)
Definition bad_ops : list (op nat) := [OAlloc 0; OClone 0 HSlot; OUpdate 0 0].
Lemma inplace_needs_unique_lemma :
  ~ Persistent nat 0 (run nat 0 (fun _ v => S v) (fun _ v _ => v) uniq_always bad_ops init).
Proof.
  intros H. specialize (H 1 (mkref 0 0 true HSlot) eq_refl eq_refl). destruct H as [_ H].
  vm_compute in H. discriminate.
Qed.
Lemma inplace_with_exact_ok :
  Persistent nat 0 (run nat 0 (fun _ v => S v) (fun _ v _ => v) uniq_exact bad_ops init).
Proof. apply run_persistent; [apply uniq_exact_sound|apply init_persistent]. Qed.

(* ------------------------------------------------------------------ last-use checker *)
Section InstrInd.
  Variable P : instr -> Prop.
  Variable Q : list instr -> Prop.
  Hypothesis HR : forall k, P (IRead k).
  Hypothesis HM : forall k, P (IMove k).
  Hypothesis HW : forall k, P (IWrite k).
  Hypothesis HE : forall n, P (IEnd n).
  Hypothesis HI : forall t e, Q t -> Q e -> P (IIf t e).
  Hypothesis Hnil : Q [].
  Hypothesis Hcons : forall i c, P i -> Q c -> Q (i :: c).
  Fixpoint instr_ind2 (i : instr) : P i :=
    match i with
    | IRead k => HR k | IMove k => HM k | IWrite k => HW k | IEnd n => HE n
    | IIf t e =>
        HI t e
           ((fix go (c : list instr) : Q c :=
               match c with [] => Hnil | j :: c' => Hcons j c' (instr_ind2 j) (go c') end) t)
           ((fix go (c : list instr) : Q c :=
               match c with [] => Hnil | j :: c' => Hcons j c' (instr_ind2 j) (go c') end) e)
    end.
  Fixpoint code_ind2 (c : list instr) : Q c :=
    match c with [] => Hnil | j :: c' => Hcons j c' (instr_ind2 j) (code_ind2 c') end.
End InstrInd.

Lemma exec_if t e vac ch :
  exec_i (IIf t e) vac ch = exec (if hd false ch then t else e) vac (tl ch).
Proof.
  simpl. change (match ch with b :: _ => b | [] => false end) with (hd false ch).
  generalize (if hd false ch then t else e) as c. intros c. generalize vac (tl ch).
  induction c as [|j c IH]; intros v h; simpl; [reflexivity|].
  destruct (exec_i j v h) as [[v' h']|]; [apply IH|reflexivity].
Qed.
Lemma check_go c : forall m,
  (fix go (c : list instr) (m : list nat) : option (list nat) :=
     match c with
     | [] => Some m
     | j :: c' => match check_i j m with Some m' => go c' m' | None => None end
     end) c m = check c m.
Proof. induction c as [|j c IH]; intros m; simpl; [reflexivity|]. destruct (check_i j m); [apply IH|reflexivity]. Qed.
Lemma check_if t e m :
  check_i (IIf t e) m = match check t m, check e m with Some a, Some b => Some (a ++ b) | _, _ => None end.
Proof. simpl. rewrite !check_go. reflexivity. Qed.

Lemma memb_In k l : memb k l = true <-> In k l.
Proof.
  unfold memb. rewrite existsb_exists. split.
  - intros [x [Hx E]]. apply Nat.eqb_eq in E. subst. exact Hx.
  - intros H. exists k. split; [exact H|apply Nat.eqb_refl].
Qed.
Lemma memb_false_incl k vac m : incl vac m -> memb k m = false -> memb k vac = false.
Proof.
  intros Hi Hm. destruct (memb k vac) eqn:E; [|reflexivity]. apply memb_In in E. apply Hi in E.
  apply memb_In in E. congruence.
Qed.

Definition sound_i (i : instr) : Prop := forall m m', check_i i m = Some m' ->
  forall vac ch, incl vac m -> exists vac' ch', exec_i i vac ch = Some (vac', ch') /\ incl vac' m'.
Definition sound_c (c : list instr) : Prop := forall m m', check c m = Some m' ->
  forall vac ch, incl vac m -> exists vac' ch', exec c vac ch = Some (vac', ch') /\ incl vac' m'.

Lemma check_sound_all : forall c, sound_c c.
Proof.
  apply (code_ind2 sound_i sound_c); unfold sound_i, sound_c.
  - intros k m m' H vac ch Hi. simpl in *. destruct (memb k m) eqn:E; [discriminate|]. inversion H; subst.
    rewrite (memb_false_incl k vac m' Hi E). eauto.
  - intros k m m' H vac ch Hi. simpl in *. destruct (memb k m) eqn:E; [discriminate|]. inversion H; subst.
    rewrite (memb_false_incl k vac m Hi E). eexists _, _. split; [reflexivity|].
    intros x [->|Hx]; [left; reflexivity|right; apply Hi; exact Hx].
  - intros k m m' H vac ch Hi. simpl in *. inversion H; subst. eexists _, _. split; [reflexivity|].
    intros x Hx. apply filter_In in Hx as [Hx Hf]. apply filter_In. split; [apply Hi; exact Hx|exact Hf].
  - intros n m m' H vac ch Hi. simpl in *. inversion H; subst. eexists _, _. split; [reflexivity|].
    intros x Hx. apply filter_In in Hx as [Hx Hf]. apply filter_In. split; [apply Hi; exact Hx|exact Hf].
  - intros t e IHt IHe m m' H vac ch Hi. rewrite check_if in H. rewrite exec_if.
    destruct (check t m) as [a|] eqn:Ct; [|discriminate]. destruct (check e m) as [b|] eqn:Ce; [|discriminate].
    inversion H; subst. destruct (hd false ch).
    + destruct (IHt m a Ct vac (tl ch) Hi) as [v' [h' [E I]]]. exists v', h'. split; [exact E|].
      intros x Hx. apply in_or_app. left. apply I. exact Hx.
    + destruct (IHe m b Ce vac (tl ch) Hi) as [v' [h' [E I]]]. exists v', h'. split; [exact E|].
      intros x Hx. apply in_or_app. right. apply I. exact Hx.
  - intros m m' H vac ch Hi. simpl in *. inversion H; subst. eauto.
  - intros i c IHi IHc m m' H vac ch Hi. simpl in *. destruct (check_i i m) as [m1|] eqn:Ci; [|discriminate].
    destruct (IHi m m1 Ci vac ch Hi) as [v1 [h1 [E1 I1]]]. rewrite E1.
    apply (IHc m1 m' H v1 h1 I1).
  Qed.

(* last_use_sound: code accepted by the checker never reads a slot that a MOVE vacated, on any path *)
Lemma last_use_sound_lemma c m' : check c [] = Some m' -> forall ch, exec c [] ch <> None.
Proof.
  intros H ch. destruct (check_sound_all c [] m' H [] ch (incl_refl _)) as [v [h [E _]]]. congruence.
Qed.
(* and the checker is not trivially rejecting / accepting *)
Lemma check_examples :
  check [IRead 0; IIf [IMove 0] [IRead 0; IMove 0]; IEnd 0; IMove 0] [] <> None /\
  check [IMove 0; IRead 0] [] = None /\ exec [IMove 0; IRead 0] [] [] = None /\
  check [IIf [IMove 1] []; IRead 1] [] = None.
Proof. repeat split; vm_compute; congruence. Qed.
