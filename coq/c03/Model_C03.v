(* C03 — immutable values never change: the in-place update optimisation is unobservable.
   Definitions only.

   Mechanism modelled (steel-core):
     * values of the persistent kinds live in reference-counted cells (gc.rs Gc<T> over Shared =
       steel-rc BiasedRc / Arc / Rc); variables, stack slots, captures and container elements hold
       references;
     * READLOCAL / capture / storing into a container CLONE a reference (count + 1);
       MOVEREADLOCAL (vm.rs handle_move_local, move_from_stack) MOVES it: the slot is left #<void>,
       the count is unchanged;
     * primitives whose Rust signature takes `&mut SteelVal` (list in coq/gen/Gen_C03.v) receive the
       argument slot itself; they ask `Gc::get_mut` / `make_mut` / `try_unwrap` (im-lists: `cons_mut`,
       `append_mut`, `rest_mut` -> `P::get_mut` / `make_mut`) whether the reference is unique and then
       mutate the payload in place and return the same cell
       (hashmaps.rs hash_insert:  `Some(m) => { m.insert(key, value); Ok(mem::replace(map, Void)) }`),
       otherwise build a new cell (`None => Ok(HashMapV(Gc::new(m.update(key, value))))`).
   The uniqueness answer is an oracle [uniq]; what the proofs need from it is exactly C05's theorem
   (steel-rc): a `unique` answer implies that the asking reference is the sole one.

   Ghost state: every reference records the mathematical value it denoted when it was created. *)
From Coq Require Import List Arith Bool PeanoNat String Lia.
Import ListNotations.

Definition cid := nat.

Section Store.
  Variable V : Type.                       (* mathematical values of the persistent kinds *)
  Variable dflt : V.
  Variable upd : nat -> V -> V.            (* one-argument functional updates: cons e, cdr, hash-insert k v, ... *)
  Variable upd2 : nat -> V -> V -> V.      (* two-argument ones: append, hash-union *)

  Inductive holder := HSlot | HArg | HCapture | HElem | HCont | HThread.

  Record ref := mkref { target : cid; ghost : V; live : bool; held : holder }.
  Record state := mkst { cells : list V; refs : list ref }.

  Definition init : state := mkst [] [].
  Definition cell_val (s : state) (c : cid) : V := nth c (cells s) dflt.
  Definition points (c : cid) (r : ref) : bool := live r && (target r =? c).
  Definition refcount (s : state) (c : cid) : nat := List.length (filter (points c) (refs s)).

  Fixpoint set_nth {A} (l : list A) (n : nat) (x : A) : list A :=
    match l, n with
    | [], _ => []
    | _ :: r, O => x :: r
    | y :: r, S n' => y :: set_nth r n' x
    end.
  Definition kill (r : ref) : ref := mkref (target r) (ghost r) false (held r).
  Definition rehold (h : holder) (r : ref) : ref := mkref (target r) (ghost r) (live r) h.
  Definition map_nth {A} (f : A -> A) (l : list A) (n : nat) : list A :=
    match nth_error l n with Some x => set_nth l n (f x) | None => l end.

  Inductive op :=
  | OAlloc (v : V)                  (* a constructor builds a fresh value *)
  | OClone (i : nat) (h : holder)   (* READLOCAL / capture / container insertion / continuation copy / send to a thread *)
  | OMove (i : nat) (h : holder)    (* MOVEREADLOCAL: the reference changes holder, the source slot is vacated *)
  | ODrop (i : nat)                 (* a holder dies (scope end, argument popped, container freed) *)
  | OUpdate (u : nat) (i : nat)     (* (prim x): the &mut primitive consumes argument reference i *)
  | OUpdate2 (u : nat) (i j : nat). (* (prim x y): in-place candidate is i, j is only read *)

  (* the uniqueness oracle: what Gc::get_mut / make_mut answer for reference i's cell *)
  Variable uniq : state -> cid -> bool.

  Definition live_ref (s : state) (i : nat) : option ref :=
    match nth_error (refs s) i with
    | Some r => if live r then Some r else None
    | None => None
    end.

  (* functional_update: in place when unique, copy-then-update otherwise.  The result is a NEW reference
     (appended); on the in-place path the consumed argument reference is dead afterwards (the primitive
     moved the Gc out of the slot: mem::replace(arg, Void)). *)
  Definition update_with (s : state) (i : nat) (f : V -> V) : state :=
    match live_ref s i with
    | None => s
    | Some r =>
        let c := target r in
        let v' := f (cell_val s c) in
        if uniq s c
        then mkst (set_nth (cells s) c v') (map_nth kill (refs s) i ++ [mkref c v' true HSlot])
        else mkst (cells s ++ [v']) (refs s ++ [mkref (List.length (cells s)) v' true HSlot])
    end.

  Definition step (s : state) (o : op) : state :=
    match o with
    | OAlloc v => mkst (cells s ++ [v]) (refs s ++ [mkref (List.length (cells s)) v true HSlot])
    | OClone i h =>
        match live_ref s i with
        | Some r => mkst (cells s) (refs s ++ [mkref (target r) (cell_val s (target r)) true h])
        | None => s
        end
    | OMove i h =>
        match live_ref s i with
        | Some r => mkst (cells s) (map_nth (rehold h) (refs s) i)
        | None => s
        end
    | ODrop i => mkst (cells s) (map_nth kill (refs s) i)
    | OUpdate u i => update_with s i (upd u)
    | OUpdate2 u i j =>
        match live_ref s j with
        | Some rj => update_with s i (fun v => upd2 u v (cell_val s (target rj)))
        | None => s
        end
    end.

  Definition run (ops : list op) (s : state) : state := fold_left step ops s.

  (* every live reference denotes the value it denoted when it was created *)
  Definition denotes_ok (s : state) (r : ref) : Prop :=
    target r < List.length (cells s) /\ cell_val s (target r) = ghost r.
  Definition Persistent (s : state) : Prop :=
    forall i r, nth_error (refs s) i = Some r -> live r = true -> denotes_ok s r.
End Store.

Arguments mkref {V}. Arguments mkst {V}. Arguments target {V}. Arguments ghost {V}. Arguments live {V}.
Arguments cells {V}. Arguments refs {V}. Arguments init {V}.
Arguments OAlloc {V}. Arguments OClone {V}. Arguments OMove {V}. Arguments ODrop {V}. Arguments OUpdate {V}.
Arguments OUpdate2 {V}.

(* the exact oracle (what a correct reference count answers) and the reckless one *)
Definition uniq_exact {V} (s : state V) (c : cid) : bool := refcount V s c =? 1.
Definition uniq_always {V} (s : state V) (c : cid) : bool := true.

(* ------------------------------------------------------------------------------------------------
   Last-use analysis (compiler/passes/analysis.rs last_usage -> code_gen.rs MOVEREADLOCALn): slot code
   of one function body, decoded from the real bytecode by checks/c03.py.
     IRead k  : READLOCAL k / COPYCAPTURESTACK k        IMove k : MOVEREADLOCAL k (slot := #<void>)
     IWrite k : SETLOCAL k                              IEnd n  : LETENDSCOPE n (slots >= n are gone) /
                                                                  TCOJMP (all argument slots rebound)
     IIf t e  : IF ... JMP ... *)
Inductive instr := IRead (k : nat) | IMove (k : nat) | IWrite (k : nat) | IEnd (n : nat)
                 | IIf (t e : list instr).

Definition memb (k : nat) (l : list nat) : bool := existsb (Nat.eqb k) l.

(* concrete execution: [vac] = slots that currently hold #<void> because they were moved out;
   [None] = a vacated slot is read (the program would observe #<void> instead of its value) *)
Fixpoint exec_i (i : instr) (vac : list nat) (ch : list bool) : option (list nat * list bool) :=
  match i with
  | IRead k => if memb k vac then None else Some (vac, ch)
  | IMove k => if memb k vac then None else Some (k :: vac, ch)
  | IWrite k => Some (filter (fun x => negb (x =? k)) vac, ch)
  | IEnd n => Some (filter (fun x => x <? n) vac, ch)
  | IIf t e =>
      let b := match ch with b :: _ => b | [] => false end in
      let ch' := tl ch in
      (fix go (c : list instr) (vac : list nat) (ch : list bool) : option (list nat * list bool) :=
         match c with
         | [] => Some (vac, ch)
         | j :: c' => match exec_i j vac ch with Some (vac', ch') => go c' vac' ch' | None => None end
         end) (if b then t else e) vac ch'
  end.
Fixpoint exec (c : list instr) (vac : list nat) (ch : list bool) : option (list nat * list bool) :=
  match c with
  | [] => Some (vac, ch)
  | j :: c' => match exec_i j vac ch with Some (vac', ch') => exec c' vac' ch' | None => None end
  end.

(* the checker: [m] = slots that MAY be vacated here *)
Fixpoint check_i (i : instr) (m : list nat) : option (list nat) :=
  match i with
  | IRead k => if memb k m then None else Some m
  | IMove k => if memb k m then None else Some (k :: m)
  | IWrite k => Some (filter (fun x => negb (x =? k)) m)
  | IEnd n => Some (filter (fun x => x <? n) m)
  | IIf t e =>
      let go := fix go (c : list instr) (m : list nat) : option (list nat) :=
                  match c with
                  | [] => Some m
                  | j :: c' => match check_i j m with Some m' => go c' m' | None => None end
                  end in
      match go t m, go e m with
      | Some a, Some b => Some (a ++ b)
      | _, _ => None
      end
  end.
Fixpoint check (c : list instr) (m : list nat) : option (list nat) :=
  match c with
  | [] => Some m
  | j :: c' => match check_i j m with Some m' => check c' m' | None => None end
  end.

Definition render_check (r : option (list nat)) : string :=
  match r with Some _ => "ok" | None => "violation" end%string.

(* ------------------------------------------------------------------------------------------------
   The in-place capable primitives the model and the generator know, by registered name; the generated
   list coq/gen/Gen_C03.v must coincide with it (Properties_C03: inplace_prims_covered). *)
Local Open Scope string_scope.
Definition known_inplace : list string :=
  ["hash-remove"; "hash-insert"; "hash-clear"; "hash-union"; "hashset-insert"; "hashset-clear";
   "#%const-list"; "cons"; "reverse"; "cdr"; "rest"; "append"; "string-push";
   "immutable-vector-rest"; "immutable-vector-push"; "vector-push-front"; "immutable-vector-set";
   "immutable-vector-take"; "immutable-vector-drop";
   (* declared with #[function] but not registered in any module (unreachable from scripts): *)
   "immutable-vector-pop-back"; "vector-push"].
(* the uniqueness-test / in-place call sites per file the model accounts for (file, call, how many) *)
Definition known_sites : list (string * string * nat) :=
  [("primitives/hashmaps.rs", "Gc::get_mut", 4); ("primitives/hashsets.rs", "Gc::get_mut", 2);
   ("primitives/lists.rs", "append_mut", 1); ("primitives/lists.rs", "cdr_mut", 3);
   ("primitives/lists.rs", "cons_mut", 2); ("primitives/lists.rs", "push_back", 1);
   ("primitives/lists.rs", "rest_mut", 3); ("primitives/strings.rs", "Gc::make_mut", 1);
   ("primitives/vectors.rs", "Gc::get_mut", 8); ("primitives/vectors.rs", "push_back", 5);
   ("steel_vm/primitives.rs", "push_back", 2)].
Definition site_eqb (a b : string * string * nat) : bool :=
  String.eqb (fst (fst a)) (fst (fst b)) && String.eqb (snd (fst a)) (snd (fst b)) && Nat.eqb (snd a) (snd b).
Fixpoint sites_eqb (a b : list (string * string * nat)) : bool :=
  match a, b with
  | [], [] => true
  | x :: a', y :: b' => site_eqb x y && sites_eqb a' b'
  | _, _ => false
  end.
Definition subset (a b : list string) : bool := forallb (fun x => existsb (String.eqb x) b) a.
