(* Compiled on every run of the C03 check: pins each statement and prints its assumptions. *)
From Coq Require Import List Arith Bool PeanoNat.
From SV Require Import c03.Model_C03 c03.Proofs_C03 gen.Gen_C03 c03.Properties_C03.
Import ListNotations.

Check (C03_invariant : forall V dflt upd upd2 (uniq : state V -> cid -> bool),
  (forall s c, uniq s c = true -> refcount V s c = 1) ->
  forall ops, Persistent V dflt (run V dflt upd upd2 uniq ops init)).
Check (C03_persistent : forall V dflt upd upd2 (uniq : state V -> cid -> bool),
  (forall s c, uniq s c = true -> refcount V s c = 1) ->
  forall ops1 ops2 k r,
    nth_error (refs (run V dflt upd upd2 uniq ops1 init)) k = Some r ->
    forall r', nth_error (refs (run V dflt upd upd2 uniq (ops1 ++ ops2) init)) k = Some r' -> live r' = true ->
      ghost r' = ghost r /\ cell_val V dflt (run V dflt upd upd2 uniq (ops1 ++ ops2) init) (target r') = ghost r).
Check (C03_update_eq_fresh : forall V dflt upd upd2 (uniq : state V -> cid -> bool),
  (forall s c, uniq s c = true -> refcount V s c = 1) ->
  forall s u i r, Persistent V dflt s -> live_ref V s i = Some r ->
    exists r', nth_error (refs (step V dflt upd upd2 uniq s (OUpdate u i))) (length (refs s)) = Some r' /\
               live r' = true /\
               cell_val V dflt (step V dflt upd upd2 uniq s (OUpdate u i)) (target r') = upd u (ghost r) /\
               ghost r' = upd u (ghost r)).
Check (C03_inplace_needs_unique : ~ Persistent nat 0 (run nat 0 (fun _ v => S v) (fun _ v _ => v) uniq_always bad_ops init)).
Check (C03_exact_count_suffices : forall V (s : state V) c, uniq_exact s c = true -> refcount V s c = 1).
Check (C03_last_use_sound : forall c m', check c [] = Some m' -> forall ch, exec c [] ch <> None).
Check (C03_checker_nontrivial : check [IRead 0; IIf [IMove 0] [IRead 0; IMove 0]; IEnd 0; IMove 0] [] <> None /\
  check [IMove 0; IRead 0] [] = None /\ exec [IMove 0; IRead 0] [] [] = None /\
  check [IIf [IMove 1] []; IRead 1] [] = None).
Check (C03_inplace_prims_covered : subset inplace_prims known_inplace && subset known_inplace inplace_prims = true).
Check (C03_inplace_sites_covered : sites_eqb inplace_sites known_sites = true).

Print Assumptions C03_invariant.
Print Assumptions C03_persistent.
Print Assumptions C03_update_eq_fresh.
Print Assumptions C03_inplace_needs_unique.
Print Assumptions C03_exact_count_suffices.
Print Assumptions C03_last_use_sound.
Print Assumptions C03_checker_nontrivial.
Print Assumptions C03_inplace_prims_covered.
Print Assumptions C03_inplace_sites_covered.
