(* C03 — property theorems only (each closed by [exact lemma]); statements pinned in Pins_C03.v. *)
From Coq Require Import List Arith Bool PeanoNat.
From SV Require Import c03.Model_C03 c03.Proofs_C03 gen.Gen_C03.
Import ListNotations.

(* Every state reachable by ANY sequence of alloc / clone / move / drop / update operations (any
   aliasing pattern, any subset of uses being last uses, in-place or copying path) is persistent:
   each live reference denotes the value it denoted when it was created.  The only assumption on the
   uniqueness oracle is C05's: a `unique` answer implies a sole reference. *)
Theorem C03_invariant : forall V dflt upd upd2 (uniq : state V -> cid -> bool),
  (forall s c, uniq s c = true -> refcount V s c = 1) ->
  forall ops, Persistent V dflt (run V dflt upd upd2 uniq ops init).
Proof. intros. apply run_persistent; [assumption|apply init_persistent]. Qed.

(* temporal form: a reference created at some point keeps denoting its creation value across every
   later operation sequence for as long as it is alive *)
Theorem C03_persistent : forall V dflt upd upd2 (uniq : state V -> cid -> bool),
  (forall s c, uniq s c = true -> refcount V s c = 1) ->
  forall ops1 ops2 k r,
    nth_error (refs (run V dflt upd upd2 uniq ops1 init)) k = Some r ->
    forall r', nth_error (refs (run V dflt upd upd2 uniq (ops1 ++ ops2) init)) k = Some r' -> live r' = true ->
      ghost r' = ghost r /\ cell_val V dflt (run V dflt upd upd2 uniq (ops1 ++ ops2) init) (target r') = ghost r.
Proof. exact persistent_lemma. Qed.

(* a functional update returns the update of (a fresh copy of) the value its argument denoted *)
Theorem C03_update_eq_fresh : forall V dflt upd upd2 (uniq : state V -> cid -> bool),
  (forall s c, uniq s c = true -> refcount V s c = 1) ->
  forall s u i r, Persistent V dflt s -> live_ref V s i = Some r ->
    exists r', nth_error (refs (step V dflt upd upd2 uniq s (OUpdate u i))) (length (refs s)) = Some r' /\
               live r' = true /\
               cell_val V dflt (step V dflt upd upd2 uniq s (OUpdate u i)) (target r') = upd u (ghost r) /\
               ghost r' = upd u (ghost r).
Proof. exact update_eq_fresh_lemma. Qed.

(* the side condition is exactly what is needed: the in-place path with two references breaks persistence *)
Theorem C03_inplace_needs_unique :
  ~ Persistent nat 0 (run nat 0 (fun _ v => S v) (fun _ v _ => v) uniq_always bad_ops init).
Proof. exact inplace_needs_unique_lemma. Qed.

(* the exact reference count satisfies the hypothesis (non-vacuity) *)
Theorem C03_exact_count_suffices : forall V (s : state V) c, uniq_exact s c = true -> refcount V s c = 1.
Proof. exact uniq_exact_sound. Qed.

(* last-use analysis: slot code accepted by [check] never reads a slot vacated by a MOVE, on any path *)
Theorem C03_last_use_sound : forall c m', check c [] = Some m' -> forall ch, exec c [] ch <> None.
Proof. exact last_use_sound_lemma. Qed.

Theorem C03_checker_nontrivial :
  check [IRead 0; IIf [IMove 0] [IRead 0; IMove 0]; IEnd 0; IMove 0] [] <> None /\
  check [IMove 0; IRead 0] [] = None /\ exec [IMove 0; IRead 0] [] [] = None /\
  check [IIf [IMove 1] []; IRead 1] [] = None.
Proof. exact check_examples. Qed.

(* generated facts (coq/gen/Gen_C03.v, rewritten from /repo on every run): the primitives that receive
   their arguments by `&mut` and the in-place call sites are exactly the ones the model accounts for *)
Theorem C03_inplace_prims_covered :
  subset inplace_prims known_inplace && subset known_inplace inplace_prims = true.
Proof. vm_compute. reflexivity. Qed.

Theorem C03_inplace_sites_covered : sites_eqb inplace_sites known_sites = true.
Proof. vm_compute. reflexivity. Qed.
