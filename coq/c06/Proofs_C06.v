(* C06 -- lemmas.  Part 1: generated facts (they are re-checked against /repo on every run). *)
From Coq Require Import List Arith Bool Lia.
From SV Require Import gen.Gen_C06 c06.Model_C06.
Import ListNotations.

Lemma mem_op_In : forall o l, mem_op o l = true <-> In o l.
Proof.
  intros o l; unfold mem_op; rewrite existsb_exists; split.
  - intros [x [Hin Heq]]. apply op_eqb_eq in Heq. subst. exact Hin.
  - intros H. exists o. split; [exact H | apply op_eqb_eq; reflexivity].
Qed.

(* every op code whose payload the interner rewrites to a global slot is an op code the recycler scans *)
Lemma scan_covers_refs_l : forall o, In o interned_ops -> In o scanned_ops.
Proof.
  intros o H.
  assert (A : forallb (fun x => mem_op x scanned_ops) interned_ops = true) by (vm_compute; reflexivity).
  rewrite forallb_forall in A. apply mem_op_In. apply A. exact H.
Qed.

Lemma scan_covers_refs_b : forall o, refs_global o = true -> scanned cfg_now o = true.
Proof.
  intros o H. unfold refs_global in H. apply mem_op_In in H.
  unfold scanned, cfg_now; cbn [c_scanned]. apply mem_op_In. apply scan_covers_refs_l. exact H.
Qed.

Lemma config_now_sound : config_sound cfg_now.
Proof.
  unfold config_sound. split; [exact scan_covers_refs_b|].
  repeat split; reflexivity.
Qed.
