(* C06 -- lemmas.  Part 2: the invariant [Bound] is preserved by every evaluation step (add, the two interner passes,
   roll-back of a failed build, slot recycling with its walk through the heap, running the unit), for every
   configuration that satisfies [config_sound] -- in particular the one generated from /repo
   (Proofs_C06.config_now_sound); the earlier variants of the scan and of the roll-back are refuted by witnesses. *)
From Coq Require Import List Arith Bool Lia.
From SV Require Import gen.Gen_C06 c06.Model_C06 c06.Proofs_C06.
Import ListNotations.
Open Scope list_scope.


(* ------------------------------------------------------------------ lists *)

Lemma nth_set_nth : forall {A} (l : list A) n m x d,
  nth m (set_nth n x l) d = if Nat.eqb m n then (if Nat.ltb n (length l) then x else nth m l d) else nth m l d.
Proof.
  induction l as [|y r IH]; intros n m x d.
  - destruct n; destruct m as [|m]; simpl; try reflexivity; destruct (Nat.eqb m n); reflexivity.
  - destruct n as [|n]; destruct m as [|m]; simpl; try reflexivity.
    rewrite IH. destruct (Nat.eqb m n) eqn:E; try reflexivity.
Qed.

Lemma length_set_nth : forall {A} (l : list A) n x, length (set_nth n x l) = length l.
Proof. induction l; intros [|n] x; simpl; auto. Qed.

Lemma nth_set_nth_pad : forall {A} (d : A) n m x l,
  nth m (set_nth_pad d n x l) d = if Nat.eqb m n then x else nth m l d.
Proof.
  intros A d n. induction n as [|n IH]; intros m x l.
  - destruct l; destruct m; simpl; try reflexivity. destruct m; reflexivity.
  - destruct l as [|y r]; destruct m as [|m]; simpl; try reflexivity.
    + rewrite IH. destruct (Nat.eqb m n); try reflexivity. destruct m; reflexivity.
    + rewrite IH. reflexivity.
Qed.

Lemma length_set_nth_pad : forall {A} (d : A) n x l,
  length (set_nth_pad d n x l) = Nat.max (length l) (S n).
Proof.
  intros A d n. induction n as [|n IH]; intros x l.
  - destruct l; simpl; try reflexivity. lia.
  - destruct l as [|y r]; simpl; rewrite IH; simpl; lia.
Qed.

Lemma mem_slot_In : forall s l, mem_slot s l = true <-> In s l.
Proof.
  intros s l. unfold mem_slot. rewrite existsb_exists. split.
  - intros [x [H1 H2]]. apply Nat.eqb_eq in H2. subst. exact H1.
  - intros H. exists s. split; [exact H | apply Nat.eqb_refl].
Qed.

Lemma mem_slot_false : forall s l, mem_slot s l = false <-> ~ In s l.
Proof.
  intros s l. rewrite <- mem_slot_In. destruct (mem_slot s l); split; intros; try congruence.
Qed.

(* ------------------------------------------------------------------ lookup *)

Lemma lookup_remove_name : forall m x y,
  lookup (remove_name x m) y = if Nat.eqb y x then None else lookup m y.
Proof.
  induction m as [|[z s] r IH]; intros x y; simpl.
  - destruct (Nat.eqb y x); reflexivity.
  - destruct (Nat.eqb x z) eqn:E; simpl.
    + apply Nat.eqb_eq in E. subst z. rewrite IH. destruct (Nat.eqb y x) eqn:E2; reflexivity.
    + rewrite IH. destruct (Nat.eqb y z) eqn:E2; [|reflexivity].
      apply Nat.eqb_eq in E2. subst z. rewrite Nat.eqb_sym. rewrite E. reflexivity.
Qed.

Lemma lookup_add : forall m x idx y,
  lookup ((x, idx) :: remove_name x m) y = if Nat.eqb y x then Some idx else lookup m y.
Proof.
  intros. simpl. rewrite lookup_remove_name. destruct (Nat.eqb y x); reflexivity.
Qed.


(* ------------------------------------------------------------------ ownership order *)

Definition owner_le (e1 e2 : eng) : Prop := forall s b, owner_of e1 s = Some b -> owner_of e2 s = Some b.

Lemma owner_le_refl : forall e, owner_le e e.
Proof. intros e s b H; exact H. Qed.

Lemma owner_le_trans : forall a b c, owner_le a b -> owner_le b c -> owner_le a c.
Proof. intros a b c H1 H2 s x H. apply H2, H1, H. Qed.

Lemma instr_ok_le : forall e1 e2 h idx i, owner_le e1 e2 -> instr_ok e1 h idx i -> instr_ok e2 h idx i.
Proof.
  intros e1 e2 h idx i L H R. destruct (H R) as [b [H1 H2]]. exists b. split; [exact H1 | apply L; exact H2].
Qed.

Lemma body_ok_le : forall e1 e2 h b idx, owner_le e1 e2 -> body_ok e1 h idx b -> body_ok e2 h idx b.
Proof.
  intros e1 e2 h b. induction b as [|i r IH]; intros idx L H; simpl in *; [exact I|].
  destruct H as [H1 H2]. split; [eapply instr_ok_le; eauto | apply IH; auto].
Qed.

Lemma val_ok_le : forall e1 e2 v, owner_le e1 e2 -> val_ok e1 v -> val_ok e2 v.
Proof.
  intros e1 e2 v L. induction v; simpl; intros H; auto.
  - destruct H as [H1 H2]. split; [eapply body_ok_le; eauto | auto].
  - destruct H as [H1 H2]. split; auto.
Qed.

(* ------------------------------------------------------------------ good values and states (heap cells) *)

Lemma vgood_le : forall e1 e2 hp G v, owner_le e1 e2 -> vgood e1 hp G v -> vgood e2 hp G v.
Proof. intros e1 e2 hp G v L [H1 H2]. split; [eapply val_ok_le; eauto | exact H2]. Qed.

Lemma sok_le : forall e1 e2 G g hp, owner_le e1 e2 -> sok e1 G g hp -> sok e2 G g hp.
Proof.
  intros e1 e2 G g hp L [H1 H2]. split.
  - intros s. eapply vgood_le; eauto.
  - intros a Ha. eapply vgood_le; eauto.
Qed.

(* the heap grew (and cells may have been assigned): the good set grew with it *)
Definition ext (hp : list val) (G : list nat) (hp' : list val) (G' : list nat) : Prop :=
  incl G G' /\ length hp <= length hp' /\ (forall a, length hp <= a -> a < length hp' -> In a G').

Lemma ext_refl : forall hp G, ext hp G hp G.
Proof. intros hp G. split; [apply incl_refl|]. split; [lia|]. intros a H1 H2. lia. Qed.

Lemma ext_trans : forall h1 G1 h2 G2 h3 G3, ext h1 G1 h2 G2 -> ext h2 G2 h3 G3 -> ext h1 G1 h3 G3.
Proof.
  intros h1 G1 h2 G2 h3 G3 [A1 [A2 A3]] [B1 [B2 B3]]. split; [eapply incl_tran; eauto|]. split; [lia|].
  intros a H1 H2. destruct (lt_dec a (length h2)); [apply B1, A3; lia | apply B3; lia].
Qed.

Lemma vgood_ext : forall e hp G hp' G' v, ext hp G hp' G' -> vgood e hp G v -> vgood e hp' G' v.
Proof.
  intros e hp G hp' G' v [A1 [A2 A3]] [H1 H2]. split; [exact H1|].
  intros a Ha Hlt. destruct (lt_dec a (length hp)); [apply A1, H2; assumption | apply A3; lia].
Qed.

Lemma vgood_atom_int : forall e hp G n, vgood e hp G (VInt n).
Proof. intros. split; [exact I | intros a []]. Qed.
Lemma vgood_void : forall e hp G, vgood e hp G VVoid.
Proof. intros. split; [exact I | intros a []]. Qed.
Lemma vgood_nil : forall e hp G, vgood e hp G VNil.
Proof. intros. split; [exact I | intros a []]. Qed.

Lemma vgood_pair : forall e hp G a b, vgood e hp G (VPair a b) <-> vgood e hp G a /\ vgood e hp G b.
Proof.
  intros e hp G a b. unfold vgood, cells_ok. simpl. split.
  - intros [[V1 V2] C]. split; (split; [assumption|]); intros x Hx; apply C; apply in_or_app; [left|right]; exact Hx.
  - intros [[V1 C1] [V2 C2]]. split; [split; assumption|]. intros x Hx. apply in_app_or in Hx. destruct Hx; [apply C1 | apply C2]; assumption.
Qed.

Lemma vgood_clo_caps : forall e hp G h b c, vgood e hp G (VClo h b c) -> vgood e hp G c.
Proof. intros e hp G h b c [[V1 V2] C]. split; [exact V2 | exact C]. Qed.

Lemma vgood_ref : forall e hp G a, vgood e hp G (VRef a) <-> (a < length hp -> In a G).
Proof.
  intros e hp G a. unfold vgood, cells_ok. simpl. split.
  - intros [_ C]. apply C. left. reflexivity.
  - intros H. split; [exact I|]. intros x [Hx|[]]. subst. exact H.
Qed.

Lemma sok_cell : forall e G g hp a, sok e G g hp -> vgood e hp G (VRef a) -> vgood e hp G (nth a hp VVoid).
Proof.
  intros e G g hp a [S1 S2] V. destruct (lt_dec a (length hp)) as [L|L].
  - apply S2. apply (proj1 (vgood_ref e hp G a) V L).
  - rewrite nth_overflow; [apply vgood_void | lia].
Qed.

Lemma sok_set_glob : forall e G g hp n v, sok e G g hp -> vgood e hp G v -> sok e G (set_nth n v g) hp.
Proof.
  intros e G g hp n v [S1 S2] V. split; [|exact S2]. intros s. rewrite nth_set_nth.
  destruct (Nat.eqb s n); [destruct (Nat.ltb n (length g)); [exact V | apply S1] | apply S1].
Qed.

Lemma sok_define_idx : forall e G g hp n v, sok e G g hp -> vgood e hp G v -> sok e G (define_idx n v g) hp.
Proof.
  intros e G g hp n v [S1 S2] V. split; [|exact S2]. intros s. unfold define_idx. rewrite nth_set_nth_pad.
  destruct (Nat.eqb s n); [exact V | apply S1].
Qed.

Lemma sok_set_cell : forall e G g hp a v, sok e G g hp -> vgood e hp G v -> sok e G g (set_nth a v hp).
Proof.
  intros e G g hp a v [S1 S2] V.
  assert (K : forall w, vgood e hp G w -> vgood e (set_nth a v hp) G w).
  { intros w [W1 W2]. split; [exact W1|]. intros x Hx Hl. rewrite length_set_nth in Hl. apply W2; assumption. }
  split.
  - intros s. apply K, S1.
  - intros b Hb. rewrite nth_set_nth. destruct (Nat.eqb b a); [destruct (Nat.ltb a (length hp))|]; apply K; auto.
Qed.

Lemma sok_alloc : forall e G g hp v, sok e G g hp -> vgood e hp G v ->
  sok e (length hp :: G) g (hp ++ [v]) /\ ext hp G (hp ++ [v]) (length hp :: G).
Proof.
  intros e G g hp v [S1 S2] V.
  assert (E : ext hp G (hp ++ [v]) (length hp :: G)).
  { split; [intros x Hx; right; exact Hx|]. split; [rewrite app_length; simpl; lia|].
    intros a H1 H2. rewrite app_length in H2. simpl in H2. left. lia. }
  split; [|exact E]. split.
  - intros s. eapply vgood_ext; [exact E | apply S1].
  - intros a [Ha|Ha].
    + subst a. rewrite nth_middle. eapply vgood_ext; [exact E | exact V].
    + destruct (lt_dec a (length hp)) as [L|L].
      * rewrite app_nth1; [|exact L]. eapply vgood_ext; [exact E | apply S2; exact Ha].
      * destruct (Nat.eq_dec a (length hp)) as [Q|Q].
        -- subst a. rewrite nth_middle. eapply vgood_ext; [exact E | exact V].
        -- rewrite nth_overflow; [apply vgood_void | rewrite app_length; simpl; lia].
Qed.

Lemma dig_void : forall f hp, dig f hp VVoid = VVoid.
Proof. intros [|f] hp; reflexivity. Qed.

Lemma dig_good : forall e G g hp, sok e G g hp -> forall f v, vgood e hp G v -> vgood e hp G (dig f hp v).
Proof.
  intros e G g hp S. induction f as [|f IH]; intros v V; simpl; [exact V|].
  destruct v; try exact V.
  - apply IH. apply (proj1 (vgood_pair _ _ _ _ _) V).
  - apply IH. eapply sok_cell; eauto.
Qed.

(* ------------------------------------------------------------------ calls *)

(* the body loop of [call], with the recursive call abstracted *)
Fixpoint go_body (callf : list val -> val -> nat -> list val * option val) (digf : val -> val)
         (h : option opcode) (caps : val) (arg : nat) (idx : nat) (b : list instr) (g : list val)
  : list val * option val :=
  match b with
  | [] => (g, Some VNil)
  | i :: rest =>
      let o := true_op h idx i in
      let a := match i_imm i with Some k => k | None => arg end in
      let '(g1, r1) :=
        if op_eqb o Op_PUSH then
          (g, if Nat.ltb (i_pay i) (length g) then Some (Some (nth (i_pay i) g VVoid)) else None)
        else if op_eqb o Op_SET then
          if Nat.ltb (i_pay i) (length g)
          then (set_nth (i_pay i) (VInt a) g, Some (Some (nth (i_pay i) g VVoid)))
          else (g, None)
        else if is_call_op o then
          if Nat.ltb (i_pay i) (length g)
          then let '(g', r) := callf g (nth (i_pay i) g VVoid) a in (g', option_map Some r)
          else (g, None)
        else if op_eqb o Op_READCAPTURED then
          match digf caps with
          | VClo h' b' c' => let '(g', r) := callf g (VClo h' b' c') a in (g', option_map Some r)
          | other => (g, Some (Some other))
          end
        else (g, Some None) in
      match r1 with
      | None => (g1, None)
      | Some out =>
          let '(g2, r2) := go_body callf digf h caps arg (S idx) rest g1 in
          (g2, match out with Some v => option_map (VPair v) r2 | None => r2 end)
      end
  end.

Lemma call_unfold : forall fuel hp g h body caps arg,
  call (S fuel) hp g (VClo h body caps) arg = go_body (call fuel hp) (dig fuel hp) h caps arg 0 body g.
Proof.
  intros fuel hp g h body caps arg. cbn [call]. generalize 0 as idx. revert g.
  induction body as [|i rest IH]; intros g idx.
  - reflexivity.
  - cbn [go_body].
    match goal with |- (let '(g1, r1) := ?X in _) = _ => destruct X as [g1 r1] end.
    destruct r1 as [out|]; [|reflexivity].
    rewrite IH. reflexivity.
Qed.

Definition callf_ok (e : eng) (G : list nat) (hp : list val) (callf : list val -> val -> nat -> list val * option val) : Prop :=
  forall g f arg, sok e G g hp -> vgood e hp G f ->
    sok e G (fst (callf g f arg)) hp /\ (forall v, snd (callf g f arg) = Some v -> vgood e hp G v) /\
    length (fst (callf g f arg)) = length g.

Lemma go_body_ok : forall e G hp callf digf h caps arg, callf_ok e G hp callf ->
  (forall g, sok e G g hp -> vgood e hp G (digf caps)) ->
  forall b idx g, sok e G g hp ->
    sok e G (fst (go_body callf digf h caps arg idx b g)) hp /\
    (forall v, snd (go_body callf digf h caps arg idx b g) = Some v -> vgood e hp G v) /\
    length (fst (go_body callf digf h caps arg idx b g)) = length g.
Proof.
  intros e G hp callf digf h caps arg CF VC. induction b as [|i rest IH]; intros idx g SK.
  - simpl. split; [exact SK|]. split; [|reflexivity]. intros v Hv. inversion Hv. apply vgood_nil.
  - cbn [go_body].
    set (o := true_op h idx i). set (a := match i_imm i with Some k => k | None => arg end).
    assert (STEP : forall g1 r1,
      (if op_eqb o Op_PUSH then
          (g, if Nat.ltb (i_pay i) (length g) then Some (Some (nth (i_pay i) g VVoid)) else None)
        else if op_eqb o Op_SET then
          if Nat.ltb (i_pay i) (length g)
          then (set_nth (i_pay i) (VInt a) g, Some (Some (nth (i_pay i) g VVoid)))
          else (g, None)
        else if is_call_op o then
          if Nat.ltb (i_pay i) (length g)
          then let '(g', r) := callf g (nth (i_pay i) g VVoid) a in (g', option_map Some r)
          else (g, None)
        else if op_eqb o Op_READCAPTURED then
          match digf caps with
          | VClo h' b' c' => let '(g', r) := callf g (VClo h' b' c') a in (g', option_map Some r)
          | other => (g, Some (Some other))
          end
        else (g, Some None)) = (g1, r1) ->
      sok e G g1 hp /\ length g1 = length g /\ (forall v, r1 = Some (Some v) -> vgood e hp G v)).
    { intros g1 r1 E. pose proof SK as [S1 S2].
      destruct (op_eqb o Op_PUSH).
      { injection E as <- <-. split; [exact SK|]. split; [reflexivity|].
        intros v Hv. destruct (Nat.ltb (i_pay i) (length g)); inversion Hv. apply S1. }
      destruct (op_eqb o Op_SET).
      { destruct (Nat.ltb (i_pay i) (length g)); injection E as <- <-.
        - split; [apply sok_set_glob; [exact SK | apply vgood_atom_int]|]. split; [apply length_set_nth|].
          intros v Hv. inversion Hv. apply S1.
        - split; [exact SK|]. split; [reflexivity|]. intros v Hv. discriminate. }
      destruct (is_call_op o).
      { destruct (Nat.ltb (i_pay i) (length g)).
        - destruct (CF g (nth (i_pay i) g VVoid) a SK (S1 _)) as [C1 [C2 C3]].
          destruct (callf g (nth (i_pay i) g VVoid) a) as [g' r]. simpl in *. injection E as <- <-.
          split; [exact C1|]. split; [exact C3|]. intros v Hv. destruct r; inversion Hv; subst. apply C2. reflexivity.
        - injection E as <- <-. split; [exact SK|]. split; [reflexivity|]. intros v Hv. discriminate. }
      destruct (op_eqb o Op_READCAPTURED).
      { pose proof (VC g SK) as VD.
        destruct (digf caps) as [n| | |hdr body caps'|pa pb|ra];
          try (injection E as <- <-; split; [exact SK|]; split; [reflexivity|]; intros v Hv; inversion Hv; subst; exact VD).
        destruct (CF g (VClo hdr body caps') a SK VD) as [C1 [C2 C3]].
        destruct (callf g (VClo hdr body caps') a) as [g' r]. simpl in *. injection E as <- <-.
        split; [exact C1|]. split; [exact C3|]. intros v Hv. destruct r; inversion Hv; subst. apply C2. reflexivity. }
      injection E as <- <-. split; [exact SK|]. split; [reflexivity|]. intros v Hv. discriminate. }
    match goal with |- context [let '(g1, r1) := ?X in _] => destruct X as [g1 r1] eqn:EX end.
    destruct (STEP g1 r1 eq_refl) as [T1 [T2 T3]].
    destruct r1 as [out|].
    + destruct (IH (S idx) g1 T1) as [I1 [I2 I3]].
      destruct (go_body callf digf h caps arg (S idx) rest g1) as [g2 r2]. simpl in *.
      split; [exact I1|]. split; [|lia].
      intros v Hv. destruct out as [w|].
      * destruct r2 as [r2v|]; inversion Hv; subst. apply vgood_pair. split; [apply T3; reflexivity | apply I2; reflexivity].
      * apply I2. exact Hv.
    + simpl. split; [exact T1|]. split; [|exact T2]. intros v Hv. discriminate.
Qed.

Lemma call_ok : forall e G hp fuel, callf_ok e G hp (call fuel hp).
Proof.
  intros e G hp. induction fuel as [|fuel IH]; intros g f arg SK V.
  - simpl. split; [exact SK|]. split; [intros v Hv; discriminate | reflexivity].
  - destruct f; try (simpl; split; [exact SK|]; split; [intros v Hv; discriminate | reflexivity]).
    rewrite call_unfold.
    apply go_body_ok; auto.
    intros g' S'. eapply dig_good; [exact S'|]. eapply vgood_clo_caps; exact V.
Qed.


(* ------------------------------------------------------------------ compiled code *)

Fixpoint rexpr_okP (P : instr -> Prop) (r : rexpr) : Prop :=
  match r with
  | RLam _ _ body cap => Forall P body /\ rexpr_okP P cap
  | RPair a b => rexpr_okP P a /\ rexpr_okP P b
  | RSetCell _ a b => rexpr_okP P a /\ rexpr_okP P b
  | RBox _ a => rexpr_okP P a
  | RUnbox a => rexpr_okP P a
  | RCar a => rexpr_okP P a
  | RCdr a => rexpr_okP P a
  | RCall a _ => rexpr_okP P a
  | RSet _ _ a => rexpr_okP P a
  | _ => True
  end.

Definition rform_okP (P : instr -> Prop) (L : nat) (f : rform) : Prop :=
  match f with
  | RDefine s a => s < L /\ rexpr_okP P a
  | RExpr a => rexpr_okP P a
  end.

Lemma rexpr_okP_impl : forall (P Q : instr -> Prop) r, (forall i, P i -> Q i) -> rexpr_okP P r -> rexpr_okP Q r.
Proof.
  intros P Q r PQ. induction r; simpl; auto.
  - intros [H1 H2]. split; [eapply Forall_impl; eauto | auto].
  - intros [H1 H2]. split; auto.
  - intros [H1 H2]. split; auto.
Qed.

Lemma rform_okP_impl : forall (P Q : instr -> Prop) L f, (forall i, P i -> Q i) -> rform_okP P L f -> rform_okP Q L f.
Proof.
  intros P Q L [s a|a] PQ; simpl.
  - intros [H1 H2]. split; [exact H1 | eapply rexpr_okP_impl; eauto].
  - apply rexpr_okP_impl; exact PQ.
Qed.

(* what running code needs of an instruction inside a lambda body *)
Definition instr_run_ok (e : eng) (i : instr) : Prop :=
  refs_global (i_op i) = true -> exists b, i_ghost i = Some b /\ owner_of e (i_pay i) = Some b.

Lemma Forall_body_ok : forall e b idx, Forall (instr_run_ok e) b -> body_ok e None idx b.
Proof.
  intros e b. induction b as [|i r IH]; intros idx H; simpl; [exact I|].
  inversion H; subst. split; [|apply IH; assumption].
  unfold instr_ok. assert (T : true_op None idx i = i_op i) by (destruct idx; reflexivity).
  rewrite T. assumption.
Qed.

Lemma body_ok_hdr_S : forall e h1 h2 b idx, body_ok e h1 (S idx) b -> body_ok e h2 (S idx) b.
Proof.
  intros e h1 h2 b. induction b as [|i r IH]; intros idx H; simpl in *; [exact I|].
  destruct H as [H1 H2]. split; [|apply IH; exact H2].
  unfold instr_ok in *. simpl in *. exact H1.
Qed.

Lemma mk_closure_ok : forall e jit body caps,
  body_ok e None 0 body -> val_ok e caps -> val_ok e (mk_closure jit body caps).
Proof.
  intros e jit body caps B C. unfold mk_closure. destruct jit; [|simpl; split; assumption].
  destruct body as [|i r]; simpl; [split; [exact I | exact C]|].
  simpl in B. destruct B as [B1 B2]. split; [|exact C]. split.
  - unfold instr_ok in *. simpl in *. exact B1.
  - eapply body_ok_hdr_S. exact B2.
Qed.

Lemma mk_closure_good : forall e hp G jit body caps,
  body_ok e None 0 body -> vgood e hp G caps -> vgood e hp G (mk_closure jit body caps).
Proof.
  intros e hp G jit body caps B [C1 C2]. split; [apply mk_closure_ok; assumption|].
  unfold mk_closure. destruct jit; [destruct body|]; simpl; exact C2.
Qed.

Definition eval_post (e : eng) (G : list nat) (g hp : list val) (r : st * option val) : Prop :=
  exists G', ext hp G (snd (fst r)) G' /\ sok e G' (fst (fst r)) (snd (fst r)) /\
             (forall v, snd r = Some v -> vgood e (snd (fst r)) G' v) /\
             length (fst (fst r)) = length g.

Lemma eval_post_fail : forall e G g hp g' hp' G', ext hp G hp' G' -> sok e G' g' hp' -> length g' = length g ->
  eval_post e G g hp ((g', hp'), None).
Proof. intros. exists G'. simpl. split; [assumption|]. split; [assumption|]. split; [intros v Hv; discriminate | assumption]. Qed.

Lemma eval_ok : forall e fuel x G g hp, sok e G g hp -> rexpr_okP (instr_run_ok e) x ->
  eval_post e G g hp (eval fuel (g, hp) x).
Proof.
  intros e fuel x. induction x; intros G g hp SK R; simpl in R; cbn [eval].
  - exists G. simpl. split; [apply ext_refl|]. split; [exact SK|]. split; [intros v Hv; inversion Hv; apply vgood_atom_int | reflexivity].
  - exists G. simpl. split; [apply ext_refl|]. split; [exact SK|]. split; [intros v Hv; inversion Hv; apply vgood_nil | reflexivity].
  - exists G. simpl. split; [apply ext_refl|]. split; [exact SK|]. split; [|reflexivity].
    intros v Hv. destruct (Nat.ltb s (length g)); inversion Hv. apply (proj1 SK).
  - (* RLam *)
    destruct R as [R1 R2]. destruct (IHx G g hp SK R2) as [G1 [E1 [S1 [V1 L1]]]].
    destruct (eval fuel (g, hp) x) as [[g1 hp1] c]. simpl in *. destruct c as [c|].
    + destruct hc.
      * destruct (sok_alloc e G1 g1 hp1 c S1 (V1 _ eq_refl)) as [S2 E2].
        exists (length hp1 :: G1). simpl. split; [eapply ext_trans; eauto|]. split; [exact S2|]. split; [|exact L1].
        intros v Hv. inversion Hv; subst. apply mk_closure_good; [apply Forall_body_ok; exact R1|].
        apply vgood_ref. intros _. left. reflexivity.
      * exists G1. simpl. split; [exact E1|]. split; [exact S1|]. split; [|exact L1].
        intros v Hv. inversion Hv; subst. apply mk_closure_good; [apply Forall_body_ok; exact R1 | apply V1; reflexivity].
    + apply eval_post_fail with (G' := G1); assumption.
  - (* RBox *)
    destruct (IHx G g hp SK R) as [G1 [E1 [S1 [V1 L1]]]].
    destruct (eval fuel (g, hp) x) as [[g1 hp1] c]. simpl in *. destruct c as [c|].
    + assert (VC : vgood e hp1 G1 (cell_content vec c)).
      { unfold cell_content. destruct vec; [apply vgood_pair; split; [apply V1; reflexivity | apply vgood_nil] | apply V1; reflexivity]. }
      destruct (sok_alloc e G1 g1 hp1 _ S1 VC) as [S2 E2].
      exists (length hp1 :: G1). simpl. split; [eapply ext_trans; eauto|]. split; [exact S2|]. split; [|exact L1].
      intros v Hv. inversion Hv; subst. apply vgood_ref. intros _. left. reflexivity.
    + apply eval_post_fail with (G' := G1); assumption.
  - (* RUnbox *)
    destruct (IHx G g hp SK R) as [G1 [E1 [S1 [V1 L1]]]].
    destruct (eval fuel (g, hp) x) as [[g1 hp1] c]. simpl in *.
    exists G1. simpl. split; [exact E1|]. split; [exact S1|]. split; [|exact L1].
    intros v Hv. destruct c as [[| | | | |a]|]; try discriminate.
    destruct (Nat.ltb a (length hp1)); inversion Hv; subst.
    eapply sok_cell; [exact S1 | apply V1; reflexivity].
  - (* RSetCell *)
    destruct R as [R1 R2]. destruct (IHx1 G g hp SK R1) as [G1 [E1 [S1 [V1 L1]]]].
    destruct (eval fuel (g, hp) x1) as [[g1 hp1] va]. simpl in *.
    destruct va as [[| | | | |a]|]; try (apply eval_post_fail with (G' := G1); assumption).
    destruct (IHx2 G1 g1 hp1 S1 R2) as [G2 [E2 [S2 [V2 L2]]]].
    destruct (eval fuel (g1, hp1) x2) as [[g2 hp2] vb]. simpl in *.
    destruct vb as [vb|]; [|apply eval_post_fail with (G' := G2); [eapply ext_trans; eauto | assumption | lia]].
    destruct (Nat.ltb a (length hp2)) eqn:LT; [|apply eval_post_fail with (G' := G2); [eapply ext_trans; eauto | assumption | lia]].
    assert (VC : vgood e hp2 G2 (cell_content vec vb)).
    { unfold cell_content. destruct vec; [apply vgood_pair; split; [apply V2; reflexivity | apply vgood_nil] | apply V2; reflexivity]. }
    exists G2. simpl. split.
    + destruct (ext_trans _ _ _ _ _ _ E1 E2) as [A1 [A2 A3]]. split; [exact A1|]. rewrite length_set_nth. split; assumption.
    + split; [apply sok_set_cell; assumption|]. split; [|lia].
      intros v Hv. inversion Hv. split; [exact I | intros x []].
  - (* RPair *)
    destruct R as [R1 R2]. destruct (IHx1 G g hp SK R1) as [G1 [E1 [S1 [V1 L1]]]].
    destruct (eval fuel (g, hp) x1) as [[g1 hp1] va]. simpl in *. destruct va as [va|].
    + destruct (IHx2 G1 g1 hp1 S1 R2) as [G2 [E2 [S2 [V2 L2]]]].
      destruct (eval fuel (g1, hp1) x2) as [[g2 hp2] vb]. simpl in *.
      exists G2. simpl. split; [eapply ext_trans; eauto|]. split; [exact S2|]. split; [|lia].
      intros v Hv. destruct vb as [vb|]; inversion Hv; subst. apply vgood_pair.
      split; [eapply vgood_ext; [exact E2 | apply V1; reflexivity] | apply V2; reflexivity].
    + apply eval_post_fail with (G' := G1); assumption.
  - (* RCar *)
    destruct (IHx G g hp SK R) as [G1 [E1 [S1 [V1 L1]]]].
    destruct (eval fuel (g, hp) x) as [[g1 hp1] c]. simpl in *.
    exists G1. simpl. split; [exact E1|]. split; [exact S1|]. split; [|exact L1].
    intros v Hv. destruct c as [[| | | |p q|]|]; inversion Hv; subst.
    apply (proj1 (vgood_pair _ _ _ _ _) (V1 _ eq_refl)).
  - (* RCdr *)
    destruct (IHx G g hp SK R) as [G1 [E1 [S1 [V1 L1]]]].
    destruct (eval fuel (g, hp) x) as [[g1 hp1] c]. simpl in *.
    exists G1. simpl. split; [exact E1|]. split; [exact S1|]. split; [|exact L1].
    intros v Hv. destruct c as [[| | | |p q|]|]; inversion Hv; subst.
    apply (proj1 (vgood_pair _ _ _ _ _) (V1 _ eq_refl)).
  - (* RCall *)
    destruct (IHx G g hp SK R) as [G1 [E1 [S1 [V1 L1]]]].
    destruct (eval fuel (g, hp) x) as [[g1 hp1] vf]. simpl in *. destruct vf as [vf|].
    + destruct (call_ok e G1 hp1 fuel g1 vf arg S1 (V1 _ eq_refl)) as [C1 [C2 C3]].
      destruct (call fuel hp1 g1 vf arg) as [g' r]. simpl in *.
      exists G1. simpl. split; [exact E1|]. split; [exact C1|]. split; [exact C2 | lia].
    + apply eval_post_fail with (G' := G1); assumption.
  - (* RSet *)
    destruct (IHx G g hp SK R) as [G1 [E1 [S1 [V1 L1]]]].
    destruct (eval fuel (g, hp) x) as [[g1 hp1] v1]. simpl in *. destruct v1 as [v1|].
    + destruct (Nat.ltb s (length g1)); simpl.
      * exists G1. simpl. split; [exact E1|]. split; [apply sok_set_glob; [exact S1 | apply V1; reflexivity]|].
        split; [|rewrite length_set_nth; exact L1]. intros v Hv. inversion Hv. apply (proj1 S1).
      * apply eval_post_fail with (G' := G1); assumption.
    + apply eval_post_fail with (G' := G1); assumption.
  - apply eval_post_fail with (G' := G); [apply ext_refl | exact SK | reflexivity].
Qed.

Lemma run_forms_ok : forall e fuel L code G g hp, sok e G g hp -> length g <= L ->
  Forall (rform_okP (instr_run_ok e) L) code ->
  exists G', sok e G' (fst (fst (run_forms fuel (g, hp) code))) (snd (fst (run_forms fuel (g, hp) code))) /\
             length (fst (fst (run_forms fuel (g, hp) code))) <= L.
Proof.
  intros e fuel L code. induction code as [|f r IH]; intros G g hp SK Len F; cbn [run_forms].
  - exists G. simpl. split; assumption.
  - inversion F as [|? ? F1 F2]; subst. destruct f as [s a|a]; simpl in F1.
    + destruct F1 as [SL RA]. destruct (eval_ok e fuel a G g hp SK RA) as [G1 [E1 [S1 [V1 L1]]]].
      destruct (eval fuel (g, hp) a) as [[g1 hp1] v]. simpl in *. destruct v as [v|].
      * assert (S2 : sok e G1 (define_idx s v g1) hp1) by (apply sok_define_idx; [exact S1 | apply V1; reflexivity]).
        assert (L2 : length (define_idx s v g1) <= L).
        { unfold define_idx. rewrite length_set_nth_pad. lia. }
        destruct (IH G1 _ hp1 S2 L2 F2) as [G2 [J1 J2]].
        destruct (run_forms fuel (define_idx s v g1, hp1) r) as [[g2 hp2] vs]. simpl in *. exists G2. split; assumption.
      * exists G1. simpl. split; [exact S1 | lia].
    + destruct (eval_ok e fuel a G g hp SK F1) as [G1 [E1 [S1 [V1 L1]]]].
      destruct (eval fuel (g, hp) a) as [[g1 hp1] v]. simpl in *. destruct v as [v|].
      * assert (L2 : length g1 <= L) by lia. destruct (IH G1 g1 hp1 S1 L2 F2) as [G2 [J1 J2]].
        destruct (run_forms fuel (g1, hp1) r) as [[g2 hp2] vs]. simpl in *. exists G2. split; assumption.
      * exists G1. simpl. split; [exact S1 | lia].
Qed.


(* ------------------------------------------------------------------ first pass: add *)

Lemma owner_of_set : forall e idx b s sm' g' n' hp',
  owner_of (mkE sm' g' (set_nth_pad None idx (Some b) (owner e)) n' hp') s =
  if Nat.eqb s idx then Some b else owner_of e s.
Proof. intros. unfold owner_of. simpl. apply nth_set_nth_pad. Qed.

Lemma add_define_Bound : forall e x, Bound e ->
  Bound (fst (add_define e x)) /\
  owner_le e (fst (add_define e x)) /\
  (globals (fst (add_define e x)) = globals e /\ heap (fst (add_define e x)) = heap e) /\
  snd (add_define e x) < length (values (sm (fst (add_define e x)))) /\
  length (values (sm e)) <= length (values (sm (fst (add_define e x)))) /\
  owner_of e (snd (add_define e x)) = None.
Proof.
  intros e x B. destruct B as [Bv Bmo Bmi Bns Bso Bfu Bfn Bfl Bfr Bgl Bh].
  unfold add_define, sm_add.
  remember (free (fl (sm e))) as fr eqn:Efr.
  set (sh' := match lookup (smap (sm e)) x with
              | Some prev => shadowed (fl (sm e)) ++ [prev]
              | None => shadowed (fl (sm e)) end).
  assert (SH : forall s, In s sh' -> In s (shadowed (fl (sm e))) \/ lookup (smap (sm e)) x = Some s).
  { intros s. unfold sh'. destruct (lookup (smap (sm e)) x) as [p|]; [|auto].
    rewrite in_app_iff. simpl. intros [H|[H|[]]]; [left; exact H | right; subst; reflexivity]. }
  assert (SH2 : forall s, In s (shadowed (fl (sm e))) -> In s sh').
  { intros s H. unfold sh'. destruct (lookup (smap (sm e)) x); [apply in_or_app; left|]; exact H. }
  destruct fr as [|s0 r0].
  - (* slot at the end of the table *)
    simpl. rewrite Nat.eqb_refl. simpl.
    set (idx := length (values (sm e))).
    assert (UN : owner_of e idx = None) by (apply Bfr; unfold idx; lia).
    assert (OW : forall s, owner_of (mkE (mkSM (values (sm e) ++ [x]) ((x, idx) :: remove_name x (smap (sm e)))
                                   (mkFL sh' [] (threshold (fl (sm e))) (epoch (fl (sm e)))))
                              (globals e) (set_nth_pad None idx (Some (nextb e)) (owner e)) (S (nextb e)) (heap e)) s
                       = if Nat.eqb s idx then Some (nextb e) else owner_of e s) by (intros; apply owner_of_set).
    set (e' := mkE _ _ _ _ _) in *.
    assert (LE : owner_le e e').
    { intros s b H. rewrite OW. destruct (Nat.eqb s idx) eqn:E; [|exact H].
      apply Nat.eqb_eq in E. subst s. rewrite UN in H. discriminate. }
    split; [|split; [exact LE|split; [split; reflexivity|split; [|split; [|exact UN]]]]].
    + constructor; simpl.
      * intros s. eapply val_ok_le; [exact LE | apply Bv].
      * intros y s. rewrite lookup_remove_name. destruct (Nat.eqb y x) eqn:E.
        -- intros H. inversion H; subst. rewrite OW, Nat.eqb_refl. discriminate.
        -- intros H. rewrite OW. destruct (Nat.eqb s idx); [discriminate | eapply Bmo; eauto].
      * intros y z s. rewrite !lookup_remove_name.
        destruct (Nat.eqb y x) eqn:E1; destruct (Nat.eqb z x) eqn:E2; intros H1 H2.
        -- apply Nat.eqb_eq in E1, E2. congruence.
        -- inversion H1; subst. exfalso. eapply Bmo; eauto.
        -- inversion H2; subst. exfalso. eapply Bmo; eauto.
        -- eapply Bmi; eauto.
      * intros y s. rewrite lookup_remove_name. destruct (Nat.eqb y x) eqn:E; intros H HI.
        -- inversion H; subst. destruct (SH _ HI) as [H1|H1]; [eapply Bso; eauto | eapply Bmo; eauto].
        -- destruct (SH _ HI) as [H1|H1]; [eapply Bns; eauto|].
           apply Nat.eqb_neq in E. apply E. eapply Bmi; eauto.
      * intros s HI. rewrite OW. destruct (Nat.eqb s idx); [discriminate|].
        destruct (SH _ HI) as [H1|H1]; [apply Bso; exact H1 | eapply Bmo; eauto].
      * intros s [].
      * constructor.
      * intros s [].
      * intros s. rewrite app_length. simpl. intros H. rewrite OW.
        destruct (Nat.eqb s idx) eqn:E; [apply Nat.eqb_eq in E; unfold idx in E; lia | apply Bfr; lia].
      * rewrite app_length. simpl. lia.
      * destruct Bh as [G SK]. exists G. eapply sok_le; [exact LE | exact SK].
    + simpl. rewrite app_length. simpl. unfold idx. lia.
    + simpl. rewrite app_length. lia.
  - (* recycled slot *)
    simpl.
    assert (IN0 : In s0 (s0 :: r0)) by (left; reflexivity).
    assert (UN : owner_of e s0 = None) by (apply Bfu; exact IN0).
    assert (LT : s0 < length (values (sm e))) by (apply Bfl; exact IN0).
    assert (NE : Nat.eqb s0 (length (values (sm e))) = false) by (apply Nat.eqb_neq; lia).
    rewrite NE. simpl.
    assert (OW : forall s, owner_of (mkE (mkSM (set_nth s0 x (values (sm e))) ((x, s0) :: remove_name x (smap (sm e)))
                                   (mkFL sh' r0 (threshold (fl (sm e))) (epoch (fl (sm e)))))
                              (globals e) (set_nth_pad None s0 (Some (nextb e)) (owner e)) (S (nextb e)) (heap e)) s
                       = if Nat.eqb s s0 then Some (nextb e) else owner_of e s) by (intros; apply owner_of_set).
    set (e' := mkE _ _ _ _ _) in *.
    assert (LE : owner_le e e').
    { intros s b H. rewrite OW. destruct (Nat.eqb s s0) eqn:E; [|exact H].
      apply Nat.eqb_eq in E. subst s. rewrite UN in H. discriminate. }
    assert (ND : NoDup (s0 :: r0)) by exact Bfn.
    split; [|split; [exact LE|split; [split; reflexivity|split; [|split; [|exact UN]]]]].
    + constructor; simpl.
      * intros s. eapply val_ok_le; [exact LE | apply Bv].
      * intros y s. rewrite lookup_remove_name. destruct (Nat.eqb y x) eqn:E.
        -- intros H. inversion H; subst. rewrite OW, Nat.eqb_refl. discriminate.
        -- intros H. rewrite OW. destruct (Nat.eqb s s0); [discriminate | eapply Bmo; eauto].
      * intros y z s. rewrite !lookup_remove_name.
        destruct (Nat.eqb y x) eqn:E1; destruct (Nat.eqb z x) eqn:E2; intros H1 H2.
        -- apply Nat.eqb_eq in E1, E2. congruence.
        -- inversion H1; subst. exfalso. eapply Bmo; eauto.
        -- inversion H2; subst. exfalso. eapply Bmo; eauto.
        -- eapply Bmi; eauto.
      * intros y s. rewrite lookup_remove_name. destruct (Nat.eqb y x) eqn:E; intros H HI.
        -- inversion H; subst. destruct (SH _ HI) as [H1|H1]; [eapply Bso; eauto | eapply Bmo; eauto].
        -- destruct (SH _ HI) as [H1|H1]; [eapply Bns; eauto|].
           apply Nat.eqb_neq in E. apply E. eapply Bmi; eauto.
      * intros s HI. rewrite OW. destruct (Nat.eqb s s0); [discriminate|].
        destruct (SH _ HI) as [H1|H1]; [apply Bso; exact H1 | eapply Bmo; eauto].
      * intros s HI. rewrite OW. destruct (Nat.eqb s s0) eqn:E.
        -- apply Nat.eqb_eq in E. subst s. inversion ND; subst. contradiction.
        -- apply Bfu. right. exact HI.
      * inversion ND; assumption.
      * intros s HI. rewrite length_set_nth. apply Bfl. right. exact HI.
      * intros s. rewrite length_set_nth. intros H. rewrite OW.
        destruct (Nat.eqb s s0) eqn:E; [apply Nat.eqb_eq in E; lia | apply Bfr; exact H].
      * rewrite length_set_nth. exact Bgl.
      * destruct Bh as [G SK]. exists G. eapply sok_le; [exact LE | exact SK].
    + simpl. rewrite length_set_nth. exact LT.
    + simpl. rewrite length_set_nth. lia.
Qed.


Definition slot_lt (L : nat) (o : option slot) : Prop := match o with Some s => s < L | None => True end.

Lemma first_pass_Bound : forall fs e, Bound e ->
  Bound (fst (first_pass e fs)) /\ owner_le e (fst (first_pass e fs)) /\
  (globals (fst (first_pass e fs)) = globals e /\ heap (fst (first_pass e fs)) = heap e) /\
  Forall (slot_lt (length (values (sm (fst (first_pass e fs)))))) (snd (first_pass e fs)) /\
  length (values (sm e)) <= length (values (sm (fst (first_pass e fs)))).
Proof.
  induction fs as [|f r IH]; intros e B; simpl.
  - split; [exact B|]. split; [apply owner_le_refl|]. split; [split; reflexivity|]. split; [constructor | lia].
  - destruct f as [x a|a].
    + destruct (add_define_Bound e x B) as [B1 [L1 [[G1 H1] [S1 [V1 U1]]]]].
      destruct (add_define e x) as [e1 idx]. simpl in *.
      destruct (IH e1 B1) as [B2 [L2 [[G2 H2] [S2 V2]]]].
      destruct (first_pass e1 r) as [e2 l]. simpl in *.
      split; [exact B2|]. split; [eapply owner_le_trans; eauto|]. split; [split; congruence|].
      split; [constructor; [simpl; lia | exact S2] | lia].
    + destruct (IH e B) as [B2 [L2 [G2 [S2 V2]]]].
      destruct (first_pass e r) as [e2 l]. simpl in *.
      split; [exact B2|]. split; [exact L2|]. split; [exact G2|]. split; [constructor; [exact I | exact S2] | exact V2].
Qed.

(* ------------------------------------------------------------------ second pass *)

Definition instr_code_ok (e : eng) (i : instr) : Prop :=
  refs_global (i_op i) = true ->
  (exists b, i_ghost i = Some b /\ owner_of e (i_pay i) = Some b) /\ ~ In (i_pay i) (shadowed (fl (sm e))).

Lemma resolve_instr_ok : forall e si i, Bound e -> resolve_instr e si = Some i -> instr_code_ok e i.
Proof.
  intros e si i B H. destruct si as [op x imm|op p imm]; simpl in H.
  - unfold sm_get in H. destruct (lookup (smap (sm e)) x) as [s|] eqn:E; [|discriminate].
    inversion H; subst. intros _. simpl. split.
    + pose proof (b_map_owned e B x s E) as O. destruct (owner_of e s) as [b|]; [|congruence].
      exists b. split; reflexivity.
    + eapply b_map_not_shadowed; eauto.
  - destruct (refs_global op) eqn:R; [discriminate|]. inversion H; subst.
    intros R2. simpl in R2. congruence.
Qed.

Lemma resolve_body_ok : forall e b l, Bound e -> resolve_body e b = Some l -> Forall (instr_code_ok e) l.
Proof.
  intros e b. induction b as [|si r IH]; intros l B H; simpl in H.
  - inversion H. constructor.
  - destruct (resolve_instr e si) as [i|] eqn:E1; [|discriminate].
    destruct (resolve_body e r) as [l'|] eqn:E2; [|discriminate].
    inversion H; subst. constructor; [eapply resolve_instr_ok; eauto | apply IH; auto].
Qed.

Lemma resolve_expr_ok : forall e defs passed x r, Bound e ->
  resolve_expr e defs passed x = Some r -> rexpr_okP (instr_code_ok e) r.
Proof.
  intros e defs passed x. induction x; intros r B H; simpl in H.
  - inversion H; exact I.
  - inversion H; exact I.
  - destruct (resolve0 e defs passed x); inversion H; exact I.
  - destruct (resolve_body e body) as [b|] eqn:E1; [|discriminate].
    destruct (resolve_expr e defs passed x) as [c|] eqn:E2; [|discriminate].
    inversion H; subst. simpl. split; [eapply resolve_body_ok; eauto | apply IHx; auto].
  - destruct (resolve_expr e defs passed x) as [a'|] eqn:E1; [|discriminate].
    inversion H; subst. simpl. apply IHx; auto.
  - destruct (resolve_expr e defs passed x) as [a'|] eqn:E1; [|discriminate].
    inversion H; subst. simpl. apply IHx; auto.
  - destruct (resolve_expr e defs passed x1) as [a'|] eqn:E1; [|discriminate].
    destruct (resolve_expr e defs passed x2) as [b'|] eqn:E2; [|discriminate].
    inversion H; subst. simpl. split; [apply IHx1 | apply IHx2]; auto.
  - destruct (resolve_expr e defs passed x1) as [a'|] eqn:E1; [|discriminate].
    destruct (resolve_expr e defs passed x2) as [b'|] eqn:E2; [|discriminate].
    inversion H; subst. simpl. split; [apply IHx1 | apply IHx2]; auto.
  - destruct (resolve_expr e defs passed x) as [a'|] eqn:E1; [|discriminate].
    inversion H; subst. simpl. apply IHx; auto.
  - destruct (resolve_expr e defs passed x) as [a'|] eqn:E1; [|discriminate].
    inversion H; subst. simpl. apply IHx; auto.
  - destruct (resolve_expr e defs passed x) as [a'|] eqn:E1; [|discriminate].
    inversion H; subst. simpl. apply IHx; auto.
  - destruct (resolve0 e defs passed x) as [s|]; [|discriminate].
    destruct (resolve_expr e defs passed x0) as [a'|] eqn:E1; [|discriminate].
    inversion H; subst. simpl. apply IHx; auto.
  - inversion H; exact I.
Qed.

Lemma second_pass_ok : forall e defs L fs passed slots code, Bound e ->
  Forall (slot_lt L) slots ->
  second_pass e defs passed fs slots = Some code ->
  Forall (rform_okP (instr_code_ok e) L) code.
Proof.
  intros e defs L fs. induction fs as [|f r IH]; intros passed slots code B S H; simpl in H.
  - inversion H. constructor.
  - destruct f as [x a|a].
    + destruct slots as [|[s|] sl]; try discriminate.
      destruct (resolve_expr e defs passed a) as [a'|] eqn:E1; [|discriminate].
      destruct (second_pass e defs (x :: passed) r sl) as [l|] eqn:E2; [|discriminate].
      inversion H; subst. inversion S; subst. constructor.
      * simpl. split; [assumption | eapply resolve_expr_ok; eauto].
      * eapply IH; eauto.
    + destruct slots as [|o sl]; try discriminate.
      destruct (resolve_expr e defs passed a) as [a'|] eqn:E1; [|discriminate].
      destruct (second_pass e defs passed r sl) as [l|] eqn:E2; [|discriminate].
      inversion H; subst. inversion S; subst. constructor.
      * simpl. eapply resolve_expr_ok; eauto.
      * eapply IH; eauto.
Qed.

Lemma build_Bound : forall c e fs, Bound e -> c_snapshot c = true ->
  Bound (fst (build c e fs)) /\ owner_le e (fst (build c e fs)) /\
  (globals (fst (build c e fs)) = globals e /\ heap (fst (build c e fs)) = heap e) /\
  match snd (build c e fs) with
  | Some code => Forall (rform_okP (instr_code_ok (fst (build c e fs))) (length (values (sm (fst (build c e fs)))))) code
  | None => fst (build c e fs) = e
  end.
Proof.
  intros c e fs B SN. unfold build.
  destruct (first_pass_Bound fs e B) as [B1 [L1 [G1 [S1 V1]]]].
  destruct (first_pass e fs) as [e1 slots]. simpl in *.
  destruct (second_pass e1 (defined_names fs) [] fs slots) as [code|] eqn:E.
  - simpl. split; [exact B1|]. split; [exact L1|]. split; [exact G1|].
    eapply second_pass_ok; eauto.
  - rewrite SN. simpl. split; [exact B|]. split; [apply owner_le_refl|]. split; [split; reflexivity | reflexivity].
Qed.


(* ------------------------------------------------------------------ what the scan guarantees *)

Section Scan.
Variable c : config.
Hypothesis COVER : forall o, refs_global o = true -> scanned c o = true.
Hypothesis HDR : c_header c = true.

Lemma body_ok_dead : forall (e e' : eng) (dead : list slot) h b idx,
  (forall s, ~ In s dead -> owner_of e' s = owner_of e s) ->
  body_ok e h idx b ->
  (forall t, In t (scan_body c h idx b) -> ~ In t dead) ->
  body_ok e' h idx b.
Proof.
  intros e e' dead h b. induction b as [|i r IH]; intros idx OW B S; simpl in *; [exact I|].
  destruct B as [B1 B2]. split.
  - intros R. destruct (B1 R) as [b [G O]]. exists b. split; [exact G|].
    rewrite OW; [exact O|]. apply S. apply in_or_app. left.
    unfold scan_op. rewrite HDR. rewrite (COVER _ R). left. reflexivity.
  - apply IH; auto. intros t Ht. apply S. apply in_or_app. right. exact Ht.
Qed.

Lemma val_ok_dead : forall (e e' : eng) (dead : list slot) v,
  (forall s, ~ In s dead -> owner_of e' s = owner_of e s) ->
  val_ok e v ->
  (forall t, In t (refs_of c v) -> ~ In t dead) ->
  val_ok e' v.
Proof.
  intros e e' dead v OW. induction v; simpl; intros V S; auto.
  - destruct V as [V1 V2]. split.
    + eapply body_ok_dead; eauto. intros t Ht. apply S. apply in_or_app. left. exact Ht.
    + apply IHv; auto. intros t Ht. apply S. apply in_or_app. right. exact Ht.
  - destruct V as [V1 V2]. split.
    + apply IHv1; auto. intros t Ht. apply S. apply in_or_app. left. exact Ht.
    + apply IHv2; auto. intros t Ht. apply S. apply in_or_app. right. exact Ht.
Qed.
End Scan.

Lemma NoDup_app_intro : forall {A} (l1 l2 : list A),
  NoDup l1 -> NoDup l2 -> (forall x, In x l1 -> In x l2 -> False) -> NoDup (l1 ++ l2).
Proof.
  intros A l1 l2 N1 N2 D. induction N1 as [|x l H N IH]; simpl; [exact N2|].
  constructor.
  - rewrite in_app_iff. intros [K|K]; [contradiction | apply (D x); [left; reflexivity | exact K]].
  - apply IH. intros y Hy. apply D. right. exact Hy.
Qed.

(* ------------------------------------------------------------------ the walk through the heap *)

Lemma filter_length_split : forall {A} (p : A -> bool) l,
  length (filter p l) + length (filter (fun x => negb (p x)) l) = length l.
Proof. intros A p l. induction l as [|x r IH]; simpl; [reflexivity|]. destruct (p x); simpl; lia. Qed.

Lemma NoDup_bounded_length : forall (l : list nat) n, NoDup l -> (forall x, In x l -> x < n) -> length l <= n.
Proof.
  intros l n ND B. rewrite <- (seq_length n 0). apply NoDup_incl_length; [exact ND|].
  intros x Hx. apply in_seq. split; [lia | simpl; apply B; exact Hx].
Qed.

Definition covered (c : config) (hp : list val) (R : list slot) (V : list nat) (v : val) : Prop :=
  (forall t, In t (refs_of c v) -> In t R) /\ (forall a, In a (cells_in v) -> a < length hp -> In a V).

Lemma heap_walk_spec : forall c hp fuel visited work,
  NoDup visited -> (forall a, In a visited -> a < length hp) -> length hp < fuel + length visited ->
  let R := fst (heap_walk c hp fuel visited work) in
  let V := snd (heap_walk c hp fuel visited work) in
  incl visited V /\ NoDup V /\ (forall a, In a V -> a < length hp) /\
  (forall v, In v work -> covered c hp R V v) /\
  (forall a, In a V -> ~ In a visited -> covered c hp R V (nth a hp VVoid)).
Proof.
  intros c hp. induction fuel as [|f IH]; intros visited work ND BD FU.
  - exfalso. pose proof (NoDup_bounded_length visited (length hp) ND BD). lia.
  - cbn [heap_walk].
    remember (nodup Nat.eq_dec (filter (fun a => Nat.ltb a (length hp) && negb (mem_slot a visited)) (flat_map cells_in work))) as fresh eqn:EF.
    assert (FR : forall a, In a fresh <-> (In a (flat_map cells_in work) /\ a < length hp /\ ~ In a visited)).
    { intros a. rewrite EF, nodup_In, filter_In, andb_true_iff, Nat.ltb_lt, negb_true_iff, mem_slot_false. tauto. }
    assert (NDF : NoDup fresh) by (rewrite EF; apply NoDup_nodup).
    destruct fresh as [|a0 fr].
    + simpl. split; [apply incl_refl|]. split; [exact ND|]. split; [exact BD|]. split.
      * intros v Hv. split.
        -- intros t Ht. apply in_flat_map. exists v. split; assumption.
        -- intros a Ha Hl. destruct (in_dec Nat.eq_dec a visited) as [K|K]; [exact K|].
           exfalso. apply (proj2 (FR a)). split; [apply in_flat_map; exists v; split; assumption | split; assumption].
      * intros a Ha Hn. contradiction.
    + set (fresh := a0 :: fr) in *.
      assert (ND2 : NoDup (fresh ++ visited)).
      { apply NoDup_app_intro; [exact NDF | exact ND|]. intros x H1 H2. apply (proj1 (FR x)) in H1. tauto. }
      assert (BD2 : forall a, In a (fresh ++ visited) -> a < length hp).
      { intros a Ha. apply in_app_or in Ha. destruct Ha as [Ha|Ha]; [apply (proj1 (FR a)) in Ha; tauto | apply BD; exact Ha]. }
      assert (FU2 : length hp < f + length (fresh ++ visited)) by (rewrite app_length; unfold fresh; simpl; lia).
      destruct (IH (fresh ++ visited) (map (fun a => nth a hp VVoid) fresh) ND2 BD2 FU2) as [I1 [I2 [I3 [I4 I5]]]].
      destruct (heap_walk c hp f (fresh ++ visited) (map (fun a => nth a hp VVoid) fresh)) as [r vis]. cbv beta iota zeta delta [fst snd] in *.
      split; [intros x Hx; apply I1; apply in_or_app; right; exact Hx|]. split; [exact I2|]. split; [exact I3|]. split.
      * intros v Hv. split.
        -- intros t Ht. apply in_or_app. left. apply in_flat_map. exists v. split; assumption.
        -- intros a Ha Hl. apply I1. destruct (in_dec Nat.eq_dec a visited) as [K|K]; [apply in_or_app; right; exact K|].
           apply in_or_app. left. apply (proj2 (FR a)). split; [apply in_flat_map; exists v; split; assumption | split; assumption].
      * intros a Ha Hn. destruct (in_dec Nat.eq_dec a fresh) as [K|K].
        -- assert (W : In (nth a hp VVoid) (map (fun a => nth a hp VVoid) fresh)) by (apply in_map_iff; exists a; split; [reflexivity | exact K]).
           destruct (I4 _ W) as [C1 C2]. split; [intros t Ht; apply in_or_app; right; apply C1; exact Ht | exact C2].
        -- assert (N2 : ~ In a (fresh ++ visited)) by (intros Q; apply in_app_or in Q; tauto).
           destruct (I5 a Ha N2) as [C1 C2]. split; [intros t Ht; apply in_or_app; right; apply C1; exact Ht | exact C2].
Qed.

(* every newly visited cell is reachable from the work list: it belongs to any set closed under the heap that
   contains the cells of the work list *)
Lemma heap_walk_reach : forall c hp (G : list nat),
  (forall a, In a G -> a < length hp -> forall b, In b (cells_in (nth a hp VVoid)) -> b < length hp -> In b G) ->
  forall fuel visited work,
  (forall v, In v work -> forall a, In a (cells_in v) -> a < length hp -> In a G) ->
  forall a, In a (snd (heap_walk c hp fuel visited work)) -> ~ In a visited -> In a G.
Proof.
  intros c hp G CL. induction fuel as [|f IH]; intros visited work HW a Ha Hn; cbn [heap_walk] in Ha.
  - simpl in Ha. contradiction.
  - remember (nodup Nat.eq_dec (filter (fun a => Nat.ltb a (length hp) && negb (mem_slot a visited)) (flat_map cells_in work))) as fresh eqn:EF.
    assert (FR : forall a, In a fresh -> In a G /\ a < length hp).
    { intros x Hx. rewrite EF, nodup_In, filter_In, andb_true_iff, Nat.ltb_lt in Hx. destruct Hx as [H1 [H2 _]].
      apply in_flat_map in H1. destruct H1 as [v [Hv Hc]]. split; [eapply HW; eauto | exact H2]. }
    destruct fresh as [|a0 fr]; [simpl in Ha; contradiction|].
    set (fresh := a0 :: fr) in *.
    destruct (heap_walk c hp f (fresh ++ visited) (map (fun a => nth a hp VVoid) fresh)) as [r vis] eqn:EW. simpl in Ha.
    destruct (in_dec Nat.eq_dec a fresh) as [K|K]; [apply FR; exact K|].
    apply (IH (fresh ++ visited) (map (fun a => nth a hp VVoid) fresh)).
    + intros v Hv b Hb Hl. apply in_map_iff in Hv. destruct Hv as [x [Hx1 Hx2]]. subst v.
      destruct (FR x Hx2) as [F1 F2]. eapply CL; eauto.
    + rewrite EW. exact Ha.
    + intros Q. apply in_app_or in Q. tauto.
Qed.

(* ------------------------------------------------------------------ the rounds *)

Definition disjoint_refs (c : config) (hp : list val) (left : list slot) (V : list nat) (v : val) : Prop :=
  (forall t, In t (refs_of c v) -> ~ In t left) /\ (forall a, In a (cells_in v) -> a < length hp -> In a V).

Lemma rounds_spec : forall c g hp (G : list nat), c_follow c = true ->
  (forall a, In a G -> a < length hp -> forall b, In b (cells_in (nth a hp VVoid)) -> b < length hp -> In b G) ->
  (forall s a, In a (cells_in (nth s g VVoid)) -> a < length hp -> In a G) ->
  forall fuel visited work cands,
  length cands < fuel -> NoDup visited -> (forall a, In a visited -> a < length hp) ->
  (forall v, In v work -> forall a, In a (cells_in v) -> a < length hp -> In a G) ->
  let left := rounds c g hp fuel visited work cands in
  exists V, incl visited V /\
    (forall s, In s left -> In s cands) /\
    (forall v, In v work -> disjoint_refs c hp left V v) /\
    (forall s, In s cands -> ~ In s left -> disjoint_refs c hp left V (nth s g VVoid)) /\
    (forall a, In a V -> ~ In a visited -> disjoint_refs c hp left V (nth a hp VVoid) /\ In a G).
Proof.
  intros c g hp G FOL CL GG. induction fuel as [|f IH]; intros visited work cands LT ND BD HW; [exfalso; inversion LT|].
  cbn [rounds].
  assert (FU : length hp < S (length hp) + length visited) by lia.
  destruct (heap_walk_spec c hp (S (length hp)) visited work ND BD FU) as [W1 [W2 [W3 [W4 W5]]]].
  pose proof (heap_walk_reach c hp G CL (S (length hp)) visited work HW) as W6.
  destruct (heap_walk c hp (S (length hp)) visited work) as [refs vis]. simpl in W1, W2, W3, W4, W5, W6.
  set (rest := filter (fun s => negb (mem_slot s refs)) cands).
  remember (filter (fun s => mem_slot s refs) cands) as kept eqn:EK.
  assert (KEPT : forall s, In s kept <-> In s cands /\ mem_slot s refs = true).
  { intros s. rewrite EK. apply filter_In. }
  assert (REST : forall s, In s rest <-> In s cands /\ ~ In s refs).
  { intros s. unfold rest. rewrite filter_In, negb_true_iff, mem_slot_false. tauto. }
  destruct kept as [|k0 kr].
  - exists vis. split; [exact W1|]. split; [auto|]. split; [|split].
    + intros v Hv. destruct (W4 v Hv) as [C1 C2]. split; [|exact C2].
      intros t Ht HIn. assert (K : In t []) by (apply KEPT; split; [exact HIn | apply mem_slot_In; apply C1; exact Ht]). exact K.
    + intros s Hs Hn. contradiction.
    + intros a Ha Hn. destruct (W5 a Ha Hn) as [C1 C2]. split; [|apply W6; assumption]. split; [|exact C2].
      intros t Ht HIn. assert (K : In t []) by (apply KEPT; split; [exact HIn | apply mem_slot_In; apply C1; exact Ht]). exact K.
  - rewrite FOL.
    assert (LR : length rest < f).
    { pose proof (filter_length_split (fun s => mem_slot s refs) cands) as P.
      rewrite <- EK in P. fold rest in P. simpl in P. lia. }
    assert (HW2 : forall v, In v (map (fun s => nth s g VVoid) (k0 :: kr)) -> forall a, In a (cells_in v) -> a < length hp -> In a G).
    { intros v Hv a Ha Hl. apply in_map_iff in Hv. destruct Hv as [s [Hs _]]. subst v. eapply GG; eauto. }
    destruct (IH vis (map (fun s => nth s g VVoid) (k0 :: kr)) rest LR W2 W3 HW2) as [V [R0 [R1 [R2 [R3 R4]]]]].
    set (left := rounds c g hp f vis (map (fun s => nth s g VVoid) (k0 :: kr)) rest) in *.
    assert (LEFT_REFS : forall t, In t refs -> ~ In t left).
    { intros t Ht HL. apply R1 in HL. apply REST in HL. tauto. }
    exists V. split; [eapply incl_tran; eauto|]. split; [|split; [|split]].
    + intros s Hs. apply R1 in Hs. apply REST in Hs. tauto.
    + intros v Hv. destruct (W4 v Hv) as [C1 C2]. split.
      * intros t Ht. apply LEFT_REFS, C1, Ht.
      * intros a Ha Hl. apply R0, C2; assumption.
    + intros s Hs Hn. destruct (mem_slot s refs) eqn:M.
      * apply R2. apply in_map_iff. exists s. split; [reflexivity | apply KEPT; split; assumption].
      * apply R3; [|exact Hn]. apply REST. split; [exact Hs | apply mem_slot_false; exact M].
    + intros a Ha Hn. destruct (in_dec Nat.eq_dec a vis) as [K|K].
      * destruct (W5 a K Hn) as [C1 C2]. split; [|apply W6; assumption]. split.
        -- intros t Ht. apply LEFT_REFS, C1, Ht.
        -- intros b Hb Hl. apply R0, C2; assumption.
      * apply R4; assumption.
Qed.

Lemma rounds_NoDup : forall c g hp fuel visited work cands, NoDup cands -> NoDup (rounds c g hp fuel visited work cands).
Proof.
  intros c g hp. induction fuel as [|f IH]; intros visited work cands ND; cbn [rounds]; [exact ND|].
  destruct (heap_walk c hp (S (length hp)) visited work) as [refs vis].
  destruct (filter (fun s => mem_slot s refs) cands) eqn:EK; [exact ND|].
  destruct (c_follow c); [apply IH|]; apply NoDup_filter; exact ND.
Qed.

(* ------------------------------------------------------------------ helpers on the indexed maps *)

Lemma index_filter_In : forall p g i s, s < length g -> p (i + s) = true ->
  In (nth s g VVoid) (index_filter p i g).
Proof.
  intros p g. induction g as [|v r IH]; intros i s L P; simpl in *; [lia|].
  destruct s as [|s].
  - rewrite Nat.add_0_r in P. rewrite P. left. reflexivity.
  - apply in_or_app. right. apply IH; [lia|]. replace (S i + s) with (i + S s) by lia. exact P.
Qed.

Lemma void_slots_nth : forall dead g i s,
  nth s (void_slots dead i g) VVoid = if mem_slot (i + s) dead then VVoid else nth s g VVoid.
Proof.
  intros dead g. induction g as [|v r IH]; intros i s; simpl.
  - destruct s; destruct (mem_slot _ dead); reflexivity.
  - destruct s as [|s].
    + rewrite Nat.add_0_r. reflexivity.
    + rewrite IH. replace (S i + s) with (i + S s) by lia. reflexivity.
Qed.

Lemma void_slots_length : forall dead g i, length (void_slots dead i g) = length g.
Proof. intros dead g. induction g; intros i; simpl; auto. Qed.

Lemma clear_owner_nth : forall dead o i s,
  nth s (clear_owner dead i o) None = if mem_slot (i + s) dead then None else nth s o None.
Proof.
  intros dead o. induction o as [|v r IH]; intros i s; simpl.
  - destruct s; destruct (mem_slot _ dead); reflexivity.
  - destruct s as [|s].
    + rewrite Nat.add_0_r. reflexivity.
    + rewrite IH. replace (S i + s) with (i + S s) by lia. reflexivity.
Qed.

Lemma incr_gen_shadowed : forall f, shadowed (increment_generation f) = shadowed f.
Proof. intros f. unfold increment_generation. destruct (Nat.eqb (epoch f) epoch_reset_at); reflexivity. Qed.

Lemma incr_gen_free : forall f, free (increment_generation f) = free f.
Proof. intros f. unfold increment_generation. destruct (Nat.eqb (epoch f) epoch_reset_at); reflexivity. Qed.

(* ------------------------------------------------------------------ recycle preserves Bound *)

Lemma recycle_Bound : forall c e, config_sound c -> Bound e ->
  Bound (recycle c e) /\
  (forall s, ~ In s (shadowed (fl (sm e))) -> owner_of (recycle c e) s = owner_of e s) /\
  values (sm (recycle c e)) = values (sm e) /\ smap (sm (recycle c e)) = smap (sm e) /\
  shadowed (fl (sm (recycle c e))) = [].
Proof.
  intros c e [COVER [HDR [FOL [SNAP CLR]]]] B.
  destruct B as [Bv Bmo Bmi Bns Bso Bfu Bfn Bfl Bfr Bgl [G [SK1 SK2]]].
  unfold recycle. rewrite CLR.
  set (f := fl (sm e)).
  set (cands := nodup Nat.eq_dec (shadowed f)).
  set (roots := index_filter (fun i => negb (mem_slot i cands)) 0 (globals e)).
  set (left := rounds c (globals e) (heap e) (S (length cands)) [] roots cands).
  set (dead := filter (fun s => Nat.ltb s (length (globals e))) left).
  assert (CL : forall a, In a G -> a < length (heap e) -> forall b, In b (cells_in (nth a (heap e) VVoid)) -> b < length (heap e) -> In b G).
  { intros a Ha Hl b Hb Hbl. destruct (SK2 a Ha) as [_ C]. apply C; assumption. }
  assert (GG : forall s a, In a (cells_in (nth s (globals e) VVoid)) -> a < length (heap e) -> In a G).
  { intros s a Ha Hl. destruct (SK1 s) as [_ C]. apply C; assumption. }
  assert (HW : forall v, In v roots -> forall a, In a (cells_in v) -> a < length (heap e) -> In a G).
  { intros v Hv a Ha Hl. unfold roots in Hv.
    assert (K : forall p i gl, In v (index_filter p i gl) -> In v gl).
    { intros p i gl. revert i. induction gl as [|x r IHg]; intros i Hi; simpl in *; [contradiction|].
      apply in_app_or in Hi. destruct Hi as [Hi|Hi]; [destruct (p i); [destruct Hi as [Hi|[]]; left; exact Hi | contradiction] | right; eapply IHg; eauto]. }
    apply K in Hv. apply In_nth with (d := VVoid) in Hv. destruct Hv as [n [_ Hn]]. subst v. eapply GG; eauto. }
  destruct (rounds_spec c (globals e) (heap e) G FOL CL GG (S (length cands)) [] roots cands
              (Nat.lt_succ_diag_r _) (NoDup_nil _) (fun a (H : In a []) => match H with end) HW) as [V [R0 [R1 [R2 [R3 R4]]]]].
  fold left in R1, R2, R3, R4.
  assert (CANDS : forall s, In s cands <-> In s (shadowed f)) by (intros s; unfold cands; apply nodup_In).
  assert (DEAD_LEFT : forall s, In s dead -> In s left /\ s < length (globals e)).
  { intros s H. unfold dead in H. apply filter_In in H. destruct H as [H1 H2]. apply Nat.ltb_lt in H2. tauto. }
  assert (DEAD_SH : forall s, In s dead -> In s (shadowed f)).
  { intros s H. apply CANDS. apply R1. apply DEAD_LEFT. exact H. }
  assert (ND_DEAD : NoDup dead).
  { unfold dead. apply NoDup_filter. unfold left. apply rounds_NoDup. unfold cands. apply NoDup_nodup. }
  set (e' := mkE _ _ _ _ _).
  assert (OW : forall s, owner_of e' s = if mem_slot s dead then None else owner_of e s).
  { intros s. unfold owner_of, e'. simpl. rewrite clear_owner_nth. reflexivity. }
  assert (OWK : forall s, ~ In s dead -> owner_of e' s = owner_of e s).
  { intros s H. rewrite OW. apply mem_slot_false in H. rewrite H. reflexivity. }
  assert (GL : forall s, nth s (globals e') VVoid = if mem_slot s dead then VVoid else nth s (globals e) VVoid).
  { intros s. unfold e'. simpl. rewrite void_slots_nth. reflexivity. }
  (* every value that stays is disjoint from the freed slots and mentions visited cells only *)
  assert (STAY : forall s, ~ In s dead -> s < length (globals e) -> disjoint_refs c (heap e) left V (nth s (globals e) VVoid)).
  { intros s MD LT. destruct (mem_slot s cands) eqn:MC.
    - apply mem_slot_In in MC. apply R3; [exact MC|].
      intros HL2. apply MD. unfold dead. apply filter_In. split; [exact HL2 | apply Nat.ltb_lt; exact LT].
    - apply R2. unfold roots. apply (index_filter_In _ (globals e) 0 s LT). simpl. rewrite MC. reflexivity. }
  assert (DEAD_OK : forall v, val_ok e v -> (forall t, In t (refs_of c v) -> ~ In t left) -> val_ok e' v).
  { intros v V1 V2. eapply (val_ok_dead c COVER HDR e e' dead); [exact OWK | exact V1|].
    intros t Ht HD. apply (V2 t Ht). apply DEAD_LEFT. exact HD. }
  split; [|split; [|split; [reflexivity|split; [reflexivity|]]]].
  - constructor.
    + (* values *)
      intros s. rewrite GL. destruct (mem_slot s dead) eqn:MD; [exact I|].
      apply mem_slot_false in MD.
      destruct (Nat.ltb s (length (globals e))) eqn:LT.
      * apply Nat.ltb_lt in LT. destruct (STAY s MD LT) as [D1 D2]. apply DEAD_OK; [apply Bv | exact D1].
      * apply Nat.ltb_ge in LT. rewrite nth_overflow; [exact I | exact LT].
    + intros x s H. simpl in H. rewrite OWK; [eapply Bmo; eauto|].
      intros HD. eapply Bns; [exact H | apply DEAD_SH; exact HD].
    + intros x y s. simpl. apply Bmi.
    + intros x s H. simpl. rewrite incr_gen_shadowed. simpl. intros [].
    + intros s. simpl. rewrite incr_gen_shadowed. simpl. intros [].
    + intros s. simpl. rewrite incr_gen_free. simpl. rewrite in_app_iff, <- in_rev. intros [H|H].
      * rewrite OW. apply mem_slot_In in H. rewrite H. reflexivity.
      * rewrite OW. destruct (mem_slot s dead); [reflexivity | apply Bfu; exact H].
    + simpl. rewrite incr_gen_free. simpl. apply NoDup_app_intro.
      * apply NoDup_rev. exact ND_DEAD.
      * exact Bfn.
      * intros s H1 H2. apply in_rev in H1. apply (Bso s (DEAD_SH _ H1)). apply Bfu. exact H2.
    + intros s. simpl. rewrite incr_gen_free. simpl. rewrite in_app_iff, <- in_rev. intros [H|H].
      * destruct (DEAD_LEFT _ H) as [_ L]. lia.
      * apply Bfl. exact H.
    + intros s H. simpl in H. rewrite OW. destruct (mem_slot s dead); [reflexivity | apply Bfr; exact H].
    + simpl. rewrite void_slots_length. exact Bgl.
    + (* heap: the visited cells are the new good set *)
      exists V. split.
      * intros s. change (heap e') with (heap e). rewrite GL. destruct (mem_slot s dead) eqn:MD; [apply vgood_void|].
        apply mem_slot_false in MD.
        destruct (Nat.ltb s (length (globals e))) eqn:LT.
        -- apply Nat.ltb_lt in LT. destruct (STAY s MD LT) as [D1 D2]. split; [apply DEAD_OK; [apply Bv | exact D1] | exact D2].
        -- apply Nat.ltb_ge in LT. rewrite nth_overflow; [apply vgood_void | exact LT].
      * intros a Ha. change (heap e') with (heap e).
        destruct (R4 a Ha (fun H : In a [] => match H with end)) as [[D1 D2] HG].
        split; [apply DEAD_OK; [apply (proj1 (SK2 a HG)) | exact D1] | exact D2].
  - intros s H. apply OWK. intros HD. apply H. apply DEAD_SH. exact HD.
  - simpl. rewrite incr_gen_shadowed. reflexivity.
Qed.


Lemma Bound_new : Bound eng_new.
Proof.
  constructor; simpl.
  - intros s. destruct s; exact I.
  - intros x s H. discriminate.
  - intros x y s H. discriminate.
  - intros x s H. discriminate.
  - intros s [].
  - intros s [].
  - constructor.
  - intros s [].
  - intros s _. unfold owner_of. simpl. destruct s; reflexivity.
  - lia.
  - exists []. split; [intros s; destruct s; apply vgood_void | intros a []].
Qed.

Lemma maybe_recycle_Bound : forall c e L code, config_sound c -> Bound e ->
  Forall (rform_okP (instr_code_ok e) L) code ->
  Bound (maybe_recycle c e) /\
  Forall (rform_okP (instr_run_ok (maybe_recycle c e)) L) code /\
  values (sm (maybe_recycle c e)) = values (sm e).
Proof.
  intros c e L code CS B F. unfold maybe_recycle.
  destruct (should_collect (fl (sm e))).
  - destruct (recycle_Bound c e CS B) as [B2 [OW [V [M SH]]]].
    split; [exact B2|]. split; [|exact V].
    eapply Forall_impl; [|exact F]. intros f Hf. eapply rform_okP_impl; [|exact Hf].
    intros i Hi R. destruct (Hi R) as [[b [G O]] NS]. exists b. split; [exact G|].
    rewrite OW; assumption.
  - split; [exact B|]. split; [|reflexivity].
    eapply Forall_impl; [|exact F]. intros f Hf. eapply rform_okP_impl; [|exact Hf].
    intros i Hi R. destruct (Hi R) as [HH _]. exact HH.
Qed.

Lemma Bound_set_state : forall e G g hp, Bound e -> sok e G g hp -> length g <= length (values (sm e)) ->
  Bound (mkE (sm e) g (owner e) (nextb e) hp).
Proof.
  intros e G g hp B SK L. destruct B as [Bv Bmo Bmi Bns Bso Bfu Bfn Bfl Bfr Bgl Bh].
  assert (LE : owner_le e (mkE (sm e) g (owner e) (nextb e) hp)) by (intros t b H; exact H).
  constructor; simpl; auto.
  - intros s. eapply val_ok_le; [exact LE | apply (proj1 (proj1 SK s))].
  - exists G. eapply sok_le; [exact LE | exact SK].
Qed.

Theorem Bound_run_unit : forall c fuel e u, config_sound c -> Bound e -> Bound (fst (run_unit c fuel e u)).
Proof.
  intros c fuel e u CS B. unfold run_unit.
  destruct (u_expand_fails u); [exact B|].
  pose proof CS as [COVER [HDR [FOL [SNAP CLR]]]].
  destruct (build_Bound c e (u_forms u) B SNAP) as [B1 [L1 [G1 CODE]]].
  destruct (build c e (u_forms u)) as [e1 [code|]]; simpl in *; [|exact B1].
  destruct (maybe_recycle_Bound c e1 _ code CS B1 CODE) as [B2 [C2 V2]].
  set (e2 := maybe_recycle c e1) in *.
  destruct (b_heap e2 B2) as [G SK].
  destruct (run_forms_ok e2 fuel (length (values (sm e1))) code G (globals e2) (heap e2) SK) as [G3 [S3 L3]].
  - rewrite <- V2. apply (b_glob_len e2 B2).
  - exact C2.
  - destruct (run_forms fuel (globals e2, heap e2) code) as [[g hp] r]. simpl in *.
    eapply Bound_set_state; [exact B2 | exact S3 | rewrite V2; exact L3].
Qed.

Theorem Bound_history : forall c fuel h e, config_sound c -> Bound e -> Bound (fst (run_history c fuel e h)).
Proof.
  intros c fuel h. induction h as [|u r IH]; intros e CS B; simpl; [exact B|].
  pose proof (Bound_run_unit c fuel e u CS B) as B1.
  destruct (run_unit c fuel e u) as [e1 o]. simpl in *.
  pose proof (IH e1 CS B1) as B2.
  destruct (run_history c fuel e1 r) as [e2 os]. simpl in *. exact B2.
Qed.

(* the code as it is now, any history, any fuel *)
Theorem Bound_now : forall fuel h, Bound (fst (run_history cfg_now fuel eng_new h)).
Proof. intros. apply Bound_history; [exact config_now_sound | exact Bound_new]. Qed.


(* ------------------------------------------------------------------ redefine_local *)

Definition slot_unowned (e : eng) (o : option slot) : Prop :=
  match o with Some s => owner_of e s = None | None => True end.

Lemma unowned_back : forall e e1 s, owner_le e e1 -> owner_of e1 s = None -> owner_of e s = None.
Proof.
  intros e e1 s L H. destruct (owner_of e s) as [b|] eqn:E; [|reflexivity].
  apply L in E. congruence.
Qed.

Lemma first_pass_targets_fresh : forall fs e, Bound e -> Forall (slot_unowned e) (snd (first_pass e fs)).
Proof.
  induction fs as [|f r IH]; intros e B; simpl; [constructor|].
  destruct f as [x a|a].
  - destruct (add_define_Bound e x B) as [B1 [L1 [G1 [S1 [V1 U1]]]]].
    destruct (add_define e x) as [e1 idx]. simpl in *.
    pose proof (IH e1 B1) as F. destruct (first_pass e1 r) as [e2 l]. simpl in *.
    constructor; [exact U1|].
    eapply Forall_impl; [|exact F]. intros [s|] H; simpl in *; [eapply unowned_back; eauto | exact I].
  - pose proof (IH e B) as F. destruct (first_pass e r) as [e2 l]. simpl in *.
    constructor; [exact I | exact F].
Qed.

Lemma redefine_local_l : forall c e fs, Bound e -> c_snapshot c = true ->
  globals (fst (build c e fs)) = globals e /\ heap (fst (build c e fs)) = heap e /\
  (forall s b, owner_of e s = Some b -> owner_of (fst (build c e fs)) s = Some b) /\
  Forall (slot_unowned e) (snd (first_pass e fs)).
Proof.
  intros c e fs B SN. destruct (build_Bound c e fs B SN) as [B1 [L1 [[G1 H1] _]]].
  split; [exact G1|]. split; [exact H1|]. split; [exact L1 | apply first_pass_targets_fresh; exact B].
Qed.

(* ------------------------------------------------------------------ set_visible *)

Lemma set_visible_l : forall fuel g hp s b n, s < length g ->
  eval fuel (g, hp) (RSet s b (RConst n)) = ((set_nth s (VInt n) g, hp), Some (nth s g VVoid)) /\
  nth s (set_nth s (VInt n) g) VVoid = VInt n /\
  (forall t, t <> s -> nth t (set_nth s (VInt n) g) VVoid = nth t g VVoid).
Proof.
  intros fuel g hp s b n L. simpl. assert (LT : Nat.ltb s (length g) = true) by (apply Nat.ltb_lt; exact L).
  rewrite LT. split; [reflexivity|]. split.
  - rewrite nth_set_nth, Nat.eqb_refl, LT. reflexivity.
  - intros t NE. rewrite nth_set_nth. apply Nat.eqb_neq in NE. rewrite NE. reflexivity.
Qed.

(* ------------------------------------------------------------------ rollback *)

Lemma rollback_restores_l : forall c fuel e u, c_snapshot c = true ->
  snd (run_unit c fuel e u) = None ->
  u_expand_fails u = true \/ snd (build c e (u_forms u)) = None ->
  fst (run_unit c fuel e u) = e.
Proof.
  intros c fuel e u SN _ H. unfold run_unit. destruct (u_expand_fails u); [reflexivity|].
  destruct H as [H|H]; [discriminate|]. unfold build in *.
  destruct (first_pass e (u_forms u)) as [e1 slots].
  destruct (second_pass e1 (defined_names (u_forms u)) [] (u_forms u) slots); [discriminate|].
  rewrite SN. reflexivity.
Qed.

Definition cfg_truncate : config := mkCfg scanned_ops true true false true.

Definition st_x5 : eng := fst (run_history cfg_truncate 10 eng_new [mkU false [FDefine 0 (EConst 5)]]).

Lemma rollback_truncate_refuted_l :
  exists e fs x s, sm_get (sm e) x = Some s /\ snd (build cfg_truncate e fs) = None /\
                   sm_get (sm (fst (build cfg_truncate e fs))) x = None.
Proof.
  exists st_x5, [FDefine 0 (EConst 6); FExpr (EGlobal 77)], 0, 0.
  vm_compute. repeat split; reflexivity.
Qed.

(* ------------------------------------------------------------------ a decision procedure for the value part of Bound *)

Definition instr_okb (e : eng) (h : option opcode) (idx : nat) (i : instr) : bool :=
  if refs_global (true_op h idx i)
  then match i_ghost i, owner_of e (i_pay i) with
       | Some b, Some b' => Nat.eqb b b'
       | _, _ => false
       end
  else true.

Fixpoint body_okb (e : eng) (h : option opcode) (idx : nat) (b : list instr) : bool :=
  match b with
  | [] => true
  | i :: r => instr_okb e h idx i && body_okb e h (S idx) r
  end.

Fixpoint val_okb (e : eng) (v : val) : bool :=
  match v with
  | VClo h body caps => body_okb e h 0 body && val_okb e caps
  | VPair a b => val_okb e a && val_okb e b
  | _ => true
  end.

(* a cell mentioned by a stored value holds a well bound value as well *)
Lemma Bound_cell : forall e s a, Bound e -> In a (cells_in (nth s (globals e) VVoid)) -> a < length (heap e) ->
  val_ok e (nth a (heap e) VVoid).
Proof.
  intros e s a B Ha Hl. destruct (b_heap e B) as [G [S1 S2]].
  destruct (S1 s) as [_ C]. apply (proj1 (S2 a (C a Ha Hl))).
Qed.

Lemma instr_okb_sound : forall e h idx i, instr_ok e h idx i -> instr_okb e h idx i = true.
Proof.
  intros e h idx i H. unfold instr_okb. destruct (refs_global (true_op h idx i)) eqn:R; [|reflexivity].
  destruct (H R) as [b [G O]]. rewrite G, O. apply Nat.eqb_refl.
Qed.

Lemma body_okb_sound : forall e h b idx, body_ok e h idx b -> body_okb e h idx b = true.
Proof.
  intros e h b. induction b as [|i r IH]; intros idx H; simpl in *; [reflexivity|].
  destruct H as [H1 H2]. rewrite (instr_okb_sound _ _ _ _ H1), (IH _ H2). reflexivity.
Qed.

Lemma val_okb_sound : forall e v, val_ok e v -> val_okb e v = true.
Proof.
  intros e v. induction v; simpl; intros H; auto.
  - destruct H as [H1 H2]. rewrite (body_okb_sound _ _ _ _ H1), (IHv H2). reflexivity.
  - destruct H as [H1 H2]. rewrite (IHv1 H1), (IHv2 H2). reflexivity.
Qed.

Lemma not_Bound_by_cell : forall e s a, In a (cells_in (nth s (globals e) VVoid)) -> a < length (heap e) ->
  val_okb e (nth a (heap e) VVoid) = false -> ~ Bound e.
Proof.
  intros e s a Ha Hl H B. pose proof (val_okb_sound e _ (Bound_cell e s a B Ha Hl)) as K. congruence.
Qed.

Lemma not_Bound_by_slot : forall e s, val_okb e (nth s (globals e) VVoid) = false -> ~ Bound e.
Proof.
  intros e s H B. pose proof (val_okb_sound e _ (b_vals e B s)) as K. congruence.
Qed.

(* ------------------------------------------------------------------ the earlier variants of the scan violate Bound *)

Definition U1 (fs : list form) : unit_ := mkU false fs.
Definition many (f : nat -> form) (n : nat) : list unit_ := map (fun i => U1 [f i]) (seq 0 n).

(* scan without OpCode::SET (DESIGN F2): x=0, setter=1, junk=2 *)
Definition cfg_no_set : config :=
  mkCfg (filter (fun o => negb (op_eqb o Op_SET)) scanned_ops) true true true true.
Definition h_no_set : list unit_ :=
  [U1 [FDefine 0 (EConst 1); FDefine 1 (ELam false false [SL Op_READLOCAL 0 None; SG Op_SET 0 None] (EConst 0))];
   U1 [FDefine 0 (EConst 2)]] ++ many (fun i => FDefine 2 (EConst i)) 120.

(* scan that ignores the JIT header (DESIGN F3): f=0, g=1, junk=2 *)
Definition cfg_no_header : config := mkCfg scanned_ops false true true true.
Definition h_no_header : list unit_ :=
  [U1 [FDefine 0 (ELam true false [] (EConst 0))];
   U1 [FDefine 1 (ELam true false [SG Op_CALLGLOBALTAIL 0 None] (EConst 0))];
   U1 [FDefine 0 (ELam true false [] (EConst 0))]] ++ many (fun i => FDefine 2 (EConst i)) 120.

(* scan that does not visit the value of a shadowed slot it found referenced: h=0, f=1, g=2, junk=3 *)
Definition cfg_no_follow : config := mkCfg scanned_ops true false true true.
Definition h_no_follow : list unit_ :=
  [U1 [FDefine 0 (ELam false false [SL Op_PUSHCONST 1 None] (EConst 0))];
   U1 [FDefine 1 (ELam false false [SL Op_PUSHCONST 1 None; SG Op_CALLGLOBAL 0 None] (EConst 0))];
   U1 [FDefine 2 (ELam false false [SL Op_PUSHCONST 1 None; SG Op_CALLGLOBAL 1 None] (EConst 0))];
   U1 [FDefine 0 (EConst 2)]; U1 [FDefine 1 (EConst 3)]] ++ many (fun i => FDefine 3 (EConst i)) 120.

Lemma scan_without_SET_refuted_l : exists h, ~ Bound (fst (run_history cfg_no_set 10 eng_new h)).
Proof. exists h_no_set. apply (not_Bound_by_slot _ 1). vm_compute. reflexivity. Qed.

Lemma scan_without_header_refuted_l : exists h, ~ Bound (fst (run_history cfg_no_header 10 eng_new h)).
Proof. exists h_no_header. apply (not_Bound_by_slot _ 1). vm_compute. reflexivity. Qed.

Lemma scan_without_follow_refuted_l : exists h, ~ Bound (fst (run_history cfg_no_follow 10 eng_new h)).
Proof. exists h_no_follow. apply (not_Bound_by_slot _ 1). vm_compute. reflexivity. Qed.

(* a walk that starts from stale mark bits: h=0, g=1 (calls h), holder=2 (a box holding g), junk=3.
   g and h are redefined, so the old g lives only in the box and the old h is referenced only by the old g. *)
Definition cfg_stale_marks : config := mkCfg scanned_ops true true true false.
Definition h_stale_marks : list unit_ :=
  [U1 [FDefine 0 (ELam false false [SL Op_PUSHCONST 1 None] (EConst 0))];
   U1 [FDefine 1 (ELam false false [SL Op_PUSHCONST 1 None; SG Op_CALLGLOBAL 0 None] (EConst 0))];
   U1 [FDefine 2 (EBox false (EGlobal 1))];
   U1 [FDefine 1 (EConst 2)]; U1 [FDefine 0 (EConst 3)]] ++ many (fun i => FDefine 3 (EConst i)) 120.

Lemma scan_with_stale_marks_refuted_l : exists h, ~ Bound (fst (run_history cfg_stale_marks 10 eng_new h)).
Proof.
  exists h_stale_marks. apply (not_Bound_by_cell _ 2 0); [vm_compute; left; reflexivity | vm_compute; lia | vm_compute; reflexivity].
Qed.

(* the same history on the code as it is now: the closure in the box is still well bound after the recycling round *)
Lemma heap_nonvacuous_l :
  let e := fst (run_history cfg_now 10 eng_new h_stale_marks) in
  threshold (fl (sm e)) <> initial_threshold /\ free (fl (sm e)) <> [] /\
  nth 2 (globals e) VVoid = VRef 0 /\ val_okb e (nth 0 (heap e) VVoid) = true /\
  (exists h b c, nth 0 (heap e) VVoid = VClo h b c /\ b <> []).
Proof.
  vm_compute. split; [discriminate|]. split; [discriminate|]. split; [reflexivity|]. split; [reflexivity|].
  eexists. eexists. eexists. split; [reflexivity | discriminate].
Qed.

(* the same histories under the code as it is now: recycling happened and the invariant holds (non-vacuity) *)
Lemma nonvacuous_l :
  let e := fst (run_history cfg_now 10 eng_new h_no_follow) in
  threshold (fl (sm e)) <> initial_threshold /\
  free (fl (sm e)) <> [] /\ val_okb e (nth 2 (globals e) VVoid) = true /\
  (exists h b c, nth 2 (globals e) VVoid = VClo h b c /\ b <> []).
Proof.
  vm_compute. split; [discriminate|]. split; [discriminate|]. split; [reflexivity|].
  eexists. eexists. eexists. split; [reflexivity | discriminate].
Qed.
