(* C06 -- lemmas.  Part 2: the invariant [Bound] is preserved by every evaluation step (add, the two interner passes,
   roll-back of a failed build, slot recycling, running the unit), for every configuration that satisfies
   [config_sound] -- in particular the one generated from /repo (Proofs_C06.config_now_sound);
   the earlier variants of the scan and of the roll-back are refuted by witnesses. *)
From Coq Require Import List Arith Bool Lia.
From SV Require Import gen.Gen_C06 c06.Model_C06 c06.Proofs_C06.
Import ListNotations.
Open Scope list_scope.


(* ------------------------------------------------------------------ lists *)

Lemma nth_set_nth : forall {A} (l : list A) n m x d,
  nth m (set_nth n x l) d = if Nat.eqb m n then (if Nat.ltb n (length l) then x else nth m l d) else nth m l d.
Proof.
  induction l as [|y r IH]; intros n m x d.
  - destruct n; destruct m as [|m]; simpl; try reflexivity; destruct (Nat.eqb m n); reflexivity.
  - destruct n as [|n]; destruct m as [|m]; simpl; try reflexivity.
    rewrite IH. destruct (Nat.eqb m n) eqn:E; try reflexivity.
Qed.

Lemma length_set_nth : forall {A} (l : list A) n x, length (set_nth n x l) = length l.
Proof. induction l; intros [|n] x; simpl; auto. Qed.

Lemma nth_set_nth_pad : forall {A} (d : A) n m x l,
  nth m (set_nth_pad d n x l) d = if Nat.eqb m n then x else nth m l d.
Proof.
  intros A d n. induction n as [|n IH]; intros m x l.
  - destruct l; destruct m; simpl; try reflexivity. destruct m; reflexivity.
  - destruct l as [|y r]; destruct m as [|m]; simpl; try reflexivity.
    + rewrite IH. destruct (Nat.eqb m n); try reflexivity. destruct m; reflexivity.
    + rewrite IH. reflexivity.
Qed.

Lemma length_set_nth_pad : forall {A} (d : A) n x l,
  length (set_nth_pad d n x l) = Nat.max (length l) (S n).
Proof.
  intros A d n. induction n as [|n IH]; intros x l.
  - destruct l; simpl; try reflexivity. lia.
  - destruct l as [|y r]; simpl; rewrite IH; simpl; lia.
Qed.

Lemma mem_slot_In : forall s l, mem_slot s l = true <-> In s l.
Proof.
  intros s l. unfold mem_slot. rewrite existsb_exists. split.
  - intros [x [H1 H2]]. apply Nat.eqb_eq in H2. subst. exact H1.
  - intros H. exists s. split; [exact H | apply Nat.eqb_refl].
Qed.

Lemma mem_slot_false : forall s l, mem_slot s l = false <-> ~ In s l.
Proof.
  intros s l. rewrite <- mem_slot_In. destruct (mem_slot s l); split; intros; try congruence.
Qed.

(* ------------------------------------------------------------------ lookup *)

Lemma lookup_remove_name : forall m x y,
  lookup (remove_name x m) y = if Nat.eqb y x then None else lookup m y.
Proof.
  induction m as [|[z s] r IH]; intros x y; simpl.
  - destruct (Nat.eqb y x); reflexivity.
  - destruct (Nat.eqb x z) eqn:E; simpl.
    + apply Nat.eqb_eq in E. subst z. rewrite IH. destruct (Nat.eqb y x) eqn:E2; reflexivity.
    + rewrite IH. destruct (Nat.eqb y z) eqn:E2; [|reflexivity].
      apply Nat.eqb_eq in E2. subst z. rewrite Nat.eqb_sym. rewrite E. reflexivity.
Qed.

Lemma lookup_add : forall m x idx y,
  lookup ((x, idx) :: remove_name x m) y = if Nat.eqb y x then Some idx else lookup m y.
Proof.
  intros. simpl. rewrite lookup_remove_name. destruct (Nat.eqb y x); reflexivity.
Qed.


(* ------------------------------------------------------------------ ownership order *)

Definition owner_le (e1 e2 : eng) : Prop := forall s b, owner_of e1 s = Some b -> owner_of e2 s = Some b.

Lemma owner_le_refl : forall e, owner_le e e.
Proof. intros e s b H; exact H. Qed.

Lemma owner_le_trans : forall a b c, owner_le a b -> owner_le b c -> owner_le a c.
Proof. intros a b c H1 H2 s x H. apply H2, H1, H. Qed.

Lemma instr_ok_le : forall e1 e2 h idx i, owner_le e1 e2 -> instr_ok e1 h idx i -> instr_ok e2 h idx i.
Proof.
  intros e1 e2 h idx i L H R. destruct (H R) as [b [H1 H2]]. exists b. split; [exact H1 | apply L; exact H2].
Qed.

Lemma body_ok_le : forall e1 e2 h b idx, owner_le e1 e2 -> body_ok e1 h idx b -> body_ok e2 h idx b.
Proof.
  intros e1 e2 h b. induction b as [|i r IH]; intros idx L H; simpl in *; [exact I|].
  destruct H as [H1 H2]. split; [eapply instr_ok_le; eauto | apply IH; auto].
Qed.

Lemma val_ok_le : forall e1 e2 v, owner_le e1 e2 -> val_ok e1 v -> val_ok e2 v.
Proof.
  intros e1 e2 v L. induction v; simpl; intros H; auto.
  - destruct H as [H1 H2]. split; [eapply body_ok_le; eauto | auto].
  - destruct H as [H1 H2]. split; auto.
Qed.

Definition gok (e : eng) (g : list val) : Prop := forall s, val_ok e (nth s g VVoid).

Lemma gok_le : forall e1 e2 g, owner_le e1 e2 -> gok e1 g -> gok e2 g.
Proof. intros e1 e2 g L H s. eapply val_ok_le; eauto. Qed.

Lemma gok_set_nth : forall e g n v, gok e g -> val_ok e v -> gok e (set_nth n v g).
Proof.
  intros e g n v G V s. rewrite nth_set_nth.
  destruct (Nat.eqb s n); [destruct (Nat.ltb n (length g)); [exact V | apply G] | apply G].
Qed.

Lemma gok_define_idx : forall e g n v, gok e g -> val_ok e v -> gok e (define_idx n v g).
Proof.
  intros e g n v G V s. unfold define_idx. rewrite nth_set_nth_pad.
  destruct (Nat.eqb s n); [exact V | apply G].
Qed.

(* ------------------------------------------------------------------ calls *)

(* the body loop of [call], with the recursive call abstracted *)
Fixpoint go_body (callf : list val -> val -> nat -> list val * option val)
         (h : option opcode) (caps : val) (arg : nat) (idx : nat) (b : list instr) (g : list val)
  : list val * option val :=
  match b with
  | [] => (g, Some VNil)
  | i :: rest =>
      let o := true_op h idx i in
      let a := match i_imm i with Some k => k | None => arg end in
      let '(g1, r1) :=
        if op_eqb o Op_PUSH then
          (g, if Nat.ltb (i_pay i) (length g) then Some (Some (nth (i_pay i) g VVoid)) else None)
        else if op_eqb o Op_SET then
          if Nat.ltb (i_pay i) (length g)
          then (set_nth (i_pay i) (VInt a) g, Some (Some (nth (i_pay i) g VVoid)))
          else (g, None)
        else if is_call_op o then
          if Nat.ltb (i_pay i) (length g)
          then let '(g', r) := callf g (nth (i_pay i) g VVoid) a in (g', option_map Some r)
          else (g, None)
        else if op_eqb o Op_READCAPTURED then
          match caps with
          | VClo _ _ _ => let '(g', r) := callf g caps a in (g', option_map Some r)
          | _ => (g, Some (Some caps))
          end
        else (g, Some None) in
      match r1 with
      | None => (g1, None)
      | Some out =>
          let '(g2, r2) := go_body callf h caps arg (S idx) rest g1 in
          (g2, match out with Some v => option_map (VPair v) r2 | None => r2 end)
      end
  end.

Lemma call_unfold : forall fuel g h body caps arg,
  call (S fuel) g (VClo h body caps) arg = go_body (call fuel) h caps arg 0 body g.
Proof.
  intros fuel g h body caps arg. cbn [call]. generalize 0 as idx. revert g.
  induction body as [|i rest IH]; intros g idx.
  - reflexivity.
  - cbn [go_body].
    match goal with |- (let '(g1, r1) := ?X in _) = _ => destruct X as [g1 r1] end.
    destruct r1 as [out|]; [|reflexivity].
    rewrite IH. reflexivity.
Qed.

Definition callf_ok (e : eng) (callf : list val -> val -> nat -> list val * option val) : Prop :=
  forall g f arg, gok e g -> val_ok e f ->
    gok e (fst (callf g f arg)) /\ (forall v, snd (callf g f arg) = Some v -> val_ok e v) /\
    length (fst (callf g f arg)) = length g.

Lemma go_body_ok : forall e callf h caps arg, callf_ok e callf -> val_ok e caps ->
  forall b idx g, gok e g ->
    gok e (fst (go_body callf h caps arg idx b g)) /\
    (forall v, snd (go_body callf h caps arg idx b g) = Some v -> val_ok e v) /\
    length (fst (go_body callf h caps arg idx b g)) = length g.
Proof.
  intros e callf h caps arg CF VC. induction b as [|i rest IH]; intros idx g G.
  - simpl. split; [exact G|]. split; [|reflexivity]. intros v Hv. inversion Hv. exact I.
  - simpl.
    set (o := true_op h idx i). set (a := match i_imm i with Some k => k | None => arg end).
    (* the step *)
    assert (STEP : forall g1 r1,
      (if op_eqb o Op_PUSH then
          (g, if Nat.ltb (i_pay i) (length g) then Some (Some (nth (i_pay i) g VVoid)) else None)
        else if op_eqb o Op_SET then
          if Nat.ltb (i_pay i) (length g)
          then (set_nth (i_pay i) (VInt a) g, Some (Some (nth (i_pay i) g VVoid)))
          else (g, None)
        else if is_call_op o then
          if Nat.ltb (i_pay i) (length g)
          then let '(g', r) := callf g (nth (i_pay i) g VVoid) a in (g', option_map Some r)
          else (g, None)
        else if op_eqb o Op_READCAPTURED then
          match caps with
          | VClo _ _ _ => let '(g', r) := callf g caps a in (g', option_map Some r)
          | _ => (g, Some (Some caps))
          end
        else (g, Some None)) = (g1, r1) ->
      gok e g1 /\ length g1 = length g /\ (forall v, r1 = Some (Some v) -> val_ok e v)).
    { intros g1 r1 E.
      destruct (op_eqb o Op_PUSH).
      { injection E as <- <-. split; [exact G|]. split; [reflexivity|].
        intros v Hv. destruct (Nat.ltb (i_pay i) (length g)); inversion Hv. apply G. }
      destruct (op_eqb o Op_SET).
      { destruct (Nat.ltb (i_pay i) (length g)); injection E as <- <-.
        - split; [apply gok_set_nth; [exact G | exact I]|]. split; [apply length_set_nth|].
          intros v Hv. inversion Hv. apply G.
        - split; [exact G|]. split; [reflexivity|]. intros v Hv. discriminate. }
      destruct (is_call_op o).
      { destruct (Nat.ltb (i_pay i) (length g)).
        - destruct (CF g (nth (i_pay i) g VVoid) a G (G _)) as [C1 [C2 C3]].
          destruct (callf g (nth (i_pay i) g VVoid) a) as [g' r]. simpl in *. injection E as <- <-.
          split; [exact C1|]. split; [exact C3|]. intros v Hv. destruct r; inversion Hv; subst. apply C2. reflexivity.
        - injection E as <- <-. split; [exact G|]. split; [reflexivity|]. intros v Hv. discriminate. }
      destruct (op_eqb o Op_READCAPTURED).
      { destruct caps as [n| | |hdr body caps'|pa pb];
          try (injection E as <- <-; split; [exact G|]; split; [reflexivity|]; intros v Hv; inversion Hv; subst; exact VC).
        destruct (CF g (VClo hdr body caps') a G VC) as [C1 [C2 C3]].
        destruct (callf g (VClo hdr body caps') a) as [g' r]. simpl in *. injection E as <- <-.
        split; [exact C1|]. split; [exact C3|]. intros v Hv. destruct r; inversion Hv; subst. apply C2. reflexivity. }
      injection E as <- <-. split; [exact G|]. split; [reflexivity|]. intros v Hv. discriminate. }
    match goal with |- context [let '(g1, r1) := ?X in _] => destruct X as [g1 r1] eqn:EX end.
    destruct (STEP g1 r1 eq_refl) as [S1 [S2 S3]].
    destruct r1 as [out|].
    + destruct (IH (S idx) g1 S1) as [I1 [I2 I3]].
      destruct (go_body callf h caps arg (S idx) rest g1) as [g2 r2]. simpl in *.
      split; [exact I1|]. split; [|lia].
      intros v Hv. destruct out as [w|].
      * destruct r2 as [r2v|]; inversion Hv; subst. simpl. split; [apply S3; reflexivity | apply I2; reflexivity].
      * apply I2. exact Hv.
    + simpl. split; [exact S1|]. split; [|exact S2]. intros v Hv. discriminate.
Qed.

Lemma call_ok : forall e fuel, callf_ok e (call fuel).
Proof.
  intros e. induction fuel as [|fuel IH]; intros g f arg G V.
  - simpl. split; [exact G|]. split; [intros v Hv; discriminate | reflexivity].
  - destruct f; try (simpl; split; [exact G|]; split; [intros v Hv; discriminate | reflexivity]).
    rewrite call_unfold. simpl in V. destruct V as [V1 V2].
    apply go_body_ok; auto.
Qed.


(* ------------------------------------------------------------------ compiled code *)

Fixpoint rexpr_okP (P : instr -> Prop) (r : rexpr) : Prop :=
  match r with
  | RLam _ body cap => Forall P body /\ rexpr_okP P cap
  | RPair a b => rexpr_okP P a /\ rexpr_okP P b
  | RCar a => rexpr_okP P a
  | RCdr a => rexpr_okP P a
  | RCall a _ => rexpr_okP P a
  | RSet _ _ a => rexpr_okP P a
  | _ => True
  end.

Definition rform_okP (P : instr -> Prop) (L : nat) (f : rform) : Prop :=
  match f with
  | RDefine s a => s < L /\ rexpr_okP P a
  | RExpr a => rexpr_okP P a
  end.

Lemma rexpr_okP_impl : forall (P Q : instr -> Prop) r, (forall i, P i -> Q i) -> rexpr_okP P r -> rexpr_okP Q r.
Proof.
  intros P Q r PQ. induction r; simpl; auto.
  - intros [H1 H2]. split; [eapply Forall_impl; eauto | auto].
  - intros [H1 H2]. split; auto.
Qed.

Lemma rform_okP_impl : forall (P Q : instr -> Prop) L f, (forall i, P i -> Q i) -> rform_okP P L f -> rform_okP Q L f.
Proof.
  intros P Q L [s a|a] PQ; simpl.
  - intros [H1 H2]. split; [exact H1 | eapply rexpr_okP_impl; eauto].
  - apply rexpr_okP_impl; exact PQ.
Qed.

(* what running code needs of an instruction inside a lambda body *)
Definition instr_run_ok (e : eng) (i : instr) : Prop :=
  refs_global (i_op i) = true -> exists b, i_ghost i = Some b /\ owner_of e (i_pay i) = Some b.

Lemma Forall_body_ok : forall e b idx, Forall (instr_run_ok e) b -> body_ok e None idx b.
Proof.
  intros e b. induction b as [|i r IH]; intros idx H; simpl; [exact I|].
  inversion H; subst. split; [|apply IH; assumption].
  unfold instr_ok. assert (T : true_op None idx i = i_op i) by (destruct idx; reflexivity).
  rewrite T. assumption.
Qed.

Lemma body_ok_hdr_S : forall e h1 h2 b idx, body_ok e h1 (S idx) b -> body_ok e h2 (S idx) b.
Proof.
  intros e h1 h2 b. induction b as [|i r IH]; intros idx H; simpl in *; [exact I|].
  destruct H as [H1 H2]. split; [|apply IH; exact H2].
  unfold instr_ok in *. simpl in *. exact H1.
Qed.

Lemma mk_closure_ok : forall e jit body caps,
  body_ok e None 0 body -> val_ok e caps -> val_ok e (mk_closure jit body caps).
Proof.
  intros e jit body caps B C. unfold mk_closure. destruct jit; [|simpl; split; assumption].
  destruct body as [|i r]; simpl; [split; [exact I | exact C]|].
  simpl in B. destruct B as [B1 B2]. split; [|exact C]. split.
  - unfold instr_ok in *. simpl in *. exact B1.
  - eapply body_ok_hdr_S. exact B2.
Qed.

Lemma eval_ok : forall e fuel x g, gok e g -> rexpr_okP (instr_run_ok e) x ->
  gok e (fst (eval fuel g x)) /\ (forall v, snd (eval fuel g x) = Some v -> val_ok e v) /\
  length (fst (eval fuel g x)) = length g.
Proof.
  intros e fuel x. induction x; intros g G R; simpl in *.
  - split; [exact G|]. split; [intros v Hv; inversion Hv; exact I | reflexivity].
  - split; [exact G|]. split; [intros v Hv; inversion Hv; exact I | reflexivity].
  - split; [exact G|]. split; [|reflexivity]. intros v Hv. destruct (Nat.ltb s (length g)); inversion Hv. apply G.
  - destruct R as [R1 R2]. destruct (IHx g G R2) as [I1 [I2 I3]].
    destruct (eval fuel g x) as [g1 c]. simpl in *. split; [exact I1|]. split; [|exact I3].
    intros v Hv. destruct c as [c|]; inversion Hv; subst.
    apply mk_closure_ok; [apply Forall_body_ok; exact R1 | apply I2; reflexivity].
  - destruct R as [R1 R2]. destruct (IHx1 g G R1) as [I1 [I2 I3]].
    destruct (eval fuel g x1) as [g1 va]. simpl in *. destruct va as [va|].
    + destruct (IHx2 g1 I1 R2) as [J1 [J2 J3]]. destruct (eval fuel g1 x2) as [g2 vb]. simpl in *.
      split; [exact J1|]. split; [|lia]. intros v Hv. destruct vb as [vb|]; inversion Hv; subst.
      simpl. split; [apply I2; reflexivity | apply J2; reflexivity].
    + simpl. split; [exact I1|]. split; [intros v Hv; discriminate | exact I3].
  - destruct (IHx g G R) as [I1 [I2 I3]]. destruct (eval fuel g x) as [g1 v1]. simpl in *.
    split; [exact I1|]. split; [|exact I3]. intros v Hv.
    destruct v1 as [[| | | |p q]|]; inversion Hv; subst. destruct (I2 _ eq_refl) as [A B]. exact A.
  - destruct (IHx g G R) as [I1 [I2 I3]]. destruct (eval fuel g x) as [g1 v1]. simpl in *.
    split; [exact I1|]. split; [|exact I3]. intros v Hv.
    destruct v1 as [[| | | |p q]|]; inversion Hv; subst. destruct (I2 _ eq_refl) as [A B]. exact B.
  - destruct (IHx g G R) as [I1 [I2 I3]]. destruct (eval fuel g x) as [g1 vf]. simpl in *.
    destruct vf as [vf|].
    + destruct (call_ok e fuel g1 vf arg I1 (I2 _ eq_refl)) as [C1 [C2 C3]].
      split; [exact C1|]. split; [exact C2 | lia].
    + simpl. split; [exact I1|]. split; [intros v Hv; discriminate | exact I3].
  - destruct (IHx g G R) as [I1 [I2 I3]]. destruct (eval fuel g x) as [g1 v1]. simpl in *.
    destruct v1 as [v1|].
    + destruct (Nat.ltb s (length g1)); simpl.
      * split; [apply gok_set_nth; [exact I1 | apply I2; reflexivity]|]. split; [|rewrite length_set_nth; exact I3].
        intros v Hv. inversion Hv. apply I1.
      * split; [exact I1|]. split; [intros v Hv; discriminate | exact I3].
    + simpl. split; [exact I1|]. split; [intros v Hv; discriminate | exact I3].
  - split; [exact G|]. split; [intros v Hv; discriminate | reflexivity].
Qed.

Lemma run_forms_ok : forall e fuel L code g, gok e g -> length g <= L ->
  Forall (rform_okP (instr_run_ok e) L) code ->
  gok e (fst (run_forms fuel g code)) /\ length (fst (run_forms fuel g code)) <= L.
Proof.
  intros e fuel L code. induction code as [|f r IH]; intros g G Len F; simpl.
  - split; assumption.
  - inversion F as [|? ? F1 F2]; subst. destruct f as [s a|a]; simpl in F1.
    + destruct F1 as [SL RA]. destruct (eval_ok e fuel a g G RA) as [I1 [I2 I3]].
      destruct (eval fuel g a) as [g1 v]. simpl in *. destruct v as [v|]; simpl.
      * assert (G2 : gok e (define_idx s v g1)) by (apply gok_define_idx; [exact I1 | apply I2; reflexivity]).
        assert (L2 : length (define_idx s v g1) <= L).
        { unfold define_idx. rewrite length_set_nth_pad. lia. }
        destruct (IH _ G2 L2 F2) as [J1 J2].
        destruct (run_forms fuel (define_idx s v g1) r) as [g2 vs]. simpl in *. split; assumption.
      * split; [exact I1 | lia].
    + destruct (eval_ok e fuel a g G F1) as [I1 [I2 I3]].
      destruct (eval fuel g a) as [g1 v]. simpl in *. destruct v as [v|]; simpl.
      * assert (L2 : length g1 <= L) by lia. destruct (IH _ I1 L2 F2) as [J1 J2].
        destruct (run_forms fuel g1 r) as [g2 vs]. simpl in *. split; assumption.
      * split; [exact I1 | lia].
Qed.


(* ------------------------------------------------------------------ first pass: add *)

Lemma owner_of_set : forall e idx b s sm' g' n',
  owner_of (mkE sm' g' (set_nth_pad None idx (Some b) (owner e)) n') s =
  if Nat.eqb s idx then Some b else owner_of e s.
Proof. intros. unfold owner_of. simpl. apply nth_set_nth_pad. Qed.

Lemma add_define_Bound : forall e x, Bound e ->
  Bound (fst (add_define e x)) /\
  owner_le e (fst (add_define e x)) /\
  globals (fst (add_define e x)) = globals e /\
  snd (add_define e x) < length (values (sm (fst (add_define e x)))) /\
  length (values (sm e)) <= length (values (sm (fst (add_define e x)))) /\
  owner_of e (snd (add_define e x)) = None.
Proof.
  intros e x B. destruct B as [Bv Bmo Bmi Bns Bso Bfu Bfn Bfl Bfr Bgl].
  unfold add_define, sm_add.
  remember (free (fl (sm e))) as fr eqn:Efr.
  set (sh' := match lookup (smap (sm e)) x with
              | Some prev => shadowed (fl (sm e)) ++ [prev]
              | None => shadowed (fl (sm e)) end).
  assert (SH : forall s, In s sh' -> In s (shadowed (fl (sm e))) \/ lookup (smap (sm e)) x = Some s).
  { intros s. unfold sh'. destruct (lookup (smap (sm e)) x) as [p|]; [|auto].
    rewrite in_app_iff. simpl. intros [H|[H|[]]]; [left; exact H | right; subst; reflexivity]. }
  assert (SH2 : forall s, In s (shadowed (fl (sm e))) -> In s sh').
  { intros s H. unfold sh'. destruct (lookup (smap (sm e)) x); [apply in_or_app; left|]; exact H. }
  destruct fr as [|s0 r0].
  - (* slot at the end of the table *)
    simpl. rewrite Nat.eqb_refl. simpl.
    set (idx := length (values (sm e))).
    assert (UN : owner_of e idx = None) by (apply Bfr; unfold idx; lia).
    assert (OW : forall s, owner_of (mkE (mkSM (values (sm e) ++ [x]) ((x, idx) :: remove_name x (smap (sm e)))
                                   (mkFL sh' [] (threshold (fl (sm e))) (epoch (fl (sm e)))))
                              (globals e) (set_nth_pad None idx (Some (nextb e)) (owner e)) (S (nextb e))) s
                       = if Nat.eqb s idx then Some (nextb e) else owner_of e s) by (intros; apply owner_of_set).
    set (e' := mkE _ _ _ _) in *.
    assert (LE : owner_le e e').
    { intros s b H. rewrite OW. destruct (Nat.eqb s idx) eqn:E; [|exact H].
      apply Nat.eqb_eq in E. subst s. rewrite UN in H. discriminate. }
    split; [|split; [exact LE|split; [reflexivity|split; [|split; [|exact UN]]]]].
    + constructor; simpl.
      * intros s. eapply val_ok_le; [exact LE | apply Bv].
      * intros y s. rewrite lookup_remove_name. destruct (Nat.eqb y x) eqn:E.
        -- intros H. inversion H; subst. rewrite OW, Nat.eqb_refl. discriminate.
        -- intros H. rewrite OW. destruct (Nat.eqb s idx); [discriminate | eapply Bmo; eauto].
      * intros y z s. rewrite !lookup_remove_name.
        destruct (Nat.eqb y x) eqn:E1; destruct (Nat.eqb z x) eqn:E2; intros H1 H2.
        -- apply Nat.eqb_eq in E1, E2. congruence.
        -- inversion H1; subst. exfalso. eapply Bmo; eauto.
        -- inversion H2; subst. exfalso. eapply Bmo; eauto.
        -- eapply Bmi; eauto.
      * intros y s. rewrite lookup_remove_name. destruct (Nat.eqb y x) eqn:E; intros H HI.
        -- inversion H; subst. destruct (SH _ HI) as [H1|H1]; [eapply Bso; eauto | eapply Bmo; eauto].
        -- destruct (SH _ HI) as [H1|H1]; [eapply Bns; eauto|].
           apply Nat.eqb_neq in E. apply E. eapply Bmi; eauto.
      * intros s HI. rewrite OW. destruct (Nat.eqb s idx); [discriminate|].
        destruct (SH _ HI) as [H1|H1]; [apply Bso; exact H1 | eapply Bmo; eauto].
      * intros s [].
      * constructor.
      * intros s [].
      * intros s. rewrite app_length. simpl. intros H. rewrite OW.
        destruct (Nat.eqb s idx) eqn:E; [apply Nat.eqb_eq in E; unfold idx in E; lia | apply Bfr; lia].
      * rewrite app_length. simpl. lia.
    + simpl. rewrite app_length. simpl. unfold idx. lia.
    + simpl. rewrite app_length. lia.
  - (* recycled slot *)
    simpl.
    assert (IN0 : In s0 (s0 :: r0)) by (left; reflexivity).
    assert (UN : owner_of e s0 = None) by (apply Bfu; exact IN0).
    assert (LT : s0 < length (values (sm e))) by (apply Bfl; exact IN0).
    assert (NE : Nat.eqb s0 (length (values (sm e))) = false) by (apply Nat.eqb_neq; lia).
    rewrite NE. simpl.
    assert (OW : forall s, owner_of (mkE (mkSM (set_nth s0 x (values (sm e))) ((x, s0) :: remove_name x (smap (sm e)))
                                   (mkFL sh' r0 (threshold (fl (sm e))) (epoch (fl (sm e)))))
                              (globals e) (set_nth_pad None s0 (Some (nextb e)) (owner e)) (S (nextb e))) s
                       = if Nat.eqb s s0 then Some (nextb e) else owner_of e s) by (intros; apply owner_of_set).
    set (e' := mkE _ _ _ _) in *.
    assert (LE : owner_le e e').
    { intros s b H. rewrite OW. destruct (Nat.eqb s s0) eqn:E; [|exact H].
      apply Nat.eqb_eq in E. subst s. rewrite UN in H. discriminate. }
    assert (ND : NoDup (s0 :: r0)) by exact Bfn.
    split; [|split; [exact LE|split; [reflexivity|split; [|split; [|exact UN]]]]].
    + constructor; simpl.
      * intros s. eapply val_ok_le; [exact LE | apply Bv].
      * intros y s. rewrite lookup_remove_name. destruct (Nat.eqb y x) eqn:E.
        -- intros H. inversion H; subst. rewrite OW, Nat.eqb_refl. discriminate.
        -- intros H. rewrite OW. destruct (Nat.eqb s s0); [discriminate | eapply Bmo; eauto].
      * intros y z s. rewrite !lookup_remove_name.
        destruct (Nat.eqb y x) eqn:E1; destruct (Nat.eqb z x) eqn:E2; intros H1 H2.
        -- apply Nat.eqb_eq in E1, E2. congruence.
        -- inversion H1; subst. exfalso. eapply Bmo; eauto.
        -- inversion H2; subst. exfalso. eapply Bmo; eauto.
        -- eapply Bmi; eauto.
      * intros y s. rewrite lookup_remove_name. destruct (Nat.eqb y x) eqn:E; intros H HI.
        -- inversion H; subst. destruct (SH _ HI) as [H1|H1]; [eapply Bso; eauto | eapply Bmo; eauto].
        -- destruct (SH _ HI) as [H1|H1]; [eapply Bns; eauto|].
           apply Nat.eqb_neq in E. apply E. eapply Bmi; eauto.
      * intros s HI. rewrite OW. destruct (Nat.eqb s s0); [discriminate|].
        destruct (SH _ HI) as [H1|H1]; [apply Bso; exact H1 | eapply Bmo; eauto].
      * intros s HI. rewrite OW. destruct (Nat.eqb s s0) eqn:E.
        -- apply Nat.eqb_eq in E. subst s. inversion ND; subst. contradiction.
        -- apply Bfu. right. exact HI.
      * inversion ND; assumption.
      * intros s HI. rewrite length_set_nth. apply Bfl. right. exact HI.
      * intros s. rewrite length_set_nth. intros H. rewrite OW.
        destruct (Nat.eqb s s0) eqn:E; [apply Nat.eqb_eq in E; lia | apply Bfr; exact H].
      * rewrite length_set_nth. exact Bgl.
    + simpl. rewrite length_set_nth. exact LT.
    + simpl. rewrite length_set_nth. lia.
Qed.


Definition slot_lt (L : nat) (o : option slot) : Prop := match o with Some s => s < L | None => True end.

Lemma first_pass_Bound : forall fs e, Bound e ->
  Bound (fst (first_pass e fs)) /\ owner_le e (fst (first_pass e fs)) /\
  globals (fst (first_pass e fs)) = globals e /\
  Forall (slot_lt (length (values (sm (fst (first_pass e fs)))))) (snd (first_pass e fs)) /\
  length (values (sm e)) <= length (values (sm (fst (first_pass e fs)))).
Proof.
  induction fs as [|f r IH]; intros e B; simpl.
  - split; [exact B|]. split; [apply owner_le_refl|]. split; [reflexivity|]. split; [constructor | lia].
  - destruct f as [x a|a].
    + destruct (add_define_Bound e x B) as [B1 [L1 [G1 [S1 [V1 U1]]]]].
      destruct (add_define e x) as [e1 idx]. simpl in *.
      destruct (IH e1 B1) as [B2 [L2 [G2 [S2 V2]]]].
      destruct (first_pass e1 r) as [e2 l]. simpl in *.
      split; [exact B2|]. split; [eapply owner_le_trans; eauto|]. split; [congruence|].
      split; [constructor; [simpl; lia | exact S2] | lia].
    + destruct (IH e B) as [B2 [L2 [G2 [S2 V2]]]].
      destruct (first_pass e r) as [e2 l]. simpl in *.
      split; [exact B2|]. split; [exact L2|]. split; [exact G2|]. split; [constructor; [exact I | exact S2] | exact V2].
Qed.

(* ------------------------------------------------------------------ second pass *)

Definition instr_code_ok (e : eng) (i : instr) : Prop :=
  refs_global (i_op i) = true ->
  (exists b, i_ghost i = Some b /\ owner_of e (i_pay i) = Some b) /\ ~ In (i_pay i) (shadowed (fl (sm e))).

Lemma resolve_instr_ok : forall e si i, Bound e -> resolve_instr e si = Some i -> instr_code_ok e i.
Proof.
  intros e si i B H. destruct si as [op x imm|op p imm]; simpl in H.
  - unfold sm_get in H. destruct (lookup (smap (sm e)) x) as [s|] eqn:E; [|discriminate].
    inversion H; subst. intros _. simpl. split.
    + pose proof (b_map_owned e B x s E) as O. destruct (owner_of e s) as [b|]; [|congruence].
      exists b. split; reflexivity.
    + eapply b_map_not_shadowed; eauto.
  - destruct (refs_global op) eqn:R; [discriminate|]. inversion H; subst.
    intros R2. simpl in R2. congruence.
Qed.

Lemma resolve_body_ok : forall e b l, Bound e -> resolve_body e b = Some l -> Forall (instr_code_ok e) l.
Proof.
  intros e b. induction b as [|si r IH]; intros l B H; simpl in H.
  - inversion H. constructor.
  - destruct (resolve_instr e si) as [i|] eqn:E1; [|discriminate].
    destruct (resolve_body e r) as [l'|] eqn:E2; [|discriminate].
    inversion H; subst. constructor; [eapply resolve_instr_ok; eauto | apply IH; auto].
Qed.

Lemma resolve_expr_ok : forall e defs passed x r, Bound e ->
  resolve_expr e defs passed x = Some r -> rexpr_okP (instr_code_ok e) r.
Proof.
  intros e defs passed x. induction x; intros r B H; simpl in H.
  - inversion H; exact I.
  - inversion H; exact I.
  - destruct (resolve0 e defs passed x); inversion H; exact I.
  - destruct (resolve_body e body) as [b|] eqn:E1; [|discriminate].
    destruct (resolve_expr e defs passed x) as [c|] eqn:E2; [|discriminate].
    inversion H; subst. simpl. split; [eapply resolve_body_ok; eauto | apply IHx; auto].
  - destruct (resolve_expr e defs passed x1) as [a'|] eqn:E1; [|discriminate].
    destruct (resolve_expr e defs passed x2) as [b'|] eqn:E2; [|discriminate].
    inversion H; subst. simpl. split; [apply IHx1 | apply IHx2]; auto.
  - destruct (resolve_expr e defs passed x) as [a'|] eqn:E1; [|discriminate].
    inversion H; subst. simpl. apply IHx; auto.
  - destruct (resolve_expr e defs passed x) as [a'|] eqn:E1; [|discriminate].
    inversion H; subst. simpl. apply IHx; auto.
  - destruct (resolve_expr e defs passed x) as [a'|] eqn:E1; [|discriminate].
    inversion H; subst. simpl. apply IHx; auto.
  - destruct (resolve0 e defs passed x) as [s|]; [|discriminate].
    destruct (resolve_expr e defs passed x0) as [a'|] eqn:E1; [|discriminate].
    inversion H; subst. simpl. apply IHx; auto.
  - inversion H; exact I.
Qed.

Lemma second_pass_ok : forall e defs L fs passed slots code, Bound e ->
  Forall (slot_lt L) slots ->
  second_pass e defs passed fs slots = Some code ->
  Forall (rform_okP (instr_code_ok e) L) code.
Proof.
  intros e defs L fs. induction fs as [|f r IH]; intros passed slots code B S H; simpl in H.
  - inversion H. constructor.
  - destruct f as [x a|a].
    + destruct slots as [|[s|] sl]; try discriminate.
      destruct (resolve_expr e defs passed a) as [a'|] eqn:E1; [|discriminate].
      destruct (second_pass e defs (x :: passed) r sl) as [l|] eqn:E2; [|discriminate].
      inversion H; subst. inversion S; subst. constructor.
      * simpl. split; [assumption | eapply resolve_expr_ok; eauto].
      * eapply IH; eauto.
    + destruct slots as [|o sl]; try discriminate.
      destruct (resolve_expr e defs passed a) as [a'|] eqn:E1; [|discriminate].
      destruct (second_pass e defs passed r sl) as [l|] eqn:E2; [|discriminate].
      inversion H; subst. inversion S; subst. constructor.
      * simpl. eapply resolve_expr_ok; eauto.
      * eapply IH; eauto.
Qed.

Lemma build_Bound : forall c e fs, Bound e -> c_snapshot c = true ->
  Bound (fst (build c e fs)) /\ owner_le e (fst (build c e fs)) /\
  globals (fst (build c e fs)) = globals e /\
  match snd (build c e fs) with
  | Some code => Forall (rform_okP (instr_code_ok (fst (build c e fs))) (length (values (sm (fst (build c e fs)))))) code
  | None => fst (build c e fs) = e
  end.
Proof.
  intros c e fs B SN. unfold build.
  destruct (first_pass_Bound fs e B) as [B1 [L1 [G1 [S1 V1]]]].
  destruct (first_pass e fs) as [e1 slots]. simpl in *.
  destruct (second_pass e1 (defined_names fs) [] fs slots) as [code|] eqn:E.
  - simpl. split; [exact B1|]. split; [exact L1|]. split; [exact G1|].
    eapply second_pass_ok; eauto.
  - rewrite SN. simpl. split; [exact B|]. split; [apply owner_le_refl|]. split; reflexivity.
Qed.


(* ------------------------------------------------------------------ what the scan guarantees *)

Section Scan.
Variable c : config.
Hypothesis COVER : forall o, refs_global o = true -> scanned c o = true.
Hypothesis HDR : c_header c = true.

Lemma body_ok_dead : forall (e e' : eng) (dead : list slot) h b idx,
  (forall s, ~ In s dead -> owner_of e' s = owner_of e s) ->
  body_ok e h idx b ->
  (forall t, In t (scan_body c h idx b) -> ~ In t dead) ->
  body_ok e' h idx b.
Proof.
  intros e e' dead h b. induction b as [|i r IH]; intros idx OW B S; simpl in *; [exact I|].
  destruct B as [B1 B2]. split.
  - intros R. destruct (B1 R) as [b [G O]]. exists b. split; [exact G|].
    rewrite OW; [exact O|]. apply S. apply in_or_app. left.
    unfold scan_op. rewrite HDR. rewrite (COVER _ R). left. reflexivity.
  - apply IH; auto. intros t Ht. apply S. apply in_or_app. right. exact Ht.
Qed.

Lemma val_ok_dead : forall (e e' : eng) (dead : list slot) v,
  (forall s, ~ In s dead -> owner_of e' s = owner_of e s) ->
  val_ok e v ->
  (forall t, In t (refs_of c v) -> ~ In t dead) ->
  val_ok e' v.
Proof.
  intros e e' dead v OW. induction v; simpl; intros V S; auto.
  - destruct V as [V1 V2]. split.
    + eapply body_ok_dead; eauto. intros t Ht. apply S. apply in_or_app. left. exact Ht.
    + apply IHv; auto. intros t Ht. apply S. apply in_or_app. right. exact Ht.
  - destruct V as [V1 V2]. split.
    + apply IHv1; auto. intros t Ht. apply S. apply in_or_app. left. exact Ht.
    + apply IHv2; auto. intros t Ht. apply S. apply in_or_app. right. exact Ht.
Qed.
End Scan.

(* ------------------------------------------------------------------ the rounds *)

Lemma filter_length_split : forall {A} (p : A -> bool) l,
  length (filter p l) + length (filter (fun x => negb (p x)) l) = length l.
Proof. intros A p l. induction l as [|x r IH]; simpl; [reflexivity|]. destruct (p x); simpl; lia. Qed.

Lemma rounds_spec : forall c g, c_follow c = true -> forall fuel work cands,
  length cands < fuel ->
  let left := rounds c g fuel work cands in
  (forall s, In s left -> In s cands) /\
  (forall v t, In v work -> In t (refs_of c v) -> ~ In t left) /\
  (forall s t, In s cands -> ~ In s left -> In t (refs_of c (nth s g VVoid)) -> ~ In t left).
Proof.
  intros c g FOL. induction fuel as [|f IH]; intros work cands LT; [exfalso; inversion LT|].
  simpl.
  set (refs := flat_map (refs_of c) work).
  set (rest := filter (fun s => negb (mem_slot s refs)) cands).
  assert (INREFS : forall v t, In v work -> In t (refs_of c v) -> In t refs).
  { intros v t Hv Ht. unfold refs. apply in_flat_map. exists v. split; assumption. }
  remember (filter (fun s => mem_slot s refs) cands) as kept eqn:EK.
  assert (KEPT : forall s, In s kept <-> In s cands /\ mem_slot s refs = true).
  { intros s. rewrite EK. apply filter_In. }
  destruct kept as [|k0 kr].
  - split; [auto|]. split.
    + intros v t Hv Ht HIn. assert (K : In t []).
      { apply KEPT. split; [exact HIn | apply mem_slot_In; eapply INREFS; eauto]. }
      exact K.
    + intros s t Hs Hn. contradiction.
  - rewrite FOL.
    assert (LR : length rest < f).
    { pose proof (filter_length_split (fun s => mem_slot s refs) cands) as P.
      rewrite <- EK in P. fold rest in P. simpl in P. lia. }
    destruct (IH (map (fun s => nth s g VVoid) (k0 :: kr)) rest LR) as [R1 [R2 R3]].
    split; [|split].
    + intros s Hs. apply R1 in Hs. unfold rest in Hs. apply filter_In in Hs. tauto.
    + intros v t Hv Ht HIn. apply R1 in HIn. unfold rest in HIn. apply filter_In in HIn.
      destruct HIn as [_ HN]. apply negb_true_iff in HN. apply mem_slot_false in HN.
      apply HN. eapply INREFS; eauto.
    + intros s t Hs Hn Ht.
      destruct (mem_slot s refs) eqn:M.
      * (* s was kept in this round: its value is in the next work list *)
        eapply R2; [|exact Ht]. apply in_map_iff. exists s. split; [reflexivity|].
        apply KEPT. split; assumption.
      * eapply R3; [|exact Hn|exact Ht]. unfold rest. apply filter_In. split; [exact Hs|].
        rewrite M. reflexivity.
Qed.

Lemma rounds_NoDup : forall c g fuel work cands, NoDup cands -> NoDup (rounds c g fuel work cands).
Proof.
  intros c g. induction fuel as [|f IH]; intros work cands ND; simpl; [exact ND|].
  destruct (filter (fun s => mem_slot s (flat_map (refs_of c) work)) cands) eqn:EK; [exact ND|].
  destruct (c_follow c); [apply IH|]; apply NoDup_filter; exact ND.
Qed.

Lemma NoDup_app_intro : forall {A} (l1 l2 : list A),
  NoDup l1 -> NoDup l2 -> (forall x, In x l1 -> In x l2 -> False) -> NoDup (l1 ++ l2).
Proof.
  intros A l1 l2 N1 N2 D. induction N1 as [|x l H N IH]; simpl; [exact N2|].
  constructor.
  - rewrite in_app_iff. intros [K|K]; [contradiction | apply (D x); [left; reflexivity | exact K]].
  - apply IH. intros y Hy. apply D. right. exact Hy.
Qed.

(* ------------------------------------------------------------------ helpers on the indexed maps *)

Lemma index_filter_In : forall p g i s, s < length g -> p (i + s) = true ->
  In (nth s g VVoid) (index_filter p i g).
Proof.
  intros p g. induction g as [|v r IH]; intros i s L P; simpl in *; [lia|].
  destruct s as [|s].
  - rewrite Nat.add_0_r in P. rewrite P. left. reflexivity.
  - apply in_or_app. right. apply IH; [lia|]. replace (S i + s) with (i + S s) by lia. exact P.
Qed.

Lemma void_slots_nth : forall dead g i s,
  nth s (void_slots dead i g) VVoid = if mem_slot (i + s) dead then VVoid else nth s g VVoid.
Proof.
  intros dead g. induction g as [|v r IH]; intros i s; simpl.
  - destruct s; destruct (mem_slot _ dead); reflexivity.
  - destruct s as [|s].
    + rewrite Nat.add_0_r. reflexivity.
    + rewrite IH. replace (S i + s) with (i + S s) by lia. reflexivity.
Qed.

Lemma void_slots_length : forall dead g i, length (void_slots dead i g) = length g.
Proof. intros dead g. induction g; intros i; simpl; auto. Qed.

Lemma clear_owner_nth : forall dead o i s,
  nth s (clear_owner dead i o) None = if mem_slot (i + s) dead then None else nth s o None.
Proof.
  intros dead o. induction o as [|v r IH]; intros i s; simpl.
  - destruct s; destruct (mem_slot _ dead); reflexivity.
  - destruct s as [|s].
    + rewrite Nat.add_0_r. reflexivity.
    + rewrite IH. replace (S i + s) with (i + S s) by lia. reflexivity.
Qed.

Lemma incr_gen_shadowed : forall f, shadowed (increment_generation f) = shadowed f.
Proof. intros f. unfold increment_generation. destruct (Nat.eqb (epoch f) epoch_reset_at); reflexivity. Qed.

Lemma incr_gen_free : forall f, free (increment_generation f) = free f.
Proof. intros f. unfold increment_generation. destruct (Nat.eqb (epoch f) epoch_reset_at); reflexivity. Qed.

(* ------------------------------------------------------------------ recycle preserves Bound *)

Lemma recycle_Bound : forall c e, config_sound c -> Bound e ->
  Bound (recycle c e) /\
  (forall s, ~ In s (shadowed (fl (sm e))) -> owner_of (recycle c e) s = owner_of e s) /\
  values (sm (recycle c e)) = values (sm e) /\ smap (sm (recycle c e)) = smap (sm e) /\
  shadowed (fl (sm (recycle c e))) = [].
Proof.
  intros c e [COVER [HDR [FOL SNAP]]] B.
  destruct B as [Bv Bmo Bmi Bns Bso Bfu Bfn Bfl Bfr Bgl].
  unfold recycle.
  set (f := fl (sm e)).
  set (cands := nodup Nat.eq_dec (shadowed f)).
  set (roots := index_filter (fun i => negb (mem_slot i cands)) 0 (globals e)).
  set (left := rounds c (globals e) (S (length cands)) roots cands).
  set (dead := filter (fun s => Nat.ltb s (length (globals e))) left).
  destruct (rounds_spec c (globals e) FOL (S (length cands)) roots cands (Nat.lt_succ_diag_r _)) as [R1 [R2 R3]].
  fold left in R1, R2, R3.
  assert (CANDS : forall s, In s cands <-> In s (shadowed f)) by (intros s; unfold cands; apply nodup_In).
  assert (DEAD_LEFT : forall s, In s dead -> In s left /\ s < length (globals e)).
  { intros s H. unfold dead in H. apply filter_In in H. destruct H as [H1 H2]. apply Nat.ltb_lt in H2. tauto. }
  assert (DEAD_SH : forall s, In s dead -> In s (shadowed f)).
  { intros s H. apply CANDS. apply R1. apply DEAD_LEFT. exact H. }
  assert (ND_DEAD : NoDup dead).
  { unfold dead. apply NoDup_filter. unfold left. apply rounds_NoDup. unfold cands. apply NoDup_nodup. }
  set (e' := mkE _ _ _ _).
  assert (OW : forall s, owner_of e' s = if mem_slot s dead then None else owner_of e s).
  { intros s. unfold owner_of, e'. simpl. rewrite clear_owner_nth. reflexivity. }
  assert (OWK : forall s, ~ In s dead -> owner_of e' s = owner_of e s).
  { intros s H. rewrite OW. apply mem_slot_false in H. rewrite H. reflexivity. }
  assert (GL : forall s, nth s (globals e') VVoid = if mem_slot s dead then VVoid else nth s (globals e) VVoid).
  { intros s. unfold e'. simpl. rewrite void_slots_nth. reflexivity. }
  split; [|split; [|split; [reflexivity|split; [reflexivity|]]]].
  - constructor.
    + (* values *)
      intros s. rewrite GL. destruct (mem_slot s dead) eqn:MD; [exact I|].
      apply mem_slot_false in MD.
      destruct (Nat.ltb s (length (globals e))) eqn:LT.
      * apply Nat.ltb_lt in LT.
        eapply (val_ok_dead c COVER HDR e e' dead); [exact OWK | apply Bv|].
        intros t Ht HD. destruct (DEAD_LEFT _ HD) as [HL _].
        destruct (mem_slot s cands) eqn:MC.
        -- apply mem_slot_In in MC.
           assert (NL : ~ In s left).
           { intros HL2. apply MD. unfold dead. apply filter_In. split; [exact HL2 | apply Nat.ltb_lt; exact LT]. }
           exact (R3 s t MC NL Ht HL).
        -- refine (R2 (nth s (globals e) VVoid) t _ Ht HL).
           unfold roots. apply (index_filter_In _ (globals e) 0 s LT). simpl. rewrite MC. reflexivity.
      * apply Nat.ltb_ge in LT. rewrite nth_overflow; [exact I | exact LT].
    + intros x s H. simpl in H. rewrite OWK; [eapply Bmo; eauto|].
      intros HD. eapply Bns; [exact H | apply DEAD_SH; exact HD].
    + intros x y s. simpl. apply Bmi.
    + intros x s H. simpl. rewrite incr_gen_shadowed. simpl. intros [].
    + intros s. simpl. rewrite incr_gen_shadowed. simpl. intros [].
    + intros s. simpl. rewrite incr_gen_free. simpl. rewrite in_app_iff, <- in_rev. intros [H|H].
      * rewrite OW. apply mem_slot_In in H. rewrite H. reflexivity.
      * rewrite OW. destruct (mem_slot s dead); [reflexivity | apply Bfu; exact H].
    + simpl. rewrite incr_gen_free. simpl. apply NoDup_app_intro.
      * apply NoDup_rev. exact ND_DEAD.
      * exact Bfn.
      * intros s H1 H2. apply in_rev in H1. apply (Bso s (DEAD_SH _ H1)). apply Bfu. exact H2.
    + intros s. simpl. rewrite incr_gen_free. simpl. rewrite in_app_iff, <- in_rev. intros [H|H].
      * destruct (DEAD_LEFT _ H) as [_ L]. lia.
      * apply Bfl. exact H.
    + intros s H. simpl in H. rewrite OW. destruct (mem_slot s dead); [reflexivity | apply Bfr; exact H].
    + simpl. rewrite void_slots_length. exact Bgl.
  - intros s H. apply OWK. intros HD. apply H. apply DEAD_SH. exact HD.
  - simpl. rewrite incr_gen_shadowed. reflexivity.
Qed.


Lemma Bound_new : Bound eng_new.
Proof.
  constructor; simpl.
  - intros s. destruct s; exact I.
  - intros x s H. discriminate.
  - intros x y s H. discriminate.
  - intros x s H. discriminate.
  - intros s [].
  - intros s [].
  - constructor.
  - intros s [].
  - intros s _. unfold owner_of. simpl. destruct s; reflexivity.
  - lia.
Qed.

Lemma maybe_recycle_Bound : forall c e L code, config_sound c -> Bound e ->
  Forall (rform_okP (instr_code_ok e) L) code ->
  Bound (maybe_recycle c e) /\
  Forall (rform_okP (instr_run_ok (maybe_recycle c e)) L) code /\
  values (sm (maybe_recycle c e)) = values (sm e).
Proof.
  intros c e L code CS B F. unfold maybe_recycle.
  destruct (should_collect (fl (sm e))).
  - destruct (recycle_Bound c e CS B) as [B2 [OW [V [M SH]]]].
    split; [exact B2|]. split; [|exact V].
    eapply Forall_impl; [|exact F]. intros f Hf. eapply rform_okP_impl; [|exact Hf].
    intros i Hi R. destruct (Hi R) as [[b [G O]] NS]. exists b. split; [exact G|].
    rewrite OW; assumption.
  - split; [exact B|]. split; [|reflexivity].
    eapply Forall_impl; [|exact F]. intros f Hf. eapply rform_okP_impl; [|exact Hf].
    intros i Hi R. destruct (Hi R) as [HH _]. exact HH.
Qed.

Lemma Bound_set_globals : forall e g, Bound e -> gok e g -> length g <= length (values (sm e)) ->
  Bound (mkE (sm e) g (owner e) (nextb e)).
Proof.
  intros e g B G L. destruct B as [Bv Bmo Bmi Bns Bso Bfu Bfn Bfl Bfr Bgl].
  constructor; simpl; auto.
  intros s. eapply val_ok_le; [|apply G]. intros t b H. exact H.
Qed.

Theorem Bound_run_unit : forall c fuel e u, config_sound c -> Bound e -> Bound (fst (run_unit c fuel e u)).
Proof.
  intros c fuel e u CS B. unfold run_unit.
  destruct (u_expand_fails u); [exact B|].
  destruct CS as [COVER [HDR [FOL SNAP]]].
  destruct (build_Bound c e (u_forms u) B SNAP) as [B1 [L1 [G1 CODE]]].
  destruct (build c e (u_forms u)) as [e1 [code|]]; simpl in *; [|exact B1].
  destruct (maybe_recycle_Bound c e1 _ code (conj COVER (conj HDR (conj FOL SNAP))) B1 CODE) as [B2 [C2 V2]].
  set (e2 := maybe_recycle c e1) in *.
  destruct (run_forms_ok e2 fuel (length (values (sm e1))) code (globals e2) (b_vals e2 B2)) as [G3 L3].
  - rewrite <- V2. apply (b_glob_len e2 B2).
  - exact C2.
  - destruct (run_forms fuel (globals e2) code) as [g r]. simpl in *.
    apply Bound_set_globals; [exact B2 | exact G3 | rewrite V2; exact L3].
Qed.

Theorem Bound_history : forall c fuel h e, config_sound c -> Bound e -> Bound (fst (run_history c fuel e h)).
Proof.
  intros c fuel h. induction h as [|u r IH]; intros e CS B; simpl; [exact B|].
  pose proof (Bound_run_unit c fuel e u CS B) as B1.
  destruct (run_unit c fuel e u) as [e1 o]. simpl in *.
  pose proof (IH e1 CS B1) as B2.
  destruct (run_history c fuel e1 r) as [e2 os]. simpl in *. exact B2.
Qed.

(* the code as it is now, any history, any fuel *)
Theorem Bound_now : forall fuel h, Bound (fst (run_history cfg_now fuel eng_new h)).
Proof. intros. apply Bound_history; [exact config_now_sound | exact Bound_new]. Qed.


(* ------------------------------------------------------------------ redefine_local *)

Definition slot_unowned (e : eng) (o : option slot) : Prop :=
  match o with Some s => owner_of e s = None | None => True end.

Lemma unowned_back : forall e e1 s, owner_le e e1 -> owner_of e1 s = None -> owner_of e s = None.
Proof.
  intros e e1 s L H. destruct (owner_of e s) as [b|] eqn:E; [|reflexivity].
  apply L in E. congruence.
Qed.

Lemma first_pass_targets_fresh : forall fs e, Bound e -> Forall (slot_unowned e) (snd (first_pass e fs)).
Proof.
  induction fs as [|f r IH]; intros e B; simpl; [constructor|].
  destruct f as [x a|a].
  - destruct (add_define_Bound e x B) as [B1 [L1 [G1 [S1 [V1 U1]]]]].
    destruct (add_define e x) as [e1 idx]. simpl in *.
    pose proof (IH e1 B1) as F. destruct (first_pass e1 r) as [e2 l]. simpl in *.
    constructor; [exact U1|].
    eapply Forall_impl; [|exact F]. intros [s|] H; simpl in *; [eapply unowned_back; eauto | exact I].
  - pose proof (IH e B) as F. destruct (first_pass e r) as [e2 l]. simpl in *.
    constructor; [exact I | exact F].
Qed.

Lemma redefine_local_l : forall c e fs, Bound e -> c_snapshot c = true ->
  globals (fst (build c e fs)) = globals e /\
  (forall s b, owner_of e s = Some b -> owner_of (fst (build c e fs)) s = Some b) /\
  Forall (slot_unowned e) (snd (first_pass e fs)).
Proof.
  intros c e fs B SN. destruct (build_Bound c e fs B SN) as [B1 [L1 [G1 _]]].
  split; [exact G1|]. split; [exact L1 | apply first_pass_targets_fresh; exact B].
Qed.

(* ------------------------------------------------------------------ set_visible *)

Lemma set_visible_l : forall fuel g s b n, s < length g ->
  eval fuel g (RSet s b (RConst n)) = (set_nth s (VInt n) g, Some (nth s g VVoid)) /\
  nth s (set_nth s (VInt n) g) VVoid = VInt n /\
  (forall t, t <> s -> nth t (set_nth s (VInt n) g) VVoid = nth t g VVoid).
Proof.
  intros fuel g s b n L. simpl. assert (LT : Nat.ltb s (length g) = true) by (apply Nat.ltb_lt; exact L).
  rewrite LT. split; [reflexivity|]. split.
  - rewrite nth_set_nth, Nat.eqb_refl, LT. reflexivity.
  - intros t NE. rewrite nth_set_nth. apply Nat.eqb_neq in NE. rewrite NE. reflexivity.
Qed.

(* ------------------------------------------------------------------ rollback *)

Lemma rollback_restores_l : forall c fuel e u, c_snapshot c = true ->
  snd (run_unit c fuel e u) = None ->
  u_expand_fails u = true \/ snd (build c e (u_forms u)) = None ->
  fst (run_unit c fuel e u) = e.
Proof.
  intros c fuel e u SN _ H. unfold run_unit. destruct (u_expand_fails u); [reflexivity|].
  destruct H as [H|H]; [discriminate|]. unfold build in *.
  destruct (first_pass e (u_forms u)) as [e1 slots].
  destruct (second_pass e1 (defined_names (u_forms u)) [] (u_forms u) slots); [discriminate|].
  rewrite SN. reflexivity.
Qed.

Definition cfg_truncate : config := mkCfg scanned_ops true true false.

Definition st_x5 : eng := fst (run_history cfg_truncate 10 eng_new [mkU false [FDefine 0 (EConst 5)]]).

Lemma rollback_truncate_refuted_l :
  exists e fs x s, sm_get (sm e) x = Some s /\ snd (build cfg_truncate e fs) = None /\
                   sm_get (sm (fst (build cfg_truncate e fs))) x = None.
Proof.
  exists st_x5, [FDefine 0 (EConst 6); FExpr (EGlobal 77)], 0, 0.
  vm_compute. repeat split; reflexivity.
Qed.

(* ------------------------------------------------------------------ a decision procedure for the value part of Bound *)

Definition instr_okb (e : eng) (h : option opcode) (idx : nat) (i : instr) : bool :=
  if refs_global (true_op h idx i)
  then match i_ghost i, owner_of e (i_pay i) with
       | Some b, Some b' => Nat.eqb b b'
       | _, _ => false
       end
  else true.

Fixpoint body_okb (e : eng) (h : option opcode) (idx : nat) (b : list instr) : bool :=
  match b with
  | [] => true
  | i :: r => instr_okb e h idx i && body_okb e h (S idx) r
  end.

Fixpoint val_okb (e : eng) (v : val) : bool :=
  match v with
  | VClo h body caps => body_okb e h 0 body && val_okb e caps
  | VPair a b => val_okb e a && val_okb e b
  | _ => true
  end.

Lemma instr_okb_sound : forall e h idx i, instr_ok e h idx i -> instr_okb e h idx i = true.
Proof.
  intros e h idx i H. unfold instr_okb. destruct (refs_global (true_op h idx i)) eqn:R; [|reflexivity].
  destruct (H R) as [b [G O]]. rewrite G, O. apply Nat.eqb_refl.
Qed.

Lemma body_okb_sound : forall e h b idx, body_ok e h idx b -> body_okb e h idx b = true.
Proof.
  intros e h b. induction b as [|i r IH]; intros idx H; simpl in *; [reflexivity|].
  destruct H as [H1 H2]. rewrite (instr_okb_sound _ _ _ _ H1), (IH _ H2). reflexivity.
Qed.

Lemma val_okb_sound : forall e v, val_ok e v -> val_okb e v = true.
Proof.
  intros e v. induction v; simpl; intros H; auto.
  - destruct H as [H1 H2]. rewrite (body_okb_sound _ _ _ _ H1), (IHv H2). reflexivity.
  - destruct H as [H1 H2]. rewrite (IHv1 H1), (IHv2 H2). reflexivity.
Qed.

Lemma not_Bound_by_slot : forall e s, val_okb e (nth s (globals e) VVoid) = false -> ~ Bound e.
Proof.
  intros e s H B. pose proof (val_okb_sound e _ (b_vals e B s)) as K. congruence.
Qed.

(* ------------------------------------------------------------------ the earlier variants of the scan violate Bound *)

Definition U1 (fs : list form) : unit_ := mkU false fs.
Definition many (f : nat -> form) (n : nat) : list unit_ := map (fun i => U1 [f i]) (seq 0 n).

(* scan without OpCode::SET (DESIGN F2): x=0, setter=1, junk=2 *)
Definition cfg_no_set : config :=
  mkCfg (filter (fun o => negb (op_eqb o Op_SET)) scanned_ops) true true true.
Definition h_no_set : list unit_ :=
  [U1 [FDefine 0 (EConst 1); FDefine 1 (ELam false [SL Op_READLOCAL 0 None; SG Op_SET 0 None] (EConst 0))];
   U1 [FDefine 0 (EConst 2)]] ++ many (fun i => FDefine 2 (EConst i)) 120.

(* scan that ignores the JIT header (DESIGN F3): f=0, g=1, junk=2 *)
Definition cfg_no_header : config := mkCfg scanned_ops false true true.
Definition h_no_header : list unit_ :=
  [U1 [FDefine 0 (ELam true [] (EConst 0))];
   U1 [FDefine 1 (ELam true [SG Op_CALLGLOBALTAIL 0 None] (EConst 0))];
   U1 [FDefine 0 (ELam true [] (EConst 0))]] ++ many (fun i => FDefine 2 (EConst i)) 120.

(* scan that does not visit the value of a shadowed slot it found referenced: h=0, f=1, g=2, junk=3 *)
Definition cfg_no_follow : config := mkCfg scanned_ops true false true.
Definition h_no_follow : list unit_ :=
  [U1 [FDefine 0 (ELam false [SL Op_PUSHCONST 1 None] (EConst 0))];
   U1 [FDefine 1 (ELam false [SL Op_PUSHCONST 1 None; SG Op_CALLGLOBAL 0 None] (EConst 0))];
   U1 [FDefine 2 (ELam false [SL Op_PUSHCONST 1 None; SG Op_CALLGLOBAL 1 None] (EConst 0))];
   U1 [FDefine 0 (EConst 2)]; U1 [FDefine 1 (EConst 3)]] ++ many (fun i => FDefine 3 (EConst i)) 120.

Lemma scan_without_SET_refuted_l : exists h, ~ Bound (fst (run_history cfg_no_set 10 eng_new h)).
Proof. exists h_no_set. apply (not_Bound_by_slot _ 1). vm_compute. reflexivity. Qed.

Lemma scan_without_header_refuted_l : exists h, ~ Bound (fst (run_history cfg_no_header 10 eng_new h)).
Proof. exists h_no_header. apply (not_Bound_by_slot _ 1). vm_compute. reflexivity. Qed.

Lemma scan_without_follow_refuted_l : exists h, ~ Bound (fst (run_history cfg_no_follow 10 eng_new h)).
Proof. exists h_no_follow. apply (not_Bound_by_slot _ 1). vm_compute. reflexivity. Qed.

(* the same histories under the code as it is now: recycling happened and the invariant holds (non-vacuity) *)
Lemma nonvacuous_l :
  let e := fst (run_history cfg_now 10 eng_new h_no_follow) in
  threshold (fl (sm e)) <> initial_threshold /\
  free (fl (sm e)) <> [] /\ val_okb e (nth 2 (globals e) VVoid) = true /\
  (exists h b c, nth 2 (globals e) VVoid = VClo h b c /\ b <> []).
Proof.
  vm_compute. split; [discriminate|]. split; [discriminate|]. split; [reflexivity|].
  eexists. eexists. eexists. split; [reflexivity | discriminate].
Qed.
