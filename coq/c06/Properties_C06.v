(* C06 -- property theorems only.  Each is closed by [exact lemma]; statements are pinned in Pins_C06.v
   (compiled on every run together with Print Assumptions). *)
From Coq Require Import List Arith Bool.
From SV Require Import gen.Gen_C06 c06.Model_C06 c06.Proofs_C06 c06.ProofsBound_C06.
Import ListNotations.

(* Generated fact: the recycler's scan covers every op code whose payload the interner turns into a global slot ... *)
Theorem scan_covers_refs : forall o, In o interned_ops -> In o scanned_ops.
Proof. exact scan_covers_refs_l. Qed.

(* ... it looks through the JIT header, follows referenced shadowed slots, starts its walk through the heap from
   cleared mark bits, and a failed build restores the map (all five read from /repo into gen/Gen_C06.v by the
   translator on every run) *)
Theorem C06_config_now_sound : config_sound cfg_now.
Proof. exact config_now_sound. Qed.

(* The invariant holds initially and is preserved by one top-level evaluation, whatever it is (defines,
   redefinitions, set!, calls, a unit rejected by the expander, a failed build with roll-back, a run-time error,
   a recycling round), for any amount of fuel. *)
Theorem C06_bound_step : forall c fuel e u, config_sound c -> Bound e -> Bound (fst (run_unit c fuel e u)).
Proof. exact Bound_run_unit. Qed.

(* Any history, of any length, on the code as it is now. *)
Theorem C06_bound_history : forall fuel h, Bound (fst (run_history cfg_now fuel eng_new h)).
Proof. exact Bound_now. Qed.

(* Building a unit -- any number of defines and redefinitions -- changes no stored value (hence no instruction
   of any earlier closure), takes no slot away from a live binding, and the slots its defines will write were
   owned by no binding before. *)
Theorem C06_redefine_local : forall c e fs, Bound e -> c_snapshot c = true ->
  globals (fst (build c e fs)) = globals e /\ heap (fst (build c e fs)) = heap e /\
  (forall s b, owner_of e s = Some b -> owner_of (fst (build c e fs)) s = Some b) /\
  Forall (slot_unowned e) (snd (first_pass e fs)).
Proof. exact redefine_local_l. Qed.

(* set! writes exactly the slot of the binding (and yields the old value) *)
Theorem C06_set_visible : forall fuel g hp s b n, s < length g ->
  eval fuel (g, hp) (RSet s b (RConst n)) = ((set_nth s (VInt n) g, hp), Some (nth s g VVoid)) /\
  nth s (set_nth s (VInt n) g) VVoid = VInt n /\
  (forall t, t <> s -> nth t (set_nth s (VInt n) g) VVoid = nth t g VVoid).
Proof. exact set_visible_l. Qed.

(* a unit that fails before or during the build leaves the whole engine state as it was *)
Theorem C06_rollback_restores : forall c fuel e u, c_snapshot c = true ->
  snd (run_unit c fuel e u) = None ->
  u_expand_fails u = true \/ snd (build c e (u_forms u)) = None ->
  fst (run_unit c fuel e u) = e.
Proof. exact rollback_restores_l. Qed.

(* Refuted variants (the code before the fix: commits): witnesses, replayed on the engine by the corpus *)
Theorem C06_rollback_truncate_refuted :
  exists e fs x s, sm_get (sm e) x = Some s /\ snd (build cfg_truncate e fs) = None /\
                   sm_get (sm (fst (build cfg_truncate e fs))) x = None.
Proof. exact rollback_truncate_refuted_l. Qed.

Theorem C06_scan_without_SET_refuted : exists h, ~ Bound (fst (run_history cfg_no_set 10 eng_new h)).
Proof. exact scan_without_SET_refuted_l. Qed.

Theorem C06_scan_without_header_refuted : exists h, ~ Bound (fst (run_history cfg_no_header 10 eng_new h)).
Proof. exact scan_without_header_refuted_l. Qed.

Theorem C06_scan_without_follow_refuted : exists h, ~ Bound (fst (run_history cfg_no_follow 10 eng_new h)).
Proof. exact scan_without_follow_refuted_l. Qed.

(* the recycler's walk uses the heap mark bits as its visited set: started from stale (set) bits, a closure held only
   in a box is never scanned *)
Theorem C06_scan_with_stale_marks_refuted : exists h, ~ Bound (fst (run_history cfg_stale_marks 10 eng_new h)).
Proof. exact scan_with_stale_marks_refuted_l. Qed.

(* [Bound] covers the heap: the contents of every cell a stored value mentions are well bound *)
Theorem C06_bound_cells : forall e s a, Bound e -> In a (cells_in (nth s (globals e) VVoid)) -> a < length (heap e) ->
  val_ok e (nth a (heap e) VVoid).
Proof. exact Bound_cell. Qed.

Example C06_heap_nonvacuous :
  let e := fst (run_history cfg_now 10 eng_new h_stale_marks) in
  threshold (fl (sm e)) <> initial_threshold /\ free (fl (sm e)) <> [] /\
  nth 2 (globals e) VVoid = VRef 0 /\ val_okb e (nth 0 (heap e) VVoid) = true /\
  (exists h b c, nth 0 (heap e) VVoid = VClo h b c /\ b <> []).
Proof. exact heap_nonvacuous_l. Qed.

(* non-vacuity: a history with a recycling round after which a stored closure still refers to a shadowed binding *)
Example C06_nonvacuous :
  let e := fst (run_history cfg_now 10 eng_new h_no_follow) in
  threshold (fl (sm e)) <> initial_threshold /\
  free (fl (sm e)) <> [] /\ val_okb e (nth 2 (globals e) VVoid) = true /\
  (exists h b c, nth 2 (globals e) VVoid = VClo h b c /\ b <> []).
Proof. exact nonvacuous_l. Qed.
