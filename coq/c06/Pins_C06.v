(* Compiled on every run of the C06 check: pins each statement and prints its assumptions. *)
From Coq Require Import List Arith Bool.
From SV Require Import gen.Gen_C06 c06.Model_C06 c06.Proofs_C06 c06.ProofsBound_C06 c06.Properties_C06.
Import ListNotations.

Check (scan_covers_refs : forall o, In o interned_ops -> In o scanned_ops).
Check (C06_config_now_sound :
  (forall o, refs_global o = true -> scanned cfg_now o = true) /\
  c_header cfg_now = true /\ c_follow cfg_now = true /\ c_snapshot cfg_now = true /\ c_clear_marks cfg_now = true).
Check (C06_bound_step : forall c fuel e u,
  ((forall o, refs_global o = true -> scanned c o = true) /\ c_header c = true /\ c_follow c = true /\ c_snapshot c = true /\
   c_clear_marks c = true) ->
  Bound e -> Bound (fst (run_unit c fuel e u))).
Check (C06_bound_history : forall fuel h, Bound (fst (run_history cfg_now fuel eng_new h))).
Check (C06_redefine_local : forall c e fs, Bound e -> c_snapshot c = true ->
  globals (fst (build c e fs)) = globals e /\ heap (fst (build c e fs)) = heap e /\
  (forall s b, owner_of e s = Some b -> owner_of (fst (build c e fs)) s = Some b) /\
  Forall (fun o => match o with Some s => owner_of e s = None | None => True end) (snd (first_pass e fs))).
Check (C06_set_visible : forall fuel g hp s b n, s < length g ->
  eval fuel (g, hp) (RSet s b (RConst n)) = ((set_nth s (VInt n) g, hp), Some (nth s g VVoid)) /\
  nth s (set_nth s (VInt n) g) VVoid = VInt n /\
  (forall t, t <> s -> nth t (set_nth s (VInt n) g) VVoid = nth t g VVoid)).
Check (C06_rollback_restores : forall c fuel e u, c_snapshot c = true ->
  snd (run_unit c fuel e u) = None ->
  u_expand_fails u = true \/ snd (build c e (u_forms u)) = None ->
  fst (run_unit c fuel e u) = e).
Check (C06_rollback_truncate_refuted :
  exists e fs x s, sm_get (sm e) x = Some s /\ snd (build (mkCfg scanned_ops true true false true) e fs) = None /\
                   sm_get (sm (fst (build (mkCfg scanned_ops true true false true) e fs))) x = None).
Check (C06_scan_without_SET_refuted :
  exists h, ~ Bound (fst (run_history (mkCfg (filter (fun o => negb (op_eqb o Op_SET)) scanned_ops) true true true true) 10 eng_new h))).
Check (C06_scan_without_header_refuted :
  exists h, ~ Bound (fst (run_history (mkCfg scanned_ops false true true true) 10 eng_new h))).
Check (C06_scan_without_follow_refuted :
  exists h, ~ Bound (fst (run_history (mkCfg scanned_ops true false true true) 10 eng_new h))).
Check (C06_scan_with_stale_marks_refuted :
  exists h, ~ Bound (fst (run_history (mkCfg scanned_ops true true true false) 10 eng_new h))).
Check (C06_bound_cells : forall e s a, Bound e -> In a (cells_in (nth s (globals e) VVoid)) -> a < length (heap e) ->
  val_ok e (nth a (heap e) VVoid)).
Check (C06_heap_nonvacuous :
  let e := fst (run_history cfg_now 10 eng_new h_stale_marks) in
  threshold (fl (sm e)) <> initial_threshold /\ free (fl (sm e)) <> [] /\
  nth 2 (globals e) VVoid = VRef 0 /\ val_okb e (nth 0 (heap e) VVoid) = true /\
  (exists h b c, nth 0 (heap e) VVoid = VClo h b c /\ b <> [])).
Check (C06_nonvacuous :
  let e := fst (run_history cfg_now 10 eng_new h_no_follow) in
  threshold (fl (sm e)) <> initial_threshold /\
  free (fl (sm e)) <> [] /\ val_okb e (nth 2 (globals e) VVoid) = true /\
  (exists h b c, nth 2 (globals e) VVoid = VClo h b c /\ b <> [])).
(* the meaning of Bound is pinned too: its value part says that every global-referencing instruction of every closure
   stored in the global vector names a slot owned by the binding the instruction was compiled against *)
Check (b_vals : forall e, Bound e -> forall s, val_ok e (nth s (globals e) VVoid)).
Check (eq_refl : (fun e h idx i => instr_ok e h idx i) =
  (fun e h idx i => refs_global (true_op h idx i) = true -> exists b, i_ghost i = Some b /\ owner_of e (i_pay i) = Some b)).

Print Assumptions scan_covers_refs.
Print Assumptions C06_config_now_sound.
Print Assumptions C06_bound_step.
Print Assumptions C06_bound_history.
Print Assumptions C06_redefine_local.
Print Assumptions C06_set_visible.
Print Assumptions C06_rollback_restores.
Print Assumptions C06_rollback_truncate_refuted.
Print Assumptions C06_scan_without_SET_refuted.
Print Assumptions C06_scan_without_header_refuted.
Print Assumptions C06_scan_without_follow_refuted.
Print Assumptions C06_scan_with_stale_marks_refuted.
Print Assumptions C06_bound_cells.
Print Assumptions C06_heap_nonvacuous.
Print Assumptions C06_nonvacuous.
