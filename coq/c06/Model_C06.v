(* C06 -- symbol map, global slots, slot recycler: model of the mechanism (definitions only).

   Mirrors, line by line where it matters:
     crates/steel-core/src/compiler/map.rs        FreeList, SymbolMap::{add,get,roll_back}
     crates/steel-core/src/compiler/compiler.rs   DebruijnIndicesInterner (first pass: every define of the
                                                  unit is added; second pass: references resolve)
     crates/steel-core/src/steel_vm/engine.rs     run_raw_program: build -> recycle if should_collect -> run;
                                                  raw_program_to_executable: roll-back when the build fails
     crates/steel-core/src/values/closed.rs       GlobalSlotRecycler::{recycle,visit_closure}
     crates/steel-core/src/steel_vm/vm/jit.rs     jit_compile_lambda (entry op code overwritten, original in header)
     crates/steel-core/src/env.rs                 repl_define_idx / repl_set_idx / repl_lookup_idx

   The model is parameterised by a [config] so that the code as it is now (values generated from /repo into
   gen/Gen_C06.v on every run) and the earlier, defective variants are all expressible.

   Ghost state: every [add] creates a fresh binding identity; [owner] records which binding currently
   lives in a slot; every instruction that carries a global slot also carries the identity of the binding
   it was resolved to when it was compiled.  Ghost fields never influence a computation. *)
From Coq Require Import String Ascii DecimalString.
From Coq Require Import List Arith Bool.
From SV Require Import gen.Gen_C06.
Import ListNotations.
Open Scope list_scope.

Definition name := nat.
Definition slot := nat.
Definition bid := nat.

(* ------------------------------------------------------------------ values and closures *)

(* i_imm: a constant operand used instead of the closure's argument (thunks have only such operands) *)
Record instr := mkI { i_op : opcode; i_pay : nat; i_imm : option nat; i_ghost : option bid }.

(* header: ByteCodeLambda::header (Some original-op-code once the JIT took the closure);
   caps: the captured values, folded into one value. *)
Inductive val :=
| VInt (n : nat)
| VVoid
| VNil
| VClo (hdr : option opcode) (body : list instr) (caps : val)
| VPair (a b : val)
| VRef (a : nat).           (* handle of a heap cell: box, mutable vector, heap-allocated captured variable *)

Record config := mkCfg {
  c_scanned : list opcode;   (* op codes whose payload visit_closure removes from the candidate set *)
  c_header : bool;           (* the scan looks at closure.header for instruction 0 *)
  c_follow : bool;           (* the value of a candidate found referenced is visited as well *)
  c_snapshot : bool;         (* failed build: restore snapshot (true) / SymbolMap::roll_back (false) *)
  c_clear_marks : bool       (* recycle clears the heap mark bits (its visited set) before the walk *)
}.

(* the code as it is now *)
Definition cfg_now : config :=
  mkCfg scanned_ops scan_uses_header scan_follows_shadowed rollback_snapshot scan_clears_marks.

Definition mem_op (o : opcode) (l : list opcode) : bool := existsb (op_eqb o) l.
Definition refs_global (o : opcode) : bool := mem_op o interned_ops.
Definition scanned (c : config) (o : opcode) : bool := mem_op o (c_scanned c).

(* the op code the VM executes for instruction [idx] (the trampoline runs the original code) *)
Definition true_op (h : option opcode) (idx : nat) (i : instr) : opcode :=
  match idx, h with
  | 0, Some o => o
  | _, _ => i_op i
  end.

(* the op code the recycler matches on *)
Definition scan_op (c : config) (h : option opcode) (idx : nat) (i : instr) : opcode :=
  if c_header c then true_op h idx i else i_op i.

(* jit.rs L29-80 *)
Definition jit_compile (body : list instr) : option opcode * list instr :=
  match body with
  | [] => (None, [])
  | i :: rest => (Some (i_op i), mkI jit_entry_op (i_pay i) (i_imm i) (i_ghost i) :: rest)
  end.

Definition mk_closure (jit : bool) (body : list instr) (caps : val) : val :=
  if jit then let '(h, b) := jit_compile body in VClo h b caps else VClo None body caps.

(* ------------------------------------------------------------------ symbol map (map.rs) *)

Record freelist := mkFL { shadowed : list slot; free : list slot; threshold : nat; epoch : nat }.
Record symmap := mkSM { values : list name; smap : list (name * slot); fl : freelist }.

Definition sm_new : symmap := mkSM [] [] (mkFL [] [] initial_threshold initial_epoch).

Fixpoint lookup (m : list (name * slot)) (x : name) : option slot :=
  match m with
  | [] => None
  | (y, s) :: r => if Nat.eqb x y then Some s else lookup r x
  end.

Definition remove_name (x : name) (m : list (name * slot)) : list (name * slot) :=
  filter (fun p => negb (Nat.eqb x (fst p))) m.

Fixpoint set_nth {A} (n : nat) (x : A) (l : list A) : list A :=
  match l, n with
  | [], _ => []
  | _ :: r, 0 => x :: r
  | y :: r, S k => y :: set_nth k x r
  end.

(* SymbolMap::add (map.rs L137-175). [free] is a stack, head = last pushed. *)
Definition sm_add (m : symmap) (x : name) : symmap * slot :=
  let f := fl m in
  let '(idx, free') := match free f with
                       | [] => (length (values m), [])
                       | s :: r => (s, r)
                       end in
  let sh' := match lookup (smap m) x with
             | Some prev => shadowed f ++ [prev]
             | None => shadowed f
             end in
  let values' := if Nat.eqb idx (length (values m)) then values m ++ [x] else set_nth idx x (values m) in
  (mkSM values' ((x, idx) :: remove_name x (smap m)) (mkFL sh' free' (threshold f) (epoch f)), idx).

(* SymbolMap::get *)
Definition sm_get (m : symmap) (x : name) : option slot := lookup (smap m) x.

(* SymbolMap::roll_back (map.rs L127-131) *)
Definition sm_roll_back (m : symmap) (index : nat) : symmap :=
  let removed := skipn index (values m) in
  mkSM (firstn index (values m))
       (filter (fun p => negb (existsb (Nat.eqb (fst p)) removed)) (smap m))
       (fl m).

Definition should_collect (f : freelist) : bool := Nat.ltb (threshold f) (length (shadowed f)).

Definition increment_generation (f : freelist) : freelist :=
  if Nat.eqb (epoch f) epoch_reset_at
  then mkFL (shadowed f) (free f) threshold_reset epoch_reset
  else mkFL (shadowed f) (free f) (threshold f * threshold_multiplier) (epoch f + 1).

(* ------------------------------------------------------------------ engine state *)

Record eng := mkE {
  sm : symmap;
  globals : list val;
  owner : list (option bid);     (* ghost: the binding living in each slot *)
  nextb : bid;                   (* ghost: next fresh binding identity *)
  heap : list val                (* contents of the heap cells (closed.rs Heap: boxes, mutable vectors, captured
                                    variables that are assigned); a cell that is allocated carries the mark bit
                                    `reachable` -- allocate sets it, only a collection clears it *)
}.

Definition eng_new : eng := mkE sm_new [] [] 0 [].

Definition owner_of (e : eng) (s : slot) : option bid := nth s (owner e) None.

Fixpoint set_nth_pad {A} (d : A) (n : nat) (x : A) (l : list A) : list A :=
  match n, l with
  | 0, [] => [x]
  | 0, _ :: r => x :: r
  | S k, [] => d :: set_nth_pad d k x []
  | S k, y :: r => y :: set_nth_pad d k x r
  end.

(* env.rs repl_define_idx: in range -> overwrite; beyond -> pad with Void and push *)
Definition define_idx (s : slot) (v : val) (g : list val) : list val := set_nth_pad VVoid s v g.

(* ------------------------------------------------------------------ source forms and compiled forms *)

(* a global-referencing instruction before interning (op code + identifier), or any other instruction *)
Inductive sinstr := SG (op : opcode) (x : name) (imm : option nat) | SL (op : opcode) (p : nat) (imm : option nat).

Inductive expr :=
| EConst (n : nat)
| ENil                                                 (* the empty list *)
| EGlobal (x : name)                                   (* PUSH x *)
| ELam (jit hc : bool) (body : list sinstr) (cap : expr) (* closure creation; cap evaluated at creation;
                                                          hc: the captured variable is assigned somewhere, so it lives
                                                          in a heap cell and the closure captures the cell *)
| EBox (vec : bool) (e : expr)                         (* (box e) / (vector e): a new heap cell *)
| EUnbox (e : expr)                                    (* contents of a cell: (unbox e); (vector-ref e 0) = ECar (EUnbox e) *)
| ESetCell (vec : bool) (c e : expr)                   (* (set-box! c e) / (vector-set! c 0 e), value discarded *)
| EPair (a b : expr)
| ECar (e : expr)
| ECdr (e : expr)
| ECall (f : expr) (arg : nat)
| ESet (x : name) (e : expr)                           (* SET x *)
| EFail.                                               (* run-time error *)

Inductive form := FDefine (x : name) (e : expr) | FExpr (e : expr).

(* u_expand_fails: the unit is rejected before the build (reader / expander / analysis error) *)
Record unit_ := mkU { u_expand_fails : bool; u_forms : list form }.

Inductive rexpr :=
| RConst (n : nat)
| RNil
| RGlobal (s : slot) (b : option bid)
| RLam (jit hc : bool) (body : list instr) (cap : rexpr)
| RBox (vec : bool) (e : rexpr)
| RUnbox (e : rexpr)
| RSetCell (vec : bool) (c e : rexpr)
| RPair (a b : rexpr)
| RCar (e : rexpr)
| RCdr (e : rexpr)
| RCall (f : rexpr) (arg : nat)
| RSet (s : slot) (b : option bid) (e : rexpr)
| RFail.

Inductive rform := RDefine (s : slot) (e : rexpr) | RExpr (e : rexpr).

(* ------------------------------------------------------------------ the interner (compiler.rs) *)

(* first pass: symbol_map.add for every define of the unit, in order; the BIND payload is the slot
   returned by *that* add.  Ghost: a fresh binding now owns the slot. *)
Definition add_define (e : eng) (x : name) : eng * slot :=
  let '(m', idx) := sm_add (sm e) x in
  (mkE m' (globals e) (set_nth_pad None idx (Some (nextb e)) (owner e)) (S (nextb e)) (heap e), idx).

Fixpoint first_pass (e : eng) (fs : list form) : eng * list (option slot) :=
  match fs with
  | [] => (e, [])
  | FDefine x _ :: r =>
      let '(e1, idx) := add_define e x in
      let '(e2, l) := first_pass e1 r in (e2, Some idx :: l)
  | FExpr _ :: r => let '(e2, l) := first_pass e r in (e2, None :: l)
  end.

Definition defined_names (fs : list form) : list name :=
  flat_map (fun f => match f with FDefine x _ => [x] | _ => [] end) fs.

Definition mem_name (x : name) (l : list name) : bool := existsb (Nat.eqb x) l.

(* second pass, reference at depth 0: an identifier defined by this unit whose BIND has not been passed yet
   is rejected (compiler.rs L268-285, L345-362); then symbol_map.get *)
Definition resolve0 (e : eng) (defs passed : list name) (x : name) : option slot :=
  if mem_name x defs && negb (mem_name x passed) then None else sm_get (sm e) x.

(* reference inside a closure body (depth > 0): symbol_map.get only *)
Definition resolve_instr (e : eng) (si : sinstr) : option instr :=
  match si with
  | SG op x imm => match sm_get (sm e) x with
                   | Some s => Some (mkI op s imm (owner_of e s))
                   | None => None
                   end
  | SL op p imm => if refs_global op then None (* not a local instruction: ill-formed unit, rejected *)
                   else Some (mkI op p imm None)
  end.

Fixpoint resolve_body (e : eng) (b : list sinstr) : option (list instr) :=
  match b with
  | [] => Some []
  | si :: r => match resolve_instr e si, resolve_body e r with
               | Some i, Some l => Some (i :: l)
               | _, _ => None
               end
  end.

Fixpoint resolve_expr (e : eng) (defs passed : list name) (x : expr) : option rexpr :=
  match x with
  | EConst n => Some (RConst n)
  | ENil => Some RNil
  | EGlobal y => match resolve0 e defs passed y with Some s => Some (RGlobal s (owner_of e s)) | None => None end
  | ELam jit hc body cap =>
      match resolve_body e body, resolve_expr e defs passed cap with
      | Some b, Some c => Some (RLam jit hc b c)
      | _, _ => None
      end
  | EBox vec a => option_map (RBox vec) (resolve_expr e defs passed a)
  | EUnbox a => option_map RUnbox (resolve_expr e defs passed a)
  | ESetCell vec a b => match resolve_expr e defs passed a, resolve_expr e defs passed b with
                        | Some a', Some b' => Some (RSetCell vec a' b') | _, _ => None end
  | EPair a b => match resolve_expr e defs passed a, resolve_expr e defs passed b with
                 | Some a', Some b' => Some (RPair a' b') | _, _ => None end
  | ECar a => option_map RCar (resolve_expr e defs passed a)
  | ECdr a => option_map RCdr (resolve_expr e defs passed a)
  | ECall f arg => option_map (fun f' => RCall f' arg) (resolve_expr e defs passed f)
  | ESet y a => match resolve0 e defs passed y, resolve_expr e defs passed a with
                | Some s, Some a' => Some (RSet s (owner_of e s) a') | _, _ => None end
  | EFail => Some RFail
  end.

Fixpoint second_pass (e : eng) (defs passed : list name) (fs : list form) (slots : list (option slot))
  : option (list rform) :=
  match fs, slots with
  | [], _ => Some []
  | FDefine x a :: r, Some s :: sl =>
      match resolve_expr e defs passed a, second_pass e defs (x :: passed) r sl with
      | Some a', Some l => Some (RDefine s a' :: l)
      | _, _ => None
      end
  | FExpr a :: r, _ :: sl =>
      match resolve_expr e defs passed a, second_pass e defs passed r sl with
      | Some a', Some l => Some (RExpr a' :: l)
      | _, _ => None
      end
  | _, _ => None
  end.

(* RawProgramWithSymbols::build + Engine::raw_program_to_executable (engine.rs L1873-1898) *)
Definition build (c : config) (e : eng) (fs : list form) : eng * option (list rform) :=
  let index := length (values (sm e)) in
  let '(e1, slots) := first_pass e fs in
  match second_pass e1 (defined_names fs) [] fs slots with
  | Some code => (e1, Some code)
  | None =>
      if c_snapshot c
      then (e, None)
      else (mkE (sm_roll_back (sm e1) index) (globals e1) (owner e1) (nextb e1) (heap e1), None)
  end.

(* ------------------------------------------------------------------ the recycler (closed.rs L104-160, L265-300) *)

Fixpoint scan_body (c : config) (h : option opcode) (idx : nat) (b : list instr) : list slot :=
  match b with
  | [] => []
  | i :: r => (if scanned c (scan_op c h idx i) then [i_pay i] else []) ++ scan_body c h (S idx) r
  end.

(* every payload the scan removes from the candidate set while visiting v (captures, pair fields, bodies) *)
Fixpoint refs_of (c : config) (v : val) : list slot :=
  match v with
  | VClo h body caps => scan_body c h 0 body ++ refs_of c caps
  | VPair a b => refs_of c a ++ refs_of c b
  | _ => []
  end.

Definition mem_slot (s : slot) (l : list slot) : bool := existsb (Nat.eqb s) l.

(* the heap cells a value mentions (captures, pair fields) *)
Fixpoint cells_in (v : val) : list nat :=
  match v with
  | VRef a => [a]
  | VClo _ _ caps => cells_in caps
  | VPair a b => cells_in a ++ cells_in b
  | _ => []
  end.

(* Visiting a work list of values with the mark bits as visited set (closed.rs visit_heap_allocated /
   visit_mutable_vector -> mark_heap_reference / mark_heap_vector: `if is_reachable { return } mark_reachable;
   push contents`): returns every payload the scan removed and the visited set afterwards.  Each level visits the
   not-yet-marked cells the current values mention; at most |heap| + 1 levels (Proofs: heap_walk_spec). *)
Fixpoint heap_walk (c : config) (hp : list val) (fuel : nat) (visited : list nat) (work : list val)
  : list slot * list nat :=
  match fuel with
  | 0 => (flat_map (refs_of c) work, visited)
  | S f =>
      let fresh := nodup Nat.eq_dec
                     (filter (fun a => Nat.ltb a (length hp) && negb (mem_slot a visited)) (flat_map cells_in work)) in
      match fresh with
      | [] => (flat_map (refs_of c) work, visited)
      | _ => let '(r, vis) := heap_walk c hp f (fresh ++ visited) (map (fun a => nth a hp VVoid) fresh) in
             (flat_map (refs_of c) work ++ r, vis)
      end
  end.

(* [work]: values still to visit; [cands]: candidate set.  One round visits the whole work list (through the heap);
   the candidates it finds referenced leave the set and -- when the scan follows shadowed values -- their stored
   values form the next work list.  The visited set (the mark bits) persists across rounds.
   At most |cands| + 1 rounds change anything (Proofs: rounds_spec). *)
Fixpoint rounds (c : config) (g hp : list val) (fuel : nat) (visited : list nat) (work : list val) (cands : list slot)
  : list slot :=
  match fuel with
  | 0 => cands
  | S f =>
      let '(refs, vis) := heap_walk c hp (S (length hp)) visited work in
      let kept := filter (fun s => mem_slot s refs) cands in
      let rest := filter (fun s => negb (mem_slot s refs)) cands in
      match kept with
      | [] => cands
      | _ => if c_follow c then rounds c g hp f vis (map (fun s => nth s g VVoid) kept) rest else rest
      end
  end.

Fixpoint index_filter (p : nat -> bool) (i : nat) (g : list val) : list val :=
  match g with
  | [] => []
  | v :: r => (if p i then [v] else []) ++ index_filter p (S i) r
  end.

Fixpoint void_slots (dead : list slot) (i : nat) (g : list val) : list val :=
  match g with
  | [] => []
  | v :: r => (if mem_slot i dead then VVoid else v) :: void_slots dead (S i) r
  end.

Fixpoint clear_owner (dead : list slot) (i : nat) (o : list (option bid)) : list (option bid) :=
  match o with
  | [] => []
  | b :: r => (if mem_slot i dead then None else b) :: clear_owner dead (S i) r
  end.

Definition recycle (c : config) (e : eng) : eng :=
  let f := fl (sm e) in
  let cands := nodup Nat.eq_dec (shadowed f) in                       (* HashSet of the drained shadowed slots *)
  let roots := index_filter (fun i => negb (mem_slot i cands)) 0 (globals e) in
  (* take_marks: the walk starts from cleared mark bits; if it did not, every allocated cell would look visited *)
  let visited0 := if c_clear_marks c then [] else seq 0 (length (heap e)) in
  let left := rounds c (globals e) (heap e) (S (length cands)) visited0 roots cands in
  let dead := filter (fun s => Nat.ltb s (length (globals e))) left in  (* `if index < roots.len()` *)
  mkE (mkSM (values (sm e)) (smap (sm e))
            (increment_generation (mkFL [] (rev dead ++ free f) (threshold f) (epoch f))))
      (void_slots dead 0 (globals e))
      (clear_owner dead 0 (owner e))
      (nextb e)
      (heap e).

(* Engine::gc_shadowed_roots *)
Definition maybe_recycle (c : config) (e : eng) : eng :=
  if should_collect (fl (sm e)) then recycle c e else e.

(* ------------------------------------------------------------------ running compiled code *)

Definition is_call_op (o : opcode) : bool :=
  mem_op o [Op_CALLGLOBAL; Op_CALLGLOBALTAIL; Op_CALLGLOBALNOARITY; Op_CALLGLOBALTAILNOARITY; Op_CALLPRIMITIVE].

(* Looking through holders: a cell handle -> the cell's contents; a one-element vector / struct -> its field. *)
Fixpoint dig (fuel : nat) (hp : list val) (v : val) : val :=
  match fuel with
  | 0 => v
  | S f => match v with
           | VRef a => dig f hp (nth a hp VVoid)
           | VPair x _ => dig f hp x
           | _ => v
           end
  end.

(* Calling a closure with one fixnum argument: the body's instructions run in order; the results of the
   global-touching ones are collected into a list (the generated Steel functions are (list <item> ...)):
     PUSH s          -> the value in slot s
     SET s           -> slot s := operand, yields the old value         (set! returns the old value)
     CALL* s         -> call the value in slot s with the operand
   (operand = the instruction's constant if it has one, else the closure's argument)
     READCAPTURED    -> use the captured value (looked up through cells and holders): call it if it is a closure,
                        else yield it
   A read of a slot beyond the global vector, or a call of a non-procedure, is a run-time error.
   Closures of the generated family do not allocate or assign cells, so the heap is read-only here.
   Returns the global vector (effects before an error persist) and the result (None = error / out of fuel). *)
Fixpoint call (fuel : nat) (hp : list val) (g : list val) (f : val) (arg : nat) {struct fuel} : list val * option val :=
  match fuel with
  | 0 => (g, None)
  | S fuel' =>
      match f with
      | VClo h body caps =>
          (fix go (idx : nat) (b : list instr) (g : list val) {struct b} : list val * option val :=
             match b with
             | [] => (g, Some VNil)
             | i :: rest =>
                 let o := true_op h idx i in
                 let a := match i_imm i with Some k => k | None => arg end in
                 let '(g1, r1) :=
                   if op_eqb o Op_PUSH then
                     (g, if Nat.ltb (i_pay i) (length g) then Some (Some (nth (i_pay i) g VVoid)) else None)
                   else if op_eqb o Op_SET then
                     if Nat.ltb (i_pay i) (length g)
                     then (set_nth (i_pay i) (VInt a) g, Some (Some (nth (i_pay i) g VVoid)))
                     else (g, None)
                   else if is_call_op o then
                     if Nat.ltb (i_pay i) (length g)
                     then let '(g', r) := call fuel' hp g (nth (i_pay i) g VVoid) a in (g', option_map Some r)
                     else (g, None)
                   else if op_eqb o Op_READCAPTURED then
                     match dig fuel' hp caps with
                     | VClo h' b' c' => let '(g', r) := call fuel' hp g (VClo h' b' c') a in (g', option_map Some r)
                     | other => (g, Some (Some other))
                     end
                   else (g, Some None) in
                 match r1 with
                 | None => (g1, None)
                 | Some out =>
                     let '(g2, r2) := go (S idx) rest g1 in
                     (g2, match out with Some v => option_map (VPair v) r2 | None => r2 end)
                 end
             end) 0 body g
      | _ => (g, None)
      end
  end.

(* the run-time state: global vector and heap *)
Definition st := (list val * list val)%type.

Definition cell_content (vec : bool) (v : val) : val := if vec then VPair v VNil else v.

Fixpoint eval (fuel : nat) (s : st) (x : rexpr) : st * option val :=
  match x with
  | RConst n => (s, Some (VInt n))
  | RNil => (s, Some VNil)
  | RGlobal sl _ => (s, if Nat.ltb sl (length (fst s)) then Some (nth sl (fst s) VVoid) else None)
  | RLam jit hc body cap =>
      let '(s1, c) := eval fuel s cap in
      match c with
      | None => (s1, None)
      | Some c' =>
          if hc
          then ((fst s1, snd s1 ++ [c']), Some (mk_closure jit body (VRef (length (snd s1)))))
          else (s1, Some (mk_closure jit body c'))
      end
  | RBox vec a =>
      let '(s1, v) := eval fuel s a in
      match v with
      | None => (s1, None)
      | Some v' => ((fst s1, snd s1 ++ [cell_content vec v']), Some (VRef (length (snd s1))))
      end
  | RUnbox a =>
      let '(s1, v) := eval fuel s a in
      (s1, match v with
           | Some (VRef c) => if Nat.ltb c (length (snd s1)) then Some (nth c (snd s1) VVoid) else None
           | _ => None
           end)
  | RSetCell vec a b =>
      let '(s1, va) := eval fuel s a in
      match va with
      | Some (VRef c) =>
          let '(s2, vb) := eval fuel s1 b in
          match vb with
          | Some v' => if Nat.ltb c (length (snd s2))
                       then ((fst s2, set_nth c (cell_content vec v') (snd s2)), Some (VInt 0))
                       else (s2, None)
          | None => (s2, None)
          end
      | _ => (s1, None)
      end
  | RPair a b =>
      let '(s1, va) := eval fuel s a in
      match va with
      | None => (s1, None)
      | Some va' => let '(s2, vb) := eval fuel s1 b in (s2, option_map (VPair va') vb)
      end
  | RCar a => let '(s1, v) := eval fuel s a in
              (s1, match v with Some (VPair p _) => Some p | _ => None end)
  | RCdr a => let '(s1, v) := eval fuel s a in
              (s1, match v with Some (VPair _ q) => Some q | _ => None end)
  | RCall f arg =>
      let '(s1, vf) := eval fuel s f in
      match vf with
      | Some vf' => let '(g', r) := call fuel (snd s1) (fst s1) vf' arg in ((g', snd s1), r)
      | None => (s1, None)
      end
  | RSet sl _ a =>
      let '(s1, v) := eval fuel s a in
      match v with
      | Some v' => if Nat.ltb sl (length (fst s1))
                   then ((set_nth sl v' (fst s1), snd s1), Some (nth sl (fst s1) VVoid))
                   else (s1, None)
      | None => (s1, None)
      end
  | RFail => (s, None)
  end.

(* run the forms in order; stop at the first error.  Results: the value of every form (define -> void). *)
Fixpoint run_forms (fuel : nat) (s : st) (code : list rform) : st * option (list val) :=
  match code with
  | [] => (s, Some [])
  | RDefine sl a :: r =>
      let '(s1, v) := eval fuel s a in
      match v with
      | None => (s1, None)
      | Some v' => let '(s2, vs) := run_forms fuel (define_idx sl v' (fst s1), snd s1) r in (s2, option_map (cons VVoid) vs)
      end
  | RExpr a :: r =>
      let '(s1, v) := eval fuel s a in
      match v with
      | None => (s1, None)
      | Some v' => let '(s2, vs) := run_forms fuel s1 r in (s2, option_map (cons v') vs)
      end
  end.

(* Engine::compile_and_run_raw_program on one unit.  None = the unit reported an error. *)
Definition run_unit (c : config) (fuel : nat) (e : eng) (u : unit_) : eng * option (list val) :=
  if u_expand_fails u then (e, None) else
  match build c e (u_forms u) with
  | (e1, None) => (e1, None)
  | (e1, Some code) =>
      let e2 := maybe_recycle c e1 in
      let '(s, r) := run_forms fuel (globals e2, heap e2) code in
      (mkE (sm e2) (fst s) (owner e2) (nextb e2) (snd s), r)
  end.

Fixpoint run_history (c : config) (fuel : nat) (e : eng) (h : list unit_) : eng * list (option (list val)) :=
  match h with
  | [] => (e, [])
  | u :: r => let '(e1, o) := run_unit c fuel e u in
              let '(e2, os) := run_history c fuel e1 r in (e2, o :: os)
  end.

(* ------------------------------------------------------------------ rendering (canonical value syntax of the harness) *)

Section Render.
Local Open Scope string_scope.

Definition nat_str (n : nat) : string := NilEmpty.string_of_uint (Nat.to_uint n).

(* a chain of pairs ending in the empty list is a list; any other pair prints dotted (harness canon) *)
Fixpoint proper (v : val) : bool :=
  match v with
  | VNil => true
  | VPair _ b => proper b
  | _ => false
  end.

Fixpoint render (v : val) : string :=
  match v with
  | VInt n => "I" ++ nat_str n
  | VVoid => "#<void>"
  | VNil => "()"
  | VClo _ _ _ => "#<procedure>"
  | VRef _ => "#<cell>"
  | VPair a b =>
      if proper b
      then "(" ++ render a ++ (fix rest (t : val) : string :=
                                 match t with
                                 | VPair x y => " " ++ render x ++ rest y
                                 | _ => ")"
                                 end) b
      else "(" ++ render a ++ " . " ++ render b ++ ")"
  end.

Fixpoint join (sep : string) (l : list string) : string :=
  match l with
  | [] => ""
  | [x] => x
  | x :: r => x ++ sep ++ join sep r
  end.

Definition render_outcome (o : option (list val)) : string :=
  match o with
  | None => "ERR"
  | Some vs => "OK " ++ join " " (map render vs)
  end.

(* one line per history: the outcomes of the units selected by [probe] (a list of booleans aligned with the history) *)
Fixpoint select {A} (m : list bool) (l : list A) : list A :=
  match m, l with
  | true :: m', x :: l' => x :: select m' l'
  | false :: m', _ :: l' => select m' l'
  | _, _ => []
  end.

Definition run_render (c : config) (fuel : nat) (h : list unit_) (probe : list bool) : string :=
  join ";" (map render_outcome (select probe (snd (run_history c fuel eng_new h)))).

(* diagnostics for the coverage report: "threshold/epoch/|free|/|values|" after each unit *)
Fixpoint trace_fl (c : config) (fuel : nat) (e : eng) (h : list unit_) : list string :=
  match h with
  | [] => []
  | u :: r => let e1 := fst (run_unit c fuel e u) in
              (nat_str (threshold (fl (sm e1))) ++ "/" ++ nat_str (epoch (fl (sm e1))) ++ "/" ++
               nat_str (length (free (fl (sm e1)))) ++ "/" ++ nat_str (length (values (sm e1)))) :: trace_fl c fuel e1 r
  end.

Definition run_trace (c : config) (fuel : nat) (h : list unit_) : string := join ";" (trace_fl c fuel eng_new h).

(* outcomes of all units, "@", free-list trace: one evaluation per history *)
Fixpoint full_fl (c : config) (fuel : nat) (e : eng) (h : list unit_) : list string * list string :=
  match h with
  | [] => ([], [])
  | u :: r => let '(e1, o) := run_unit c fuel e u in
              let '(os, ts) := full_fl c fuel e1 r in
              (render_outcome o :: os,
               (nat_str (threshold (fl (sm e1))) ++ "/" ++ nat_str (epoch (fl (sm e1))) ++ "/" ++
                nat_str (length (free (fl (sm e1)))) ++ "/" ++ nat_str (length (values (sm e1)))) :: ts)
  end.

Definition run_full (c : config) (fuel : nat) (h : list unit_) : string :=
  let '(os, ts) := full_fl c fuel eng_new h in join ";" os ++ "@" ++ join ";" ts.

End Render.

(* ------------------------------------------------------------------ the invariant *)

(* an instruction that references a global names a slot owned by the very binding it was compiled against *)
Definition instr_ok (e : eng) (h : option opcode) (idx : nat) (i : instr) : Prop :=
  refs_global (true_op h idx i) = true ->
  exists b, i_ghost i = Some b /\ owner_of e (i_pay i) = Some b.

Fixpoint body_ok (e : eng) (h : option opcode) (idx : nat) (b : list instr) : Prop :=
  match b with
  | [] => True
  | i :: r => instr_ok e h idx i /\ body_ok e h (S idx) r
  end.

Fixpoint val_ok (e : eng) (v : val) : Prop :=
  match v with
  | VClo h body caps => body_ok e h 0 body /\ val_ok e caps
  | VPair a b => val_ok e a /\ val_ok e b
  | _ => True
  end.

(* heap cells: [G] is a set of cell addresses that is closed (what a good cell mentions is good) and whose contents
   are well bound; a value is good when it is well bound and every allocated cell it mentions is in G *)
Definition cells_ok (hp : list val) (G : list nat) (v : val) : Prop :=
  forall a, In a (cells_in v) -> a < length hp -> In a G.

Definition vgood (e : eng) (hp : list val) (G : list nat) (v : val) : Prop := val_ok e v /\ cells_ok hp G v.

Definition sok (e : eng) (G : list nat) (g hp : list val) : Prop :=
  (forall s, vgood e hp G (nth s g VVoid)) /\ (forall a, In a G -> vgood e hp G (nth a hp VVoid)).

(* Bound: every closure reachable from the global vector -- directly, in a data structure, captured by another
   closure, or through heap cells (boxes, mutable vectors, assigned captured variables) -- is well bound; names map
   to distinct owned slots; shadowed slots stay owned until a recycling round decides about them; slots handed out
   by [add] (free list, end of the table) are unowned. *)
Record Bound (e : eng) : Prop := mkBound {
  b_vals : forall s, val_ok e (nth s (globals e) VVoid);
  b_map_owned : forall x s, lookup (smap (sm e)) x = Some s -> owner_of e s <> None;
  b_map_inj : forall x y s, lookup (smap (sm e)) x = Some s -> lookup (smap (sm e)) y = Some s -> x = y;
  b_map_not_shadowed : forall x s, lookup (smap (sm e)) x = Some s -> ~ In s (shadowed (fl (sm e)));
  b_shadowed_owned : forall s, In s (shadowed (fl (sm e))) -> owner_of e s <> None;
  b_free_unowned : forall s, In s (free (fl (sm e))) -> owner_of e s = None;
  b_free_nodup : NoDup (free (fl (sm e)));
  b_free_lt : forall s, In s (free (fl (sm e))) -> s < length (values (sm e));
  b_fresh_unowned : forall s, length (values (sm e)) <= s -> owner_of e s = None;
  b_glob_len : length (globals e) <= length (values (sm e));
  b_heap : exists G, sok e G (globals e) (heap e)
}.

(* the configuration facts the proofs need *)
Definition config_sound (c : config) : Prop :=
  (forall o, refs_global o = true -> scanned c o = true) /\ c_header c = true /\ c_follow c = true /\
  c_snapshot c = true /\ c_clear_marks c = true.
