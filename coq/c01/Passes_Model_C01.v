(* C01 (passes) — model of the always-on AST rewriting passes of the compiler on a core language with
   rest parameters, quoted constants, %plain-let, begin, output and global assignment.

   Passes modelled AS THE CODE DOES THEM (file:lines of /repo at the time of writing):
   * [flatten]      FlattenAnonymousFunctionCalls::visit_list   compiler/passes/analysis.rs L4998-5065
   * [plain_let]    replace_anonymous_function_calls_with_plain_lets   analysis.rs L6492-6574
                    driven bottom-up by AnonymousFunctionCallSites::visit   analysis.rs L2781-2822
   * [prune_if]     PruneConstantIfBranches (expr_is_truthy / is_truthy)   compiler/passes/opt.rs L66-124
   * [ceval]        ConstantEvaluator: visit_atom L649-683, visit_if L557-580, visit_lambda_function L600-625,
                    visit_list (applied lambda) L804-1018, visit_let L1041-1188 of steel_vm/const_evaluation.rs;
                    folding of a `constant = true` primitive on constants (visit_list L768-793, eval_function) for
                    the one such primitive of the model, #%prim.+ ([PAddC], [fold_prim])
   * [uniq]         RenameShadowedVariables (compiler.rs L1217), [rlets] RemoveLetsBoundToOtherLocalVars: for the
                    AST correspondence only, no theorem
   * [static_arity] the ArityMismatch stops of const_evaluation.rs L805-824 (a COMPILE-time error: it is what makes
                    the operand count of every directly applied lambda match before the later passes run)

   Every side condition the code checks is a field of [guards]; the variants without a guard are the same
   functions with the field off (they are refuted by witnesses in Passes_Proofs_C01.v).  coq/gen/Gen_C01p.v
   (regenerated from the Rust source on every run) says which guards the source has.

   Reference meaning: [eval], fuel-indexed big-step, operands left to right then the operator (as in
   c02/Model_C02.v); fuel is DEPTH (operand lists do not consume fuel per element), a call spends one extra unit
   on its operands.  Closures are flat and canonical: they capture exactly the bindings of the free variables of
   the lambda, in the order of [fv]. *)
From Coq Require Import ZArith List Bool String.
Import ListNotations.
Open Scope string_scope.

(* quoted data / constants the constant evaluator can hold (to_constant, L300-309: atoms and quoted data) *)
Inductive datum :=
| DNum (z : Z)
| DBool (b : bool)
| DNil
| DCons (a d : datum).

(* PAddC is #%prim.+ : the same procedure under the name the constant evaluator knows (`constant = true`) *)
Inductive prim := PAdd | PConstList | PDisplay | PAddC.

Inductive exp :=
| Num (z : Z)
| Bool_ (b : bool)
| Quote (d : datum)
| Loc (x : string)                              (* local variable *)
| Glob (g : string)                             (* global variable *)
| Lam (ps : list string) (rest : bool) (body : exp)   (* ast::LambdaFunction {args, rest}: with rest, the LAST of ps collects the surplus *)
| Call (f : exp) (args : exps)
| If (c t e : exp)
| Let (xs : list string) (rhs : exps) (body : exp)    (* %plain-let: all right-hand sides in the outer scope *)
| Begin (es : exps)
| Prim (op : prim) (args : exps)                (* + / #%prim.#%const-list / display *)
| SetG (g : string) (e : exp)                   (* set! of a global *)
with exps :=
| ENil
| ECons (e : exp) (r : exps).

Scheme exp_mut := Induction for exp Sort Prop
  with exps_mut := Induction for exps Sort Prop.
Combined Scheme exp_exps_ind from exp_mut, exps_mut.

Inductive val :=
| VNum (z : Z)
| VBool (b : bool)
| VNil
| VCons (a d : val)
| VVoid
| VClo (ps : list string) (rest : bool) (body : exp) (ρ : venv)
with venv :=
| ENone
| EBind (x : string) (v : val) (r : venv).

Scheme val_mut := Induction for val Sort Prop
  with venv_mut := Induction for venv Sort Prop.

Inductive res := Val (v : val) | Err.

(* globals, output (most recent first) *)
Definition state := (venv * list val)%type.

Fixpoint lookup (x : string) (ρ : venv) : option val :=
  match ρ with
  | ENone => None
  | EBind y v r => if String.eqb x y then Some v else lookup x r
  end.

Fixpoint update (x : string) (v : val) (ρ : venv) : venv :=
  match ρ with
  | ENone => ENone
  | EBind y a r => if String.eqb x y then EBind y v r else EBind y a (update x v r)
  end.

Definition mem (x : string) (l : list string) : bool := existsb (String.eqb x) l.

Fixpoint elen (l : exps) : nat := match l with ENil => 0 | ECons _ r => S (elen r) end.
Fixpoint eapp (a b : exps) : exps := match a with ENil => b | ECons e r => ECons e (eapp r b) end.
Fixpoint efirstn (k : nat) (l : exps) : exps :=
  match k, l with S k', ECons e r => ECons e (efirstn k' r) | _, _ => ENil end.
Fixpoint eskipn (k : nat) (l : exps) : exps :=
  match k, l with S k', ECons _ r => eskipn k' r | _, _ => l end.
Fixpoint elist (l : exps) : list exp := match l with ENil => [] | ECons e r => e :: elist r end.
Fixpoint of_list (l : list exp) : exps := match l with [] => ENil | e :: r => ECons e (of_list r) end.

(* free local variables *)
Fixpoint fv (e : exp) : list string :=
  match e with
  | Num _ | Bool_ _ | Quote _ | Glob _ => []
  | Loc x => [x]
  | Lam ps _ b => filter (fun y => negb (mem y ps)) (fv b)
  | Call f args => (fvs args ++ fv f)%list
  | If c t e' => (fv c ++ fv t ++ fv e')%list
  | Let xs rhs b => (fvs rhs ++ filter (fun y => negb (mem y xs)) (fv b))%list
  | Begin es => fvs es
  | Prim _ args => fvs args
  | SetG _ e' => fv e'
  end
with fvs (l : exps) : list string :=
  match l with
  | ENil => []
  | ECons a r => (fv a ++ fvs r)%list
  end.

(* global variables mentioned *)
Fixpoint gvs (e : exp) : list string :=
  match e with
  | Num _ | Bool_ _ | Quote _ | Loc _ => []
  | Glob g => [g]
  | Lam _ _ b => gvs b
  | Call f args => (gvss args ++ gvs f)%list
  | If c t e' => (gvs c ++ gvs t ++ gvs e')%list
  | Let _ rhs b => (gvss rhs ++ gvs b)%list
  | Begin es => gvss es
  | Prim _ args => gvss args
  | SetG g e' => g :: gvs e'
  end
with gvss (l : exps) : list string :=
  match l with
  | ENil => []
  | ECons a r => (gvs a ++ gvss r)%list
  end.

(* canonical flat capture *)
Fixpoint capture (ρ : venv) (xs : list string) : venv :=
  match xs with
  | [] => ENone
  | x :: r => match lookup x ρ with
              | Some v => EBind x v (capture ρ r)
              | None => capture ρ r
              end
  end.

Fixpoint val_of_datum (d : datum) : val :=
  match d with
  | DNum z => VNum z
  | DBool b => VBool b
  | DNil => VNil
  | DCons a r => VCons (val_of_datum a) (val_of_datum r)
  end.

Fixpoint list_val (vs : list val) : val :=
  match vs with [] => VNil | v :: r => VCons v (list_val r) end.

(* parameters are bound one after the other: a later parameter of the same name wins *)
Fixpoint bind_fixed (xs : list string) (vs : list val) (ρ : venv) : option venv :=
  match xs, vs with
  | [], [] => Some ρ
  | x :: xs', v :: vs' => bind_fixed xs' vs' (EBind x v ρ)
  | _, _ => None
  end.

Definition bind_params (ps : list string) (rest : bool) (vs : list val) (ρ : venv) : option venv :=
  if rest then
    match rev ps with
    | [] => None
    | r :: _ =>
        let k := Nat.pred (List.length ps) in
        if Nat.ltb (List.length vs) k then None
        else match bind_fixed (firstn k ps) (firstn k vs) ρ with
             | Some ρ' => Some (EBind r (list_val (skipn k vs)) ρ')
             | None => None
             end
    end
  else bind_fixed ps vs ρ.

Definition truthy (v : val) : bool := match v with VBool false => false | _ => true end.

Fixpoint last_val (vs : list val) : val :=
  match vs with [] => VVoid | [v] => v | _ :: r => last_val r end.

Definition apply_prim (op : prim) (vs : list val) (s : state) : res * state :=
  match op, vs with
  | PAdd, [VNum a; VNum b] => (Val (VNum (a + b)), s)
  | PAdd, _ => (Err, s)
  | PConstList, _ => (Val (list_val vs), s)
  | PDisplay, [v] => (Val VVoid, (fst s, v :: snd s))
  | PDisplay, _ => (Err, s)
  | PAddC, [VNum a; VNum b] => (Val (VNum (a + b)), s)
  | PAddC, _ => (Err, s)
  end.

(* operands, left to right; the first non-value aborts *)
Fixpoint evals_with (ev : state -> exp -> option (res * state)) (s : state) (l : exps)
  : option ((res + list val) * state) :=
  match l with
  | ENil => Some (inr [], s)
  | ECons a r =>
      match ev s a with
      | None => None
      | Some (Val v, s1) =>
          match evals_with ev s1 r with
          | None => None
          | Some (inr vs, s2) => Some (inr (v :: vs), s2)
          | Some (inl x, s2) => Some (inl x, s2)
          end
      | Some (x, s1) => Some (inl x, s1)
      end
  end.

Fixpoint eval (n : nat) (s : state) (ρ : venv) (e : exp) {struct n} : option (res * state) :=
  match n with
  | O => None
  | S n' =>
    match e with
    | Num z => Some (Val (VNum z), s)
    | Bool_ b => Some (Val (VBool b), s)
    | Quote d => Some (Val (val_of_datum d), s)
    | Loc x => match lookup x ρ with Some v => Some (Val v, s) | None => Some (Err, s) end
    | Glob g => match lookup g (fst s) with Some v => Some (Val v, s) | None => Some (Err, s) end
    | Lam ps rest b => Some (Val (VClo ps rest b (capture ρ (fv (Lam ps rest b)))), s)
    | Call f args =>
        match evals_with (fun s0 a => eval (Nat.pred n') s0 ρ a) s args with
        | None => None
        | Some (inl x, s1) => Some (x, s1)
        | Some (inr vs, s1) =>
          match eval n' s1 ρ f with
          | None => None
          | Some (Val (VClo ps rest b ρc), s2) =>
              match bind_params ps rest vs ρc with
              | Some ρ' => eval n' s2 ρ' b
              | None => Some (Err, s2)
              end
          | Some (Val _, s2) => Some (Err, s2)
          | Some (Err, s2) => Some (Err, s2)
          end
        end
    | If c t e' =>
        match eval n' s ρ c with
        | None => None
        | Some (Val v, s1) => eval n' s1 ρ (if truthy v then t else e')
        | Some (Err, s1) => Some (Err, s1)
        end
    | Let xs rhs b =>
        match evals_with (fun s0 a => eval n' s0 ρ a) s rhs with
        | None => None
        | Some (inl x, s1) => Some (x, s1)
        | Some (inr vs, s1) =>
            match bind_fixed xs vs ρ with
            | Some ρ' => eval n' s1 ρ' b
            | None => Some (Err, s1)
            end
        end
    | Begin es =>
        match evals_with (fun s0 a => eval n' s0 ρ a) s es with
        | None => None
        | Some (inl x, s1) => Some (x, s1)
        | Some (inr vs, s1) => Some (Val (last_val vs), s1)
        end
    | Prim op args =>
        match evals_with (fun s0 a => eval n' s0 ρ a) s args with
        | None => None
        | Some (inl x, s1) => Some (x, s1)
        | Some (inr vs, s1) => Some (apply_prim op vs s1)
        end
    | SetG g e' =>
        match eval n' s ρ e' with
        | None => None
        | Some (Val v, s1) =>
            match lookup g (fst s1) with
            | Some _ => Some (Val VVoid, (update g v (fst s1), snd s1))
            | None => Some (Err, s1)
            end
        | Some (Err, s1) => Some (Err, s1)
        end
    end
  end.

Definition evals (n : nat) (s : state) (ρ : venv) (l : exps) := evals_with (fun s0 a => eval n s0 ρ a) s l.

(* ------------------------------------------------------------------ guards (side conditions the code checks) *)
Record guards := {
  flatten_checks_outer_rest : bool;     (* analysis.rs L5010, L5025  `!outer_rest` *)
  flatten_checks_inner_rest : bool;     (* analysis.rs L5026  `.filter(|f| !f.rest)` *)
  flatten_checks_operand_ids : bool;    (* analysis.rs L5021-5023  ExprContainsIds on the inner operands *)
  plain_let_skips_short_calls : bool;   (* analysis.rs L6505  fewer operands than fixed parameters: left alone *)
  plain_let_builds_const_list : bool;   (* analysis.rs L6522-6530  surplus -> (#%prim.#%const-list ..) *)
  prune_if_quote_false_is_false : bool; (* opt.rs L80-85 *)
  consteval_checks_rest_is_used : bool; (* const_evaluation.rs L917-922, L930 *)
  consteval_checks_surplus_operands : bool; (* const_evaluation.rs: the loop over args.iter().skip(l.args.len()) *)
  consteval_emits_value : bool;         (* const_evaluation.rs L949-990: the VALUE is emitted, not the visited body *)
  consteval_checks_set_idents : bool;   (* const_evaluation.rs L662 *)
  consteval_static_arity : bool;        (* const_evaluation.rs L805-824 *)
  consteval_operands_outer_scope : bool (* const_evaluation.rs `constant_operands` (visit_list, visit_let): whether an operand is a
                                           constant is decided BEFORE the scope of the lambda / let is entered *)
}.

Definition all_on : guards :=
  {| flatten_checks_outer_rest := true; flatten_checks_inner_rest := true; flatten_checks_operand_ids := true;
     plain_let_skips_short_calls := true; plain_let_builds_const_list := true;
     prune_if_quote_false_is_false := true; consteval_checks_rest_is_used := true;
     consteval_checks_surplus_operands := true; consteval_emits_value := true;
     consteval_checks_set_idents := true; consteval_static_arity := true;
     consteval_operands_outer_scope := true |}.

Fixpoint size (e : exp) : nat :=
  match e with
  | Num _ | Bool_ _ | Quote _ | Loc _ | Glob _ => 1
  | Lam _ _ b => S (size b)
  | Call f a => S (size f + sizes a)
  | If c t e' => S (size c + size t + size e')
  | Let _ r b => S (sizes r + size b)
  | Begin es => S (sizes es)
  | Prim _ a => S (sizes a)
  | SetG _ e' => S (size e')
  end
with sizes (l : exps) : nat :=
  match l with ENil => 1 | ECons e r => S (size e + sizes r) end.

(* ------------------------------------------------------------------ pass 1: FlattenAnonymousFunctionCalls *)
Definition mentions_any (ids : list string) (l : exps) : bool :=
  existsb (fun x => mem x ids) (fvs l).

(* one merge at the root (analysis.rs L5007-5054): Some = `changed` *)
Definition flatten_root (g : guards) (e : exp) : option exp :=
  match e with
  | Call (Lam ps_a rest_a (Call (Lam ps_b rest_b body) ys)) xs =>
      if (flatten_checks_operand_ids g && mentions_any ps_a ys)
         || (flatten_checks_outer_rest g && rest_a)
         || (flatten_checks_inner_rest g && rest_b)
      then None
      else Some (Call (Lam (ps_a ++ ps_b) rest_a body) (eapp xs ys))
           (* function_a.args.append(function_b.args); function_a keeps ITS OWN rest flag; l.args.append(args) *)
  | _ => None
  end.

(* visit_list: merge at the root while `changed` (L5056-5057), then visit the children (L5059-5062);
   every other node: the default traversal.  Fuel only bounds the re-visits. *)
Fixpoint flatten_f (g : guards) (k : nat) (e : exp) : exp :=
  match k with
  | O => e
  | S k' =>
    match flatten_root g e with
    | Some e1 => flatten_f g k' e1
    | None =>
      match e with
      | Num _ | Bool_ _ | Quote _ | Loc _ | Glob _ => e
      | Lam ps r b => Lam ps r (flatten_f g k' b)
      | Call f a => Call (flatten_f g k' f) (flattens_f g k' a)
      | If c t e' => If (flatten_f g k' c) (flatten_f g k' t) (flatten_f g k' e')
      | Let xs r b => Let xs (flattens_f g k' r) (flatten_f g k' b)
      | Begin es => Begin (flattens_f g k' es)
      | Prim op a => Prim op (flattens_f g k' a)
      | SetG x e' => SetG x (flatten_f g k' e')
      end
    end
  end
with flattens_f (g : guards) (k : nat) (l : exps) : exps :=
  match k with
  | O => l
  | S k' => match l with
            | ENil => ENil
            | ECons e r => ECons (flatten_f g k' e) (flattens_f g k' r)
            end
  end.

Definition flatten (g : guards) (e : exp) : exp := flatten_f g (2 * size e) e.

(* ------------------------------------------------------------------ pass 2: applied lambda -> %plain-let *)
(* the closure `func` (analysis.rs L6498-6560) at one call site *)
Definition plain_let_root (g : guards) (e : exp) : exp :=
  match e with
  | Call (Lam ps rest body) args =>
      if rest then
        let arity := Nat.pred (List.length ps) in                         (* f.args.len().saturating_sub(1) *)
        if plain_let_skips_short_calls g && Nat.ltb (elen args) arity then e      (* L6505 *)
        else
          let args' := if plain_let_builds_const_list g
                       then eapp (efirstn arity args) (ECons (Prim PConstList (eskipn arity args)) ENil)
                       else args in
          let k := Nat.min (List.length ps) (elen args') in               (* zip truncates, L6539 *)
          Let (firstn k ps) (efirstn k args') body
      else
        let k := Nat.min (List.length ps) (elen args) in
        Let (firstn k ps) (efirstn k args) body
  | _ => e
  end.

(* AnonymousFunctionCallSites::visit: children first, then the node (analysis.rs L2795-2811) *)
Fixpoint plain_let (g : guards) (e : exp) : exp :=
  match e with
  | Num _ | Bool_ _ | Quote _ | Loc _ | Glob _ => e
  | Lam ps r b => Lam ps r (plain_let g b)
  | Call f a => plain_let_root g (Call (plain_let g f) (plain_lets g a))
  | If c t e' => If (plain_let g c) (plain_let g t) (plain_let g e')
  | Let xs r b => Let xs (plain_lets g r) (plain_let g b)
  | Begin es => Begin (plain_lets g es)
  | Prim op a => Prim op (plain_lets g a)
  | SetG x e' => SetG x (plain_let g e')
  end
with plain_lets (g : guards) (l : exps) : exps :=
  match l with
  | ENil => ENil
  | ECons e r => ECons (plain_let g e) (plain_lets g r)
  end.

(* ------------------------------------------------------------------ pass 4: PruneConstantIfBranches *)
(* expr_is_truthy (opt.rs L76-88) on the model's constants *)
Definition expr_is_truthy (g : guards) (e : exp) : bool :=
  match e with
  | Bool_ b => b
  | Num _ => true
  | Quote (DBool false) => negb (prune_if_quote_false_is_false g)
  | Quote _ => true
  | _ => false
  end.

(* visit (opt.rs L99-108): a truthy constant test -> the then branch, visited again; otherwise the default
   traversal (a constant FALSE test is left to the code generator) *)
Fixpoint prune_if (g : guards) (e : exp) : exp :=
  match e with
  | Num _ | Bool_ _ | Quote _ | Loc _ | Glob _ => e
  | Lam ps r b => Lam ps r (prune_if g b)
  | Call f a => Call (prune_if g f) (prune_ifs g a)
  | If c t e' => if expr_is_truthy g c then prune_if g t
                 else If (prune_if g c) (prune_if g t) (prune_if g e')
  | Let xs r b => Let xs (prune_ifs g r) (prune_if g b)
  | Begin es => Begin (prune_ifs g es)
  | Prim op a => Prim op (prune_ifs g a)
  | SetG x e' => SetG x (prune_if g e')
  end
with prune_ifs (g : guards) (l : exps) : exps :=
  match l with
  | ENil => ENil
  | ECons e r => ECons (prune_if g e) (prune_ifs g r)
  end.

(* ------------------------------------------------------------------ static arity check (const_evaluation.rs L805-824) *)
Fixpoint static_arity (e : exp) : bool :=
  match e with
  | Num _ | Bool_ _ | Quote _ | Loc _ | Glob _ => true
  | Lam ps r b => (negb r || negb (Nat.eqb (List.length ps) 0)) && static_arity b
  | Call f a =>
      match f with
      | Lam ps r _ => if r then true        (* too few operands: left to the call at run time (plain_let skips it) *)
                      else Nat.eqb (List.length ps) (elen a)
      | _ => true
      end && static_arity f && static_aritys a
  | If c t e' => static_arity c && static_arity t && static_arity e'
  | Let xs r b => Nat.eqb (List.length xs) (elen r) && static_aritys r && static_arity b
  | Begin es => static_aritys es
  | Prim _ a => static_aritys a
  | SetG _ e' => static_arity e'
  end
with static_aritys (l : exps) : bool :=
  match l with ENil => true | ECons e r => static_arity e && static_aritys r end.

(* ------------------------------------------------------------------ pass 3: the constant evaluator *)
(* ConstantEnv (const_evaluation.rs L44-150) flattened into one association list, innermost binding first:
   CConst = `bindings`, CNon = `non_constant_bound`.  `used_bindings` is threaded as a list of names; leaving a
   scope removes the names it binds (their marks were made on the inner environment object).
   Simplifications (all stated in the check's evidence): binder names are assumed distinct along a scope chain
   when `to_constant` is asked about an operand from inside the new scope (L910, L950 evaluate the operands in
   the INNER environment) — since fix e50bef37 the operands are judged in the OUTER environment (guard
   consteval_operands_outer_scope; the variant without it is refuted in Passes_Proofs_C01.v);
   no `define` in a body (scope_contains_define = false); globals hold no constants.
   A variable that is the target of a set! somewhere is written [Glob]/[SetG] by the translation (it is in
   set_idents / expr_level_set_idents): visit_atom L662-666 and visit_set L1039 leave it alone but call `unbind`,
   which marks a constant binding of that name as used (L136-140) — [cmark]. *)
Inductive cbind := CConst (d : datum) | CNon.
Definition cenv := list (string * cbind).

Fixpoint clookup (x : string) (c : cenv) : option cbind :=
  match c with
  | [] => None
  | (y, b) :: r => if String.eqb x y then Some b else clookup x r
  end.

(* get, L89-106 *)
Definition cget (c : cenv) (x : string) : option datum :=
  match clookup x c with Some (CConst d) => Some d | _ => None end.

(* to_constant L300-309 with eval_atom L375-393, on an already visited expression; also the name it read *)
Definition to_const (c : cenv) (e : exp) : option datum * list string :=
  match e with
  | Num z => (Some (DNum z), [])
  | Bool_ b => (Some (DBool b), [])
  | Quote d => (Some d, [])
  | Loc x => match cget c x with Some d => (Some d, [x]) | None => (None, []) end
  | _ => (None, [])
  end.

Definition is_const_datum_truthy (d : datum) : bool := match d with DBool false => false | _ => true end.

(* is_truthy_constant L311-341 *)
Definition truthy_constant (c : cenv) (e : exp) : bool :=
  match e with
  | Bool_ b => b
  | Num _ => true
  | Loc x => match cget c x with Some d => is_const_datum_truthy d | None => false end
  | Quote (DBool b) => b
  | Quote (DNum _) => true
  | _ => false
  end.

(* is_constant L343-373: a quoted list is NOT a constant test here; an identifier only if bound to a truthy constant *)
Definition is_constant (c : cenv) (e : exp) : bool :=
  match e with
  | Bool_ _ | Num _ => true
  | Loc x => match cget c x with Some d => is_const_datum_truthy d | None => false end
  | Quote (DBool b) => b
  | Quote (DNum _) => true
  | _ => false
  end.

Definition read_names (c : cenv) (e : exp) : list string :=
  match e with Loc x => match cget c x with Some _ => [x] | None => [] end | _ => [] end.

Fixpoint datum_list (ds : list datum) : datum :=
  match ds with [] => DNil | d :: r => DCons d (datum_list r) end.

Fixpoint all_some {A} (l : list (option A)) : option (list A) :=
  match l with
  | [] => Some []
  | Some a :: r => match all_some r with Some r' => Some (a :: r') | None => None end
  | None :: _ => None
  end.

Definition notin (ps : list string) (u : list string) : list string := filter (fun y => negb (mem y ps)) u.

Definition bind_of (c : cenv) (x : string) (e : exp) : string * cbind :=
  (x, match fst (to_const c e) with Some d => CConst d | None => CNon end).

Fixpoint zipb (c : cenv) (xs : list string) (es : list exp) : cenv :=
  match xs, es with
  | x :: xs', e :: es' => bind_of c x e :: zipb c xs' es'
  | _, _ => []
  end.

Fixpoint select {A} (keep : list bool) (l : list A) : list A :=
  match keep, l with
  | true :: k, a :: r => a :: select k r
  | false :: k, _ :: r => select k r
  | _, _ => []
  end.

(* the ArityMismatch stops (L711-713, L805-824) abort the compilation: modelled by a marker that nothing removes *)
Definition arity_marker : exp := Glob "#%arity-mismatch".

(* visit_list L768-793 with eval_function / handle_output L456-551, for the one foldable primitive of the model: all
   operands are constants (all_to_constant), the call succeeds (an error leaves the call alone) and its result is an
   atom.  The names the operands read were already marked by visit_atom. *)
Definition fold_prim (c : cenv) (op : prim) (al : list exp) : option exp :=
  match op with
  | PAddC => match all_some (map (fun e0 => fst (to_const c e0)) al) with
             | Some [DNum x; DNum y] => Some (Num (x + y))
             | _ => None
             end
  | _ => None
  end.

Definition cmark (c : cenv) (x : string) : list string :=
  match cget c x with Some _ => [x] | None => [] end.

Fixpoint cvisit (g : guards) (c : cenv) (e : exp) : exp * list string * bool :=
  match e with
  | Num _ | Bool_ _ | Quote _ => (e, [], false)
  | Glob x => (e, cmark c x, false)                     (* an assigned identifier: `unbind`, L662-666 *)
  | Loc x =>                                            (* visit_atom L649-683 *)
      match cget c x with
      | Some (DNum z) => (Num z, [x], false)
      | Some (DBool b) => (Bool_ b, [x], false)
      | Some _ => (e, [x], false)
      | None => (e, [], false)
      end
  | Lam ps r b =>                                       (* visit_lambda_function L600-625 *)
      let '(b', u, ch) := cvisit g (map (fun p => (p, CNon)) ps ++ c)%list b in
      (Lam ps r b', notin ps u, ch)
  | If t a b =>                                         (* visit_if L557-580 (OptLevel::Three) *)
      let '(t', u1, c1) := cvisit g c t in
      if is_constant c t' then
        let '(x', u2, c2) := cvisit g c (if truthy_constant c t' then a else b) in
        (x', (u1 ++ read_names c t' ++ u2)%list, c1 || c2)
      else
        let '(a', u2, c2) := cvisit g c a in
        let '(b', u3, c3) := cvisit g c b in
        (If t' a' b', (u1 ++ read_names c t' ++ u2 ++ u3)%list, c1 || c2 || c3)
  | Begin es => let '(es', u, ch) := cvisits g c es in (Begin es', u, ch)
  | Prim op a =>
      let '(a', u, ch) := cvisits g c a in
      match fold_prim c op (elist a') with
      | Some e1 => (e1, u, true)
      | None => (Prim op a', u, ch)
      end
  | SetG x e' => let '(e'', u, ch) := cvisit g c e' in (SetG x e'', (cmark c x ++ u)%list, ch)   (* visit_set: unbind first *)
  | Let xs rhs b =>                                     (* visit_let L1041-1188 *)
      let '(rhs', u1, c1) := cvisits g c rhs in
      let rl := elist rhs' in
      let utc := flat_map (fun e0 => snd (to_const c e0)) rl in
      let c' := (rev (zipb c xs rl) ++ c)%list in
      let '(b', u2, c2) := cvisit g c' b in
      let cj := if consteval_operands_outer_scope g then c else c' in
      let keep := map (fun xe => mem (fst xe) u2 || match fst (to_const cj (snd xe)) with None => true | Some _ => false end)
                      (combine xs rl) in
      let uout := (u1 ++ utc ++ notin xs u2)%list in
      if existsb (fun k => k) keep
      then (Let (select keep xs) (of_list (select keep rl)) b', uout, c1 || c2)
      else (b', uout, true)
  | Call f a =>
      match f, a with
      | _, ENil =>                                      (* L692-732: no operand *)
          let '(f', u, ch) := cvisit g c f in
          match f' with
          | Lam [] false b' => if is_constant c b' then (b', (u ++ read_names c b')%list, ch) else (Call f' ENil, u, ch)
          | Lam (_ :: _) false _ => if consteval_static_arity g then (arity_marker, u, ch) else (Call f' ENil, u, ch)
          | _ => (Call f' ENil, u, ch)
          end
      | Lam ps r body, _ =>                             (* L804-1018: an applied lambda *)
          if consteval_static_arity g &&
             (if r then Nat.ltb (elen a) (Nat.pred (List.length ps)) else negb (Nat.eqb (List.length ps) (elen a)))
          then (arity_marker, [], false) else
          let '(a', u1, c1) := cvisits g c a in
          let al := elist a' in
          let k := Nat.pred (List.length ps) in
          let utc := flat_map (fun e0 => snd (to_const c e0)) al in
          let binds :=
            if r then
              (zipb c (firstn k ps) (firstn k al) ++
               match rev ps with
               | [] => []
               | rp :: _ => [(rp, match all_some (map (fun e0 => fst (to_const c e0)) (skipn k al)) with
                                  | Some ds => CConst (datum_list ds)
                                  | None => CNon
                                  end)]
               end)%list
            else zipb c ps al in
          let c' := (rev binds ++ c)%list in
          let '(b', u2, c2) := cvisit g c' body in
          let cj := if consteval_operands_outer_scope g then c else c' in
          let isnc := fun e0 => match fst (to_const cj e0) with None => true | Some _ => false end in
          let pairs := combine ps al in
          let any_used := existsb (fun xe => mem (fst xe) u2) pairs in
          let any_nonconst := existsb (fun xe => negb (mem (fst xe) u2) && isnc (snd xe)) pairs
                              || (consteval_checks_surplus_operands g && r && existsb isnc (skipn (List.length ps) al)) in
          let rest_is_used := consteval_checks_rest_is_used g && r &&
                              match rev ps with rp :: _ => mem rp u2 | [] => false end in
          let uout := (u1 ++ utc ++ notin ps u2)%list in
          if negb any_used && negb any_nonconst && negb rest_is_used
          then (b', uout, true)                         (* L927-937: the scope is dropped *)
          else match fst (to_const c' b') with
               | Some v =>                              (* L949-990 *)
                   let nc := filter isnc al in
                   let last := if consteval_emits_value g then Quote v else b' in
                   match nc with
                   | [] => (Quote v, uout, true)
                   | _ => (Begin (of_list (nc ++ [last])%list), uout, true)
                   end
               | None => (Call (Lam ps r b') a', uout, c1 || c2)      (* L999-1011 *)
               end
      | _, _ =>                                         (* L795-802 *)
          let '(a', u1, c1) := cvisits g c a in
          let '(f', u2, c2) := cvisit g c f in
          (Call f' a', (u1 ++ u2)%list, c1 || c2)
      end
  end
with cvisits (g : guards) (c : cenv) (l : exps) : exps * list string * bool :=
  match l with
  | ENil => (ENil, [], false)
  | ECons e r =>
      let '(e', u1, c1) := cvisit g c e in
      let '(r', u2, c2) := cvisits g c r in
      (ECons e' r', (u1 ++ u2)%list, c1 || c2)
  end.

(* ConstantEvaluatorManager::run L180-233: one visit, then up to ten more while `changed` *)
Fixpoint cloop (g : guards) (k : nat) (e : exp) : exp :=
  match k with
  | O => e
  | S k' => let '(e', _, ch) := cvisit g [] e in if ch then cloop g k' e' else e'
  end.
Definition crun (g : guards) (e : exp) : exp := let '(e', _, _) := cvisit g [] e in cloop g 10 e'.
(* apply_const_evaluation, OptLevel::Three: three runs (compiler.rs L1557-1559) *)
Definition ceval (g : guards) (e : exp) : exp := crun g (crun g (crun g e)).

(* ------------------------------------------------------------------ RemoveLetsBoundToOtherLocalVars (opt.rs L126-216) *)
(* modelled only to make the AST correspondence reach past it; no theorem *)
Fixpoint sub_find (x : string) (sub : list (string * option string)) : option (option string) :=
  match sub with
  | [] => None
  | (y, r) :: t => if String.eqb x y then Some r else sub_find x t
  end.

(* AssignedIdentifiers (opt.rs, fix cfeb70d8): the targets of every set! in an expression *)
Fixpoint sets (e : exp) : list string :=
  match e with
  | Num _ | Bool_ _ | Quote _ | Loc _ | Glob _ => []
  | Lam _ _ b => sets b
  | Call f a => (setss a ++ sets f)%list
  | If c t e' => (sets c ++ sets t ++ sets e')%list
  | Let _ r b => (setss r ++ sets b)%list
  | Begin es => setss es
  | Prim _ a => setss a
  | SetG x e' => x :: sets e'
  end
with setss (l : exps) : list string :=
  match l with ENil => [] | ECons e r => (sets e ++ setss r)%list end.

Fixpoint rlets (args : list string) (sub : list (string * option string)) (e : exp) : exp :=
  match e with
  | Num _ | Bool_ _ | Quote _ | Glob _ => e
  | Loc x => match sub_find x sub with Some (Some r) => Loc r | _ => e end
  | Lam ps r b => Lam ps r (rlets (args ++ ps)%list sub b)
  | Call f a => Call (rlets args sub f) (rletss args sub a)
  | If c t e' => If (rlets args sub c) (rlets args sub t) (rlets args sub e')
  | Begin es => Begin (rletss args sub es)
  | Prim op a => Prim op (rletss args sub a)
  | SetG x e' => SetG x (rlets args sub e')
  | Let xs rhs b =>
      let rl := elist (rletss args sub rhs) in
      let assigned := sets b in
      let tgt := fun x e0 => if mem x assigned then None else
                             match e0 with Loc r => if mem r args then Some r else None | _ => None end in
      let bound := map (fun xe => (fst xe, tgt (fst xe) (snd xe))) (combine xs rl) in
      let keep := map (fun xe => match tgt (fst xe) (snd xe) with Some _ => false | None => true end) (combine xs rl) in
      Let (select keep xs) (of_list (select keep rl)) (rlets args (bound ++ sub)%list b)
  end
with rletss (args : list string) (sub : list (string * option string)) (l : exps) : exps :=
  match l with
  | ENil => ENil
  | ECons e r => ECons (rlets args sub e) (rletss args sub r)
  end.

Definition digit (n : nat) : string :=
  String (Ascii.ascii_of_nat (48 + n)) EmptyString.
Fixpoint nat_str_f (k n : nat) : string :=
  match k with
  | O => ""
  | S k' => if Nat.ltb n 10 then digit n else nat_str_f k' (Nat.div n 10) ++ digit (Nat.modulo n 10)
  end.
Definition nat_str (n : nat) : string := nat_str_f (S n) n.

(* ------------------------------------------------------------------ RenameShadowedVariables (compiler.rs L1217, right after the
   first constant evaluation; again after flattening): afterwards every binder has its own name, so the later passes
   never see shadowing.  Modelled (every binder gets the next number) only to make the AST correspondence reach past
   it; no theorem.  An assigned variable is written Glob / SetG: renamed with its binder. *)
Fixpoint ren_find (x : string) (m : list (string * string)) : string :=
  match m with [] => x | (y, y') :: r => if String.eqb x y then y' else ren_find x r end.
Fixpoint ren_names (k : nat) (ps : list string) : list string :=
  match ps with [] => [] | p :: r => (p ++ "#" ++ nat_str k)%string :: ren_names (S k) r end.

Fixpoint uniq (k : nat) (m : list (string * string)) (e : exp) : exp * nat :=
  match e with
  | Num _ | Bool_ _ | Quote _ => (e, k)
  | Loc x => (Loc (ren_find x m), k)
  | Glob x => (Glob (ren_find x m), k)
  | Lam ps r b =>
      let ps' := ren_names k ps in
      let '(b', k1) := uniq (k + List.length ps) (rev (combine ps ps') ++ m)%list b in
      (Lam ps' r b', k1)
  | Call f a => let '(a', k1) := uniqs k m a in let '(f', k2) := uniq k1 m f in (Call f' a', k2)
  | If c t e' => let '(c', k1) := uniq k m c in let '(t', k2) := uniq k1 m t in let '(e'', k3) := uniq k2 m e' in (If c' t' e'', k3)
  | Let xs rhs b =>
      let '(rhs', k1) := uniqs k m rhs in
      let xs' := ren_names k1 xs in
      let '(b', k2) := uniq (k1 + List.length xs) (rev (combine xs xs') ++ m)%list b in
      (Let xs' rhs' b', k2)
  | Begin es => let '(es', k1) := uniqs k m es in (Begin es', k1)
  | Prim op a => let '(a', k1) := uniqs k m a in (Prim op a', k1)
  | SetG x e' => let '(e'', k1) := uniq k m e' in (SetG (ren_find x m) e'', k1)
  end
with uniqs (k : nat) (m : list (string * string)) (l : exps) : exps * nat :=
  match l with
  | ENil => (ENil, k)
  | ECons e r => let '(e', k1) := uniq k m e in let '(r', k2) := uniqs k1 m r in (ECons e' r', k2)
  end.

(* ------------------------------------------------------------------ the modelled part of the pipeline
   (compiler.rs lower_expressions_impl L1103-1430, in this order; passes that do not act on the fragment omitted) *)
Definition has_marker (e : exp) : bool := mem "#%arity-mismatch" (gvs e).

Definition pipeline (g : guards) (e : exp) : option exp :=
  if has_marker (fst (fst (cvisit g [] e))) then None            (* ArityMismatch at compile time *)
  else
    let e1 := fst (uniq 0 [] (ceval g e)) in                     (* L1202, L1217 *)
    let e2 := flatten g e1 in                                    (* L1284 *)
    let e3 := plain_let g e2 in                                  (* L1357 *)
    let e4 := ceval g e3 in                                      (* L1410 *)
    let e5 := prune_if g e4 in                                   (* L1413 SingleExprOptimizer *)
    Some (rlets [] [] e5).

(* ------------------------------------------------------------------ rendering (correspondence) *)
Definition z_str (z : Z) : string :=
  match z with
  | Z0 => "0"
  | Zpos p => nat_str (Pos.to_nat p)
  | Zneg p => "-" ++ nat_str (Pos.to_nat p)
  end.

Fixpoint datum_str (d : datum) : string :=
  match d with
  | DNum z => z_str z
  | DBool true => "#t"
  | DBool false => "#f"
  | DNil => "()"
  | DCons a r => "(" ++ datum_str a ++ " . " ++ datum_str r ++ ")"
  end.

Definition prim_str (p : prim) : string :=
  match p with PAdd => "+" | PConstList => "const-list" | PDisplay => "display" | PAddC => "#%prim.+" end.

Fixpoint join (l : list string) : string :=
  match l with [] => "" | [a] => a | a :: r => a ++ " " ++ join r end.

Fixpoint exp_str (e : exp) : string :=
  match e with
  | Num z => z_str z
  | Bool_ true => "#t"
  | Bool_ false => "#f"
  | Quote d => "(quote " ++ datum_str d ++ ")"
  | Loc x => x
  | Glob g => g
  | Lam ps r b => "(lambda" ++ (if r then "* (" else " (") ++ join ps ++ ") " ++ exp_str b ++ ")"
  | Call f a => "(" ++ exp_str f ++ exps_str a ++ ")"
  | If c t e' => "(if " ++ exp_str c ++ " " ++ exp_str t ++ " " ++ exp_str e' ++ ")"
  | Let xs r b => "(let (" ++ join xs ++ ") (" ++ exps_str r ++ " ) " ++ exp_str b ++ ")"
  | Begin es => "(begin" ++ exps_str es ++ ")"
  | Prim p a => "(" ++ prim_str p ++ exps_str a ++ ")"
  | SetG g e' => "(set! " ++ g ++ " " ++ exp_str e' ++ ")"
  end
with exps_str (l : exps) : string :=
  match l with
  | ENil => ""
  | ECons e r => " " ++ exp_str e ++ exps_str r
  end.

Fixpoint val_str (v : val) : string :=
  match v with
  | VNum z => z_str z
  | VBool true => "#t"
  | VBool false => "#f"
  | VNil => "()"
  | VCons a d => "(" ++ val_str a ++ " . " ++ val_str d ++ ")"
  | VVoid => "#<void>"
  | VClo _ _ _ _ => "#<procedure>"
  end.

Definition render_res (r : option (res * state)) : string :=
  match r with
  | None => "FUEL"
  | Some (Val v, s) => "OK " ++ val_str v ++ " OUT " ++ join (map val_str (rev (snd s)))
  | Some (Err, s) => "ERR OUT " ++ join (map val_str (rev (snd s)))
  end.

Definition fst_opt {A B} (o : option (A * B)) : option A :=
  match o with Some (a, _) => Some a | None => None end.

Definition pipeline_str (g : guards) (e : exp) : string :=
  match pipeline g e with Some e' => exp_str e' | None => "ARITY" end.

