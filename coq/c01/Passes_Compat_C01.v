(* C01 (passes) — the generic simulation: a rewrite rule R that (i) introduces no free variable and (ii) is sound
   at the root with the SAME fuel and IDENTICAL result, may be applied anywhere in a program, any number of
   times, also inside lambda bodies: related programs produce related results (closures related by their bodies). *)
From Coq Require Import ZArith List Bool String Lia.
From SV Require Import c01.Passes_Model_C01 c01.Passes_Basics_C01.
Import ListNotations.
Open Scope string_scope.

Inductive orel (P : val -> val -> Prop) : option val -> option val -> Prop :=
| OR_none : orel P None None
| OR_some v v' : P v v' -> orel P (Some v) (Some v').

Section Compat.
  Variable R : exp -> exp -> Prop.    (* rules applied at a node BEFORE its result is visited further *)
  Variable Q : exp -> exp -> Prop.    (* rules applied at a node AFTER its children were visited (bottom-up passes) *)

  Inductive crel : exp -> exp -> Prop :=
  | C_step e e1 e2 : R e e1 -> crel e1 e2 -> crel e e2
  | C_post e e1 e2 : crel e e1 -> Q e1 e2 -> crel e e2
  | C_Num z : crel (Num z) (Num z)
  | C_Bool b : crel (Bool_ b) (Bool_ b)
  | C_Quote d : crel (Quote d) (Quote d)
  | C_Loc x : crel (Loc x) (Loc x)
  | C_Glob g : crel (Glob g) (Glob g)
  | C_Lam ps r b b' : crel b b' -> crel (Lam ps r b) (Lam ps r b')
  | C_Call f f' a a' : crel f f' -> crels a a' -> crel (Call f a) (Call f' a')
  | C_If c c' t t' e e' : crel c c' -> crel t t' -> crel e e' -> crel (If c t e) (If c' t' e')
  | C_Let xs r r' b b' : crels r r' -> crel b b' -> crel (Let xs r b) (Let xs r' b')
  | C_Begin es es' : crels es es' -> crel (Begin es) (Begin es')
  | C_Prim op a a' : crels a a' -> crel (Prim op a) (Prim op a')
  | C_SetG g e e' : crel e e' -> crel (SetG g e) (SetG g e')
  with crels : exps -> exps -> Prop :=
  | CS_Nil : crels ENil ENil
  | CS_Cons e e' r r' : crel e e' -> crels r r' -> crels (ECons e r) (ECons e' r').

  Scheme crel_mut := Induction for crel Sort Prop
    with crels_mut := Induction for crels Sort Prop.
  Combined Scheme crel_crels_ind from crel_mut, crels_mut.

  Lemma crel_refl_both : (forall e, crel e e) /\ (forall l, crels l l).
  Proof. apply exp_exps_ind; intros; constructor; assumption. Qed.
  Definition crel_refl := proj1 crel_refl_both.
  Definition crels_refl := proj2 crel_refl_both.

  Inductive vrel : val -> val -> Prop :=
  | VR_Num z : vrel (VNum z) (VNum z)
  | VR_Bool b : vrel (VBool b) (VBool b)
  | VR_Nil : vrel VNil VNil
  | VR_Void : vrel VVoid VVoid
  | VR_Cons a a' d d' : vrel a a' -> vrel d d' -> vrel (VCons a d) (VCons a' d')
  | VR_Clo ps rest b b' ρ ρ' :
      crel b b' ->
      (forall x, In x (fv (Lam ps rest b')) -> orel vrel (lookup x ρ) (lookup x ρ')) ->
      vrel (VClo ps rest b ρ) (VClo ps rest b' ρ').

  Definition envrel (xs : list string) (ρ ρ' : venv) : Prop :=
    forall x, In x xs -> orel vrel (lookup x ρ) (lookup x ρ').
  Definition grel (G G' : venv) : Prop := forall g, orel vrel (lookup g G) (lookup g G').
  Definition srel (s s' : state) : Prop := grel (fst s) (fst s') /\ Forall2 vrel (snd s) (snd s').
  Inductive rrel : res -> res -> Prop :=
  | RR_val v v' : vrel v v' -> rrel (Val v) (Val v')
  | RR_err : rrel Err Err.
  Inductive rsrel : res + list val -> res + list val -> Prop :=
  | RS_l x x' : rrel x x' -> rsrel (inl x) (inl x')
  | RS_r vs vs' : Forall2 vrel vs vs' -> rsrel (inr vs) (inr vs').

  Hypothesis R_fv : forall e e1, R e e1 -> incl (fv e1) (fv e).
  Hypothesis R_sound : forall e e1, R e e1 ->
    forall n s ρ r, eval n s ρ e = Some r -> eval n s ρ e1 = Some r.
  Hypothesis Q_fv : forall e e1, Q e e1 -> incl (fv e1) (fv e) /\ incl (fv e) (fv e1).
  Hypothesis Q_sound : forall e e1, Q e e1 ->
    forall n s ρ r, eval n s ρ e = Some r -> eval n s ρ e1 = Some r.

  Lemma incl_filter (p : string -> bool) l l' : incl l' l -> incl (filter p l') (filter p l).
  Proof. intros H x Hx. apply filter_In in Hx. apply filter_In. split; [apply H|]; tauto. Qed.

  Lemma crel_fv_both :
    (forall e e', crel e e' -> incl (fv e') (fv e)) /\ (forall l l', crels l l' -> incl (fvs l') (fvs l)).
  Proof.
    apply crel_crels_ind; intros; cbn [fv fvs]; try apply incl_refl;
      repeat first [apply incl_app_app | apply incl_filter | assumption].
    - eapply incl_tran; [eassumption|]. apply R_fv; assumption.
    - match goal with q : Q _ _ |- _ => eapply incl_tran; [apply (proj1 (Q_fv _ _ q))|eassumption] end.
  Qed.
  Definition crel_fv := proj1 crel_fv_both.

  Lemma envrel_app_l a b ρ ρ' : envrel (a ++ b) ρ ρ' -> envrel a ρ ρ'.
  Proof. intros H x Hx. apply H. apply in_or_app; left; exact Hx. Qed.
  Lemma envrel_app_r a b ρ ρ' : envrel (a ++ b) ρ ρ' -> envrel b ρ ρ'.
  Proof. intros H x Hx. apply H. apply in_or_app; right; exact Hx. Qed.

  Lemma truthy_rel v v' : vrel v v' -> truthy v = truthy v'.
  Proof. intros H; inversion H; reflexivity. Qed.

  Lemma list_val_rel vs vs' : Forall2 vrel vs vs' -> vrel (list_val vs) (list_val vs').
  Proof. induction 1; cbn [list_val]; constructor; assumption. Qed.

  Lemma last_val_rel vs vs' : Forall2 vrel vs vs' -> vrel (last_val vs) (last_val vs').
  Proof.
    induction 1 as [|v v' l l' Hv Hl IH]; cbn [last_val]; [constructor|].
    destruct Hl; [exact Hv|exact IH].
  Qed.

  Lemma Forall2_firstn (k : nat) vs vs' : Forall2 vrel vs vs' -> Forall2 vrel (firstn k vs) (firstn k vs').
  Proof. intros H; revert k; induction H; intros [|k]; cbn [firstn]; constructor; auto. Qed.
  Lemma Forall2_skipn (k : nat) vs vs' : Forall2 vrel vs vs' -> Forall2 vrel (skipn k vs) (skipn k vs').
  Proof. intros H; revert k; induction H; intros [|k]; cbn [skipn]; try constructor; auto. Qed.
  Lemma Forall2_len vs vs' : Forall2 vrel vs vs' -> List.length vs = List.length vs'.
  Proof. induction 1; cbn [List.length]; congruence. Qed.

  Lemma bind_fixed_rel : forall xs vs vs' ρ ρ' ρ1 keep,
    Forall2 vrel vs vs' ->
    (forall x, In x keep -> ~ In x xs -> orel vrel (lookup x ρ) (lookup x ρ')) ->
    bind_fixed xs vs ρ = Some ρ1 ->
    exists ρ1', bind_fixed xs vs' ρ' = Some ρ1' /\ envrel keep ρ1 ρ1'.
  Proof.
    induction xs as [|y xs IH]; intros vs vs' ρ ρ' ρ1 keep HF H B; destruct HF as [|v v' vs vs' Hv HF];
      cbn [bind_fixed] in *; try discriminate.
    - inversion B; subst. exists ρ'. split; [reflexivity|]. intros x Hx. apply H; [exact Hx|intros []].
    - destruct (IH vs vs' (EBind y v ρ) (EBind y v' ρ') ρ1 keep HF) as (ρ1' & B' & A); [|exact B|].
      + intros x Hx Hn. cbn [lookup]. destruct (String.eqb x y) eqn:E; [constructor; exact Hv|].
        apply H; [exact Hx|]. intros [->|Hi]; [rewrite String.eqb_refl in E; discriminate|exact (Hn Hi)].
      + exists ρ1'. split; assumption.
  Qed.

  Lemma bind_fixed_none_rel xs vs vs' ρ ρ' :
    Forall2 vrel vs vs' -> bind_fixed xs vs ρ = None -> bind_fixed xs vs' ρ' = None.
  Proof.
    intros HF B. destruct (bind_fixed xs vs' ρ') as [ρ1'|] eqn:B'; [|reflexivity]. exfalso.
    apply bind_fixed_length in B'. rewrite <- (Forall2_len _ _ HF) in B'.
    destruct (bind_fixed_total xs vs ρ B') as (? & ?). congruence.
  Qed.

  Lemma bind_params_rel ps rest vs vs' ρ ρ' ρ1 keep :
    Forall2 vrel vs vs' ->
    (forall x, In x keep -> ~ In x ps -> orel vrel (lookup x ρ) (lookup x ρ')) ->
    bind_params ps rest vs ρ = Some ρ1 ->
    exists ρ1', bind_params ps rest vs' ρ' = Some ρ1' /\ envrel keep ρ1 ρ1'.
  Proof.
    intros HF. unfold bind_params. destruct rest; [|apply bind_fixed_rel; exact HF].
    destruct (rev ps) as [|r l] eqn:Er; [discriminate|].
    rewrite <- (Forall2_len _ _ HF).
    destruct (Nat.ltb (List.length vs) (Nat.pred (List.length ps))); [discriminate|].
    set (k := Nat.pred (List.length ps)).
    destruct (bind_fixed (firstn k ps) (firstn k vs) ρ) as [ρa|] eqn:B; [|discriminate].
    intros H E. inversion E; subst ρ1; clear E.
    destruct (bind_fixed_rel (firstn k ps) (firstn k vs) (firstn k vs') ρ ρ' ρa (filter (fun y => negb (String.eqb y r)) keep)
                (Forall2_firstn k _ _ HF)) as (ρb & B2 & A); [|exact B|].
    { intros x Hx Hn. apply filter_In in Hx. destruct Hx as [Hx Hne].
      destruct (in_dec string_dec x ps) as [Hi|Hi]; [|apply H; assumption].
      exfalso. apply Hn. pose proof (rev_split_last _ _ _ Er) as Hps. fold k in Hps.
      rewrite Hps in Hi. apply in_app_or in Hi. destruct Hi as [Hi|[Hi|[]]]; [exact Hi|].
      subst x. rewrite String.eqb_refl in Hne. discriminate. }
    rewrite B2. eexists. split; [reflexivity|].
    intros x Hx. cbn [lookup]. destruct (String.eqb x r) eqn:E.
    - constructor. apply list_val_rel. apply Forall2_skipn. exact HF.
    - apply A. apply filter_In. split; [exact Hx|]. rewrite E. reflexivity.
  Qed.

  Lemma bind_params_none_rel ps rest vs vs' ρ ρ' :
    Forall2 vrel vs vs' -> bind_params ps rest vs ρ = None -> bind_params ps rest vs' ρ' = None.
  Proof.
    intros HF. unfold bind_params. destruct rest; [|apply bind_fixed_none_rel; exact HF].
    destruct (rev ps) as [|r l]; [reflexivity|].
    rewrite <- (Forall2_len _ _ HF).
    destruct (Nat.ltb (List.length vs) (Nat.pred (List.length ps))); [reflexivity|].
    destruct (bind_fixed _ (firstn _ vs) ρ) eqn:B; [discriminate|].
    rewrite (bind_fixed_none_rel _ _ _ _ ρ' (Forall2_firstn _ _ _ HF) B). reflexivity.
  Qed.

  Lemma grel_update g v v' G G' : grel G G' -> vrel v v' -> grel (update g v G) (update g v' G').
  Proof.
    intros HG Hv x. specialize (HG x).
    assert (U : forall H w, lookup x (update g w H) =
                 match lookup x H with Some a => Some (if String.eqb x g then w else a) | None => None end).
    { induction H as [|y a H IH]; intros w; cbn [update lookup]; [reflexivity|].
      destruct (String.eqb g y) eqn:E1; cbn [lookup].
      - apply String.eqb_eq in E1. subst y. destruct (String.eqb x g); [reflexivity|].
        destruct (lookup x H); reflexivity.
      - destruct (String.eqb x y) eqn:E2.
        + apply String.eqb_eq in E2. subst y. rewrite String.eqb_sym, E1. reflexivity.
        + apply IH. }
    rewrite !U. destruct HG as [|a a' Ha]; [constructor|]. constructor. destruct (String.eqb x g); assumption.
  Qed.

  Lemma apply_prim_rel op vs vs' s s' :
    Forall2 vrel vs vs' -> srel s s' ->
    rrel (fst (apply_prim op vs s)) (fst (apply_prim op vs' s')) /\
    srel (snd (apply_prim op vs s)) (snd (apply_prim op vs' s')).
  Proof.
    intros HF Hs. destruct op.
    - (* PAdd *)
      destruct HF as [|a a' l l' Ha HF]; [cbn; split; [constructor|exact Hs]|].
      destruct HF as [|b b' l l' Hb HF].
      { inversion Ha; subst; cbn; (split; [constructor|exact Hs]). }
      destruct HF as [|c c' l l' Hc HF].
      { inversion Ha; subst; inversion Hb; subst; cbn; (split; [repeat constructor|exact Hs]). }
      inversion Ha; subst; inversion Hb; subst; cbn; (split; [repeat constructor|exact Hs]).
    - cbn. split; [constructor; apply list_val_rel; exact HF|exact Hs].
    - destruct HF as [|a a' l l' Ha HF]; [cbn; split; [constructor|exact Hs]|].
      destruct HF as [|b b' l l' Hb HF]; cbn.
      + split; [repeat constructor|]. destruct Hs as [HG HO]. split; [exact HG|]. cbn. constructor; assumption.
      + split; [constructor|exact Hs].
    - (* PAddC *)
      destruct HF as [|a a' l l' Ha HF]; [cbn; split; [constructor|exact Hs]|].
      destruct HF as [|b b' l l' Hb HF].
      { inversion Ha; subst; cbn; (split; [constructor|exact Hs]). }
      destruct HF as [|c c' l l' Hc HF].
      { inversion Ha; subst; inversion Hb; subst; cbn; (split; [repeat constructor|exact Hs]). }
      inversion Ha; subst; inversion Hb; subst; cbn; (split; [repeat constructor|exact Hs]).
  Qed.

  Lemma datum_rel d : vrel (val_of_datum d) (val_of_datum d).
  Proof. induction d; cbn [val_of_datum]; constructor; assumption. Qed.

  Definition simP (n : nat) : Prop :=
    forall e e', crel e e' -> forall s s' ρ ρ' r s1,
      srel s s' -> envrel (fv e') ρ ρ' -> eval n s ρ e = Some (r, s1) ->
      exists r' s1', eval n s' ρ' e' = Some (r', s1') /\ rrel r r' /\ srel s1 s1'.

  Definition simsP (n : nat) : Prop :=
    forall l l', crels l l' -> forall s s' ρ ρ' r s1,
      srel s s' -> envrel (fvs l') ρ ρ' -> evals n s ρ l = Some (r, s1) ->
      exists r' s1', evals n s' ρ' l' = Some (r', s1') /\ rsrel r r' /\ srel s1 s1'.

  Lemma sims_from n : simP n -> simsP n.
  Proof.
    intros H l l' Hl. induction Hl as [|e e' l l' He Hl IH]; intros s s' ρ ρ' r s1 Hs Hρ E.
    - rewrite evals_Nil in *. inversion E; subst. do 2 eexists. split; [reflexivity|]. split; [repeat constructor|exact Hs].
    - rewrite evals_Cons in *. cbn [fvs] in Hρ.
      destruct (eval n s ρ e) as [[[v|] s2]|] eqn:Ee; try discriminate.
      + destruct (H _ _ He _ _ _ _ _ _ Hs (envrel_app_l _ _ _ _ Hρ) Ee) as (r' & s2' & Ee' & Hr & Hs2).
        rewrite Ee'. inversion Hr; subst.
        destruct (evals n s2 ρ l) as [[[x|vs] s3]|] eqn:El; try discriminate; inversion E; subst;
          destruct (IH _ _ _ _ _ _ Hs2 (envrel_app_r _ _ _ _ Hρ) El) as (rs' & s3' & El' & Hrs & Hs3);
          rewrite El'; inversion Hrs; subst; do 2 eexists; (split; [reflexivity|]); split; try exact Hs3.
        * constructor; assumption.
        * constructor. constructor; assumption.
      + destruct (H _ _ He _ _ _ _ _ _ Hs (envrel_app_l _ _ _ _ Hρ) Ee) as (r' & s2' & Ee' & Hr & Hs2).
        rewrite Ee'. inversion Hr; subst. inversion E; subst.
        do 2 eexists. split; [reflexivity|]. split; [repeat constructor|exact Hs2].
  Qed.

  Theorem crel_sim : forall n, simP n.
  Proof.
    induction n as [N IHN] using lt_wf_ind.
    intros e e' H. induction H; intros s s' ρ ρ' r0 s1 Hs Hρ E.
    - (* a rule at the root, then more *)
      eapply IHcrel; [exact Hs|exact Hρ|]. eapply R_sound; eassumption.
    - (* the children first, then a rule at the root *)
      destruct (IHcrel s s' ρ ρ' r0 s1 Hs) as (r' & s1' & E' & Hr & Hs1); [|exact E|].
      { intros x Hx. apply Hρ. apply (proj2 (Q_fv _ _ H0)). exact Hx. }
      exists r', s1'. split; [|split; assumption]. eapply Q_sound; eassumption.
    - destruct N; [rewrite eval_O in E; discriminate|]. rewrite eval_Num in *. inversion E; subst.
      do 2 eexists. split; [reflexivity|]. split; [repeat constructor|exact Hs].
    - destruct N; [rewrite eval_O in E; discriminate|]. rewrite eval_Bool in *. inversion E; subst.
      do 2 eexists. split; [reflexivity|]. split; [repeat constructor|exact Hs].
    - destruct N; [rewrite eval_O in E; discriminate|]. rewrite eval_Quote in *. inversion E; subst.
      do 2 eexists. split; [reflexivity|]. split; [|exact Hs]. constructor.
      apply datum_rel.
    - destruct N; [rewrite eval_O in E; discriminate|]. rewrite eval_Loc in *.
      specialize (Hρ x (or_introl eq_refl)).
      destruct Hρ as [|v v' Hv]; inversion E; subst; do 2 eexists; (split; [reflexivity|]); split;
        try exact Hs; constructor; assumption.
    - destruct N; [rewrite eval_O in E; discriminate|]. rewrite eval_Glob in *.
      destruct Hs as [HG HO]. pose proof (HG g) as Hg.
      destruct Hg as [|v v' Hv]; inversion E; subst; do 2 eexists; (split; [reflexivity|]); split;
        try (split; assumption); constructor; assumption.
    - (* Lam *)
      destruct N; [rewrite eval_O in E; discriminate|]. rewrite eval_Lam in *. inversion E; subst.
      do 2 eexists. split; [reflexivity|]. split; [|exact Hs]. constructor. constructor; [exact H|].
      intros x Hx. rewrite !lookup_capture.
      assert (Hx' : In x (fv (Lam ps r b))).
      { apply (crel_fv (Lam ps r b) (Lam ps r b')); [constructor; exact H|exact Hx]. }
      apply mem_In in Hx. apply mem_In in Hx'. cbn [fv] in *. rewrite Hx, Hx'. apply Hρ. apply mem_In. exact Hx.
    - (* Call *)
      destruct N as [|n]; [rewrite eval_O in E; discriminate|]. rewrite eval_Call in *. cbn [fv] in Hρ.
      assert (Sn : simP n) by (apply IHN; lia).
      assert (Sp : simsP (Nat.pred n)) by (apply sims_from, IHN; lia).
      destruct (evals (Nat.pred n) s ρ a) as [[[x|vs] s2]|] eqn:Ea; try discriminate;
        destruct (Sp _ _ H0 _ _ _ _ _ _ Hs (envrel_app_l _ _ _ _ Hρ) Ea) as (rs' & s2' & Ea' & Hrs & Hs2);
        rewrite Ea'; inversion Hrs; subst.
      { inversion E; subst. do 2 eexists. split; [reflexivity|]. split; assumption. }
      destruct (eval n s2 ρ f) as [[[v|] s3]|] eqn:Ef; try discriminate;
        destruct (Sn _ _ H _ _ _ _ _ _ Hs2 (envrel_app_r _ _ _ _ Hρ) Ef) as (r' & s3' & Ef' & Hr & Hs3);
        rewrite Ef'; inversion Hr; subst.
      2:{ inversion E; subst. do 2 eexists. split; [reflexivity|]. split; [constructor|exact Hs3]. }
      match goal with Hv : vrel v _ |- _ => inversion Hv; subst end;
        try (inversion E; subst; do 2 eexists; (split; [reflexivity|]); split; [constructor|exact Hs3]).
      match goal with
      | HF : Forall2 vrel ?vs ?vs', Hb : crel ?b ?b',
        Hc : (forall x, In x (fv (Lam ?ps ?rest ?b')) -> orel vrel (lookup x ?ρ0) (lookup x ?ρc')) |- _ =>
        destruct (bind_params ps rest vs ρ0) as [ρ1|] eqn:B;
        [ destruct (bind_params_rel ps rest vs vs' ρ0 ρc' ρ1 (fv b') HF) as (ρ1' & B' & A);
          [ intros x Hx Hn; apply Hc; cbn [fv]; apply filter_In; split; [exact Hx|];
            apply mem_false in Hn; rewrite Hn; reflexivity
          | exact B
          | rewrite B'; eapply Sn; eassumption ]
        | rewrite (bind_params_none_rel _ _ _ _ _ ρc' HF B); inversion E; subst;
          do 2 eexists; split; [reflexivity|]; split; [constructor|exact Hs3] ]
      end.
    - (* If *)
      destruct N as [|n]; [rewrite eval_O in E; discriminate|]. rewrite eval_If in *. cbn [fv] in Hρ.
      assert (Sn : simP n) by (apply IHN; lia).
      destruct (eval n s ρ c) as [[[v|] s2]|] eqn:Ec; try discriminate;
        destruct (Sn _ _ H _ _ _ _ _ _ Hs (envrel_app_l _ _ _ _ Hρ) Ec) as (r' & s2' & Ec' & Hr & Hs2);
        rewrite Ec'; inversion Hr; subst.
      2:{ inversion E; subst. do 2 eexists. split; [reflexivity|]. split; [constructor|exact Hs2]. }
      match goal with Hv : vrel v _ |- _ => rewrite <- (truthy_rel _ _ Hv) end.
      destruct (truthy v).
      + eapply Sn; try eassumption. eapply envrel_app_l, envrel_app_r; exact Hρ.
      + eapply Sn; try eassumption. eapply envrel_app_r, envrel_app_r; exact Hρ.
    - (* Let *)
      destruct N as [|n]; [rewrite eval_O in E; discriminate|]. rewrite eval_Let in *. cbn [fv] in Hρ.
      assert (Sn : simP n) by (apply IHN; lia).
      assert (Ss : simsP n) by (apply sims_from, Sn).
      destruct (evals n s ρ r) as [[[x|vs] s2]|] eqn:Ea; try discriminate;
        destruct (Ss _ _ H _ _ _ _ _ _ Hs (envrel_app_l _ _ _ _ Hρ) Ea) as (rs' & s2' & Ea' & Hrs & Hs2);
        rewrite Ea'; inversion Hrs; subst.
      { inversion E; subst. do 2 eexists. split; [reflexivity|]. split; assumption. }
      match goal with
      | HF : Forall2 vrel ?vs ?vs' |- _ =>
        destruct (bind_fixed xs vs ρ) as [ρ1|] eqn:B;
        [ destruct (bind_fixed_rel xs vs vs' ρ ρ' ρ1 (fv b') HF) as (ρ1' & B' & A);
          [ intros x Hx Hn; apply (envrel_app_r _ _ _ _ Hρ); apply filter_In; split; [exact Hx|];
            apply mem_false in Hn; rewrite Hn; reflexivity
          | exact B
          | rewrite B'; eapply Sn; eassumption ]
        | rewrite (bind_fixed_none_rel _ _ _ _ ρ' HF B); inversion E; subst;
          do 2 eexists; split; [reflexivity|]; split; [constructor|exact Hs2] ]
      end.
    - (* Begin *)
      destruct N as [|n]; [rewrite eval_O in E; discriminate|]. rewrite eval_Begin in *. cbn [fv] in Hρ.
      assert (Ss : simsP n) by (apply sims_from, IHN; lia).
      destruct (evals n s ρ es) as [[[x|vs] s2]|] eqn:Ea; try discriminate;
        destruct (Ss _ _ H _ _ _ _ _ _ Hs Hρ Ea) as (rs' & s2' & Ea' & Hrs & Hs2);
        rewrite Ea'; inversion Hrs; subst; inversion E; subst; do 2 eexists; (split; [reflexivity|]); split;
        try assumption.
      constructor. apply last_val_rel. assumption.
    - (* Prim *)
      destruct N as [|n]; [rewrite eval_O in E; discriminate|]. rewrite eval_Prim in *. cbn [fv] in Hρ.
      assert (Ss : simsP n) by (apply sims_from, IHN; lia).
      destruct (evals n s ρ a) as [[[x|vs] s2]|] eqn:Ea; try discriminate;
        destruct (Ss _ _ H _ _ _ _ _ _ Hs Hρ Ea) as (rs' & s2' & Ea' & Hrs & Hs2);
        rewrite Ea'; inversion Hrs; subst; inversion E; subst.
      { do 2 eexists. split; [reflexivity|]. split; assumption. }
      match goal with
      | HF : Forall2 vrel ?vs ?vs' |- _ =>
        destruct (apply_prim_rel op vs vs' s2 s2' HF Hs2) as [P1 P2];
        destruct (apply_prim op vs s2) as [pr ps_]; destruct (apply_prim op vs' s2') as [pr' ps_']
      end.
      match goal with HH : (_, _) = (r0, s1) |- _ => inversion HH; subst end.
      do 2 eexists. split; [reflexivity|]. split; assumption.
    - (* SetG *)
      destruct N as [|n]; [rewrite eval_O in E; discriminate|]. rewrite eval_SetG in *. cbn [fv] in Hρ.
      assert (Sn : simP n) by (apply IHN; lia).
      destruct (eval n s ρ e) as [[[v|] s2]|] eqn:Ec; try discriminate;
        destruct (Sn _ _ H _ _ _ _ _ _ Hs Hρ Ec) as (r' & s2' & Ec' & Hr & Hs2);
        rewrite Ec'; inversion Hr; subst.
      2:{ inversion E; subst. do 2 eexists. split; [reflexivity|]. split; [constructor|exact Hs2]. }
      destruct Hs2 as [HG HO]. pose proof (HG g) as Hg.
      cbv beta iota.
      destruct (lookup g (fst s2)) as [w|] eqn:L1; destruct (lookup g (fst s2')) as [w'|] eqn:L2;
        inversion Hg; subst; inversion E; subst.
      2:{ do 2 eexists. split; [reflexivity|]. split; [constructor|split; assumption]. }
      + do 2 eexists. split; [reflexivity|]. split; [repeat constructor|].
        split; cbn [fst snd]; [apply grel_update; assumption|exact HO].
  Qed.
End Compat.
