(* C01, assignment layer with in-place assignment of un-captured locals (SETLOCAL) — forward simulation
   between CoreL.leval (environment threaded: [LSetL] overwrites a binding) and the compiled bytecode on
   the heap VM.  Same structure as Proofs_C01_set.v; in addition the frame's variable slots evolve with
   the environment, temporaries are untouched ([frame_ok]). *)
From Coq Require Import String.
From Coq Require Import ZArith List Bool Lia Arith.
From SV Require Import lib.Core lib.CoreS lib.CoreL lib.Bytecode lib.BytecodeS lib.BytecodeL c01.Proofs_C01.
Import ListNotations.
Open Scope list_scope.

Lemma s_unsnoc_app : forall A (l : list A) x, S.unsnoc (l ++ [x]) = Some (l, x).
Proof. induction l; intros; simpl; auto. rewrite IHl. auto. Qed.

Lemma lfv_app_eq : forall x f args, L.lfv x (LApp f args) = L.lfv_list x args || L.lfv x f.
Proof. intros. simpl. f_equal. induction args; simpl; auto. rewrite IHargs. auto. Qed.

Lemma lfv_let_eq : forall x bs body,
  L.lfv x (LLet bs body) = L.lfv_list x (map snd bs) || (negb (memb x (map fst bs)) && L.lfv x body).
Proof. intros. simpl. f_equal. induction bs as [|[y a] bs]; simpl; auto. rewrite IHbs. auto. Qed.

Lemma Forall2_nth : forall A B (R : A -> B -> Prop) l1 l2, Forall2 R l1 l2 -> forall a,
  match nth_error l1 a, nth_error l2 a with
  | Some x, Some y => R x y
  | None, None => True
  | _, _ => False
  end.
Proof. induction 1; intros [|a]; simpl; auto. apply IHForall2. Qed.

Lemma Forall2_update : forall (R : lval -> S.mval -> Prop) l1 l2, Forall2 R l1 l2 -> forall a v mv, R v mv ->
  Forall2 R (lupdate a v l1) (S.mupdate a mv l2).
Proof. induction 1; intros [|a] v mv Hv; simpl; constructor; auto. Qed.


Lemma lookup_env_set_same : forall x v (r : lenv) old, Core.lookup x r = Some old -> Core.lookup x (env_set x v r) = Some v.
Proof.
  induction r as [|[y w] r IH]; simpl; intros; [discriminate|].
  destruct (String.eqb x y) eqn:E; simpl; rewrite E; eauto.
Qed.

Lemma lookup_env_set_other : forall x y v (r : lenv), String.eqb y x = false -> Core.lookup y (env_set x v r) = Core.lookup y r.
Proof.
  induction r as [|[z w] r IH]; simpl; intros; auto.
  destruct (String.eqb x z) eqn:E; simpl.
  - apply String.eqb_eq in E; subst. rewrite H. auto.
  - destruct (String.eqb y z); auto.
Qed.

Lemma env_set_keys : forall x v (r : lenv), map fst (env_set x v r) = map fst r.
Proof. induction r as [|[z w] r IH]; simpl; auto. destruct (String.eqb x z); simpl; f_equal; auto. Qed.

Lemma set_nth_length : forall A i (v : A) l, length (S.set_nth i v l) = length l.
Proof. induction i; destruct l; simpl; auto. Qed.

Lemma set_nth_same : forall A i (v : A) l, i < length l -> nth_error (S.set_nth i v l) i = Some v.
Proof. induction i; destruct l; simpl; intros; try lia; auto. apply IHi. lia. Qed.

Lemma set_nth_other : forall A i j (v : A) l, i <> j -> nth_error (S.set_nth i v l) j = nth_error l j.
Proof. induction i; destruct l, j; simpl; intros; auto; try congruence. Qed.

Lemma set_nth_app : forall A i (v : A) a b, i < length a -> S.set_nth i v (a ++ b) = S.set_nth i v a ++ b.
Proof. induction i; destruct a; simpl; intros; try lia; auto. f_equal. apply IHi. lia. Qed.

Lemma set_nth_app2 : forall A i (v : A) a b, S.set_nth (length a + i) v (a ++ b) = a ++ S.set_nth i v b.
Proof. induction a; simpl; intros; auto. f_equal. auto. Qed.

Lemma lookup_keys : forall A B x (l1 : list (ident * A)) (l2 : list (ident * B)), map fst l1 = map fst l2 ->
  (Core.lookup x l1 = None <-> Core.lookup x l2 = None).
Proof.
  induction l1 as [|[y a] l1 IH]; destruct l2 as [|[z b] l2]; simpl; intros; try discriminate; try tauto.
  inversion H; subst. destruct (String.eqb x z); [split; discriminate|auto].
Qed.

Lemma bind_keys : forall A xs (vs : list A) r, length xs = length vs -> map fst (bind xs vs r) = rev xs ++ map fst r.
Proof.
  induction xs; destruct vs; simpl; intros; try discriminate; auto.
  rewrite IHxs by lia. simpl. rewrite <- app_assoc. auto.
Qed.

Lemma lookup_skip_keys : forall A x n (r : list (ident * A)), ~ In x (firstn n (map fst r)) ->
  Core.lookup x (skipn n r) = Core.lookup x r.
Proof.
  induction n; intros; simpl; auto. destruct r as [|[y a] r]; simpl; auto.
  simpl in H. destruct (String.eqb x y) eqn:E.
  - apply String.eqb_eq in E. subst. tauto.
  - apply IHn. tauto.
Qed.

(* evaluation never changes the SHAPE of the environment: same names, same order *)
Lemma levals_keys_gen : forall (ev : lenv -> lexpr -> lstate -> option lresult),
  (forall r e st v r' st', ev r e st = Some (LVal v r' st') -> map fst r' = map fst r) ->
  forall es r st vs r' st', levals ev es r st = Some (inl (vs, r', st')) -> map fst r' = map fst r /\ length vs = length es.
Proof.
  intros ev Hev. induction es; simpl; intros r st vs r' st' H.
  - inversion H; auto.
  - destruct (ev r a st) as [[v r1 st1|k]|] eqn:E; try discriminate.
    destruct (levals ev es r1 st1) as [[[[vs2 r2] st2]|k]|] eqn:E2; try discriminate.
    inversion H; subst. destruct (IHes _ _ _ _ _ E2) as [A B]. split; [|simpl; lia].
    rewrite A. eapply Hev; eauto.
Qed.

Lemma leval_keys : forall n r e st v r' st', leval n r e st = Some (LVal v r' st') -> map fst r' = map fst r.
Proof.
  induction n as [|n IH]; intros r e st v r' st' H; [discriminate|].
  destruct e; simpl in H.
  - inversion H; auto.
  - destruct (Core.lookup x r); [inversion H; auto|]. destruct (Core.lookup x (l_glob st)); inversion H; auto.
  - inversion H; auto.
  - destruct (levals (leval n) args r st) as [[[[vs r1] st1]|k]|] eqn:E; try discriminate.
    destruct (levals_keys_gen (leval n) IH _ _ _ _ _ _ E) as [K1 _].
    destruct (leval n r1 e st1) as [[fv r2 st2|k]|] eqn:E2; try discriminate.
    apply IH in E2. rewrite <- K1, <- E2.
    destruct fv; try discriminate.
    + destruct (lprim_apply p vs st2); inversion H; auto.
    + destruct (lcall_args ps rest vs) as [[xs ws]|]; try discriminate.
      destruct (leval n (bind xs ws env) body st2) as [[v3 r3 st3|k]|]; inversion H; auto.
  - destruct (leval n r e1 st) as [[vc r1 st1|k]|] eqn:E; try discriminate.
    apply IH in E. rewrite <- E. destruct (atom_truthy (lval_atom vc)); eapply IH; eauto.
  - destruct (levals (leval n) (map snd bs) r st) as [[[[vs r1] st1]|k]|] eqn:E; try discriminate.
    destruct (levals_keys_gen (leval n) IH _ _ _ _ _ _ E) as [K1 L1]. rewrite map_length in L1.
    destruct (leval n (bind (map fst bs) vs r1) e st1) as [[v2 r2 st2|k]|] eqn:E2; try discriminate.
    apply IH in E2. inversion H; subst. rewrite <- K1.
    rewrite <- skipn_map. rewrite E2. rewrite bind_keys by (rewrite map_length; lia).
    replace (length bs) with (length (rev (map fst bs))) by (rewrite rev_length, map_length; auto).
    apply skipn_app_exact.
  - destruct (leval n r e1 st) as [[v1 r1 st1|k]|] eqn:E; try discriminate.
    apply IH in E. rewrite <- E. eapply IH; eauto.
  - destruct (leval n r e st) as [[v1 r1 st1|k]|] eqn:E; try discriminate. apply IH in E.
    destruct (Core.lookup g (l_glob st1)); inversion H; subst; auto.
  - destruct (leval n r e st) as [[v1 r1 st1|k]|] eqn:E; try discriminate. apply IH in E.
    destruct (Core.lookup x r1); inversion H; subst. rewrite env_set_keys. auto.
Qed.

Lemma wf_app_eq : forall ce d f args, L.wf ce d (LApp f args) = L.wf_list ce d args && L.wf ce (d + length args) f.
Proof. intros. simpl. f_equal. revert d. induction args; simpl; intros; auto. rewrite IHargs. auto. Qed.

Lemma wf_let_eq : forall ce d bs body, L.wf ce d (LLet bs body) =
  L.wf_list ce d (map snd bs) && L.disjointb (map fst bs) ce && L.wf (bind_slots (map fst bs) d ce) (d + length bs) body.
Proof.
  intros. simpl. f_equal. f_equal. revert d. induction bs as [|[y a] bs]; simpl; intros; auto. rewrite IHbs. auto.
Qed.

Section SimS.
  Variable limit : nat.
  Variable tco : bool.
  Notation star := (S.star limit).
  Notation vm_step := (S.vm_step limit).

  Lemma compile_app_eq : forall ce d tail f args,
    L.compile tco ce d tail (LApp f args) =
    L.compile_list tco ce d args ++ L.compile tco ce (d + length args) false f
      ++ [if tail then TAILCALL (length args) else FUNC (length args)].
  Proof.
    intros. simpl. f_equal. revert d. induction args; simpl; intros; auto. rewrite IHargs. auto.
  Qed.

  Lemma compile_let_eq : forall ce d tail bs body,
    L.compile tco ce d tail (LLet bs body) =
    BEGINSCOPE :: L.compile_list tco ce d (map snd bs)
      ++ L.compile tco (bind_slots (map fst bs) d ce) (d + length bs) tail body ++ [LETENDSCOPE d].
  Proof.
    intros. simpl. f_equal. f_equal. revert d. induction bs as [|[y a] bs]; simpl; intros; auto.
    rewrite IHbs. auto.
  Qed.

  (* ---------------------------------------------------------------- relations *)
  Inductive vrel : lval -> S.mval -> Prop :=
  | vr_int : forall z, vrel (LVInt z) (S.MInt z)
  | vr_bool : forall b, vrel (LVBool b) (S.MBool b)
  | vr_void : vrel LVVoid S.MVoid
  | vr_prim : forall p, vrel (LVPrim p) (S.MPrim p)
  | vr_clo : forall ps rest body r fvs caps,
      (forall j x, nth_error fvs j = Some x ->
         exists v mv, Core.lookup x r = Some v /\ nth_error caps j = Some mv /\ vrel v mv) ->
      (forall x, L.lfv x body = true -> memb x (params ps rest) = false -> ~ In x fvs -> Core.lookup x r = None) ->
      L.wf (body_cenv (params ps rest) fvs) (length (params ps rest)) body = true ->
      vrel (LVClo ps rest body r)
           (S.MClo (length (params ps rest)) (rest_flag rest)
                   (L.compile tco (body_cenv (params ps rest) fvs) (length (params ps rest)) tco body ++ [POPPURE]) caps)
  | vr_list : forall vs mvs, Forall2 vrel vs mvs -> vrel (LVList vs) (S.MList mvs)
  | vr_box : forall a, vrel (LVBox a) (S.MBox a).         (* same address on both sides *)

  Definition fetch (l : loc) (slots caps : list S.mval) : option S.mval :=
    match l with Slot i => nth_error slots i | Cap j => nth_error caps j end.

  Definition R1 (r : lenv) (ce : cenv) (slots caps : list S.mval) : Prop :=
    forall x l, Core.lookup x ce = Some l ->
      exists v mv, Core.lookup x r = Some v /\ fetch l slots caps = Some mv /\ vrel v mv.

  Definition R2 (e : lexpr) (r : lenv) (ce : cenv) : Prop :=
    forall x, L.lfv x e = true -> Core.lookup x ce = None -> Core.lookup x r = None.

  Definition R2l (es : list lexpr) (r : lenv) (ce : cenv) : Prop :=
    forall x, L.lfv_list x es = true -> Core.lookup x ce = None -> Core.lookup x r = None.

  Definition Grel (G : lenv) (MG : list (ident * S.mval)) : Prop :=
    forall g, match Core.lookup g G, Core.lookup g MG with
              | Some v, Some mv => vrel v mv
              | None, None => True
              | _, _ => False
              end.

  (* the box store and the VM heap: pointwise related, hence of the same length *)
  Definition Srel (st : list lval) (H : list S.mval) : Prop := Forall2 vrel st H.

  Definition frame_caps (fs : list S.frame) (caps : list S.mval) : Prop :=
    match fs with
    | f :: _ => exists a rs b, S.f_fn f = S.MClo a rs b caps
    | [] => caps = []
    end.

  Lemma R1_more_slots : forall r ce slots caps extra, R1 r ce slots caps -> R1 r ce (slots ++ extra) caps.
  Proof.
    intros r ce slots caps extra H x l Hl. destruct (H x l Hl) as (v & mv & A & B & C).
    exists v, mv. split; auto. split; auto. destruct l; simpl in *; auto.
    rewrite nth_error_app1; auto. apply nth_error_Some. congruence.
  Qed.

  Lemma R1_bind_one : forall r ce slots caps x v mv, R1 r ce slots caps -> vrel v mv ->
    R1 ((x, v) :: r) ((x, Slot (length slots)) :: ce) (slots ++ [mv]) caps.
  Proof.
    intros r ce slots caps x v mv H Hv y l Hl. simpl in *.
    destruct (String.eqb y x) eqn:E.
    - inversion Hl; subst. exists v, mv. split; auto. split; auto. simpl.
      replace (length slots) with (length slots + 0) by lia. rewrite nth_error_app_plus. auto.
    - apply (R1_more_slots _ _ _ _ [mv]) in H. apply H; auto.
  Qed.

  Lemma R1_bind : forall xs vs mvs r ce slots caps, R1 r ce slots caps -> Forall2 vrel vs mvs ->
    length xs = length vs ->
    R1 (bind xs vs r) (bind_slots xs (length slots) ce) (slots ++ mvs) caps.
  Proof.
    induction xs; intros vs mvs r ce slots caps H HF HL; simpl.
    - destruct vs; apply R1_more_slots; auto.
    - destruct vs as [|v vs]; [simpl in HL; discriminate|]. inversion HF; subst.
      replace (slots ++ y :: l') with ((slots ++ [y]) ++ l') by (rewrite <- app_assoc; auto).
      replace (S (length slots)) with (length (slots ++ [y])) by (rewrite app_length; simpl; lia).
      apply IHxs; auto. apply R1_bind_one; auto.
  Qed.

  Lemma vrel_atom : forall v mv, vrel v mv -> lval_atom v = S.mval_atom mv.
  Proof. destruct 1; simpl; auto. Qed.

  Lemma vrel_atoms : forall vs mvs, Forall2 vrel vs mvs -> map lval_atom vs = map S.mval_atom mvs.
  Proof. induction 1; simpl; auto. f_equal; auto. apply vrel_atom; auto. Qed.

  Lemma vrel_of_atom : forall a, vrel (atom_lval a) (S.atom_mval a).
  Proof. destruct a; simpl; constructor. Qed.

  Lemma vrel_truthy : forall v mv, vrel v mv -> atom_truthy (lval_atom v) = S.mtruthy mv.
  Proof. intros. unfold S.mtruthy. erewrite vrel_atom; eauto. Qed.

  Lemma vrel_const : forall c, vrel (lconst c) (S.const_mval c).
  Proof. destruct c; simpl; constructor. Qed.

  (* primitives, the box primitives included: related operands and related store/heap give related
     results and related store/heap; globals untouched *)
  Lemma mprim_rel : forall p vs mvs st G Hh, Forall2 vrel vs mvs -> Srel st Hh ->
    match lprim_apply p vs (mkL st G) with
    | PVal v st' => exists mv H', S.mprim_apply p mvs Hh = inl (mv, H') /\ vrel v mv /\
                                  Srel (l_store st') H' /\ l_glob st' = G
    | PErr k => S.mprim_apply p mvs Hh = inr k
    end.
  Proof.
    intros p vs mvs st G Hh HF HS. destruct p; simpl.
    - rewrite (vrel_atoms _ _ HF). destruct (prim_sem p (map S.mval_atom mvs)); auto.
      simpl. eexists. eexists. split; [reflexivity|]. split; [apply vrel_of_atom|]. auto.
    - inversion HF as [|v mv vs' mvs' Hv HF']; subst; auto.
      inversion HF'; subst; auto. simpl.
      eexists. eexists. split; [reflexivity|].
      rewrite (Forall2_len _ _ _ _ _ HS). split; [constructor|]. split; auto.
      apply Forall2_app2; auto.
    - inversion HF as [|v mv vs' mvs' Hv HF']; subst; auto.
      inversion Hv; subst; inversion HF'; subst; simpl; auto.
      pose proof (Forall2_nth _ _ _ _ _ HS a) as Hn.
      destruct (nth_error st a), (nth_error Hh a); try tauto.
      simpl. eexists. eexists. split; [reflexivity|]. auto.
    - inversion HF as [|v mv vs' mvs' Hv HF']; subst; auto.
      inversion HF' as [|v2 mv2 vs2 mvs2 Hv2 HF2]; subst.
      { inversion Hv; subst; simpl; auto. }
      inversion Hv; subst; inversion HF2; subst; simpl; auto.
      pose proof (Forall2_nth _ _ _ _ _ HS a) as Hn.
      destruct (nth_error st a), (nth_error Hh a); try tauto.
      simpl. eexists. eexists. split; [reflexivity|]. split; auto. split; auto.
      apply Forall2_update; auto.
  Qed.

  (* ---------------------------------------------------------------- the return sequence *)
  Lemma run_return : forall C pc d, returns_from C pc d ->
    forall below slots mv f fs' MG H, length below = S.f_sp f -> length slots = d ->
    star (S.mkVM C pc (below ++ slots ++ [mv]) (f :: fs') MG H)
         (S.mkVM (S.f_ret_code f) (S.f_ret_ip f) (below ++ [mv]) fs' MG H).
  Proof.
    induction 1; intros below slots mv f fs' MG Hh Hb Hs.
    - apply S.star_one. unfold S.vm_step. simpl. rewrite H.
      rewrite app_assoc, s_unsnoc_app. unfold S.do_return. simpl.
      rewrite app_length, <- Hb.
      replace (Nat.leb (length below) (length below + length slots)) with true
        by (symmetry; apply Nat.leb_le; lia).
      rewrite firstn_app_exact. auto.
    - eapply S.star_step; [|apply IHreturns_from; eauto].
      unfold S.vm_step. simpl. rewrite H. auto.
    - eapply S.star_step; [|apply (IHreturns_from below (firstn m slots) mv f fs'); auto].
      + unfold S.vm_step. simpl. rewrite H.
        rewrite app_assoc, s_unsnoc_app. rewrite app_length, <- Hb.
        replace (Nat.leb (length below + m) (length below + length slots)) with true
          by (symmetry; apply Nat.leb_le; lia).
        unfold S.next_with. simpl. rewrite firstn_app_more. rewrite <- app_assoc. auto.
      + rewrite firstn_length. lia.
  Qed.

  Definition fall_state (C : list instr) (pc' : nat) (below slots : list S.mval) (fs : list S.frame)
             (mv : S.mval) MG H :=
    S.mkVM C pc' (below ++ slots ++ [mv]) fs MG H.

  Definition ret_state (f : S.frame) (below : list S.mval) (fs' : list S.frame) (mv : S.mval) MG H :=
    S.mkVM (S.f_ret_code f) (S.f_ret_ip f) (below ++ [mv]) fs' MG H.

  Definition outcome (tail : bool) (s : S.vmstate) C pc' below slots fs mv MG H : Prop :=
    if tail then exists f fs', fs = f :: fs' /\ star s (ret_state f below fs' mv MG H)
    else star s (fall_state C pc' below slots fs mv MG H).

  Definition tail_ok (tail : bool) (C : list instr) (pc' d : nat) (fs : list S.frame) : Prop :=
    tail = true -> fs <> [] /\ returns_from C pc' d.

  Lemma outcome_of_fall : forall tail s C pc' below slots fs mv MG H,
    star s (fall_state C pc' below slots fs mv MG H) ->
    tail_ok tail C pc' (length slots) fs -> length below = S.cur_sp fs ->
    outcome tail s C pc' below slots fs mv MG H.
  Proof.
    intros tail s C pc' below slots fs mv MG Hh Hs Ht Hb. destruct tail; simpl; auto.
    destruct (Ht eq_refl) as [Hne Hr]. destruct fs as [|f fs']; [congruence|].
    exists f, fs'. split; auto. eapply S.star_trans; eauto.
    eapply run_return; eauto.
  Qed.

  Lemma outcome_to_ret : forall tl s Cb pc' below' slots' f fs' mv MG H,
    outcome tl s Cb pc' below' slots' (f :: fs') mv MG H ->
    returns_from Cb pc' (length slots') -> length below' = S.f_sp f ->
    star s (ret_state f below' fs' mv MG H).
  Proof.
    intros tl s Cb pc' below' slots' f fs' mv MG Hh Ho Hr Hb. destruct tl; simpl in Ho.
    - destruct Ho as (f1 & fs1 & Heq & Hst). inversion Heq; subst. auto.
    - eapply S.star_trans; [exact Ho|]. eapply run_return; eauto.
  Qed.

  (* ---------------------------------------------------------------- closure construction *)
  Lemma fetch_caps_ok : forall r ce below slots caps fs,
    R1 r ce slots caps -> frame_caps fs caps -> length below = S.cur_sp fs ->
    forall l, (forall x, In x l -> In x (map fst ce)) ->
    exists caps', S.fetch_caps (below ++ slots) fs (map (capsrc_of ce) l) = Some caps' /\
      forall j x, nth_error l j = Some x ->
        exists v mv, Core.lookup x r = Some v /\ nth_error caps' j = Some mv /\ vrel v mv.
  Proof.
    intros r ce below slots caps fs HR1 Hfc Hb. induction l as [|x l IH]; intros Hin.
    - exists []. split; auto. intros [|j] y Hy; discriminate.
    - destruct IH as (caps' & Hf & Hall). { intros; apply Hin; simpl; auto. }
      destruct (lookup_in_fst _ x ce (Hin x (or_introl eq_refl))) as [lc Hlc].
      destruct (HR1 x lc Hlc) as (v & mv & Hv & Hfetch & Hrel).
      exists (mv :: caps'). split.
      + simpl. rewrite Hf. unfold capsrc_of. rewrite Hlc. destruct lc; simpl in *.
        * rewrite <- Hb, nth_error_app_plus, Hfetch. auto.
        * destruct fs as [|f fs0]; simpl in Hfc.
          -- subst caps. destruct n; discriminate.
          -- destruct Hfc as (a & rs & b & ->). rewrite Hfetch. auto.
      + intros [|j] y Hy; simpl in *.
        * inversion Hy; subst. eauto.
        * eauto.
  Qed.

  Lemma captured_in : forall ce ps body x, In x (L.lcaptured ce ps body) -> In x (map fst ce).
  Proof. unfold L.lcaptured. intros. apply filter_In in H. destruct H as [H _]. apply in_rev; auto. Qed.

  Lemma captured_complete : forall ce ps body x, L.lfv x body = true -> memb x ps = false ->
    In x (map fst ce) -> In x (L.lcaptured ce ps body).
  Proof.
    unfold L.lcaptured. intros. apply filter_In. split. apply in_rev. rewrite rev_involutive; auto.
    rewrite H, H0. auto.
  Qed.

  (* ---------------------------------------------------------------- call steps *)
  Lemma call_step_notproc : forall tail C pcC st mf n fs MG H,
    nth_error C pcC = Some (call_instr tail n) ->
    match mf with S.MClo _ _ _ _ | S.MPrim _ => False | _ => True end ->
    vm_step (S.mkVM C pcC (st ++ [mf]) fs MG H) = S.SErr ENotProc.
  Proof.
    intros. unfold S.vm_step. simpl. rewrite H0. unfold call_instr.
    destruct tail; rewrite s_unsnoc_app; destruct mf; simpl in *; tauto.
  Qed.

  Lemma call_step_prim : forall tail C pcC st0 mvs p fs MG H,
    nth_error C pcC = Some (call_instr tail (length mvs)) ->
    vm_step (S.mkVM C pcC ((st0 ++ mvs) ++ [S.MPrim p]) fs MG H) =
    match S.mprim_apply p mvs H with
    | inl (v, H') => S.SNext (S.mkVM C (S pcC) (st0 ++ [v]) fs MG H')
    | inr k => S.SErr k
    end.
  Proof.
    intros. unfold S.vm_step. simpl. rewrite H0. unfold call_instr.
    destruct tail; rewrite s_unsnoc_app; simpl; unfold S.call_prim; simpl;
      (replace (Nat.leb (length mvs) (length (st0 ++ mvs))) with true
         by (symmetry; apply Nat.leb_le; rewrite app_length; lia));
      rewrite skipn_len_app, firstn_len_app; destruct (S.mprim_apply p mvs H) as [[v h]|k]; auto.
  Qed.

  Lemma call_step_arity : forall tail C pcC st arity rest body caps n fs MG H,
    nth_error C pcC = Some (call_instr tail n) -> S.adjust_arity arity rest n st = inr EArity ->
    vm_step (S.mkVM C pcC (st ++ [S.MClo arity rest body caps]) fs MG H) = S.SErr EArity.
  Proof.
    intros. unfold S.vm_step. simpl. rewrite H0. unfold call_instr.
    destruct tail; rewrite s_unsnoc_app; simpl; rewrite H1; auto.
  Qed.

  Lemma call_step_func : forall C pcC st0 mvs mws n arity rest body caps fs MG H,
    nth_error C pcC = Some (FUNC n) ->
    S.adjust_arity arity rest n (st0 ++ mvs) = inl (Some (st0 ++ mws)) -> arity = length mws ->
    S (length fs) < limit ->
    vm_step (S.mkVM C pcC ((st0 ++ mvs) ++ [S.MClo arity rest body caps]) fs MG H) =
    S.SNext (S.mkVM body 0 (st0 ++ mws)
                (S.mkFrame (length st0) (S.MClo arity rest body caps) (S pcC) C :: fs) MG H).
  Proof.
    intros C pcC st0 mvs mws n arity rest body caps fs MG Hh H Hadj -> Hl.
    unfold S.vm_step. simpl. rewrite H. rewrite s_unsnoc_app. simpl. rewrite Hadj.
    replace (Nat.leb (length mws) (length (st0 ++ mws))) with true
      by (symmetry; apply Nat.leb_le; rewrite app_length; lia).
    replace (Nat.leb limit (S (length fs))) with false by (symmetry; apply Nat.leb_gt; lia).
    rewrite app_length. replace (length st0 + length mws - length mws) with (length st0) by lia. auto.
  Qed.

  Lemma call_step_tail : forall C pcC below slots mvs mws n arity rest body caps f0 fs0 MG H,
    nth_error C pcC = Some (TAILCALL n) ->
    S.adjust_arity arity rest n ((below ++ slots) ++ mvs) = inl (Some ((below ++ slots) ++ mws)) ->
    arity = length mws -> length below = S.f_sp f0 ->
    vm_step (S.mkVM C pcC (((below ++ slots) ++ mvs) ++ [S.MClo arity rest body caps]) (f0 :: fs0) MG H) =
    S.SNext (S.mkVM body 0 (below ++ mws)
                (S.mkFrame (S.f_sp f0) (S.MClo arity rest body caps) (S.f_ret_ip f0) (S.f_ret_code f0) :: fs0) MG H).
  Proof.
    intros C pcC below slots mvs mws n arity rest body caps f0 fs0 MG Hh H Hadj -> H0.
    unfold S.vm_step. simpl. rewrite H. rewrite s_unsnoc_app. simpl. rewrite Hadj. simpl.
    replace (Nat.leb (length mws) (length ((below ++ slots) ++ mws))) with true
      by (symmetry; apply Nat.leb_le; rewrite !app_length; lia).
    replace (Nat.leb (S.f_sp f0) (length ((below ++ slots) ++ mws) - length mws)) with true
      by (symmetry; apply Nat.leb_le; rewrite !app_length; lia).
    simpl. rewrite <- H0. rewrite <- app_assoc. rewrite firstn_app_exact.
    rewrite app_assoc. rewrite skipn_len_app. auto.
  Qed.

  Lemma adjust_rest : forall a n st0 mvs, n = length mvs -> 1 <= a -> a - 1 <= n ->
    S.adjust_arity a true n (st0 ++ mvs) =
    inl (Some (st0 ++ firstn (a - 1) mvs ++ [S.MList (skipn (a - 1) mvs)])).
  Proof.
    intros a n st0 mvs -> Ha Hn. cbv beta zeta delta [S.adjust_arity].
    destruct (Nat.ltb (length mvs) (a - 1)) eqn:E1; [apply Nat.ltb_lt in E1; lia|].
    destruct (Nat.leb (1 + length mvs - a) (length (st0 ++ mvs))) eqn:E2.
    2:{ apply Nat.leb_gt in E2. rewrite app_length in E2. lia. }
    replace (length (st0 ++ mvs) - (1 + length mvs - a)) with (length st0 + (a - 1))
      by (rewrite app_length; lia).
    rewrite firstn_app_more, skipn_app_plus, <- app_assoc. reflexivity.
  Qed.

  Lemma adjust_ok : forall ps rest vs xs ws mvs st0,
    lcall_args ps rest vs = Some (xs, ws) -> Forall2 vrel vs mvs ->
    exists mws, S.adjust_arity (length (params ps rest)) (rest_flag rest) (length mvs) (st0 ++ mvs) = inl (Some (st0 ++ mws)) /\
      Forall2 vrel ws mws /\ xs = params ps rest /\ length xs = length ws.
  Proof.
    intros ps rest vs xs ws mvs st0 Hc HF. pose proof (Forall2_len _ _ _ _ _ HF) as Hl.
    unfold lcall_args in Hc. destruct rest as [r|]; cbn [params rest_flag].
    - destruct (Nat.leb (length ps) (length vs)) eqn:E; [|discriminate]. apply Nat.leb_le in E.
      inversion Hc; subst xs ws. clear Hc.
      exists (firstn (length ps) mvs ++ [S.MList (skipn (length ps) mvs)]).
      rewrite adjust_rest; try (rewrite app_length; simpl; lia); auto.
      rewrite app_length. cbn [length]. replace (length ps + 1 - 1) with (length ps) by lia.
      repeat split; auto.
      + apply Forall2_app2. apply Forall2_firstn; auto. constructor; [|constructor].
        constructor. apply Forall2_skipn; auto.
      + rewrite !app_length. rewrite firstn_length. cbn [length]. lia.
    - destruct (Nat.eqb (length ps) (length vs)) eqn:E; [|discriminate]. apply Nat.eqb_eq in E.
      inversion Hc; subst xs ws. exists mvs. unfold S.adjust_arity.
      replace (Nat.eqb (length ps) (length mvs)) with true by (symmetry; apply Nat.eqb_eq; lia).
      auto.
  Qed.

  Lemma adjust_err : forall ps rest vs n st,
    lcall_args ps rest vs = None -> length vs = n ->
    S.adjust_arity (length (params ps rest)) (rest_flag rest) n st = inr EArity.
  Proof.
    intros ps rest vs n st Hc <-. unfold lcall_args in Hc. destruct rest as [r|]; cbn [params rest_flag].
    - destruct (Nat.leb (length ps) (length vs)) eqn:E; [discriminate|]. apply Nat.leb_gt in E.
      cbv beta zeta delta [S.adjust_arity]. rewrite app_length. cbn [length].
      destruct (Nat.ltb (length vs) (length ps + 1 - 1)) eqn:E1; auto. apply Nat.ltb_ge in E1. lia.
    - destruct (Nat.eqb (length ps) (length vs)) eqn:E; [discriminate|]. unfold S.adjust_arity. rewrite E. auto.
  Qed.

  Lemma entry_R1 : forall ps fvs r' caps' vs mvs,
    (forall j x, nth_error fvs j = Some x ->
       exists v mv, Core.lookup x r' = Some v /\ nth_error caps' j = Some mv /\ vrel v mv) ->
    Forall2 vrel vs mvs -> length ps = length vs ->
    R1 (bind ps vs r') (body_cenv ps fvs) mvs caps'.
  Proof.
    intros. unfold body_cenv.
    change mvs with ([] ++ mvs). change 0 with (length (@nil S.mval)).
    apply R1_bind; auto.
    intros x l Hl. unfold caps_cenv in Hl. apply lookup_caps_cenv in Hl. destruct Hl as (j & -> & Hj).
    destruct (H j x Hj) as (v & mv & A & B & Cc). exists v, mv. simpl. auto.
  Qed.

  Lemma entry_R2 : forall ps fvs r' body (vs : list lval),
    (forall x, L.lfv x body = true -> memb x ps = false -> ~ In x fvs -> Core.lookup x r' = None) ->
    R2 body (bind ps vs r') (body_cenv ps fvs).
  Proof.
    intros ps fvs r' body vs H y Hy Hnone. unfold body_cenv in Hnone.
    apply lookup_bind_slots_none in Hnone. destruct Hnone as [Hm Hn].
    rewrite lookup_bind_notin; auto. apply H; auto.
    unfold caps_cenv in Hn. eapply lookup_caps_cenv_none; eauto.
  Qed.


  (* ---------------------------------------------------------------- variable slots vs temporaries *)
  Definition is_slot (ce : cenv) (i : nat) : Prop := exists x, Core.lookup x ce = Some (Slot i).
  Definition frame_ok (ce : cenv) (slots slots' : list S.mval) : Prop :=
    forall i, ~ is_slot ce i -> nth_error slots' i = nth_error slots i.
  Definition ce_lt (ce : cenv) (d : nat) : Prop := forall x i, Core.lookup x ce = Some (Slot i) -> i < d.
  Definition slots_inj (ce : cenv) : Prop :=
    forall x y i, Core.lookup x ce = Some (Slot i) -> Core.lookup y ce = Some (Slot i) -> x = y.

  Lemma frame_ok_refl : forall ce sl, frame_ok ce sl sl.
  Proof. intros ce sl i _. auto. Qed.

  Lemma frame_ok_trans : forall ce a b c, frame_ok ce a b -> frame_ok ce b c -> frame_ok ce a c.
  Proof. intros ce a b c H1 H2 i Hi. rewrite H2, H1; auto. Qed.

  Lemma ce_bind : forall xs d ce, ce_lt ce d -> slots_inj ce ->
    ce_lt (bind_slots xs d ce) (d + length xs) /\ slots_inj (bind_slots xs d ce).
  Proof.
    induction xs as [|x0 xs IH]; intros d ce Hl Hi; simpl.
    - rewrite Nat.add_0_r. auto.
    - replace (d + S (length xs)) with (S d + length xs) by lia. apply IH.
      + intros y i Hy. simpl in Hy. destruct (String.eqb y x0); [inversion Hy; lia|]. apply Hl in Hy. lia.
      + intros y z i Hy Hz. simpl in Hy, Hz.
        destruct (String.eqb y x0) eqn:E1, (String.eqb z x0) eqn:E2.
        * apply String.eqb_eq in E1, E2. congruence.
        * inversion Hy; subst. apply Hl in Hz. lia.
        * inversion Hz; subst. apply Hl in Hy. lia.
        * eapply Hi; eauto.
  Qed.

  Lemma ce_body : forall xs fvs, ce_lt (body_cenv xs fvs) (length xs) /\ slots_inj (body_cenv xs fvs).
  Proof.
    intros. unfold body_cenv. change (length xs) with (0 + length xs). apply ce_bind.
    - intros y i Hy. unfold caps_cenv in Hy. apply lookup_caps_cenv in Hy. destruct Hy as (j & Hj & _). discriminate.
    - intros y z i Hy. unfold caps_cenv in Hy. apply lookup_caps_cenv in Hy. destruct Hy as (j & Hj & _). discriminate.
  Qed.

  Lemma bind_slots_low : forall xs d ce x i, Core.lookup x (bind_slots xs d ce) = Some (Slot i) -> i < d ->
    Core.lookup x ce = Some (Slot i).
  Proof.
    induction xs as [|x0 xs IH]; intros d ce x i H Hi; simpl in H; auto.
    apply IH in H; [|lia]. simpl in H. destruct (String.eqb x x0); auto. inversion H. lia.
  Qed.

  Lemma bind_slots_notin : forall xs d ce x, ~ In x xs -> Core.lookup x (bind_slots xs d ce) = Core.lookup x ce.
  Proof.
    induction xs as [|x0 xs IH]; intros d ce x H; simpl; auto.
    rewrite IH by (simpl in H; tauto). simpl. destruct (String.eqb x x0) eqn:E; auto.
    apply String.eqb_eq in E. subst. simpl in H. tauto.
  Qed.

  Lemma disjointb_notin : forall xs ce x l, L.disjointb xs ce = true -> Core.lookup x ce = Some l -> ~ In x xs.
  Proof.
    unfold L.disjointb. intros xs ce x l H Hl Hin. rewrite forallb_forall in H. apply H in Hin. rewrite Hl in Hin. discriminate.
  Qed.

  Lemma nth_error_ext : forall A (a b : list A), (forall j, nth_error a j = nth_error b j) -> a = b.
  Proof.
    induction a; destruct b; intros H; auto.
    - specialize (H 0). discriminate.
    - specialize (H 0). discriminate.
    - pose proof (H 0) as H0. simpl in H0. inversion H0; subst. f_equal. apply IHa. intros j. apply (H (S j)).
  Qed.

  Lemma nth_error_skipn' : forall A n (l : list A) j, nth_error (skipn n l) j = nth_error l (n + j).
  Proof. induction n; destruct l; simpl; intros; auto. destruct j; auto. Qed.

  Lemma nth_error_firstn' : forall A n (l : list A) j, j < n -> nth_error (firstn n l) j = nth_error l j.
  Proof. induction n; destruct l, j; simpl; intros; auto; try lia. apply IHn. lia. Qed.

  (* what an evaluation over [slots ++ temps] returns splits again: the temporaries are untouched *)
  Lemma split_temps : forall r ce caps slots temps S',
    ce_lt ce (length slots) -> length S' = length (slots ++ temps) ->
    frame_ok ce (slots ++ temps) S' -> R1 r ce S' caps ->
    exists slots', S' = slots' ++ temps /\ length slots' = length slots /\ R1 r ce slots' caps /\ frame_ok ce slots slots'.
  Proof.
    intros r ce caps slots temps S' Hlt Hlen Hf HR. rewrite app_length in Hlen.
    exists (firstn (length slots) S').
    assert (Hsk : skipn (length slots) S' = temps).
    { apply nth_error_ext. intros j. rewrite nth_error_skipn'. rewrite Hf.
      - apply nth_error_app_plus.
      - intros [x Hx]. apply Hlt in Hx. lia. }
    split. { rewrite <- Hsk. symmetry. apply firstn_skipn. }
    split. { rewrite firstn_length. lia. }
    split.
    - intros x l Hl. destruct (HR x l Hl) as (v & mv & A & B & Cc). exists v, mv. split; auto. split; auto.
      destruct l; simpl in *; auto. rewrite nth_error_firstn'; auto. eapply Hlt; eauto.
    - intros i Hi. destruct (Nat.lt_ge_cases i (length slots)).
      + rewrite nth_error_firstn'; auto. rewrite Hf; auto. rewrite nth_error_app1; auto.
      + assert (nth_error (firstn (length slots) S') i = None).
        { apply nth_error_None. rewrite firstn_length. lia. }
        rewrite H0. symmetry. apply nth_error_None. auto.
  Qed.

  Lemma R1_keys_R2 : forall e r r' ce, R2 e r ce -> map fst r' = map fst r -> R2 e r' ce.
  Proof. intros e r r' ce H K x Hx Hn. apply (lookup_keys _ _ x r' r K). apply H; auto. Qed.

  Lemma R2l_keys : forall es r r' ce, R2l es r ce -> map fst r' = map fst r -> R2l es r' ce.
  Proof. intros es r r' ce H K x Hx Hn. apply (lookup_keys _ _ x r' r K). apply H; auto. Qed.

  (* ---------------------------------------------------------------- the simulation *)
  Definition post (tail : bool) (r' : lenv) ce caps (s : S.vmstate) C pc' below slots fs mv MG' H' : Prop :=
    if tail then exists f fs', fs = f :: fs' /\ star s (ret_state f below fs' mv MG' H')
    else exists slots', length slots' = length slots /\ R1 r' ce slots' caps /\ frame_ok ce slots slots' /\
                        star s (fall_state C pc' below slots' fs mv MG' H').

  Definition sim_concl (res : lresult) ce caps (tail : bool) (s : S.vmstate) C pc' below slots fs : Prop :=
    match res with
    | LVal v r' st' => exists mv MG' H', vrel v mv /\ Srel (l_store st') H' /\ Grel (l_glob st') MG' /\
                                         post tail r' ce caps s C pc' below slots fs mv MG' H'
    | LErr k => exists s', star s s' /\ vm_step s' = S.SErr k
    end.

  Lemma post_of_fall : forall tail r' ce caps s C pc' below slots slots' fs mv MG H,
    length slots' = length slots -> R1 r' ce slots' caps -> frame_ok ce slots slots' ->
    star s (fall_state C pc' below slots' fs mv MG H) ->
    tail_ok tail C pc' (length slots) fs -> length below = S.cur_sp fs ->
    post tail r' ce caps s C pc' below slots fs mv MG H.
  Proof.
    intros tail r' ce caps s C pc' below slots slots' fs mv MG Hh Hl HR Hf Hs Ht Hb. destruct tail; simpl.
    - destruct (Ht eq_refl) as [Hne Hr]. destruct fs as [|f fs']; [congruence|].
      exists f, fs'. split; auto. eapply S.star_trans; eauto.
      eapply run_return; eauto.
    - exists slots'. auto.
  Qed.

  Definition sim_at (n : nat) : Prop :=
    forall r e st res, leval n r e st = Some res ->
    forall ce tail C pc below slots caps fs MG H,
      code_at C pc (L.compile tco ce (length slots) tail e) ->
      length below = S.cur_sp fs -> frame_caps fs caps ->
      R1 r ce slots caps -> R2 e r ce ->
      L.wf ce (length slots) e = true -> ce_lt ce (length slots) -> slots_inj ce ->
      Srel (l_store st) H -> Grel (l_glob st) MG ->
      length fs + n <= limit ->
      tail_ok tail C (pc + length (L.compile tco ce (length slots) tail e)) (length slots) fs ->
      sim_concl res ce caps tail (S.mkVM C pc (below ++ slots) fs MG H)
                C (pc + length (L.compile tco ce (length slots) tail e)) below slots fs.

  Lemma step_star : forall s s' s'', vm_step s = S.SNext s' -> star s' s'' -> star s s''.
  Proof. intros. econstructor; eauto. Qed.

  Lemma star_snoc : forall s s' s'', star s s' -> vm_step s' = S.SNext s'' -> star s s''.
  Proof. intros. eapply S.star_trans; eauto. apply S.star_one; auto. Qed.

  Lemma leval_fuel_pos : forall n r e st res, leval n r e st = Some res -> 1 <= n.
  Proof. destruct n; simpl; intros; [discriminate|lia]. Qed.

  Lemma sim_list : forall n, sim_at n -> forall es r st x, levals (leval n) es r st = Some x ->
    forall ce C pc below slots caps fs MG H,
      code_at C pc (L.compile_list tco ce (length slots) es) ->
      length below = S.cur_sp fs -> frame_caps fs caps ->
      R1 r ce slots caps -> R2l es r ce ->
      L.wf_list ce (length slots) es = true -> ce_lt ce (length slots) -> slots_inj ce ->
      Srel (l_store st) H -> Grel (l_glob st) MG -> length fs + n <= limit ->
      match x with
      | inl (vs, r', st') => exists mvs MG' H' slots', Forall2 vrel vs mvs /\ Srel (l_store st') H' /\ Grel (l_glob st') MG' /\
          length slots' = length slots /\ R1 r' ce slots' caps /\ frame_ok ce slots slots' /\
          star (S.mkVM C pc (below ++ slots) fs MG H)
               (S.mkVM C (pc + length (L.compile_list tco ce (length slots) es)) (below ++ slots' ++ mvs) fs MG' H')
      | inr k => exists s', star (S.mkVM C pc (below ++ slots) fs MG H) s' /\ vm_step s' = S.SErr k
      end.
  Proof.
    intros n IH es. induction es as [|e es IHes];
      intros r st x Hev ce C pc below slots caps fs MG H Hc Hb Hfc HR1 HR2 Hwf Hlt Hinj HS HG Hlim.
    - simpl in Hev. inversion Hev; subst. exists [], MG, H, slots.
      split; [constructor|]. split; auto. split; auto. split; auto. split; auto.
      split; [apply frame_ok_refl|]. simpl. rewrite Nat.add_0_r, app_nil_r. constructor.
    - simpl in Hev. simpl in Hwf. apply andb_true_iff in Hwf. destruct Hwf as [Hwf1 Hwf2].
      destruct (leval n r e st) as [[v r1 st1|k]|] eqn:He; try discriminate.
      + simpl in Hc. apply code_at_app in Hc. destruct Hc as [Hc1 Hc2].
        assert (HR2e : R2 e r ce). { intros y Hy. apply HR2. simpl. rewrite Hy. auto. }
        assert (HR2r : R2l es r ce). { intros y Hy. apply HR2. simpl. rewrite Hy. apply orb_true_r. }
        pose proof (IH r e st (LVal v r1 st1) He ce false C pc below slots caps fs MG H Hc1 Hb Hfc HR1 HR2e Hwf1 Hlt Hinj HS HG Hlim) as H1.
        destruct H1 as (mv & MG1 & H1' & Hmv & HS1 & HG1 & slots1 & Hl1 & HR11 & Hf1 & Hstar). { intros Hf; discriminate. }
        unfold fall_state in Hstar.
        pose proof (leval_keys _ _ _ _ _ _ _ He) as K1.
        destruct (levals (leval n) es r1 st1) as [[[[vs r2] st2]|k]|] eqn:Hes; try discriminate.
        * inversion Hev; subst x.
          specialize (IHes r1 st1 (inl (vs, r2, st2)) Hes ce C (pc + length (L.compile tco ce (length slots) false e))
                           below (slots1 ++ [mv]) caps fs MG1 H1').
          rewrite app_length in IHes. simpl in IHes. rewrite Nat.add_1_r, Hl1 in IHes.
          destruct IHes as (mvs & MG2 & H2 & S2 & HF & HS2 & HG2 & Hl2 & HR12 & Hf2 & Hst2); auto.
          { apply R1_more_slots; auto. } { eapply R2l_keys; eauto. }
          { intros y i Hy. apply Hlt in Hy. lia. }
          destruct (split_temps r2 ce caps slots1 [mv] S2) as (slots2 & HS2eq & Hl2' & HR2' & Hf2'); auto.
          { rewrite Hl1. auto. } { rewrite app_length. simpl. lia. }
          subst S2.
          exists (mv :: mvs), MG2, H2, slots2. split; [constructor; auto|]. split; auto. split; auto.
          split; [lia|]. split; auto. split. { eapply frame_ok_trans; eauto. }
          eapply S.star_trans; [exact Hstar|]. simpl.
          rewrite app_length, Nat.add_assoc.
          replace (below ++ slots2 ++ mv :: mvs) with (below ++ (slots2 ++ [mv]) ++ mvs)
            by (rewrite <- app_assoc; auto).
          exact Hst2.
        * inversion Hev; subst x.
          specialize (IHes r1 st1 (inr k) Hes ce C (pc + length (L.compile tco ce (length slots) false e))
                           below (slots1 ++ [mv]) caps fs MG1 H1').
          rewrite app_length in IHes. simpl in IHes. rewrite Nat.add_1_r, Hl1 in IHes.
          destruct IHes as (s' & Hst2 & Herr); auto.
          { apply R1_more_slots; auto. } { eapply R2l_keys; eauto. }
          { intros y i Hy. apply Hlt in Hy. lia. }
          exists s'. split; auto. eapply S.star_trans; [exact Hstar|]. exact Hst2.
      + inversion Hev; subst x.
        simpl in Hc. apply code_at_app in Hc. destruct Hc as [Hc1 Hc2].
        assert (HR2e : R2 e r ce). { intros y Hy. apply HR2. simpl. rewrite Hy. auto. }
        pose proof (IH r e st (LErr k) He ce false C pc below slots caps fs MG H Hc1 Hb Hfc HR1 HR2e Hwf1 Hlt Hinj HS HG Hlim) as H1.
        apply H1. intros Hf; discriminate.
  Qed.

  Lemma sim_concl_prefix : forall res ce caps tail s0 s C pc' below slots fs,
    star s0 s -> sim_concl res ce caps tail s C pc' below slots fs -> sim_concl res ce caps tail s0 C pc' below slots fs.
  Proof.
    intros res ce caps tail s0 s C pc' below slots fs Hs H. destruct res; simpl in *.
    - destruct H as (mv & MG' & H' & Hv & HS & HG & Ho). exists mv, MG', H'. repeat split; auto.
      unfold post in *. destruct tail.
      + destruct Ho as (f & fs' & -> & Hst). exists f, fs'. split; auto. eapply S.star_trans; eauto.
      + destruct Ho as (sl & A & B & Cc & D). exists sl. repeat split; auto. eapply S.star_trans; eauto.
    - destruct H as (s' & Hst & He). exists s'. split; auto. eapply S.star_trans; eauto.
  Qed.

  Lemma post_to_ret : forall tl r' ce caps s Cb pc' below' slots' f fs' mv MG H,
    post tl r' ce caps s Cb pc' below' slots' (f :: fs') mv MG H ->
    returns_from Cb pc' (length slots') -> length below' = S.f_sp f ->
    star s (ret_state f below' fs' mv MG H).
  Proof.
    intros tl r' ce caps s Cb pc' below' slots' f fs' mv MG Hh Ho Hr Hb. destruct tl; simpl in Ho.
    - destruct Ho as (f1 & fs1 & Heq & Hst). inversion Heq; subst. auto.
    - destruct Ho as (sl & A & B & Cc & D). eapply S.star_trans; [exact D|].
      eapply run_return; eauto.
  Qed.

  Lemma sim_all : forall n, sim_at n.
  Proof.
    induction n as [|n IH]; intros r e st res Hev; [discriminate|].
    intros ce tail C pc below slots caps fs MG H Hc Hb Hfc HR1 HR2 Hwf Hlt Hinj HS HG Hlim Htail.
    assert (IH' : sim_at n) by exact IH.
    assert (Hlim' : length fs + n <= limit) by lia.
    destruct e as [c|x|ps rest e|fe args|e1 e2 e3|bs e|e1 e2|g e|x e]; simpl in Hev.
    - (* LConst *)
      inversion Hev; subst res. simpl. exists (S.const_mval c), MG, H. split; [apply vrel_const|].
      split; auto. split; auto.
      simpl in Hc. apply code_at_cons in Hc. destruct Hc as [Hi _].
      eapply post_of_fall; eauto. apply frame_ok_refl. apply S.star_one.
      unfold S.vm_step. simpl. rewrite Hi. unfold S.next_with. simpl.
      unfold fall_state. rewrite Nat.add_1_r, <- app_assoc. auto.
    - (* LVar *)
      simpl in Hc. apply code_at_cons in Hc. destruct Hc as [Hi _].
      destruct (Core.lookup x ce) as [lc|] eqn:Hce.
      + destruct (HR1 x lc Hce) as (v & mv & Hv & Hf & Hrel). rewrite Hv in Hev. inversion Hev; subst res.
        simpl. exists mv, MG, H. split; auto. split; auto. split; auto.
        eapply post_of_fall; eauto. apply frame_ok_refl. apply S.star_one.
        unfold S.vm_step. simpl. rewrite Hi. destruct lc; simpl in Hf.
        * rewrite <- Hb, nth_error_app_plus, Hf. unfold S.next_with, fall_state. simpl.
          rewrite Nat.add_1_r, <- app_assoc. auto.
        * destruct fs as [|f fs0]; simpl in Hfc.
          -- subst caps. destruct n0; discriminate.
          -- destruct Hfc as (a & rs & b & Hfn). rewrite Hfn, Hf. unfold S.next_with, fall_state. simpl.
             rewrite Nat.add_1_r, <- app_assoc. auto.
      + assert (Hr : Core.lookup x r = None). { apply HR2; auto. simpl. apply String.eqb_refl. }
        rewrite Hr in Hev. pose proof (HG x) as HGx.
        destruct (Core.lookup x (l_glob st)) as [v|] eqn:HxG.
        * inversion Hev; subst res. destruct (Core.lookup x MG) as [mv|] eqn:HxM; [|tauto].
          simpl. exists mv, MG, H. split; auto. split; auto. split; auto.
          eapply post_of_fall; eauto. apply frame_ok_refl. apply S.star_one.
          unfold S.vm_step. simpl. rewrite Hi. simpl. rewrite HxM. unfold S.next_with, fall_state. simpl.
          rewrite Nat.add_1_r, <- app_assoc. auto.
        * inversion Hev; subst res. destruct (Core.lookup x MG) as [mv|] eqn:HxM; [tauto|].
          simpl. eexists. split; [apply S.star_refl|].
          unfold S.vm_step. simpl. rewrite Hi. simpl. rewrite HxM. auto.
    - (* LLam *)
      inversion Hev; subst res. simpl in Hc. apply code_at_cons in Hc. destruct Hc as [Hi _].
      set (xs := params ps rest) in *.
      destruct (fetch_caps_ok r ce below slots caps fs HR1 Hfc Hb (L.lcaptured ce xs e))
        as (caps' & Hfetch & Hall). { intros y Hy. eapply captured_in; eauto. }
      simpl. exists (S.MClo (length xs) (rest_flag rest)
                       (L.compile tco (body_cenv xs (L.lcaptured ce xs e)) (length xs) tco e ++ [POPPURE]) caps'), MG, H.
      split; [|split; [auto|split; [auto|]]].
      + unfold xs. constructor; auto.
        intros y Hfv Hps Hnot. apply HR2.
        * simpl. rewrite Hps, Hfv. auto.
        * destruct (Core.lookup y ce) eqn:Hy; auto. exfalso. apply Hnot.
          apply captured_complete; auto.
          assert (Hin : exists a, Core.lookup y ce = Some a) by eauto.
          clear - Hin. destruct Hin as [a Ha]. induction ce as [|[z b] ce]; simpl in *; [discriminate|].
          destruct (String.eqb y z) eqn:E; [apply String.eqb_eq in E; auto|auto].
      + eapply post_of_fall; eauto. apply frame_ok_refl. apply S.star_one.
        unfold S.vm_step. simpl. rewrite Hi. simpl. rewrite Hfetch. unfold S.next_with, fall_state. simpl.
        rewrite Nat.add_1_r, <- app_assoc. auto.
    - (* LApp *)
      rewrite compile_app_eq in *. fold (call_instr tail (length args)) in *.
      rewrite wf_app_eq in Hwf. apply andb_true_iff in Hwf. destruct Hwf as [Hwa Hwfe].
      remember (L.compile_list tco ce (length slots) args) as ca eqn:Eca.
      remember (L.compile tco ce (length slots + length args) false fe) as cf eqn:Ecf.
      set (pcC := pc + length ca + length cf) in *.
      replace (pc + length (ca ++ cf ++ [call_instr tail (length args)])) with (S pcC) in *
        by (unfold pcC; repeat (rewrite app_length; simpl); lia).
      apply code_at_app in Hc. destruct Hc as [Hca Hc].
      apply code_at_app in Hc. destruct Hc as [Hcf Hc]. fold pcC in Hc.
      apply code_at_cons in Hc. destruct Hc as [HiC _].
      assert (HRl : R2l args r ce). { intros y Hy. apply HR2. rewrite lfv_app_eq, Hy. auto. }
      assert (HRf : R2 fe r ce). { intros y Hy. apply HR2. rewrite lfv_app_eq, Hy. apply orb_true_r. }
      destruct (levals (leval n) args r st) as [[[[vs r1] st1]|k]|] eqn:Hevs; try discriminate.
      2:{ inversion Hev; subst res. subst ca.
          exact (sim_list n IH' args r st (inr k) Hevs ce C pc below slots caps fs MG H Hca Hb Hfc HR1 HRl Hwa Hlt Hinj HS HG Hlim'). }
      subst ca.
      pose proof (sim_list n IH' args r st (inl (vs, r1, st1)) Hevs ce C pc below slots caps fs MG H Hca Hb Hfc HR1 HRl Hwa Hlt Hinj HS HG Hlim') as H1.
      destruct H1 as (mvs & MG1 & H1' & slots1 & HF & HS1 & HG1 & Hl1 & HR11 & Hf1 & Hst1).
      destruct (levals_keys_gen (leval n) (leval_keys n) _ _ _ _ _ _ Hevs) as [K1 Hlen].
      assert (Hlenm : length mvs = length args) by (rewrite <- Hlen; symmetry; eapply Forall2_len; eauto).
      set (pcF := pc + length (L.compile_list tco ce (length slots) args)) in *.
      rewrite <- Hl1 in *.
      assert (Hls : length (slots1 ++ mvs) = length slots1 + length args) by (rewrite app_length; lia).
      assert (Hcf' : code_at C pcF (L.compile tco ce (length (slots1 ++ mvs)) false fe)).
      { rewrite Hls. subst cf. exact Hcf. }
      assert (HR1' : R1 r1 ce (slots1 ++ mvs) caps) by (apply R1_more_slots; auto).
      assert (Hlt2 : ce_lt ce (length (slots1 ++ mvs))). { intros y i Hy. apply Hlt in Hy. rewrite Hls. lia. }
      assert (HRf1 : R2 fe r1 ce) by (eapply R1_keys_R2; eauto).
      destruct (leval n r1 fe st1) as [[fv0 r2 st2|k]|] eqn:Hef; try discriminate.
      2:{ inversion Hev; subst res.
          pose proof (IH' r1 fe st1 (LErr k) Hef ce false C pcF below (slots1 ++ mvs) caps fs MG1 H1' Hcf' Hb Hfc HR1' HRf1) as H2.
          rewrite Hls in H2. specialize (H2 Hwfe). rewrite <- Hls in H2. specialize (H2 Hlt2 Hinj HS1 HG1 Hlim').
          eapply sim_concl_prefix.
          - replace (below ++ slots1 ++ mvs) with (below ++ (slots1 ++ mvs)) in Hst1 by auto. exact Hst1.
          - apply H2. intros Hf; discriminate. }
      pose proof (IH' r1 fe st1 (LVal fv0 r2 st2) Hef ce false C pcF below (slots1 ++ mvs) caps fs MG1 H1' Hcf' Hb Hfc HR1' HRf1) as H2.
      rewrite Hls in H2. specialize (H2 Hwfe). rewrite <- Hls in H2. specialize (H2 Hlt2 Hinj HS1 HG1 Hlim').
      destruct H2 as (mf & MG2 & H2' & Hrelf & HS2 & HG2 & S2 & Hl2 & HR12 & Hf2 & Hst2). { intros Hf; discriminate. }
      unfold fall_state in Hst2. rewrite Hls in Hst2. rewrite <- Ecf in Hst2. fold pcC in Hst2.
      destruct (split_temps r2 ce caps slots1 mvs S2 Hlt Hl2 Hf2 HR12) as (slots2 & HS2eq & Hl2' & HR2' & Hf2').
      subst S2.
      assert (Hf02 : frame_ok ce slots1 slots2) by exact Hf2'.
      assert (Hl02 : length slots2 = length slots) by lia.
      assert (Hf002 : frame_ok ce slots slots2) by (eapply frame_ok_trans; eauto).
      eapply sim_concl_prefix.
      { eapply S.star_trans; [exact Hst1|exact Hst2]. }
      replace (below ++ (slots2 ++ mvs) ++ [mf]) with (((below ++ slots2) ++ mvs) ++ [mf])
        by (rewrite <- !app_assoc; auto).
      inversion Hrelf; subst fv0 mf.
      + inversion Hev; subst res. simpl. eexists. split; [apply S.star_refl|].
        eapply call_step_notproc; eauto; simpl; auto.
      + inversion Hev; subst res. simpl. eexists. split; [apply S.star_refl|].
        eapply call_step_notproc; eauto; simpl; auto.
      + inversion Hev; subst res. simpl. eexists. split; [apply S.star_refl|].
        eapply call_step_notproc; eauto; simpl; auto.
      + (* primitive *)
        pose proof (call_step_prim tail C pcC (below ++ slots2) mvs p fs MG2 H2') as Hp.
        rewrite Hlenm in Hp. specialize (Hp HiC).
        destruct st2 as [sg2 gg2]. simpl in HS2, HG2.
        pose proof (mprim_rel p vs mvs sg2 gg2 H2' HF HS2) as Hpr.
        destruct (lprim_apply p vs (mkL sg2 gg2)) as [v st3|k].
        * inversion Hev; subst res.
          destruct Hpr as (mv & H3 & Hma & Hrv & HS3 & Hg3). rewrite Hma in Hp.
          simpl. exists mv, MG2, H3. split; auto. split; auto. split; [rewrite Hg3; auto|].
          eapply (post_of_fall tail r2 ce caps _ C _ below slots slots2); eauto.
          -- apply S.star_one. rewrite Hp. unfold fall_state. rewrite <- app_assoc. auto.
          -- rewrite <- Hl1. exact Htail.
        * inversion Hev; subst res. rewrite Hpr in Hp. simpl. eexists. split; [apply S.star_refl|]. exact Hp.
      + (* closure *)
        rename H0 into Hcaps, H1 into Hfree, H2 into Hwfb.
        set (xs := params ps rest) in *.
        destruct (lcall_args ps rest vs) as [[xs' ws]|] eqn:Hcargs.
        2:{ inversion Hev; subst res. simpl. eexists. split; [apply S.star_refl|].
            eapply call_step_arity; eauto. eapply adjust_err; eauto. }
        destruct (adjust_ok ps rest vs xs' ws mvs (below ++ slots2) Hcargs HF) as (mws & Hadj & HFw & Hxs & Hlw).
        fold xs in Hxs, Hadj. subst xs'. rewrite Hlenm in Hadj.
        set (bodyc := L.compile tco (body_cenv xs fvs) (length xs) tco body) in *.
        assert (Hpm : length xs = length mws) by (rewrite Hlw; eapply Forall2_len; eauto).
        assert (HRe1 : R1 (bind xs ws r0) (body_cenv xs fvs) mws caps0) by (apply entry_R1; auto).
        assert (HRe2 : R2 body (bind xs ws r0) (body_cenv xs fvs)) by (apply entry_R2; auto).
        assert (Hcb : code_at (bodyc ++ [POPPURE]) 0 (L.compile tco (body_cenv xs fvs) (length mws) tco body)).
        { rewrite <- Hpm. apply code_at_zero. }
        assert (Hrf : returns_from (bodyc ++ [POPPURE])
                        (0 + length (L.compile tco (body_cenv xs fvs) (length mws) tco body)) (length mws)).
        { rewrite <- Hpm. apply rf_pop. simpl. fold bodyc. apply nth_error_mid. }
        destruct (ce_body xs fvs) as [Hblt Hbinj].
        assert (Hwfb' : L.wf (body_cenv xs fvs) (length mws) body = true) by (rewrite <- Hpm; exact Hwfb).
        rewrite Hpm in Hblt.
        set (clo := S.MClo (length xs) (rest_flag rest) (bodyc ++ [POPPURE]) caps0) in *.
        destruct (leval n (bind xs ws r0) body st2) as [[v3 r3 st3|k]|] eqn:Hbody; try discriminate.
        * (* the body returns a value *)
          inversion Hev; subst res. clear Hev.
          destruct tail.
          -- destruct (Htail eq_refl) as [Hne _]. destruct fs as [|f0 fs0]; [congruence|].
             simpl in Hb.
             set (f0' := S.mkFrame (S.f_sp f0) clo (S.f_ret_ip f0) (S.f_ret_code f0)).
             assert (Hstep : vm_step (S.mkVM C pcC (((below ++ slots2) ++ mvs) ++ [clo]) (f0 :: fs0) MG2 H2')
                             = S.SNext (S.mkVM (bodyc ++ [POPPURE]) 0 (below ++ mws) (f0' :: fs0) MG2 H2')).
             { unfold clo. eapply call_step_tail; eauto. }
             assert (Htk : tail_ok tco (bodyc ++ [POPPURE])
                             (0 + length (L.compile tco (body_cenv xs fvs) (length mws) tco body)) (length mws) (f0' :: fs0)).
             { intros _. split; [discriminate|exact Hrf]. }
             pose proof (IH' _ body st2 _ Hbody _ tco (bodyc ++ [POPPURE]) 0 below mws caps0 (f0' :: fs0) MG2 H2'
                             Hcb Hb (ex_intro _ _ (ex_intro _ _ (ex_intro _ _ eq_refl))) HRe1 HRe2 Hwfb' Hblt Hbinj HS2 HG2) as H3.
             specialize (H3 ltac:(simpl in *; lia) Htk).
             simpl in H3. destruct H3 as (mv & MG3 & H3' & Hrel & HS3 & HG3 & Ho).
             simpl. exists mv, MG3, H3'. repeat split; auto.
             exists f0, fs0. split; auto.
             eapply step_star; [exact Hstep|].
             change (ret_state f0 below fs0 mv MG3 H3') with (ret_state f0' below fs0 mv MG3 H3').
             eapply post_to_ret; eauto.
          -- set (fr := S.mkFrame (length (below ++ slots2)) clo (S pcC) C).
             assert (Hstep : vm_step (S.mkVM C pcC (((below ++ slots2) ++ mvs) ++ [clo]) fs MG2 H2')
                             = S.SNext (S.mkVM (bodyc ++ [POPPURE]) 0 ((below ++ slots2) ++ mws) (fr :: fs) MG2 H2')).
             { unfold clo. eapply call_step_func; eauto.
               apply leval_fuel_pos in Hbody. lia. }
             assert (Htk : tail_ok tco (bodyc ++ [POPPURE])
                             (0 + length (L.compile tco (body_cenv xs fvs) (length mws) tco body)) (length mws) (fr :: fs)).
             { intros _. split; [discriminate|exact Hrf]. }
             pose proof (IH' _ body st2 _ Hbody _ tco (bodyc ++ [POPPURE]) 0 (below ++ slots2) mws caps0 (fr :: fs) MG2 H2'
                             Hcb eq_refl (ex_intro _ _ (ex_intro _ _ (ex_intro _ _ eq_refl))) HRe1 HRe2 Hwfb' Hblt Hbinj HS2 HG2) as H3.
             specialize (H3 ltac:(simpl in *; lia) Htk).
             simpl in H3. destruct H3 as (mv & MG3 & H3' & Hrel & HS3 & HG3 & Ho).
             simpl. exists mv, MG3, H3'. split; auto. split; auto. split; auto.
             exists slots2. split; [lia|]. split; auto. split; auto.
             eapply step_star; [exact Hstep|].
             assert (Hr : star (S.mkVM (bodyc ++ [POPPURE]) 0 ((below ++ slots2) ++ mws) (fr :: fs) MG2 H2')
                               (ret_state fr (below ++ slots2) fs mv MG3 H3')).
             { eapply post_to_ret; eauto. }
             unfold ret_state in Hr. simpl in Hr. unfold fall_state. rewrite app_assoc. exact Hr.
        * (* the body raises *)
          inversion Hev; subst res. clear Hev.
          destruct tail.
          -- destruct (Htail eq_refl) as [Hne _]. destruct fs as [|f0 fs0]; [congruence|].
             simpl in Hb.
             set (f0' := S.mkFrame (S.f_sp f0) clo (S.f_ret_ip f0) (S.f_ret_code f0)).
             assert (Hstep : vm_step (S.mkVM C pcC (((below ++ slots2) ++ mvs) ++ [clo]) (f0 :: fs0) MG2 H2')
                             = S.SNext (S.mkVM (bodyc ++ [POPPURE]) 0 (below ++ mws) (f0' :: fs0) MG2 H2')).
             { unfold clo. eapply call_step_tail; eauto. }
             assert (Htk : tail_ok tco (bodyc ++ [POPPURE])
                             (0 + length (L.compile tco (body_cenv xs fvs) (length mws) tco body)) (length mws) (f0' :: fs0)).
             { intros _. split; [discriminate|exact Hrf]. }
             pose proof (IH' _ body st2 _ Hbody _ tco (bodyc ++ [POPPURE]) 0 below mws caps0 (f0' :: fs0) MG2 H2'
                             Hcb Hb (ex_intro _ _ (ex_intro _ _ (ex_intro _ _ eq_refl))) HRe1 HRe2 Hwfb' Hblt Hbinj HS2 HG2) as H3.
             specialize (H3 ltac:(simpl in *; lia) Htk).
             simpl in H3. destruct H3 as (s' & Hst & He). simpl. exists s'. split; auto. eapply step_star; eauto.
          -- set (fr := S.mkFrame (length (below ++ slots2)) clo (S pcC) C).
             assert (Hstep : vm_step (S.mkVM C pcC (((below ++ slots2) ++ mvs) ++ [clo]) fs MG2 H2')
                             = S.SNext (S.mkVM (bodyc ++ [POPPURE]) 0 ((below ++ slots2) ++ mws) (fr :: fs) MG2 H2')).
             { unfold clo. eapply call_step_func; eauto.
               apply leval_fuel_pos in Hbody. lia. }
             assert (Htk : tail_ok tco (bodyc ++ [POPPURE])
                             (0 + length (L.compile tco (body_cenv xs fvs) (length mws) tco body)) (length mws) (fr :: fs)).
             { intros _. split; [discriminate|exact Hrf]. }
             pose proof (IH' _ body st2 _ Hbody _ tco (bodyc ++ [POPPURE]) 0 (below ++ slots2) mws caps0 (fr :: fs) MG2 H2'
                             Hcb eq_refl (ex_intro _ _ (ex_intro _ _ (ex_intro _ _ eq_refl))) HRe1 HRe2 Hwfb' Hblt Hbinj HS2 HG2) as H3.
             specialize (H3 ltac:(simpl in *; lia) Htk).
             simpl in H3. destruct H3 as (s' & Hst & He). simpl. exists s'. split; auto. eapply step_star; eauto.
      + inversion Hev; subst res. simpl. eexists. split; [apply S.star_refl|].
        eapply call_step_notproc; eauto; simpl; auto.
      + inversion Hev; subst res. simpl. eexists. split; [apply S.star_refl|].
        eapply call_step_notproc; eauto; simpl; auto.
    - (* LIf *)
      remember (L.compile tco ce (length slots) false e1) as cc eqn:Ecc.
      remember (L.compile tco ce (length slots) tail e2) as ct eqn:Ect.
      remember (L.compile tco ce (length slots) tail e3) as cf eqn:Ecf.
      assert (Hcode : L.compile tco ce (length slots) tail (LIf e1 e2 e3) =
                      cc ++ [IF (length ct + 2)] ++ ct ++ [JMP (length cf + 1)] ++ cf)
        by (simpl; subst; auto).
      rewrite Hcode in *. clear Hcode.
      set (pcI := pc + length cc) in *.
      replace (pc + length (cc ++ [IF (length ct + 2)] ++ ct ++ [JMP (length cf + 1)] ++ cf))
        with (S (S pcI + length ct) + length cf) in *
        by (unfold pcI; repeat (rewrite app_length; simpl); lia).
      apply code_at_app in Hc. destruct Hc as [Hcc Hc]. fold pcI in Hc.
      apply code_at_cons in Hc. destruct Hc as [HiI Hc].
      apply code_at_app in Hc. destruct Hc as [Hct Hc].
      apply code_at_cons in Hc. destruct Hc as [HiJ Hcf].
      simpl in Hwf. apply andb_true_iff in Hwf. destruct Hwf as [Hwf Hw3].
      apply andb_true_iff in Hwf. destruct Hwf as [Hw1 Hw2].
      assert (HRc : R2 e1 r ce). { intros y Hy. apply HR2. simpl. rewrite Hy. auto. }
      assert (HRt : R2 e2 r ce). { intros y Hy. apply HR2. simpl. rewrite Hy. rewrite orb_true_r. auto. }
      assert (HRf : R2 e3 r ce). { intros y Hy. apply HR2. simpl. rewrite Hy. rewrite !orb_true_r. auto. }
      destruct (leval n r e1 st) as [[vc r1 st1|k]|] eqn:He1; try discriminate.
      + subst cc.
        pose proof (IH' r e1 st (LVal vc r1 st1) He1 ce false C pc below slots caps fs MG H Hcc Hb Hfc HR1 HRc Hw1 Hlt Hinj HS HG Hlim') as H1.
        destruct H1 as (mvc & MG1 & H1' & Hrelc & HS1 & HG1 & slots1 & Hl1 & HR11 & Hf1 & Hst1). { intros Hf; discriminate. }
        unfold fall_state in Hst1. fold pcI in Hst1.
        pose proof (leval_keys _ _ _ _ _ _ _ He1) as K1.
        rewrite (vrel_truthy _ _ Hrelc) in Hev.
        assert (Hfin : forall res0 pcX, sim_concl res0 ce caps tail (S.mkVM C pcX (below ++ slots1) fs MG1 H1') C
                          (S (S pcI + length ct) + length cf) below slots1 fs ->
                       star (S.mkVM C pc (below ++ slots) fs MG H) (S.mkVM C pcX (below ++ slots1) fs MG1 H1') ->
                       sim_concl res0 ce caps tail (S.mkVM C pc (below ++ slots) fs MG H) C
                          (S (S pcI + length ct) + length cf) below slots fs).
        { intros res0 pcX H2 Hstp. eapply sim_concl_prefix in H2; [|exact Hstp].
          destruct res0 as [v r2 st2|k]; simpl in *; auto.
          destruct H2 as (mv & MG2 & H2' & A1 & A2 & A3 & Ho). exists mv, MG2, H2'. repeat split; auto.
          unfold post in *. destruct tail; auto.
          destruct Ho as (sl & B1 & B2 & B3 & B4). exists sl. repeat split; auto. lia.
          eapply frame_ok_trans; eauto. }
        destruct (S.mtruthy mvc) eqn:Htr.
        * assert (Hstep : vm_step (S.mkVM C pcI (below ++ slots1 ++ [mvc]) fs MG1 H1') =
                          S.SNext (S.mkVM C (S pcI) (below ++ slots1) fs MG1 H1')).
          { unfold S.vm_step. simpl. rewrite HiI. rewrite app_assoc, s_unsnoc_app. rewrite Htr. auto. }
          apply (Hfin res (S pcI)); [|eapply star_snoc; [exact Hst1|exact Hstep]].
          subst ct. rewrite <- Hl1 in *.
          assert (Htk : tail_ok tail C (S pcI + length (L.compile tco ce (length slots1) tail e2)) (length slots1) fs).
          { intros Ht. destruct (Htail Ht) as [Hne Hrf]. split; auto.
            eapply rf_jmp; [exact HiJ|].
            replace (S pcI + length (L.compile tco ce (length slots1) tail e2) + (length cf + 1))
              with (S (S pcI + length (L.compile tco ce (length slots1) tail e2)) + length cf) by lia.
            exact Hrf. }
          pose proof (IH' r1 e2 st1 res Hev ce tail C (S pcI) below slots1 caps fs MG1 H1' Hct Hb Hfc HR11
                          (R1_keys_R2 _ _ _ _ HRt K1) Hw2 Hlt Hinj HS1 HG1 Hlim' Htk) as H2.
          destruct res as [v r2 st2|k]; simpl in *; auto.
          destruct H2 as (mv & MG2 & H2' & Hrel & HS2 & HG2 & Ho). exists mv, MG2, H2'. repeat split; auto.
          unfold post in *. destruct tail; auto.
          destruct Ho as (sl & B1 & B2 & B3 & B4). exists sl. repeat split; auto.
          eapply star_snoc; [exact B4|].
          unfold S.vm_step, fall_state. simpl. rewrite HiJ. unfold S.set_code_ip. simpl.
          f_equal. f_equal. lia.
        * assert (Hstep : vm_step (S.mkVM C pcI (below ++ slots1 ++ [mvc]) fs MG1 H1') =
                          S.SNext (S.mkVM C (S (S pcI + length ct)) (below ++ slots1) fs MG1 H1')).
          { unfold S.vm_step. simpl. rewrite HiI. rewrite app_assoc, s_unsnoc_app. rewrite Htr.
            f_equal. f_equal. lia. }
          apply (Hfin res (S (S pcI + length ct))); [|eapply star_snoc; [exact Hst1|exact Hstep]].
          subst cf. rewrite <- Hl1 in *.
          eapply IH'; eauto. eapply R1_keys_R2; eauto.
      + inversion Hev; subst res. subst cc.
        pose proof (IH' r e1 st (LErr k) He1 ce false C pc below slots caps fs MG H Hcc Hb Hfc HR1 HRc Hw1 Hlt Hinj HS HG Hlim') as H1.
        apply H1. intros Hf; discriminate.
    - (* LLet *)
      rewrite compile_let_eq in *. rewrite wf_let_eq in Hwf.
      apply andb_true_iff in Hwf. destruct Hwf as [Hwf Hwb].
      apply andb_true_iff in Hwf. destruct Hwf as [Hwl Hdis].
      remember (L.compile_list tco ce (length slots) (map snd bs)) as cl eqn:Ecl.
      remember (L.compile tco (bind_slots (map fst bs) (length slots) ce) (length slots + length bs) tail e) as cb eqn:Ecb.
      replace (pc + length (BEGINSCOPE :: cl ++ cb ++ [LETENDSCOPE (length slots)]))
        with (S (S pc + length cl + length cb)) in *
        by (simpl; repeat (rewrite app_length; simpl); lia).
      apply code_at_cons in Hc. destruct Hc as [HiB Hc].
      apply code_at_app in Hc. destruct Hc as [Hcl Hc].
      apply code_at_app in Hc. destruct Hc as [Hcb Hc].
      apply code_at_cons in Hc. destruct Hc as [HiL _].
      assert (HRl : R2l (map snd bs) r ce).
      { intros y Hy. apply HR2. rewrite lfv_let_eq, Hy. auto. }
      assert (Hstep0 : vm_step (S.mkVM C pc (below ++ slots) fs MG H) = S.SNext (S.mkVM C (S pc) (below ++ slots) fs MG H)).
      { unfold S.vm_step. simpl. rewrite HiB. auto. }
      destruct (levals (leval n) (map snd bs) r st) as [[[[vs r1] st1]|k]|] eqn:Hevs; try discriminate.
      2:{ inversion Hev; subst res. subst cl.
          pose proof (sim_list n IH' (map snd bs) r st (inr k) Hevs ce C (S pc) below slots caps fs MG H Hcl Hb Hfc HR1 HRl Hwl Hlt Hinj HS HG Hlim') as H1.
          destruct H1 as (s' & Hst & He). simpl. exists s'. split; auto.
          eapply step_star; [exact Hstep0|]. exact Hst. }
      subst cl.
      pose proof (sim_list n IH' (map snd bs) r st (inl (vs, r1, st1)) Hevs ce C (S pc) below slots caps fs MG H Hcl Hb Hfc HR1 HRl Hwl Hlt Hinj HS HG Hlim') as H1.
      destruct H1 as (mvs & MG1 & H1' & slots1 & HF & HS1 & HG1 & Hl1 & HR11 & Hf1 & Hst1).
      destruct (levals_keys_gen (leval n) (leval_keys n) _ _ _ _ _ _ Hevs) as [K1 Hlen]. rewrite map_length in Hlen.
      assert (Hlenm : length mvs = length bs). { rewrite <- Hlen. symmetry. eapply Forall2_len; eauto. }
      set (pcb := S pc + length (L.compile_list tco ce (length slots) (map snd bs))) in *.
      set (xs := map fst bs) in *.
      assert (Hxl : length xs = length vs) by (unfold xs; rewrite map_length; lia).
      rewrite <- Hl1 in *.
      set (ce' := bind_slots xs (length slots1) ce) in *.
      assert (HR1' : R1 (bind xs vs r1) ce' (slots1 ++ mvs) caps) by (apply R1_bind; auto).
      assert (HR2' : R2 e (bind xs vs r1) ce').
      { intros y Hy Hnone. apply lookup_bind_slots_none in Hnone. destruct Hnone as [Hm Hn].
        rewrite lookup_bind_notin; auto. apply (lookup_keys _ _ y r1 r K1). apply HR2; auto.
        rewrite lfv_let_eq. fold xs. rewrite Hm, Hy. simpl. apply orb_true_r. }
      assert (Hls : length (slots1 ++ mvs) = length slots1 + length bs) by (rewrite app_length; lia).
      destruct (ce_bind xs (length slots1) ce Hlt Hinj) as [Hlt' Hinj']. fold ce' in Hlt', Hinj'.
      assert (Hxs : length xs = length bs) by (unfold xs; apply map_length).
      rewrite Hxs in Hlt'.
      assert (Hcb' : code_at C pcb (L.compile tco ce' (length (slots1 ++ mvs)) tail e)).
      { rewrite Hls. subst cb. exact Hcb. }
      assert (Htk : tail_ok tail C (pcb + length (L.compile tco ce' (length (slots1 ++ mvs)) tail e))
                            (length (slots1 ++ mvs)) fs).
      { rewrite Hls. rewrite <- Ecb. intros Ht. destruct (Htail Ht) as [Hne Hrf]. split; auto.
        eapply rf_let; [exact HiL|lia|]. exact Hrf. }
      destruct (leval n (bind xs vs r1) e st1) as [[v2 r2 st2|k]|] eqn:Heb; try discriminate.
      2:{ inversion Hev; subst res.
          pose proof (IH' _ e st1 (LErr k) Heb ce' tail C pcb below (slots1 ++ mvs) caps fs MG1 H1' Hcb' Hb Hfc HR1' HR2') as H2.
          rewrite Hls in H2. specialize (H2 Hwb Hlt' Hinj' HS1 HG1 Hlim'). rewrite <- Hls in H2. specialize (H2 Htk).
          eapply sim_concl_prefix; [eapply step_star; [exact Hstep0|exact Hst1]|]. exact H2. }
      inversion Hev; subst res. clear Hev.
      pose proof (IH' _ e st1 (LVal v2 r2 st2) Heb ce' tail C pcb below (slots1 ++ mvs) caps fs MG1 H1' Hcb' Hb Hfc HR1' HR2') as H2.
      rewrite Hls in H2. specialize (H2 Hwb Hlt' Hinj' HS1 HG1 Hlim'). rewrite <- Hls in H2. specialize (H2 Htk).
      rewrite Hls in H2. rewrite <- Ecb in H2.
      simpl in H2. destruct H2 as (mv & MG2 & H2' & Hrel & HS2 & HG2 & Ho).
      simpl. exists mv, MG2, H2'. split; auto. split; auto. split; auto.
      unfold post in *. destruct tail.
      + destruct Ho as (f & fs' & -> & Hst). exists f, fs'. split; auto.
        eapply step_star; [exact Hstep0|]. eapply S.star_trans; [exact Hst1|exact Hst].
      + destruct Ho as (Sb & B1 & B2 & B3 & B4).
        pose proof (leval_keys _ _ _ _ _ _ _ Heb) as K2.
        exists (firstn (length slots1) Sb).
        assert (HSbl : length slots1 <= length Sb) by (rewrite B1, app_length; lia).
        split. { rewrite firstn_length. lia. }
        split.
        { (* leaving the scope: the outer variables keep their slots *)
          intros y l Hy.
          assert (Hnin : ~ In y xs) by (eapply disjointb_notin; eauto).
          assert (Hy' : Core.lookup y ce' = Some l) by (unfold ce'; rewrite bind_slots_notin; auto).
          destruct (B2 y l Hy') as (v & mv0 & A & Bq & Cc). exists v, mv0. split; [|split; auto].
          - rewrite lookup_skip_keys; auto. rewrite K2, bind_keys by auto.
            replace (length bs) with (length (rev xs)) by (rewrite rev_length; auto).
            rewrite firstn_app_exact. intros Hin. apply in_rev in Hin. tauto.
          - destruct l as [i|j]; simpl in *; auto. rewrite nth_error_firstn'; auto. eapply Hlt; eauto. }
        split.
        { eapply frame_ok_trans; [exact Hf1|]. intros i Hi.
          destruct (Nat.lt_ge_cases i (length slots1)).
          - rewrite nth_error_firstn'; auto. rewrite B3.
            + rewrite nth_error_app1; auto.
            + intros [y Hy]. apply Hi. exists y. eapply bind_slots_low; eauto.
          - assert (Hn : nth_error (firstn (length slots1) Sb) i = None).
            { apply nth_error_None. rewrite firstn_length. lia. }
            rewrite Hn. symmetry. apply nth_error_None. auto. }
        eapply step_star; [exact Hstep0|]. eapply S.star_trans; [exact Hst1|].
        eapply star_snoc; [exact B4|].
        unfold S.vm_step, fall_state. cbn [S.code S.ip S.stack S.frames S.globals S.heap].
        match goal with |- context [nth_error C ?p] => replace (nth_error C p) with (nth_error C (pcb + length cb)) by (f_equal; unfold pcb; simpl; lia) end.
        rewrite HiL.
        rewrite app_assoc, s_unsnoc_app. cbn [S.cur_sp]. rewrite <- Hb.
        replace (Nat.leb (length below + length slots1) (length (below ++ Sb))) with true
          by (symmetry; apply Nat.leb_le; rewrite app_length; lia).
        unfold S.next_with. simpl. rewrite firstn_app_more. rewrite <- app_assoc. auto.
    - (* LSeq *)
      remember (L.compile tco ce (length slots) false e1) as c1 eqn:Ec1.
      remember (L.compile tco ce (length slots) tail e2) as c2 eqn:Ec2.
      assert (Hcode : L.compile tco ce (length slots) tail (LSeq e1 e2) = c1 ++ [POPSINGLE] ++ c2)
        by (simpl; subst; auto).
      rewrite Hcode in *. clear Hcode.
      replace (pc + length (c1 ++ [POPSINGLE] ++ c2)) with (S (pc + length c1) + length c2) in *
        by (rewrite !app_length; simpl; lia).
      apply code_at_app in Hc. destruct Hc as [Hc1 Hc2]. apply code_at_cons in Hc2. destruct Hc2 as [Hi Hc2].
      simpl in Hwf. apply andb_true_iff in Hwf. destruct Hwf as [Hw1 Hw2].
      assert (HRa : R2 e1 r ce). { intros y Hy. apply HR2. simpl. rewrite Hy. auto. }
      assert (HRb : R2 e2 r ce). { intros y Hy. apply HR2. simpl. rewrite Hy. apply orb_true_r. }
      destruct (leval n r e1 st) as [[v1 r1 st1|k]|] eqn:He1; try discriminate.
      + subst c1.
        pose proof (IH' r e1 st (LVal v1 r1 st1) He1 ce false C pc below slots caps fs MG H Hc1 Hb Hfc HR1 HRa Hw1 Hlt Hinj HS HG Hlim') as H1.
        destruct H1 as (mv1 & MG1 & H1' & _ & HS1 & HG1 & slots1 & Hl1 & HR11 & Hf1 & Hst1). { intros Hf; discriminate. }
        unfold fall_state in Hst1.
        pose proof (leval_keys _ _ _ _ _ _ _ He1) as K1.
        assert (Hstep : star (S.mkVM C pc (below ++ slots) fs MG H) (S.mkVM C (S (pc + length (L.compile tco ce (length slots) false e1))) (below ++ slots1) fs MG1 H1')).
        { eapply star_snoc; [exact Hst1|].
          unfold S.vm_step. simpl. rewrite Hi. rewrite app_assoc, s_unsnoc_app. unfold S.next_with. simpl. reflexivity. }
        subst c2. rewrite <- Hl1 in *.
        pose proof (IH' r1 e2 st1 res Hev ce tail C _ below slots1 caps fs MG1 H1' Hc2 Hb Hfc HR11
                        (R1_keys_R2 _ _ _ _ HRb K1) Hw2 Hlt Hinj HS1 HG1 Hlim' Htail) as H2.
        eapply sim_concl_prefix in H2; [|exact Hstep].
        destruct res as [v r2 st2|k]; simpl in *; auto.
        destruct H2 as (mv & MG2 & H2' & A1 & A2 & A3 & Ho). exists mv, MG2, H2'. repeat split; auto.
        unfold post in *. destruct tail; auto.
        destruct Ho as (sl & B1 & B2 & B3 & B4). exists sl. repeat split; auto. lia.
        eapply frame_ok_trans; eauto.
      + inversion Hev; subst res. subst c1.
        pose proof (IH' r e1 st (LErr k) He1 ce false C pc below slots caps fs MG H Hc1 Hb Hfc HR1 HRa Hw1 Hlt Hinj HS HG Hlim') as H1.
        apply H1. intros Hf; discriminate.
    - (* LSetG *)
      remember (L.compile tco ce (length slots) false e) as c1 eqn:Ec1.
      assert (Hcode : L.compile tco ce (length slots) tail (LSetG g e) = c1 ++ [SET g]) by (simpl; subst; auto).
      rewrite Hcode in *. clear Hcode.
      replace (pc + length (c1 ++ [SET g])) with (S (pc + length c1)) in * by (rewrite !app_length; simpl; lia).
      apply code_at_app in Hc. destruct Hc as [Hc1 Hc2]. apply code_at_cons in Hc2. destruct Hc2 as [Hi _].
      simpl in Hwf.
      assert (HRa : R2 e r ce). { intros y Hy. apply HR2. simpl. rewrite Hy. apply orb_true_r. }
      destruct (leval n r e st) as [[v1 r1 st1|k]|] eqn:He1; try discriminate.
      + subst c1.
        pose proof (IH' r e st (LVal v1 r1 st1) He1 ce false C pc below slots caps fs MG H Hc1 Hb Hfc HR1 HRa Hwf Hlt Hinj HS HG Hlim') as H1.
        destruct H1 as (mv1 & MG1 & H1' & Hrel1 & HS1 & HG1 & slots1 & Hl1 & HR11 & Hf1 & Hst1). { intros Hf; discriminate. }
        unfold fall_state in Hst1.
        pose proof (HG1 g) as HGg.
        destruct (Core.lookup g (l_glob st1)) as [old|] eqn:Hold.
        * inversion Hev; subst res. destruct (Core.lookup g MG1) as [mold|] eqn:Hmold; [|tauto].
          simpl. exists mold, ((g, mv1) :: MG1), H1'. split; auto. split; auto.
          split. { intros g'. simpl. destruct (String.eqb g' g); auto. apply HG1. }
          eapply post_of_fall; eauto.
          eapply star_snoc; [exact Hst1|].
          unfold S.vm_step. simpl. rewrite Hi. rewrite app_assoc, s_unsnoc_app. rewrite Hmold.
          unfold fall_state. rewrite <- app_assoc. reflexivity.
        * inversion Hev; subst res. destruct (Core.lookup g MG1) as [mold|] eqn:Hmold; [tauto|].
          simpl. eexists. split; [exact Hst1|].
          unfold S.vm_step. simpl. rewrite Hi. rewrite app_assoc, s_unsnoc_app. rewrite Hmold. auto.
      + inversion Hev; subst res. subst c1.
        pose proof (IH' r e st (LErr k) He1 ce false C pc below slots caps fs MG H Hc1 Hb Hfc HR1 HRa Hwf Hlt Hinj HS HG Hlim') as H1.
        apply H1. intros Hf; discriminate.
    - (* LSetL *)
      simpl in Hwf. apply andb_true_iff in Hwf. destruct Hwf as [Hwx Hwf].
      destruct (Core.lookup x ce) as [[i|j]|] eqn:Hxce; try discriminate.
      remember (L.compile tco ce (length slots) false e) as c1 eqn:Ec1.
      assert (Hcode : L.compile tco ce (length slots) tail (LSetL x e) = c1 ++ [SETLOCAL i]).
      { simpl. rewrite Hxce. subst; auto. }
      rewrite Hcode in *. clear Hcode.
      replace (pc + length (c1 ++ [SETLOCAL i])) with (S (pc + length c1)) in * by (rewrite !app_length; simpl; lia).
      apply code_at_app in Hc. destruct Hc as [Hc1 Hc2]. apply code_at_cons in Hc2. destruct Hc2 as [Hi _].
      assert (HRa : R2 e r ce). { intros y Hy. apply HR2. simpl. rewrite Hy. apply orb_true_r. }
      destruct (leval n r e st) as [[v1 r1 st1|k]|] eqn:He1; try discriminate.
      + subst c1.
        pose proof (IH' r e st (LVal v1 r1 st1) He1 ce false C pc below slots caps fs MG H Hc1 Hb Hfc HR1 HRa Hwf Hlt Hinj HS HG Hlim') as H1.
        destruct H1 as (mv1 & MG1 & H1' & Hrel1 & HS1 & HG1 & slots1 & Hl1 & HR11 & Hf1 & Hst1). { intros Hf; discriminate. }
        unfold fall_state in Hst1.
        destruct (HR11 x (Slot i) Hxce) as (oldv & moldv & Hxo & Hfo & Hrelo). simpl in Hfo.
        rewrite Hxo in Hev. inversion Hev; subst res.
        assert (Hil : i < length slots1). { rewrite Hl1. eapply Hlt; eauto. }
        simpl. exists moldv, MG1, H1'. split; auto. split; auto. split; auto.
        eapply (post_of_fall tail _ ce caps _ C _ below slots (S.set_nth i mv1 slots1)); eauto.
        * rewrite set_nth_length. auto.
        * (* the environment and the slots after the assignment *)
          intros y l Hy. destruct (String.eqb y x) eqn:Eyx.
          -- apply String.eqb_eq in Eyx. subst y. rewrite Hxce in Hy. inversion Hy; subst l.
             exists v1, mv1. split; [eapply lookup_env_set_same; eauto|]. split; auto.
             simpl. apply set_nth_same. auto.
          -- destruct (HR11 y l Hy) as (v & mv & A & B & Cc). exists v, mv.
             split; [rewrite lookup_env_set_other; auto|]. split; auto.
             destruct l as [i'|j']; simpl in *; auto.
             rewrite set_nth_other; auto. intros Heq. subst i'.
             assert (x = y) by (eapply Hinj; eauto). subst. rewrite String.eqb_refl in Eyx. discriminate.
        * eapply frame_ok_trans; [exact Hf1|]. intros i' Hi'. apply set_nth_other.
          intros Heq. subst i'. apply Hi'. exists x. auto.
        * eapply star_snoc; [exact Hst1|].
          unfold S.vm_step. simpl. rewrite Hi. rewrite app_assoc, s_unsnoc_app.
          rewrite <- Hb, nth_error_app_plus, Hfo. unfold S.next_with, fall_state. simpl.
          rewrite set_nth_app2. rewrite <- app_assoc. reflexivity.
      + inversion Hev; subst res. subst c1.
        pose proof (IH' r e st (LErr k) He1 ce false C pc below slots caps fs MG H Hc1 Hb Hfc HR1 HRa Hwf Hlt Hinj HS HG Hlim') as H1.
        apply H1. intros Hf; discriminate.
  Qed.
End SimS.

Lemma ce_lt_nil : ce_lt [] 0.
Proof. intros x i H. discriminate. Qed.
Lemma slots_inj_nil : slots_inj [].
Proof. intros x y i H. discriminate. Qed.
(* ------------------------------------------------------------------ whole programs *)
Lemma s_vm_run_mono : forall limit k s r, S.vm_run limit k s = r -> r <> S.RFuel ->
  forall k', k <= k' -> S.vm_run limit k' s = r.
Proof.
  induction k; simpl; intros s r H Hr k' Hk.
  - congruence.
  - destruct k'; [lia|]. simpl. destruct (S.vm_step limit s); auto. apply IHk; auto. lia.
Qed.

Lemma s_star_run : forall limit s s', S.star limit s s' -> forall k r, S.vm_run limit k s' = r ->
  exists k', S.vm_run limit k' s = r.
Proof.
  induction 1; intros k r Hr; eauto.
  destruct (IHstar k r Hr) as [k' Hk']. exists (S k'). simpl. rewrite H. auto.
Qed.

Lemma s_Grel_prims : forall tco, Grel tco lprim_globals S.prim_globals.
Proof.
  intros tco g. unfold lprim_globals, S.prim_globals. induction bprim_table as [|[x p] t]; simpl; auto.
  destruct (String.eqb g x); auto. constructor.
Qed.

Lemma s_Grel_cons : forall tco G MG x v mv, Grel tco G MG -> vrel tco v mv -> Grel tco ((x, v) :: G) ((x, mv) :: MG).
Proof. intros tco G MG x v mv H Hv g. simpl. destruct (String.eqb g x); auto. apply H. Qed.

Lemma s_R1_empty : forall tco r, R1 tco r [] [] [].
Proof. intros tco r x l H. discriminate. Qed.

Lemma s_R2_empty : forall e ce, R2 e [] ce.
Proof. intros e ce x _ _. auto. Qed.

(* a top-level expression form *)
Lemma s_sim_top : forall limit tco st MG H, Srel tco (l_store st) H -> Grel tco (l_glob st) MG ->
  forall n e res, leval n [] e st = Some res -> n <= limit -> L.wf [] 0 e = true ->
  match res with
  | LVal v _ st' => exists k mv MG' H', vrel tco v mv /\ Srel tco (l_store st') H' /\ Grel tco (l_glob st') MG' /\
      S.vm_run limit k (S.init_vm (L.compile_top tco e) MG H) =
      S.RDone mv (S.mkVM (L.compile_top tco e) (S (length (L.compile tco [] 0 false e))) [] [] MG' H')
  | LErr ek => exists k, S.vm_run limit k (S.init_vm (L.compile_top tco e) MG H) = S.RErr ek
  end.
Proof.
  intros limit tco st MG H HS HG n e res Hev Hn Hwf.
  pose proof (sim_all limit tco n [] e st res Hev [] false (L.compile_top tco e) 0 [] [] [] [] MG H) as Hs.
  simpl in Hs. specialize (Hs (code_at_zero _ _) eq_refl eq_refl (s_R1_empty _ _) (s_R2_empty _ _) Hwf ce_lt_nil slots_inj_nil HS HG Hn).
  specialize (Hs ltac:(intros Hf; discriminate)).
  destruct res as [v r' st'|ek]; simpl in Hs.
  - destruct Hs as (mv & MG' & H' & Hrel & HS' & HG' & sl & Hsl & _ & _ & Hst). destruct sl; [|discriminate]. unfold fall_state in Hst. simpl in Hst.
    eapply s_star_run with (k := 1) in Hst.
    + destruct Hst as [k' Hk']. exists k', mv, MG', H'. repeat split; eauto.
    + simpl. unfold S.vm_step. simpl. unfold L.compile_top. rewrite nth_error_mid. simpl. reflexivity.
  - destruct Hs as (s' & Hst & He). eapply s_star_run with (k := 1) in Hst.
    + destruct Hst as [k' Hk']. exists k'. exact Hk'.
    + simpl. rewrite He. auto.
Qed.

(* a top-level definition *)
Lemma s_sim_define : forall limit tco st MG H, Srel tco (l_store st) H -> Grel tco (l_glob st) MG ->
  forall n x e res, leval n [] e st = Some res -> n <= limit -> L.wf [] 0 e = true ->
  match res with
  | LVal v _ st' => exists k mv MG' H' s', vrel tco v mv /\ Srel tco (l_store st') H' /\ Grel tco (l_glob st') MG' /\
      S.globals s' = (x, mv) :: MG' /\ S.heap s' = H' /\
      S.vm_run limit k (S.init_vm (L.compile_define tco x e) MG H) = S.RDone S.MVoid s'
  | LErr ek => exists k, S.vm_run limit k (S.init_vm (L.compile_define tco x e) MG H) = S.RErr ek
  end.
Proof.
  intros limit tco st MG H HS HG n x e res Hev Hn Hwf.
  pose proof (sim_all limit tco n [] e st res Hev [] false (L.compile_define tco x e) 0 [] [] [] [] MG H) as Hs.
  simpl in Hs. specialize (Hs (code_at_zero _ _) eq_refl eq_refl (s_R1_empty _ _) (s_R2_empty _ _) Hwf ce_lt_nil slots_inj_nil HS HG Hn).
  specialize (Hs ltac:(intros Hf; discriminate)).
  destruct res as [v r' st'|ek]; simpl in Hs.
  - destruct Hs as (mv & MG' & H' & Hrel & HS' & HG' & sl & Hsl & _ & _ & Hst). destruct sl; [|discriminate]. unfold fall_state in Hst. simpl in Hst.
    set (c := L.compile tco [] 0 false e) in *.
    assert (H3 : S.vm_run limit 3 (S.mkVM (L.compile_define tco x e) (0 + length c) ([] ++ [] ++ [mv]) [] MG' H') =
                 S.RDone S.MVoid (S.mkVM (L.compile_define tco x e) (S (S (S (length c)))) [] [] ((x, mv) :: MG') H')).
    { unfold L.compile_define. fold c. simpl plus. simpl app.
      assert (E0 : nth_error (c ++ [BIND x; PUSHCONST KVoid; POPPURE]) (length c) = Some (BIND x)).
      { replace (length c) with (length c + 0) by lia. rewrite nth_error_app_plus. auto. }
      assert (E1 : nth_error (c ++ [BIND x; PUSHCONST KVoid; POPPURE]) (S (length c)) = Some (PUSHCONST KVoid)).
      { replace (S (length c)) with (length c + 1) by lia. rewrite nth_error_app_plus. auto. }
      assert (E2 : nth_error (c ++ [BIND x; PUSHCONST KVoid; POPPURE]) (S (S (length c))) = Some POPPURE).
      { replace (S (S (length c))) with (length c + 2) by lia. rewrite nth_error_app_plus. auto. }
      change 3 with (S (S (S 0))).
      cbn [S.vm_run]. unfold S.vm_step at 1. cbn [S.code S.ip S.stack S.frames S.globals S.heap]. rewrite E0.
      cbn [S.unsnoc]. cbn [S.vm_run]. unfold S.vm_step at 1. cbn [S.code S.ip S.stack S.frames S.globals S.heap]. rewrite E1.
      unfold S.next_with. cbn [S.code S.ip S.stack S.frames S.globals S.heap app S.const_mval].
      cbn [S.vm_run]. unfold S.vm_step at 1. cbn [S.code S.ip S.stack S.frames S.globals S.heap]. rewrite E2.
      cbn [S.unsnoc]. unfold S.do_return. cbn [S.code S.ip S.stack S.frames S.globals S.heap]. reflexivity. }
    destruct (s_star_run _ _ _ Hst _ _ H3) as [k' Hk'].
    exists k', mv, MG', H'. eexists. repeat split; eauto; reflexivity.
  - destruct Hs as (s' & Hst & He). eapply s_star_run with (k := 1) in Hst.
    + destruct Hst as [k' Hk']. exists k'. exact Hk'.
    + simpl. rewrite He. auto.
Qed.

Lemma s_sim_defs : forall limit tco n ds st MG H, Srel tco (l_store st) H -> Grel tco (l_glob st) MG -> n <= limit ->
  forallb (fun d => L.wf [] 0 (snd d)) ds = true ->
  forall x, lrun_defs n st ds = Some x ->
  match x with
  | inl st' => exists k MG' H', Srel tco (l_store st') H' /\ Grel tco (l_glob st') MG' /\
                 forall k', k <= k' -> L.vm_defs limit tco false k' MG H ds = inr (MG', H')
  | inr ek => exists k, forall k', k <= k' -> L.vm_defs limit tco false k' MG H ds = inl (S.RErr ek)
  end.
Proof.
  intros limit tco n ds. induction ds as [|[y e] ds IH]; intros st MG H HS HG Hn Hwfs x Hx; simpl in Hx.
  - inversion Hx; subst. exists 0, MG, H. repeat split; auto.
  - simpl in Hwfs. apply andb_true_iff in Hwfs. destruct Hwfs as [Hw1 Hw2].
    destruct (leval n [] e st) as [[v r1 st1|ek]|] eqn:He; try discriminate.
    + destruct (s_sim_define limit tco st MG H HS HG n y e (LVal v r1 st1) He Hn Hw1)
        as (k1 & mv & MG1 & H1 & s' & Hrel & HS1 & HG1 & Hgl & Hhp & Hrun).
      specialize (IH (mkL (l_store st1) ((y, v) :: l_glob st1)) ((y, mv) :: MG1) H1 HS1
                     (s_Grel_cons _ _ _ _ _ _ HG1 Hrel) Hn Hw2 x Hx).
      destruct x as [st'|ek].
      * destruct IH as (k2 & MG' & H' & HS' & HG' & Hk2). exists (Nat.max k1 k2), MG', H'. repeat split; auto.
        intros k' Hk'. simpl. unfold L.finish.
        rewrite (s_vm_run_mono limit k1 _ _ Hrun) by (try discriminate; lia).
        rewrite Hgl, Hhp. apply Hk2. lia.
      * destruct IH as (k2 & Hk2). exists (Nat.max k1 k2).
        intros k' Hk'. simpl. unfold L.finish.
        rewrite (s_vm_run_mono limit k1 _ _ Hrun) by (try discriminate; lia).
        rewrite Hgl, Hhp. apply Hk2. lia.
    + inversion Hx; subst x.
      destruct (s_sim_define limit tco st MG H HS HG n y e (LErr ek) He Hn Hw1) as (k1 & Hrun).
      exists k1. intros k' Hk'. simpl. unfold L.finish.
      rewrite (s_vm_run_mono limit k1 _ _ Hrun) by (try discriminate; lia). auto.
Qed.

Lemma s_sim_program : forall limit tco n ds main res,
  lrun_program n ds main = Some res -> n <= limit -> L.wf_program ds main = true ->
  match res with
  | LVal v _ _ => exists k mv s', vrel tco v mv /\ L.vm_program limit tco false k ds main = S.RDone mv s'
  | LErr ek => exists k, L.vm_program limit tco false k ds main = S.RErr ek
  end.
Proof.
  intros limit tco n ds main res H Hn Hwp. unfold lrun_program in H.
  unfold L.wf_program in Hwp. apply andb_true_iff in Hwp. destruct Hwp as [Hwd Hwm].
  destruct (lrun_defs n (mkL [] lprim_globals) ds) as [[st'|ek]|] eqn:Hd; try discriminate.
  - destruct (s_sim_defs limit tco n ds (mkL [] lprim_globals) S.prim_globals [] (Forall2_nil _) (s_Grel_prims tco) Hn Hwd _ Hd)
      as (k1 & MG' & H' & HS' & HG' & Hk1).
    pose proof (s_sim_top limit tco st' MG' H' HS' HG' n main res H Hn Hwm) as Ht.
    destruct res as [v r2 st2|ek].
    + destruct Ht as (k2 & mv & MG2 & H2 & Hrel & _ & _ & Hrun). exists (Nat.max k1 k2), mv. eexists. split; eauto.
      unfold L.vm_program. rewrite Hk1 by lia. unfold L.finish.
      eapply (s_vm_run_mono limit k2 _ _ Hrun); [discriminate|lia].
    + destruct Ht as (k2 & Hrun). exists (Nat.max k1 k2).
      unfold L.vm_program. rewrite Hk1 by lia. unfold L.finish.
      eapply (s_vm_run_mono limit k2 _ _ Hrun); [discriminate|lia].
  - inversion H; subst res.
    destruct (s_sim_defs limit tco n ds (mkL [] lprim_globals) S.prim_globals [] (Forall2_nil _) (s_Grel_prims tco) Hn Hwd _ Hd) as (k1 & Hk1).
    exists k1. unfold L.vm_program. rewrite Hk1; auto.
Qed.

Lemma s_vrel_canon : forall tco v mv, vrel tco v mv -> canon_lval v = S.canon_mval mv.
Proof.
  intros tco. fix IH 3. intros v mv H. destruct H; simpl; auto.
  f_equal. f_equal. f_equal. induction H; simpl; auto. f_equal; auto.
Qed.

Lemma s_program_render : forall limit tco n ds main res,
  lrun_program n ds main = Some res -> n <= limit -> L.wf_program ds main = true ->
  exists k, S.render_run (L.vm_program limit tco false k ds main) = render_lresult (Some res).
Proof.
  intros limit tco n ds main res H Hn Hwp.
  pose proof (s_sim_program limit tco n ds main res H Hn Hwp) as Hs. destruct res as [v r st|ek].
  - destruct Hs as (k & mv & s' & Hrel & Hrun). exists k. rewrite Hrun. simpl.
    rewrite (s_vrel_canon _ _ _ Hrel). auto.
  - destruct Hs as (k & Hrun). exists k. rewrite Hrun. auto.
Qed.

