(* C01, assignment layer — forward simulation between CoreS.beval (the language after assignment
   conversion: immutable locals, boxes in a store, mutable globals) and the compiled bytecode on the VM
   with a heap of lib/BytecodeS.v.  Same structure as Proofs_C01.v, with the store / heap and the
   globals threaded through: boxes are allocated sequentially on both sides, so a source box and its VM
   box have the SAME address and the store relation is pointwise ([Srel]). *)
From Coq Require Import String.
From Coq Require Import ZArith List Bool Lia Arith.
From SV Require Import lib.Core lib.CoreS lib.Bytecode lib.BytecodeS c01.Proofs_C01.
Import ListNotations.
Open Scope list_scope.

Lemma s_unsnoc_app : forall A (l : list A) x, S.unsnoc (l ++ [x]) = Some (l, x).
Proof. induction l; intros; simpl; auto. rewrite IHl. auto. Qed.

Lemma bfv_app_eq : forall x f args, S.bfv x (BApp f args) = S.bfv_list x args || S.bfv x f.
Proof. intros. simpl. f_equal. induction args; simpl; auto. rewrite IHargs. auto. Qed.

Lemma bfv_let_eq : forall x bs body,
  S.bfv x (BLet bs body) = S.bfv_list x (map snd bs) || (negb (memb x (map fst bs)) && S.bfv x body).
Proof. intros. simpl. f_equal. induction bs as [|[y a] bs]; simpl; auto. rewrite IHbs. auto. Qed.

Lemma Forall2_nth : forall A B (R : A -> B -> Prop) l1 l2, Forall2 R l1 l2 -> forall a,
  match nth_error l1 a, nth_error l2 a with
  | Some x, Some y => R x y
  | None, None => True
  | _, _ => False
  end.
Proof. induction 1; intros [|a]; simpl; auto. apply IHForall2. Qed.

Lemma Forall2_update : forall (R : bval -> S.mval -> Prop) l1 l2, Forall2 R l1 l2 -> forall a v mv, R v mv ->
  Forall2 R (bupdate a v l1) (S.mupdate a mv l2).
Proof. induction 1; intros [|a] v mv Hv; simpl; constructor; auto. Qed.

Section SimS.
  Variable limit : nat.
  Variable tco : bool.
  Notation star := (S.star limit).
  Notation vm_step := (S.vm_step limit).

  Lemma compile_app_eq : forall ce d tail f args,
    S.compile tco ce d tail (BApp f args) =
    S.compile_list tco ce d args ++ S.compile tco ce (d + length args) false f
      ++ [if tail then TAILCALL (length args) else FUNC (length args)].
  Proof.
    intros. simpl. f_equal. revert d. induction args; simpl; intros; auto. rewrite IHargs. auto.
  Qed.

  Lemma compile_let_eq : forall ce d tail bs body,
    S.compile tco ce d tail (BLet bs body) =
    BEGINSCOPE :: S.compile_list tco ce d (map snd bs)
      ++ S.compile tco (bind_slots (map fst bs) d ce) (d + length bs) tail body ++ [LETENDSCOPE d].
  Proof.
    intros. simpl. f_equal. f_equal. revert d. induction bs as [|[y a] bs]; simpl; intros; auto.
    rewrite IHbs. auto.
  Qed.

  (* ---------------------------------------------------------------- relations *)
  Inductive vrel : bval -> S.mval -> Prop :=
  | vr_int : forall z, vrel (BVInt z) (S.MInt z)
  | vr_bool : forall b, vrel (BVBool b) (S.MBool b)
  | vr_void : vrel BVVoid S.MVoid
  | vr_prim : forall p, vrel (BVPrim p) (S.MPrim p)
  | vr_clo : forall ps rest body r fvs caps,
      (forall j x, nth_error fvs j = Some x ->
         exists v mv, Core.lookup x r = Some v /\ nth_error caps j = Some mv /\ vrel v mv) ->
      (forall x, S.bfv x body = true -> memb x (params ps rest) = false -> ~ In x fvs -> Core.lookup x r = None) ->
      vrel (BVClo ps rest body r)
           (S.MClo (length (params ps rest)) (rest_flag rest)
                   (S.compile tco (body_cenv (params ps rest) fvs) (length (params ps rest)) tco body ++ [POPPURE]) caps)
  | vr_list : forall vs mvs, Forall2 vrel vs mvs -> vrel (BVList vs) (S.MList mvs)
  | vr_box : forall a, vrel (BVBox a) (S.MBox a).         (* same address on both sides *)

  Definition fetch (l : loc) (slots caps : list S.mval) : option S.mval :=
    match l with Slot i => nth_error slots i | Cap j => nth_error caps j end.

  Definition R1 (r : benv) (ce : cenv) (slots caps : list S.mval) : Prop :=
    forall x l, Core.lookup x ce = Some l ->
      exists v mv, Core.lookup x r = Some v /\ fetch l slots caps = Some mv /\ vrel v mv.

  Definition R2 (e : bexpr) (r : benv) (ce : cenv) : Prop :=
    forall x, S.bfv x e = true -> Core.lookup x ce = None -> Core.lookup x r = None.

  Definition R2l (es : list bexpr) (r : benv) (ce : cenv) : Prop :=
    forall x, S.bfv_list x es = true -> Core.lookup x ce = None -> Core.lookup x r = None.

  Definition Grel (G : benv) (MG : list (ident * S.mval)) : Prop :=
    forall g, match Core.lookup g G, Core.lookup g MG with
              | Some v, Some mv => vrel v mv
              | None, None => True
              | _, _ => False
              end.

  (* the box store and the VM heap: pointwise related, hence of the same length *)
  Definition Srel (st : list bval) (H : list S.mval) : Prop := Forall2 vrel st H.

  Definition frame_caps (fs : list S.frame) (caps : list S.mval) : Prop :=
    match fs with
    | f :: _ => exists a rs b, S.f_fn f = S.MClo a rs b caps
    | [] => caps = []
    end.

  Lemma R1_more_slots : forall r ce slots caps extra, R1 r ce slots caps -> R1 r ce (slots ++ extra) caps.
  Proof.
    intros r ce slots caps extra H x l Hl. destruct (H x l Hl) as (v & mv & A & B & C).
    exists v, mv. split; auto. split; auto. destruct l; simpl in *; auto.
    rewrite nth_error_app1; auto. apply nth_error_Some. congruence.
  Qed.

  Lemma R1_bind_one : forall r ce slots caps x v mv, R1 r ce slots caps -> vrel v mv ->
    R1 ((x, v) :: r) ((x, Slot (length slots)) :: ce) (slots ++ [mv]) caps.
  Proof.
    intros r ce slots caps x v mv H Hv y l Hl. simpl in *.
    destruct (String.eqb y x) eqn:E.
    - inversion Hl; subst. exists v, mv. split; auto. split; auto. simpl.
      replace (length slots) with (length slots + 0) by lia. rewrite nth_error_app_plus. auto.
    - apply (R1_more_slots _ _ _ _ [mv]) in H. apply H; auto.
  Qed.

  Lemma R1_bind : forall xs vs mvs r ce slots caps, R1 r ce slots caps -> Forall2 vrel vs mvs ->
    length xs = length vs ->
    R1 (bind xs vs r) (bind_slots xs (length slots) ce) (slots ++ mvs) caps.
  Proof.
    induction xs; intros vs mvs r ce slots caps H HF HL; simpl.
    - destruct vs; apply R1_more_slots; auto.
    - destruct vs as [|v vs]; [simpl in HL; discriminate|]. inversion HF; subst.
      replace (slots ++ y :: l') with ((slots ++ [y]) ++ l') by (rewrite <- app_assoc; auto).
      replace (S (length slots)) with (length (slots ++ [y])) by (rewrite app_length; simpl; lia).
      apply IHxs; auto. apply R1_bind_one; auto.
  Qed.

  Lemma vrel_atom : forall v mv, vrel v mv -> bval_atom v = S.mval_atom mv.
  Proof. destruct 1; simpl; auto. Qed.

  Lemma vrel_atoms : forall vs mvs, Forall2 vrel vs mvs -> map bval_atom vs = map S.mval_atom mvs.
  Proof. induction 1; simpl; auto. f_equal; auto. apply vrel_atom; auto. Qed.

  Lemma vrel_of_atom : forall a, vrel (atom_bval a) (S.atom_mval a).
  Proof. destruct a; simpl; constructor. Qed.

  Lemma vrel_truthy : forall v mv, vrel v mv -> atom_truthy (bval_atom v) = S.mtruthy mv.
  Proof. intros. unfold S.mtruthy. erewrite vrel_atom; eauto. Qed.

  Lemma vrel_const : forall c, vrel (bconst c) (S.const_mval c).
  Proof. destruct c; simpl; constructor. Qed.

  (* primitives, the box primitives included: related operands and related store/heap give related
     results and related store/heap; globals untouched *)
  Lemma mprim_rel : forall p vs mvs st G Hh, Forall2 vrel vs mvs -> Srel st Hh ->
    match bprim_apply p vs (mkB st G) with
    | BVal v st' => exists mv H', S.mprim_apply p mvs Hh = inl (mv, H') /\ vrel v mv /\
                                  Srel (b_store st') H' /\ b_glob st' = G
    | BErr k => S.mprim_apply p mvs Hh = inr k
    end.
  Proof.
    intros p vs mvs st G Hh HF HS. destruct p; simpl.
    - rewrite (vrel_atoms _ _ HF). destruct (prim_sem p (map S.mval_atom mvs)); auto.
      simpl. eexists. eexists. split; [reflexivity|]. split; [apply vrel_of_atom|]. auto.
    - inversion HF as [|v mv vs' mvs' Hv HF']; subst; auto.
      inversion HF'; subst; auto. simpl.
      eexists. eexists. split; [reflexivity|].
      rewrite (Forall2_len _ _ _ _ _ HS). split; [constructor|]. split; auto.
      apply Forall2_app2; auto.
    - inversion HF as [|v mv vs' mvs' Hv HF']; subst; auto.
      inversion Hv; subst; inversion HF'; subst; simpl; auto.
      pose proof (Forall2_nth _ _ _ _ _ HS a) as Hn.
      destruct (nth_error st a), (nth_error Hh a); try tauto.
      simpl. eexists. eexists. split; [reflexivity|]. auto.
    - inversion HF as [|v mv vs' mvs' Hv HF']; subst; auto.
      inversion HF' as [|v2 mv2 vs2 mvs2 Hv2 HF2]; subst.
      { inversion Hv; subst; simpl; auto. }
      inversion Hv; subst; inversion HF2; subst; simpl; auto.
      pose proof (Forall2_nth _ _ _ _ _ HS a) as Hn.
      destruct (nth_error st a), (nth_error Hh a); try tauto.
      simpl. eexists. eexists. split; [reflexivity|]. split; auto. split; auto.
      apply Forall2_update; auto.
  Qed.

  (* ---------------------------------------------------------------- the return sequence *)
  Lemma run_return : forall C pc d, returns_from C pc d ->
    forall below slots mv f fs' MG H, length below = S.f_sp f -> length slots = d ->
    star (S.mkVM C pc (below ++ slots ++ [mv]) (f :: fs') MG H)
         (S.mkVM (S.f_ret_code f) (S.f_ret_ip f) (below ++ [mv]) fs' MG H).
  Proof.
    induction 1; intros below slots mv f fs' MG Hh Hb Hs.
    - apply S.star_one. unfold S.vm_step. simpl. rewrite H.
      rewrite app_assoc, s_unsnoc_app. unfold S.do_return. simpl.
      rewrite app_length, <- Hb.
      replace (Nat.leb (length below) (length below + length slots)) with true
        by (symmetry; apply Nat.leb_le; lia).
      rewrite firstn_app_exact. auto.
    - eapply S.star_step; [|apply IHreturns_from; eauto].
      unfold S.vm_step. simpl. rewrite H. auto.
    - eapply S.star_step; [|apply (IHreturns_from below (firstn m slots) mv f fs'); auto].
      + unfold S.vm_step. simpl. rewrite H.
        rewrite app_assoc, s_unsnoc_app. rewrite app_length, <- Hb.
        replace (Nat.leb (length below + m) (length below + length slots)) with true
          by (symmetry; apply Nat.leb_le; lia).
        unfold S.next_with. simpl. rewrite firstn_app_more. rewrite <- app_assoc. auto.
      + rewrite firstn_length. lia.
  Qed.

  Definition fall_state (C : list instr) (pc' : nat) (below slots : list S.mval) (fs : list S.frame)
             (mv : S.mval) MG H :=
    S.mkVM C pc' (below ++ slots ++ [mv]) fs MG H.

  Definition ret_state (f : S.frame) (below : list S.mval) (fs' : list S.frame) (mv : S.mval) MG H :=
    S.mkVM (S.f_ret_code f) (S.f_ret_ip f) (below ++ [mv]) fs' MG H.

  Definition outcome (tail : bool) (s : S.vmstate) C pc' below slots fs mv MG H : Prop :=
    if tail then exists f fs', fs = f :: fs' /\ star s (ret_state f below fs' mv MG H)
    else star s (fall_state C pc' below slots fs mv MG H).

  Definition tail_ok (tail : bool) (C : list instr) (pc' d : nat) (fs : list S.frame) : Prop :=
    tail = true -> fs <> [] /\ returns_from C pc' d.

  Lemma outcome_of_fall : forall tail s C pc' below slots fs mv MG H,
    star s (fall_state C pc' below slots fs mv MG H) ->
    tail_ok tail C pc' (length slots) fs -> length below = S.cur_sp fs ->
    outcome tail s C pc' below slots fs mv MG H.
  Proof.
    intros tail s C pc' below slots fs mv MG Hh Hs Ht Hb. destruct tail; simpl; auto.
    destruct (Ht eq_refl) as [Hne Hr]. destruct fs as [|f fs']; [congruence|].
    exists f, fs'. split; auto. eapply S.star_trans; eauto.
    eapply run_return; eauto.
  Qed.

  Lemma outcome_to_ret : forall tl s Cb pc' below' slots' f fs' mv MG H,
    outcome tl s Cb pc' below' slots' (f :: fs') mv MG H ->
    returns_from Cb pc' (length slots') -> length below' = S.f_sp f ->
    star s (ret_state f below' fs' mv MG H).
  Proof.
    intros tl s Cb pc' below' slots' f fs' mv MG Hh Ho Hr Hb. destruct tl; simpl in Ho.
    - destruct Ho as (f1 & fs1 & Heq & Hst). inversion Heq; subst. auto.
    - eapply S.star_trans; [exact Ho|]. eapply run_return; eauto.
  Qed.

  (* ---------------------------------------------------------------- closure construction *)
  Lemma fetch_caps_ok : forall r ce below slots caps fs,
    R1 r ce slots caps -> frame_caps fs caps -> length below = S.cur_sp fs ->
    forall l, (forall x, In x l -> In x (map fst ce)) ->
    exists caps', S.fetch_caps (below ++ slots) fs (map (capsrc_of ce) l) = Some caps' /\
      forall j x, nth_error l j = Some x ->
        exists v mv, Core.lookup x r = Some v /\ nth_error caps' j = Some mv /\ vrel v mv.
  Proof.
    intros r ce below slots caps fs HR1 Hfc Hb. induction l as [|x l IH]; intros Hin.
    - exists []. split; auto. intros [|j] y Hy; discriminate.
    - destruct IH as (caps' & Hf & Hall). { intros; apply Hin; simpl; auto. }
      destruct (lookup_in_fst _ x ce (Hin x (or_introl eq_refl))) as [lc Hlc].
      destruct (HR1 x lc Hlc) as (v & mv & Hv & Hfetch & Hrel).
      exists (mv :: caps'). split.
      + simpl. rewrite Hf. unfold capsrc_of. rewrite Hlc. destruct lc; simpl in *.
        * rewrite <- Hb, nth_error_app_plus, Hfetch. auto.
        * destruct fs as [|f fs0]; simpl in Hfc.
          -- subst caps. destruct n; discriminate.
          -- destruct Hfc as (a & rs & b & ->). rewrite Hfetch. auto.
      + intros [|j] y Hy; simpl in *.
        * inversion Hy; subst. eauto.
        * eauto.
  Qed.

  Lemma captured_in : forall ce ps body x, In x (S.bcaptured ce ps body) -> In x (map fst ce).
  Proof. unfold S.bcaptured. intros. apply filter_In in H. destruct H as [H _]. apply in_rev; auto. Qed.

  Lemma captured_complete : forall ce ps body x, S.bfv x body = true -> memb x ps = false ->
    In x (map fst ce) -> In x (S.bcaptured ce ps body).
  Proof.
    unfold S.bcaptured. intros. apply filter_In. split. apply in_rev. rewrite rev_involutive; auto.
    rewrite H, H0. auto.
  Qed.

  (* ---------------------------------------------------------------- call steps *)
  Lemma call_step_notproc : forall tail C pcC st mf n fs MG H,
    nth_error C pcC = Some (call_instr tail n) ->
    match mf with S.MClo _ _ _ _ | S.MPrim _ => False | _ => True end ->
    vm_step (S.mkVM C pcC (st ++ [mf]) fs MG H) = S.SErr ENotProc.
  Proof.
    intros. unfold S.vm_step. simpl. rewrite H0. unfold call_instr.
    destruct tail; rewrite s_unsnoc_app; destruct mf; simpl in *; tauto.
  Qed.

  Lemma call_step_prim : forall tail C pcC st0 mvs p fs MG H,
    nth_error C pcC = Some (call_instr tail (length mvs)) ->
    vm_step (S.mkVM C pcC ((st0 ++ mvs) ++ [S.MPrim p]) fs MG H) =
    match S.mprim_apply p mvs H with
    | inl (v, H') => S.SNext (S.mkVM C (S pcC) (st0 ++ [v]) fs MG H')
    | inr k => S.SErr k
    end.
  Proof.
    intros. unfold S.vm_step. simpl. rewrite H0. unfold call_instr.
    destruct tail; rewrite s_unsnoc_app; simpl; unfold S.call_prim; simpl;
      (replace (Nat.leb (length mvs) (length (st0 ++ mvs))) with true
         by (symmetry; apply Nat.leb_le; rewrite app_length; lia));
      rewrite skipn_len_app, firstn_len_app; destruct (S.mprim_apply p mvs H) as [[v h]|k]; auto.
  Qed.

  Lemma call_step_arity : forall tail C pcC st arity rest body caps n fs MG H,
    nth_error C pcC = Some (call_instr tail n) -> S.adjust_arity arity rest n st = inr EArity ->
    vm_step (S.mkVM C pcC (st ++ [S.MClo arity rest body caps]) fs MG H) = S.SErr EArity.
  Proof.
    intros. unfold S.vm_step. simpl. rewrite H0. unfold call_instr.
    destruct tail; rewrite s_unsnoc_app; simpl; rewrite H1; auto.
  Qed.

  Lemma call_step_func : forall C pcC st0 mvs mws n arity rest body caps fs MG H,
    nth_error C pcC = Some (FUNC n) ->
    S.adjust_arity arity rest n (st0 ++ mvs) = inl (Some (st0 ++ mws)) -> arity = length mws ->
    S (length fs) < limit ->
    vm_step (S.mkVM C pcC ((st0 ++ mvs) ++ [S.MClo arity rest body caps]) fs MG H) =
    S.SNext (S.mkVM body 0 (st0 ++ mws)
                (S.mkFrame (length st0) (S.MClo arity rest body caps) (S pcC) C :: fs) MG H).
  Proof.
    intros C pcC st0 mvs mws n arity rest body caps fs MG Hh H Hadj -> Hl.
    unfold S.vm_step. simpl. rewrite H. rewrite s_unsnoc_app. simpl. rewrite Hadj.
    replace (Nat.leb (length mws) (length (st0 ++ mws))) with true
      by (symmetry; apply Nat.leb_le; rewrite app_length; lia).
    replace (Nat.leb limit (S (length fs))) with false by (symmetry; apply Nat.leb_gt; lia).
    rewrite app_length. replace (length st0 + length mws - length mws) with (length st0) by lia. auto.
  Qed.

  Lemma call_step_tail : forall C pcC below slots mvs mws n arity rest body caps f0 fs0 MG H,
    nth_error C pcC = Some (TAILCALL n) ->
    S.adjust_arity arity rest n ((below ++ slots) ++ mvs) = inl (Some ((below ++ slots) ++ mws)) ->
    arity = length mws -> length below = S.f_sp f0 ->
    vm_step (S.mkVM C pcC (((below ++ slots) ++ mvs) ++ [S.MClo arity rest body caps]) (f0 :: fs0) MG H) =
    S.SNext (S.mkVM body 0 (below ++ mws)
                (S.mkFrame (S.f_sp f0) (S.MClo arity rest body caps) (S.f_ret_ip f0) (S.f_ret_code f0) :: fs0) MG H).
  Proof.
    intros C pcC below slots mvs mws n arity rest body caps f0 fs0 MG Hh H Hadj -> H0.
    unfold S.vm_step. simpl. rewrite H. rewrite s_unsnoc_app. simpl. rewrite Hadj. simpl.
    replace (Nat.leb (length mws) (length ((below ++ slots) ++ mws))) with true
      by (symmetry; apply Nat.leb_le; rewrite !app_length; lia).
    replace (Nat.leb (S.f_sp f0) (length ((below ++ slots) ++ mws) - length mws)) with true
      by (symmetry; apply Nat.leb_le; rewrite !app_length; lia).
    simpl. rewrite <- H0. rewrite <- app_assoc. rewrite firstn_app_exact.
    rewrite app_assoc. rewrite skipn_len_app. auto.
  Qed.

  Lemma adjust_rest : forall a n st0 mvs, n = length mvs -> 1 <= a -> a - 1 <= n ->
    S.adjust_arity a true n (st0 ++ mvs) =
    inl (Some (st0 ++ firstn (a - 1) mvs ++ [S.MList (skipn (a - 1) mvs)])).
  Proof.
    intros a n st0 mvs -> Ha Hn. cbv beta zeta delta [S.adjust_arity].
    destruct (Nat.ltb (length mvs) (a - 1)) eqn:E1; [apply Nat.ltb_lt in E1; lia|].
    destruct (Nat.leb (1 + length mvs - a) (length (st0 ++ mvs))) eqn:E2.
    2:{ apply Nat.leb_gt in E2. rewrite app_length in E2. lia. }
    replace (length (st0 ++ mvs) - (1 + length mvs - a)) with (length st0 + (a - 1))
      by (rewrite app_length; lia).
    rewrite firstn_app_more, skipn_app_plus, <- app_assoc. reflexivity.
  Qed.

  Lemma adjust_ok : forall ps rest vs xs ws mvs st0,
    bcall_args ps rest vs = Some (xs, ws) -> Forall2 vrel vs mvs ->
    exists mws, S.adjust_arity (length (params ps rest)) (rest_flag rest) (length mvs) (st0 ++ mvs) = inl (Some (st0 ++ mws)) /\
      Forall2 vrel ws mws /\ xs = params ps rest /\ length xs = length ws.
  Proof.
    intros ps rest vs xs ws mvs st0 Hc HF. pose proof (Forall2_len _ _ _ _ _ HF) as Hl.
    unfold bcall_args in Hc. destruct rest as [r|]; cbn [params rest_flag].
    - destruct (Nat.leb (length ps) (length vs)) eqn:E; [|discriminate]. apply Nat.leb_le in E.
      inversion Hc; subst xs ws. clear Hc.
      exists (firstn (length ps) mvs ++ [S.MList (skipn (length ps) mvs)]).
      rewrite adjust_rest; try (rewrite app_length; simpl; lia); auto.
      rewrite app_length. cbn [length]. replace (length ps + 1 - 1) with (length ps) by lia.
      repeat split; auto.
      + apply Forall2_app2. apply Forall2_firstn; auto. constructor; [|constructor].
        constructor. apply Forall2_skipn; auto.
      + rewrite !app_length. rewrite firstn_length. cbn [length]. lia.
    - destruct (Nat.eqb (length ps) (length vs)) eqn:E; [|discriminate]. apply Nat.eqb_eq in E.
      inversion Hc; subst xs ws. exists mvs. unfold S.adjust_arity.
      replace (Nat.eqb (length ps) (length mvs)) with true by (symmetry; apply Nat.eqb_eq; lia).
      auto.
  Qed.

  Lemma adjust_err : forall ps rest vs n st,
    bcall_args ps rest vs = None -> length vs = n ->
    S.adjust_arity (length (params ps rest)) (rest_flag rest) n st = inr EArity.
  Proof.
    intros ps rest vs n st Hc <-. unfold bcall_args in Hc. destruct rest as [r|]; cbn [params rest_flag].
    - destruct (Nat.leb (length ps) (length vs)) eqn:E; [discriminate|]. apply Nat.leb_gt in E.
      cbv beta zeta delta [S.adjust_arity]. rewrite app_length. cbn [length].
      destruct (Nat.ltb (length vs) (length ps + 1 - 1)) eqn:E1; auto. apply Nat.ltb_ge in E1. lia.
    - destruct (Nat.eqb (length ps) (length vs)) eqn:E; [discriminate|]. unfold S.adjust_arity. rewrite E. auto.
  Qed.

  Lemma entry_R1 : forall ps fvs r' caps' vs mvs,
    (forall j x, nth_error fvs j = Some x ->
       exists v mv, Core.lookup x r' = Some v /\ nth_error caps' j = Some mv /\ vrel v mv) ->
    Forall2 vrel vs mvs -> length ps = length vs ->
    R1 (bind ps vs r') (body_cenv ps fvs) mvs caps'.
  Proof.
    intros. unfold body_cenv.
    change mvs with ([] ++ mvs). change 0 with (length (@nil S.mval)).
    apply R1_bind; auto.
    intros x l Hl. unfold caps_cenv in Hl. apply lookup_caps_cenv in Hl. destruct Hl as (j & -> & Hj).
    destruct (H j x Hj) as (v & mv & A & B & Cc). exists v, mv. simpl. auto.
  Qed.

  Lemma entry_R2 : forall ps fvs r' body (vs : list bval),
    (forall x, S.bfv x body = true -> memb x ps = false -> ~ In x fvs -> Core.lookup x r' = None) ->
    R2 body (bind ps vs r') (body_cenv ps fvs).
  Proof.
    intros ps fvs r' body vs H y Hy Hnone. unfold body_cenv in Hnone.
    apply lookup_bind_slots_none in Hnone. destruct Hnone as [Hm Hn].
    rewrite lookup_bind_notin; auto. apply H; auto.
    unfold caps_cenv in Hn. eapply lookup_caps_cenv_none; eauto.
  Qed.

  (* ---------------------------------------------------------------- the simulation *)
  Definition sim_concl (res : bresult) (tail : bool) (s : S.vmstate) C pc' below slots fs : Prop :=
    match res with
    | BVal v st' => exists mv MG' H', vrel v mv /\ Srel (b_store st') H' /\ Grel (b_glob st') MG' /\
                                      outcome tail s C pc' below slots fs mv MG' H'
    | BErr k => exists s', star s s' /\ vm_step s' = S.SErr k
    end.

  Definition sim_at (n : nat) : Prop :=
    forall r e st res, beval n r e st = Some res ->
    forall ce tail C pc below slots caps fs MG H,
      code_at C pc (S.compile tco ce (length slots) tail e) ->
      length below = S.cur_sp fs -> frame_caps fs caps ->
      R1 r ce slots caps -> R2 e r ce ->
      Srel (b_store st) H -> Grel (b_glob st) MG ->
      length fs + n <= limit ->
      tail_ok tail C (pc + length (S.compile tco ce (length slots) tail e)) (length slots) fs ->
      sim_concl res tail (S.mkVM C pc (below ++ slots) fs MG H)
                C (pc + length (S.compile tco ce (length slots) tail e)) below slots fs.

  Lemma bevals_length : forall ev es st vs st', bevals ev es st = Some (inl (vs, st')) -> length vs = length es.
  Proof.
    induction es; simpl; intros.
    - inversion H; auto.
    - destruct (ev a st) as [[v st1|k]|]; try discriminate.
      destruct (bevals ev es st1) as [[[vs' st2]|k]|] eqn:E; try discriminate.
      inversion H; subst. simpl. f_equal. eauto.
  Qed.

  Lemma sim_list : forall n, sim_at n -> forall r es st x, bevals (beval n r) es st = Some x ->
    forall ce C pc below slots caps fs MG H,
      code_at C pc (S.compile_list tco ce (length slots) es) ->
      length below = S.cur_sp fs -> frame_caps fs caps ->
      R1 r ce slots caps -> R2l es r ce ->
      Srel (b_store st) H -> Grel (b_glob st) MG -> length fs + n <= limit ->
      match x with
      | inl (vs, st') => exists mvs MG' H', Forall2 vrel vs mvs /\ Srel (b_store st') H' /\ Grel (b_glob st') MG' /\
          star (S.mkVM C pc (below ++ slots) fs MG H)
               (S.mkVM C (pc + length (S.compile_list tco ce (length slots) es)) (below ++ slots ++ mvs) fs MG' H')
      | inr k => exists s', star (S.mkVM C pc (below ++ slots) fs MG H) s' /\ vm_step s' = S.SErr k
      end.
  Proof.
    intros n IH r es. induction es as [|e es IHes];
      intros st x Hev ce C pc below slots caps fs MG H Hc Hb Hfc HR1 HR2 HS HG Hlim.
    - simpl in Hev. inversion Hev; subst. exists [], MG, H. repeat split; auto. simpl.
      rewrite Nat.add_0_r, app_nil_r. constructor.
    - simpl in Hev. destruct (beval n r e st) as [[v st1|k]|] eqn:He; try discriminate.
      + simpl in Hc. apply code_at_app in Hc. destruct Hc as [Hc1 Hc2].
        assert (HR2e : R2 e r ce). { intros y Hy. apply HR2. simpl. rewrite Hy. auto. }
        assert (HR2r : R2l es r ce). { intros y Hy. apply HR2. simpl. rewrite Hy. apply orb_true_r. }
        pose proof (IH r e st (BVal v st1) He ce false C pc below slots caps fs MG H Hc1 Hb Hfc HR1 HR2e HS HG Hlim) as H1.
        destruct H1 as (mv & MG1 & H1' & Hmv & HS1 & HG1 & Hstar). { intros Hf; discriminate. }
        simpl in Hstar. unfold fall_state in Hstar.
        destruct (bevals (beval n r) es st1) as [[[vs st2]|k]|] eqn:Hes; try discriminate.
        * inversion Hev; subst x.
          specialize (IHes st1 (inl (vs, st2)) Hes ce C (pc + length (S.compile tco ce (length slots) false e))
                           below (slots ++ [mv]) caps fs MG1 H1').
          rewrite app_length in IHes. simpl in IHes. rewrite Nat.add_1_r in IHes.
          destruct IHes as (mvs & MG2 & H2 & HF & HS2 & HG2 & Hst2); auto. { apply R1_more_slots; auto. }
          exists (mv :: mvs), MG2, H2. split; [constructor; auto|]. split; auto. split; auto.
          eapply S.star_trans; [exact Hstar|]. simpl.
          rewrite app_length, Nat.add_assoc.
          replace (below ++ slots ++ mv :: mvs) with (below ++ (slots ++ [mv]) ++ mvs)
            by (rewrite <- app_assoc; auto).
          exact Hst2.
        * inversion Hev; subst x.
          specialize (IHes st1 (inr k) Hes ce C (pc + length (S.compile tco ce (length slots) false e))
                           below (slots ++ [mv]) caps fs MG1 H1').
          rewrite app_length in IHes. simpl in IHes. rewrite Nat.add_1_r in IHes.
          destruct IHes as (s' & Hst2 & Herr); auto. { apply R1_more_slots; auto. }
          exists s'. split; auto. eapply S.star_trans; [exact Hstar|]. exact Hst2.
      + inversion Hev; subst x.
        simpl in Hc. apply code_at_app in Hc. destruct Hc as [Hc1 Hc2].
        assert (HR2e : R2 e r ce). { intros y Hy. apply HR2. simpl. rewrite Hy. auto. }
        pose proof (IH r e st (BErr k) He ce false C pc below slots caps fs MG H Hc1 Hb Hfc HR1 HR2e HS HG Hlim) as H1.
        apply H1. intros Hf; discriminate.
  Qed.

  Lemma step_star : forall s s' s'', vm_step s = S.SNext s' -> star s' s'' -> star s s''.
  Proof. intros. econstructor; eauto. Qed.

  Lemma star_snoc : forall s s' s'', star s s' -> vm_step s' = S.SNext s'' -> star s s''.
  Proof. intros. eapply S.star_trans; eauto. apply S.star_one; auto. Qed.

  Lemma sim_concl_prefix : forall res tail s0 s C pc' below slots fs,
    star s0 s -> sim_concl res tail s C pc' below slots fs -> sim_concl res tail s0 C pc' below slots fs.
  Proof.
    intros res tail s0 s C pc' below slots fs Hs H. destruct res; simpl in *.
    - destruct H as (mv & MG' & H' & Hv & HS & HG & Ho). exists mv, MG', H'. repeat split; auto.
      unfold outcome in *. destruct tail.
      + destruct Ho as (f & fs' & -> & Hst). exists f, fs'. split; auto. eapply S.star_trans; eauto.
      + eapply S.star_trans; eauto.
    - destruct H as (s' & Hst & He). exists s'. split; auto. eapply S.star_trans; eauto.
  Qed.

  Lemma beval_fuel_pos : forall n r e st res, beval n r e st = Some res -> 1 <= n.
  Proof. destruct n; simpl; intros; [discriminate|lia]. Qed.

  Lemma sim_all : forall n, sim_at n.
  Proof.
    induction n as [|n IH]; intros r e st res Hev; [discriminate|].
    intros ce tail C pc below slots caps fs MG H Hc Hb Hfc HR1 HR2 HS HG Hlim Htail.
    assert (IH' : sim_at n) by exact IH.
    assert (Hlim' : length fs + n <= limit) by lia.
    destruct e as [c|x|ps rest e|fe args|e1 e2 e3|bs e|e1 e2|g e]; simpl in Hev.
    - (* BConst *)
      inversion Hev; subst res. simpl. exists (S.const_mval c), MG, H. split; [apply vrel_const|].
      split; auto. split; auto.
      simpl in Hc. apply code_at_cons in Hc. destruct Hc as [Hi _].
      apply outcome_of_fall; auto. apply S.star_one.
      unfold S.vm_step. simpl. rewrite Hi. unfold S.next_with. simpl.
      unfold fall_state. rewrite Nat.add_1_r, <- app_assoc. auto.
    - (* BVar *)
      simpl in Hc. apply code_at_cons in Hc. destruct Hc as [Hi _].
      destruct (Core.lookup x ce) as [lc|] eqn:Hce.
      + destruct (HR1 x lc Hce) as (v & mv & Hv & Hf & Hrel). rewrite Hv in Hev. inversion Hev; subst res.
        simpl. exists mv, MG, H. split; auto. split; auto. split; auto.
        apply outcome_of_fall; auto. apply S.star_one.
        unfold S.vm_step. simpl. rewrite Hi. destruct lc; simpl in Hf.
        * rewrite <- Hb, nth_error_app_plus, Hf. unfold S.next_with, fall_state. simpl.
          rewrite Nat.add_1_r, <- app_assoc. auto.
        * destruct fs as [|f fs0]; simpl in Hfc.
          -- subst caps. destruct n0; discriminate.
          -- destruct Hfc as (a & rs & b & Hfn). rewrite Hfn, Hf. unfold S.next_with, fall_state. simpl.
             rewrite Nat.add_1_r, <- app_assoc. auto.
      + assert (Hr : Core.lookup x r = None). { apply HR2; auto. simpl. apply String.eqb_refl. }
        rewrite Hr in Hev. pose proof (HG x) as HGx.
        destruct (Core.lookup x (b_glob st)) as [v|] eqn:HxG.
        * inversion Hev; subst res. destruct (Core.lookup x MG) as [mv|] eqn:HxM; [|tauto].
          simpl. exists mv, MG, H. split; auto. split; auto. split; auto.
          apply outcome_of_fall; auto. apply S.star_one.
          unfold S.vm_step. simpl. rewrite Hi. simpl. rewrite HxM. unfold S.next_with, fall_state. simpl.
          rewrite Nat.add_1_r, <- app_assoc. auto.
        * inversion Hev; subst res. destruct (Core.lookup x MG) as [mv|] eqn:HxM; [tauto|].
          simpl. eexists. split; [apply S.star_refl|].
          unfold S.vm_step. simpl. rewrite Hi. simpl. rewrite HxM. auto.
    - (* BLam *)
      inversion Hev; subst res. simpl in Hc. apply code_at_cons in Hc. destruct Hc as [Hi _].
      set (xs := params ps rest) in *.
      destruct (fetch_caps_ok r ce below slots caps fs HR1 Hfc Hb (S.bcaptured ce xs e))
        as (caps' & Hfetch & Hall). { intros y Hy. eapply captured_in; eauto. }
      simpl. exists (S.MClo (length xs) (rest_flag rest)
                       (S.compile tco (body_cenv xs (S.bcaptured ce xs e)) (length xs) tco e ++ [POPPURE]) caps'), MG, H.
      split; [|split; [auto|split; [auto|]]].
      + unfold xs. constructor; auto.
        intros y Hfv Hps Hnot. apply HR2.
        * simpl. rewrite Hps, Hfv. auto.
        * destruct (Core.lookup y ce) eqn:Hy; auto. exfalso. apply Hnot.
          apply captured_complete; auto.
          assert (Hin : exists a, Core.lookup y ce = Some a) by eauto.
          clear - Hin. destruct Hin as [a Ha]. induction ce as [|[z b] ce]; simpl in *; [discriminate|].
          destruct (String.eqb y z) eqn:E; [apply String.eqb_eq in E; auto|auto].
      + apply outcome_of_fall; auto. apply S.star_one.
        unfold S.vm_step. simpl. rewrite Hi. simpl. rewrite Hfetch. unfold S.next_with, fall_state. simpl.
        rewrite Nat.add_1_r, <- app_assoc. auto.
    - (* BApp *)
      rewrite compile_app_eq in *. fold (call_instr tail (length args)) in *.
      remember (S.compile_list tco ce (length slots) args) as ca eqn:Eca.
      remember (S.compile tco ce (length slots + length args) false fe) as cf eqn:Ecf.
      set (pcC := pc + length ca + length cf) in *.
      replace (pc + length (ca ++ cf ++ [call_instr tail (length args)])) with (S pcC) in *
        by (unfold pcC; repeat (rewrite app_length; simpl); lia).
      apply code_at_app in Hc. destruct Hc as [Hca Hc].
      apply code_at_app in Hc. destruct Hc as [Hcf Hc]. fold pcC in Hc.
      apply code_at_cons in Hc. destruct Hc as [HiC _].
      assert (HRl : R2l args r ce). { intros y Hy. apply HR2. rewrite bfv_app_eq, Hy. auto. }
      assert (HRf : R2 fe r ce). { intros y Hy. apply HR2. rewrite bfv_app_eq, Hy. apply orb_true_r. }
      destruct (bevals (beval n r) args st) as [[[vs st1]|k]|] eqn:Hevs; try discriminate.
      2:{ inversion Hev; subst res. subst ca.
          exact (sim_list n IH' r args st (inr k) Hevs ce C pc below slots caps fs MG H Hca Hb Hfc HR1 HRl HS HG Hlim'). }
      subst ca.
      pose proof (sim_list n IH' r args st (inl (vs, st1)) Hevs ce C pc below slots caps fs MG H Hca Hb Hfc HR1 HRl HS HG Hlim') as H1.
      destruct H1 as (mvs & MG1 & H1' & HF & HS1 & HG1 & Hst1).
      assert (Hlen : length vs = length args) by (eapply bevals_length; eauto).
      assert (Hlenm : length mvs = length args) by (rewrite <- Hlen; symmetry; eapply Forall2_len; eauto).
      assert (Hls : length (slots ++ mvs) = length slots + length args) by (rewrite app_length; lia).
      set (pcF := pc + length (S.compile_list tco ce (length slots) args)) in *.
      assert (Hcf' : code_at C pcF (S.compile tco ce (length (slots ++ mvs)) false fe)).
      { rewrite Hls. subst cf. exact Hcf. }
      assert (HR1' : R1 r ce (slots ++ mvs) caps) by (apply R1_more_slots; auto).
      destruct (beval n r fe st1) as [[fv0 st2|k]|] eqn:Hef; try discriminate.
      2:{ inversion Hev; subst res.
          pose proof (IH' r fe st1 (BErr k) Hef ce false C pcF below (slots ++ mvs) caps fs MG1 H1' Hcf' Hb Hfc HR1' HRf HS1 HG1 Hlim') as H2.
          eapply sim_concl_prefix.
          - replace (below ++ slots ++ mvs) with (below ++ (slots ++ mvs)) in Hst1 by auto. exact Hst1.
          - apply H2. intros Hf; discriminate. }
      pose proof (IH' r fe st1 (BVal fv0 st2) Hef ce false C pcF below (slots ++ mvs) caps fs MG1 H1' Hcf' Hb Hfc HR1' HRf HS1 HG1 Hlim') as H2.
      destruct H2 as (mf & MG2 & H2' & Hrelf & HS2 & HG2 & Hst2). { intros Hf; discriminate. }
      simpl in Hst2. unfold fall_state in Hst2. rewrite Hls in Hst2. rewrite <- Ecf in Hst2. fold pcC in Hst2.
      eapply sim_concl_prefix.
      { eapply S.star_trans; [exact Hst1|exact Hst2]. }
      replace (below ++ (slots ++ mvs) ++ [mf]) with (((below ++ slots) ++ mvs) ++ [mf])
        by (rewrite <- !app_assoc; auto).
      inversion Hrelf; subst fv0 mf.
      + inversion Hev; subst res. simpl. eexists. split; [apply S.star_refl|].
        eapply call_step_notproc; eauto; simpl; auto.
      + inversion Hev; subst res. simpl. eexists. split; [apply S.star_refl|].
        eapply call_step_notproc; eauto; simpl; auto.
      + inversion Hev; subst res. simpl. eexists. split; [apply S.star_refl|].
        eapply call_step_notproc; eauto; simpl; auto.
      + (* primitive (the box primitives included) *)
        inversion Hev; subst res.
        pose proof (call_step_prim tail C pcC (below ++ slots) mvs p fs MG2 H2') as Hp.
        rewrite Hlenm in Hp. specialize (Hp HiC).
        destruct st2 as [sg2 gg2]. simpl in HS2, HG2.
        pose proof (mprim_rel p vs mvs sg2 gg2 H2' HF HS2) as Hpr.
        destruct (bprim_apply p vs (mkB sg2 gg2)) as [v st3|k].
        * destruct Hpr as (mv & H3 & Hma & Hrv & HS3 & Hg3). rewrite Hma in Hp.
          simpl. exists mv, MG2, H3. split; auto. split; auto. split; [rewrite Hg3; auto|].
          apply outcome_of_fall; auto. apply S.star_one. rewrite Hp. unfold fall_state.
          rewrite <- app_assoc. auto.
        * rewrite Hpr in Hp. simpl. eexists. split; [apply S.star_refl|]. exact Hp.
      + (* closure *)
        rename H0 into Hcaps, H1 into Hfree.
        set (xs := params ps rest) in *.
        destruct (bcall_args ps rest vs) as [[xs' ws]|] eqn:Hcargs.
        2:{ inversion Hev; subst res. simpl. eexists. split; [apply S.star_refl|].
            eapply call_step_arity; eauto. eapply adjust_err; eauto. }
        destruct (adjust_ok ps rest vs xs' ws mvs (below ++ slots) Hcargs HF) as (mws & Hadj & HFw & Hxs & Hlw).
        fold xs in Hxs, Hadj. subst xs'. rewrite Hlenm in Hadj.
        set (bodyc := S.compile tco (body_cenv xs fvs) (length xs) tco body) in *.
        assert (Hpm : length xs = length mws) by (rewrite Hlw; eapply Forall2_len; eauto).
        assert (HRe1 : R1 (bind xs ws r0) (body_cenv xs fvs) mws caps0) by (apply entry_R1; auto).
        assert (HRe2 : R2 body (bind xs ws r0) (body_cenv xs fvs)) by (apply entry_R2; auto).
        assert (Hcb : code_at (bodyc ++ [POPPURE]) 0 (S.compile tco (body_cenv xs fvs) (length mws) tco body)).
        { rewrite <- Hpm. apply code_at_zero. }
        assert (Hrf : returns_from (bodyc ++ [POPPURE])
                        (0 + length (S.compile tco (body_cenv xs fvs) (length mws) tco body)) (length mws)).
        { rewrite <- Hpm. apply rf_pop. simpl. fold bodyc. apply nth_error_mid. }
        set (clo := S.MClo (length xs) (rest_flag rest) (bodyc ++ [POPPURE]) caps0) in *.
        destruct tail.
        * destruct (Htail eq_refl) as [Hne _]. destruct fs as [|f0 fs0]; [congruence|].
          simpl in Hb.
          set (f0' := S.mkFrame (S.f_sp f0) clo (S.f_ret_ip f0) (S.f_ret_code f0)).
          assert (Hstep : vm_step (S.mkVM C pcC (((below ++ slots) ++ mvs) ++ [clo]) (f0 :: fs0) MG2 H2')
                          = S.SNext (S.mkVM (bodyc ++ [POPPURE]) 0 (below ++ mws) (f0' :: fs0) MG2 H2')).
          { unfold clo. eapply call_step_tail; eauto. }
          assert (Htk : tail_ok tco (bodyc ++ [POPPURE])
                          (0 + length (S.compile tco (body_cenv xs fvs) (length mws) tco body)) (length mws) (f0' :: fs0)).
          { intros _. split; [discriminate|exact Hrf]. }
          pose proof (IH' _ body st2 res Hev _ tco (bodyc ++ [POPPURE]) 0 below mws caps0 (f0' :: fs0) MG2 H2'
                          Hcb Hb (ex_intro _ _ (ex_intro _ _ (ex_intro _ _ eq_refl))) HRe1 HRe2 HS2 HG2) as H3.
          specialize (H3 ltac:(simpl in *; lia) Htk).
          destruct res as [v st3|k]; simpl in *.
          -- destruct H3 as (mv & MG3 & H3' & Hrel & HS3 & HG3 & Ho). exists mv, MG3, H3'. repeat split; auto.
             exists f0, fs0. split; auto.
             eapply step_star; [exact Hstep|].
             change (ret_state f0 below fs0 mv MG3 H3') with (ret_state f0' below fs0 mv MG3 H3').
             eapply outcome_to_ret; eauto.
          -- destruct H3 as (s' & Hst & He). exists s'. split; auto. eapply step_star; eauto.
        * set (fr := S.mkFrame (length (below ++ slots)) clo (S pcC) C).
          assert (Hstep : vm_step (S.mkVM C pcC (((below ++ slots) ++ mvs) ++ [clo]) fs MG2 H2')
                          = S.SNext (S.mkVM (bodyc ++ [POPPURE]) 0 ((below ++ slots) ++ mws) (fr :: fs) MG2 H2')).
          { unfold clo. eapply call_step_func; eauto.
            apply beval_fuel_pos in Hev. lia. }
          assert (Htk : tail_ok tco (bodyc ++ [POPPURE])
                          (0 + length (S.compile tco (body_cenv xs fvs) (length mws) tco body)) (length mws) (fr :: fs)).
          { intros _. split; [discriminate|exact Hrf]. }
          pose proof (IH' _ body st2 res Hev _ tco (bodyc ++ [POPPURE]) 0 (below ++ slots) mws caps0 (fr :: fs) MG2 H2'
                          Hcb eq_refl (ex_intro _ _ (ex_intro _ _ (ex_intro _ _ eq_refl))) HRe1 HRe2 HS2 HG2) as H3.
          specialize (H3 ltac:(simpl in *; lia) Htk).
          destruct res as [v st3|k]; simpl in *.
          -- destruct H3 as (mv & MG3 & H3' & Hrel & HS3 & HG3 & Ho). exists mv, MG3, H3'. repeat split; auto.
             eapply step_star; [exact Hstep|].
             assert (Hr : star (S.mkVM (bodyc ++ [POPPURE]) 0 ((below ++ slots) ++ mws) (fr :: fs) MG2 H2')
                               (ret_state fr (below ++ slots) fs mv MG3 H3')).
             { eapply outcome_to_ret; eauto. }
             unfold ret_state in Hr. simpl in Hr. unfold fall_state. rewrite app_assoc. exact Hr.
          -- destruct H3 as (s' & Hst & He). exists s'. split; auto. eapply step_star; eauto.
      + inversion Hev; subst res. simpl. eexists. split; [apply S.star_refl|].
        eapply call_step_notproc; eauto; simpl; auto.
      + (* a box is not a procedure *)
        inversion Hev; subst res. simpl. eexists. split; [apply S.star_refl|].
        eapply call_step_notproc; eauto; simpl; auto.
    - (* BIf *)
      remember (S.compile tco ce (length slots) false e1) as cc eqn:Ecc.
      remember (S.compile tco ce (length slots) tail e2) as ct eqn:Ect.
      remember (S.compile tco ce (length slots) tail e3) as cf eqn:Ecf.
      assert (Hcode : S.compile tco ce (length slots) tail (BIf e1 e2 e3) =
                      cc ++ [IF (length ct + 2)] ++ ct ++ [JMP (length cf + 1)] ++ cf)
        by (simpl; subst; auto).
      rewrite Hcode in *. clear Hcode.
      set (pcI := pc + length cc) in *.
      replace (pc + length (cc ++ [IF (length ct + 2)] ++ ct ++ [JMP (length cf + 1)] ++ cf))
        with (S (S pcI + length ct) + length cf) in *
        by (unfold pcI; repeat (rewrite app_length; simpl); lia).
      apply code_at_app in Hc. destruct Hc as [Hcc Hc]. fold pcI in Hc.
      apply code_at_cons in Hc. destruct Hc as [HiI Hc].
      apply code_at_app in Hc. destruct Hc as [Hct Hc].
      apply code_at_cons in Hc. destruct Hc as [HiJ Hcf].
      assert (HRc : R2 e1 r ce). { intros y Hy. apply HR2. simpl. rewrite Hy. auto. }
      assert (HRt : R2 e2 r ce). { intros y Hy. apply HR2. simpl. rewrite Hy. rewrite orb_true_r. auto. }
      assert (HRf : R2 e3 r ce). { intros y Hy. apply HR2. simpl. rewrite Hy. rewrite !orb_true_r. auto. }
      destruct (beval n r e1 st) as [[vc st1|k]|] eqn:He1; try discriminate.
      + subst cc.
        pose proof (IH' r e1 st (BVal vc st1) He1 ce false C pc below slots caps fs MG H Hcc Hb Hfc HR1 HRc HS HG Hlim') as H1.
        destruct H1 as (mvc & MG1 & H1' & Hrelc & HS1 & HG1 & Hst1). { intros Hf; discriminate. }
        simpl in Hst1. unfold fall_state in Hst1. fold pcI in Hst1.
        rewrite (vrel_truthy _ _ Hrelc) in Hev.
        destruct (S.mtruthy mvc) eqn:Htr.
        * assert (Hstep : vm_step (S.mkVM C pcI (below ++ slots ++ [mvc]) fs MG1 H1') =
                          S.SNext (S.mkVM C (S pcI) (below ++ slots) fs MG1 H1')).
          { unfold S.vm_step. simpl. rewrite HiI. rewrite app_assoc, s_unsnoc_app. rewrite Htr. auto. }
          eapply sim_concl_prefix; [eapply star_snoc; [exact Hst1|exact Hstep]|].
          subst ct.
          assert (Htk : tail_ok tail C (S pcI + length (S.compile tco ce (length slots) tail e2)) (length slots) fs).
          { intros Ht. destruct (Htail Ht) as [Hne Hrf]. split; auto.
            eapply rf_jmp; [exact HiJ|].
            replace (S pcI + length (S.compile tco ce (length slots) tail e2) + (length cf + 1))
              with (S (S pcI + length (S.compile tco ce (length slots) tail e2)) + length cf) by lia.
            exact Hrf. }
          pose proof (IH' r e2 st1 res Hev ce tail C (S pcI) below slots caps fs MG1 H1' Hct Hb Hfc HR1 HRt HS1 HG1 Hlim' Htk) as H2.
          destruct res as [v st2|k]; simpl in *; auto.
          destruct H2 as (mv & MG2 & H2' & Hrel & HS2 & HG2 & Ho). exists mv, MG2, H2'. repeat split; auto.
          unfold outcome in *. destruct tail; auto.
          eapply star_snoc; [exact Ho|].
          unfold S.vm_step, fall_state. simpl. rewrite HiJ. unfold S.set_code_ip. simpl.
          f_equal. f_equal. lia.
        * assert (Hstep : vm_step (S.mkVM C pcI (below ++ slots ++ [mvc]) fs MG1 H1') =
                          S.SNext (S.mkVM C (S (S pcI + length ct)) (below ++ slots) fs MG1 H1')).
          { unfold S.vm_step. simpl. rewrite HiI. rewrite app_assoc, s_unsnoc_app. rewrite Htr.
            f_equal. f_equal. lia. }
          eapply sim_concl_prefix; [eapply star_snoc; [exact Hst1|exact Hstep]|].
          subst cf. eapply IH'; eauto.
      + inversion Hev; subst res. subst cc.
        pose proof (IH' r e1 st (BErr k) He1 ce false C pc below slots caps fs MG H Hcc Hb Hfc HR1 HRc HS HG Hlim') as H1.
        apply H1. intros Hf; discriminate.
    - (* BLet *)
      rewrite compile_let_eq in *.
      remember (S.compile_list tco ce (length slots) (map snd bs)) as cl eqn:Ecl.
      remember (S.compile tco (bind_slots (map fst bs) (length slots) ce) (length slots + length bs) tail e) as cb eqn:Ecb.
      replace (pc + length (BEGINSCOPE :: cl ++ cb ++ [LETENDSCOPE (length slots)]))
        with (S (S pc + length cl + length cb)) in *
        by (simpl; repeat (rewrite app_length; simpl); lia).
      apply code_at_cons in Hc. destruct Hc as [HiB Hc].
      apply code_at_app in Hc. destruct Hc as [Hcl Hc].
      apply code_at_app in Hc. destruct Hc as [Hcb Hc].
      apply code_at_cons in Hc. destruct Hc as [HiL _].
      assert (HRl : R2l (map snd bs) r ce).
      { intros y Hy. apply HR2. rewrite bfv_let_eq, Hy. auto. }
      assert (Hstep0 : vm_step (S.mkVM C pc (below ++ slots) fs MG H) = S.SNext (S.mkVM C (S pc) (below ++ slots) fs MG H)).
      { unfold S.vm_step. simpl. rewrite HiB. auto. }
      destruct (bevals (beval n r) (map snd bs) st) as [[[vs st1]|k]|] eqn:Hevs; try discriminate.
      + subst cl.
        pose proof (sim_list n IH' r (map snd bs) st (inl (vs, st1)) Hevs ce C (S pc) below slots caps fs MG H Hcl Hb Hfc HR1 HRl HS HG Hlim') as H1.
        destruct H1 as (mvs & MG1 & H1' & HF & HS1 & HG1 & Hst1).
        assert (Hlen : length vs = length bs). { apply bevals_length in Hevs. rewrite map_length in Hevs. auto. }
        assert (Hlenm : length mvs = length bs). { rewrite <- Hlen. symmetry. eapply Forall2_len; eauto. }
        eapply sim_concl_prefix.
        { eapply step_star; [exact Hstep0|]. exact Hst1. }
        set (pcb := S pc + length (S.compile_list tco ce (length slots) (map snd bs))) in *.
        assert (HR1' : R1 (bind (map fst bs) vs r) (bind_slots (map fst bs) (length slots) ce) (slots ++ mvs) caps).
        { apply R1_bind; auto. rewrite map_length. auto. }
        assert (HR2' : R2 e (bind (map fst bs) vs r) (bind_slots (map fst bs) (length slots) ce)).
        { intros y Hy Hnone. apply lookup_bind_slots_none in Hnone. destruct Hnone as [Hm Hn].
          rewrite lookup_bind_notin; auto. apply HR2; auto. rewrite bfv_let_eq, Hm, Hy. simpl. apply orb_true_r. }
        assert (Hls : length (slots ++ mvs) = length slots + length bs) by (rewrite app_length; lia).
        assert (Hcb' : code_at C pcb (S.compile tco (bind_slots (map fst bs) (length slots) ce) (length (slots ++ mvs)) tail e)).
        { rewrite Hls. subst cb. exact Hcb. }
        assert (Htk : tail_ok tail C (pcb + length (S.compile tco (bind_slots (map fst bs) (length slots) ce) (length (slots ++ mvs)) tail e))
                              (length (slots ++ mvs)) fs).
        { rewrite Hls. rewrite <- Ecb. intros Ht. destruct (Htail Ht) as [Hne Hrf]. split; auto.
          eapply rf_let; [exact HiL|lia|]. exact Hrf. }
        pose proof (IH' _ e st1 res Hev _ tail C pcb below (slots ++ mvs) caps fs MG1 H1' Hcb' Hb Hfc HR1' HR2' HS1 HG1 Hlim' Htk) as H2.
        rewrite Hls in H2. rewrite <- Ecb in H2.
        destruct res as [v st2|k]; simpl in *; auto.
        destruct H2 as (mv & MG2 & H2' & Hrel & HS2 & HG2 & Ho). exists mv, MG2, H2'. repeat split; auto.
        unfold outcome in *. destruct tail; auto.
        eapply star_snoc; [exact Ho|].
        unfold S.vm_step, fall_state. simpl. rewrite HiL.
        replace (below ++ (slots ++ mvs) ++ [mv]) with ((below ++ slots ++ mvs) ++ [mv])
          by (rewrite <- !app_assoc; auto).
        rewrite s_unsnoc_app. rewrite <- Hb.
        replace (Nat.leb (length below + length slots) (length (below ++ slots ++ mvs))) with true
          by (symmetry; apply Nat.leb_le; rewrite !app_length; lia).
        unfold S.next_with. simpl. rewrite firstn_app_more, firstn_app_exact. rewrite <- app_assoc. auto.
      + inversion Hev; subst res. subst cl.
        pose proof (sim_list n IH' r (map snd bs) st (inr k) Hevs ce C (S pc) below slots caps fs MG H Hcl Hb Hfc HR1 HRl HS HG Hlim') as H1.
        destruct H1 as (s' & Hst & He). simpl. exists s'. split; auto.
        eapply step_star; [exact Hstep0|]. exact Hst.
    - (* BSeq *)
      remember (S.compile tco ce (length slots) false e1) as c1 eqn:Ec1.
      remember (S.compile tco ce (length slots) tail e2) as c2 eqn:Ec2.
      assert (Hcode : S.compile tco ce (length slots) tail (BSeq e1 e2) = c1 ++ [POPSINGLE] ++ c2)
        by (simpl; subst; auto).
      rewrite Hcode in *. clear Hcode.
      replace (pc + length (c1 ++ [POPSINGLE] ++ c2)) with (S (pc + length c1) + length c2) in *
        by (rewrite !app_length; simpl; lia).
      apply code_at_app in Hc. destruct Hc as [Hc1 Hc2]. apply code_at_cons in Hc2. destruct Hc2 as [Hi Hc2].
      assert (HRa : R2 e1 r ce). { intros y Hy. apply HR2. simpl. rewrite Hy. auto. }
      assert (HRb : R2 e2 r ce). { intros y Hy. apply HR2. simpl. rewrite Hy. apply orb_true_r. }
      destruct (beval n r e1 st) as [[v1 st1|k]|] eqn:He1; try discriminate.
      + subst c1.
        pose proof (IH' r e1 st (BVal v1 st1) He1 ce false C pc below slots caps fs MG H Hc1 Hb Hfc HR1 HRa HS HG Hlim') as H1.
        destruct H1 as (mv1 & MG1 & H1' & _ & HS1 & HG1 & Hst1). { intros Hf; discriminate. }
        simpl in Hst1. unfold fall_state in Hst1.
        eapply sim_concl_prefix.
        * eapply star_snoc; [exact Hst1|].
          unfold S.vm_step. simpl. rewrite Hi. rewrite app_assoc, s_unsnoc_app. unfold S.next_with. simpl. reflexivity.
        * subst c2. eapply IH'; eauto.
      + inversion Hev; subst res. subst c1.
        pose proof (IH' r e1 st (BErr k) He1 ce false C pc below slots caps fs MG H Hc1 Hb Hfc HR1 HRa HS HG Hlim') as H1.
        apply H1. intros Hf; discriminate.
    - (* BSetG *)
      remember (S.compile tco ce (length slots) false e) as c1 eqn:Ec1.
      assert (Hcode : S.compile tco ce (length slots) tail (BSetG g e) = c1 ++ [SET g]) by (simpl; subst; auto).
      rewrite Hcode in *. clear Hcode.
      replace (pc + length (c1 ++ [SET g])) with (S (pc + length c1)) in * by (rewrite !app_length; simpl; lia).
      apply code_at_app in Hc. destruct Hc as [Hc1 Hc2]. apply code_at_cons in Hc2. destruct Hc2 as [Hi _].
      assert (HRa : R2 e r ce). { intros y Hy. apply HR2. simpl. rewrite Hy. apply orb_true_r. }
      destruct (beval n r e st) as [[v1 st1|k]|] eqn:He1; try discriminate.
      + subst c1.
        pose proof (IH' r e st (BVal v1 st1) He1 ce false C pc below slots caps fs MG H Hc1 Hb Hfc HR1 HRa HS HG Hlim') as H1.
        destruct H1 as (mv1 & MG1 & H1' & Hrel1 & HS1 & HG1 & Hst1). { intros Hf; discriminate. }
        simpl in Hst1. unfold fall_state in Hst1.
        pose proof (HG1 g) as HGg.
        destruct (Core.lookup g (b_glob st1)) as [old|] eqn:Hold.
        * inversion Hev; subst res. destruct (Core.lookup g MG1) as [mold|] eqn:Hmold; [|tauto].
          simpl. exists mold, ((g, mv1) :: MG1), H1'. split; auto. split; auto.
          split. { intros g'. simpl. destruct (String.eqb g' g); auto. apply HG1. }
          apply outcome_of_fall; auto.
          eapply star_snoc; [exact Hst1|].
          unfold S.vm_step. simpl. rewrite Hi. rewrite app_assoc, s_unsnoc_app. rewrite Hmold.
          unfold fall_state. rewrite <- app_assoc. reflexivity.
        * inversion Hev; subst res. destruct (Core.lookup g MG1) as [mold|] eqn:Hmold; [tauto|].
          simpl. eexists. split; [exact Hst1|].
          unfold S.vm_step. simpl. rewrite Hi. rewrite app_assoc, s_unsnoc_app. rewrite Hmold. auto.
      + inversion Hev; subst res. subst c1.
        pose proof (IH' r e st (BErr k) He1 ce false C pc below slots caps fs MG H Hc1 Hb Hfc HR1 HRa HS HG Hlim') as H1.
        apply H1. intros Hf; discriminate.
  Qed.
End SimS.

(* ------------------------------------------------------------------ whole programs *)
Lemma s_vm_run_mono : forall limit k s r, S.vm_run limit k s = r -> r <> S.RFuel ->
  forall k', k <= k' -> S.vm_run limit k' s = r.
Proof.
  induction k; simpl; intros s r H Hr k' Hk.
  - congruence.
  - destruct k'; [lia|]. simpl. destruct (S.vm_step limit s); auto. apply IHk; auto. lia.
Qed.

Lemma s_star_run : forall limit s s', S.star limit s s' -> forall k r, S.vm_run limit k s' = r ->
  exists k', S.vm_run limit k' s = r.
Proof.
  induction 1; intros k r Hr; eauto.
  destruct (IHstar k r Hr) as [k' Hk']. exists (S k'). simpl. rewrite H. auto.
Qed.

Lemma s_Grel_prims : forall tco, Grel tco bprim_globals S.prim_globals.
Proof.
  intros tco g. unfold bprim_globals, S.prim_globals. induction bprim_table as [|[x p] t]; simpl; auto.
  destruct (String.eqb g x); auto. constructor.
Qed.

Lemma s_Grel_cons : forall tco G MG x v mv, Grel tco G MG -> vrel tco v mv -> Grel tco ((x, v) :: G) ((x, mv) :: MG).
Proof. intros tco G MG x v mv H Hv g. simpl. destruct (String.eqb g x); auto. apply H. Qed.

Lemma s_R1_empty : forall tco r, R1 tco r [] [] [].
Proof. intros tco r x l H. discriminate. Qed.

Lemma s_R2_empty : forall e ce, R2 e [] ce.
Proof. intros e ce x _ _. auto. Qed.

(* a top-level expression form *)
Lemma s_sim_top : forall limit tco st MG H, Srel tco (b_store st) H -> Grel tco (b_glob st) MG ->
  forall n e res, beval n [] e st = Some res -> n <= limit ->
  match res with
  | BVal v st' => exists k mv MG' H', vrel tco v mv /\ Srel tco (b_store st') H' /\ Grel tco (b_glob st') MG' /\
      S.vm_run limit k (S.init_vm (S.compile_top tco e) MG H) =
      S.RDone mv (S.mkVM (S.compile_top tco e) (S (length (S.compile tco [] 0 false e))) [] [] MG' H')
  | BErr ek => exists k, S.vm_run limit k (S.init_vm (S.compile_top tco e) MG H) = S.RErr ek
  end.
Proof.
  intros limit tco st MG H HS HG n e res Hev Hn.
  pose proof (sim_all limit tco n [] e st res Hev [] false (S.compile_top tco e) 0 [] [] [] [] MG H) as Hs.
  simpl in Hs. specialize (Hs (code_at_zero _ _) eq_refl eq_refl (s_R1_empty _ _) (s_R2_empty _ _) HS HG Hn).
  specialize (Hs ltac:(intros Hf; discriminate)).
  destruct res as [v st'|ek]; simpl in Hs.
  - destruct Hs as (mv & MG' & H' & Hrel & HS' & HG' & Hst). unfold fall_state in Hst. simpl in Hst.
    eapply s_star_run with (k := 1) in Hst.
    + destruct Hst as [k' Hk']. exists k', mv, MG', H'. repeat split; eauto.
    + simpl. unfold S.vm_step. simpl. unfold S.compile_top. rewrite nth_error_mid. simpl. reflexivity.
  - destruct Hs as (s' & Hst & He). eapply s_star_run with (k := 1) in Hst.
    + destruct Hst as [k' Hk']. exists k'. exact Hk'.
    + simpl. rewrite He. auto.
Qed.

(* a top-level definition *)
Lemma s_sim_define : forall limit tco st MG H, Srel tco (b_store st) H -> Grel tco (b_glob st) MG ->
  forall n x e res, beval n [] e st = Some res -> n <= limit ->
  match res with
  | BVal v st' => exists k mv MG' H' s', vrel tco v mv /\ Srel tco (b_store st') H' /\ Grel tco (b_glob st') MG' /\
      S.globals s' = (x, mv) :: MG' /\ S.heap s' = H' /\
      S.vm_run limit k (S.init_vm (S.compile_define tco x e) MG H) = S.RDone S.MVoid s'
  | BErr ek => exists k, S.vm_run limit k (S.init_vm (S.compile_define tco x e) MG H) = S.RErr ek
  end.
Proof.
  intros limit tco st MG H HS HG n x e res Hev Hn.
  pose proof (sim_all limit tco n [] e st res Hev [] false (S.compile_define tco x e) 0 [] [] [] [] MG H) as Hs.
  simpl in Hs. specialize (Hs (code_at_zero _ _) eq_refl eq_refl (s_R1_empty _ _) (s_R2_empty _ _) HS HG Hn).
  specialize (Hs ltac:(intros Hf; discriminate)).
  destruct res as [v st'|ek]; simpl in Hs.
  - destruct Hs as (mv & MG' & H' & Hrel & HS' & HG' & Hst). unfold fall_state in Hst. simpl in Hst.
    set (c := S.compile tco [] 0 false e) in *.
    assert (H3 : S.vm_run limit 3 (S.mkVM (S.compile_define tco x e) (0 + length c) ([] ++ [] ++ [mv]) [] MG' H') =
                 S.RDone S.MVoid (S.mkVM (S.compile_define tco x e) (S (S (S (length c)))) [] [] ((x, mv) :: MG') H')).
    { unfold S.compile_define. fold c. simpl plus. simpl app.
      assert (E0 : nth_error (c ++ [BIND x; PUSHCONST KVoid; POPPURE]) (length c) = Some (BIND x)).
      { replace (length c) with (length c + 0) by lia. rewrite nth_error_app_plus. auto. }
      assert (E1 : nth_error (c ++ [BIND x; PUSHCONST KVoid; POPPURE]) (S (length c)) = Some (PUSHCONST KVoid)).
      { replace (S (length c)) with (length c + 1) by lia. rewrite nth_error_app_plus. auto. }
      assert (E2 : nth_error (c ++ [BIND x; PUSHCONST KVoid; POPPURE]) (S (S (length c))) = Some POPPURE).
      { replace (S (S (length c))) with (length c + 2) by lia. rewrite nth_error_app_plus. auto. }
      change 3 with (S (S (S 0))).
      cbn [S.vm_run]. unfold S.vm_step at 1. cbn [S.code S.ip S.stack S.frames S.globals S.heap]. rewrite E0.
      cbn [S.unsnoc]. cbn [S.vm_run]. unfold S.vm_step at 1. cbn [S.code S.ip S.stack S.frames S.globals S.heap]. rewrite E1.
      unfold S.next_with. cbn [S.code S.ip S.stack S.frames S.globals S.heap app S.const_mval].
      cbn [S.vm_run]. unfold S.vm_step at 1. cbn [S.code S.ip S.stack S.frames S.globals S.heap]. rewrite E2.
      cbn [S.unsnoc]. unfold S.do_return. cbn [S.code S.ip S.stack S.frames S.globals S.heap]. reflexivity. }
    destruct (s_star_run _ _ _ Hst _ _ H3) as [k' Hk'].
    exists k', mv, MG', H'. eexists. repeat split; eauto; reflexivity.
  - destruct Hs as (s' & Hst & He). eapply s_star_run with (k := 1) in Hst.
    + destruct Hst as [k' Hk']. exists k'. exact Hk'.
    + simpl. rewrite He. auto.
Qed.

Lemma s_sim_defs : forall limit tco n ds st MG H, Srel tco (b_store st) H -> Grel tco (b_glob st) MG -> n <= limit ->
  forall x, brun_defs n st ds = Some x ->
  match x with
  | inl st' => exists k MG' H', Srel tco (b_store st') H' /\ Grel tco (b_glob st') MG' /\
                 forall k', k <= k' -> S.vm_defs limit tco false k' MG H ds = inr (MG', H')
  | inr ek => exists k, forall k', k <= k' -> S.vm_defs limit tco false k' MG H ds = inl (S.RErr ek)
  end.
Proof.
  intros limit tco n ds. induction ds as [|[y e] ds IH]; intros st MG H HS HG Hn x Hx; simpl in Hx.
  - inversion Hx; subst. exists 0, MG, H. repeat split; auto.
  - destruct (beval n [] e st) as [[v st1|ek]|] eqn:He; try discriminate.
    + destruct (s_sim_define limit tco st MG H HS HG n y e (BVal v st1) He Hn)
        as (k1 & mv & MG1 & H1 & s' & Hrel & HS1 & HG1 & Hgl & Hhp & Hrun).
      specialize (IH (mkB (b_store st1) ((y, v) :: b_glob st1)) ((y, mv) :: MG1) H1 HS1
                     (s_Grel_cons _ _ _ _ _ _ HG1 Hrel) Hn x Hx).
      destruct x as [st'|ek].
      * destruct IH as (k2 & MG' & H' & HS' & HG' & Hk2). exists (Nat.max k1 k2), MG', H'. repeat split; auto.
        intros k' Hk'. simpl. unfold S.finish.
        rewrite (s_vm_run_mono limit k1 _ _ Hrun) by (try discriminate; lia).
        rewrite Hgl, Hhp. apply Hk2. lia.
      * destruct IH as (k2 & Hk2). exists (Nat.max k1 k2).
        intros k' Hk'. simpl. unfold S.finish.
        rewrite (s_vm_run_mono limit k1 _ _ Hrun) by (try discriminate; lia).
        rewrite Hgl, Hhp. apply Hk2. lia.
    + inversion Hx; subst x.
      destruct (s_sim_define limit tco st MG H HS HG n y e (BErr ek) He Hn) as (k1 & Hrun).
      exists k1. intros k' Hk'. simpl. unfold S.finish.
      rewrite (s_vm_run_mono limit k1 _ _ Hrun) by (try discriminate; lia). auto.
Qed.

Lemma s_sim_program : forall limit tco n ds main res,
  brun_program n ds main = Some res -> n <= limit ->
  match res with
  | BVal v _ => exists k mv s', vrel tco v mv /\ S.vm_program limit tco false k ds main = S.RDone mv s'
  | BErr ek => exists k, S.vm_program limit tco false k ds main = S.RErr ek
  end.
Proof.
  intros limit tco n ds main res H Hn. unfold brun_program in H.
  destruct (brun_defs n (mkB [] bprim_globals) ds) as [[st'|ek]|] eqn:Hd; try discriminate.
  - destruct (s_sim_defs limit tco n ds (mkB [] bprim_globals) S.prim_globals [] (Forall2_nil _) (s_Grel_prims tco) Hn _ Hd)
      as (k1 & MG' & H' & HS' & HG' & Hk1).
    pose proof (s_sim_top limit tco st' MG' H' HS' HG' n main res H Hn) as Ht.
    destruct res as [v st2|ek].
    + destruct Ht as (k2 & mv & MG2 & H2 & Hrel & _ & _ & Hrun). exists (Nat.max k1 k2), mv. eexists. split; eauto.
      unfold S.vm_program. rewrite Hk1 by lia. unfold S.finish.
      eapply (s_vm_run_mono limit k2 _ _ Hrun); [discriminate|lia].
    + destruct Ht as (k2 & Hrun). exists (Nat.max k1 k2).
      unfold S.vm_program. rewrite Hk1 by lia. unfold S.finish.
      eapply (s_vm_run_mono limit k2 _ _ Hrun); [discriminate|lia].
  - inversion H; subst res.
    destruct (s_sim_defs limit tco n ds (mkB [] bprim_globals) S.prim_globals [] (Forall2_nil _) (s_Grel_prims tco) Hn _ Hd) as (k1 & Hk1).
    exists k1. unfold S.vm_program. rewrite Hk1; auto.
Qed.

Lemma s_vrel_canon : forall tco v mv, vrel tco v mv -> canon_bval v = S.canon_mval mv.
Proof.
  intros tco. fix IH 3. intros v mv H. destruct H; simpl; auto.
  f_equal. f_equal. f_equal. induction H; simpl; auto. f_equal; auto.
Qed.

Lemma s_program_render : forall limit tco n ds main res,
  brun_program n ds main = Some res -> n <= limit ->
  exists k, S.render_run (S.vm_program limit tco false k ds main) = render_bresult (Some res).
Proof.
  intros limit tco n ds main res H Hn.
  pose proof (s_sim_program limit tco n ds main res H Hn) as Hs. destruct res as [v st|ek].
  - destruct Hs as (k & mv & s' & Hrel & Hrun). exists k. rewrite Hrun. simpl.
    rewrite (s_vrel_canon _ _ _ Hrel). auto.
  - destruct Hs as (k & Hrun). exists k. rewrite Hrun. auto.
Qed.

(* set! on a global returns the OLD value and the new value is seen afterwards *)
Lemma set_global_old : forall n r g e st v st1 old,
  beval n r e st = Some (BVal v st1) -> Core.lookup g (b_glob st1) = Some old ->
  beval (S n) r (BSetG g e) st = Some (BVal old (mkB (b_store st1) ((g, v) :: b_glob st1))) /\
  Core.lookup g ((g, v) :: b_glob st1) = Some v.
Proof. intros. simpl. rewrite H, H0. split; auto. rewrite String.eqb_refl. auto. Qed.
