(* C01 (passes) — what is claimed about the always-on AST rewriting passes (model: Passes_Model_C01.v).
   Each theorem is about the pass with ALL the side conditions the source checks ([all_on]);
   [C01p_guards_match_source] ties that configuration to the Rust source (coq/gen/Gen_C01p.v is regenerated
   from the source on every run). *)
From Coq Require Import ZArith List Bool String.
From SV Require Import c01.Passes_Model_C01 c01.Passes_Basics_C01 c01.Passes_Compat_C01 c01.Passes_Proofs_C01 gen.Gen_C01p.
From SV Require Import c01.Passes_CEval_C01 c01.Passes_CEvalFn_C01.
Import ListNotations.
Open Scope string_scope.

Theorem C01p_guards_match_source : Gen_C01p.src_guards = all_on.
Proof. exact (eq_refl all_on). Qed.

Theorem C01p_flatten_preserves : forall e, static_arity e = true ->
  forall n s s' ρ ρ' r s1,
    srel Rflat Rnone s s' -> envrel Rflat Rnone (fv (flatten all_on e)) ρ ρ' ->
    eval n s ρ e = Some (r, s1) ->
    exists r' s1', eval n s' ρ' (flatten all_on e) = Some (r', s1') /\
                   rrel Rflat Rnone r r' /\ srel Rflat Rnone s1 s1'.
Proof. exact flatten_preserves. Qed.

Theorem C01p_flatten_observable : forall e n r, static_arity e = true ->
  eval n (ENone, []) ENone e = Some r ->
  exists r', eval n (ENone, []) ENone (flatten all_on e) = Some r' /\ render_res (Some r) = render_res (Some r').
Proof. exact flatten_observable. Qed.

Theorem C01p_flatten_unsound_with_rest :
  exists e, static_arity e = true /\ run e = "OK 5 OUT " /\ run (flatten off_outer_rest e) = "OK () OUT " /\
            flatten all_on e = e.
Proof. exact flatten_unsound_with_rest. Qed.

Theorem C01p_flatten_unsound_with_inner_rest :
  exists e, static_arity e = true /\ run e = "OK (2 . ()) OUT " /\ run (flatten off_inner_rest e) = "OK 2 OUT " /\
            flatten all_on e = e.
Proof. exact flatten_unsound_with_inner_rest. Qed.

Theorem C01p_flatten_unsound_without_operand_check :
  exists e, static_arity e = true /\ run e = "OK 1 OUT " /\ run (flatten off_operand_ids e) = "ERR OUT " /\
            flatten all_on e = e.
Proof. exact flatten_unsound_without_operand_check. Qed.

Theorem C01p_plain_let_preserves : forall e, static_arity e = true ->
  forall n s s' ρ ρ' r s1,
    srel Rnone Rplet s s' -> envrel Rnone Rplet (fv (plain_let all_on e)) ρ ρ' ->
    eval n s ρ e = Some (r, s1) ->
    exists r' s1', eval n s' ρ' (plain_let all_on e) = Some (r', s1') /\
                   rrel Rnone Rplet r r' /\ srel Rnone Rplet s1 s1'.
Proof. exact plain_let_preserves. Qed.

Theorem C01p_plain_let_observable : forall e n r, static_arity e = true ->
  eval n (ENone, []) ENone e = Some r ->
  exists r', eval n (ENone, []) ENone (plain_let all_on e) = Some r' /\ render_res (Some r) = render_res (Some r').
Proof. exact plain_let_observable. Qed.

Theorem C01p_plain_let_unsound_on_short_calls :
  exists e, run e = "ERR OUT " /\ run (plain_let off_short_calls e) = "OK 1 OUT " /\ plain_let all_on e = e.
Proof. exact plain_let_unsound_on_short_calls. Qed.

Theorem C01p_plain_let_unsound_without_const_list :
  exists e, static_arity e = true /\ run e = "OK (2 . (3 . ())) OUT " /\ run (plain_let off_const_list e) = "OK 2 OUT ".
Proof. exact plain_let_unsound_without_const_list. Qed.

Theorem C01p_plain_let_unsound_without_static_arity :
  exists e, static_arity e = false /\ run e = "ERR OUT 2" /\ run (plain_let all_on e) = "OK 1 OUT ".
Proof. exact plain_let_unsound_without_static_arity. Qed.

Theorem C01p_prune_if_preserves : forall e n s s' ρ ρ' r s1,
    srel Rprune Rnone s s' -> envrel Rprune Rnone (fv (prune_if all_on e)) ρ ρ' ->
    eval n s ρ e = Some (r, s1) ->
    exists r' s1', eval n s' ρ' (prune_if all_on e) = Some (r', s1') /\
                   rrel Rprune Rnone r r' /\ srel Rprune Rnone s1 s1'.
Proof. exact prune_if_preserves. Qed.

Theorem C01p_prune_if_observable : forall e n r,
  eval n (ENone, []) ENone e = Some r ->
  exists r', eval n (ENone, []) ENone (prune_if all_on e) = Some r' /\ render_res (Some r) = render_res (Some r').
Proof. exact prune_if_observable. Qed.

Theorem C01p_prune_if_unsound_if_quote_false_truthy :
  exists e, run e = "OK 2 OUT " /\ run (prune_if off_quote_false e) = "OK 1 OUT " /\ run (prune_if all_on e) = "OK 2 OUT ".
Proof. exact prune_if_unsound_if_quote_false_truthy. Qed.

Theorem C01p_passes_nonvacuous :
  static_arity nv_flat = true /\ run nv_flat = "OK 30 OUT 1 2" /\
  flatten all_on nv_flat <> nv_flat /\ run (flatten all_on nv_flat) = "OK 30 OUT 1 2" /\
  run (plain_let all_on (flatten all_on nv_flat)) = "OK 30 OUT 1 2" /\
  static_arity nv_rest = true /\ run nv_rest = "OK (2 . (3 . ())) OUT 7" /\
  plain_let all_on nv_rest <> nv_rest /\ run (plain_let all_on nv_rest) = "OK (2 . (3 . ())) OUT 7".
Proof. exact passes_nonvacuous. Qed.

(* the constant evaluator: the three pre-fix variants are refuted (its soundness theorems are at the end of this file) *)
Theorem C01p_ceval_unsound_without_rest_guard :
  exists e, run e = "OK () OUT " /\ run (ceval off_rest_used e) = "ERR OUT " /\ run (ceval all_on e) = "OK () OUT ".
Proof. exact ceval_unsound_without_rest_guard. Qed.

Theorem C01p_ceval_unsound_if_body_returned :
  exists e, run e = "OK (1 . (2 . ())) OUT 1" /\ run (ceval off_emits_value e) = "ERR OUT 1" /\
            run (ceval all_on e) = "OK (1 . (2 . ())) OUT 1".
Proof. exact ceval_unsound_if_body_returned. Qed.

Theorem C01p_ceval_unsound_without_surplus_check :
  exists e, run e = "OK 1 OUT 7" /\ run (ceval off_surplus e) = "OK 1 OUT " /\ run (ceval all_on e) = "OK 1 OUT 7".
Proof. exact ceval_unsound_without_surplus_check. Qed.

(* ------------------------------------------------------------------ the constant evaluator is meaning preserving
   (Passes_CEval_C01.v: relation CE.ce + simulation; Passes_CEvalFn_C01.v: every visit of cvisit is an instance).

   Invariant relating the ConstantEnv to the run-time environment: [CE.cok c ρ X] — every variable of X that c binds
   to a constant d holds [val_of_datum d] in ρ.  One visit under ANY constant environment satisfying it: *)
Theorem C01p_consteval_visit_preserves : forall c e e' u ch,
  cwf e = true -> cvisit all_on c e = (e', u, ch) -> has_marker e' = false ->
  forall n s s' ρ ρ' r s1,
    CE.srel s s' -> CE.envrel (fv e') ρ ρ' -> CE.cok c ρ (fv e) ->
    eval n s ρ e = Some (r, s1) ->
    exists r' s1', eval n s' ρ' e' = Some (r', s1') /\ CE.rrel r r' /\ CE.srel s1 s1'.
Proof. exact cvisit_preserves. Qed.

(* the whole pass (three runs of up to eleven visits each, from the empty constant environment).
   Hypotheses, both decidable:
   [cwf e]      every %plain-let has as many binders as right-hand sides and every rest lambda has its rest parameter
                (the surface syntax cannot say otherwise and no modelled pass produces otherwise; parameters or
                binders of the same name, shadowing, free variables, ill-typed and failing programs are all INCLUDED);
   [ceval_ok e] no visit is stopped by the compile-time ArityMismatch (the compilation succeeds).
   Results are related by a chain of [CE.vrel]: equal first-order values, closures whose bodies are related by CE.ce. *)
Theorem C01p_consteval_preserves : forall e, cwf e = true -> ceval_ok e = true ->
  forall n s s' ρ ρ' r s1,
    CE.srel s s' -> CE.envrel (fv (ceval all_on e)) ρ ρ' ->
    eval n s ρ e = Some (r, s1) ->
    exists r' s1', eval n s' ρ' (ceval all_on e) = Some (r', s1') /\ ostar (r, s1) (r', s1').
Proof. exact consteval_preserves. Qed.

Theorem C01p_consteval_observable : forall e n r, cwf e = true -> ceval_ok e = true ->
  eval n (ENone, []) ENone e = Some r ->
  exists r', eval n (ENone, []) ENone (ceval all_on e) = Some r' /\ render_res (Some r) = render_res (Some r').
Proof. exact consteval_observable. Qed.

(* defect e50bef37: operands judged in the scope of the applied lambda *)
Theorem C01p_ceval_unsound_if_operands_judged_inside :
  run w_scope = "OK 7 OUT 1" /\ run (ceval off_operand_scope w_scope) = "ERR OUT 1" /\ run (ceval all_on w_scope) = "OK 7 OUT 1" /\
  cwf w_scope = true /\ ceval_ok w_scope = true.
Proof. exact ceval_unsound_if_operands_judged_inside. Qed.

Theorem C01p_consteval_nonvacuous :
  cwf nv_ce1 = true /\ ceval_ok nv_ce1 = true /\ ceval all_on nv_ce1 <> nv_ce1 /\
  run nv_ce1 = "OK (4 . (5 . ())) OUT 2 3" /\ run (ceval all_on nv_ce1) = "OK (4 . (5 . ())) OUT 2 3" /\
  cwf nv_ce2 = true /\ ceval_ok nv_ce2 = true /\ ceval all_on nv_ce2 <> nv_ce2 /\
  run (ceval all_on nv_ce2) = "OK (1 . (2 . ())) OUT 1" /\
  cwf nv_ce3 = true /\ ceval_ok nv_ce3 = true /\ ceval all_on nv_ce3 = Prim PDisplay (one (Num 42)) /\
  run nv_ce3 = "OK #<void> OUT 42".
Proof. exact consteval_nonvacuous. Qed.
