From Coq Require Import ZArith List Bool String Ascii.
From SV Require Import lib.Lang c01.Reference_C01.
Import ListNotations.

Check (var_latest : forall st v l k x ρ,
  ctl st = CRet v -> kont st = FSet l :: k -> lookup x ρ = Some l ->
  exists st', step st = inl st' /\
    forall st'', ctl st'' = CEval (Var x) ρ -> store st'' = store st' ->
      step st'' = inl (set_ctl st'' (CRet v))).
Check (dead_branch_silent : forall st v t e ρ k,
  ctl st = CRet v -> kont st = FIf t e ρ :: k ->
  step st = inl (set_ctl (set_ck st (CRet v) k) (CEval (if truthy v then t else e) ρ))).
Check (uncalled_lambda_silent : forall st ps rest body ρ,
  ctl st = CEval (Lam ps rest body) ρ ->
  exists c, step st = inl (set_ctl st (CRet c)) /\
            (forall st', step st = inl st' -> store st' = store st /\ out st' = out st /\ kont st' = kont st)).
Check (call_args_exact : forall st ps body ρ args,
  List.length ps = List.length args -> NoDup ps ->
  exists ρ' st',
    alloc_many st ps args ρ = (ρ', st') /\
    apply_proc st (VClo ps None body ρ) args = enter_body st' body ρ' /\
    Forall2 (fun p a => exists l, lookup p ρ' = Some l /\ sget l (store st') = Some a) ps args).
Check (call_arity_checked : forall st ps body ρ args,
  List.length ps <> List.length args ->
  exists e, apply_proc st (VClo ps None body ρ) args = raise st e).
Check (run_fuel_monotone : forall n st o, run n st = o -> o <> OutOfFuel -> forall m, run (n + m) st = o).
Print Assumptions var_latest.
Print Assumptions dead_branch_silent.
Print Assumptions uncalled_lambda_silent.
Print Assumptions call_args_exact.
Print Assumptions call_arity_checked.
Print Assumptions run_fuel_monotone.
