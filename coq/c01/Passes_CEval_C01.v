(* C01 (passes) — soundness of the modelled constant evaluator, part 1: the relation [ce] ("e' is obtained from e by
   the rewrites of the constant evaluator under the constant environment c"), the invariant [cok] that ties a
   ConstantEnv to the run-time environment, and the simulation [ce_sim].

   [cok c ρ X]: every variable of X that the constant environment binds to a constant d holds the value of d at run
   time.  The constant evaluator (i) replaces such variables by d when d is an atom, (ii) decides tests on them,
   (iii) drops the scopes / let bindings whose variables are all bound to constants and never read, (iv) replaces an
   applied lambda whose visited body is a constant by (begin non-constant-operands.. 'value).  Under binders the
   knowledge flows from the (visited) operands into the body: rules CE_CallLam / CE_Drop / CE_Emit / CE_Let*. *)
From Coq Require Import ZArith List Bool String Lia.
From SV Require Import c01.Passes_Model_C01 c01.Passes_Basics_C01 c01.Passes_Compat_C01 c01.Passes_Proofs_C01.
Import ListNotations.
Open Scope string_scope.

Module CE.

Definition atom_of (d : datum) : option exp :=
  match d with DNum z => Some (Num z) | DBool b => Some (Bool_ b) | _ => None end.

Definition cnon (ps : list string) : cenv := map (fun p => (p, CNon)) ps.

Definition isncb (c : cenv) (e0 : exp) : bool :=
  match fst (to_const c e0) with None => true | Some _ => false end.

(* the constant bindings an applied lambda gives its parameters (cvisit, Call case) *)
Definition cbinds (c : cenv) (ps : list string) (r : bool) (al : list exp) : cenv :=
  let k := Nat.pred (List.length ps) in
  if r then
    (zipb c (firstn k ps) (firstn k al) ++
     match rev ps with
     | [] => []
     | rp :: _ => [(rp, match all_some (map (fun e0 => fst (to_const c e0)) (skipn k al)) with
                        | Some ds => CConst (datum_list ds)
                        | None => CNon
                        end)]
     end)%list
  else zipb c ps al.

(* no compile-time ArityMismatch (const_evaluation.rs L805-824) and a rest lambda has its rest parameter *)
Definition arity_okb (ps : list string) (r : bool) (n : nat) : bool :=
  if r then negb (Nat.ltb n (Nat.pred (List.length ps))) && negb (Nat.eqb (List.length ps) 0)
  else Nat.eqb (List.length ps) n.

Definition begin_of (nc : list exp) (last : exp) : exp :=
  match nc with [] => last | _ => Begin (of_list (nc ++ [last])%list) end.

(* which bindings may be dropped: the right-hand side is a constant and the variable is not free in the visited body
   (or a later binder of the same %plain-let has its name: the later one wins) *)
Fixpoint keep_ok (c : cenv) (fb : list string) (keep : list bool) (xs : list string) (es : list exp) : Prop :=
  match keep, xs, es with
  | [], [], [] => True
  | k :: keep', x :: xs', e :: es' =>
      (k = false -> isncb c e = false /\ (~ In x fb \/ In x xs')) /\ keep_ok c fb keep' xs' es'
  | _, _, _ => False
  end.

Inductive ce : cenv -> exp -> exp -> Prop :=
| CE_Num c z : ce c (Num z) (Num z)
| CE_Bool c b : ce c (Bool_ b) (Bool_ b)
| CE_Quote c d : ce c (Quote d) (Quote d)
| CE_Glob c g : ce c (Glob g) (Glob g)
| CE_Loc c x : ce c (Loc x) (Loc x)
| CE_Prop c x d e' : cget c x = Some d -> atom_of d = Some e' -> ce c (Loc x) e'
| CE_Lam c ps r b b' : ce (cnon ps ++ c)%list b b' -> ce c (Lam ps r b) (Lam ps r b')
| CE_Call c f f' a a' : ce c f f' -> ces c a a' -> ce c (Call f a) (Call f' a')
| CE_Thunk c f b' : ce c f (Lam [] false b') -> is_constant c b' = true -> ce c (Call f ENil) b'
| CE_CallLam c ps r body b' a a' :
    ces c a a' -> arity_okb ps r (elen a') = true ->
    ce (rev (cbinds c ps r (elist a')) ++ c)%list body b' ->
    ce c (Call (Lam ps r body) a) (Call (Lam ps r b') a')
| CE_Drop c ps r body b' a a' :
    ces c a a' -> arity_okb ps r (elen a') = true ->
    ce (rev (cbinds c ps r (elist a')) ++ c)%list body b' ->
    forallb (fun e0 => negb (isncb c e0)) (elist a') = true ->
    (forall x, In x ps -> ~ In x (fv b')) ->
    ce c (Call (Lam ps r body) a) b'
| CE_Emit c ps r body b' a a' v :
    ces c a a' -> arity_okb ps r (elen a') = true ->
    ce (rev (cbinds c ps r (elist a')) ++ c)%list body b' ->
    fst (to_const (rev (cbinds c ps r (elist a')) ++ c)%list b') = Some v ->
    ce c (Call (Lam ps r body) a) (begin_of (filter (isncb c) (elist a')) (Quote v))
| CE_If c t t' a a' b b' : ce c t t' -> ce c a a' -> ce c b b' -> ce c (If t a b) (If t' a' b')
| CE_IfT c t t' a a' b : ce c t t' -> is_constant c t' = true -> truthy_constant c t' = true -> ce c a a' -> ce c (If t a b) a'
| CE_IfF c t t' a b b' : ce c t t' -> is_constant c t' = true -> truthy_constant c t' = false -> ce c b b' -> ce c (If t a b) b'
| CE_Begin c es es' : ces c es es' -> ce c (Begin es) (Begin es')
| CE_Prim c op a a' : ces c a a' -> ce c (Prim op a) (Prim op a')
| CE_Fold c op a a' e1 : ces c a a' -> fold_prim c op (elist a') = Some e1 -> ce c (Prim op a) e1
| CE_SetG c g e e' : ce c e e' -> ce c (SetG g e) (SetG g e')
| CE_LetC c xs rhs rhs' b b' :
    ces c rhs rhs' ->
    ce (rev (zipb c xs (elist rhs')) ++ c)%list b b' ->
    ce c (Let xs rhs b) (Let xs rhs' b')
| CE_Let c xs rhs rhs' b b' keep :
    ces c rhs rhs' ->
    ce (rev (zipb c xs (elist rhs')) ++ c)%list b b' ->
    keep_ok c (fv b') keep xs (elist rhs') ->
    ce c (Let xs rhs b) (Let (select keep xs) (of_list (select keep (elist rhs'))) b')
| CE_LetDrop c xs rhs rhs' b b' keep :
    ces c rhs rhs' ->
    ce (rev (zipb c xs (elist rhs')) ++ c)%list b b' ->
    keep_ok c (fv b') keep xs (elist rhs') -> existsb (fun k => k) keep = false ->
    ce c (Let xs rhs b) b'
with ces : cenv -> exps -> exps -> Prop :=
| CES_Nil c : ces c ENil ENil
| CES_Cons c e e' r r' : ce c e e' -> ces c r r' -> ces c (ECons e r) (ECons e' r').

Scheme ce_mut := Induction for ce Sort Prop
  with ces_mut := Induction for ces Sort Prop.
Combined Scheme ce_ces_ind from ce_mut, ces_mut.

(* ------------------------------------------------------------------ small list facts *)
Lemma elist_of_list l : elist (of_list l) = l.
Proof. induction l; cbn [of_list elist]; congruence. Qed.
Lemma of_list_elist l : of_list (elist l) = l.
Proof. induction l; cbn [of_list elist]; congruence. Qed.
Lemma elen_length l : elen l = List.length (elist l).
Proof. induction l; cbn [elen elist List.length]; congruence. Qed.
Lemma ces_elen c l l' : ces c l l' -> elen l' = elen l.
Proof. induction 1; cbn [elen]; congruence. Qed.

Fixpoint fvl (l : list exp) : list string := match l with [] => [] | e :: r => (fv e ++ fvl r)%list end.
Lemma fvs_fvl l : fvs l = fvl (elist l).
Proof. induction l; cbn [fvs fvl elist]; congruence. Qed.
Lemma fvl_app a b : fvl (a ++ b) = (fvl a ++ fvl b)%list.
Proof. induction a; cbn [fvl app]; [reflexivity|]. rewrite IHa, app_assoc. reflexivity. Qed.

Lemma keep_ok_len c fb keep xs es : keep_ok c fb keep xs es -> List.length keep = List.length xs /\ List.length xs = List.length es.
Proof.
  revert xs es; induction keep as [|k keep IH]; intros [|x xs] [|e es] H; cbn [keep_ok] in H; try contradiction; cbn [List.length].
  - auto.
  - destruct H as [_ H]. destruct (IH _ _ H). split; congruence.
Qed.

Lemma fvl_select_incl keep es : incl (fvl (select keep es)) (fvl es).
Proof.
  revert es; induction keep as [|[|] keep IH]; intros [|e es]; cbn [select fvl]; try apply incl_nil_l.
  - apply incl_app_app; [apply incl_refl|apply IH].
  - apply incl_appr. apply IH.
Qed.

Lemma keep_ok_dropped c fb keep xs es x :
  keep_ok c fb keep xs es -> In x xs -> ~ In x (select keep xs) -> ~ In x fb.
Proof.
  revert xs es; induction keep as [|k keep IH]; intros [|y xs] [|e es] H Hx Hn; cbn [keep_ok] in H; try contradiction.
  destruct H as [H1 H2]. destruct k; cbn [select] in Hn.
  - destruct Hx as [->|Hx]; [exfalso; apply Hn; left; reflexivity|].
    eapply IH; try eassumption. intros Hi. apply Hn. right; exact Hi.
  - destruct Hx as [->|Hx]; [|eapply IH; eassumption].
    destruct (H1 eq_refl) as [_ [Hf|Hl]]; [exact Hf|]. eapply IH; eassumption.
Qed.

Lemma filter_nil_ps (l : list string) : filter (fun y => negb (mem y [])) l = l.
Proof. induction l as [|a l IH]; [reflexivity|]. cbn [filter]. unfold mem at 1. cbn [existsb negb]. rewrite IH. reflexivity. Qed.

Lemma fvl_filter_incl (p : exp -> bool) l : incl (fvl (filter p l)) (fvl l).
Proof.
  induction l as [|e l IH]; cbn [filter fvl]; [apply incl_refl|].
  destruct (p e); cbn [fvl]; [apply incl_app_app; [apply incl_refl|exact IH]|apply incl_appr; exact IH].
Qed.

Lemma fv_begin_of nc q : fv q = [] -> incl (fv (begin_of nc q)) (fvl nc).
Proof.
  intros Hq. destruct nc as [|e nc]; cbn [begin_of]; [rewrite Hq; apply incl_nil_l|].
  cbn [fv]. rewrite fvs_fvl, elist_of_list, fvl_app. cbn [fvl]. rewrite Hq, !app_nil_r. apply incl_refl.
Qed.

Lemma all_some_two {A B} (f : A -> option B) al a b : all_some (map f al) = Some [a; b] ->
  exists e1 e2, al = [e1; e2] /\ f e1 = Some a /\ f e2 = Some b.
Proof.
  destruct al as [|e1 [|e2 [|e3 l]]]; cbn [map all_some]; try discriminate.
  - destruct (f e1); discriminate.
  - destruct (f e1) eqn:H1; [|discriminate]. destruct (f e2) eqn:H2; [|discriminate].
    intros E; inversion E; subst. exists e1, e2. auto.
  - destruct (f e1); [|discriminate]. destruct (f e2); [|discriminate]. destruct (f e3); [|discriminate].
    destruct (all_some (map f l)); discriminate.
Qed.

Lemma fold_prim_spec c op al e1 : fold_prim c op al = Some e1 ->
  exists e1' e2' x y, op = PAddC /\ al = [e1'; e2'] /\ fst (to_const c e1') = Some (DNum x) /\
                      fst (to_const c e2') = Some (DNum y) /\ e1 = Num (x + y).
Proof.
  unfold fold_prim. destruct op; try discriminate.
  destruct (all_some (map (fun e0 => fst (to_const c e0)) al)) as [ds|] eqn:A; [|discriminate].
  destruct ds as [|d1 [|d2 [|d3 ds]]]; try discriminate; destruct d1 as [x| | |]; try discriminate;
    destruct d2 as [y| | |]; try discriminate.
  intros E; inversion E. destruct (all_some_two _ _ _ _ A) as (e1' & e2' & -> & H1 & H2).
  exists e1', e2', x, y. auto.
Qed.

Lemma atom_of_fv d e' : atom_of d = Some e' -> fv e' = [].
Proof. destruct d; cbn; intros E; inversion E; reflexivity. Qed.

Lemma in_filter_notin (ps : list string) l x : In x l -> ~ In x ps -> In x (filter (fun y => negb (mem y ps)) l).
Proof. intros Hx Hn. apply filter_In. split; [exact Hx|]. apply mem_false in Hn. rewrite Hn. reflexivity. Qed.
Lemma in_filter_inv (ps : list string) l x : In x (filter (fun y => negb (mem y ps)) l) -> In x l /\ ~ In x ps.
Proof.
  intros H. apply filter_In in H. destruct H as [H1 H2]. split; [exact H1|].
  apply mem_false. destruct (mem x ps); [discriminate|reflexivity].
Qed.
Lemma incl_filter (p : string -> bool) l l' : incl l' l -> incl (filter p l') (filter p l).
Proof. intros H x Hx. apply filter_In in Hx. apply filter_In. split; [apply H|]; tauto. Qed.

Lemma ce_fv_both :
  (forall c e e', ce c e e' -> incl (fv e') (fv e)) /\ (forall c l l', ces c l l' -> incl (fvs l') (fvs l)).
Proof.
  apply ce_ces_ind; intros; cbn [fv fvs]; try apply incl_refl;
    try (repeat first [apply incl_app_app | apply incl_filter | assumption]; fail).
  - erewrite atom_of_fv by eassumption. apply incl_nil_l.
  - (* thunk *) cbn [fv] in H. rewrite filter_nil_ps in H. cbn [app]. exact H.
  - (* drop *) intros x Hx. apply in_or_app. right. apply in_filter_notin; [apply H0; exact Hx|].
    intros Hi. exact (n x Hi Hx).
  - (* emit *) eapply incl_tran; [apply fv_begin_of; reflexivity|].
    eapply incl_tran; [apply fvl_filter_incl|]. rewrite <- fvs_fvl. apply incl_appl. exact H.
  - (* IfT *) apply incl_appr, incl_appl. assumption.
  - (* IfF *) apply incl_appr, incl_appr. assumption.
  - (* Fold *) destruct (fold_prim_spec _ _ _ _ e) as (? & ? & ? & ? & _ & _ & _ & _ & ->). apply incl_nil_l.
  - (* Let *) apply incl_app_app.
    + rewrite fvs_fvl, elist_of_list. eapply incl_tran; [apply fvl_select_incl|]. rewrite <- fvs_fvl. exact H.
    + intros x Hx. apply in_filter_inv in Hx. destruct Hx as [Hx Hn].
      apply in_filter_notin; [apply H0; exact Hx|]. intros Hi. exact (keep_ok_dropped _ _ _ _ _ _ k Hi Hn Hx).
  - (* LetDrop *) intros x Hx. apply in_or_app. right. apply in_filter_notin; [apply H0; exact Hx|].
    intros Hi. refine (keep_ok_dropped _ _ _ _ _ _ k Hi _ Hx).
    assert (Hs : forall (ks : list bool) (zs : list string), existsb (fun k => k) ks = false -> select ks zs = []).
    { induction ks as [|[|] ks IH]; intros zs Hk; cbn [existsb orb] in Hk; try discriminate; destruct zs; cbn [select]; auto. }
    rewrite (Hs _ _ e). intros [].
Qed.
Definition ce_fv := proj1 ce_fv_both.
Definition ces_fv := proj2 ce_fv_both.

(* ------------------------------------------------------------------ reflexivity *)
Lemma keep_ok_all c fb : forall xs es, List.length xs = List.length es ->
  keep_ok c fb (map (fun _ => true) xs) xs es.
Proof.
  induction xs as [|x xs IH]; intros [|e es] L; cbn [List.length] in L; try discriminate; cbn [map keep_ok]; [exact I|].
  split; [discriminate|]. apply IH. lia.
Qed.
Lemma select_all {A} (xs : list string) (l : list A) : List.length xs = List.length l -> select (map (fun _ => true) xs) l = l.
Proof. revert l; induction xs as [|x xs IH]; intros [|a l] L; cbn [List.length] in L; try discriminate; cbn [map select]; [reflexivity|]. rewrite IH by lia. reflexivity. Qed.

Lemma ce_refl_both : (forall e c, ce c e e) /\ (forall l c, ces c l l).
Proof. apply exp_exps_ind; intros; try (constructor; auto; fail). Qed.
Definition ce_refl := proj1 ce_refl_both.
Definition ces_refl := proj2 ce_refl_both.

(* ------------------------------------------------------------------ the invariant: constant environment vs run-time environment *)
Definition cok (c : cenv) (ρ : venv) (X : list string) : Prop :=
  forall x d, In x X -> cget c x = Some d -> lookup x ρ = Some (val_of_datum d).

Lemma cok_incl c ρ X Y : cok c ρ X -> incl Y X -> cok c ρ Y.
Proof. intros H I x d Hx. apply H. apply I. exact Hx. Qed.
Lemma cok_nil ρ X : cok [] ρ X.
Proof. intros x d _ H. discriminate. Qed.

Lemma cget_cnon ps c x : cget (cnon ps ++ c)%list x = if mem x ps then None else cget c x.
Proof.
  unfold cget. induction ps as [|p ps IH]; [reflexivity|].
  cbn [cnon map app clookup]. unfold mem. cbn [existsb].
  destruct (String.eqb x p); [reflexivity|]. cbn [orb]. exact IH.
Qed.

(* ------------------------------------------------------------------ related values *)
Inductive vrel : val -> val -> Prop :=
| VR_Num z : vrel (VNum z) (VNum z)
| VR_Bool b : vrel (VBool b) (VBool b)
| VR_Nil : vrel VNil VNil
| VR_Void : vrel VVoid VVoid
| VR_Cons a a' d d' : vrel a a' -> vrel d d' -> vrel (VCons a d) (VCons a' d')
| VR_Clo c ps rest b b' ρ ρ' :
    ce (cnon ps ++ c)%list b b' ->
    cok c ρ (fv (Lam ps rest b)) ->
    (forall x, In x (fv (Lam ps rest b')) -> orel vrel (lookup x ρ) (lookup x ρ')) ->
    vrel (VClo ps rest b ρ) (VClo ps rest b' ρ').

Definition envrel (xs : list string) (ρ ρ' : venv) : Prop :=
  forall x, In x xs -> orel vrel (lookup x ρ) (lookup x ρ').
Definition grel (G G' : venv) : Prop := forall g, orel vrel (lookup g G) (lookup g G').
Definition srel (s s' : state) : Prop := grel (fst s) (fst s') /\ Forall2 vrel (snd s) (snd s').
Inductive rrel : res -> res -> Prop :=
| RR_val v v' : vrel v v' -> rrel (Val v) (Val v')
| RR_err : rrel Err Err.
Inductive rsrel : res + list val -> res + list val -> Prop :=
| RS_l x x' : rrel x x' -> rsrel (inl x) (inl x')
| RS_r vs vs' : Forall2 vrel vs vs' -> rsrel (inr vs) (inr vs').

Combined Scheme val_venv_ind from val_mut, venv_mut.
Lemma vrel_refl_both : (forall v, vrel v v) /\ (forall ρ x, orel vrel (lookup x ρ) (lookup x ρ)).
Proof.
  apply val_venv_ind; intros; try (constructor; auto; fail).
  - apply (VR_Clo []); [apply ce_refl|apply cok_nil|]. intros x _. apply H.
  - cbn [lookup]. destruct (String.eqb x0 x); [constructor; assumption|apply H0].
Qed.
Definition vrel_refl := proj1 vrel_refl_both.
Lemma envrel_refl X ρ : envrel X ρ ρ.
Proof. intros x _. apply vrel_refl_both. Qed.
Lemma srel_refl s : srel s s.
Proof.
  split; [intros g; apply vrel_refl_both|].
  induction (snd s); constructor; [apply vrel_refl|assumption].
Qed.

Lemma datum_rel d : vrel (val_of_datum d) (val_of_datum d).
Proof. apply vrel_refl. Qed.

Lemma vrel_datum_r : forall d v, vrel v (val_of_datum d) -> v = val_of_datum d.
Proof.
  induction d; intros v H; cbn [val_of_datum] in *; inversion H; subst; try reflexivity.
  f_equal; auto.
Qed.

Lemma envrel_app_l a b ρ ρ' : envrel (a ++ b) ρ ρ' -> envrel a ρ ρ'.
Proof. intros H x Hx. apply H. apply in_or_app; left; exact Hx. Qed.
Lemma envrel_app_r a b ρ ρ' : envrel (a ++ b) ρ ρ' -> envrel b ρ ρ'.
Proof. intros H x Hx. apply H. apply in_or_app; right; exact Hx. Qed.
Lemma cok_app_l c ρ a b : cok c ρ (a ++ b) -> cok c ρ a.
Proof. intros H. eapply cok_incl; [exact H|apply incl_appl, incl_refl]. Qed.
Lemma cok_app_r c ρ a b : cok c ρ (a ++ b) -> cok c ρ b.
Proof. intros H. eapply cok_incl; [exact H|apply incl_appr, incl_refl]. Qed.

Lemma truthy_rel v v' : vrel v v' -> truthy v = truthy v'.
Proof. intros H; inversion H; reflexivity. Qed.

Lemma list_val_rel vs vs' : Forall2 vrel vs vs' -> vrel (list_val vs) (list_val vs').
Proof. induction 1; cbn [list_val]; constructor; assumption. Qed.

Lemma last_val_rel vs vs' : Forall2 vrel vs vs' -> vrel (last_val vs) (last_val vs').
Proof.
  induction 1 as [|v v' l l' Hv Hl IH]; cbn [last_val]; [constructor|].
  destruct Hl; [exact Hv|exact IH].
Qed.

Lemma Forall2_firstn (k : nat) vs vs' : Forall2 vrel vs vs' -> Forall2 vrel (firstn k vs) (firstn k vs').
Proof. intros H; revert k; induction H; intros [|k]; cbn [firstn]; constructor; auto. Qed.
Lemma Forall2_skipn (k : nat) vs vs' : Forall2 vrel vs vs' -> Forall2 vrel (skipn k vs) (skipn k vs').
Proof. intros H; revert k; induction H; intros [|k]; cbn [skipn]; try constructor; auto. Qed.
Lemma Forall2_len vs vs' : Forall2 vrel vs vs' -> List.length vs = List.length vs'.
Proof. induction 1; cbn [List.length]; congruence. Qed.

Lemma bind_fixed_rel : forall xs vs vs' ρ ρ' ρ1 keep,
  Forall2 vrel vs vs' ->
  (forall x, In x keep -> ~ In x xs -> orel vrel (lookup x ρ) (lookup x ρ')) ->
  bind_fixed xs vs ρ = Some ρ1 ->
  exists ρ1', bind_fixed xs vs' ρ' = Some ρ1' /\ envrel keep ρ1 ρ1'.
Proof.
  induction xs as [|y xs IH]; intros vs vs' ρ ρ' ρ1 keep HF H B; destruct HF as [|v v' vs vs' Hv HF];
    cbn [bind_fixed] in *; try discriminate.
  - inversion B; subst. exists ρ'. split; [reflexivity|]. intros x Hx. apply H; [exact Hx|intros []].
  - destruct (IH vs vs' (EBind y v ρ) (EBind y v' ρ') ρ1 keep HF) as (ρ1' & B' & A); [|exact B|].
    + intros x Hx Hn. cbn [lookup]. destruct (String.eqb x y) eqn:E; [constructor; exact Hv|].
      apply H; [exact Hx|]. intros [->|Hi]; [rewrite String.eqb_refl in E; discriminate|exact (Hn Hi)].
    + exists ρ1'. split; assumption.
Qed.

Lemma bind_fixed_none_rel xs vs vs' ρ ρ' :
  Forall2 vrel vs vs' -> bind_fixed xs vs ρ = None -> bind_fixed xs vs' ρ' = None.
Proof.
  intros HF B. destruct (bind_fixed xs vs' ρ') as [ρ1'|] eqn:B'; [|reflexivity]. exfalso.
  apply bind_fixed_length in B'. rewrite <- (Forall2_len _ _ HF) in B'.
  destruct (bind_fixed_total xs vs ρ B') as (? & ?). congruence.
Qed.

Lemma bind_params_rel ps rest vs vs' ρ ρ' ρ1 keep :
  Forall2 vrel vs vs' ->
  (forall x, In x keep -> ~ In x ps -> orel vrel (lookup x ρ) (lookup x ρ')) ->
  bind_params ps rest vs ρ = Some ρ1 ->
  exists ρ1', bind_params ps rest vs' ρ' = Some ρ1' /\ envrel keep ρ1 ρ1'.
Proof.
  intros HF. unfold bind_params. destruct rest; [|apply bind_fixed_rel; exact HF].
  destruct (rev ps) as [|r l] eqn:Er; [discriminate|].
  rewrite <- (Forall2_len _ _ HF).
  destruct (Nat.ltb (List.length vs) (Nat.pred (List.length ps))); [discriminate|].
  set (k := Nat.pred (List.length ps)).
  destruct (bind_fixed (firstn k ps) (firstn k vs) ρ) as [ρa|] eqn:B; [|discriminate].
  intros H E. inversion E; subst ρ1; clear E.
  destruct (bind_fixed_rel (firstn k ps) (firstn k vs) (firstn k vs') ρ ρ' ρa (filter (fun y => negb (String.eqb y r)) keep)
              (Forall2_firstn k _ _ HF)) as (ρb & B2 & A); [|exact B|].
  { intros x Hx Hn. apply filter_In in Hx. destruct Hx as [Hx Hne].
    destruct (in_dec string_dec x ps) as [Hi|Hi]; [|apply H; assumption].
    exfalso. apply Hn. pose proof (rev_split_last _ _ _ Er) as Hps. fold k in Hps.
    rewrite Hps in Hi. apply in_app_or in Hi. destruct Hi as [Hi|[Hi|[]]]; [exact Hi|].
    subst x. rewrite String.eqb_refl in Hne. discriminate. }
  rewrite B2. eexists. split; [reflexivity|].
  intros x Hx. cbn [lookup]. destruct (String.eqb x r) eqn:E.
  - constructor. apply list_val_rel. apply Forall2_skipn. exact HF.
  - apply A. apply filter_In. split; [exact Hx|]. rewrite E. reflexivity.
Qed.

Lemma bind_params_none_rel ps rest vs vs' ρ ρ' :
  Forall2 vrel vs vs' -> bind_params ps rest vs ρ = None -> bind_params ps rest vs' ρ' = None.
Proof.
  intros HF. unfold bind_params. destruct rest; [|apply bind_fixed_none_rel; exact HF].
  destruct (rev ps) as [|r l]; [reflexivity|].
  rewrite <- (Forall2_len _ _ HF).
  destruct (Nat.ltb (List.length vs) (Nat.pred (List.length ps))); [reflexivity|].
  destruct (bind_fixed _ (firstn _ vs) ρ) eqn:B; [discriminate|].
  rewrite (bind_fixed_none_rel _ _ _ _ ρ' (Forall2_firstn _ _ _ HF) B). reflexivity.
Qed.

Lemma grel_update g v v' G G' : grel G G' -> vrel v v' -> grel (update g v G) (update g v' G').
Proof.
  intros HG Hv x. specialize (HG x).
  assert (U : forall H w, lookup x (update g w H) =
               match lookup x H with Some a => Some (if String.eqb x g then w else a) | None => None end).
  { induction H as [|y a H IH]; intros w; cbn [update lookup]; [reflexivity|].
    destruct (String.eqb g y) eqn:E1; cbn [lookup].
    - apply String.eqb_eq in E1. subst y. destruct (String.eqb x g); [reflexivity|].
      destruct (lookup x H); reflexivity.
    - destruct (String.eqb x y) eqn:E2.
      + apply String.eqb_eq in E2. subst y. rewrite String.eqb_sym, E1. reflexivity.
      + apply IH. }
  rewrite !U. destruct HG as [|a a' Ha]; [constructor|]. constructor. destruct (String.eqb x g); assumption.
Qed.

Lemma apply_prim_rel op vs vs' s s' :
  Forall2 vrel vs vs' -> srel s s' ->
  rrel (fst (apply_prim op vs s)) (fst (apply_prim op vs' s')) /\
  srel (snd (apply_prim op vs s)) (snd (apply_prim op vs' s')).
Proof.
  intros HF Hs. destruct op.
  - destruct HF as [|a a' l l' Ha HF]; [cbn; split; [constructor|exact Hs]|].
    destruct HF as [|b b' l l' Hb HF].
    { inversion Ha; subst; cbn; (split; [constructor|exact Hs]). }
    destruct HF as [|c c' l l' Hc HF].
    { inversion Ha; subst; inversion Hb; subst; cbn; (split; [repeat constructor|exact Hs]). }
    inversion Ha; subst; inversion Hb; subst; cbn; (split; [repeat constructor|exact Hs]).
  - cbn. split; [constructor; apply list_val_rel; exact HF|exact Hs].
  - destruct HF as [|a a' l l' Ha HF]; [cbn; split; [constructor|exact Hs]|].
    destruct HF as [|b b' l l' Hb HF]; cbn.
    + split; [repeat constructor|]. destruct Hs as [HG HO]. split; [exact HG|]. cbn. constructor; assumption.
    + split; [constructor|exact Hs].
  - destruct HF as [|a a' l l' Ha HF]; [cbn; split; [constructor|exact Hs]|].
    destruct HF as [|b b' l l' Hb HF].
    { inversion Ha; subst; cbn; (split; [constructor|exact Hs]). }
    destruct HF as [|c c' l l' Hc HF].
    { inversion Ha; subst; inversion Hb; subst; cbn; (split; [repeat constructor|exact Hs]). }
    inversion Ha; subst; inversion Hb; subst; cbn; (split; [repeat constructor|exact Hs]).
Qed.

(* ------------------------------------------------------------------ the simulation statement *)
Definition simP (n : nat) : Prop :=
  forall c e e', ce c e e' -> forall s s' ρ ρ' r s1,
    srel s s' -> envrel (fv e') ρ ρ' -> cok c ρ (fv e) -> eval n s ρ e = Some (r, s1) ->
    exists r' s1', eval n s' ρ' e' = Some (r', s1') /\ rrel r r' /\ srel s1 s1'.

Definition simsP (n : nat) : Prop :=
  forall c l l', ces c l l' -> forall s s' ρ ρ' r s1,
    srel s s' -> envrel (fvs l') ρ ρ' -> cok c ρ (fvs l) -> evals n s ρ l = Some (r, s1) ->
    exists r' s1', evals n s' ρ' l' = Some (r', s1') /\ rsrel r r' /\ srel s1 s1'.

Lemma sims_from n : simP n -> simsP n.
Proof.
  intros H c l l' Hl. induction Hl as [|c e e' l l' He Hl IH]; intros s s' ρ ρ' r s1 Hs Hρ Hc E.
  - rewrite evals_Nil in *. inversion E; subst. do 2 eexists. split; [reflexivity|]. split; [repeat constructor|exact Hs].
  - rewrite evals_Cons in *. cbn [fvs] in Hρ, Hc.
    destruct (eval n s ρ e) as [[[v|] s2]|] eqn:Ee; try discriminate.
    + destruct (H _ _ _ He _ _ _ _ _ _ Hs (envrel_app_l _ _ _ _ Hρ) (cok_app_l _ _ _ _ Hc) Ee) as (r' & s2' & Ee' & Hr & Hs2).
      rewrite Ee'. inversion Hr; subst.
      destruct (evals n s2 ρ l) as [[[x|vs] s3]|] eqn:El; try discriminate; inversion E; subst;
        destruct (IH _ _ _ _ _ _ Hs2 (envrel_app_r _ _ _ _ Hρ) (cok_app_r _ _ _ _ Hc) El) as (rs' & s3' & El' & Hrs & Hs3);
        rewrite El'; inversion Hrs; subst; do 2 eexists; (split; [reflexivity|]); split; try exact Hs3.
      * constructor; assumption.
      * constructor. constructor; assumption.
    + destruct (H _ _ _ He _ _ _ _ _ _ Hs (envrel_app_l _ _ _ _ Hρ) (cok_app_l _ _ _ _ Hc) Ee) as (r' & s2' & Ee' & Hr & Hs2).
      rewrite Ee'. inversion Hr; subst. inversion E; subst.
      do 2 eexists. split; [reflexivity|]. split; [repeat constructor|exact Hs2].
Qed.

(* ------------------------------------------------------------------ constants *)
Lemma const_eval c e d m s ρ :
  fst (to_const c e) = Some d -> cok c ρ (fv e) -> eval (S m) s ρ e = Some (Val (val_of_datum d), s).
Proof.
  destruct e; cbn [to_const fst]; try discriminate; intros E Hc.
  - inversion E; subst. rewrite eval_Num. reflexivity.
  - inversion E; subst. rewrite eval_Bool. reflexivity.
  - inversion E; subst. rewrite eval_Quote. reflexivity.
  - destruct (cget c x) as [d0|] eqn:G; cbn [fst] in E; [|discriminate]. inversion E; subst.
    rewrite eval_Loc, (Hc x d (or_introl eq_refl) G). reflexivity.
Qed.

Lemma truthy_datum d : truthy (val_of_datum d) = is_const_datum_truthy d.
Proof. destruct d as [z|[|]| |a r]; reflexivity. Qed.

Lemma is_constant_spec c t : is_constant c t = true ->
  exists d, fst (to_const c t) = Some d /\ truthy (val_of_datum d) = truthy_constant c t.
Proof.
  destruct t; cbn [is_constant to_const truthy_constant]; try discriminate; intros H.
  - eexists; split; [reflexivity|reflexivity].
  - eexists; split; [reflexivity|destruct b; reflexivity].
  - destruct d as [z|b| |]; try discriminate; eexists; (split; [reflexivity|]); [reflexivity|subst b; reflexivity].
  - destruct (cget c x) as [d|]; [|discriminate]. exists d. split; [reflexivity|]. apply truthy_datum.
Qed.

Definition CV (c : cenv) (e : exp) (v : val) : Prop := forall d, fst (to_const c e) = Some d -> v = val_of_datum d.

Lemma const_src m : simP m -> forall c e e' d s s' ρ r s1,
  ce c e e' -> fst (to_const c e') = Some d -> cok c ρ (fv e) -> srel s s' ->
  eval m s ρ e = Some (r, s1) -> r = Val (val_of_datum d) /\ srel s1 s'.
Proof.
  intros H c e e' d s s' ρ r s1 He Hd Hc Hs E.
  destruct (H _ _ _ He _ _ _ _ _ _ Hs (envrel_refl _ ρ) Hc E) as (r' & s1' & E' & Hr & Hs1).
  destruct m as [|m]; [rewrite eval_O in E; discriminate|].
  rewrite (const_eval c e' d m s' ρ Hd) in E' by (eapply cok_incl; [exact Hc|eapply ce_fv; exact He]).
  inversion E'; subst. inversion Hr; subst.
  match goal with Hv : vrel _ (val_of_datum d) |- _ => apply vrel_datum_r in Hv; subst end.
  split; [reflexivity|exact Hs1].
Qed.

Lemma const_vals m : simP m -> forall c a a', ces c a a' -> forall s ρ vs s1,
  cok c ρ (fvs a) -> evals m s ρ a = Some (inr vs, s1) -> Forall2 (CV c) (elist a') vs.
Proof.
  intros H c a a' Ha. induction Ha as [|c e e' r r' He Hr IH]; intros s ρ vs s1 Hc E.
  - rewrite evals_Nil in E. inversion E; subst. constructor.
  - rewrite evals_Cons in E. cbn [fvs] in Hc.
    destruct (eval m s ρ e) as [[[v|] s2]|] eqn:Ee; try discriminate.
    destruct (evals m s2 ρ r) as [[[x|ws] s3]|] eqn:El; try discriminate. inversion E; subst.
    cbn [elist]. constructor; [|eapply IH; [eapply cok_app_r; exact Hc|exact El]].
    intros d Hd.
    destruct (const_src m H _ _ _ _ _ _ _ _ _ He Hd (cok_app_l _ _ _ _ Hc) (srel_refl s) Ee) as [E1 _].
    inversion E1; reflexivity.
Qed.

Lemma select_filter {A} (p : A -> bool) l : filter p l = select (map p l) l.
Proof. induction l as [|a l IH]; cbn [filter map select]; [reflexivity|]. destruct (p a); rewrite IH; reflexivity. Qed.

Lemma sim_select m : simP m -> forall c a a', ces c a a' -> forall keep s s' ρ ρ' rs s1,
  Forall2 (fun (k : bool) e => k = false -> isncb c e = false) keep (elist a') ->
  srel s s' -> envrel (fvl (select keep (elist a'))) ρ ρ' -> cok c ρ (fvs a) ->
  evals m s ρ a = Some (rs, s1) ->
  exists rs' s1', evals m s' ρ' (of_list (select keep (elist a'))) = Some (rs', s1') /\ srel s1 s1' /\
    match rs with
    | inl x => exists x', rs' = inl x' /\ rrel x x'
    | inr vs => exists vs', rs' = inr vs' /\ Forall2 vrel (select keep vs) vs'
    end.
Proof.
  intros H c a a' Ha. induction Ha as [|c e e' r r' He Hr IH]; intros keep s s' ρ ρ' rs s1 HK Hs Hρ Hc E.
  - cbn [elist] in *. inversion HK; subst. cbn [select of_list]. rewrite evals_Nil in *. inversion E; subst.
    do 2 eexists. split; [reflexivity|]. split; [exact Hs|]. eexists. split; [reflexivity|]. cbn [select]. constructor.
  - cbn [elist] in *. inversion HK as [|k e0 keep' l0 Hk HK']; subst. cbn [fvs] in Hc.
    rewrite evals_Cons in E. destruct k.
    + cbn [select of_list fvl] in *. rewrite evals_Cons.
      destruct (eval m s ρ e) as [[[v|] s2]|] eqn:Ee; try discriminate;
        destruct (H _ _ _ He _ _ _ _ _ _ Hs (envrel_app_l _ _ _ _ Hρ) (cok_app_l _ _ _ _ Hc) Ee) as (r1 & s2' & Ee' & Hr1 & Hs2);
        rewrite Ee'; inversion Hr1; subst.
      * destruct (evals m s2 ρ r) as [[[x|ws] s3]|] eqn:El; try discriminate; inversion E; subst;
          destruct (IH _ _ _ _ _ _ _ HK' Hs2 (envrel_app_r _ _ _ _ Hρ) (cok_app_r _ _ _ _ Hc) El) as (rs' & s3' & El' & Hs3 & Hm);
          rewrite El'; destruct Hm as (y & -> & Hy); do 2 eexists; (split; [reflexivity|]); (split; [exact Hs3|]);
          eexists; (split; [reflexivity|]); [exact Hy|cbn [select]; constructor; assumption].
      * inversion E; subst. do 2 eexists. split; [reflexivity|]. split; [exact Hs2|]. eexists. split; [reflexivity|constructor].
    + cbn [select] in *. specialize (Hk eq_refl). unfold isncb in Hk.
      destruct (fst (to_const c e')) as [d|] eqn:Hd; [|discriminate].
      destruct (eval m s ρ e) as [[r1 s2]|] eqn:Ee; [|discriminate].
      destruct (const_src m H _ _ _ _ _ _ _ _ _ He Hd (cok_app_l _ _ _ _ Hc) Hs Ee) as [-> Hs2].
      destruct (evals m s2 ρ r) as [[[x|ws] s3]|] eqn:El; try discriminate; inversion E; subst;
        destruct (IH _ _ _ _ _ _ _ HK' Hs2 Hρ (cok_app_r _ _ _ _ Hc) El) as (rs' & s3' & El' & Hs3 & Hm);
        do 2 eexists; (split; [exact El'|]); (split; [exact Hs3|]); exact Hm.
Qed.

(* ------------------------------------------------------------------ entering a scope keeps the invariant *)
Lemma cget_cons y b c0 x :
  cget ((y, b) :: c0) x = if String.eqb x y then match b with CConst d => Some d | CNon => None end else cget c0 x.
Proof. unfold cget. cbn [clookup]. destruct (String.eqb x y); reflexivity. Qed.

Lemma cok_bind_fixed c : forall xs es vs c0 ρ0 ρ1 y,
  Forall2 (CV c) es vs ->
  bind_fixed xs vs ρ0 = Some ρ1 ->
  (~ In y xs -> forall d, cget c0 y = Some d -> lookup y ρ0 = Some (val_of_datum d)) ->
  forall d, cget (rev (zipb c xs es) ++ c0)%list y = Some d -> lookup y ρ1 = Some (val_of_datum d).
Proof.
  induction xs as [|x xs IH]; intros es vs c0 ρ0 ρ1 y HF B H0 d G.
  - destruct vs; cbn [bind_fixed] in B; [|discriminate]. inversion B; subst. cbn [zipb rev app] in G.
    apply H0; [intros []|exact G].
  - destruct HF as [|e v es vs Hev HF]; cbn [bind_fixed] in B; [discriminate|].
    cbn [zipb rev] in G. rewrite <- app_assoc in G. cbn [app] in G.
    eapply (IH es vs (bind_of c x e :: c0) (EBind x v ρ0) ρ1 y HF B); [|exact G].
    intros Hn dz Gz. unfold bind_of in Gz. rewrite cget_cons in Gz. cbn [lookup].
    destruct (String.eqb y x) eqn:Ezx.
    + destruct (fst (to_const c e)) as [d0|] eqn:Hd; [|discriminate]. inversion Gz; subst. f_equal. apply Hev. exact Hd.
    + apply H0; [|exact Gz]. intros [->|Hi]; [rewrite String.eqb_refl in Ezx; discriminate|exact (Hn Hi)].
Qed.

Lemma F2_firstn {A B} (R : A -> B -> Prop) (k : nat) l l' : Forall2 R l l' -> Forall2 R (firstn k l) (firstn k l').
Proof. intros H; revert k; induction H; intros [|k]; cbn [firstn]; constructor; auto. Qed.
Lemma F2_skipn {A B} (R : A -> B -> Prop) (k : nat) l l' : Forall2 R l l' -> Forall2 R (skipn k l) (skipn k l').
Proof. intros H; revert k; induction H; intros [|k]; cbn [skipn]; try constructor; auto. Qed.
Lemma F2_len {A B} (R : A -> B -> Prop) l l' : Forall2 R l l' -> List.length l = List.length l'.
Proof. induction 1; cbn [List.length]; congruence. Qed.

Lemma rest_list_const c es vs ds :
  Forall2 (CV c) es vs -> all_some (map (fun e0 => fst (to_const c e0)) es) = Some ds ->
  list_val vs = val_of_datum (datum_list ds).
Proof.
  intros HF. revert ds. induction HF as [|e v es vs Hev HF IH]; intros ds A; cbn [map all_some] in A.
  - inversion A; subst. reflexivity.
  - destruct (fst (to_const c e)) as [d|] eqn:Hd; [|discriminate].
    destruct (all_some (map (fun e0 => fst (to_const c e0)) es)) as [ds'|]; [|discriminate]. inversion A; subst.
    cbn [list_val datum_list val_of_datum]. rewrite (Hev d Hd), (IH ds' eq_refl). reflexivity.
Qed.

Lemma cok_bind_params c X ps r al vs ρ0 ρ1 :
  Forall2 (CV c) al vs ->
  bind_params ps r vs ρ0 = Some ρ1 ->
  (forall y d, In y X -> ~ In y ps -> cget c y = Some d -> lookup y ρ0 = Some (val_of_datum d)) ->
  cok (rev (cbinds c ps r al) ++ c)%list ρ1 X.
Proof.
  intros HF B H0. unfold bind_params in B. unfold cbinds. destruct r.
  2:{ intros y d Hy G. eapply cok_bind_fixed; try eassumption. intros Hn d0 G0. eapply H0; eassumption. }
  destruct (rev ps) as [|rp lp] eqn:Er; [discriminate|].
  destruct (Nat.ltb (List.length vs) (Nat.pred (List.length ps))); [discriminate|].
  set (k := Nat.pred (List.length ps)) in *.
  destruct (bind_fixed (firstn k ps) (firstn k vs) ρ0) as [ρa|] eqn:Ba; [|discriminate].
  inversion B; subst ρ1; clear B.
  pose proof (rev_split_last _ _ _ Er) as Hps. fold k in Hps.
  intros y d Hy G. rewrite rev_app_distr in G. cbn [rev app] in G. rewrite cget_cons in G. cbn [lookup].
  destruct (String.eqb y rp) eqn:Ey.
  - destruct (all_some (map (fun e0 => fst (to_const c e0)) (skipn k al))) as [ds|] eqn:A; [|discriminate].
    inversion G; subst. f_equal. eapply rest_list_const; [apply F2_skipn; exact HF|exact A].
  - eapply (cok_bind_fixed c (firstn k ps) (firstn k al) (firstn k vs) c ρ0 ρa y); try eassumption.
    + apply F2_firstn. exact HF.
    + intros Hn dz Gz. apply (H0 y dz Hy); [|exact Gz]. rewrite Hps. intros Hi. apply in_app_or in Hi.
      destruct Hi as [Hi|[Hi|[]]]; [exact (Hn Hi)|]. subst y. rewrite String.eqb_refl in Ey. discriminate.
Qed.

Lemma lookup_bind_params_notin ps r vs ρ ρ' x :
  bind_params ps r vs ρ = Some ρ' -> ~ In x ps -> lookup x ρ' = lookup x ρ.
Proof.
  unfold bind_params. destruct r; [|apply lookup_bind_fixed_notin].
  destruct (rev ps) as [|rp lp] eqn:Er; [discriminate|].
  destruct (Nat.ltb _ _); [discriminate|].
  destruct (bind_fixed _ _ ρ) as [ρa|] eqn:Ba; [|discriminate].
  intros E Hn. inversion E; subst. cbn [lookup].
  assert (Hr : In rp ps) by (apply in_rev; rewrite Er; left; reflexivity).
  destruct (String.eqb x rp) eqn:Ex; [apply String.eqb_eq in Ex; subst; contradiction|].
  eapply lookup_bind_fixed_notin; [exact Ba|]. intros Hi. apply Hn.
  rewrite (rev_split_last _ _ _ Er). apply in_or_app. left. exact Hi.
Qed.

Lemma bind_params_ok ps r vs ρ : arity_okb ps r (List.length vs) = true -> exists ρ1, bind_params ps r vs ρ = Some ρ1.
Proof.
  unfold arity_okb, bind_params. destruct r.
  - intros H. apply andb_prop in H. destruct H as [H1 H2].
    destruct (rev ps) as [|rp lp] eqn:Er.
    { assert (ps = []) by (rewrite <- (rev_involutive ps), Er; reflexivity). subst. discriminate. }
    apply negb_true_iff in H1. rewrite H1. apply Nat.ltb_ge in H1.
    destruct (bind_fixed_total (firstn (Nat.pred (List.length ps)) ps) (firstn (Nat.pred (List.length ps)) vs) ρ) as (ρa & Ba).
    { rewrite !firstn_length. lia. }
    rewrite Ba. eexists; reflexivity.
  - intros H. apply Nat.eqb_eq in H. apply bind_fixed_total. exact H.
Qed.

Lemma cok_cnon c ps rest vs ρ0 ρ1 b :
  cok c ρ0 (fv (Lam ps rest b)) -> bind_params ps rest vs ρ0 = Some ρ1 -> cok (cnon ps ++ c)%list ρ1 (fv b).
Proof.
  intros Hc B x d Hx G. rewrite cget_cnon in G. destruct (mem x ps) eqn:M; [discriminate|]. apply mem_false in M.
  rewrite (lookup_bind_params_notin _ _ _ _ _ _ B M). apply Hc; [|exact G]. cbn [fv]. apply in_filter_notin; assumption.
Qed.

Lemma lam_scope c ps r body al vs ρ ρ1 :
  cok c ρ (fv (Lam ps r body)) -> Forall2 (CV c) al vs ->
  bind_params ps r vs (capture ρ (fv (Lam ps r body))) = Some ρ1 ->
  cok (rev (cbinds c ps r al) ++ c)%list ρ1 (fv body).
Proof.
  intros Hc HF B. eapply cok_bind_params; try eassumption.
  intros y d Hy Hn G. rewrite lookup_capture.
  assert (Hin : In y (fv (Lam ps r body))) by (cbn [fv]; apply in_filter_notin; assumption).
  pose proof Hin as Hm. apply mem_In in Hm. rewrite Hm. apply Hc; assumption.
Qed.

Lemma captured_envrel ps r b b' ρ ρ' :
  incl (fv b') (fv b) -> envrel (fv (Lam ps r b')) ρ ρ' ->
  forall x, In x (fv b') -> ~ In x ps ->
    orel vrel (lookup x (capture ρ (fv (Lam ps r b)))) (lookup x (capture ρ' (fv (Lam ps r b')))).
Proof.
  intros Hi Hρ x Hx Hn. rewrite !lookup_capture.
  assert (H1 : In x (fv (Lam ps r b'))) by (cbn [fv]; apply in_filter_notin; assumption).
  assert (H2 : In x (fv (Lam ps r b))) by (cbn [fv]; apply in_filter_notin; [apply Hi; exact Hx|exact Hn]).
  pose proof H1 as M1. pose proof H2 as M2. apply mem_In in M1. apply mem_In in M2. rewrite M1, M2. apply Hρ. exact H1.
Qed.

Lemma keep_ok_F2 c fb keep xs es : keep_ok c fb keep xs es ->
  Forall2 (fun (k : bool) e => k = false -> isncb c e = false) keep es.
Proof.
  revert xs es; induction keep as [|k keep IH]; intros [|x xs] [|e es] H; cbn [keep_ok] in H; try contradiction.
  - constructor.
  - destruct H as [H1 H2]. constructor; [intros Hk; apply H1; exact Hk|eapply IH; exact H2].
Qed.

Lemma bind_fixed_select_rel c fb : forall keep xs es vs vs' ρ ρ' ρ1,
  keep_ok c fb keep xs es ->
  Forall2 vrel (select keep vs) vs' ->
  (forall y, In y fb -> ~ In y (select keep xs) -> orel vrel (lookup y ρ) (lookup y ρ')) ->
  bind_fixed xs vs ρ = Some ρ1 ->
  exists ρ1', bind_fixed (select keep xs) vs' ρ' = Some ρ1' /\ envrel fb ρ1 ρ1'.
Proof.
  induction keep as [|k keep IH]; intros xs es vs vs' ρ ρ' ρ1 HK HF H0 B.
  - destruct xs; destruct es; cbn [keep_ok] in HK; try contradiction.
    destruct vs; cbn [bind_fixed] in B; [|discriminate]. inversion B; subst.
    cbn [select] in *. inversion HF; subst. exists ρ'. split; [reflexivity|]. intros y Hy. apply H0; [exact Hy|intros []].
  - destruct xs as [|x xs0]; destruct es as [|e es0]; cbn [keep_ok] in HK; try contradiction. destruct HK as [Hk HK'].
    destruct vs as [|v vs]; cbn [bind_fixed] in B; [discriminate|].
    destruct k; cbn [select] in *.
    + inversion HF as [|v0 v' l0 vs0' Hv HF']; subst. cbn [bind_fixed].
      eapply (IH xs0 es0 vs vs0' (EBind x v ρ) (EBind x v' ρ') ρ1 HK' HF'); [|exact B].
      intros y Hy Hn. cbn [lookup]. destruct (String.eqb y x) eqn:E; [constructor; exact Hv|].
      apply H0; [exact Hy|]. intros [->|Hi]; [rewrite String.eqb_refl in E; discriminate|exact (Hn Hi)].
    + eapply (IH xs0 es0 vs vs' (EBind x v ρ) ρ' ρ1 HK' HF); [|exact B].
      intros y Hy Hn. cbn [lookup]. destruct (String.eqb y x) eqn:E.
      * apply String.eqb_eq in E. subst y. exfalso.
        destruct (Hk eq_refl) as [_ [Hf|Hl]]; [exact (Hf Hy)|].
        exact (keep_ok_dropped _ _ _ _ _ _ HK' Hl Hn Hy).
      * apply H0; assumption.
Qed.

Lemma select_none {A} (ks : list bool) (zs : list A) : existsb (fun k => k) ks = false -> select ks zs = [].
Proof. revert zs; induction ks as [|[|] ks IH]; intros zs Hk; cbn [existsb orb] in Hk; try discriminate; destruct zs; cbn [select]; auto. Qed.

(* ------------------------------------------------------------------ the cases of the simulation *)
Ltac fuel0 E := match type of E with eval ?N _ _ _ = _ => destruct N as [|?n]; [rewrite eval_O in E; discriminate|] end.

Lemma sim_let n : simP n -> forall c xs rhs rhs' b b' keep,
  ces c rhs rhs' -> ce (rev (zipb c xs (elist rhs')) ++ c)%list b b' -> keep_ok c (fv b') keep xs (elist rhs') ->
  forall s s' ρ ρ' r s1, srel s s' ->
    envrel (fv (Let (select keep xs) (of_list (select keep (elist rhs'))) b')) ρ ρ' ->
    cok c ρ (fv (Let xs rhs b)) ->
    eval (S n) s ρ (Let xs rhs b) = Some (r, s1) ->
    exists r' s1', eval (S n) s' ρ' (Let (select keep xs) (of_list (select keep (elist rhs'))) b') = Some (r', s1') /\
                   rrel r r' /\ srel s1 s1'.
Proof.
  intros Sn c xs rhs rhs' b b' keep Hr Hb HK s s' ρ ρ' r s1 Hs Hρ Hc E.
  rewrite eval_Let in *. cbn [fv] in Hρ, Hc.
  pose proof (keep_ok_F2 _ _ _ _ _ HK) as K1.
  destruct (evals n s ρ rhs) as [[rs s2]|] eqn:Ea; [|discriminate].
  assert (Hρs : envrel (fvl (select keep (elist rhs'))) ρ ρ').
  { rewrite <- (elist_of_list (select keep (elist rhs'))), <- fvs_fvl. eapply envrel_app_l; exact Hρ. }
  destruct (sim_select n Sn _ _ _ Hr keep s s' ρ ρ' rs s2 K1 Hs Hρs (cok_app_l _ _ _ _ Hc) Ea)
    as (rs' & s2' & Ea' & Hs2 & Hm).
  rewrite Ea'. destruct rs as [x|vs]; destruct Hm as (y & -> & Hy).
  { inversion E; subst. do 2 eexists. split; [reflexivity|]. split; assumption. }
  pose proof (const_vals n Sn _ _ _ Hr _ _ _ _ (cok_app_l _ _ _ _ Hc) Ea) as HCV.
  destruct (bind_fixed xs vs ρ) as [ρ1|] eqn:B.
  - destruct (bind_fixed_select_rel c (fv b') keep xs (elist rhs') vs y ρ ρ' ρ1 HK Hy) as (ρ1' & B' & A); [|exact B|].
    { intros z Hz Hn. apply (envrel_app_r _ _ _ _ Hρ). apply in_filter_notin; assumption. }
    rewrite B'. eapply Sn; try eassumption.
    intros z d Hz G. eapply cok_bind_fixed; try eassumption.
    intros Hn d0 G0. apply (cok_app_r _ _ _ _ Hc); [|exact G0]. apply in_filter_notin; assumption.
  - exfalso. destruct (keep_ok_len _ _ _ _ _ HK) as [_ L]. rewrite (F2_len _ _ _ HCV) in L.
    destruct (bind_fixed_total xs vs ρ L) as (? & ?). congruence.
Qed.

Lemma F2_map_isncb c l : Forall2 (fun (k : bool) e => k = false -> isncb c e = false) (map (isncb c) l) l.
Proof. induction l; cbn [map]; constructor; auto. Qed.

Lemma filter_isncb_nil c l : forallb (fun e0 => negb (isncb c e0)) l = true -> filter (isncb c) l = [].
Proof.
  induction l as [|e l IH]; cbn [forallb filter]; [reflexivity|]. intros H. apply andb_prop in H. destruct H as [H1 H2].
  apply negb_true_iff in H1. rewrite H1. auto.
Qed.

Lemma of_list_snoc l q : of_list (l ++ [q]) = eapp (of_list l) (ECons q ENil).
Proof. induction l; cbn [app of_list eapp]; congruence. Qed.

Lemma last_val_snoc vs v : last_val (vs ++ [v]) = v.
Proof. induction vs as [|a vs IH]; [reflexivity|]. cbn [app last_val]. destruct (vs ++ [v])%list eqn:E; [destruct vs; discriminate|]. exact IH. Qed.

Lemma fvl_begin_of nc q : incl (fvl nc) (fv (begin_of nc q)).
Proof.
  destruct nc as [|e nc]; cbn [begin_of]; [apply incl_nil_l|].
  cbn [fv]. rewrite fvs_fvl, elist_of_list, fvl_app. apply incl_appl, incl_refl.
Qed.

Section Cases.
  Variable n : nat.
  Hypothesis Sn : simP n.
  Hypothesis Sp : simP (Nat.pred n).

  Lemma operands_of_scope c ps r body a a' s ρ vs s2 :
    ces c a a' -> arity_okb ps r (elen a') = true ->
    cok c ρ (fvs a ++ fv (Lam ps r body)) ->
    evals (Nat.pred n) s ρ a = Some (inr vs, s2) ->
    exists ρ1, bind_params ps r vs (capture ρ (fv (Lam ps r body))) = Some ρ1 /\
               cok (rev (cbinds c ps r (elist a')) ++ c)%list ρ1 (fv body) /\
               (forall y, In y (fv body) -> ~ In y ps -> lookup y ρ1 = lookup y ρ).
  Proof.
    intros Ha Har Hc Ea.
    pose proof (const_vals _ Sp _ _ _ Ha _ _ _ _ (cok_app_l _ _ _ _ Hc) Ea) as HCV.
    destruct (bind_params_ok ps r vs (capture ρ (fv (Lam ps r body)))) as (ρ1 & B).
    { rewrite (evals_length _ _ _ _ _ _ Ea), <- (ces_elen _ _ _ Ha). exact Har. }
    exists ρ1. split; [exact B|]. split.
    - eapply lam_scope; [eapply cok_app_r; exact Hc|exact HCV|exact B].
    - intros y Hy Hn. rewrite (lookup_bind_params_notin _ _ _ _ _ _ B Hn), lookup_capture.
      assert (Hin : In y (fv (Lam ps r body))) by (cbn [fv]; apply in_filter_notin; assumption).
      apply mem_In in Hin. rewrite Hin. reflexivity.
  Qed.

  Lemma sim_calllam c ps r body b' a a' :
    ces c a a' -> arity_okb ps r (elen a') = true ->
    ce (rev (cbinds c ps r (elist a')) ++ c)%list body b' ->
    forall s s' ρ ρ' r0 s1, srel s s' -> envrel (fv (Call (Lam ps r b') a')) ρ ρ' -> cok c ρ (fv (Call (Lam ps r body) a)) ->
      eval (S n) s ρ (Call (Lam ps r body) a) = Some (r0, s1) ->
      exists r' s1', eval (S n) s' ρ' (Call (Lam ps r b') a') = Some (r', s1') /\ rrel r0 r' /\ srel s1 s1'.
  Proof.
    intros Ha Har Hb s s' ρ ρ' r0 s1 Hs Hρ Hc E. rewrite eval_Call in *. cbn [fv] in Hρ, Hc.
    destruct (evals (Nat.pred n) s ρ a) as [[[x|vs] s2]|] eqn:Ea; try discriminate;
      destruct (sims_from _ Sp _ _ _ Ha _ _ _ _ _ _ Hs (envrel_app_l _ _ _ _ Hρ) (cok_app_l _ _ _ _ Hc) Ea) as (rs' & s2' & Ea' & Hrs & Hs2);
      rewrite Ea'; inversion Hrs; subst.
    { inversion E; subst. do 2 eexists. split; [reflexivity|]. split; assumption. }
    destruct (operands_of_scope _ _ _ _ _ _ _ _ _ _ Ha Har Hc Ea) as (ρ1 & B & Hc1 & _).
    destruct n as [|n2]; [rewrite eval_O in E; discriminate|]. rewrite eval_Lam in *. rewrite B in E.
    match goal with HF : Forall2 vrel ?v1 ?v2 |- _ =>
      destruct (bind_params_rel ps r v1 v2 (capture ρ (fv (Lam ps r body))) (capture ρ' (fv (Lam ps r b'))) ρ1 (fv b') HF) as (ρ1' & B' & A); [|exact B|] end.
    { apply captured_envrel; [eapply ce_fv; exact Hb|eapply envrel_app_r; exact Hρ]. }
    rewrite B'. eapply Sn; eassumption.
  Qed.

  Lemma sim_drop c ps r body b' a a' :
    ces c a a' -> arity_okb ps r (elen a') = true ->
    ce (rev (cbinds c ps r (elist a')) ++ c)%list body b' ->
    forallb (fun e0 => negb (isncb c e0)) (elist a') = true ->
    (forall x, In x ps -> ~ In x (fv b')) ->
    forall s s' ρ ρ' r0 s1, srel s s' -> envrel (fv b') ρ ρ' -> cok c ρ (fv (Call (Lam ps r body) a)) ->
      eval (S n) s ρ (Call (Lam ps r body) a) = Some (r0, s1) ->
      exists r' s1', eval (S n) s' ρ' b' = Some (r', s1') /\ rrel r0 r' /\ srel s1 s1'.
  Proof.
    intros Ha Har Hb Hall Hfree s s' ρ ρ' r0 s1 Hs Hρ Hc E. rewrite eval_Call in E. cbn [fv] in Hc.
    destruct (evals (Nat.pred n) s ρ a) as [[rs s2]|] eqn:Ea; [|discriminate].
    assert (Hnil : select (map (isncb c) (elist a')) (elist a') = []) by (rewrite <- select_filter; apply filter_isncb_nil; exact Hall).
    destruct (sim_select _ Sp _ _ _ Ha (map (isncb c) (elist a')) s s' ρ ρ' rs s2 (F2_map_isncb _ _) Hs) as (rs' & s2' & Ea' & Hs2 & Hm);
      [rewrite Hnil; intros ? []|eapply cok_app_l; exact Hc|exact Ea|].
    rewrite Hnil in Ea'. cbn [of_list] in Ea'. rewrite evals_Nil in Ea'. inversion Ea'; subst rs' s2'; clear Ea'.
    destruct rs as [x|vs]; [destruct Hm as (? & ? & _); discriminate|].
    destruct (operands_of_scope _ _ _ _ _ _ _ _ _ _ Ha Har Hc Ea) as (ρ1 & B & Hc1 & Hl).
    destruct n as [|n2]; [rewrite eval_O in E; discriminate|]. rewrite eval_Lam in E. rewrite B in E.
    destruct (Sn _ _ _ Hb s2 s' ρ1 ρ' r0 s1 Hs2) as (r' & s1' & E' & Hr & Hs1); [|exact Hc1|exact E|].
    { intros y Hy. rewrite Hl; [apply Hρ; exact Hy|eapply ce_fv; eassumption|]. intros Hi. exact (Hfree y Hi Hy). }
    exists r', s1'. split; [|split; assumption]. eapply eval_mono; [|exact E']. lia.
  Qed.

  Lemma sim_emit c ps r body b' a a' v :
    ces c a a' -> arity_okb ps r (elen a') = true ->
    ce (rev (cbinds c ps r (elist a')) ++ c)%list body b' ->
    fst (to_const (rev (cbinds c ps r (elist a')) ++ c)%list b') = Some v ->
    forall s s' ρ ρ' r0 s1, srel s s' -> envrel (fv (begin_of (filter (isncb c) (elist a')) (Quote v))) ρ ρ' ->
      cok c ρ (fv (Call (Lam ps r body) a)) ->
      eval (S n) s ρ (Call (Lam ps r body) a) = Some (r0, s1) ->
      exists r' s1', eval (S n) s' ρ' (begin_of (filter (isncb c) (elist a')) (Quote v)) = Some (r', s1') /\ rrel r0 r' /\ srel s1 s1'.
  Proof.
    intros Ha Har Hb Hv s s' ρ ρ' r0 s1 Hs Hρ Hc E. rewrite eval_Call in E. cbn [fv] in Hc.
    destruct (evals (Nat.pred n) s ρ a) as [[rs s2]|] eqn:Ea; [|discriminate].
    rewrite select_filter in *. set (nc := select (map (isncb c) (elist a')) (elist a')) in *.
    destruct (sim_select _ Sp _ _ _ Ha (map (isncb c) (elist a')) s s' ρ ρ' rs s2 (F2_map_isncb _ _) Hs) as (rs' & s2' & Ea' & Hs2 & Hm);
      [intros y Hy; apply Hρ; apply fvl_begin_of; exact Hy|eapply cok_app_l; exact Hc|exact Ea|].
    fold nc in Ea'. apply (evals_mono _ n) in Ea'; [|lia].
    destruct rs as [x|vs].
    - destruct Hm as (x' & -> & Hx). inversion E; subst.
      destruct nc as [|e0 nc0]; [cbn [of_list] in Ea'; rewrite evals_Nil in Ea'; discriminate|].
      cbn [begin_of]. rewrite eval_Begin, of_list_snoc, evals_eapp, Ea'.
      do 2 eexists. split; [reflexivity|]. split; assumption.
    - destruct Hm as (vs' & -> & Hvs).
      destruct (operands_of_scope _ _ _ _ _ _ _ _ _ _ Ha Har Hc Ea) as (ρ1 & B & Hc1 & Hl).
      destruct n as [|n2]; [rewrite eval_O in E; discriminate|]. rewrite eval_Lam in E. rewrite B in E.
      destruct (const_src _ Sn _ _ _ _ _ _ _ _ _ Hb Hv Hc1 Hs2 E) as [-> Hs1].
      destruct nc as [|e0 nc0].
      + cbn [of_list] in Ea'. rewrite evals_Nil in Ea'. inversion Ea'; subst. cbn [begin_of]. rewrite eval_Quote.
        do 2 eexists. split; [reflexivity|]. split; [constructor; apply datum_rel|exact Hs1].
      + cbn [begin_of]. rewrite eval_Begin, of_list_snoc, evals_eapp, Ea', evals_one, eval_Quote, last_val_snoc.
        do 2 eexists. split; [reflexivity|]. split; [constructor; apply datum_rel|exact Hs1].
  Qed.

  Lemma sim_fold c op a a' e1 :
    ces c a a' -> fold_prim c op (elist a') = Some e1 ->
    forall s s' ρ ρ' r0 s1, srel s s' -> cok c ρ (fv (Prim op a)) ->
      eval (S n) s ρ (Prim op a) = Some (r0, s1) ->
      exists r' s1', eval (S n) s' ρ' e1 = Some (r', s1') /\ rrel r0 r' /\ srel s1 s1'.
  Proof.
    intros Ha Hf s s' ρ ρ' r0 s1 Hs Hc E. rewrite eval_Prim in E. cbn [fv] in Hc.
    destruct (fold_prim_spec _ _ _ _ Hf) as (e1' & e2' & x & y & -> & Hal & H1 & H2 & ->).
    destruct (evals n s ρ a) as [[rs s2]|] eqn:Ea; [|discriminate].
    assert (Hnil : select (map (isncb c) (elist a')) (elist a') = []).
    { rewrite <- select_filter. apply filter_isncb_nil. rewrite Hal. cbn [forallb]. unfold isncb. rewrite H1, H2. reflexivity. }
    destruct (sim_select _ Sn _ _ _ Ha (map (isncb c) (elist a')) s s' ρ ρ rs s2 (F2_map_isncb _ _) Hs) as (rs' & s2' & Ea' & Hs2 & Hm);
      [apply envrel_refl|exact Hc|exact Ea|].
    rewrite Hnil in Ea'. cbn [of_list] in Ea'. rewrite evals_Nil in Ea'. inversion Ea'; subst rs' s2'; clear Ea'.
    destruct rs as [z|vs]; [destruct Hm as (? & ? & _); discriminate|].
    pose proof (const_vals _ Sn _ _ _ Ha _ _ _ _ Hc Ea) as HCV. rewrite Hal in HCV.
    inversion HCV as [|? v1 ? l1 Hv1 HCV1]; subst. inversion HCV1 as [|? v2 ? l2 Hv2 HCV2]; subst. inversion HCV2; subst.
    rewrite (Hv1 _ H1), (Hv2 _ H2) in E. cbn [val_of_datum apply_prim] in E. inversion E; subst.
    rewrite eval_Num. do 2 eexists. split; [reflexivity|]. split; [repeat constructor|exact Hs2].
  Qed.

  Lemma sim_if_const c t t' a a' b (pick : bool) :
    ce c t t' -> is_constant c t' = true -> truthy_constant c t' = pick ->
    ce c (if pick then a else b) a' ->
    forall s s' ρ ρ' r0 s1, srel s s' -> envrel (fv a') ρ ρ' -> cok c ρ (fv (If t a b)) ->
      eval (S n) s ρ (If t a b) = Some (r0, s1) ->
      exists r' s1', eval (S n) s' ρ' a' = Some (r', s1') /\ rrel r0 r' /\ srel s1 s1'.
  Proof.
    intros Ht Hk Hp Ha s s' ρ ρ' r0 s1 Hs Hρ Hc E. rewrite eval_If in E. cbn [fv] in Hc.
    destruct (is_constant_spec _ _ Hk) as (d & Hd & Htr).
    destruct (eval n s ρ t) as [[rt s2]|] eqn:Et; [|discriminate].
    destruct (const_src _ Sn _ _ _ _ _ _ _ _ _ Ht Hd (cok_app_l _ _ _ _ Hc) Hs Et) as [-> Hs2].
    rewrite Htr, Hp in E.
    destruct (Sn _ _ _ Ha s2 s' ρ ρ' r0 s1 Hs2 Hρ) as (r' & s1' & E' & Hr & Hs1); [|exact E|].
    { destruct pick; [eapply cok_app_l, cok_app_r; exact Hc|eapply cok_app_r, cok_app_r; exact Hc]. }
    exists r', s1'. split; [|split; assumption]. eapply eval_mono; [|exact E']. lia.
  Qed.

  Lemma sim_thunk c f b' :
    ce c f (Lam [] false b') ->
    forall s s' ρ ρ' r0 s1, srel s s' -> envrel (fv b') ρ ρ' -> cok c ρ (fv (Call f ENil)) ->
      eval (S n) s ρ (Call f ENil) = Some (r0, s1) ->
      exists r' s1', eval (S n) s' ρ' b' = Some (r', s1') /\ rrel r0 r' /\ srel s1 s1'.
  Proof.
    intros Hf s s' ρ ρ' r0 s1 Hs Hρ Hc E. rewrite eval_Call, evals_Nil in E. cbn [fv fvs app] in Hc.
    destruct (eval n s ρ f) as [[[vf|] s2]|] eqn:Ef; try discriminate.
    2:{ exfalso. destruct (Sn _ _ _ Hf _ _ _ _ _ _ Hs (envrel_refl _ ρ) Hc Ef) as (r' & s2' & Ef' & Hr & _).
        destruct n; [rewrite eval_O in Ef; discriminate|]. rewrite eval_Lam in Ef'. inversion Ef'; subst. inversion Hr. }
    assert (Hρf : envrel (fv (Lam [] false b')) ρ ρ') by (cbn [fv]; rewrite filter_nil_ps; exact Hρ).
    destruct (Sn _ _ _ Hf s s' ρ ρ' (Val vf) s2 Hs Hρf Hc Ef) as (r' & s2' & Ef' & Hr & Hs2).
    destruct n as [|n2]; [rewrite eval_O in Ef; discriminate|]. rewrite eval_Lam in Ef'. inversion Ef'; subst r' s2'; clear Ef'.
    inversion Hr as [v v' Hv|]; subst. inversion Hv as [| | | | |c0 ps0 rest0 b0 b0' ρ0 ρ0' Hb0 Hc0 He0]; subst.
    cbn [bind_params bind_fixed] in E.
    destruct (Sn _ _ _ Hb0 s2 s' ρ0 ρ' r0 s1 Hs2) as (r' & s1' & E' & Hr' & Hs1); [| |exact E|].
    { intros y Hy. specialize (He0 y). cbn [fv] in He0. rewrite filter_nil_ps in He0. specialize (He0 Hy).
      rewrite lookup_capture in He0. cbn [fv] in He0. rewrite filter_nil_ps in He0.
      pose proof Hy as My. apply mem_In in My. rewrite My in He0. exact He0. }
    { cbn [cnon map app]. eapply cok_incl; [exact Hc0|]. cbn [fv]. rewrite filter_nil_ps. apply incl_refl. }
    exists r', s1'. split; [|split; assumption]. eapply eval_mono; [|exact E']. lia.
  Qed.
End Cases.

Theorem ce_sim : forall n, simP n.
Proof.
  induction n as [N IHN] using lt_wf_ind.
  intros c e e' H. destruct H; intros s s' ρ ρ' r0 s1 Hs Hρ Hc E;
    (destruct N as [|n]; [rewrite eval_O in E; discriminate|]);
    assert (Sn : simP n) by (apply IHN; lia);
    assert (Sp : simP (Nat.pred n)) by (apply IHN; lia).
  - rewrite eval_Num in *. inversion E; subst. do 2 eexists. split; [reflexivity|]. split; [repeat constructor|exact Hs].
  - rewrite eval_Bool in *. inversion E; subst. do 2 eexists. split; [reflexivity|]. split; [repeat constructor|exact Hs].
  - rewrite eval_Quote in *. inversion E; subst. do 2 eexists. split; [reflexivity|]. split; [constructor; apply datum_rel|exact Hs].
  - rewrite eval_Glob in *. destruct Hs as [HG HO]. pose proof (HG g) as Hg.
    destruct Hg as [|v v' Hv]; inversion E; subst; do 2 eexists; (split; [reflexivity|]); split;
      try (split; assumption); constructor; assumption.
  - rewrite eval_Loc in *. specialize (Hρ x (or_introl eq_refl)).
    destruct Hρ as [|v v' Hv]; inversion E; subst; do 2 eexists; (split; [reflexivity|]); split;
      try exact Hs; constructor; assumption.
  - (* propagation of an atom *)
    rewrite eval_Loc in E. rewrite (Hc x d (or_introl eq_refl) H) in E. inversion E; subst.
    destruct d; cbn [atom_of] in H0; inversion H0; subst; [rewrite eval_Num|rewrite eval_Bool];
      do 2 eexists; (split; [reflexivity|]); (split; [repeat constructor|exact Hs]).
  - (* Lam *)
    rewrite eval_Lam in *. inversion E; subst.
    do 2 eexists. split; [reflexivity|]. split; [|exact Hs]. constructor. apply (VR_Clo c); [exact H| |].
    + intros x d Hx G. rewrite lookup_capture. cbn [fv] in *. pose proof Hx as Mx. apply mem_In in Mx. rewrite Mx. apply Hc; assumption.
    + intros x Hx. rewrite !lookup_capture.
      assert (Hx' : In x (fv (Lam ps r b))) by (apply (ce_fv c (Lam ps r b) (Lam ps r b')); [constructor; exact H|exact Hx]).
      apply mem_In in Hx. apply mem_In in Hx'. cbn [fv] in *. rewrite Hx, Hx'. apply Hρ. apply mem_In. exact Hx.
  - (* Call *)
    rewrite eval_Call in *. cbn [fv] in Hρ, Hc.
    destruct (evals (Nat.pred n) s ρ a) as [[[x|vs] s2]|] eqn:Ea; try discriminate;
      destruct (sims_from _ Sp _ _ _ H0 _ _ _ _ _ _ Hs (envrel_app_l _ _ _ _ Hρ) (cok_app_l _ _ _ _ Hc) Ea) as (rs' & s2' & Ea' & Hrs & Hs2);
      rewrite Ea'; inversion Hrs; subst.
    { inversion E; subst. do 2 eexists. split; [reflexivity|]. split; assumption. }
    destruct (eval n s2 ρ f) as [[[v|] s3]|] eqn:Ef; try discriminate;
      destruct (Sn _ _ _ H _ _ _ _ _ _ Hs2 (envrel_app_r _ _ _ _ Hρ) (cok_app_r _ _ _ _ Hc) Ef) as (r' & s3' & Ef' & Hr & Hs3);
      rewrite Ef'; inversion Hr; subst.
    2:{ inversion E; subst. do 2 eexists. split; [reflexivity|]. split; [constructor|exact Hs3]. }
    match goal with Hv : vrel v _ |- _ => inversion Hv; subst end;
      try (inversion E; subst; do 2 eexists; (split; [reflexivity|]); split; [constructor|exact Hs3]).
    match goal with
    | HF : Forall2 vrel ?vs ?vs', Hb : ce (cnon ?ps ++ ?c0)%list ?b ?b', Hk : cok ?c0 ?ρ0 _,
      He : (forall x, In x (fv (Lam ?ps ?rest ?b')) -> orel vrel (lookup x ?ρ0) (lookup x ?ρc')) |- _ =>
      destruct (bind_params ps rest vs ρ0) as [ρ1|] eqn:B;
      [ destruct (bind_params_rel ps rest vs vs' ρ0 ρc' ρ1 (fv b') HF) as (ρ1' & B' & A);
        [ intros x Hx Hn; apply He; cbn [fv]; apply in_filter_notin; assumption
        | exact B
        | rewrite B'; eapply Sn; [exact Hb|exact Hs3|exact A|eapply cok_cnon; eassumption|exact E] ]
      | rewrite (bind_params_none_rel _ _ _ _ _ ρc' HF B); inversion E; subst;
        do 2 eexists; split; [reflexivity|]; split; [constructor|exact Hs3] ]
    end.
  - eapply sim_thunk; eassumption.
  - eapply sim_calllam; eassumption.
  - eapply sim_drop; eassumption.
  - eapply sim_emit; eassumption.
  - (* If *)
    rewrite eval_If in *. cbn [fv] in Hρ, Hc.
    destruct (eval n s ρ t) as [[[v|] s2]|] eqn:Ec; try discriminate;
      destruct (Sn _ _ _ H _ _ _ _ _ _ Hs (envrel_app_l _ _ _ _ Hρ) (cok_app_l _ _ _ _ Hc) Ec) as (r' & s2' & Ec' & Hr & Hs2);
      rewrite Ec'; inversion Hr; subst.
    2:{ inversion E; subst. do 2 eexists. split; [reflexivity|]. split; [constructor|exact Hs2]. }
    match goal with Hv : vrel v _ |- _ => rewrite <- (truthy_rel _ _ Hv) end.
    destruct (truthy v).
    + eapply Sn; try eassumption; [eapply envrel_app_l, envrel_app_r; exact Hρ|eapply cok_app_l, cok_app_r; exact Hc].
    + eapply Sn; try eassumption; [eapply envrel_app_r, envrel_app_r; exact Hρ|eapply cok_app_r, cok_app_r; exact Hc].
  - eapply (sim_if_const n Sn c t t' a a' b true); eassumption.
  - eapply (sim_if_const n Sn c t t' a b' b false); eassumption.
  - (* Begin *)
    rewrite eval_Begin in *. cbn [fv] in Hρ, Hc.
    destruct (evals n s ρ es) as [[[x|vs] s2]|] eqn:Ea; try discriminate;
      destruct (sims_from _ Sn _ _ _ H _ _ _ _ _ _ Hs Hρ Hc Ea) as (rs' & s2' & Ea' & Hrs & Hs2);
      rewrite Ea'; inversion Hrs; subst; inversion E; subst; do 2 eexists; (split; [reflexivity|]); split;
      try assumption.
    constructor. apply last_val_rel. assumption.
  - (* Prim *)
    rewrite eval_Prim in *. cbn [fv] in Hρ, Hc.
    destruct (evals n s ρ a) as [[[x|vs] s2]|] eqn:Ea; try discriminate;
      destruct (sims_from _ Sn _ _ _ H _ _ _ _ _ _ Hs Hρ Hc Ea) as (rs' & s2' & Ea' & Hrs & Hs2);
      rewrite Ea'; inversion Hrs; subst; inversion E; subst.
    { do 2 eexists. split; [reflexivity|]. split; assumption. }
    match goal with
    | HF : Forall2 vrel ?vs ?vs' |- _ =>
      destruct (apply_prim_rel op vs vs' s2 s2' HF Hs2) as [P1 P2];
      destruct (apply_prim op vs s2) as [pr ps_]; destruct (apply_prim op vs' s2') as [pr' ps_']
    end.
    match goal with HH : (_, _) = (r0, s1) |- _ => inversion HH; subst end.
    do 2 eexists. split; [reflexivity|]. split; assumption.
  - eapply sim_fold; eassumption.
  - (* SetG *)
    rewrite eval_SetG in *. cbn [fv] in Hρ, Hc.
    destruct (eval n s ρ e) as [[[v|] s2]|] eqn:Ec; try discriminate;
      destruct (Sn _ _ _ H _ _ _ _ _ _ Hs Hρ Hc Ec) as (r' & s2' & Ec' & Hr & Hs2);
      rewrite Ec'; inversion Hr; subst.
    2:{ inversion E; subst. do 2 eexists. split; [reflexivity|]. split; [constructor|exact Hs2]. }
    destruct Hs2 as [HG HO]. pose proof (HG g) as Hg.
    cbv beta iota.
    destruct (lookup g (fst s2)) as [w|] eqn:L1; destruct (lookup g (fst s2')) as [w'|] eqn:L2;
      inversion Hg; subst; inversion E; subst.
    2:{ do 2 eexists. split; [reflexivity|]. split; [constructor|split; assumption]. }
    + do 2 eexists. split; [reflexivity|]. split; [repeat constructor|].
      split; cbn [fst snd]; [apply grel_update; assumption|exact HO].
  - (* Let, congruence *)
    rewrite eval_Let in *. cbn [fv] in Hρ, Hc.
    destruct (evals n s ρ rhs) as [[[x|vs] s2]|] eqn:Ea; try discriminate;
      destruct (sims_from _ Sn _ _ _ H _ _ _ _ _ _ Hs (envrel_app_l _ _ _ _ Hρ) (cok_app_l _ _ _ _ Hc) Ea) as (rs' & s2' & Ea' & Hrs & Hs2);
      rewrite Ea'; inversion Hrs; subst.
    { inversion E; subst. do 2 eexists. split; [reflexivity|]. split; assumption. }
    pose proof (const_vals n Sn _ _ _ H _ _ _ _ (cok_app_l _ _ _ _ Hc) Ea) as HCV.
    match goal with
    | HF : Forall2 vrel ?vs ?vs' |- _ =>
      destruct (bind_fixed xs vs ρ) as [ρ1|] eqn:B;
      [ destruct (bind_fixed_rel xs vs vs' ρ ρ' ρ1 (fv b') HF) as (ρ1' & B' & A);
        [ intros x Hx Hn; apply (envrel_app_r _ _ _ _ Hρ); apply in_filter_notin; assumption
        | exact B
        | rewrite B'; eapply Sn; [exact H0|exact Hs2|exact A| |exact E] ]
      | rewrite (bind_fixed_none_rel _ _ _ _ ρ' HF B); inversion E; subst;
        do 2 eexists; split; [reflexivity|]; split; [constructor|exact Hs2] ]
    end.
    intros z d Hz G. eapply cok_bind_fixed; try eassumption.
    intros Hn d0 G0. apply (cok_app_r _ _ _ _ Hc); [|exact G0]. apply in_filter_notin; assumption.
  - eapply sim_let; eassumption.
  - (* Let, every binding dropped *)
    destruct (sim_let n Sn c xs rhs rhs' b b' keep H H0 H1 s s' ρ ρ' r0 s1 Hs) as (r' & s1' & E' & Hr & Hs1);
      [|exact Hc|exact E|].
    { rewrite !select_none by assumption. cbn [of_list fv fvs app]. rewrite filter_nil_ps. exact Hρ. }
    rewrite !select_none in E' by assumption. cbn [of_list] in E'.
    rewrite eval_Let, evals_Nil in E'. cbn [bind_fixed] in E'.
    exists r', s1'. split; [|split; assumption]. eapply eval_mono; [|exact E']. lia.
Qed.

End CE.
