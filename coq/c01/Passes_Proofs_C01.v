(* C01 (passes) — the modelled passes preserve the reference meaning under the side conditions the code checks
   (all guards on), and each guard is necessary (witnesses for the variants with a guard off). *)
From Coq Require Import ZArith List Bool String Lia.
From SV Require Import c01.Passes_Model_C01 c01.Passes_Basics_C01 c01.Passes_Compat_C01.
Import ListNotations.
Open Scope string_scope.

(* ------------------------------------------------------------------ helpers on operand lists *)
Lemma fvs_eapp a b : fvs (eapp a b) = (fvs a ++ fvs b)%list.
Proof. induction a as [|e a IH]; cbn [eapp fvs]; [reflexivity|]. rewrite IH, app_assoc. reflexivity. Qed.

Lemma elen_eapp a b : elen (eapp a b) = elen a + elen b.
Proof. induction a as [|e a IH]; cbn [eapp elen]; [reflexivity|]. rewrite IH. reflexivity. Qed.

Lemma eapp_firstn_skipn k l : eapp (efirstn k l) (eskipn k l) = l.
Proof. revert l; induction k as [|k IH]; intros [|e l]; cbn [efirstn eskipn eapp]; try reflexivity. rewrite IH. reflexivity. Qed.

Lemma elen_efirstn k l : k <= elen l -> elen (efirstn k l) = k.
Proof. revert l; induction k as [|k IH]; intros [|e l] H; cbn [efirstn elen] in *; try lia. rewrite IH; lia. Qed.

Lemma efirstn_all k l : elen l <= k -> efirstn k l = l.
Proof. revert l; induction k as [|k IH]; intros [|e l] H; cbn [efirstn elen] in *; try reflexivity; try lia. rewrite IH; [reflexivity|lia]. Qed.

Lemma evals_eapp m a b s ρ :
  evals m s ρ (eapp a b) =
  match evals m s ρ a with
  | None => None
  | Some (inl x, s1) => Some (inl x, s1)
  | Some (inr vs, s1) =>
      match evals m s1 ρ b with
      | None => None
      | Some (inl x, s2) => Some (inl x, s2)
      | Some (inr ws, s2) => Some (inr (vs ++ ws)%list, s2)
      end
  end.
Proof.
  revert s. induction a as [|e a IH]; intros s; cbn [eapp].
  - rewrite evals_Nil. destruct (evals m s ρ b) as [[[x|ws] s2]|]; reflexivity.
  - rewrite !evals_Cons. destruct (eval m s ρ e) as [[[v|] s1]|]; try reflexivity.
    rewrite IH. destruct (evals m s1 ρ a) as [[[x|vs] s2]|]; try reflexivity.
    destruct (evals m s2 ρ b) as [[[x|ws] s3]|]; reflexivity.
Qed.

Lemma evals_one m s ρ e : evals m s ρ (ECons e ENil) =
  match eval m s ρ e with
  | None => None
  | Some (Val v, s1) => Some (inr [v], s1)
  | Some (Err, s1) => Some (inl Err, s1)
  end.
Proof. rewrite evals_Cons. destruct (eval m s ρ e) as [[[v|] s1]|]; try reflexivity. Qed.

Lemma evals_length m l : forall s ρ vs s1, evals m s ρ l = Some (inr vs, s1) -> List.length vs = elen l.
Proof.
  induction l as [|e l IH]; intros s ρ vs s1 E.
  - rewrite evals_Nil in E. inversion E; reflexivity.
  - rewrite evals_Cons in E. destruct (eval m s ρ e) as [[[v|] s2]|]; try discriminate.
    destruct (evals m s2 ρ l) as [[[x|ws] s3]|] eqn:El; try discriminate. inversion E; subst.
    cbn [List.length elen]. f_equal. eapply IH; eassumption.
Qed.

Lemma evals_inl_err m l : forall s ρ x s1, evals m s ρ l = Some (inl x, s1) -> x = Err.
Proof.
  induction l as [|e l IH]; intros s ρ x s1 E.
  - rewrite evals_Nil in E. discriminate.
  - rewrite evals_Cons in E. destruct (eval m s ρ e) as [[[v|] s2]|]; try discriminate.
    + destruct (evals m s2 ρ l) as [[[y|ws] s3]|] eqn:El; try discriminate. inversion E; subst. eapply IH; eassumption.
    + inversion E; reflexivity.
Qed.

Lemma evals_zero l s ρ r : evals 0 s ρ l = Some r -> l = ENil /\ r = (inr [], s).
Proof.
  destruct l; [rewrite evals_Nil; intros E; inversion E; auto|].
  rewrite evals_Cons, eval_O. discriminate.
Qed.

Lemma bind_fixed_app : forall a b v w ρ,
  List.length a = List.length v ->
  bind_fixed (a ++ b) (v ++ w) ρ =
  match bind_fixed a v ρ with Some ρ1 => bind_fixed b w ρ1 | None => None end.
Proof.
  induction a as [|x a IH]; intros b [|y v] w ρ L; cbn [List.length] in L; try discriminate; cbn [app bind_fixed].
  - reflexivity.
  - apply IH. lia.
Qed.

Lemma firstn_len_app {A} (a b : list A) : firstn (List.length a) (a ++ b) = a.
Proof. induction a; cbn [List.length firstn app]; [destruct b; reflexivity|]. f_equal. assumption. Qed.
Lemma skipn_len_app {A} (a b : list A) : skipn (List.length a) (a ++ b) = b.
Proof. induction a; cbn [List.length skipn app]; [reflexivity|assumption]. Qed.

Lemma mentions_any_false ids l : mentions_any ids l = false -> forall x, In x (fvs l) -> ~ In x ids.
Proof.
  unfold mentions_any. intros H x Hx Hi.
  assert (existsb (fun y => mem y ids) (fvs l) = true); [|congruence].
  apply existsb_exists. exists x. split; [exact Hx|]. apply mem_In. exact Hi.
Qed.

Lemma in_filter_notin (ps : list string) l x : In x l -> ~ In x ps -> In x (filter (fun y => negb (mem y ps)) l).
Proof. intros Hx Hn. apply filter_In. split; [exact Hx|]. apply mem_false in Hn. rewrite Hn. reflexivity. Qed.

Lemma in_filter_inv (ps : list string) l x : In x (filter (fun y => negb (mem y ps)) l) -> In x l /\ ~ In x ps.
Proof.
  intros H. apply filter_In in H. destruct H as [H1 H2]. split; [exact H1|].
  apply mem_false. destruct (mem x ps); [discriminate|reflexivity].
Qed.

Definition Rnone : exp -> exp -> Prop := fun _ _ => False.

(* ------------------------------------------------------------------ pass 1: flattening *)
Inductive Rflat : exp -> exp -> Prop :=
| RF ps_a ps_b body xs ys :
    mentions_any ps_a ys = false ->
    List.length ps_a = elen xs ->
    Rflat (Call (Lam ps_a false (Call (Lam ps_b false body) ys)) xs)
          (Call (Lam (ps_a ++ ps_b) false body) (eapp xs ys)).

Lemma Rflat_fv e e1 : Rflat e e1 -> incl (fv e1) (fv e).
Proof.
  intros H; destruct H as [ps_a ps_b body xs ys Hm Hl]. cbn [fv]. rewrite fvs_eapp.
  intros x Hx. apply in_app_or in Hx. destruct Hx as [Hx|Hx].
  - apply in_app_or in Hx. destruct Hx as [Hx|Hx]; apply in_or_app; [left; exact Hx|right].
    apply in_filter_notin; [apply in_or_app; left; exact Hx|]. eapply mentions_any_false; eassumption.
  - apply in_filter_inv in Hx. destruct Hx as [Hx Hn]. apply in_or_app. right.
    apply in_filter_notin.
    + apply in_or_app. right. apply in_filter_notin; [exact Hx|]. intros Hi. apply Hn. apply in_or_app; right; exact Hi.
    + intros Hi. apply Hn. apply in_or_app; left; exact Hi.
Qed.

Lemma Rflat_sound e e1 : Rflat e e1 ->
  forall n s ρ r, eval n s ρ e = Some r -> eval n s ρ e1 = Some r.
Proof.
  intros H; destruct H as [ps_a ps_b body xs ys Hm Hl]. intros n s ρ r E.
  destruct n as [|n1]; [rewrite eval_O in E; discriminate|].
  rewrite eval_Call in *. rewrite evals_eapp.
  destruct (evals (Nat.pred n1) s ρ xs) as [[[x|vs] s1]|] eqn:Exs; try discriminate; [exact E|].
  destruct n1 as [|n2]; [rewrite eval_O in E; discriminate|].
  rewrite eval_Lam in E. cbn [Nat.pred] in *.
  set (inner := Call (Lam ps_b false body) ys) in *.
  set (ρc := capture ρ (fv (Lam ps_a false inner))) in *.
  pose proof (evals_length _ _ _ _ _ _ Exs) as Lvs.
  unfold bind_params in E.
  destruct (bind_fixed ps_a vs ρc) as [ρa|] eqn:Ba.
  2:{ exfalso. destruct (bind_fixed_total ps_a vs ρc) as (? & B); [lia|congruence]. }
  (* the operands of the inner call see the outer environment *)
  assert (Ays : agree (fvs ys) ρa ρ).
  { intros y Hy. pose proof (mentions_any_false _ _ Hm y Hy) as Hn.
    rewrite (lookup_bind_fixed_notin _ _ _ _ _ Ba Hn). unfold ρc. rewrite lookup_capture.
    assert (Hin : mem y (fv (Lam ps_a false inner)) = true).
    { apply mem_In. cbn [fv]. apply in_filter_notin; [|exact Hn]. unfold inner. cbn [fv].
      apply in_or_app. left. exact Hy. }
    rewrite Hin. reflexivity. }
  unfold inner in E. rewrite eval_Call in E.
  rewrite (evals_env_ext _ ys s1 ρa ρ Ays) in E.
  destruct (evals (Nat.pred n2) s1 ρ ys) as [[[x|ws] s2]|] eqn:Eys; try discriminate.
  - rewrite (evals_mono (Nat.pred n2) n2 _ _ _ _ ltac:(lia) Eys). exact E.
  - rewrite (evals_mono (Nat.pred n2) n2 _ _ _ _ ltac:(lia) Eys).
    destruct n2 as [|n3]; [rewrite eval_O in E; discriminate|].
    rewrite eval_Lam in *. unfold bind_params in *.
    set (ρc2 := capture ρa (fv (Lam ps_b false body))) in *.
    set (ρc' := capture ρ (fv (Lam (ps_a ++ ps_b) false body))).
    rewrite bind_fixed_app by lia.
    (* the outer parameters over the two captured environments *)
    destruct (bind_fixed_agree ps_a vs ρc ρc' ρa
                (filter (fun y => negb (mem y ps_b)) (fv body)) Ba) as (ρa' & Ba' & Aa).
    { intros x Hx Hn. apply in_filter_inv in Hx. destruct Hx as [Hx Hnb].
      unfold ρc, ρc'. rewrite !lookup_capture.
      assert (H1 : mem x (fv (Lam ps_a false inner)) = true).
      { apply mem_In. cbn [fv]. apply in_filter_notin; [|exact Hn]. unfold inner. cbn [fv].
        apply in_or_app. right. apply in_filter_notin; assumption. }
      assert (H2 : mem x (fv (Lam (ps_a ++ ps_b) false body)) = true).
      { apply mem_In. cbn [fv]. apply in_filter_notin; [exact Hx|].
        intros Hi. apply in_app_or in Hi. tauto. }
      rewrite H1, H2. reflexivity. }
    rewrite Ba'.
    destruct (bind_fixed ps_b ws ρc2) as [ρb|] eqn:Bb.
    + destruct (bind_fixed_agree ps_b ws ρc2 ρa' ρb (fv body) Bb) as (ρb' & Bb' & Ab).
      { intros x Hx Hn. unfold ρc2. rewrite lookup_capture.
        assert (H1 : mem x (fv (Lam ps_b false body)) = true).
        { apply mem_In. cbn [fv]. apply in_filter_notin; assumption. }
        rewrite H1. apply Aa. apply in_filter_notin; assumption. }
      rewrite Bb'. rewrite <- (eval_env_ext _ s2 ρb ρb' body Ab).
      eapply eval_mono; [|exact E]. lia.
    + destruct (bind_fixed ps_b ws ρa') as [ρb'|] eqn:Bb'; [|exact E].
      exfalso. destruct (bind_fixed_total ps_b ws ρc2 (bind_fixed_length _ _ _ _ Bb')) as (? & B). congruence.
Qed.

Lemma flatten_root_spec e e1 :
  flatten_root all_on e = Some e1 -> static_arity e = true -> Rflat e e1 /\ static_arity e1 = true.
Proof.
  destruct e as [| | | | | |f xs| | | | |]; try discriminate.
  destruct f as [| | | | |ps_a rest_a b| | | | | |]; try discriminate.
  destruct b as [| | | | | |g ys| | | | |]; try discriminate.
  destruct g as [| | | | |ps_b rest_b body| | | | | |]; try discriminate.
  cbn [flatten_root all_on flatten_checks_operand_ids flatten_checks_outer_rest flatten_checks_inner_rest andb].
  destruct (mentions_any ps_a ys) eqn:Hm; [discriminate|].
  destruct rest_a; [discriminate|]. destruct rest_b; [discriminate|]. cbn [orb].
  intros E; inversion E; subst; clear E. cbn [static_arity negb orb andb].
  intros S. repeat (apply andb_prop in S; destruct S as [S ?]).
  repeat match goal with H : (_ && _)%bool = true |- _ => apply andb_prop in H; destruct H end.
  repeat match goal with H : Nat.eqb _ _ = true |- _ => apply Nat.eqb_eq in H end.
  split; [constructor; assumption|].
  assert (Sapp : forall a b, static_aritys a = true -> static_aritys b = true -> static_aritys (eapp a b) = true).
  { induction a as [|x a IH]; intros b0 Ha Hb; cbn [eapp static_aritys] in *; [exact Hb|].
    apply andb_prop in Ha. destruct Ha as [Ha1 Ha2]. rewrite Ha1, IH; auto. }
  rewrite app_length, elen_eapp.
  repeat (apply andb_true_intro; split); try assumption; try (apply Sapp; assumption).
  apply Nat.eqb_eq. congruence.
Qed.

Lemma flatten_crel_both : forall k,
  (forall e, static_arity e = true -> crel Rflat Rnone e (flatten_f all_on k e)) /\
  (forall l, static_aritys l = true -> crels Rflat Rnone l (flattens_f all_on k l)).
Proof.
  induction k as [|k [IHe IHl]]; (split; [intros e S|intros l S]); cbn [flatten_f flattens_f];
    try apply crel_refl; try apply crels_refl.
  - destruct (flatten_root all_on e) as [e1|] eqn:Er.
    + destruct (flatten_root_spec _ _ Er S) as [HR S1]. eapply C_step; [exact HR|]. apply IHe; exact S1.
    + destruct e; cbn [static_arity] in S;
        repeat match goal with H : (_ && _)%bool = true |- _ => apply andb_prop in H; destruct H end;
        constructor; auto.
  - destruct l; cbn [static_aritys] in S; [constructor|].
    apply andb_prop in S. destruct S. constructor; auto.
Qed.

(* ------------------------------------------------------------------ pass 2: applied lambda -> %plain-let *)
Inductive Rplet : exp -> exp -> Prop :=
| RP_fixed ps body args :
    List.length ps = elen args ->
    Rplet (Call (Lam ps false body) args) (Let ps args body)
| RP_rest ps body args :
    ps <> [] -> Nat.pred (List.length ps) <= elen args ->
    Rplet (Call (Lam ps true body) args)
          (Let ps (eapp (efirstn (Nat.pred (List.length ps)) args)
                        (ECons (Prim PConstList (eskipn (Nat.pred (List.length ps)) args)) ENil)) body).

Lemma Rplet_fv e e1 : Rplet e e1 -> incl (fv e1) (fv e) /\ incl (fv e) (fv e1).
Proof.
  intros H; destruct H as [ps body args Hl|ps body args Hne Hl]; cbn [fv].
  - split; apply incl_refl.
  - rewrite fvs_eapp. cbn [fvs fv]. rewrite app_nil_r.
    rewrite <- (eapp_firstn_skipn (Nat.pred (List.length ps)) args) at 3 4. rewrite fvs_eapp. split; apply incl_refl.
Qed.

Lemma Rplet_sound e e1 : Rplet e e1 ->
  forall n s ρ r, eval n s ρ e = Some r -> eval n s ρ e1 = Some r.
Proof.
  intros H; destruct H as [ps body args Hl|ps body args Hne Hl]; intros n s ρ r E.
  - (* no rest parameter *)
    destruct n as [|n1]; [rewrite eval_O in E; discriminate|].
    rewrite eval_Call in E. rewrite eval_Let.
    destruct (evals (Nat.pred n1) s ρ args) as [[[x|vs] s1]|] eqn:Ea; try discriminate.
    + rewrite (evals_mono _ n1 _ _ _ _ (Nat.le_pred_l n1) Ea). exact E.
    + rewrite (evals_mono _ n1 _ _ _ _ (Nat.le_pred_l n1) Ea).
      destruct n1 as [|n2]; [rewrite eval_O in E; discriminate|]. rewrite eval_Lam in E.
      unfold bind_params in E.
      set (ρc := capture ρ (fv (Lam ps false body))) in *.
      destruct (bind_fixed ps vs ρc) as [ρ1|] eqn:B.
      * destruct (bind_fixed_agree ps vs ρc ρ ρ1 (fv body) B) as (ρ2 & B2 & A).
        { intros x Hx Hn. unfold ρc. rewrite lookup_capture.
          assert (H1 : mem x (fv (Lam ps false body)) = true)
            by (apply mem_In; cbn [fv]; apply in_filter_notin; assumption).
          rewrite H1. reflexivity. }
        rewrite B2. rewrite <- (eval_env_ext _ s1 ρ1 ρ2 body A). exact E.
      * destruct (bind_fixed ps vs ρ) as [ρ2|] eqn:B2; [|exact E].
        exfalso. destruct (bind_fixed_total ps vs ρc (bind_fixed_length _ _ _ _ B2)) as (? & B'). congruence.
  - (* rest parameter, enough operands *)
    set (k := Nat.pred (List.length ps)) in *.
    destruct n as [|n1]; [rewrite eval_O in E; discriminate|].
    rewrite eval_Call in E. rewrite eval_Let.
    rewrite <- (eapp_firstn_skipn k args) in E. rewrite evals_eapp in *.
    set (A := efirstn k args) in *. set (B := eskipn k args) in *.
    destruct (evals (Nat.pred n1) s ρ A) as [[[x|vs] s1]|] eqn:EA; try discriminate.
    { rewrite (evals_mono _ n1 _ _ _ _ (Nat.le_pred_l n1) EA). exact E. }
    rewrite (evals_mono _ n1 _ _ _ _ (Nat.le_pred_l n1) EA).
    rewrite evals_one.
    destruct n1 as [|n2].
    { (* no fuel for the operator: the source is out of fuel unless an operand failed, which needs fuel *)
      cbn [Nat.pred] in *. destruct (evals 0 s1 ρ B) as [[[x|ws] s2]|] eqn:EB; try discriminate.
      all: try (apply evals_zero in EB; destruct EB as [_ EB]; discriminate).
      all: rewrite eval_O in E; discriminate. }
    cbn [Nat.pred] in *. rewrite eval_Prim.
    destruct (evals n2 s1 ρ B) as [[[x|ws] s2]|] eqn:EB; try discriminate;
      [rewrite (evals_inl_err _ _ _ _ _ _ EB) in *; exact E|].
    cbn [apply_prim]. rewrite eval_Lam in E.
    set (ρc := capture ρ (fv (Lam ps true body))) in *.
    pose proof (evals_length _ _ _ _ _ _ EA) as LA. unfold A in LA. rewrite (elen_efirstn _ _ Hl) in LA.
    unfold bind_params in E.
    destruct (rev ps) as [|rp lp] eqn:Er.
    { exfalso. apply Hne. rewrite <- (rev_involutive ps), Er. reflexivity. }
    pose proof (rev_split_last _ _ _ Er) as Hps. fold k in Hps.
    rewrite app_length in E. fold k in E.
    replace (Nat.ltb (List.length vs + List.length ws) k) with false in E
      by (symmetry; apply Nat.ltb_ge; lia).
    assert (F1 : firstn k (vs ++ ws) = vs) by (rewrite <- LA; apply firstn_len_app).
    assert (F2 : skipn k (vs ++ ws) = ws) by (rewrite <- LA; apply skipn_len_app).
    rewrite F1, F2 in E.
    rewrite Hps at 1. rewrite bind_fixed_app by (rewrite firstn_length; lia).
    destruct (bind_fixed (firstn k ps) vs ρc) as [ρa|] eqn:Ba.
    + destruct (bind_fixed_agree (firstn k ps) vs ρc ρ ρa
                  (filter (fun y => negb (String.eqb y rp)) (fv body)) Ba) as (ρa' & Ba' & Aa).
      { intros x Hx Hn. apply filter_In in Hx. destruct Hx as [Hx Hr].
        unfold ρc. rewrite lookup_capture.
        assert (H1 : mem x (fv (Lam ps true body)) = true).
        { apply mem_In. cbn [fv]. apply in_filter_notin; [exact Hx|].
          rewrite Hps. intros Hi. apply in_app_or in Hi. destruct Hi as [Hi|[Hi|[]]]; [exact (Hn Hi)|].
          subst x. rewrite String.eqb_refl in Hr. discriminate. }
        rewrite H1. reflexivity. }
      rewrite Ba'. cbn [bind_fixed].
      rewrite <- (eval_env_ext _ s2 (EBind rp (list_val ws) ρa) (EBind rp (list_val ws) ρa') body).
      * eapply eval_mono; [|exact E]. lia.
      * intros x Hx. cbn [lookup]. destruct (String.eqb x rp) eqn:Ex; [reflexivity|].
        apply Aa. apply filter_In. split; [exact Hx|]. rewrite Ex. reflexivity.
    + destruct (bind_fixed (firstn k ps) vs ρ) as [ρa'|] eqn:Ba'; [|exact E].
      exfalso. destruct (bind_fixed_total (firstn k ps) vs ρc (bind_fixed_length _ _ _ _ Ba')) as (? & B'). congruence.
Qed.

Definition rest_rhs (ps : list string) (args : exps) : exps :=
  eapp (efirstn (Nat.pred (List.length ps)) args)
       (ECons (Prim PConstList (eskipn (Nat.pred (List.length ps)) args)) ENil).

Lemma plain_let_root_cases e :
  static_arity e = true ->
  plain_let_root all_on e = e \/
  (exists ps body args, e = Call (Lam ps false body) args /\ List.length ps = elen args /\
                        plain_let_root all_on e = Let ps args body) \/
  (exists ps body args, e = Call (Lam ps true body) args /\ ps <> [] /\ Nat.pred (List.length ps) <= elen args /\
                        plain_let_root all_on e = Let ps (rest_rhs ps args) body).
Proof.
  destruct e as [| | | | | |f args| | | | |]; try (left; reflexivity).
  destruct f as [| | | | |ps rest body| | | | | |]; try (left; reflexivity).
  cbn [static_arity plain_let_root all_on plain_let_skips_short_calls plain_let_builds_const_list andb].
  intros S. repeat (apply andb_prop in S; destruct S as [S ?]).
  repeat match goal with H : (_ && _)%bool = true |- _ => apply andb_prop in H; destruct H end.
  destruct rest.
  - match goal with H : (negb true || _)%bool = true |- _ => cbn [negb orb] in H; rename H into Hne end.
    destruct (Nat.ltb (elen args) (Nat.pred (List.length ps))) eqn:Hlt; [left; reflexivity|].
    apply Nat.ltb_ge in Hlt. rename Hlt into Hle.
    right. right. exists ps, body, args.
    assert (Hps : ps <> []) by (intros ->; discriminate).
    fold (rest_rhs ps args).
    assert (Hlen : elen (rest_rhs ps args) = List.length ps).
    { unfold rest_rhs. rewrite elen_eapp, (elen_efirstn _ _ Hle). cbn [elen]. destruct ps; [congruence|cbn [List.length Nat.pred]; lia]. }
    rewrite Hlen, Nat.min_id, firstn_all, efirstn_all by lia.
    repeat split; assumption.
  - match goal with H : Nat.eqb _ _ = true |- _ => apply Nat.eqb_eq in H; rename H into Hl end.
    right. left. exists ps, body, args. rewrite <- Hl, Nat.min_id, firstn_all, efirstn_all by lia.
    repeat split; assumption.
Qed.

Lemma plain_let_root_spec e :
  static_arity e = true -> e = plain_let_root all_on e \/ Rplet e (plain_let_root all_on e).
Proof.
  intros S. destruct (plain_let_root_cases e S) as [H|[(ps & body & args & -> & Hl & ->)|(ps & body & args & -> & Hne & Hl & ->)]].
  - left. symmetry. exact H.
  - right. constructor. exact Hl.
  - right. unfold rest_rhs. constructor; assumption.
Qed.

(* the bottom-up traversal keeps the operand counts *)
Lemma plain_let_elen g : forall l, elen (plain_lets g l) = elen l.
Proof. induction l; cbn [plain_lets elen]; congruence. Qed.

Definition arity_cond (f : exp) (n : nat) : bool :=
  match f with
  | Lam ps true _ => true
  | Lam ps false _ => Nat.eqb (List.length ps) n
  | _ => true
  end.

Lemma plain_let_arity g f n : arity_cond (plain_let g f) n = arity_cond f n.
Proof.
  destruct f; try reflexivity. cbn [plain_let]. unfold plain_let_root.
  destruct (plain_let g f); try reflexivity.
  destruct rest; [|reflexivity].
  destruct (plain_let_skips_short_calls g && _)%bool; reflexivity.
Qed.

Lemma plain_let_static_both :
  (forall e, static_arity e = true -> static_arity (plain_let all_on e) = true) /\
  (forall l, static_aritys l = true -> static_aritys (plain_lets all_on l) = true).
Proof.
  apply exp_exps_ind; intros; cbn [plain_let plain_lets]; try assumption;
    match goal with H : _ = true |- _ => cbn [static_arity static_aritys] in H end;
    repeat match goal with H : (_ && _)%bool = true |- _ => apply andb_prop in H; destruct H end;
    cbn [static_arity static_aritys]; rewrite ?plain_let_elen;
    try (repeat (apply andb_true_intro; split); auto; fail).
  (* Call: the root rewrite *)
  assert (S0 : static_arity (Call (plain_let all_on f) (plain_lets all_on args)) = true).
  { cbn [static_arity]. rewrite plain_let_elen.
    repeat (apply andb_true_intro; split); auto.
    change (arity_cond (plain_let all_on f) (elen args) = true). rewrite plain_let_arity. assumption. }
  destruct (plain_let_root_cases _ S0) as [Heq|[(ps & body & a & Hsrc & Hl & ->)|(ps & body & a & Hsrc & Hne & Hl & ->)]];
    [rewrite Heq; exact S0| |]; rewrite Hsrc in S0; cbn [static_arity] in S0;
    repeat match goal with H : (_ && _)%bool = true |- _ => apply andb_prop in H; destruct H end.
  - cbn [static_arity]. repeat (apply andb_true_intro; split); auto.
  - cbn [static_arity]. unfold rest_rhs. rewrite elen_eapp, (elen_efirstn _ _ Hl). cbn [elen].
    assert (Ssplit : forall k l, static_aritys l = true ->
              static_aritys (efirstn k l) = true /\ static_aritys (eskipn k l) = true).
    { induction k as [|k IHk]; intros [|x l0] Hs; cbn [efirstn eskipn static_aritys] in *; auto.
      apply andb_prop in Hs. destruct Hs as [Hs1 Hs2]. destruct (IHk _ Hs2) as [I1 I2]. rewrite Hs1, I1. auto. }
    assert (Sapp : forall a b, static_aritys a = true -> static_aritys b = true -> static_aritys (eapp a b) = true).
    { induction a0 as [|x a0 IHa]; intros b0 Ha Hb; cbn [eapp static_aritys] in *; [exact Hb|].
      apply andb_prop in Ha. destruct Ha as [Ha1 Ha2]. rewrite Ha1, IHa; auto. }
    match goal with H : static_aritys a = true |- _ => destruct (Ssplit (Nat.pred (List.length ps)) _ H) as [I1 I2] end.
    repeat (apply andb_true_intro; split); auto.
    + apply Nat.eqb_eq. destruct ps; [congruence|cbn [List.length Nat.pred]; lia].
    + apply Sapp; [exact I1|]. cbn [static_aritys static_arity]. rewrite I2. reflexivity.
Qed.

Lemma plain_let_crel_both :
  (forall e, static_arity e = true -> crel Rnone Rplet e (plain_let all_on e)) /\
  (forall l, static_aritys l = true -> crels Rnone Rplet l (plain_lets all_on l)).
Proof.
  apply exp_exps_ind; intros; cbn [plain_let plain_lets]; try (constructor; fail);
    match goal with H : _ = true |- _ => cbn [static_arity static_aritys] in H end;
    repeat match goal with H : (_ && _)%bool = true |- _ => apply andb_prop in H; destruct H end;
    try (constructor; auto; fail).
  (* Call: the children first (congruence), then the rule on the visited node *)
  assert (S0 : static_arity (Call (plain_let all_on f) (plain_lets all_on args)) = true).
  { cbn [static_arity]. rewrite plain_let_elen.
    repeat (apply andb_true_intro; split); auto; try (apply plain_let_static_both; assumption).
    change (arity_cond (plain_let all_on f) (elen args) = true). rewrite plain_let_arity. assumption. }
  assert (C0 : crel Rnone Rplet (Call f args) (Call (plain_let all_on f) (plain_lets all_on args)))
    by (constructor; auto).
  destruct (plain_let_root_spec _ S0) as [Heq|HR]; [rewrite <- Heq; exact C0|].
  eapply C_post; eassumption.
Qed.

(* ------------------------------------------------------------------ pass 4: constant tests *)
Inductive Rprune : exp -> exp -> Prop :=
| RPr c t e : expr_is_truthy all_on c = true -> Rprune (If c t e) t.

Lemma Rprune_fv e e1 : Rprune e e1 -> incl (fv e1) (fv e).
Proof. intros H; destruct H. cbn [fv]. intros x Hx. apply in_or_app. right. apply in_or_app. left. exact Hx. Qed.

Lemma Rprune_sound e e1 : Rprune e e1 ->
  forall n s ρ r, eval n s ρ e = Some r -> eval n s ρ e1 = Some r.
Proof.
  intros H; destruct H as [c t e Hc]. intros n s ρ r E.
  destruct n as [|n1]; [rewrite eval_O in E; discriminate|]. rewrite eval_If in E.
  destruct n1 as [|n2]; [rewrite eval_O in E; discriminate|].
  assert (Ec : exists v, eval (S n2) s ρ c = Some (Val v, s) /\ truthy v = true).
  { destruct c; try discriminate; cbn [expr_is_truthy all_on prune_if_quote_false_is_false negb] in Hc.
    - eexists; split; [apply eval_Num|reflexivity].
    - subst b. eexists; split; [apply eval_Bool|reflexivity].
    - rewrite eval_Quote. eexists; split; [reflexivity|].
      destruct d as [z|[|]| |a d]; try reflexivity; discriminate. }
  destruct Ec as (v & Ec & Tv). rewrite Ec, Tv in E.
  eapply eval_mono; [|exact E]. lia.
Qed.

Lemma prune_if_crel_both :
  (forall e, crel Rprune Rnone e (prune_if all_on e)) /\ (forall l, crels Rprune Rnone l (prune_ifs all_on l)).
Proof.
  apply exp_exps_ind; intros; cbn [prune_if prune_ifs]; try (constructor; auto; fail).
  destruct (expr_is_truthy all_on c) eqn:Hc.
  - eapply C_step; [constructor; exact Hc|assumption].
  - constructor; assumption.
Qed.

(* ------------------------------------------------------------------ the simulation theorems *)
Lemma Rnone_fv2 e e1 : Rnone e e1 -> incl (fv e1) (fv e) /\ incl (fv e) (fv e1).
Proof. intros []. Qed.
Lemma Rnone_fv e e1 : Rnone e e1 -> incl (fv e1) (fv e).
Proof. intros []. Qed.
Lemma Rnone_sound e e1 : Rnone e e1 -> forall n s ρ r, eval n s ρ e = Some r -> eval n s ρ e1 = Some r.
Proof. intros []. Qed.

(* what an observer sees of a result: the printed value / error and the output *)
Lemma vrel_val_str R Q : forall v v', vrel R Q v v' -> val_str v = val_str v'.
Proof.
  induction v; intros v' H; inversion H; subst; cbn [val_str]; try reflexivity.
  rewrite (IHv1 _ H2), (IHv2 _ H4). reflexivity.
Qed.

Lemma rel_render R Q r r' s1 s1' :
  rrel R Q r r' -> srel R Q s1 s1' -> render_res (Some (r, s1)) = render_res (Some (r', s1')).
Proof.
  intros Hr [_ HO].
  assert (Ho : map val_str (rev (snd s1)) = map val_str (rev (snd s1'))).
  { rewrite !map_rev. f_equal. induction HO; cbn [map]; [reflexivity|]. f_equal; [eapply vrel_val_str; eassumption|assumption]. }
  destruct Hr; cbn [render_res]; rewrite Ho; [erewrite vrel_val_str by eassumption|]; reflexivity.
Qed.

Lemma srel_init R Q : srel R Q (ENone, []) (ENone, []).
Proof. split; [intros g; constructor|constructor]. Qed.

Lemma envrel_empty R Q xs : envrel R Q xs ENone ENone.
Proof. intros x _. constructor. Qed.

Theorem flatten_preserves : forall e, static_arity e = true ->
  forall n s s' ρ ρ' r s1,
    srel Rflat Rnone s s' -> envrel Rflat Rnone (fv (flatten all_on e)) ρ ρ' ->
    eval n s ρ e = Some (r, s1) ->
    exists r' s1', eval n s' ρ' (flatten all_on e) = Some (r', s1') /\
                   rrel Rflat Rnone r r' /\ srel Rflat Rnone s1 s1'.
Proof.
  intros e S n. intros. eapply (crel_sim Rflat Rnone Rflat_fv Rflat_sound Rnone_fv2 Rnone_sound n); try eassumption.
  apply flatten_crel_both. exact S.
Qed.

Theorem plain_let_preserves : forall e, static_arity e = true ->
  forall n s s' ρ ρ' r s1,
    srel Rnone Rplet s s' -> envrel Rnone Rplet (fv (plain_let all_on e)) ρ ρ' ->
    eval n s ρ e = Some (r, s1) ->
    exists r' s1', eval n s' ρ' (plain_let all_on e) = Some (r', s1') /\
                   rrel Rnone Rplet r r' /\ srel Rnone Rplet s1 s1'.
Proof.
  intros e S n. intros. eapply (crel_sim Rnone Rplet Rnone_fv Rnone_sound Rplet_fv Rplet_sound n); try eassumption.
  apply plain_let_crel_both. exact S.
Qed.

Theorem prune_if_preserves : forall e n s s' ρ ρ' r s1,
    srel Rprune Rnone s s' -> envrel Rprune Rnone (fv (prune_if all_on e)) ρ ρ' ->
    eval n s ρ e = Some (r, s1) ->
    exists r' s1', eval n s' ρ' (prune_if all_on e) = Some (r', s1') /\
                   rrel Rprune Rnone r r' /\ srel Rprune Rnone s1 s1'.
Proof.
  intros e n. intros. eapply (crel_sim Rprune Rnone Rprune_fv Rprune_sound Rnone_fv2 Rnone_sound n); try eassumption.
  apply prune_if_crel_both.
Qed.

(* closed programs: the printed result and the output are identical *)
Theorem flatten_observable : forall e n r, static_arity e = true ->
  eval n (ENone, []) ENone e = Some r ->
  exists r', eval n (ENone, []) ENone (flatten all_on e) = Some r' /\ render_res (Some r) = render_res (Some r').
Proof.
  intros e n [r s1] S E.
  destruct (flatten_preserves e S n (ENone, []) (ENone, []) ENone ENone r s1) as (r' & s1' & E' & Hr & Hs); try exact E.
  - apply srel_init.
  - apply envrel_empty.
  - exists (r', s1'). split; [exact E'|]. eapply rel_render; eassumption.
Qed.

Theorem plain_let_observable : forall e n r, static_arity e = true ->
  eval n (ENone, []) ENone e = Some r ->
  exists r', eval n (ENone, []) ENone (plain_let all_on e) = Some r' /\ render_res (Some r) = render_res (Some r').
Proof.
  intros e n [r s1] S E.
  destruct (plain_let_preserves e S n (ENone, []) (ENone, []) ENone ENone r s1) as (r' & s1' & E' & Hr & Hs); try exact E.
  - apply srel_init.
  - apply envrel_empty.
  - exists (r', s1'). split; [exact E'|]. eapply rel_render; eassumption.
Qed.

Theorem prune_if_observable : forall e n r,
  eval n (ENone, []) ENone e = Some r ->
  exists r', eval n (ENone, []) ENone (prune_if all_on e) = Some r' /\ render_res (Some r) = render_res (Some r').
Proof.
  intros e n [r s1] E.
  destruct (prune_if_preserves e n (ENone, []) (ENone, []) ENone ENone r s1) as (r' & s1' & E' & Hr & Hs); try exact E.
  - apply srel_init.
  - apply envrel_empty.
  - exists (r', s1'). split; [exact E'|]. eapply rel_render; eassumption.
Qed.

(* ------------------------------------------------------------------ every guard is necessary: witnesses *)
Definition run (e : exp) : string := render_res (eval 30 (ENone, []) ENone e).
Definition off_outer_rest := {| flatten_checks_outer_rest := false; flatten_checks_inner_rest := true; flatten_checks_operand_ids := true;
     plain_let_skips_short_calls := true; plain_let_builds_const_list := true; prune_if_quote_false_is_false := true;
     consteval_checks_rest_is_used := true; consteval_checks_surplus_operands := true; consteval_emits_value := true;
     consteval_checks_set_idents := true; consteval_static_arity := true;
     consteval_operands_outer_scope := true |}.
Definition off_inner_rest := {| flatten_checks_outer_rest := true; flatten_checks_inner_rest := false; flatten_checks_operand_ids := true;
     plain_let_skips_short_calls := true; plain_let_builds_const_list := true; prune_if_quote_false_is_false := true;
     consteval_checks_rest_is_used := true; consteval_checks_surplus_operands := true; consteval_emits_value := true;
     consteval_checks_set_idents := true; consteval_static_arity := true;
     consteval_operands_outer_scope := true |}.
Definition off_operand_ids := {| flatten_checks_outer_rest := true; flatten_checks_inner_rest := true; flatten_checks_operand_ids := false;
     plain_let_skips_short_calls := true; plain_let_builds_const_list := true; prune_if_quote_false_is_false := true;
     consteval_checks_rest_is_used := true; consteval_checks_surplus_operands := true; consteval_emits_value := true;
     consteval_checks_set_idents := true; consteval_static_arity := true;
     consteval_operands_outer_scope := true |}.
Definition off_short_calls := {| flatten_checks_outer_rest := true; flatten_checks_inner_rest := true; flatten_checks_operand_ids := true;
     plain_let_skips_short_calls := false; plain_let_builds_const_list := true; prune_if_quote_false_is_false := true;
     consteval_checks_rest_is_used := true; consteval_checks_surplus_operands := true; consteval_emits_value := true;
     consteval_checks_set_idents := true; consteval_static_arity := true;
     consteval_operands_outer_scope := true |}.
Definition off_const_list := {| flatten_checks_outer_rest := true; flatten_checks_inner_rest := true; flatten_checks_operand_ids := true;
     plain_let_skips_short_calls := true; plain_let_builds_const_list := false; prune_if_quote_false_is_false := true;
     consteval_checks_rest_is_used := true; consteval_checks_surplus_operands := true; consteval_emits_value := true;
     consteval_checks_set_idents := true; consteval_static_arity := true;
     consteval_operands_outer_scope := true |}.
Definition off_quote_false := {| flatten_checks_outer_rest := true; flatten_checks_inner_rest := true; flatten_checks_operand_ids := true;
     plain_let_skips_short_calls := true; plain_let_builds_const_list := true; prune_if_quote_false_is_false := false;
     consteval_checks_rest_is_used := true; consteval_checks_surplus_operands := true; consteval_emits_value := true;
     consteval_checks_set_idents := true; consteval_static_arity := true;
     consteval_operands_outer_scope := true |}.

Definition one (e : exp) : exps := ECons e ENil.
Definition two (a b : exp) : exps := ECons a (ECons b ENil).

(* F40: ((lambda (p . r) ((lambda (c) c) 5)) 1) *)
Definition w_f40 : exp := Call (Lam ["p"; "r"] true (Call (Lam ["c"] false (Loc "c")) (one (Num 5)))) (one (Num 1)).
(* ((lambda (a) ((lambda (b . c) c) 1 2)) 0) *)
Definition w_inner_rest : exp :=
  Call (Lam ["a"] false (Call (Lam ["b"; "c"] true (Loc "c")) (two (Num 1) (Num 2)))) (one (Num 0)).
(* ((lambda (a) ((lambda (b) b) a)) 1) *)
Definition w_ids : exp := Call (Lam ["a"] false (Call (Lam ["b"] false (Loc "b")) (one (Loc "a")))) (one (Num 1)).
(* ((lambda (a b . r) a) 1) *)
Definition w_short : exp := Call (Lam ["a"; "b"; "r"] true (Loc "a")) (one (Num 1)).
(* ((lambda (a . r) r) 1 2 3) *)
Definition w_clist : exp := Call (Lam ["a"; "r"] true (Loc "r")) (ECons (Num 1) (two (Num 2) (Num 3))).
(* ((lambda (a) a) 1 (display 2)): operand count differs, no rest parameter *)
Definition w_arity : exp := Call (Lam ["a"] false (Loc "a")) (two (Num 1) (Prim PDisplay (one (Num 2)))).
(* F25: (if '#f 1 2) *)
Definition w_f25 : exp := If (Quote (DBool false)) (Num 1) (Num 2).

Lemma flatten_unsound_with_rest :
  exists e, static_arity e = true /\ run e = "OK 5 OUT " /\ run (flatten off_outer_rest e) = "OK () OUT " /\
            flatten all_on e = e.
Proof. exists w_f40. vm_compute. repeat split; reflexivity. Qed.

Lemma flatten_unsound_with_inner_rest :
  exists e, static_arity e = true /\ run e = "OK (2 . ()) OUT " /\ run (flatten off_inner_rest e) = "OK 2 OUT " /\
            flatten all_on e = e.
Proof. exists w_inner_rest. vm_compute. repeat split; reflexivity. Qed.

Lemma flatten_unsound_without_operand_check :
  exists e, static_arity e = true /\ run e = "OK 1 OUT " /\ run (flatten off_operand_ids e) = "ERR OUT " /\
            flatten all_on e = e.
Proof. exists w_ids. vm_compute. repeat split; reflexivity. Qed.

Lemma plain_let_unsound_on_short_calls :
  exists e, run e = "ERR OUT " /\ run (plain_let off_short_calls e) = "OK 1 OUT " /\ plain_let all_on e = e.
Proof. exists w_short. vm_compute. repeat split; reflexivity. Qed.

Lemma plain_let_unsound_without_const_list :
  exists e, static_arity e = true /\ run e = "OK (2 . (3 . ())) OUT " /\ run (plain_let off_const_list e) = "OK 2 OUT ".
Proof. exists w_clist. vm_compute. repeat split; reflexivity. Qed.

(* the static arity check of the constant evaluator (which runs first) is what makes the zip of
   replace_anonymous_function_calls_with_plain_lets harmless *)
Lemma plain_let_unsound_without_static_arity :
  exists e, static_arity e = false /\ run e = "ERR OUT 2" /\ run (plain_let all_on e) = "OK 1 OUT ".
Proof. exists w_arity. vm_compute. repeat split; reflexivity. Qed.

Lemma prune_if_unsound_if_quote_false_truthy :
  exists e, run e = "OK 2 OUT " /\ run (prune_if off_quote_false e) = "OK 1 OUT " /\ run (prune_if all_on e) = "OK 2 OUT ".
Proof. exists w_f25. vm_compute. repeat split; reflexivity. Qed.

(* non-vacuity: programs on which the passes do rewrite *)
Definition nv_flat : exp :=   (* ((lambda (a) ((lambda (b) (+ a b)) (begin (display 2) 20))) (begin (display 1) 10)) *)
  Call (Lam ["a"] false (Call (Lam ["b"] false (Prim PAdd (two (Loc "a") (Loc "b"))))
                              (one (Begin (two (Prim PDisplay (one (Num 2))) (Num 20))))))
       (one (Begin (two (Prim PDisplay (one (Num 1))) (Num 10)))).
Definition nv_rest : exp :=   (* ((lambda (a . r) r) 1 (begin (display 7) 2) 3) *)
  Call (Lam ["a"; "r"] true (Loc "r")) (ECons (Num 1) (two (Begin (two (Prim PDisplay (one (Num 7))) (Num 2))) (Num 3))).

Lemma passes_nonvacuous :
  static_arity nv_flat = true /\ run nv_flat = "OK 30 OUT 1 2" /\
  flatten all_on nv_flat <> nv_flat /\ run (flatten all_on nv_flat) = "OK 30 OUT 1 2" /\
  run (plain_let all_on (flatten all_on nv_flat)) = "OK 30 OUT 1 2" /\
  static_arity nv_rest = true /\ run nv_rest = "OK (2 . (3 . ())) OUT 7" /\
  plain_let all_on nv_rest <> nv_rest /\ run (plain_let all_on nv_rest) = "OK (2 . (3 . ())) OUT 7".
Proof. vm_compute. repeat split; try reflexivity; discriminate. Qed.

(* ------------------------------------------------------------------ pass 3 (constant evaluator): the guards are necessary.
   These witnesses refute the three pre-fix variants; the soundness of [ceval] with all guards on is proved in
   Passes_CEval_C01.v / Passes_CEvalFn_C01.v (with the refutation of the fourth variant, operands judged inside). *)
Definition off_rest_used := {| flatten_checks_outer_rest := true; flatten_checks_inner_rest := true; flatten_checks_operand_ids := true;
     plain_let_skips_short_calls := true; plain_let_builds_const_list := true; prune_if_quote_false_is_false := true;
     consteval_checks_rest_is_used := false; consteval_checks_surplus_operands := true; consteval_emits_value := true;
     consteval_checks_set_idents := true; consteval_static_arity := true;
     consteval_operands_outer_scope := true |}.
Definition off_surplus := {| flatten_checks_outer_rest := true; flatten_checks_inner_rest := true; flatten_checks_operand_ids := true;
     plain_let_skips_short_calls := true; plain_let_builds_const_list := true; prune_if_quote_false_is_false := true;
     consteval_checks_rest_is_used := true; consteval_checks_surplus_operands := false; consteval_emits_value := true;
     consteval_checks_set_idents := true; consteval_static_arity := true;
     consteval_operands_outer_scope := true |}.
Definition off_emits_value := {| flatten_checks_outer_rest := true; flatten_checks_inner_rest := true; flatten_checks_operand_ids := true;
     plain_let_skips_short_calls := true; plain_let_builds_const_list := true; prune_if_quote_false_is_false := true;
     consteval_checks_rest_is_used := true; consteval_checks_surplus_operands := true; consteval_emits_value := false;
     consteval_checks_set_idents := true; consteval_static_arity := true;
     consteval_operands_outer_scope := true |}.

(* F37: ((lambda (a . r) r) 1) *)
Definition w_f37 : exp := Call (Lam ["a"; "r"] true (Loc "r")) (one (Num 1)).
(* F27: ((lambda (a b) a) '(1 2) (display 1)) *)
Definition w_f27 : exp :=
  Call (Lam ["a"; "b"] false (Loc "a")) (two (Quote (DCons (DNum 1) (DCons (DNum 2) DNil))) (Prim PDisplay (one (Num 1)))).
(* F41: ((lambda (a . r) 1) 1 2 (display 7)) *)
Definition w_f41 : exp := Call (Lam ["a"; "r"] true (Num 1)) (ECons (Num 1) (two (Num 2) (Prim PDisplay (one (Num 7))))).

Lemma ceval_unsound_without_rest_guard :
  exists e, run e = "OK () OUT " /\ run (ceval off_rest_used e) = "ERR OUT " /\ run (ceval all_on e) = "OK () OUT ".
Proof. exists w_f37. vm_compute. repeat split; reflexivity. Qed.

Lemma ceval_unsound_if_body_returned :
  exists e, run e = "OK (1 . (2 . ())) OUT 1" /\ run (ceval off_emits_value e) = "ERR OUT 1" /\
            run (ceval all_on e) = "OK (1 . (2 . ())) OUT 1".
Proof. exists w_f27. vm_compute. repeat split; reflexivity. Qed.

Lemma ceval_unsound_without_surplus_check :
  exists e, run e = "OK 1 OUT 7" /\ run (ceval off_surplus e) = "OK 1 OUT " /\ run (ceval all_on e) = "OK 1 OUT 7".
Proof. exists w_f41. vm_compute. repeat split; reflexivity. Qed.
