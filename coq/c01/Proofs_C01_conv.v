(* C01 — correctness of the assignment conversion: the reference store semantics CoreS.seval (every
   variable a store location) agrees with CoreS.beval after [assign_convert] (immutable locals + boxes).
   A world W records, for every source location, whether it is the location of an ASSIGNED local (then
   it corresponds to a box address) or of a never-assigned local (then it corresponds to the immutable
   value bound in the converted environment); worlds only grow; the content of a never-assigned location
   never changes because every variable that is the target of a set! in its scope is boxed. *)
From Coq Require Import String.
From Coq Require Import ZArith List Bool Lia Arith.
From SV Require Import lib.Lang lib.Core lib.CoreS c01.Proofs_C01.
Import ListNotations.
Open Scope list_scope.

(* ------------------------------------------------------------------ fuel monotonicity of beval *)
Lemma bevals_mono_gen : forall (ev ev' : bexpr -> bstate -> option bresult),
  (forall e st r, ev e st = Some r -> ev' e st = Some r) ->
  forall es st r, bevals ev es st = Some r -> bevals ev' es st = Some r.
Proof.
  intros ev ev' H. induction es; simpl; intros st r Hr; auto.
  destruct (ev a st) as [[v st1|k]|] eqn:E; try discriminate; rewrite (H _ _ _ E); auto.
  destruct (bevals ev es st1) as [[[vs st2]|k]|] eqn:E2; try discriminate; rewrite (IHes _ _ E2); auto.
Qed.

Lemma beval_S : forall n r e st res, beval n r e st = Some res -> beval (S n) r e st = Some res.
Proof.
  induction n as [|n IH]; intros r e st res H; [discriminate|].
  destruct e; simpl in H; remember (S n) as m eqn:Em; simpl; subst m; auto.
  - (* BApp *)
    destruct (bevals (beval n r) args st) as [[[vs st1]|k]|] eqn:E; try discriminate;
      rewrite (bevals_mono_gen (beval n r) (beval (S n) r) (IH r) _ _ _ E); auto.
    destruct (beval n r e st1) as [[fv st2|k]|] eqn:E2; try discriminate; rewrite (IH _ _ _ _ E2); auto.
    destruct fv; auto. destruct (bcall_args ps rest vs) as [[xs ws]|]; auto.
  - destruct (beval n r e1 st) as [[v st1|k]|] eqn:E; try discriminate; rewrite (IH _ _ _ _ E); auto.
    destruct (atom_truthy (bval_atom v)); auto.
  - destruct (bevals (beval n r) (map snd bs) st) as [[[vs st1]|k]|] eqn:E; try discriminate;
      rewrite (bevals_mono_gen (beval n r) (beval (S n) r) (IH r) _ _ _ E); auto.
  - destruct (beval n r e1 st) as [[v st1|k]|] eqn:E; try discriminate; rewrite (IH _ _ _ _ E); auto.
  - destruct (beval n r e st) as [[v st1|k]|] eqn:E; try discriminate; rewrite (IH _ _ _ _ E); auto.
Qed.

Lemma beval_mono : forall n m r e st res, beval n r e st = Some res -> n <= m -> beval m r e st = Some res.
Proof. intros n m r e st res H Hl. induction Hl; auto. apply beval_S; auto. Qed.

Lemma bevals_mono : forall n m r es st res, bevals (beval n r) es st = Some res -> n <= m ->
  bevals (beval m r) es st = Some res.
Proof.
  intros. eapply bevals_mono_gen; [|exact H]. intros. eapply beval_mono; eauto.
Qed.

(* ------------------------------------------------------------------ worlds and relations *)
Inductive linfo := LBox (a : nat) | LImm (v : bval).
Definition world := list linfo.
Definition ext (W W' : world) : Prop := exists W2, W' = W ++ W2.

Lemma ext_refl : forall W, ext W W.
Proof. intros. exists []. rewrite app_nil_r. auto. Qed.

Lemma ext_trans : forall a b c, ext a b -> ext b c -> ext a c.
Proof. intros a b c [x ->] [y ->]. exists (x ++ y). rewrite app_assoc. auto. Qed.

Lemma ext_nth : forall W W' l i, ext W W' -> nth_error W l = Some i -> nth_error W' l = Some i.
Proof. intros W W' l i [W2 ->] H. rewrite nth_error_app1; auto. apply nth_error_Some. congruence. Qed.

Definition is_box_name (x : ident) : bool :=
  String.eqb x box_name || String.eqb x unbox_name || String.eqb x setbox_name.

Fixpoint nodupb (l : list ident) : bool :=
  match l with [] => true | x :: r => negb (memb_s x r) && nodupb r end.

Definition names_ok (xs : list ident) : bool := forallb (fun x => negb (is_box_name x)) xs && nodupb xs.

(* no identifier of the program is one of the reserved primitive names #%box / #%unbox / #%set-box!,
   and the binders of one lambda / let are pairwise distinct *)
Fixpoint clean (e : sexpr) : bool :=
  match e with
  | SConst _ => true
  | SVar x => negb (is_box_name x)
  | SLam ps rest body => names_ok (params ps rest) && clean body
  | SApp f args => (fix go (es : list sexpr) : bool :=
                      match es with [] => true | a :: r => clean a && go r end) args && clean f
  | SIf c t e' => clean c && clean t && clean e'
  | SLet bs body => names_ok (map fst bs)
                    && (fix go (bs : list (ident * sexpr)) : bool :=
                          match bs with [] => true | (_, a) :: r => clean a && go r end) bs
                    && clean body
  | SSeq e1 e2 => clean e1 && clean e2
  | SSet x e' => negb (is_box_name x) && clean e'
  end.

Fixpoint clean_list (es : list sexpr) : bool :=
  match es with [] => true | a :: r => clean a && clean_list r end.

Fixpoint assigned_list (x : ident) (es : list sexpr) : bool :=
  match es with [] => false | a :: r => assigned x a || assigned_list x r end.

Fixpoint aconv_list (bx : list ident) (es : list sexpr) : list bexpr :=
  match es with [] => [] | a :: r => aconv bx a :: aconv_list bx r end.

(* the environments: a boxed local's location corresponds to a box, and the converted environment binds
   the box; a never-assigned local's location corresponds to an immutable value, bound as such *)
Definition E (W : world) (bx : list ident) (rs : senv) (rb : benv) : Prop :=
  (forall x l, Core.lookup x rs = Some l ->
     if memb_s x bx
     then exists a, nth_error W l = Some (LBox a) /\ Core.lookup x rb = Some (BVBox a)
     else exists v, nth_error W l = Some (LImm v) /\ Core.lookup x rb = Some v) /\
  (forall x, Core.lookup x rs = None -> Core.lookup x rb = None /\ memb_s x bx = false) /\
  (forall x, is_box_name x = true -> Core.lookup x rs = None).

(* every local that is assigned somewhere in e is boxed *)
Definition inv (bx : list ident) (rs : senv) (e : sexpr) : Prop :=
  forall x l, Core.lookup x rs = Some l -> memb_s x bx = false -> assigned x e = false.

Inductive V (W : world) : sval -> bval -> Prop :=
| V_int : forall z, V W (SVInt z) (BVInt z)
| V_bool : forall b, V W (SVBool b) (BVBool b)
| V_void : V W SVVoid BVVoid
| V_prim : forall p, V W (SVPrim p) (BVPrim (BP p))
| V_list : forall vs bvs, Forall2 (V W) vs bvs -> V W (SVList vs) (BVList bvs)
| V_clo : forall ps rest body rs rb bx,
    E W bx rs rb -> inv bx rs (SLam ps rest body) -> clean (SLam ps rest body) = true ->
    V W (SVClo ps rest body rs)
        (BVClo ps rest
           (wrap_boxes (filter (fun x => assigned x body) (params ps rest))
              (aconv (filter (fun x => assigned x body) (params ps rest) ++ minus bx (params ps rest)) body))
           rb).

Lemma E_ext : forall W W' bx rs rb, ext W W' -> E W bx rs rb -> E W' bx rs rb.
Proof.
  intros W W' bx rs rb Hx (A & B & C). split; [|split]; auto.
  intros x l Hl. specialize (A x l Hl). destruct (memb_s x bx).
  - destruct A as (a & H1 & H2). exists a. split; auto. eapply ext_nth; eauto.
  - destruct A as (v & H1 & H2). exists v. split; auto. eapply ext_nth; eauto.
Qed.

Lemma V_ext : forall W W', ext W W' -> forall v bv, V W v bv -> V W' v bv.
Proof.
  intros W W' Hx. fix IH 3. intros v bv H. destruct H; try constructor; auto.
  - induction H; constructor; auto.
  - eapply E_ext; eauto.
Qed.

Lemma V_atom : forall W v bv, V W v bv -> sval_atom v = bval_atom bv.
Proof. destruct 1; simpl; auto. Qed.

Lemma V_atoms : forall W vs bvs, Forall2 (V W) vs bvs -> map sval_atom vs = map bval_atom bvs.
Proof. induction 1; simpl; auto. f_equal; auto. eapply V_atom; eauto. Qed.

Lemma V_of_atom : forall W a, V W (atom_sval a) (atom_bval a).
Proof. destruct a; simpl; constructor. Qed.

Lemma V_const : forall W c, V W (sconst c) (bconst c).
Proof. destruct c; simpl; constructor. Qed.

Definition StoreRel (W : world) (st : list sval) (bt : list bval) : Prop :=
  length W = length st /\
  (forall l a, nth_error W l = Some (LBox a) ->
     exists sv bv, nth_error st l = Some sv /\ nth_error bt a = Some bv /\ V W sv bv) /\
  (forall l v, nth_error W l = Some (LImm v) -> exists sv, nth_error st l = Some sv /\ V W sv v) /\
  (forall l l' a, nth_error W l = Some (LBox a) -> nth_error W l' = Some (LBox a) -> l = l').

Definition GlobRel (W : world) (Gs : list (ident * sval)) (Gb : list (ident * bval)) : Prop :=
  (forall g, match Core.lookup g Gs with
             | Some v => exists bv, Core.lookup g Gb = Some bv /\ V W v bv
             | None => is_box_name g = true \/ Core.lookup g Gb = None
             end) /\
  Core.lookup box_name Gb = Some (BVPrim BBoxNew) /\
  Core.lookup unbox_name Gb = Some (BVPrim BUnbox) /\
  Core.lookup setbox_name Gb = Some (BVPrim BSetBox).

Lemma GlobRel_ext : forall W W' Gs Gb, ext W W' -> GlobRel W Gs Gb -> GlobRel W' Gs Gb.
Proof.
  intros W W' Gs Gb Hx (A & B). split; auto. intros g. specialize (A g).
  destruct (Core.lookup g Gs); auto. destruct A as (bv & H1 & H2). exists bv. split; auto. eapply V_ext; eauto.
Qed.

Lemma Forall2_V_ext : forall W W' vs bvs, ext W W' -> Forall2 (V W) vs bvs -> Forall2 (V W') vs bvs.
Proof. induction 2; constructor; auto. eapply V_ext; eauto. Qed.

(* ------------------------------------------------------------------ list / lookup helpers *)
Lemma Forall2_nth : forall A B (R : A -> B -> Prop) l1 l2, Forall2 R l1 l2 -> forall a,
  match nth_error l1 a, nth_error l2 a with
  | Some x, Some y => R x y
  | None, None => True
  | _, _ => False
  end.
Proof. induction 1; intros [|a]; simpl; auto. apply IHForall2. Qed.

Lemma memb_s_memb : forall x l, memb_s x l = Bytecode.memb x l.
Proof. induction l; simpl; auto; rewrite ?IHl; auto. Qed.

Lemma memb_s_In : forall x l, memb_s x l = true <-> In x l.
Proof.
  induction l; simpl; split; intros; try discriminate; try tauto.
  - apply orb_true_iff in H. destruct H as [H|H]; [apply String.eqb_eq in H; auto|right; apply IHl; auto].
  - apply orb_true_iff. destruct H as [->|H]; [left; apply String.eqb_refl|right; apply IHl; auto].
Qed.

Lemma memb_s_false : forall x l, memb_s x l = false <-> ~ In x l.
Proof. intros. rewrite <- memb_s_In. destruct (memb_s x l); split; intros; try congruence; try (exfalso; auto; fail). Qed.

Lemma nodupb_NoDup : forall l, nodupb l = true -> NoDup l.
Proof.
  induction l; simpl; intros; constructor.
  - apply andb_true_iff in H. destruct H as [H _]. apply memb_s_false. destruct (memb_s a l); auto; discriminate.
  - apply IHl. apply andb_true_iff in H. tauto.
Qed.

Lemma lookup_bind_out : forall A xs (vs : list A) r x, ~ In x xs -> Core.lookup x (bind xs vs r) = Core.lookup x r.
Proof.
  induction xs; simpl; intros; auto. destruct vs; auto. rewrite IHxs by tauto. simpl.
  destruct (String.eqb x a) eqn:E; auto. apply String.eqb_eq in E. subst. tauto.
Qed.

Lemma lookup_bind_at : forall A xs (vs : list A) r k x v, NoDup xs -> length xs = length vs ->
  nth_error xs k = Some x -> nth_error vs k = Some v -> Core.lookup x (bind xs vs r) = Some v.
Proof.
  induction xs as [|p xs IH]; intros vs r k x v Hnd Hlen Hp Hv.
  - destruct k; discriminate.
  - destruct vs as [|w vs]; [discriminate|]. inversion Hnd; subst. simpl.
    destruct k; simpl in *.
    + inversion Hp; inversion Hv; subst. rewrite lookup_bind_out; auto. simpl. rewrite String.eqb_refl. auto.
    + eapply IH; eauto.
Qed.

Lemma lookup_bind_in : forall A xs (vs : list A) r x, length xs = length vs -> In x xs ->
  exists k v, nth_error xs k = Some x /\ nth_error vs k = Some v /\ Core.lookup x (bind xs vs r) = Some v.
Proof.
  induction xs as [|p xs IH]; intros vs r x Hlen Hin; [destruct Hin|].
  destruct vs as [|w vs]; [discriminate|]. simpl.
  destruct (in_dec string_dec x xs) as [Hi|Hn].
  - destruct (IH vs ((p, w) :: r) x ltac:(simpl in Hlen; lia) Hi) as (k & v & A1 & B1 & C1).
    exists (S k), v. auto.
  - destruct Hin as [->|Hin]; [|tauto]. exists 0, w. repeat split; auto.
    rewrite lookup_bind_out; auto. simpl. rewrite String.eqb_refl. auto.
Qed.

Lemma In_nth_error' : forall A (l : list A) x, In x l -> exists k, nth_error l k = Some x.
Proof. apply In_nth_error. Qed.

Lemma salloc_eq : forall xs ws rs st, length xs = length ws ->
  salloc xs ws rs st = (bind xs (seq (length st) (length xs)) rs, st ++ ws).
Proof.
  induction xs; destruct ws; simpl; intros; try discriminate.
  - rewrite app_nil_r. auto.
  - rewrite IHxs by lia. rewrite app_length. simpl. rewrite Nat.add_1_r. rewrite <- app_assoc. auto.
Qed.

Lemma nth_seq : forall n s k, k < n -> nth_error (seq s n) k = Some (s + k).
Proof. induction n; intros; [lia|]. destruct k; simpl; [f_equal; lia|]. rewrite IHn by lia. f_equal. lia. Qed.

Lemma nth_error_app_r : forall A (a b : list A) i, nth_error (a ++ b) (length a + i) = nth_error b i.
Proof. induction a; simpl; intros; auto. Qed.

Lemma nth_error_app_l : forall A (a b : list A) i, i < length a -> nth_error (a ++ b) i = nth_error a i.
Proof. intros. apply nth_error_app1; auto. Qed.

Lemma nth_error_lt : forall A (l : list A) i x, nth_error l i = Some x -> i < length l.
Proof. intros. apply nth_error_Some. congruence. Qed.

Lemma is_box_name_cases : forall x, is_box_name x = true -> x = box_name \/ x = unbox_name \/ x = setbox_name.
Proof.
  unfold is_box_name. intros x H. apply orb_true_iff in H. destruct H as [H|H].
  - apply orb_true_iff in H. destruct H as [H|H]; apply String.eqb_eq in H; auto.
  - apply String.eqb_eq in H. auto.
Qed.

(* evaluation of the box bindings (x, (#%box x)) of a scope *)
Lemma eval_box_bindings : forall mx m rb1 bt G, 2 <= m ->
  Core.lookup box_name rb1 = None -> Core.lookup box_name G = Some (BVPrim BBoxNew) ->
  forall vals, Forall2 (fun x v => Core.lookup x rb1 = Some v) mx vals ->
  bevals (beval m rb1) (map snd (map (fun x => (x, box_of (BVar x))) mx)) (mkB bt G) =
  Some (inl (map BVBox (seq (length bt) (length mx)), mkB (bt ++ vals) G)).
Proof.
  induction mx as [|x mx IH]; intros m rb1 bt G Hm Hb HG vals HF.
  - inversion HF; subst. simpl. rewrite app_nil_r. auto.
  - inversion HF as [|x' v mx' vals' Hx HF']; subst. simpl map. cbn [bevals].
    assert (Hone : beval m rb1 (box_of (BVar x)) (mkB bt G) = Some (BVal (BVBox (length bt)) (mkB (bt ++ [v]) G))).
    { destruct m as [|[|m]]; try lia. unfold box_of. cbn [beval bevals]. rewrite Hx.
      cbn [beval]. rewrite Hb. simpl b_glob. rewrite HG. reflexivity. }
    rewrite Hone. rewrite (IH m rb1 (bt ++ [v]) G Hm Hb HG vals' HF').
    rewrite app_length. simpl. rewrite Nat.add_1_r. rewrite <- app_assoc. reflexivity.
Qed.

Lemma memb_s_app : forall x a b, memb_s x (a ++ b) = memb_s x a || memb_s x b.
Proof. induction a; simpl; intros; auto. rewrite IHa. rewrite orb_assoc. auto. Qed.

Lemma memb_s_minus : forall x l xs, memb_s x (minus l xs) = memb_s x l && negb (memb_s x xs).
Proof.
  unfold minus. induction l; simpl; intros; auto.
  destruct (memb_s a xs) eqn:E; simpl.
  - rewrite IHl. destruct (String.eqb x a) eqn:E2; simpl; auto.
    apply String.eqb_eq in E2. subst. rewrite E. simpl. rewrite andb_false_r. auto.
  - rewrite IHl. destruct (String.eqb x a) eqn:E2; simpl; auto.
    apply String.eqb_eq in E2. subst. rewrite E. auto.
Qed.

Lemma nth_error_map' : forall A B (f : A -> B) l i x, nth_error l i = Some x -> nth_error (map f l) i = Some (f x).
Proof. intros. rewrite nth_error_map, H. auto. Qed.

Section Scope.
  Variables (W : world) (bx : list ident) (rs : senv) (rb : benv).
  Variables (xs : list ident) (ws : list sval) (bws : list bval) (body : sexpr).
  Variables (st : list sval) (bt : list bval).
  Hypothesis Hok : names_ok xs = true.
  Hypothesis Hlen : length xs = length ws.
  Hypothesis HF : Forall2 (V W) ws bws.
  Hypothesis HE : E W bx rs rb.
  Hypothesis HS : StoreRel W st bt.

  Let mx := filter (fun x => assigned x body) xs.
  Let rb1 := bind xs bws rb.
  Let boxes := map BVBox (seq (length bt) (length mx)).
  Let rb2 := bind mx boxes rb1.
  Let dflt (o : option bval) : bval := match o with Some v => v | None => BVVoid end.
  Let info (x : ident) : linfo :=
    if assigned x body
    then match Core.lookup x rb2 with Some (BVBox a) => LBox a | _ => LImm BVVoid end
    else LImm (dflt (Core.lookup x rb1)).
  Let W' := W ++ map info xs.
  Let vals := map (fun x => dflt (Core.lookup x rb1)) mx.
  Let rs' := bind xs (seq (length st) (length xs)) rs.

  Lemma sc_nodup : NoDup xs.
  Proof. unfold names_ok in Hok. apply andb_true_iff in Hok. apply nodupb_NoDup. tauto. Qed.

  Lemma sc_lenb : length xs = length bws.
  Proof. rewrite Hlen. eapply Forall2_len; eauto. Qed.

  Lemma sc_rb1 : forall i x, nth_error xs i = Some x ->
    exists w bw, nth_error ws i = Some w /\ nth_error bws i = Some bw /\ V W w bw /\ Core.lookup x rb1 = Some bw.
  Proof.
    intros i x Hx. pose proof (nth_error_lt _ _ _ _ Hx) as Hi.
    destruct (nth_error ws i) as [w|] eqn:Ew; [|apply nth_error_None in Ew; lia].
    destruct (nth_error bws i) as [bw|] eqn:Eb; [|apply nth_error_None in Eb; rewrite <- sc_lenb in Eb; lia].
    exists w, bw. repeat split; auto.
    - pose proof (Forall2_nth _ _ _ _ _ HF i) as Hn. rewrite Ew, Eb in Hn. auto.
    - unfold rb1. eapply lookup_bind_at; eauto. apply sc_nodup. apply sc_lenb.
  Qed.

  Lemma sc_mx_nodup : NoDup mx.
  Proof. unfold mx. apply NoDup_filter. apply sc_nodup. Qed.

  Lemma sc_mx_in : forall x, In x mx <-> In x xs /\ assigned x body = true.
  Proof. intros. unfold mx. apply filter_In. Qed.

  Lemma sc_rb2_in : forall x, In x mx -> exists k, nth_error mx k = Some x /\ Core.lookup x rb2 = Some (BVBox (length bt + k)).
  Proof.
    intros x Hin. destruct (In_nth_error _ _ Hin) as [k Hk]. exists k. split; auto.
    unfold rb2. eapply lookup_bind_at; eauto.
    - apply sc_mx_nodup.
    - unfold boxes. rewrite map_length, seq_length. auto.
    - unfold boxes. apply nth_error_map'. apply nth_seq. eapply nth_error_lt; eauto.
  Qed.

  Lemma sc_rb2_out : forall x, ~ In x mx -> Core.lookup x rb2 = Core.lookup x rb1.
  Proof. intros. unfold rb2. apply lookup_bind_out; auto. Qed.

  Lemma sc_rs_in : forall i x, nth_error xs i = Some x -> Core.lookup x rs' = Some (length st + i).
  Proof.
    intros i x Hx. unfold rs'. eapply lookup_bind_at; eauto.
    - apply sc_nodup.
    - rewrite seq_length. auto.
    - apply nth_seq. eapply nth_error_lt; eauto.
  Qed.

  Lemma sc_vals : Forall2 (fun x v => Core.lookup x rb1 = Some v) mx vals.
  Proof.
    unfold vals. assert (H : forall x, In x mx -> exists v, Core.lookup x rb1 = Some v).
    { intros x Hx. apply sc_mx_in in Hx. destruct Hx as [Hx _]. destruct (In_nth_error _ _ Hx) as [i Hi].
      destruct (sc_rb1 i x Hi) as (w & bw & _ & _ & _ & Hl). eauto. }
    clear -H. induction mx as [|x l IH]; simpl; constructor.
    - destruct (H x (or_introl eq_refl)) as [v Hv]. rewrite Hv. auto.
    - apply IH. intros. apply H. simpl. auto.
  Qed.

  Lemma sc_ext : ext W W'.
  Proof. exists (map info xs). auto. Qed.

  Lemma sc_W'_new : forall i x, nth_error xs i = Some x -> nth_error W' (length st + i) = Some (info x).
  Proof.
    intros. unfold W'. destruct HS as [HL _]. rewrite <- HL. rewrite nth_error_app_r. apply nth_error_map'. auto.
  Qed.

  Lemma sc_E : E W' (mx ++ minus bx xs) rs' rb2.
  Proof.
    destruct HE as (E1 & E2 & E3). split; [|split].
    - intros x l Hl. destruct (in_dec string_dec x xs) as [Hin|Hnin].
      + destruct (In_nth_error _ _ Hin) as [i Hi]. rewrite (sc_rs_in i x Hi) in Hl. inversion Hl; subst l.
        rewrite (sc_W'_new i x Hi). rewrite memb_s_app, memb_s_minus.
        replace (memb_s x xs) with true by (symmetry; apply memb_s_In; auto). rewrite andb_false_r, orb_false_r.
        unfold info. destruct (assigned x body) eqn:Ea.
        * assert (Hm : In x mx) by (apply sc_mx_in; auto).
          replace (memb_s x mx) with true by (symmetry; apply memb_s_In; auto).
          destruct (sc_rb2_in x Hm) as (k & _ & Hk). rewrite Hk. eauto.
        * assert (Hm : ~ In x mx) by (intros Hm; apply sc_mx_in in Hm; destruct Hm; congruence).
          replace (memb_s x mx) with false by (symmetry; apply memb_s_false; auto).
          destruct (sc_rb1 i x Hi) as (w & bw & _ & _ & _ & Hlk). rewrite sc_rb2_out by auto. rewrite Hlk. simpl. eauto.
      + assert (Hm : ~ In x mx) by (intros Hm; apply sc_mx_in in Hm; tauto).
        unfold rs' in Hl. rewrite lookup_bind_out in Hl by auto.
        rewrite memb_s_app, memb_s_minus.
        replace (memb_s x mx) with false by (symmetry; apply memb_s_false; auto).
        replace (memb_s x xs) with false by (symmetry; apply memb_s_false; auto). simpl. rewrite andb_true_r.
        rewrite sc_rb2_out by auto. unfold rb1. rewrite lookup_bind_out by auto.
        specialize (E1 x l Hl). destruct (memb_s x bx).
        * destruct E1 as (a & A1 & A2). exists a. split; auto. eapply ext_nth; eauto. apply sc_ext.
        * destruct E1 as (v & A1 & A2). exists v. split; auto. eapply ext_nth; eauto. apply sc_ext.
    - intros x Hn. destruct (in_dec string_dec x xs) as [Hin|Hnin].
      + destruct (In_nth_error _ _ Hin) as [i Hi]. rewrite (sc_rs_in i x Hi) in Hn. discriminate.
      + assert (Hm : ~ In x mx) by (intros Hm; apply sc_mx_in in Hm; tauto).
        unfold rs' in Hn. rewrite lookup_bind_out in Hn by auto. destruct (E2 x Hn) as [A B].
        split.
        * rewrite sc_rb2_out by auto. unfold rb1. rewrite lookup_bind_out by auto. auto.
        * rewrite memb_s_app, memb_s_minus, B.
          replace (memb_s x mx) with false by (symmetry; apply memb_s_false; auto). auto.
    - intros x Hb. unfold rs'. rewrite lookup_bind_out; auto.
      intros Hin. unfold names_ok in Hok. apply andb_true_iff in Hok. destruct Hok as [Hn _].
      rewrite forallb_forall in Hn. apply Hn in Hin. rewrite Hb in Hin. discriminate.
  Qed.

  Lemma sc_W'_cases : forall l inf, nth_error W' l = Some inf ->
    (l < length W /\ nth_error W l = Some inf) \/
    (exists i x, l = length st + i /\ nth_error xs i = Some x /\ inf = info x).
  Proof.
    intros l inf H. unfold W' in H. destruct (Nat.lt_ge_cases l (length W)).
    - left. rewrite nth_error_app1 in H; auto.
    - right. rewrite nth_error_app2 in H; auto. rewrite nth_error_map in H.
      destruct (nth_error xs (l - length W)) as [x|] eqn:Ex; [|discriminate]. inversion H; subst.
      exists (l - length W), x. destruct HS as [HL _]. rewrite <- HL. repeat split; auto. lia.
  Qed.

  Lemma sc_info_box : forall x a, In x xs -> info x = LBox a ->
    exists k, nth_error mx k = Some x /\ a = length bt + k.
  Proof.
    intros x a Hin Hi. unfold info in Hi. destruct (assigned x body) eqn:Ea; [|discriminate].
    assert (Hm : In x mx) by (apply sc_mx_in; auto).
    destruct (sc_rb2_in x Hm) as (k & Hk & Hl). rewrite Hl in Hi. inversion Hi. eauto.
  Qed.

  Lemma sc_vals_nth : forall k x, nth_error mx k = Some x -> nth_error vals k = Some (dflt (Core.lookup x rb1)).
  Proof. intros. unfold vals. apply (nth_error_map' _ _ (fun x => dflt (Core.lookup x rb1))). auto. Qed.

  Lemma sc_S : StoreRel W' (st ++ ws) (bt ++ vals).
  Proof.
    destruct HS as (HL & HB & HI & HJ). split; [|split; [|split]].
    - unfold W'. rewrite !app_length, map_length. lia.
    - intros l a Hl. destruct (sc_W'_cases l (LBox a) Hl) as [[Hlt Hold]|(i & x & -> & Hx & Hinf)].
      + destruct (HB l a Hold) as (sv & bv & A1 & A2 & A3). exists sv, bv.
        split. { rewrite nth_error_app1; auto. lia. }
        split. { rewrite nth_error_app1; auto. eapply nth_error_lt; eauto. }
        eapply V_ext; eauto. apply sc_ext.
      + destruct (sc_rb1 i x Hx) as (w & bw & Hw & Hbw & HV & Hlk).
        destruct (sc_info_box x a (nth_error_In _ _ Hx) (eq_sym Hinf)) as (k & Hk & ->).
        exists w, bw. split. { rewrite nth_error_app_r. auto. }
        split. { rewrite nth_error_app_r. rewrite (sc_vals_nth k x Hk), Hlk. auto. }
        eapply V_ext; eauto. apply sc_ext.
    - intros l v Hl. destruct (sc_W'_cases l (LImm v) Hl) as [[Hlt Hold]|(i & x & -> & Hx & Hinf)].
      + destruct (HI l v Hold) as (sv & A1 & A2). exists sv.
        split. { rewrite nth_error_app1; auto. lia. }
        eapply V_ext; eauto. apply sc_ext.
      + destruct (sc_rb1 i x Hx) as (w & bw & Hw & Hbw & HV & Hlk).
        exists w. split. { rewrite nth_error_app_r. auto. }
        unfold info in Hinf. destruct (assigned x body) eqn:Ea.
        * assert (Hm : In x mx) by (apply sc_mx_in; split; auto; eapply nth_error_In; eauto).
          destruct (sc_rb2_in x Hm) as (k & _ & Hk). rewrite Hk in Hinf. discriminate.
        * rewrite Hlk in Hinf. simpl in Hinf. inversion Hinf; subst. eapply V_ext; eauto. apply sc_ext.
    - intros l l' a Hl Hl'.
      destruct (sc_W'_cases l (LBox a) Hl) as [[Hlt Hold]|(i & x & -> & Hx & Hinf)];
      destruct (sc_W'_cases l' (LBox a) Hl') as [[Hlt' Hold']|(i' & x' & -> & Hx' & Hinf')].
      + eapply HJ; eauto.
      + destruct (HB l a Hold) as (sv & bv & _ & A2 & _). apply nth_error_lt in A2.
        destruct (sc_info_box x' a (nth_error_In _ _ Hx') (eq_sym Hinf')) as (k & _ & Hk). lia.
      + destruct (HB l' a Hold') as (sv & bv & _ & A2 & _). apply nth_error_lt in A2.
        destruct (sc_info_box x a (nth_error_In _ _ Hx) (eq_sym Hinf)) as (k & _ & Hk). lia.
      + destruct (sc_info_box x a (nth_error_In _ _ Hx) (eq_sym Hinf)) as (k & Hk & Ha).
        destruct (sc_info_box x' a (nth_error_In _ _ Hx') (eq_sym Hinf')) as (k' & Hk' & Ha').
        assert (k = k') by lia. subst k'. rewrite Hk in Hk'. inversion Hk'; subst x'.
        f_equal. eapply (proj1 (NoDup_nth_error xs) sc_nodup); eauto; try congruence.
        eapply nth_error_lt; eauto.
  Qed.
End Scope.

Lemma enter_scope : forall W bx rs rb xs ws bws body st bt,
  names_ok xs = true -> length xs = length ws -> Forall2 (V W) ws bws -> E W bx rs rb -> StoreRel W st bt ->
  exists W' vals, ext W W' /\
    Forall2 (fun x v => Core.lookup x (bind xs bws rb) = Some v) (filter (fun x => assigned x body) xs) vals /\
    E W' (filter (fun x => assigned x body) xs ++ minus bx xs) (bind xs (seq (length st) (length xs)) rs)
      (bind (filter (fun x => assigned x body) xs)
            (map BVBox (seq (length bt) (length (filter (fun x => assigned x body) xs)))) (bind xs bws rb)) /\
    StoreRel W' (st ++ ws) (bt ++ vals).
Proof.
  intros. eexists. eexists.
  split; [eapply sc_ext|]. split; [eapply sc_vals; eauto|]. split; [eapply sc_E; eauto|eapply sc_S; eauto].
Qed.

(* running the (let ((x (#%box x)) ...) body) wrapper *)
Lemma wrap_eval : forall mx vals rb1 body' bt G m res,
  Core.lookup box_name rb1 = None -> Core.lookup box_name G = Some (BVPrim BBoxNew) ->
  Forall2 (fun x v => Core.lookup x rb1 = Some v) mx vals ->
  beval m (bind mx (map BVBox (seq (length bt) (length mx))) rb1) body' (mkB (bt ++ vals) G) = Some res ->
  exists m', beval m' rb1 (wrap_boxes mx body') (mkB bt G) = Some res.
Proof.
  intros mx vals rb1 body' bt G m res Hb HG HF Hev. destruct mx as [|x mx].
  - inversion HF; subst. simpl in *. rewrite app_nil_r in Hev. eauto.
  - exists (S (m + 2)). unfold wrap_boxes. cbn [beval].
    rewrite (eval_box_bindings (x :: mx) (m + 2) rb1 bt G ltac:(lia) Hb HG vals HF).
    rewrite map_map. simpl fst. rewrite map_id.
    eapply beval_mono; eauto. lia.
Qed.

Lemma aconv_app_eq : forall bx f args, aconv bx (SApp f args) = BApp (aconv bx f) (aconv_list bx args).
Proof. intros. simpl. f_equal; try reflexivity; try (induction args; simpl; auto; rewrite ?IHargs; auto). Qed.

Lemma aconv_let_eq : forall bx bs body, aconv bx (SLet bs body) =
  BLet (map (fun b => (fst b, aconv bx (snd b))) bs)
       (wrap_boxes (filter (fun x => assigned x body) (map fst bs))
          (aconv (filter (fun x => assigned x body) (map fst bs) ++ minus bx (map fst bs)) body)).
Proof. intros. simpl. f_equal; try reflexivity; try (induction bs as [|[x a] bs]; simpl; auto; rewrite ?IHbs; auto). Qed.

Lemma assigned_app_eq : forall x f args, assigned x (SApp f args) = assigned_list x args || assigned x f.
Proof. intros. simpl. f_equal; try reflexivity; try (induction args; simpl; auto; rewrite ?IHargs; auto). Qed.

Lemma assigned_let_eq : forall x bs body, assigned x (SLet bs body) = assigned_list x (map snd bs) || assigned x body.
Proof. intros. simpl. f_equal; try reflexivity; try (induction bs as [|[y a] bs]; simpl; auto; rewrite ?IHbs; auto). Qed.

Lemma clean_app_eq : forall f args, clean (SApp f args) = clean_list args && clean f.
Proof. intros. simpl. f_equal; try reflexivity; try (induction args; simpl; auto; rewrite ?IHargs; auto). Qed.

Lemma clean_let_eq : forall bs body, clean (SLet bs body) = names_ok (map fst bs) && clean_list (map snd bs) && clean body.
Proof. intros. simpl. f_equal; try reflexivity. f_equal; try reflexivity; try (induction bs as [|[y a] bs]; simpl; auto; rewrite ?IHbs; auto). Qed.

Lemma map_snd_conv : forall bx bs, map snd (map (fun b : ident * sexpr => (fst b, aconv bx (snd b))) bs) = aconv_list bx (map snd bs).
Proof. induction bs as [|[y a] bs]; simpl; auto. f_equal; auto. Qed.

Lemma map_fst_conv : forall bx bs, map fst (map (fun b : ident * sexpr => (fst b, aconv bx (snd b))) bs) = map fst bs.
Proof. induction bs as [|[y a] bs]; simpl; auto. f_equal; auto. Qed.

Definition inv_list (bx : list ident) (rs : senv) (es : list sexpr) : Prop :=
  forall x l, Core.lookup x rs = Some l -> memb_s x bx = false -> assigned_list x es = false.

Lemma sevals_length : forall ev es st vs st', sevals ev es st = Some (inl (vs, st')) -> length vs = length es.
Proof.
  induction es; simpl; intros.
  - inversion H; auto.
  - destruct (ev a st) as [[v st1|k]|]; try discriminate.
    destruct (sevals ev es st1) as [[[vs' st2]|k]|] eqn:E2; try discriminate.
    inversion H; subst. simpl. f_equal. eauto.
Qed.

(* the result relation *)
Definition conv_res (W : world) (rb : benv) (be : bexpr) (stb : bstate) (res : sresult) (m : nat) : Prop :=
  match res with
  | SVal v st' => exists W' bv stb', ext W W' /\ beval m rb be stb = Some (BVal bv stb') /\ V W' v bv /\
                    StoreRel W' (s_store st') (b_store stb') /\ GlobRel W' (s_glob st') (b_glob stb')
  | SErr k => beval m rb be stb = Some (BErr k)
  end.

Lemma conv_res_mono : forall W rb be stb res m m', conv_res W rb be stb res m -> m <= m' -> conv_res W rb be stb res m'.
Proof.
  intros. destruct res; simpl in *.
  - destruct H as (W' & bv & stb' & A & B & C). exists W', bv, stb'. split; auto. split; auto. eapply beval_mono; eauto.
  - eapply beval_mono; eauto.
Qed.

Definition conv_at (n : nat) : Prop :=
  forall rs e st res, seval n rs e st = Some res ->
  forall W bx rb stb, E W bx rs rb -> inv bx rs e -> clean e = true ->
    StoreRel W (s_store st) (b_store stb) -> GlobRel W (s_glob st) (b_glob stb) ->
    exists m, conv_res W rb (aconv bx e) stb res m.

Lemma conv_list : forall n, conv_at n -> forall es rs st x, sevals (seval n rs) es st = Some x ->
  forall W bx rb stb, E W bx rs rb -> inv_list bx rs es -> clean_list es = true ->
    StoreRel W (s_store st) (b_store stb) -> GlobRel W (s_glob st) (b_glob stb) ->
    exists m, match x with
      | inl (vs, st') => exists W' bvs stb', ext W W' /\ bevals (beval m rb) (aconv_list bx es) stb = Some (inl (bvs, stb')) /\
                          Forall2 (V W') vs bvs /\ StoreRel W' (s_store st') (b_store stb') /\ GlobRel W' (s_glob st') (b_glob stb')
      | inr k => bevals (beval m rb) (aconv_list bx es) stb = Some (inr k)
      end.
Proof.
  intros n IH es. induction es as [|e es IHes]; intros rs st x Hev W bx rb stb HE Hinv Hcl HS HG.
  - simpl in Hev. inversion Hev; subst. exists 0, W, [], stb. split; [apply ext_refl|]. split; [reflexivity|]. split; [constructor|]. split; auto.
  - simpl in Hev. simpl in Hcl. apply andb_true_iff in Hcl. destruct Hcl as [Hc1 Hc2].
    assert (Hi1 : inv bx rs e).
    { intros y l Hy Hm. specialize (Hinv y l Hy Hm). simpl in Hinv. apply orb_false_iff in Hinv. tauto. }
    assert (Hi2 : inv_list bx rs es).
    { intros y l Hy Hm. specialize (Hinv y l Hy Hm). simpl in Hinv. apply orb_false_iff in Hinv. tauto. }
    destruct (seval n rs e st) as [[v st1|k]|] eqn:He; try discriminate.
    + destruct (IH rs e st _ He W bx rb stb HE Hi1 Hc1 HS HG) as (m1 & W1 & bv & stb1 & X1 & B1 & V1 & S1 & G1).
      destruct (sevals (seval n rs) es st1) as [[[vs st2]|k]|] eqn:Hes; try discriminate.
      * inversion Hev; subst x.
        destruct (IHes rs st1 _ Hes W1 bx rb stb1 (E_ext _ _ _ _ _ X1 HE) Hi2 Hc2 S1 G1)
          as (m2 & W2 & bvs & stb2 & X2 & B2 & V2 & S2 & G2).
        exists (m1 + m2), W2, (bv :: bvs), stb2. split; [eapply ext_trans; eauto|].
        split. { simpl. rewrite (beval_mono _ (m1 + m2) _ _ _ _ B1) by lia.
                 rewrite (bevals_mono _ (m1 + m2) _ _ _ _ B2) by lia. auto. }
        split; auto. constructor; auto. eapply V_ext; eauto.
      * inversion Hev; subst x.
        destruct (IHes rs st1 _ Hes W1 bx rb stb1 (E_ext _ _ _ _ _ X1 HE) Hi2 Hc2 S1 G1) as (m2 & B2).
        exists (m1 + m2). simpl. rewrite (beval_mono _ (m1 + m2) _ _ _ _ B1) by lia.
        rewrite (bevals_mono _ (m1 + m2) _ _ _ _ B2) by lia. auto.
    + inversion Hev; subst x.
      destruct (IH rs e st _ He W bx rb stb HE Hi1 Hc1 HS HG) as (m1 & B1). simpl in B1.
      exists m1. simpl. rewrite B1. auto.
Qed.

Lemma E_boxname : forall W bx rs rb x, E W bx rs rb -> is_box_name x = true -> Core.lookup x rb = None.
Proof. intros W bx rs rb x (A & B & C) H. apply B. apply C. auto. Qed.

Lemma Forall2_firstn' : forall A B (R : A -> B -> Prop) k l1 l2, Forall2 R l1 l2 -> Forall2 R (firstn k l1) (firstn k l2).
Proof. induction k; intros; simpl; [constructor|]. destruct H; constructor; auto. Qed.

Lemma Forall2_skipn' : forall A B (R : A -> B -> Prop) k l1 l2, Forall2 R l1 l2 -> Forall2 R (skipn k l1) (skipn k l2).
Proof. induction k; intros; simpl; auto. destruct H; auto. Qed.

Lemma Forall2_app' : forall A B (R : A -> B -> Prop) a1 a2 b1 b2, Forall2 R a1 a2 -> Forall2 R b1 b2 -> Forall2 R (a1 ++ b1) (a2 ++ b2).
Proof. induction 1; simpl; auto. Qed.

Lemma call_args_rel : forall W ps rest vs bvs, Forall2 (V W) vs bvs ->
  match scall_args ps rest vs, bcall_args ps rest bvs with
  | Some (xs, ws), Some (xs', bws) => xs = params ps rest /\ xs' = xs /\ Forall2 (V W) ws bws /\ length xs = length ws
  | None, None => True
  | _, _ => False
  end.
Proof.
  intros W ps rest vs bvs HF. pose proof (Forall2_len _ _ _ _ _ HF) as Hl.
  unfold scall_args, bcall_args. rewrite <- Hl. destruct rest as [r|]; simpl.
  - destruct (Nat.leb (length ps) (length vs)) eqn:E1; auto. apply Nat.leb_le in E1.
    repeat split; auto.
    + apply Forall2_app'. apply Forall2_firstn'; auto. constructor; [|constructor]. constructor. apply Forall2_skipn'; auto.
    + rewrite !app_length, firstn_length. simpl. lia.
  - destruct (Nat.eqb (length ps) (length vs)) eqn:E1; auto. apply Nat.eqb_eq in E1. repeat split; auto.
Qed.

Lemma supdate_nth_same : forall l v st, l < length st -> nth_error (supdate l v st) l = Some v.
Proof. induction l; destruct st; simpl; intros; try lia; auto. apply IHl. lia. Qed.

Lemma supdate_nth_other : forall l l' v st, l <> l' -> nth_error (supdate l v st) l' = nth_error st l'.
Proof. induction l; destruct st, l'; simpl; intros; auto; try congruence. Qed.

Lemma supdate_length : forall l v st, length (supdate l v st) = length st.
Proof. induction l; destruct st; simpl; auto. Qed.

Lemma bupdate_nth_same : forall l v st, l < length st -> nth_error (bupdate l v st) l = Some v.
Proof. induction l; destruct st; simpl; intros; try lia; auto. apply IHl. lia. Qed.

Lemma bupdate_nth_other : forall l l' v st, l <> l' -> nth_error (bupdate l v st) l' = nth_error st l'.
Proof. induction l; destruct st, l'; simpl; intros; auto; try congruence. Qed.

(* an assignment to a boxed local: the location and its box are updated together *)
Lemma StoreRel_set : forall W st bt l a v bv, StoreRel W st bt -> nth_error W l = Some (LBox a) -> V W v bv ->
  StoreRel W (supdate l v st) (bupdate a bv bt).
Proof.
  intros W st bt l a v bv (HL & HB & HI & HJ) Hl Hv.
  destruct (HB l a Hl) as (sv0 & bv0 & A1 & A2 & _).
  split; [rewrite supdate_length; auto|]. split; [|split; auto].
  - intros l' a' Hl'. destruct (Nat.eq_dec l' l) as [->|Hne].
    + rewrite Hl in Hl'. inversion Hl'; subst a'. exists v, bv.
      split; [apply supdate_nth_same; eapply nth_error_lt; eauto|].
      split; [apply bupdate_nth_same; eapply nth_error_lt; eauto|auto].
    + destruct (HB l' a' Hl') as (sv & bv' & B1 & B2 & B3). exists sv, bv'.
      split; [rewrite supdate_nth_other; auto|]. split; auto.
      rewrite bupdate_nth_other; auto. intros Heq. subst a'. apply Hne. eapply HJ; eauto.
  - intros l' v' Hl'. destruct (HI l' v' Hl') as (sv & B1 & B2). exists sv. split; auto.
    rewrite supdate_nth_other; auto. intros Heq. subst l'. rewrite Hl in Hl'. discriminate.
Qed.

Lemma GlobRel_cons : forall W Gs Gb g v bv, GlobRel W Gs Gb -> V W v bv -> is_box_name g = false ->
  GlobRel W ((g, v) :: Gs) ((g, bv) :: Gb).
Proof.
  intros W Gs Gb g v bv (A & B1 & B2 & B3) Hv Hg. split.
  - intros g'. simpl. destruct (String.eqb g' g); eauto. apply A.
  - unfold is_box_name in Hg. apply orb_false_iff in Hg. destruct Hg as [Hg H3]. apply orb_false_iff in Hg. destruct Hg as [H1 H2].
    assert (E1 : String.eqb box_name g = false) by (rewrite String.eqb_sym; auto).
    assert (E2 : String.eqb unbox_name g = false) by (rewrite String.eqb_sym; auto).
    assert (E3 : String.eqb setbox_name g = false) by (rewrite String.eqb_sym; auto).
    cbn [Core.lookup]. rewrite E1, E2, E3. auto.
Qed.

Lemma beval_app_eq : forall k r f args st, beval (S k) r (BApp f args) st =
  match bevals (beval k r) args st with
  | None => None
  | Some (inr e) => Some (BErr e)
  | Some (inl (vs, st1)) =>
    match beval k r f st1 with
    | None => None
    | Some (BErr e) => Some (BErr e)
    | Some (BVal fv st2) =>
      match fv with
      | BVClo ps rest body r' =>
          match bcall_args ps rest vs with
          | Some (xs, ws) => beval k (bind xs ws r') body st2
          | None => Some (BErr EArity)
          end
      | BVPrim p => Some (bprim_apply p vs st2)
      | _ => Some (BErr ENotProc)
      end
    end
  end.
Proof. reflexivity. Qed.

Lemma beval_let_eq : forall k r bs body st, beval (S k) r (BLet bs body) st =
  match bevals (beval k r) (map snd bs) st with
  | None => None
  | Some (inr e) => Some (BErr e)
  | Some (inl (vs, st1)) => beval k (bind (map fst bs) vs r) body st1
  end.
Proof. reflexivity. Qed.

Lemma beval_var_eq : forall k r x st, beval (S k) r (BVar x) st =
  match Core.lookup x r with
  | Some v => Some (BVal v st)
  | None => match Core.lookup x (b_glob st) with Some v => Some (BVal v st) | None => Some (BErr EFree) end
  end.
Proof. reflexivity. Qed.

(* entering a scope (lambda call / let body): allocate the locations, box the assigned binders, run the body *)
Lemma scope_eval : forall n, conv_at n -> forall W bx rs rb xs ws bws body st stb res,
  names_ok xs = true -> length xs = length ws -> Forall2 (V W) ws bws -> E W bx rs rb ->
  StoreRel W (s_store st) (b_store stb) -> GlobRel W (s_glob st) (b_glob stb) ->
  (forall x l, Core.lookup x rs = Some l -> memb_s x bx = false -> assigned x body = false) ->
  clean body = true ->
  seval n (fst (salloc xs ws rs (s_store st))) body (mkS (snd (salloc xs ws rs (s_store st))) (s_glob st)) = Some res ->
  exists m, conv_res W (bind xs bws rb)
              (wrap_boxes (filter (fun x => assigned x body) xs)
                 (aconv (filter (fun x => assigned x body) xs ++ minus bx xs) body)) stb res m.
Proof.
  intros n IH W bx rs rb xs ws bws body st stb res Hok Hlen HF HE HS HG Hinv Hcl Hev.
  rewrite salloc_eq in Hev by auto. simpl fst in Hev. simpl snd in Hev.
  destruct stb as [bt G]. simpl in HS, HG.
  destruct (enter_scope W bx rs rb xs ws bws body (s_store st) bt Hok Hlen HF HE HS) as (W' & vals & X & HV & HE' & HS').
  set (mx := filter (fun x => assigned x body) xs) in *.
  assert (Hinv' : inv (mx ++ minus bx xs) (bind xs (seq (length (s_store st)) (length xs)) rs) body).
  { intros x l Hl Hm. rewrite memb_s_app, memb_s_minus in Hm. apply orb_false_iff in Hm. destruct Hm as [Hm1 Hm2].
    destruct (in_dec string_dec x xs) as [Hin|Hnin].
    - destruct (assigned x body) eqn:Ea; auto. exfalso. apply memb_s_false in Hm1. apply Hm1. unfold mx. apply filter_In. auto.
    - rewrite lookup_bind_out in Hl by auto. eapply Hinv; eauto.
      apply memb_s_false in Hnin. rewrite Hnin in Hm2. simpl in Hm2. rewrite andb_true_r in Hm2. auto. }
  destruct (IH _ body _ res Hev W' (mx ++ minus bx xs) _ (mkB (bt ++ vals) G) HE' Hinv' Hcl HS' (GlobRel_ext _ _ _ _ X HG)) as (m & Hres).
  assert (Hb1 : Core.lookup box_name (bind xs bws rb) = None).
  { rewrite lookup_bind_out. eapply E_boxname; eauto.
    intros Hin. unfold names_ok in Hok. apply andb_true_iff in Hok. destruct Hok as [Hn _].
    rewrite forallb_forall in Hn. apply Hn in Hin. discriminate. }
  destruct HG as (GA & GB & GC).
  destruct res as [v st'|k]; simpl in Hres.
  - destruct Hres as (W2 & bv & stb2 & X2 & B2 & R2).
    destruct (wrap_eval mx vals _ _ bt G m _ Hb1 GB HV B2) as [m' Hm'].
    exists m'. simpl. exists W2, bv, stb2. split; [eapply ext_trans; eauto|]. split; auto.
  - destruct (wrap_eval mx vals _ _ bt G m _ Hb1 GB HV Hres) as [m' Hm'].
    exists m'. simpl. auto.
Qed.

Lemma conv_all : forall n, conv_at n.
Proof.
  induction n as [|n IH]; intros rs e st res Hev; [discriminate|].
  intros W bx rb stb HE Hinv Hcl HS HG.
  destruct e as [c|x|ps rest body|f args|e1 e2 e3|bs body|e1 e2|x e]; simpl in Hev.
  - (* SConst *)
    inversion Hev; subst res. exists 1, W, (bconst c), stb. split; [apply ext_refl|]. split; [reflexivity|].
    split; [apply V_const|auto].
  - (* SVar *)
    simpl in Hcl. destruct HE as (E1 & E2 & E3).
    destruct (Core.lookup x rs) as [l|] eqn:Hx.
    + pose proof (E1 x l Hx) as Hxl. simpl. destruct (memb_s x bx) eqn:Hm.
      * destruct Hxl as (a & Hw & Hrb). destruct HS as (HL & HB & HI & HJ).
        destruct (HB l a Hw) as (sv & bv & A1 & A2 & A3). rewrite A1 in Hev. inversion Hev; subst res.
        exists 2, W, bv, stb. split; [apply ext_refl|]. split.
        { destruct HG as (_ & _ & Hun & _). rewrite beval_app_eq. cbn [bevals]. rewrite beval_var_eq, Hrb.
          rewrite beval_var_eq.
          rewrite (E_boxname W bx rs rb unbox_name (conj E1 (conj E2 E3)) eq_refl). rewrite Hun.
          destruct stb as [bt bg]. simpl in *. rewrite A2. reflexivity. }
        split; auto. split; auto. split; auto.
      * destruct Hxl as (v & Hw & Hrb). destruct HS as (HL & HB & HI & HJ).
        destruct (HI l v Hw) as (sv & A1 & A2). rewrite A1 in Hev. inversion Hev; subst res.
        exists 1, W, v, stb. split; [apply ext_refl|]. split; [simpl; rewrite Hrb; auto|].
        split; auto. split; auto. split; auto.
    + destruct (E2 x Hx) as [Hrb Hm]. simpl. rewrite Hm. destruct HG as (GA & GB).
      pose proof (GA x) as Hg. destruct (Core.lookup x (s_glob st)) as [v|] eqn:Hgx.
      * inversion Hev; subst res. destruct Hg as (bv & Hb & Hv).
        exists 1, W, bv, stb. split; [apply ext_refl|]. split; [simpl; rewrite Hrb, Hb; auto|].
        split; auto. split; auto. split; auto.
      * inversion Hev; subst res. exists 1. simpl. rewrite Hrb.
        destruct Hg as [Hg|Hg]; [rewrite Hg in Hcl; discriminate|]. rewrite Hg. auto.
  - (* SLam *)
    inversion Hev; subst res. exists 1, W. eexists. exists stb. split; [apply ext_refl|]. split; [reflexivity|].
    split; [constructor; auto|auto].
  - (* SApp *)
    rewrite clean_app_eq in Hcl. apply andb_true_iff in Hcl. destruct Hcl as [Hca Hcf].
    assert (Hil : inv_list bx rs args).
    { intros y l Hy Hm. specialize (Hinv y l Hy Hm). rewrite assigned_app_eq in Hinv. apply orb_false_iff in Hinv. tauto. }
    assert (Hif : inv bx rs f).
    { intros y l Hy Hm. specialize (Hinv y l Hy Hm). rewrite assigned_app_eq in Hinv. apply orb_false_iff in Hinv. tauto. }
    rewrite aconv_app_eq.
    destruct (sevals (seval n rs) args st) as [[[vs st1]|k]|] eqn:Hevs; try discriminate.
    2:{ inversion Hev; subst res.
        destruct (conv_list n IH _ _ _ _ Hevs W bx rb stb HE Hil Hca HS HG) as (m1 & B1).
        exists (S m1). unfold conv_res. rewrite beval_app_eq. rewrite B1. auto. }
    destruct (conv_list n IH _ _ _ _ Hevs W bx rb stb HE Hil Hca HS HG) as (m1 & W1 & bvs & stb1 & X1 & B1 & V1 & S1 & G1).
    destruct (seval n rs f st1) as [[fv st2|k]|] eqn:Hef; try discriminate.
    2:{ inversion Hev; subst res.
        destruct (IH rs f st1 _ Hef W1 bx rb stb1 (E_ext _ _ _ _ _ X1 HE) Hif Hcf S1 G1) as (m2 & B2). simpl in B2.
        exists (S (m1 + m2)). unfold conv_res. rewrite beval_app_eq.
        rewrite (bevals_mono _ (m1 + m2) _ _ _ _ B1) by lia. rewrite (beval_mono _ (m1 + m2) _ _ _ _ B2) by lia. auto. }
    destruct (IH rs f st1 _ Hef W1 bx rb stb1 (E_ext _ _ _ _ _ X1 HE) Hif Hcf S1 G1) as (m2 & W2 & bfv & stb2 & X2 & B2 & V2 & S2 & G2).
    pose proof (Forall2_V_ext _ _ _ _ X2 V1) as V1'.
    assert (Hpre : forall k, m1 + m2 <= k -> forall r0,
              (match bfv with
               | BVClo ps rest body r' =>
                   match bcall_args ps rest bvs with
                   | Some (xs, ws) => beval k (bind xs ws r') body stb2
                   | None => Some (BErr EArity)
                   end
               | BVPrim p => Some (bprim_apply p bvs stb2)
               | _ => Some (BErr ENotProc)
               end) = Some r0 ->
              beval (S k) rb (BApp (aconv bx f) (aconv_list bx args)) stb = Some r0).
    { intros k Hk r0 Hr. rewrite beval_app_eq.
      rewrite (bevals_mono _ k _ _ _ _ B1) by lia. rewrite (beval_mono _ k _ _ _ _ B2) by lia. exact Hr. }
    inversion V2; subst fv bfv.
    + inversion Hev; subst res. exists (S (m1 + m2)). unfold conv_res. apply Hpre; auto.
    + inversion Hev; subst res. exists (S (m1 + m2)). unfold conv_res. apply Hpre; auto.
    + inversion Hev; subst res. exists (S (m1 + m2)). unfold conv_res. apply Hpre; auto.
    + (* primitive *)
      rewrite (V_atoms _ _ _ V1') in Hev.
      destruct (prim_sem p (map bval_atom bvs)) as [a|k] eqn:Hp.
      * inversion Hev; subst res. exists (S (m1 + m2)). unfold conv_res.
        exists W2, (atom_bval a), stb2. split; [eapply ext_trans; eauto|].
        split. { apply Hpre; auto; simpl; rewrite ?Hp; auto. }
        split; [apply V_of_atom|auto].
      * inversion Hev; subst res. exists (S (m1 + m2)). unfold conv_res. apply Hpre; auto; simpl; rewrite ?Hp; auto.
    + inversion Hev; subst res. exists (S (m1 + m2)). unfold conv_res. apply Hpre; auto.
    + (* closure *)
      rename H into HEc, H0 into Hic, H1 into Hcc.
      pose proof (call_args_rel W2 ps rest vs bvs V1') as Hca'.
      destruct (scall_args ps rest vs) as [[xs ws]|] eqn:Hsc; destruct (bcall_args ps rest bvs) as [[xs' bws]|] eqn:Hbc; try tauto.
      2:{ inversion Hev; subst res. exists (S (m1 + m2)). unfold conv_res. apply Hpre; auto; rewrite ?Hbc; auto. }
      destruct Hca' as (Hxs & -> & HFw & Hlw). subst xs.
      simpl in Hcc. apply andb_true_iff in Hcc. destruct Hcc as [Hok Hcb].
      rewrite (surjective_pairing (salloc (params ps rest) ws rs0 (s_store st2))) in Hev.
      destruct (scope_eval n IH W2 bx0 rs0 rb0 (params ps rest) ws bws body st2 stb2 res Hok Hlw HFw HEc S2 G2) as (m3 & H3); auto.
      exists (S (m1 + m2 + m3)). apply (conv_res_mono _ _ _ _ _ _ (m1 + m2 + m3)) in H3; [|lia].
      destruct res as [v3 st3|k]; unfold conv_res in *.
      * destruct H3 as (W3 & bv3 & stb3 & X3 & B3 & R3). exists W3, bv3, stb3.
        split; [eapply ext_trans; [|exact X3]; eapply ext_trans; eauto|]. split; auto.
        apply Hpre; [lia|]. exact B3.
      * apply Hpre; [lia|]. exact H3.
  - (* SIf *)
    simpl in Hcl. apply andb_true_iff in Hcl. destruct Hcl as [Hcl Hc3]. apply andb_true_iff in Hcl. destruct Hcl as [Hc1 Hc2].
    assert (Hi1 : inv bx rs e1). { intros y l Hy Hm. specialize (Hinv y l Hy Hm). simpl in Hinv. apply orb_false_iff in Hinv. destruct Hinv as [Hinv _]. apply orb_false_iff in Hinv. tauto. }
    assert (Hi2 : inv bx rs e2). { intros y l Hy Hm. specialize (Hinv y l Hy Hm). simpl in Hinv. apply orb_false_iff in Hinv. destruct Hinv as [Hinv _]. apply orb_false_iff in Hinv. tauto. }
    assert (Hi3 : inv bx rs e3). { intros y l Hy Hm. specialize (Hinv y l Hy Hm). simpl in Hinv. apply orb_false_iff in Hinv. tauto. }
    destruct (seval n rs e1 st) as [[v st1|k]|] eqn:He1; try discriminate.
    + destruct (IH rs e1 st _ He1 W bx rb stb HE Hi1 Hc1 HS HG) as (m1 & W1 & bv & stb1 & X1 & B1 & V1 & S1 & G1).
      rewrite (V_atom _ _ _ V1) in Hev.
      destruct (atom_truthy (bval_atom bv)) eqn:Ht.
      * destruct (IH rs e2 st1 _ Hev W1 bx rb stb1 (E_ext _ _ _ _ _ X1 HE) Hi2 Hc2 S1 G1) as (m2 & H2).
        exists (S (m1 + m2)). apply (conv_res_mono _ _ _ _ _ _ (m1 + m2)) in H2; [|lia].
        destruct res as [v2 st2|k]; simpl in *.
        -- destruct H2 as (W2 & bv2 & stb2 & X2 & B2 & R2). exists W2, bv2, stb2.
           split; [eapply ext_trans; eauto|]. split; auto.
           rewrite (beval_mono _ (m1 + m2) _ _ _ _ B1) by lia. rewrite Ht. auto.
        -- rewrite (beval_mono _ (m1 + m2) _ _ _ _ B1) by lia. rewrite Ht. auto.
      * destruct (IH rs e3 st1 _ Hev W1 bx rb stb1 (E_ext _ _ _ _ _ X1 HE) Hi3 Hc3 S1 G1) as (m2 & H2).
        exists (S (m1 + m2)). apply (conv_res_mono _ _ _ _ _ _ (m1 + m2)) in H2; [|lia].
        destruct res as [v2 st2|k]; simpl in *.
        -- destruct H2 as (W2 & bv2 & stb2 & X2 & B2 & R2). exists W2, bv2, stb2.
           split; [eapply ext_trans; eauto|]. split; auto.
           rewrite (beval_mono _ (m1 + m2) _ _ _ _ B1) by lia. rewrite Ht. auto.
        -- rewrite (beval_mono _ (m1 + m2) _ _ _ _ B1) by lia. rewrite Ht. auto.
    + inversion Hev; subst res.
      destruct (IH rs e1 st _ He1 W bx rb stb HE Hi1 Hc1 HS HG) as (m1 & B1). simpl in B1.
      exists (S m1). simpl. rewrite B1. auto.
  - (* SLet *)
    rewrite clean_let_eq in Hcl. apply andb_true_iff in Hcl. destruct Hcl as [Hcl Hcb].
    apply andb_true_iff in Hcl. destruct Hcl as [Hok Hcl].
    assert (Hil : inv_list bx rs (map snd bs)).
    { intros y l Hy Hm. specialize (Hinv y l Hy Hm). rewrite assigned_let_eq in Hinv. apply orb_false_iff in Hinv. tauto. }
    assert (Hib : forall y l, Core.lookup y rs = Some l -> memb_s y bx = false -> assigned y body = false).
    { intros y l Hy Hm. specialize (Hinv y l Hy Hm). rewrite assigned_let_eq in Hinv. apply orb_false_iff in Hinv. tauto. }
    rewrite aconv_let_eq.
    destruct (sevals (seval n rs) (map snd bs) st) as [[[vs st1]|k]|] eqn:Hevs; try discriminate.
    + destruct (conv_list n IH _ _ _ _ Hevs W bx rb stb HE Hil Hcl HS HG) as (m1 & W1 & bvs & stb1 & X1 & B1 & V1 & S1 & G1).
      assert (Hlen : length (map fst bs) = length vs).
      { apply sevals_length in Hevs. rewrite !map_length in *. lia. }
      rewrite (surjective_pairing (salloc (map fst bs) vs rs (s_store st1))) in Hev.
      destruct (scope_eval n IH W1 bx rs rb (map fst bs) vs bvs body st1 stb1 res Hok Hlen V1
                  (E_ext _ _ _ _ _ X1 HE) S1 G1 Hib Hcb Hev) as (m2 & H2).
      exists (S (m1 + m2)). apply (conv_res_mono _ _ _ _ _ _ (m1 + m2)) in H2; [|lia].
      destruct res as [v2 st2|k]; unfold conv_res in *.
      * destruct H2 as (W2 & bv2 & stb2 & X2 & B2 & R2). exists W2, bv2, stb2.
        split; [eapply ext_trans; eauto|]. split; auto.
        rewrite beval_let_eq, map_snd_conv, map_fst_conv.
        rewrite (bevals_mono _ (m1 + m2) _ _ _ _ B1) by lia. auto.
      * rewrite beval_let_eq, map_snd_conv, map_fst_conv.
        rewrite (bevals_mono _ (m1 + m2) _ _ _ _ B1) by lia. auto.
    + inversion Hev; subst res.
      destruct (conv_list n IH _ _ _ _ Hevs W bx rb stb HE Hil Hcl HS HG) as (m1 & B1).
      exists (S m1). unfold conv_res. rewrite beval_let_eq, map_snd_conv. rewrite B1. auto.
  - (* SSeq *)
    simpl in Hcl. apply andb_true_iff in Hcl. destruct Hcl as [Hc1 Hc2].
    assert (Hi1 : inv bx rs e1). { intros y l Hy Hm. specialize (Hinv y l Hy Hm). simpl in Hinv. apply orb_false_iff in Hinv. tauto. }
    assert (Hi2 : inv bx rs e2). { intros y l Hy Hm. specialize (Hinv y l Hy Hm). simpl in Hinv. apply orb_false_iff in Hinv. tauto. }
    destruct (seval n rs e1 st) as [[v st1|k]|] eqn:He1; try discriminate.
    + destruct (IH rs e1 st _ He1 W bx rb stb HE Hi1 Hc1 HS HG) as (m1 & W1 & bv & stb1 & X1 & B1 & V1 & S1 & G1).
      destruct (IH rs e2 st1 _ Hev W1 bx rb stb1 (E_ext _ _ _ _ _ X1 HE) Hi2 Hc2 S1 G1) as (m2 & H2).
      exists (S (m1 + m2)). apply (conv_res_mono _ _ _ _ _ _ (m1 + m2)) in H2; [|lia].
      destruct res as [v2 st2|k]; simpl in *.
      * destruct H2 as (W2 & bv2 & stb2 & X2 & B2 & R2). exists W2, bv2, stb2.
        split; [eapply ext_trans; eauto|]. split; auto.
        rewrite (beval_mono _ (m1 + m2) _ _ _ _ B1) by lia. auto.
      * rewrite (beval_mono _ (m1 + m2) _ _ _ _ B1) by lia. auto.
    + inversion Hev; subst res.
      destruct (IH rs e1 st _ He1 W bx rb stb HE Hi1 Hc1 HS HG) as (m1 & B1). simpl in B1.
      exists (S m1). simpl. rewrite B1. auto.
  - (* SSet *)
    simpl in Hcl. apply andb_true_iff in Hcl. destruct Hcl as [Hcx Hce].
    assert (Hnb : is_box_name x = false) by (destruct (is_box_name x); auto; discriminate).
    assert (Hie : inv bx rs e). { intros y l Hy Hm. specialize (Hinv y l Hy Hm). simpl in Hinv. apply orb_false_iff in Hinv. tauto. }
    pose proof HE as HE0. destruct HE0 as (E1 & E2 & E3).
    destruct (Core.lookup x rs) as [l|] eqn:Hx.
    + (* a boxed local *)
      assert (Hm : memb_s x bx = true).
      { destruct (memb_s x bx) eqn:Hm; auto. specialize (Hinv x l Hx Hm). simpl in Hinv. rewrite String.eqb_refl in Hinv. discriminate. }
      pose proof (E1 x l Hx) as Hxl. rewrite Hm in Hxl. destruct Hxl as (a & Hw & Hrb).
      simpl. rewrite Hm.
      destruct (seval n rs e st) as [[v st1|k]|] eqn:He1; try discriminate.
      * destruct (IH rs e st _ He1 W bx rb stb HE Hie Hce HS HG) as (m1 & W1 & bv & stb1 & X1 & B1 & V1 & S1 & G1).
        pose proof S1 as S1'. destruct S1' as (HL & HB & HI & HJ).
        destruct (HB l a (ext_nth _ _ _ _ X1 Hw)) as (old & bold & A1 & A2 & A3). rewrite A1 in Hev. inversion Hev; subst res.
        exists (S (S m1)), W1, bold, (mkB (bupdate a bv (b_store stb1)) (b_glob stb1)).
        split; auto. split.
        { rewrite beval_app_eq. cbn [bevals]. rewrite beval_var_eq, Hrb.
          rewrite (beval_mono _ (S m1) _ _ _ _ B1) by lia.
          rewrite beval_var_eq. rewrite (E_boxname W bx rs rb setbox_name HE eq_refl).
          destruct G1 as (_ & _ & _ & Hsb). rewrite Hsb. simpl. rewrite A2. reflexivity. }
        split; auto. split; [apply StoreRel_set; auto; eapply ext_nth; eauto|auto].
      * inversion Hev; subst res.
        destruct (IH rs e st _ He1 W bx rb stb HE Hie Hce HS HG) as (m1 & B1). simpl in B1.
        exists (S (S m1)). unfold conv_res. rewrite beval_app_eq. cbn [bevals]. rewrite beval_var_eq, Hrb.
        rewrite (beval_mono _ (S m1) _ _ _ _ B1) by lia. auto.
    + (* a global *)
      destruct (E2 x Hx) as [Hrb Hm]. simpl. rewrite Hm.
      destruct (seval n rs e st) as [[v st1|k]|] eqn:He1; try discriminate.
      * destruct (IH rs e st _ He1 W bx rb stb HE Hie Hce HS HG) as (m1 & W1 & bv & stb1 & X1 & B1 & V1 & S1 & G1).
        pose proof G1 as G1'. destruct G1' as (GA & GB). pose proof (GA x) as Hg.
        destruct (Core.lookup x (s_glob st1)) as [old|] eqn:Hgx.
        -- inversion Hev; subst res. destruct Hg as (bold & Hb & Hv).
           exists (S m1), W1, bold, (mkB (b_store stb1) ((x, bv) :: b_glob stb1)).
           split; auto. split; [simpl; rewrite B1, Hb; auto|]. split; auto. split; auto.
           simpl. apply GlobRel_cons; auto.
        -- inversion Hev; subst res. exists (S m1). simpl. rewrite B1.
           destruct Hg as [Hg|Hg]; [congruence|]. rewrite Hg. auto.
      * inversion Hev; subst res.
        destruct (IH rs e st _ He1 W bx rb stb HE Hie Hce HS HG) as (m1 & B1). simpl in B1.
        exists (S m1). simpl. rewrite B1. auto.
Qed.

(* ------------------------------------------------------------------ whole programs *)
Definition clean_prog (ds : list (ident * sexpr)) (main : sexpr) : bool :=
  forallb (fun d => negb (is_box_name (fst d)) && clean (snd d)) ds && clean main.

Definition cdefs (ds : list (ident * sexpr)) : list (ident * bexpr) :=
  map (fun d => (fst d, assign_convert (snd d))) ds.

Lemma E_nil : forall W, E W [] [] [].
Proof. intros W. split; [|split]; intros; simpl in *; auto; discriminate. Qed.

Lemma inv_nil : forall e, inv [] [] e.
Proof. intros e x l H. discriminate. Qed.

Lemma StoreRel_nil : StoreRel [] [] [].
Proof. split; auto. split; [|split]; intros l; intros; destruct l; discriminate. Qed.

Lemma GlobRel_init : GlobRel [] sprim_globals bprim_globals.
Proof.
  split; [|repeat split; reflexivity].
  intros g. unfold sprim_globals, bprim_globals, bprim_table. rewrite map_app, map_map.
  induction prim_table as [|[x p] t IH]; simpl.
  - destruct (String.eqb g box_name) eqn:E1; [left; unfold is_box_name; rewrite E1; auto|].
    destruct (String.eqb g unbox_name) eqn:E2; [left; unfold is_box_name; rewrite E1, E2; auto|].
    destruct (String.eqb g setbox_name) eqn:E3; [left; unfold is_box_name; rewrite E1, E2, E3; auto|].
    right. auto.
  - destruct (String.eqb g x); auto. eexists. split; eauto. constructor.
Qed.

Lemma brun_defs_mono : forall ds m m' st r, brun_defs m st ds = Some r -> m <= m' -> brun_defs m' st ds = Some r.
Proof.
  induction ds as [|[x e] ds IH]; simpl; intros; auto.
  destruct (beval m [] e st) as [[v st1|k]|] eqn:E; try discriminate; rewrite (beval_mono _ m' _ _ _ _ E) by auto; eauto.
Qed.

Lemma conv_defs_sim : forall n ds st x, srun_defs n st ds = Some x ->
  forall W stb, StoreRel W (s_store st) (b_store stb) -> GlobRel W (s_glob st) (b_glob stb) ->
  forallb (fun d => negb (is_box_name (fst d)) && clean (snd d)) ds = true ->
  exists m, match x with
    | inl st' => exists W' stb', ext W W' /\ brun_defs m stb (cdefs ds) = Some (inl stb') /\
                   StoreRel W' (s_store st') (b_store stb') /\ GlobRel W' (s_glob st') (b_glob stb')
    | inr k => brun_defs m stb (cdefs ds) = Some (inr k)
    end.
Proof.
  intros n ds. induction ds as [|[y e] ds IH]; intros st x Hx W stb HS HG Hcl; simpl in Hx.
  - inversion Hx; subst. exists 0, W, stb. split; [apply ext_refl|]. auto.
  - simpl in Hcl. apply andb_true_iff in Hcl. destruct Hcl as [Hc1 Hc2]. apply andb_true_iff in Hc1. destruct Hc1 as [Hy He].
    assert (Hyb : is_box_name y = false) by (destruct (is_box_name y); auto; discriminate).
    destruct (seval n [] e st) as [[v st1|k]|] eqn:Hev; try discriminate.
    + destruct (conv_all n [] e st _ Hev W [] [] stb (E_nil W) (inv_nil e) He HS HG) as (m1 & W1 & bv & stb1 & X1 & B1 & V1 & S1 & G1).
      destruct (IH (mkS (s_store st1) ((y, v) :: s_glob st1)) x Hx W1 (mkB (b_store stb1) ((y, bv) :: b_glob stb1)) S1
                   (GlobRel_cons _ _ _ _ _ _ G1 V1 Hyb) Hc2) as (m2 & H2).
      exists (m1 + m2). destruct x as [st'|k].
      * destruct H2 as (W' & stb' & X2 & B2 & R2). exists W', stb'. split; [eapply ext_trans; eauto|]. split; auto.
        simpl. unfold assign_convert. rewrite (beval_mono _ (m1 + m2) _ _ _ _ B1) by lia.
        eapply brun_defs_mono; eauto. lia.
      * simpl. unfold assign_convert. rewrite (beval_mono _ (m1 + m2) _ _ _ _ B1) by lia.
        eapply brun_defs_mono; eauto. lia.
    + inversion Hx; subst x.
      destruct (conv_all n [] e st _ Hev W [] [] stb (E_nil W) (inv_nil e) He HS HG) as (m1 & B1). simpl in B1.
      exists m1. simpl. unfold assign_convert. rewrite B1. auto.
Qed.

Lemma V_canon : forall W v bv, V W v bv -> canon_sval v = canon_bval bv.
Proof.
  intros W. fix IH 3. intros v bv H. destruct H; simpl; auto.
  f_equal. f_equal. f_equal. induction H; simpl; auto. f_equal; auto.
Qed.

(* the reference semantics and the converted program agree on every clean program *)
Lemma assign_convert_program : forall n ds main sres,
  srun_program n ds main = Some sres -> clean_prog ds main = true ->
  exists m bres, brun_program m (cdefs ds) (assign_convert main) = Some bres /\
                 render_bresult (Some bres) = render_sresult (Some sres) /\
                 match sres, bres with
                 | SVal v _, BVal bv _ => exists W, V W v bv
                 | SErr k, BErr k' => k = k'
                 | _, _ => False
                 end.
Proof.
  intros n ds main sres H Hcl. unfold clean_prog in Hcl. apply andb_true_iff in Hcl. destruct Hcl as [Hcd Hcm].
  unfold srun_program in H.
  destruct (srun_defs n (mkS [] sprim_globals) ds) as [[st'|k]|] eqn:Hd; try discriminate.
  - destruct (conv_defs_sim n ds _ _ Hd [] (mkB [] bprim_globals) StoreRel_nil GlobRel_init Hcd) as (m1 & W1 & stb1 & X1 & B1 & S1 & G1).
    destruct (conv_all n [] main st' _ H W1 [] [] stb1 (E_nil W1) (inv_nil main) Hcm S1 G1) as (m2 & H2).
    destruct sres as [v st2|k]; simpl in H2.
    + destruct H2 as (W2 & bv & stb2 & X2 & B2 & V2 & _). exists (m1 + m2), (BVal bv stb2).
      split. { unfold brun_program. rewrite (brun_defs_mono _ _ (m1 + m2) _ _ B1) by lia.
               unfold assign_convert. eapply beval_mono; eauto. lia. }
      split; [simpl; rewrite (V_canon _ _ _ V2); auto|eauto].
    + exists (m1 + m2), (BErr k).
      split. { unfold brun_program. rewrite (brun_defs_mono _ _ (m1 + m2) _ _ B1) by lia.
               unfold assign_convert. eapply beval_mono; eauto. lia. }
      split; auto.
  - inversion H; subst sres.
    destruct (conv_defs_sim n ds _ _ Hd [] (mkB [] bprim_globals) StoreRel_nil GlobRel_init Hcd) as (m1 & B1).
    exists m1, (BErr k). split. { unfold brun_program. rewrite B1. auto. } split; auto.
Qed.

(* executable premise of C01_end_to_end_set for a Lang.v unit: "CLEAN" / "NOT-CLEAN" / "UNSUPPORTED" *)
Definition unit_clean (forms : list Lang.expr) : string :=
  match ssplit_unit forms with
  | Some (ds, ms) => if clean_prog ds (sseq_of ms) then "CLEAN"%string else "NOT-CLEAN"%string
  | None => "UNSUPPORTED"%string
  end.
