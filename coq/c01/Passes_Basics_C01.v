(* C01 (passes) — basic facts about the reference evaluator of Passes_Model_C01.v:
   unfolding equations, fuel monotonicity, and: evaluation depends on the environment only through the
   free variables of the expression (closures are canonical, so the results are EQUAL, not just related). *)
From Coq Require Import ZArith List Bool String Lia.
From SV Require Import c01.Passes_Model_C01.
Import ListNotations.
Open Scope string_scope.

Lemma eval_O s ρ e : eval 0 s ρ e = None. Proof. reflexivity. Qed.
Lemma eval_Num n s ρ z : eval (S n) s ρ (Num z) = Some (Val (VNum z), s). Proof. reflexivity. Qed.
Lemma eval_Bool n s ρ b : eval (S n) s ρ (Bool_ b) = Some (Val (VBool b), s). Proof. reflexivity. Qed.
Lemma eval_Quote n s ρ d : eval (S n) s ρ (Quote d) = Some (Val (val_of_datum d), s). Proof. reflexivity. Qed.
Lemma eval_Loc n s ρ x : eval (S n) s ρ (Loc x) =
  match lookup x ρ with Some v => Some (Val v, s) | None => Some (Err, s) end. Proof. reflexivity. Qed.
Lemma eval_Glob n s ρ g : eval (S n) s ρ (Glob g) =
  match lookup g (fst s) with Some v => Some (Val v, s) | None => Some (Err, s) end. Proof. reflexivity. Qed.
Lemma eval_Lam n s ρ ps r b : eval (S n) s ρ (Lam ps r b) =
  Some (Val (VClo ps r b (capture ρ (fv (Lam ps r b)))), s). Proof. reflexivity. Qed.
Lemma eval_Call n s ρ f args : eval (S n) s ρ (Call f args) =
  match evals (Nat.pred n) s ρ args with
  | None => None
  | Some (inl x, s1) => Some (x, s1)
  | Some (inr vs, s1) =>
    match eval n s1 ρ f with
    | None => None
    | Some (Val (VClo ps rest b ρc), s2) =>
        match bind_params ps rest vs ρc with
        | Some ρ' => eval n s2 ρ' b
        | None => Some (Err, s2)
        end
    | Some (Val _, s2) => Some (Err, s2)
    | Some (Err, s2) => Some (Err, s2)
    end
  end. Proof. reflexivity. Qed.
Lemma eval_If n s ρ c t e : eval (S n) s ρ (If c t e) =
  match eval n s ρ c with
  | None => None
  | Some (Val v, s1) => eval n s1 ρ (if truthy v then t else e)
  | Some (Err, s1) => Some (Err, s1)
  end. Proof. reflexivity. Qed.
Lemma eval_Let n s ρ xs rhs b : eval (S n) s ρ (Let xs rhs b) =
  match evals n s ρ rhs with
  | None => None
  | Some (inl x, s1) => Some (x, s1)
  | Some (inr vs, s1) =>
      match bind_fixed xs vs ρ with
      | Some ρ' => eval n s1 ρ' b
      | None => Some (Err, s1)
      end
  end. Proof. reflexivity. Qed.
Lemma eval_Begin n s ρ es : eval (S n) s ρ (Begin es) =
  match evals n s ρ es with
  | None => None
  | Some (inl x, s1) => Some (x, s1)
  | Some (inr vs, s1) => Some (Val (last_val vs), s1)
  end. Proof. reflexivity. Qed.
Lemma eval_Prim n s ρ op args : eval (S n) s ρ (Prim op args) =
  match evals n s ρ args with
  | None => None
  | Some (inl x, s1) => Some (x, s1)
  | Some (inr vs, s1) => Some (apply_prim op vs s1)
  end. Proof. reflexivity. Qed.
Lemma eval_SetG n s ρ g e : eval (S n) s ρ (SetG g e) =
  match eval n s ρ e with
  | None => None
  | Some (Val v, s1) =>
      match lookup g (fst s1) with
      | Some _ => Some (Val VVoid, (update g v (fst s1), snd s1))
      | None => Some (Err, s1)
      end
  | Some (Err, s1) => Some (Err, s1)
  end. Proof. reflexivity. Qed.
Lemma evals_Nil n s ρ : evals n s ρ ENil = Some (inr [], s). Proof. reflexivity. Qed.
Lemma evals_Cons n s ρ a r : evals n s ρ (ECons a r) =
  match eval n s ρ a with
  | None => None
  | Some (Val v, s1) =>
      match evals n s1 ρ r with
      | None => None
      | Some (inr vs, s2) => Some (inr (v :: vs), s2)
      | Some (inl x, s2) => Some (inl x, s2)
      end
  | Some (Err, s1) => Some (inl Err, s1)
  end.
Proof. unfold evals. cbn [evals_with]. destruct (eval n s ρ a) as [[[v|] s1]|]; reflexivity. Qed.

#[global] Hint Rewrite eval_Num eval_Bool eval_Quote eval_Loc eval_Glob eval_Lam eval_Call eval_If eval_Let
  eval_Begin eval_Prim eval_SetG evals_Nil evals_Cons : pevaldb.
#[global] Opaque eval evals.

(* ------------------------------------------------------------------ fuel monotonicity *)
Lemma evals_mono_from n m :
  (forall s ρ e r, eval n s ρ e = Some r -> eval m s ρ e = Some r) ->
  forall l s ρ r, evals n s ρ l = Some r -> evals m s ρ l = Some r.
Proof.
  intros H l. induction l as [|a l IH]; intros s ρ r E.
  - rewrite evals_Nil in *. exact E.
  - rewrite evals_Cons in *.
    destruct (eval n s ρ a) as [[[v|] s1]|] eqn:Ea; try discriminate; rewrite (H _ _ _ _ Ea).
    + destruct (evals n s1 ρ l) as [[[x|vs] s2]|] eqn:El; try discriminate; rewrite (IH _ _ _ El); exact E.
    + exact E.
Qed.

Lemma eval_mono : forall n m s ρ e r, n <= m -> eval n s ρ e = Some r -> eval m s ρ e = Some r.
Proof.
  induction n as [n IH] using lt_wf_ind. intros m s ρ e r Hle E.
  destruct n as [|n]; [rewrite eval_O in E; discriminate|].
  destruct m as [|m]; [lia|].
  assert (Hm : forall s ρ e r, eval n s ρ e = Some r -> eval m s ρ e = Some r)
    by (intros; eapply (IH n); [lia| |eassumption]; lia).
  assert (Hms : forall l s ρ r, evals n s ρ l = Some r -> evals m s ρ l = Some r)
    by (apply evals_mono_from; exact Hm).
  destruct e; autorewrite with pevaldb in *; try exact E.
  - (* Call *)
    assert (Hp : forall l s ρ r, evals (Nat.pred n) s ρ l = Some r -> evals (Nat.pred m) s ρ l = Some r).
    { apply evals_mono_from. intros. eapply (IH (Nat.pred n)); [lia| |eassumption]. lia. }
    destruct (evals (Nat.pred n) s ρ args) as [[[x|vs] s1]|] eqn:Ea; try discriminate; rewrite (Hp _ _ _ _ Ea); [exact E|].
    destruct (eval n s1 ρ e) as [[[v|] s2]|] eqn:Ef; try discriminate; rewrite (Hm _ _ _ _ Ef); [|exact E].
    destruct v; try exact E.
    destruct (bind_params ps rest vs ρ0); [|exact E]. apply Hm; exact E.
  - (* If *)
    destruct (eval n s ρ e1) as [[[v|] s1]|] eqn:Ec; try discriminate; rewrite (Hm _ _ _ _ Ec); [|exact E].
    apply Hm; exact E.
  - (* Let *)
    destruct (evals n s ρ rhs) as [[[x|vs] s1]|] eqn:Ea; try discriminate; rewrite (Hms _ _ _ _ Ea); [exact E|].
    destruct (bind_fixed xs vs ρ); [|exact E]. apply Hm; exact E.
  - destruct (evals n s ρ es) as [[[x|vs] s1]|] eqn:Ea; try discriminate; rewrite (Hms _ _ _ _ Ea); exact E.
  - destruct (evals n s ρ args) as [[[x|vs] s1]|] eqn:Ea; try discriminate; rewrite (Hms _ _ _ _ Ea); exact E.
  - destruct (eval n s ρ e) as [[[v|] s1]|] eqn:Ec; try discriminate; rewrite (Hm _ _ _ _ Ec); exact E.
Qed.

Lemma evals_mono n m l s ρ r : n <= m -> evals n s ρ l = Some r -> evals m s ρ l = Some r.
Proof. intros Hle. apply evals_mono_from. intros. eapply eval_mono; eassumption. Qed.

(* ------------------------------------------------------------------ environments: only the free variables matter *)
Lemma mem_In x l : mem x l = true <-> In x l.
Proof.
  unfold mem. rewrite existsb_exists. split.
  - intros (y & Hy & E). apply String.eqb_eq in E. subst. exact Hy.
  - intros H. exists x. split; [exact H|apply String.eqb_refl].
Qed.

Lemma mem_false x l : mem x l = false <-> ~ In x l.
Proof. rewrite <- mem_In. destruct (mem x l); split; congruence. Qed.

Lemma lookup_capture ρ xs x : lookup x (capture ρ xs) = if mem x xs then lookup x ρ else None.
Proof.
  induction xs as [|y xs IH]; [reflexivity|].
  cbn [capture]. unfold mem in *. cbn [existsb].
  destruct (String.eqb x y) eqn:E.
  - apply String.eqb_eq in E. subst y. cbn [orb].
    destruct (lookup x ρ) eqn:L.
    + cbn [lookup]. rewrite String.eqb_refl. reflexivity.
    + rewrite IH. destruct (existsb (String.eqb x) xs); reflexivity.
  - cbn [orb]. destruct (lookup y ρ).
    + cbn [lookup]. rewrite E. exact IH.
    + exact IH.
Qed.

Lemma capture_ext ρ1 ρ2 xs :
  (forall x, In x xs -> lookup x ρ1 = lookup x ρ2) -> capture ρ1 xs = capture ρ2 xs.
Proof.
  induction xs as [|y xs IH]; intros H; [reflexivity|].
  cbn [capture]. rewrite <- (H y) by (left; reflexivity).
  rewrite IH by (intros; apply H; right; assumption). reflexivity.
Qed.

Definition agree (xs : list string) (ρ1 ρ2 : venv) : Prop :=
  forall x, In x xs -> lookup x ρ1 = lookup x ρ2.

Lemma agree_app_l a b ρ1 ρ2 : agree (a ++ b) ρ1 ρ2 -> agree a ρ1 ρ2.
Proof. intros H x Hx. apply H. apply in_or_app. left; exact Hx. Qed.
Lemma agree_app_r a b ρ1 ρ2 : agree (a ++ b) ρ1 ρ2 -> agree b ρ1 ρ2.
Proof. intros H x Hx. apply H. apply in_or_app. right; exact Hx. Qed.

Lemma lookup_bind_fixed_notin : forall xs vs ρ ρ' x,
  bind_fixed xs vs ρ = Some ρ' -> ~ In x xs -> lookup x ρ' = lookup x ρ.
Proof.
  induction xs as [|y xs IH]; intros [|v vs] ρ ρ' x B Hn; cbn [bind_fixed] in B; try discriminate.
  - inversion B; reflexivity.
  - rewrite (IH _ _ _ _ B) by (intros H; apply Hn; right; exact H).
    cbn [lookup]. destruct (String.eqb x y) eqn:E; [|reflexivity].
    apply String.eqb_eq in E. subst. exfalso. apply Hn. left; reflexivity.
Qed.

(* binding the same names to the same values over environments that agree outside these names *)
Lemma bind_fixed_agree : forall xs vs ρ1 ρ2 ρ1' (keep : list string),
  bind_fixed xs vs ρ1 = Some ρ1' ->
  (forall x, In x keep -> ~ In x xs -> lookup x ρ1 = lookup x ρ2) ->
  exists ρ2', bind_fixed xs vs ρ2 = Some ρ2' /\ agree keep ρ1' ρ2'.
Proof.
  induction xs as [|y xs IH]; intros [|v vs] ρ1 ρ2 ρ1' keep B H; cbn [bind_fixed] in *; try discriminate.
  - inversion B; subst. exists ρ2. split; [reflexivity|]. intros x Hx. apply H; [exact Hx|intros []].
  - destruct (IH vs (EBind y v ρ1) (EBind y v ρ2) ρ1' keep B) as (ρ2' & B2 & A).
    + intros x Hx Hn. cbn [lookup]. destruct (String.eqb x y) eqn:E; [reflexivity|].
      apply H; [exact Hx|]. intros [->|Hi]; [rewrite String.eqb_refl in E; discriminate|exact (Hn Hi)].
    + exists ρ2'. split; assumption.
Qed.

Lemma bind_fixed_length : forall xs vs ρ ρ', bind_fixed xs vs ρ = Some ρ' -> List.length xs = List.length vs.
Proof.
  induction xs as [|y xs IH]; intros [|v vs] ρ ρ' B; cbn [bind_fixed] in B; try discriminate; [reflexivity|].
  cbn [List.length]. f_equal. eapply IH; eassumption.
Qed.

Lemma bind_fixed_total : forall xs vs ρ, List.length xs = List.length vs -> exists ρ', bind_fixed xs vs ρ = Some ρ'.
Proof.
  induction xs as [|y xs IH]; intros [|v vs] ρ L; cbn [List.length] in L; try discriminate; cbn [bind_fixed].
  - eexists; reflexivity.
  - apply IH. lia.
Qed.

Lemma evals_ext_from n :
  (forall s ρ1 ρ2 e, agree (fv e) ρ1 ρ2 -> eval n s ρ1 e = eval n s ρ2 e) ->
  forall l s ρ1 ρ2, agree (fvs l) ρ1 ρ2 -> evals n s ρ1 l = evals n s ρ2 l.
Proof.
  intros H l. induction l as [|a l IH]; intros s ρ1 ρ2 A.
  - rewrite !evals_Nil. reflexivity.
  - rewrite !evals_Cons. cbn [fvs] in A.
    rewrite (H s ρ1 ρ2 a) by (eapply agree_app_l; exact A).
    destruct (eval n s ρ2 a) as [[[v|] s1]|]; try reflexivity.
    rewrite (IH s1 ρ1 ρ2) by (eapply agree_app_r; exact A). reflexivity.
Qed.

Lemma agree_filter (ps : list string) l ρ1 ρ2 :
  agree (filter (fun y => negb (mem y ps)) l) ρ1 ρ2 ->
  forall x, In x l -> ~ In x ps -> lookup x ρ1 = lookup x ρ2.
Proof.
  intros A x Hx Hn. apply A. apply filter_In. split; [exact Hx|].
  apply mem_false in Hn. rewrite Hn. reflexivity.
Qed.

Lemma rev_split_last (ps : list string) r l :
  rev ps = r :: l -> ps = (firstn (Nat.pred (List.length ps)) ps ++ [r])%list.
Proof.
  intros Er. assert (E : ps = (rev l ++ [r])%list) by (rewrite <- (rev_involutive ps), Er; reflexivity).
  rewrite E at 2 3. rewrite app_length. cbn [List.length].
  replace (Nat.pred (List.length (rev l) + 1)) with (List.length (rev l) + 0) by lia.
  rewrite firstn_app_2. cbn [firstn]. rewrite app_nil_r. exact E.
Qed.

Lemma bind_params_agree ps rest vs ρ1 ρ2 ρ1' keep :
  bind_params ps rest vs ρ1 = Some ρ1' ->
  (forall x, In x keep -> ~ In x ps -> lookup x ρ1 = lookup x ρ2) ->
  exists ρ2', bind_params ps rest vs ρ2 = Some ρ2' /\ agree keep ρ1' ρ2'.
Proof.
  unfold bind_params. destruct rest; [|apply bind_fixed_agree].
  destruct (rev ps) as [|r l] eqn:Er; [discriminate|].
  destruct (Nat.ltb (List.length vs) (Nat.pred (List.length ps))); [discriminate|].
  destruct (bind_fixed (firstn (Nat.pred (List.length ps)) ps) (firstn (Nat.pred (List.length ps)) vs) ρ1) as [ρa|] eqn:B; [|discriminate].
  intros E H. inversion E; subst ρ1'; clear E.
  assert (Hr : In r ps) by (apply in_rev; rewrite Er; left; reflexivity).
  destruct (bind_fixed_agree _ _ ρ1 ρ2 ρa (filter (fun y => negb (String.eqb y r)) keep) B) as (ρb & B2 & A).
  { intros x Hx Hn. apply filter_In in Hx. destruct Hx as [Hx Hne].
    destruct (in_dec string_dec x ps) as [Hi|Hi]; [|apply H; assumption].
    (* x is a parameter that is not among the first k: it is the rest parameter *)
    exfalso. apply Hn.
    pose proof (rev_split_last _ _ _ Er) as Hps.
    rewrite Hps in Hi. apply in_app_or in Hi. destruct Hi as [Hi|[Hi|[]]]; [exact Hi|].
    subst x. rewrite String.eqb_refl in Hne. discriminate. }
  rewrite B2. eexists. split; [reflexivity|].
  intros x Hx. cbn [lookup]. destruct (String.eqb x r) eqn:E; [reflexivity|].
  apply A. apply filter_In. split; [exact Hx|]. rewrite E. reflexivity.
Qed.

Lemma eval_env_ext : forall n s ρ1 ρ2 e, agree (fv e) ρ1 ρ2 -> eval n s ρ1 e = eval n s ρ2 e.
Proof.
  induction n as [n IH] using lt_wf_ind. intros s ρ1 ρ2 e A.
  destruct n as [|n]; [rewrite !eval_O; reflexivity|].
  assert (IHn : forall s ρ1 ρ2 e, agree (fv e) ρ1 ρ2 -> eval n s ρ1 e = eval n s ρ2 e)
    by (intros; apply IH; [lia|assumption]).
  assert (IHs : forall l s ρ1 ρ2, agree (fvs l) ρ1 ρ2 -> evals n s ρ1 l = evals n s ρ2 l)
    by (apply evals_ext_from; exact IHn).
  destruct e; autorewrite with pevaldb; cbn [fv] in A; try reflexivity.
  - rewrite (A x) by (left; reflexivity). reflexivity.
  - erewrite capture_ext; [reflexivity|]. exact A.
  - (* Call *)
    assert (IHp : forall l s ρ1 ρ2, agree (fvs l) ρ1 ρ2 -> evals (Nat.pred n) s ρ1 l = evals (Nat.pred n) s ρ2 l).
    { apply evals_ext_from. intros. apply IH; [lia|assumption]. }
    rewrite (IHp args s ρ1 ρ2) by (eapply agree_app_l; exact A).
    destruct (evals (Nat.pred n) s ρ2 args) as [[[x|vs] s1]|]; try reflexivity.
    rewrite (IHn s1 ρ1 ρ2 e) by (eapply agree_app_r; exact A). reflexivity.
  - (* If *)
    rewrite (IHn s ρ1 ρ2 e1) by (eapply agree_app_l; exact A).
    destruct (eval n s ρ2 e1) as [[[v|] s1]|]; try reflexivity.
    apply IHn. destruct (truthy v).
    + eapply agree_app_l, agree_app_r; exact A.
    + eapply agree_app_r, agree_app_r; exact A.
  - (* Let *)
    rewrite (IHs rhs s ρ1 ρ2) by (eapply agree_app_l; exact A).
    destruct (evals n s ρ2 rhs) as [[[x|vs] s1]|]; try reflexivity.
    destruct (bind_fixed xs vs ρ1) as [ρ1'|] eqn:B1.
    + destruct (bind_fixed_agree xs vs ρ1 ρ2 ρ1' (fv e) B1) as (ρ2' & B2 & A2).
      { intros x Hx Hn. eapply agree_filter; [eapply agree_app_r; exact A|exact Hx|exact Hn]. }
      rewrite B2. apply IHn. exact A2.
    + destruct (bind_fixed xs vs ρ2) as [ρ2'|] eqn:B2; [|reflexivity].
      exfalso. destruct (bind_fixed_total xs vs ρ1 (bind_fixed_length _ _ _ _ B2)) as (? & B). congruence.
  - rewrite (IHs es s ρ1 ρ2) by exact A. reflexivity.
  - rewrite (IHs args s ρ1 ρ2) by exact A. reflexivity.
  - rewrite (IHn s ρ1 ρ2 e) by exact A. reflexivity.
Qed.

Lemma evals_env_ext n l s ρ1 ρ2 : agree (fvs l) ρ1 ρ2 -> evals n s ρ1 l = evals n s ρ2 l.
Proof. apply evals_ext_from. intros. apply eval_env_ext. assumption. Qed.
