(* C01 — facts about the reference semantics (coq/lib/Lang.v) that the statement of C01 singles out:
   a variable evaluates to the value most recently bound or assigned; code that is not executed
   contributes nothing; a call binds exactly the evaluated operands; the oracle's answer does not
   depend on the fuel once it terminates.  (The simulation theorems for the model compiler/VM are in
   Properties_C01.v.) *)
From Coq Require Import ZArith List Bool String Ascii Lia.
From SV Require Import lib.Lang.
Import ListNotations.

Lemma sget_sput_same l v s : sget l (sput l v s) = Some v.
Proof. unfold sput. cbn [sget]. now rewrite Nat.eqb_refl. Qed.

Lemma sget_sput_other l m v s : l <> m -> sget l (sput m v s) = sget l s.
Proof. intros H. unfold sput. cbn [sget]. apply Nat.eqb_neq in H. now rewrite H. Qed.

(* ---- a variable evaluates to the value most recently bound or assigned ---- *)
Lemma step_var st x ρ l v :
  ctl st = CEval (Var x) ρ -> lookup x ρ = Some l -> sget l (store st) = Some v ->
  step st = inl (set_ctl st (CRet v)).
Proof.
  intros Hc Hl Hs. unfold step. rewrite Hc. unfold var_loc. rewrite Hl, Hs. reflexivity.
Qed.

Lemma step_set st v l k :
  ctl st = CRet v -> kont st = FSet l :: k ->
  exists st', step st = inl st' /\ sget l (store st') = Some v /\
              (forall m, m <> l -> sget m (store st') = sget m (store st)) /\
              out st' = out st /\ kont st' = k.
Proof.
  intros Hc Hk. unfold step. rewrite Hc, Hk.
  destruct (sget l (store (set_ck st (CRet v) k))) eqn:E; eexists; (split; [reflexivity|]);
    cbn; rewrite Nat.eqb_refl; repeat split; auto;
    intros m Hm; apply Nat.eqb_neq in Hm; rewrite Hm; reflexivity.
Qed.

(* assignment followed by a read of the same variable yields the assigned value *)
Theorem var_latest st v l k x ρ :
  ctl st = CRet v -> kont st = FSet l :: k -> lookup x ρ = Some l ->
  exists st', step st = inl st' /\
    forall st'', ctl st'' = CEval (Var x) ρ -> store st'' = store st' ->
      step st'' = inl (set_ctl st'' (CRet v)).
Proof.
  intros Hc Hk Hl. destruct (step_set st v l k Hc Hk) as [st' [Hs [Hg _]]].
  exists st'. split; auto. intros st'' Hc'' Hst. eapply step_var; eauto. now rewrite Hst.
Qed.

(* ---- code that is never executed never raises / has no effect ---- *)
Theorem dead_branch_silent st v t e ρ k :
  ctl st = CRet v -> kont st = FIf t e ρ :: k ->
  step st = inl (set_ctl (set_ck st (CRet v) k) (CEval (if truthy v then t else e) ρ)).
Proof. intros Hc Hk. unfold step. rewrite Hc, Hk. reflexivity. Qed.

Theorem uncalled_lambda_silent st ps rest body ρ :
  ctl st = CEval (Lam ps rest body) ρ ->
  exists c, step st = inl (set_ctl st (CRet c)) /\
            (forall st', step st = inl st' -> store st' = store st /\ out st' = out st /\ kont st' = kont st).
Proof.
  intros Hc. unfold step. rewrite Hc. eexists. split; [reflexivity|].
  intros st' H. inversion H; subst. cbn. auto.
Qed.

(* ---- every call receives exactly the arguments written at the call site ---- *)
Lemma alloc_many_spec : forall ps args st ρ ρ' st',
  List.length ps = List.length args -> NoDup ps ->
  alloc_many st ps args ρ = (ρ', st') ->
  Forall2 (fun p a => exists l, lookup p ρ' = Some l /\ sget l (store st') = Some a) ps args /\
  (forall y, ~ In y ps -> lookup y ρ' = lookup y ρ) /\
  (forall m, m < next st -> sget m (store st') = sget m (store st)) /\
  next st <= next st' /\ out st' = out st /\ kont st' = kont st.
Proof.
  induction ps as [|p ps IH]; intros args st ρ ρ' st' Hlen Hnd H; destruct args as [|a args];
    try discriminate; cbn [alloc_many] in H.
  - inversion H; subst. repeat split; auto; constructor.
  - inversion Hnd as [|? ? Hnin Hnd']; subst.
    unfold alloc in H. cbn in H.
    set (st1 := mkState (ctl st) (kont st) (sput (next st) a (store st)) (S (next st)) (genv st) (out st) (winds st)) in *.
    destruct (IH args st1 ((p, next st) :: ρ) ρ' st') as [HF [Hl [Hs [Hn [Ho Hk]]]]]; auto.
    repeat split.
    + constructor; auto.
      exists (next st). split.
      * rewrite Hl by auto. cbn [lookup]. now rewrite String.eqb_refl.
      * rewrite Hs by (cbn; lia). cbn. now rewrite Nat.eqb_refl.
    + intros y Hy. rewrite Hl by (intros X; apply Hy; now right).
      cbn [lookup]. destruct (String.eqb y p) eqn:E; auto.
      apply String.eqb_eq in E. subst. exfalso. apply Hy. now left.
    + intros m Hm. rewrite Hs by (cbn; lia). cbn.
      assert (m <> next st) by lia. apply Nat.eqb_neq in H0. now rewrite H0.
    + cbn in Hn. lia.
    + rewrite Ho. reflexivity.
    + rewrite Hk. reflexivity.
Qed.

Theorem call_args_exact st ps body ρ args :
  List.length ps = List.length args -> NoDup ps ->
  exists ρ' st',
    alloc_many st ps args ρ = (ρ', st') /\
    apply_proc st (VClo ps None body ρ) args = enter_body st' body ρ' /\
    Forall2 (fun p a => exists l, lookup p ρ' = Some l /\ sget l (store st') = Some a) ps args.
Proof.
  intros Hlen Hnd. destruct (alloc_many st ps args ρ) as [ρ' st'] eqn:E.
  exists ρ', st'. split; auto. split.
  - unfold apply_proc. rewrite <- Hlen, Nat.eqb_refl. rewrite E. reflexivity.
  - eapply alloc_many_spec; eauto.
Qed.

Theorem call_arity_checked st ps body ρ args :
  List.length ps <> List.length args ->
  exists e, apply_proc st (VClo ps None body ρ) args = raise st e.
Proof.
  intros H. unfold apply_proc. apply not_eq_sym in H. apply Nat.eqb_neq in H. rewrite H. eauto.
Qed.

(* ---- the answer does not depend on the fuel ---- *)
Theorem run_fuel_monotone : forall n st o, run n st = o -> o <> OutOfFuel -> forall m, run (n + m) st = o.
Proof.
  induction n as [|n IH]; intros st o H Ho m; cbn [run] in *.
  - congruence.
  - cbn [plus run]. destruct (step st) as [st'|o'] eqn:E; auto.
Qed.
