(* C01 — property theorems (proof part).  Each is closed by [exact lemma]; statements are pinned in
   Pins_C01.v.  The simulation is between the big-step evaluator lib/Core.ceval and the compiler + VM of
   lib/Bytecode.v; definitions of the relations (vrel, R1, R2, Grel, frame_caps, code_at, returns_from,
   outcome, tail_ok) are in Proofs_C01.v.

   Layers: L0  (constants, variables, globals, lambda with fixed arity and flat closures, application,
                if, let, begin, integer/boolean primitives; calls compiled to FUNC)          PROVED
           tail (same fragment, calls in tail position compiled to TAILCALL, frame reuse)      PROVED
           rest (lambda with a rest parameter: arity check n >= |ps|, surplus operands collected into a list
                 bound to one more slot; covered by L0 and tail — they quantify over all expressions —
                 and singled out in C01_simulation_rest)                                        PROVED
           set  (assignment: after assignment conversion — every assigned local is rebound to a box, reads and
                 writes go through the primitives #%box / #%unbox / #%set-box! on a heap, set! on a global is
                 SET — the evaluator CoreS.beval (box store + mutable globals threaded) is simulated by the
                 VM with a heap of lib/BytecodeS.v: C01_simulation_set, C01_program_simulation_set)   PROVED
                 The boxing pass itself is proved too: C01_assign_convert_correct (CoreS.seval, every variable a
                 store location, agrees with beval o assign_convert through a world that maps the locations of
                 assigned locals to box addresses and the locations of never-assigned locals to their immutable
                 value), C01_assign_convert_program, and the composition C01_end_to_end_set
                 (reference semantics = compiled code on the heap VM, for every clean unit of the fragment).
                 NOT proved: (i) the same for assign_convertL / leval (SETLOCAL variant);
                 (ii) hence no end-to-end statement for the SETLOCAL variant (its compile/VM simulation is proved
                 for expressions and for whole programs: C01_simulation_setlocal, C01_program_simulation_setlocal).
           setlocal (refinement of set: an assigned local that no lambda of its scope captures stays in its
                 stack slot, [LSetL] = SETLOCAL overwrites the slot and yields the old value; the source
                 evaluator CoreL.leval threads the environment; premise [L.wf]: LSetL targets a slot of the
                 current frame and let binders do not shadow visible locals, as after the engine's renaming
                 pass; the frame's temporaries are untouched): C01_simulation_setlocal          PROVED
   Not covered by any theorem: MOVEREADLOCAL (last-usage moves), whole-program equivalence of the CALLGLOBAL
   peephole (only the step-level fusion lemmas C01_callglobal_fusion / _tail_fusion), the
   source-to-source passes in front of code generation; these are tied by the differential check only. *)
From Coq Require Import String.
From Coq Require Import ZArith List Bool Lia Arith.
From SV Require Import lib.Core lib.CoreS lib.Bytecode lib.BytecodeS c01.Proofs_C01.
From SV Require c01.Proofs_C01_set c01.Proofs_C01_setl c01.Proofs_C01_conv.
From SV Require Import lib.CoreL lib.BytecodeL.
Import ListNotations.
Open Scope list_scope.

(* Compiled code pushes exactly its value: for every expression e, every fuel n, every environment r and
   every VM state related to r (locals in the frame's slots / the closure's captures, globals related),
   if ceval yields a value then the VM, started at the code of e, reaches the end of that code with the
   related value pushed and everything below unchanged; if ceval yields an error the VM raises the same
   error.  [length fs + n <= limit]: the evaluation depth stays below the frame limit. *)
Theorem C01_simulation_L0 :
  forall limit MG G, Grel false G MG ->
  forall n r e res, ceval G n r e = Some res ->
  forall ce C pc below slots caps fs,
    code_at C pc (compile false ce (length slots) false e) ->
    length below = cur_sp fs -> frame_caps fs caps ->
    R1 false r ce slots caps -> R2 e r ce -> length fs + n <= limit ->
    match res with
    | Val v => exists mv, vrel false v mv /\
        star limit (mkVM C pc (below ++ slots) fs MG)
             (mkVM C (pc + length (compile false ce (length slots) false e)) (below ++ slots ++ [mv]) fs MG)
    | Err k => exists s', star limit (mkVM C pc (below ++ slots) fs MG) s' /\ vm_step limit s' = SErr k
    end.
Proof.
  intros limit MG G HG n r e res Hev ce C pc below slots caps fs Hc Hb Hf H1 H2 Hl.
  pose proof (sim_all limit false MG G HG n r e res Hev ce false C pc below slots caps fs Hc Hb Hf H1 H2 Hl) as H.
  apply H. intros Hx; discriminate.
Qed.

(* With tail calls: the same statement for code compiled with TAILCALL in tail positions.  In tail
   position ([tail = true], which requires the code after e to be a return sequence: [tail_ok]) the VM
   reaches the state in which the current frame has returned the related value to its caller
   ([outcome true]); otherwise the value is pushed as in L0 ([outcome false]). *)
Theorem C01_simulation_tail :
  forall limit MG G, Grel true G MG ->
  forall n r e res, ceval G n r e = Some res ->
  forall ce tail C pc below slots caps fs,
    code_at C pc (compile true ce (length slots) tail e) ->
    length below = cur_sp fs -> frame_caps fs caps ->
    R1 true r ce slots caps -> R2 e r ce -> length fs + n <= limit ->
    tail_ok tail C (pc + length (compile true ce (length slots) tail e)) (length slots) fs ->
    match res with
    | Val v => exists mv, vrel true v mv /\
        outcome limit MG tail (mkVM C pc (below ++ slots) fs MG) C
                (pc + length (compile true ce (length slots) tail e)) below slots fs mv
    | Err k => exists s', star limit (mkVM C pc (below ++ slots) fs MG) s' /\ vm_step limit s' = SErr k
    end.
Proof. intros limit MG G HG. exact (sim_all limit true MG G HG). Qed.

(* Whole programs (global definitions, then a main expression), from the initial states: the VM run
   ends with the related value / the same error.  Holds for both compilation modes. *)
Theorem C01_program_simulation :
  forall limit tco n ds main res,
  run_program n ds main = Some res -> n <= limit ->
  match res with
  | Val v => exists k mv s', vrel tco v mv /\ vm_program limit tco false k ds main = RDone mv s'
  | Err ek => exists k, vm_program limit tco false k ds main = RErr ek
  end.
Proof. exact sim_program. Qed.

(* ... and therefore prints the same canonical string *)
Theorem C01_program_render :
  forall limit tco n ds main res,
  run_program n ds main = Some res -> n <= limit ->
  exists k, render_run (vm_program limit tco false k ds main) = render_result (Some res).
Proof.
  intros limit tco n ds main res H Hn.
  pose proof (sim_program limit tco n ds main res H Hn) as Hs. destruct res as [v|ek].
  - destruct Hs as (k & mv & s' & Hrel & Hrun). exists k. rewrite Hrun. simpl.
    rewrite (vrel_canon _ _ _ Hrel). auto.
  - destruct Hs as (k & Hrun). exists k. rewrite Hrun. auto.
Qed.

(* a variable evaluates to the innermost binding *)
Theorem C01_var_latest :
  (forall G n r x v, ceval G (S n) ((x, v) :: r) (EVar x) = Some (Val v)) /\
  (forall G n r x e1 v, ceval G n r e1 = Some (Val v) ->
     ceval G (S n) r (ELet [(x, e1)] (EVar x)) = Some (Val v)).
Proof. split; [exact var_latest|exact var_latest_let]. Qed.

(* the unevaluated branch of if and an uncalled lambda body contribute nothing *)
Theorem C01_dead_code_silent : forall G n r c t e1 e2 v,
  ceval G n r c = Some (Val v) ->
  (truthy v = true -> ceval G (S n) r (EIf c t e1) = ceval G (S n) r (EIf c t e2)) /\
  (truthy v = false -> ceval G (S n) r (EIf c e1 t) = ceval G (S n) r (EIf c e2 t)) /\
  (forall ps rest body, ceval G (S n) r (ELam ps rest body) = Some (Val (VClo ps rest body r))).
Proof. exact dead_code_silent. Qed.

(* the callee's parameters are bound to exactly the evaluated operands (a rest parameter to the list of
   the surplus ones) *)
Theorem C01_call_args_exact : forall G n r f args ps rest body r' vs,
  evals (ceval G n r) args = Some (inl vs) ->
  ceval G n r f = Some (Val (VClo ps rest body r')) ->
  ceval G (S n) r (EApp f args) =
    match call_args ps rest vs with
    | Some (xs, ws) => ceval G n (bind xs ws r') body
    | None => Some (Err EArity)
    end /\
  (rest = None -> length ps = length vs -> call_args ps rest vs = Some (ps, vs)) /\
  (rest = None -> length ps <> length vs -> call_args ps rest vs = None) /\
  (forall r0, rest = Some r0 -> length ps <= length vs ->
     call_args ps rest vs = Some (ps ++ [r0], firstn (length ps) vs ++ [VList (skipn (length ps) vs)])) /\
  (forall xs ws, call_args ps rest vs = Some (xs, ws) -> NoDup xs ->
     forall i x v, nth_error xs i = Some x -> nth_error ws i = Some v -> Core.lookup x (bind xs ws r') = Some v) /\
  length vs = length args.
Proof. exact call_args_exact. Qed.

(* Rest parameters: a call (FUNC) of a variadic closure related to (lambda (ps . r) body) with at least |ps|
   related operands enters the body with the frame slots = the first |ps| operands followed by the LIST of
   the remaining ones, related to the source binding of ps ++ [r]; fewer operands is the arity error on
   both sides (C01_simulation_L0 / _tail cover whole evaluations through such calls, tail calls included). *)
Theorem C01_simulation_rest : forall limit tco MG ps r body r' clo vs mvs xs ws C pcC st0 fs,
  vrel tco (VClo ps (Some r) body r') clo ->
  call_args ps (Some r) vs = Some (xs, ws) -> Forall2 (vrel tco) vs mvs ->
  nth_error C pcC = Some (FUNC (length mvs)) -> S (length fs) < limit ->
  exists mws code caps fvs,
    clo = MClo (length ps + 1) true code caps /\
    xs = ps ++ [r] /\ ws = firstn (length ps) vs ++ [VList (skipn (length ps) vs)] /\
    mws = firstn (length ps) mvs ++ [MList (skipn (length ps) mvs)] /\
    vm_step limit (mkVM C pcC ((st0 ++ mvs) ++ [clo]) fs MG) =
      SNext (mkVM code 0 (st0 ++ mws) (mkFrame (length st0) clo (S pcC) C :: fs) MG) /\
    Forall2 (vrel tco) ws mws /\
    R1 tco (bind xs ws r') (body_cenv xs fvs) mws caps.
Proof. exact rest_entry. Qed.

(* The CALLGLOBAL super-instruction (program.rs: PUSH g ; FUNC n => CALLGLOBAL g ; FUNC n): one step of the
   fused form does what the two steps of the pair do — same error, or the same next state up to the
   instruction array it continues in / returns to.  For the tail pair with a closure callee the two forms
   reach the same state (the frame is reused, no return address is recorded). *)
Theorem C01_callglobal_fusion : forall limit C C' pc g n st fs MG,
  nth_error C pc = Some (PUSH g) -> nth_error C (S pc) = Some (FUNC n) ->
  nth_error C' pc = Some (CALLGLOBAL g) -> nth_error C' (S pc) = Some (FUNC n) ->
  match vm_step limit (mkVM C pc st fs MG) with
  | SErr k => vm_step limit (mkVM C' pc st fs MG) = SErr k
  | SNext s1 =>
      match vm_step limit s1, vm_step limit (mkVM C' pc st fs MG) with
      | SErr k, r => r = SErr k
      | SStuck, r => r = SStuck
      | SNext a, SNext b =>
          (code a = C /\ b = with_code C' a) \/
          (exists fr, frames a = fr :: fs /\ f_ret_code fr = C /\
                      b = mkVM (code a) (ip a) (stack a) (mkFrame (f_sp fr) (f_fn fr) (f_ret_ip fr) C' :: fs) (globals a))
      | _, _ => False
      end
  | _ => False
  end.
Proof. exact callglobal_fusion. Qed.

Theorem C01_callglobaltail_fusion : forall limit C C' pc g n st fs MG arity rest body caps,
  nth_error C pc = Some (PUSH g) -> nth_error C (S pc) = Some (TAILCALL n) ->
  nth_error C' pc = Some (CALLGLOBALTAIL g) -> nth_error C' (S pc) = Some (TAILCALL n) ->
  Core.lookup g MG = Some (MClo arity rest body caps) ->
  exists s1, vm_step limit (mkVM C pc st fs MG) = SNext s1 /\
             vm_step limit s1 = vm_step limit (mkVM C' pc st fs MG).
Proof. exact callglobaltail_fusion. Qed.

(* ------------------------------------------------------------------ the assignment layer
   Names: S.* is the VM with a heap (lib/BytecodeS.v); vrel/R1/R2/Grel/Proofs_C01_set.Srel/outcome/tail_ok of
   Proofs_C01_set.v are qualified with [Proofs_C01_set.] where they clash with the L0 relations. *)

(* Compiled code of the converted language: as C01_simulation_tail, with the box store / heap ([Proofs_C01_set.Srel]:
   pointwise related, a source box and its VM box have the same address) and the globals ([Grel]) threaded:
   the final store / heap and globals are again related. *)
Theorem C01_simulation_set :
  forall limit tco n r e st res, beval n r e st = Some res ->
  forall ce tail C pc below slots caps fs MG H,
    code_at C pc (S.compile tco ce (length slots) tail e) ->
    length below = S.cur_sp fs -> Proofs_C01_set.frame_caps fs caps ->
    Proofs_C01_set.R1 tco r ce slots caps -> Proofs_C01_set.R2 e r ce ->
    Proofs_C01_set.Srel tco (b_store st) H -> Proofs_C01_set.Grel tco (b_glob st) MG ->
    length fs + n <= limit ->
    Proofs_C01_set.tail_ok tail C (pc + length (S.compile tco ce (length slots) tail e)) (length slots) fs ->
    match res with
    | BVal v st' => exists mv MG' H', Proofs_C01_set.vrel tco v mv /\ Proofs_C01_set.Srel tco (b_store st') H' /\
        Proofs_C01_set.Grel tco (b_glob st') MG' /\
        Proofs_C01_set.outcome limit tail (S.mkVM C pc (below ++ slots) fs MG H) C
          (pc + length (S.compile tco ce (length slots) tail e)) below slots fs mv MG' H'
    | BErr k => exists s', S.star limit (S.mkVM C pc (below ++ slots) fs MG H) s' /\ S.vm_step limit s' = S.SErr k
    end.
Proof. intros limit tco n. exact (Proofs_C01_set.sim_all limit tco n). Qed.

(* whole programs with define / set! / boxes, from the initial states, both compilation modes *)
Theorem C01_program_simulation_set :
  forall limit tco n ds main res,
  brun_program n ds main = Some res -> n <= limit ->
  match res with
  | BVal v _ => exists k mv s', Proofs_C01_set.vrel tco v mv /\ S.vm_program limit tco false k ds main = S.RDone mv s'
  | BErr ek => exists k, S.vm_program limit tco false k ds main = S.RErr ek
  end.
Proof. exact Proofs_C01_set.s_sim_program. Qed.

Theorem C01_program_render_set :
  forall limit tco n ds main res,
  brun_program n ds main = Some res -> n <= limit ->
  exists k, S.render_run (S.vm_program limit tco false k ds main) = render_bresult (Some res).
Proof. exact Proofs_C01_set.s_program_render. Qed.

(* set! on a global yields the OLD value; the variable then evaluates to the assigned value *)
Theorem C01_set_returns_old : forall n r g e st v st1 old,
  beval n r e st = Some (BVal v st1) -> Core.lookup g (b_glob st1) = Some old ->
  beval (S n) r (BSetG g e) st = Some (BVal old (mkB (b_store st1) ((g, v) :: b_glob st1))) /\
  Core.lookup g ((g, v) :: b_glob st1) = Some v.
Proof. exact Proofs_C01_set.set_global_old. Qed.

(* The SETLOCAL refinement: as C01_simulation_set for the language with in-place assignment of un-captured
   locals.  The source environment r' after the evaluation and the frame's slots after the run are again
   related ([R1 r' ce slots']), nothing but variable slots changed ([frame_ok]: operands already pushed and
   other temporaries are untouched), [post] = returned to the caller (tail) / value pushed above slots'. *)
Theorem C01_simulation_setlocal :
  forall limit tco n r e st res, leval n r e st = Some res ->
  forall ce tail C pc below slots caps fs MG H,
    code_at C pc (L.compile tco ce (length slots) tail e) ->
    length below = S.cur_sp fs -> Proofs_C01_setl.frame_caps fs caps ->
    Proofs_C01_setl.R1 tco r ce slots caps -> Proofs_C01_setl.R2 e r ce ->
    L.wf ce (length slots) e = true -> Proofs_C01_setl.ce_lt ce (length slots) -> Proofs_C01_setl.slots_inj ce ->
    Proofs_C01_setl.Srel tco (l_store st) H -> Proofs_C01_setl.Grel tco (l_glob st) MG ->
    length fs + n <= limit ->
    Proofs_C01_setl.tail_ok tail C (pc + length (L.compile tco ce (length slots) tail e)) (length slots) fs ->
    match res with
    | LVal v r' st' => exists mv MG' H', Proofs_C01_setl.vrel tco v mv /\ Proofs_C01_setl.Srel tco (l_store st') H' /\
        Proofs_C01_setl.Grel tco (l_glob st') MG' /\
        Proofs_C01_setl.post limit tco tail r' ce caps (S.mkVM C pc (below ++ slots) fs MG H) C
          (pc + length (L.compile tco ce (length slots) tail e)) below slots fs mv MG' H'
    | LErr k => exists s', S.star limit (S.mkVM C pc (below ++ slots) fs MG H) s' /\ S.vm_step limit s' = S.SErr k
    end.
Proof. intros limit tco n. exact (Proofs_C01_setl.sim_all limit tco n). Qed.

(* whole programs of the SETLOCAL variant ([L.wf_program]: every definition and the main expression are
   well formed w.r.t. the empty compile-time environment) *)
Theorem C01_program_simulation_setlocal :
  forall limit tco n ds main res,
  lrun_program n ds main = Some res -> n <= limit -> L.wf_program ds main = true ->
  match res with
  | LVal v _ _ => exists k mv s', Proofs_C01_setl.vrel tco v mv /\ L.vm_program limit tco false k ds main = S.RDone mv s'
  | LErr ek => exists k, L.vm_program limit tco false k ds main = S.RErr ek
  end.
Proof. exact Proofs_C01_setl.s_sim_program. Qed.

Theorem C01_program_render_setlocal :
  forall limit tco n ds main res,
  lrun_program n ds main = Some res -> n <= limit -> L.wf_program ds main = true ->
  exists k, S.render_run (L.vm_program limit tco false k ds main) = render_lresult (Some res).
Proof. exact Proofs_C01_setl.s_program_render. Qed.

Open Scope string_scope.
Example C01_example_setlocal :
  let I z := SConst (KInt z) in let V := SVar in let A f a := SApp (SVar f) a in
  (* (define (h a) (+ a (begin (set! a 10) a) a))  (h 1) = 21 : a stays in its slot, SETLOCAL *)
  let ds := [("h", SLam ["a"] None (A "+" [V "a"; SSeq (SSet "a" (I 10%Z)) (V "a"); V "a"]))] in
  let main := A "h" [I 1%Z] in
  render_sresult (srun_program 100 ds main) = "OK I21"%string /\
  render_lresult (lrun_program 100 (L.conv_defs ds) (assign_convertL main)) = "OK I21"%string /\
  S.render_run (L.vm_program 100 true true 1000 (L.conv_defs ds) (assign_convertL main)) = "OK I21"%string /\
  L.wf_program (L.conv_defs ds) (assign_convertL main) = true /\
  In (SETLOCAL 0) (match L.compile_define true "h" (snd (hd ("", LConst KVoid) (L.conv_defs ds))) with
                   | MKCLOSURE _ _ _ body :: _ => body | _ => [] end).
Proof. vm_compute. repeat split. auto 20. Qed.
Open Scope list_scope.

(* ------------------------------------------------------------------ the boxing pass
   [Proofs_C01_conv.clean e]: no identifier of e is one of the reserved names #%box / #%unbox / #%set-box!
   and the binders of one lambda / let are pairwise distinct.  World W: for every source location either
   [LBox a] (location of an assigned local, corresponds to box a) or [LImm v] (never-assigned local,
   corresponds to the immutable converted value v); [E] relates the environments through W, [inv] says every
   local assigned in e is boxed, [StoreRel] / [GlobRel] relate stores and globals, [V] values, [ext] world
   extension.  The converted program may need more fuel (m) than the reference run (n). *)
Theorem C01_assign_convert_correct :
  forall n rs e st res, seval n rs e st = Some res ->
  forall W bx rb stb,
    Proofs_C01_conv.E W bx rs rb -> Proofs_C01_conv.inv bx rs e -> Proofs_C01_conv.clean e = true ->
    Proofs_C01_conv.StoreRel W (s_store st) (b_store stb) -> Proofs_C01_conv.GlobRel W (s_glob st) (b_glob stb) ->
    exists m,
      match res with
      | SVal v st' => exists W' bv stb', Proofs_C01_conv.ext W W' /\
          beval m rb (aconv bx e) stb = Some (BVal bv stb') /\ Proofs_C01_conv.V W' v bv /\
          Proofs_C01_conv.StoreRel W' (s_store st') (b_store stb') /\
          Proofs_C01_conv.GlobRel W' (s_glob st') (b_glob stb')
      | CoreS.SErr k => beval m rb (aconv bx e) stb = Some (BErr k)
      end.
Proof. intros n. exact (Proofs_C01_conv.conv_all n). Qed.

Theorem C01_assign_convert_program : forall n ds main sres,
  srun_program n ds main = Some sres -> Proofs_C01_conv.clean_prog ds main = true ->
  exists m bres, brun_program m (S.conv_defs ds) (assign_convert main) = Some bres /\
                 render_bresult (Some bres) = render_sresult (Some sres) /\
                 match sres, bres with
                 | SVal v _, BVal bv _ => exists W, Proofs_C01_conv.V W v bv
                 | CoreS.SErr k, BErr k' => k = k'
                 | _, _ => False
                 end.
Proof. exact Proofs_C01_conv.assign_convert_program. Qed.

(* END TO END for the assignment layer: for every evaluation unit of the fragment (clean), whatever the
   reference store semantics computes (value or error) is what the compiled code computes on the heap VM,
   in both compilation modes, for every frame limit above the fuel m of the converted run. *)
Theorem C01_end_to_end_set : forall forms ds ms n sres,
  ssplit_unit forms = Some (ds, ms) -> Proofs_C01_conv.clean_prog ds (sseq_of ms) = true ->
  srun_program n ds (sseq_of ms) = Some sres ->
  S.unit_render_ref n forms = render_sresult (Some sres) /\
  exists m, forall limit tco, m <= limit ->
    exists k, S.unit_render_vm limit tco false k forms = render_sresult (Some sres).
Proof.
  intros forms ds ms n sres Hsp Hcl Hrun. split.
  - unfold S.unit_render_ref. rewrite Hsp, Hrun. auto.
  - destruct (Proofs_C01_conv.assign_convert_program n ds (sseq_of ms) sres Hrun Hcl) as (m & bres & Hb & Hr & _).
    exists m. intros limit tco Hl.
    destruct (Proofs_C01_set.s_program_render limit tco m _ _ bres Hb Hl) as [k Hk].
    exists k. unfold S.unit_render_vm. rewrite Hsp.
    change (S.conv_defs ds) with (Proofs_C01_conv.cdefs ds). rewrite Hk. exact Hr.
Qed.

(* non-vacuity of the assignment layer: a counter closure over an assigned captured local *)
Example C01_example_set :
  let I z := SConst (KInt z) in let V := SVar in let A f a := SApp (SVar f) a in
  let mk := ("mk", SLam [] None (SLet [("c", I 0%Z)]
               (SLam [] None (SSeq (SSet "c" (A "+" [V "c"; I 1%Z])) (V "c"))))) in
  let ds := [mk; ("k", A "mk" [])] in
  let main := SSeq (A "k" []) (SSeq (A "k" []) (A "+" [A "k" []; I 100%Z])) in
  render_sresult (srun_program 100 ds main) = "OK I103"%string /\
  render_bresult (brun_program 100 (S.conv_defs ds) (assign_convert main)) = "OK I103"%string /\
  S.render_run (S.vm_program 100 true true 1000 (S.conv_defs ds) (assign_convert main)) = "OK I103"%string.
Proof. vm_compute. repeat split. Qed.

(* non-vacuity: a tail-recursive loop and a closure-returning program, both modes *)
Example C01_example_loop :
  let I z := EConst (KInt z) in let V := EVar in let A f a := EApp (EVar f) a in
  let loopd := ("loop", ELam ["i"; "acc"] None (EIf (A "=" [V "i"; I 0%Z]) (V "acc")
                   (A "loop" [A "-" [V "i"; I 1%Z]; A "+" [V "acc"; V "i"]]))) in
  render_result (run_program 200 [loopd] (A "loop" [I 20%Z; I 0%Z])) = "OK I210"%string /\
  render_run (vm_program 100 true false 2000 [loopd] (A "loop" [I 20%Z; I 0%Z])) = "OK I210"%string /\
  render_run (vm_program 100 false false 2000 [loopd] (A "loop" [I 20%Z; I 0%Z])) = "OK I210"%string /\
  render_run (vm_program 15 false false 2000 [loopd] (A "loop" [I 20%Z; I 0%Z])) = "ERR Generic"%string /\
  render_run (vm_program 15 true true 2000 [loopd] (A "loop" [I 20%Z; I 0%Z])) = "OK I210"%string.
Proof. vm_compute. repeat split. Qed.

Example C01_example_rest :
  let I z := EConst (KInt z) in let V := EVar in
  (* ((lambda (a . r) r) 1 2 3)  and  ((lambda (a b . r) a)) with too few operands *)
  render_result (run_program 50 [] (EApp (ELam ["a"] (Some "r") (V "r")) [I 1%Z; I 2%Z; I 3%Z])) = "OK (I2 I3)"%string /\
  render_run (vm_program 100 true true 500 [] (EApp (ELam ["a"] (Some "r") (V "r")) [I 1%Z; I 2%Z; I 3%Z])) = "OK (I2 I3)"%string /\
  render_run (vm_program 100 true false 500 [] (EApp (ELam ["a"; "b"] (Some "r") (V "a")) [I 1%Z])) = "ERR ArityMismatch"%string /\
  render_result (run_program 50 [] (EApp (ELam ["a"; "b"] (Some "r") (V "a")) [I 1%Z])) = "ERR ArityMismatch"%string.
Proof. vm_compute. repeat split. Qed.
